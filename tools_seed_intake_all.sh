#!/bin/bash
# tools_seed_intake_all.sh <seed-name>   like tools_seed_intake.sh, evaluated against ALL twenty checks (quick tier)
N=$1
exec /verif/tools_seed_intake.sh $N C01 C02 C03 C04 C05 C06 C07 C08 C09 C10 C11 C12 C13 C14 C15 C16 C17 C18 C19 C20
