#!/usr/bin/env python3
"""tools_manifest_add.py Cnn "<level text>" "<level note>" "<technique>"  — move a property from not_applicable to checks"""
import json, sys
pid, text, note, tech = sys.argv[1:5]
m = json.load(open('MANIFEST.json'))
m['checks'] = [c for c in m['checks'] if c['property_id'] != pid]
m['checks'].append({
    "property_id": pid, "quick_cmd": "./check %s --tier quick" % pid, "thorough_cmd": "./check %s --tier thorough" % pid,
    "evidence_file": "evidence/%s.json" % pid, "replay_cmd_template": "./check %s --replay {path}" % pid,
    "engine": "lean-proof+correspondence",
    "level_claimed": {"category": "proof", "text": text, "design_ref": "DESIGN.md 4/%s" % pid},
    "level_note": note, "technique": tech})
m['checks'].sort(key=lambda c: c['property_id'])
m['not_applicable'] = [x for x in m.get('not_applicable', []) if x['property_id'] != pid]
sp = set(m['engines'][0]['serves_properties']); sp.add(pid)
m['engines'][0]['serves_properties'] = sorted(sp)
json.dump(m, open('MANIFEST.json', 'w'), indent=1)
print('added', pid)
