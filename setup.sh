#!/bin/sh
# Build the framework from files on disk only (offline).
set -e
cd "$(dirname "$0")"
export GOFLAGS=-mod=mod GOPROXY=off GOSUMDB=off GOTOOLCHAIN=local
(cd lean && lake build)
mkdir -p harness/bin evidence replays
cp /repo/go.sum harness/go.sum
(cd harness && go build -tags verif -o bin/ottoh ./cmd/ottoh)
echo setup ok
