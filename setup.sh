#!/bin/sh
# Build the framework from files on disk only (offline).
set -e
cd "$(dirname "$0")"
export GOFLAGS=-mod=mod GOPROXY=off GOSUMDB=off GOTOOLCHAIN=local
mkdir -p harness/bin evidence replays
cp /repo/go.sum harness/go.sum
# regenerated Lean data files (git-ignored) must exist before the first lake build
python3 - <<'PY'
import json, glob, subprocess, sys
for f in sorted(glob.glob('checks/*.json')):
    for g in json.load(open(f)).get('regen', []):
        print('regen', f, flush=True)
        r = subprocess.run(g['cmd'], shell=True)
        if r.returncode != 0:
            print('regen failed for', f, file=sys.stderr)
PY
(cd lean && lake build)
(cd harness && for d in cmd/c*; do id=$(basename $d | tr a-z A-Z); go build -tags verif -o bin/ottoh-$id ./$d || echo "harness $id failed to build"; done)
echo setup ok
