#!/bin/sh
# Build the framework from files on disk only (offline).
set -e
cd "$(dirname "$0")"
export GOFLAGS=-mod=mod GOPROXY=off GOSUMDB=off GOTOOLCHAIN=local
(cd lean && lake build)
mkdir -p harness/bin evidence replays
cp /repo/go.sum harness/go.sum
(cd harness && for d in cmd/c*; do id=$(basename $d | tr a-z A-Z); go build -tags verif -o bin/ottoh-$id ./$d; done)
echo setup ok
