#!/usr/bin/env python3
"""After REVIEWING a change of the audited list: rewrite the literal of C02.Thm.unchecked_assertions_expected
from the regenerated lean/OttoVerif/C02/GenFacts.lean and print what was added / removed."""
import re
g=open('/verif/lean/OttoVerif/C02/GenFacts.lean').read()
m=re.search(r'def uncheckedAssertions : List \(String × String\) := \[(.*?)\]\n', g, re.S)
new=re.findall(r'\("([^"]+)", "([^"]+)"\)', m.group(1))
p='/verif/lean/OttoVerif/C02/Theorems.lean'
s=open(p).read()
t=re.search(r'(theorem unchecked_assertions_expected : Gen.uncheckedAssertions =\s*\[)(.*?)(\] := by decide)', s, re.S)
old=re.findall(r'\("([^"]+)", "([^"]+)"\)', t.group(2))
from collections import Counter
print("added:", list((Counter(new)-Counter(old)).elements()))
print("removed:", list((Counter(old)-Counter(new)).elements()))
lit=",\n     ".join('("%s", "%s")'%(a,b) for a,b in new)
s=s[:t.start(2)]+lit+s[t.end(2):]
open(p,'w').write(s)
