#!/bin/bash
# tools_seed_eval2.sh <seed-dir> <check-id>...   evaluate a seeded patch WITHOUT touching /repo: a scratch
# worktree of /repo HEAD gets the patch and the checks run against it (VERIF_REPO development aid of ./check).
# Prints one line per check: CAUGHT / MISSED with the first VIOLATION line.  (tools_seed_eval.sh does the
# same by applying the patch to /repo itself and undoing it.)
set -u
SD=$(cd $1 && pwd); shift
export GOFLAGS=-mod=mod GOPROXY=off GOSUMDB=off GOTOOLCHAIN=local
WT=/tmp/wt-seed-$(basename $SD)
git -C /repo worktree remove --force $WT >/dev/null 2>&1
git -C /repo worktree add --detach $WT HEAD >/dev/null 2>&1 || { echo "cannot create worktree"; exit 2; }
trap 'git -C /repo worktree remove --force $WT >/dev/null 2>&1' EXIT
git -C $WT apply $SD/patch.diff || { echo "patch does not apply to /repo HEAD"; exit 2; }
( cd $WT && go build ./... && go test -vet=off -count=1 ./... 2>&1 | grep -v "no test files" | tr '\n' ' ' ); echo
for id in "$@"; do
  out=$(cd /verif && VERIF_REPO=$WT VERIF_SEED=${VERIF_SEED:-1} ./check $id --tier ${TIER:-quick} 2>&1)
  rc=$?
  v=$(echo "$out" | grep -m1 '^VIOLATION' | cut -c1-200)
  n=$(echo "$out" | grep -c '^VIOLATION')
  if [ $rc -ne 0 ] && [ -n "$v" ]; then echo "$id CAUGHT ($n violation lines): $v"; rp=$(echo "$v" | sed -n 's/.*replay=\([^ ]*\).*/\1/p'); [ -f "$rp" ] && head -c 700 "$rp" | sed 's/^/    /'; else echo "$id MISSED (rc=$rc): $(echo "$out" | tail -1 | cut -c1-160)"; fi
done
