#!/bin/bash
# tools_seed_eval.sh <seed-dir> <check-id>...   apply the seeded patch to /repo, run the checks, undo it.
# Prints one line per check: CAUGHT / MISSED with the first VIOLATION line.
set -u
SD=$1; shift
export GOFLAGS=-mod=mod GOPROXY=off GOSUMDB=off GOTOOLCHAIN=local
P=$SD/patch.diff
if [ ! -f "$P" ]; then (cd $SD && git diff > patch.diff); fi
[ -s "$P" ] || { echo "empty patch"; exit 2; }
if ! git -C /repo apply --check "$P" 2>/dev/null; then echo "patch does not apply to /repo HEAD"; exit 2; fi
git -C /repo apply "$P"
trap 'git -C /repo apply -R "$P"' EXIT
( cd /repo && go build ./... && go test -vet=off -count=1 ./... 2>&1 | grep -v "no test files" | tr '\n' ' ' ); echo
for id in "$@"; do
  out=$(cd /verif && VERIF_SEED=${VERIF_SEED:-1} ./check $id --tier ${TIER:-quick} 2>&1)
  rc=$?
  v=$(echo "$out" | grep -m1 '^VIOLATION' | cut -c1-200)
  if [ $rc -ne 0 ] && [ -n "$v" ]; then echo "$id CAUGHT: $v"; rp=$(echo "$v" | sed -n 's/.*replay=\([^ ]*\).*/\1/p'); [ -f "$rp" ] && head -c 900 "$rp" | sed 's/^/    /'; else echo "$id MISSED (rc=$rc): $(echo "$out" | tail -1 | cut -c1-160)"; fi
done
