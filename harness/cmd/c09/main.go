// Command c09 is the correspondence harness binary for property C09.
package main

import "ottoverif/h"

func main() { h.Main("C09") }
