package main

import (
	"encoding/hex"
	"fmt"
	"math"
	"sort"
	"strconv"
	"strings"
	"sync"
	"unicode"
	"unicode/utf16"

	"github.com/robertkrimen/otto"
	"ottoverif/h"
)

func init() {
	h.Register(&h.Prop{ID: "C09", Gen: genC09, Impl: implC09, Trivial: func(l string) bool { return false }})
}

// ---------------------------------------------------------------- implementation side

var vmPool = sync.Pool{New: func() interface{} { return otto.New() }}

func unitsTok(us []uint16) string {
	var b strings.Builder
	b.WriteString("s:")
	for _, u := range us {
		fmt.Fprintf(&b, "%04x", u)
	}
	return b.String()
}

// resTok renders a result Value canonically.
func resTok(vm *otto.Otto, op string, v otto.Value) string {
	switch {
	case v.IsUndefined():
		return "undef"
	case v.IsNull():
		return "null"
	case v.IsString():
		us, _ := otto.VerifStringUnits(v)
		return unitsTok(us)
	case v.IsNumber():
		f, _ := v.ToFloat()
		if math.IsNaN(f) {
			return "nan"
		}
		if op == "localeCompare" { // only the sign is specified
			switch {
			case f < 0:
				return "i:-1"
			case f > 0:
				return "i:1"
			}
			return "i:0"
		}
		if f == math.Trunc(f) && math.Abs(f) < 1e18 {
			return "i:" + strconv.FormatInt(int64(f), 10)
		}
		return "f:" + h.F64Hex(f)
	case v.IsBoolean():
		b, _ := v.ToBoolean()
		return "b:" + h.BoolTok(b)
	case v.IsObject():
		o := v.Object()
		if o.Class() != "Array" {
			return "obj:" + o.Class()
		}
		lv, _ := o.Get("length")
		n, _ := lv.ToInteger()
		parts := make([]string, 0, n)
		for i := int64(0); i < n; i++ {
			ev, _ := o.Get(strconv.FormatInt(i, 10))
			us, ok := otto.VerifStringUnits(ev)
			if !ok {
				return "arr-nonstring"
			}
			parts = append(parts, strings.TrimPrefix(unitsTok(us), "s:"))
		}
		return fmt.Sprintf("a%d:%s", n, strings.Join(parts, ","))
	}
	return "other"
}

func setRecv(vm *otto.Otto, tok string) error {
	i := strings.IndexByte(tok, ':')
	kind, payload := "", ""
	if i >= 0 {
		kind, payload = tok[:i], tok[i+1:]
	}
	switch kind {
	case "w": // a []uint16 string: built in JS by String.fromCharCode
		var args []string
		for j := 0; j+4 <= len(payload); j += 4 {
			args = append(args, "0x"+payload[j:j+4])
		}
		v, err := vm.Run("String.fromCharCode(" + strings.Join(args, ",") + ")")
		if err != nil {
			return err
		}
		return vm.Set("r", v)
	case "S", "O":
		b, err := hex.DecodeString(payload)
		if err != nil {
			return err
		}
		if err := vm.Set("t", string(b)); err != nil {
			return err
		}
		src := "r = new String(t)"
		if kind == "O" {
			src = "r = (function(x){ return {toString: function(){ return x }} })(t)"
		}
		_, err = vm.Run(src)
		return err
	}
	return vm.Set("r", h.ParseVal(tok))
}

func implC09(line string) (res string) {
	f := strings.Fields(line)
	if f[0] == "seq" {
		return implSeq(f[1], f[2], f[3:])
	}
	if f[0] == "plus" || f[0] == "eqpair" {
		return implPair(f[0], f[1], f[2])
	}
	op, rt, args := f[0], f[1], f[2:]
	vm := vmPool.Get().(*otto.Otto)
	healthy := true
	if strings.HasPrefix(rt, "T") {
		// String.prototype.toString is replaced: use a runtime of its own and never pool it
		vmPool.Put(vm)
		vm = otto.New()
		healthy = false
	}
	defer func() {
		if r := recover(); r != nil {
			res = "panic"
			healthy = false
		}
		if healthy {
			vmPool.Put(vm)
		}
	}()
	names := make([]string, len(args))
	for i, a := range args {
		names[i] = fmt.Sprintf("a%d", i)
		if err := vm.Set(names[i], h.ParseVal(a)); err != nil {
			return "harness-error:set"
		}
	}
	al := strings.Join(names, ",")
	var src string
	if c09OwnOps[op] {
		return implOwn(vm, op, rt, names)
	}
	if op == "fromCharCode" {
		src = "String.fromCharCode(" + al + ")"
	} else {
		how, recv := rt[:1], rt[1:]
		if err := setRecv(vm, recv); err != nil {
			return "harness-error:recv"
		}
		switch {
		case op == "length" && how == "M":
			src = "r.length"
		case op == "index" && how == "M":
			src = "r[a0]"
		case how == "M":
			src = "r." + op + "(" + al + ")"
		case how == "T":
			src = `String.prototype.toString = function () { return "zzz" }; r.` + op + "(" + al + ")"
		case how == "C":
			if al != "" {
				al = "," + al
			}
			src = "String.prototype." + op + ".call(r" + al + ")"
		case how == "F":
			src = "(function(){ var f = String.prototype." + op + "; return f(" + al + "); })()"
		default:
			return "bad-op"
		}
	}
	v, err := vm.Run(src)
	if err != nil {
		if oe, ok := err.(*otto.Error); ok {
			msg := oe.Error()
			if i := strings.IndexByte(msg, ':'); i > 0 {
				return "throw:" + msg[:i]
			}
			return "throw:" + strings.ReplaceAll(msg, " ", "_")
		}
		return "error:" + strings.ReplaceAll(err.Error(), " ", "_")
	}
	return resTok(vm, op, v)
}

// implPair: `plus w:<a> w:<b>` is a + b, `eqpair` is (a + b) === String.fromCharCode(a…, b…), for []uint16 strings.
func implPair(op, ta, tb string) (res string) {
	vm := otto.New()
	defer func() {
		if r := recover(); r != nil {
			res = "panic"
		}
	}()
	lit := func(tok string) string {
		var args []string
		p := strings.TrimPrefix(tok, "w:")
		for j := 0; j+4 <= len(p); j += 4 {
			args = append(args, "0x"+p[j:j+4])
		}
		return strings.Join(args, ",")
	}
	src := "String.fromCharCode(" + lit(ta) + ") + String.fromCharCode(" + lit(tb) + ")"
	if op == "eqpair" {
		both := lit(ta)
		if lit(tb) != "" {
			if both != "" {
				both += ","
			}
			both += lit(tb)
		}
		src = "(" + src + ") === String.fromCharCode(" + both + ")"
	}
	v, tok := runTok(vm, src)
	if tok != "" {
		return tok
	}
	return resTok(vm, op, v)
}

// ---------------------------------------------------------------- order of conversions (scripted operands)

const seqPrelude = `var log = ""; var THROW = {};
function mk(id, outs) {
	var i = 0;
	var f = function () {
		log += id;
		var o = outs[i < outs.length ? i : outs.length - 1];
		i++;
		if (o === THROW) { throw new Error("script"); }
		return o;
	};
	return {valueOf: f, toString: f};
}
var RETOBJ = {};
function script(tag, outs) {
	var i = 0;
	return function () {
		log += tag;
		var o = outs[i < outs.length ? i : outs.length - 1];
		i++;
		if (o === THROW) { throw new Error("script"); }
		if (o === RETOBJ) { return {}; }
		return o;
	};
}
function mk2(vo, ts) {
	var o = {};
	if (vo !== undefined) { o.valueOf = vo; }
	if (ts !== undefined) { o.toString = ts; }
	return o;
}`

// implSeq runs String.prototype.<m>.call(R, A0, A1, …) where each operand is a primitive (P<value>) or an object
// whose valueOf/toString log the call and return scripted primitives or throw (O<out>/<out>…, `!` = throw).
func implSeq(m, rt string, as []string) (res string) {
	vm := otto.New()
	defer func() {
		if r := recover(); r != nil {
			res = "panic"
		}
	}()
	if _, err := vm.Run(seqPrelude); err != nil {
		return "harness-error:prelude"
	}
	nv := 0
	operand := func(id, tok string) (string, bool) {
		if strings.HasPrefix(tok, "P") {
			name := fmt.Sprintf("v%d", nv)
			nv++
			if vm.Set(name, h.ParseVal(tok[1:])) != nil {
				return "", false
			}
			return name, true
		}
		if strings.HasPrefix(tok, "D") {
			// distinct valueOf / toString scripts: `-` absent, `~` not callable, else outcomes (`!` throw, `@` returns an object)
			parts := strings.Split(tok[1:], "|")
			if len(parts) != 2 {
				return "", false
			}
			var fs [2]string
			for k, part := range parts {
				switch part {
				case "-":
					fs[k] = "undefined"
				case "~":
					fs[k] = "1"
				default:
					var outs []string
					for _, o := range strings.Split(part, "/") {
						switch o {
						case "!":
							outs = append(outs, "THROW")
						case "@":
							outs = append(outs, "RETOBJ")
						default:
							name := fmt.Sprintf("v%d", nv)
							nv++
							if vm.Set(name, h.ParseVal(o)) != nil {
								return "", false
							}
							outs = append(outs, name)
						}
					}
					fs[k] = `script("` + id + []string{"v", "t"}[k] + `", [` + strings.Join(outs, ",") + `])`
				}
			}
			return "mk2(" + fs[0] + ", " + fs[1] + ")", true
		}
		if !strings.HasPrefix(tok, "O") {
			return "", false
		}
		var outs []string
		for _, o := range strings.Split(tok[1:], "/") {
			if o == "!" {
				outs = append(outs, "THROW")
				continue
			}
			name := fmt.Sprintf("v%d", nv)
			nv++
			if vm.Set(name, h.ParseVal(o)) != nil {
				return "", false
			}
			outs = append(outs, name)
		}
		return `mk("` + id + `", [` + strings.Join(outs, ",") + `])`, true
	}
	call := "String.prototype." + m + ".call("
	e, ok := operand("R", rt)
	if !ok {
		return "bad-op"
	}
	call += e
	for i, a := range as {
		e, ok := operand(strconv.Itoa(i), a)
		if !ok {
			return "bad-op"
		}
		call += ", " + e
	}
	call += ")"
	v, tok := runTok(vm, call)
	if tok == "" {
		tok = resTok(vm, m, v)
	}
	lv, err := vm.Get("log")
	if err != nil {
		return "harness-error:log"
	}
	lg, _ := lv.ToString()
	if lg == "" {
		lg = "-"
	}
	return lg + ";" + tok
}

// ---------------------------------------------------------------- own-property observers of String objects

var c09OwnOps = map[string]bool{"hasown": true, "in": true, "desc": true, "isenum": true, "define": true, "keys": true, "ownnames": true, "forin": true}

func runTok(vm *otto.Otto, src string) (otto.Value, string) {
	v, err := vm.Run(src)
	if err != nil {
		if oe, ok := err.(*otto.Error); ok {
			msg := oe.Error()
			if i := strings.IndexByte(msg, ':'); i > 0 {
				return v, "throw:" + msg[:i]
			}
		}
		return v, "error:" + strings.ReplaceAll(err.Error(), " ", "_")
	}
	return v, ""
}

func nameList(v otto.Value) ([]string, bool) {
	if !v.IsObject() || v.Object().Class() != "Array" {
		return nil, false
	}
	o := v.Object()
	lv, _ := o.Get("length")
	n, _ := lv.ToInteger()
	out := make([]string, 0, n)
	for i := int64(0); i < n; i++ {
		ev, _ := o.Get(strconv.FormatInt(i, 10))
		if !ev.IsString() {
			return nil, false
		}
		s, _ := ev.ToString()
		out = append(out, s)
	}
	return out, true
}

func namesTok(ns []string) string {
	ns = append([]string(nil), ns...)
	sort.Strings(ns)
	parts := make([]string, len(ns))
	for i, n := range ns {
		parts[i] = h.UnitsHex(n)
	}
	return fmt.Sprintf("a%d:%s", len(ns), strings.Join(parts, ","))
}

func implOwn(vm *otto.Otto, op, rt string, names []string) string {
	how, recv := rt[:1], rt[1:]
	if err := setRecv(vm, recv); err != nil {
		return "harness-error:recv"
	}
	listOp := op == "keys" || op == "ownnames" || op == "forin"
	exps := names
	if !listOp {
		if len(names) == 0 {
			return "bad-op"
		}
		exps = names[1:]
	}
	pre := "var o = Object(r);"
	for _, e := range exps {
		pre += " o[" + e + "] = 1;"
	}
	if _, tok := runTok(vm, pre); tok != "" {
		return tok
	}
	recvExpr := "o"
	if len(exps) == 0 {
		recvExpr = "r" // the receiver itself: a primitive is boxed by the callee
	}
	switch op {
	case "hasown", "isenum":
		m := map[string]string{"hasown": "hasOwnProperty", "isenum": "propertyIsEnumerable"}[op]
		src := recvExpr + "." + m + "(a0)"
		if how == "C" {
			src = "Object.prototype." + m + ".call(" + recvExpr + ", a0)"
		}
		v, tok := runTok(vm, src)
		if tok != "" {
			return tok
		}
		return resTok(vm, op, v)
	case "in":
		v, tok := runTok(vm, "a0 in o")
		if tok != "" {
			return tok
		}
		return resTok(vm, op, v)
	case "define":
		v, tok := runTok(vm, `Object.defineProperty(o, a0, {value: "x"}); o[a0]`)
		if tok != "" {
			return tok
		}
		return resTok(vm, op, v)
	case "desc":
		v, tok := runTok(vm, "Object.getOwnPropertyDescriptor(o, a0)")
		if tok != "" {
			return tok
		}
		if v.IsUndefined() {
			return "undef"
		}
		d := v.Object()
		flag := func(k string) string {
			fv, _ := d.Get(k)
			b, _ := fv.ToBoolean()
			if fv.IsBoolean() && b {
				return "0001"
			}
			return "0000"
		}
		wec := flag("writable") + flag("enumerable") + flag("configurable")
		val, _ := d.Get("value")
		if val.IsNumber() {
			n, _ := val.ToInteger()
			return fmt.Sprintf("a3:%04x,%s,", n, wec)
		}
		us, ok := otto.VerifStringUnits(val)
		if !ok {
			return "desc-value-other"
		}
		return "a2:" + strings.TrimPrefix(unitsTok(us), "s:") + "," + wec
	case "keys", "ownnames":
		fn := map[string]string{"keys": "Object.keys", "ownnames": "Object.getOwnPropertyNames"}[op]
		v, tok := runTok(vm, fn+"(o)")
		if tok != "" {
			return tok
		}
		ns, ok := nameList(v)
		if !ok {
			return "not-a-name-list"
		}
		return namesTok(ns)
	case "forin":
		v, tok := runTok(vm, "(function(){ var a = []; for (var k in o) a.push(k); return a })()")
		if tok != "" {
			return tok
		}
		ns, ok := nameList(v)
		kv, tok2 := runTok(vm, "Object.keys(o)")
		ks, ok2 := nameList(kv)
		if !ok || !ok2 || tok2 != "" {
			return "not-a-name-list"
		}
		t := namesTok(ns)
		if strings.Join(ns, "\x00") != strings.Join(ks, "\x00") {
			t += "!order-differs-from-Object.keys"
		}
		return t
	}
	return "bad-op"
}

// ---------------------------------------------------------------- generator

var c09Alphabet = []rune{'a', 'b', 'c', 'a', 'b', 'A', 'Z', '0', '1', ' ', '\t', '\n', ',', 'é', 'ß', 'İ', 0xA0, 0x7F, 0x80, 0xFF, 0x3A3,
	'€', 0x2028, 0x180E, 0x200B, 0xFEFF, 0x3000, 0xFFFD, 0xFFFF, 0xE000, 0xD7FF, 0xFB00,
	0x10000, 0x1D4B3, 0x10400, 0x10FFFF, 0x1F600}

func randString(r *h.Rng, maxUnits int) string {
	n := r.Intn(maxUnits + 1)
	mode := r.Intn(10) // 0-3 ASCII only, 4-5 up to Latin-1/BMP, 6-9 anything
	var b strings.Builder
	units := 0
	for units < n {
		var c rune
		switch {
		case mode <= 3:
			c = rune("abcabAZ01 ,\t"[r.Intn(12)])
		case mode <= 5:
			c = c09Alphabet[r.Intn(32)]
		default:
			c = c09Alphabet[r.Intn(len(c09Alphabet))]
		}
		if c >= 0x10000 {
			units++
		}
		units++
		b.WriteRune(c)
	}
	return b.String()
}

func randUnits(r *h.Rng, maxUnits int) string {
	n := 1 + r.Intn(maxUnits)
	var b strings.Builder
	for i := 0; i < n; i++ {
		var u int
		switch r.Intn(6) {
		case 0:
			u = 0xD800 + r.Intn(0x400)
		case 1:
			u = 0xDC00 + r.Intn(0x400)
		case 2:
			u = []int{0xFFFD, 0xFFFF, 0xE9, 0x20AC, 0x20}[r.Intn(5)]
		default:
			u = 'a' + r.Intn(3)
		}
		fmt.Fprintf(&b, "%04x", u)
	}
	return b.String()
}

// c09Cased reports whether Go or the UCD full mapping changes the code point (a superset test: anything
// Go maps, plus the characters SpecialCasing.txt expands).
func c09Cased(c rune) bool {
	if unicode.ToLower(c) != c || unicode.ToUpper(c) != c || unicode.ToTitle(c) != c {
		return true
	}
	switch {
	case c == 0xDF || c == 0x149 || c == 0x1F0 || c == 0x390 || c == 0x3B0 || c == 0x587:
		return true
	case c >= 0x1E96 && c <= 0x1E9A, c >= 0x1F50 && c <= 0x1FFC, c >= 0xFB00 && c <= 0xFB17:
		return true
	}
	return false
}

var c09CaseAlphabet = []rune{'a', 'Z', 'i', 'I', 0x130, 0x131, 0xDF, 0x149, 0x1C5, 0x1C4, 0x1C6, 0xFB00, 0xFB03, 0x3A3, 0x3C2, 0x3C3, 0x345, 0xFF, 0xB5, 0x178,
	0x1F80, 0x1F88, 0x1FB3, 0x1FD2, 0x2C2F, 0x2C5F, 0xA7C0, 0x10400, 0x10428, 0x1E900, 0x1E922, 0x1D4B3, 0x587, 0x1E9E, 0x212A, 0x2126, 0x390, ' ', '1', 0xFFFD}

func randCased(r *h.Rng) string {
	n := r.Intn(8)
	var b strings.Builder
	for i := 0; i < n; i++ {
		b.WriteRune(c09CaseAlphabet[r.Intn(len(c09CaseAlphabet))])
	}
	return b.String()
}

func fTok(f float64) string { return "f:" + h.F64Hex(f) }

// positions: the boundary set for a string of n units
func positions(n int) []string {
	fs := []float64{math.NaN(), 0, math.Copysign(0, -1), 0.5, -0.5, 0.9, -0.9, 1, -1, 1.5, -1.5, 2, -2, 3, -3, 4, 5, 7,
		float64(n - 1), float64(n), float64(n + 1), float64(-n), float64(-n - 1), float64(-n + 1), float64(2 * n),
		math.Inf(1), math.Inf(-1), 2147483647, 2147483648, 4294967295, 4294967296, 4294967297, -2147483649, 9007199254740992,
		math.Ldexp(1, 63), -math.Ldexp(1, 63), math.Nextafter(math.Ldexp(1, 63), 0), -math.Nextafter(math.Ldexp(1, 63), 0),
		math.Ldexp(1, 64), 1e19, -1e19, 1e300, -1e300, 5e-324}
	out := []string{"u"}
	for _, f := range fs {
		out = append(out, fTok(f))
	}
	out = append(out, "n", "b:1", "b:0", "i64:1", "i64:-1", "int:2", "i64:9223372036854775807", "i64:-9223372036854775808",
		"i32:3", "u8:1", "u64:18446744073709551615", h.BytesTok("1"), h.BytesTok(" 2 "), h.BytesTok("x"), h.BytesTok(""), h.BytesTok("-1"),
		h.BytesTok("Infinity"), h.BytesTok("-Infinity"), h.BytesTok("1e3"), h.BytesTok("0x2"))
	return out
}

func smallPositions(n int) []string {
	fs := []float64{math.NaN(), 0, 0.9, -0.5, 1, -1, 2, -2, 3, float64(n), float64(n + 1), float64(-n - 1), math.Inf(1), math.Inf(-1),
		4294967296, math.Ldexp(1, 63), -math.Ldexp(1, 63), 1e300}
	out := []string{"u"}
	for _, f := range fs {
		out = append(out, fTok(f))
	}
	return append(out, "i64:1", h.BytesTok("1"))
}

func unitLen(s string) int { return len(utf16.Encode([]rune(s))) }

func randPos(r *h.Rng, n int) string {
	switch r.Intn(10) {
	case 0, 1, 2:
		p := positions(n)
		return p[r.Intn(len(p))]
	case 3:
		return fTok(h.RandomDouble(r, h.BoundaryDoubles()))
	case 4:
		return fTok(float64(r.Intn(2*n+3)-n-1) + float64(r.Intn(4))*0.25)
	default:
		return fTok(float64(r.Intn(n+3) - 1))
	}
}

var c09Fixed = []string{"", "a", "abc", "abcabc", "a\u00e9b", "a\U0001d4b3b", "a\ufffdb", "\U0001d4b3", "\u00e9\u20ac\U0001d4b3z", " \t a b \n", "\ufeffx\u00a0", "a,b,,c", "\u00c0\u00c9\u00df", "\U00010400x"}

// receiver picks (how+receiver token, the string the receiver converts to)
func randRecv(r *h.Rng, s string) string {
	hx := hex.EncodeToString([]byte(s))
	switch k := r.Intn(100); {
	case k < 40:
		return "Ms:" + hx
	case k < 52:
		return "MS:" + hx
	case k < 62:
		return "Cs:" + hx
	case k < 70:
		return "CS:" + hx
	case k < 78:
		return "CO:" + hx
	case k < 83:
		return "Mw:" + randUnits(r, 6)
	case k < 86:
		return "Cw:" + randUnits(r, 6)
	case k < 89:
		return "C" + fTok([]float64{0, 5, -17, 12345, 1e20, math.NaN(), math.Inf(1), math.Inf(-1), math.Copysign(0, -1), 4294967296}[r.Intn(10)])
	case k < 90:
		return "Ci64:" + strconv.Itoa(r.Intn(2000)-1000)
	case k < 92:
		return "Cb:" + strconv.Itoa(r.Intn(2))
	case k < 94:
		return "Cu"
	case k < 96:
		return "Cn"
	case k < 98:
		return "Fu"
	case k < 99:
		return "Mu"
	}
	return "Mn"
}

// a search string: mostly a piece of s
func randNeedle(r *h.Rng, s string) string {
	rs := []rune(s)
	switch r.Intn(8) {
	case 0:
		return h.BytesTok("")
	case 1:
		return h.BytesTok(randString(r, 3))
	case 2:
		return []string{"u", "n", "b:1", fTok(1), "i64:12"}[r.Intn(5)]
	}
	if len(rs) == 0 {
		return h.BytesTok("")
	}
	a := r.Intn(len(rs))
	b := a + 1 + r.Intn(minInt(3, len(rs)-a))
	return h.BytesTok(string(rs[a:b]))
}

func minInt(a, b int) int {
	if a < b {
		return a
	}
	return b
}

func genC09(c *h.Ctx) {
	r := c.Rng.Fork() // h.NewRng(seed) streams for nearby seeds are shifted copies of one another; forking decorrelates them
	// (1) boundary cross on fixed strings, member call on a primitive string
	for _, s := range c09Fixed {
		hx := hex.EncodeToString([]byte(s))
		n := unitLen(s)
		ps := smallPositions(n)
		if c.Thorough() {
			ps = positions(n)
		}
		for _, p := range positions(n) {
			c.Add("charAt Ms:"+hx+" "+p, "charAt:cross")
			c.Add("charCodeAt Ms:"+hx+" "+p, "charCodeAt:cross")
			c.Add("index Ms:"+hx+" "+p, "index:cross")
			c.Add("substr Ms:"+hx+" "+p, "substr:cross")
			c.Add("slice Ms:"+hx+" "+p, "slice:cross")
			for _, needle := range []string{"", "b", "c", "bc", "\u00e9", "\U0001d4b3"} {
				c.Add("indexOf Ms:"+hx+" "+h.BytesTok(needle)+" "+p, "indexOf:cross")
				c.Add("lastIndexOf Ms:"+hx+" "+h.BytesTok(needle)+" "+p, "lastIndexOf:cross")
			}
		}
		for _, p := range ps {
			for _, q := range ps {
				c.Add("slice Ms:"+hx+" "+p+" "+q, "slice:cross")
				c.Add("substring Ms:"+hx+" "+p+" "+q, "substring:cross")
				c.Add("substr Ms:"+hx+" "+p+" "+q, "substr:cross")
			}
		}
		c.Add("length Ms:"+hx, "length")
		c.Add("length MS:"+hx, "length")
		for _, op := range []string{"charAt", "charCodeAt", "slice", "substring", "substr", "indexOf", "lastIndexOf", "split", "concat", "trim", "localeCompare"} {
			c.Add(op+" Ms:"+hx, op+":noargs")
		}
	}
	// (2) receiver table: every method on every kind of receiver
	for _, op := range []string{"charAt", "charCodeAt", "slice", "substring", "substr", "indexOf", "lastIndexOf", "split", "concat", "trim", "localeCompare", "toLowerCase", "toUpperCase"} {
		for _, rt := range []string{"Cu", "Cn", "Fu", "Mu", "Mn", "Cs:616263", "Ms:616263", "CS:616263", "MS:616263", "CO:616263", "Cw:0061d8000062", "Mw:0061d8000062",
			"Cf:40c81c8000000000", "Cf:7ff8000000000001", "Cf:7ff0000000000000", "Cb:1", "Cb:0", "Ci64:-45", "Cf:8000000000000000"} {
			for _, a := range []string{"", " " + fTok(1), " " + h.BytesTok("b") + " " + fTok(1)} {
				c.Add(op+" "+rt+a, op+":receivers")
			}
		}
	}
	// (3) index keys
	for _, s := range c09Fixed {
		hx := hex.EncodeToString([]byte(s))
		for _, k := range []string{"0", "1", "2", "01", "+1", "-0", "-1", " 1", "1 ", "1.0", "1e0", "0x1", "4294967294", "4294967295", "4294967296", "9223372036854775808", "", "x", "00", "3", "10"} {
			c.Add("index Ms:"+hx+" "+h.BytesTok(k), "index:keys")
			c.Add("index MS:"+hx+" "+h.BytesTok(k), "index:keys")
		}
	}
	// (3b) case mapping: every code point that has a mapping (quick) / every BMP code point (thorough), 8 per string
	{
		var cps []rune
		for cp := rune(0); cp <= 0x10FFFF; cp++ {
			if cp >= 0xD800 && cp <= 0xDFFF {
				continue
			}
			if c09Cased(cp) || (c.Thorough() && cp < 0x10000) {
				cps = append(cps, cp)
			}
		}
		for i := 0; i < len(cps); i += 8 {
			j := i + 8
			if j > len(cps) {
				j = len(cps)
			}
			hx := hex.EncodeToString([]byte(string(cps[i:j])))
			c.Add("toLowerCase Ms:"+hx, "toLowerCase:table")
			c.Add("toUpperCase Ms:"+hx, "toUpperCase:table")
		}
	}
	// (3c) own-property observers of String objects and primitive strings
	{
		expSets := [][]string{{}, {"foo"}, {"5"}, {"0"}, {"length"}, {"01"}, {"foo", "5", "foo"}, {"7", "bar", "01", "2"}, {"-0", "+1"}}
		expToks := func(es []string) string {
			var b strings.Builder
			for _, e := range es {
				b.WriteString(" " + h.BytesTok(e))
			}
			return b.String()
		}
		strs := append([]string{}, c09Fixed...)
		for i := 0; i < c.N(40, 4000); i++ {
			strs = append(strs, randString(r, 6))
		}
		for si, s := range strs {
			hx := hex.EncodeToString([]byte(s))
			n := unitLen(s)
			keys := []string{"0", "1", "2", "3", strconv.Itoa(n - 1), strconv.Itoa(n), strconv.Itoa(n + 1), "01", "+1", "-0", "00", "1.0", "1e0", "length", "foo", "", "5", "7",
				"4294967294", "4294967295", "4294967296", "-1", "bar"}
			var ktoks []string
			for _, k := range keys {
				ktoks = append(ktoks, h.BytesTok(k))
			}
			ktoks = append(ktoks, fTok(0), fTok(1), fTok(float64(n)), fTok(math.Copysign(0, -1)), fTok(0.5), "i64:1", "u", "n")
			for ei, es := range expSets {
				if si >= len(c09Fixed) && !c.Thorough() && ei != si%len(expSets) {
					continue
				}
				et := expToks(es)
				for _, op := range []string{"keys", "ownnames", "forin"} {
					c.Add(op+" MS:"+hx+et, op)
				}
				for _, k := range ktoks {
					for _, op := range []string{"hasown", "in", "desc", "isenum"} {
						c.Add(op+" MS:"+hx+" "+k+et, op)
					}
					if len(es) <= 1 {
						c.Add("define MS:"+hx+" "+k+et, "define")
					}
				}
			}
			// primitive receivers (boxed by the callee or by Object()) and []uint16 strings
			for _, k := range ktoks {
				for _, rt := range []string{"Ms:" + hx, "Cs:" + hx, "CS:" + hx} {
					c.Add("hasown "+rt+" "+k, "hasown:prim")
					c.Add("isenum "+rt+" "+k, "isenum:prim")
				}
				c.Add("in Ms:"+hx+" "+k, "in:prim")
				c.Add("desc Ms:"+hx+" "+k, "desc:prim")
			}
			c.Add("keys Ms:"+hx, "keys:prim")
			c.Add("ownnames Ms:"+hx, "ownnames:prim")
			c.Add("forin Ms:"+hx, "forin:prim")
			if si%3 == 0 {
				w := randUnits(r, 5)
				c.Add("ownnames Mw:"+w, "ownnames:w")
				c.Add("hasown Cw:"+w+" "+h.BytesTok("1"), "hasown:w")
			}
		}
	}
	// (3e) member calls with String.prototype.toString replaced (how T), and + / === on []uint16 strings
	{
		for i := 0; i < c.N(150, 6000); i++ {
			s := c09Fixed[r.Intn(len(c09Fixed))]
			if r.Chance(50) {
				s = randString(r, 6)
			}
			hx := hex.EncodeToString([]byte(s))
			n := unitLen(s)
			for _, rt := range []string{"Ts:" + hx, "TS:" + hx} {
				c.Add("charAt "+rt+" "+randPos(r, n), "override:charAt")
				c.Add("charCodeAt "+rt+" "+randPos(r, n), "override:charCodeAt")
				c.Add("slice "+rt+" "+randPos(r, n)+" "+randPos(r, n), "override:slice")
				c.Add("substr "+rt+" "+randPos(r, n), "override:substr")
				c.Add("indexOf "+rt+" "+randNeedle(r, s), "override:indexOf")
				c.Add("concat "+rt+" "+h.BytesTok("d"), "override:concat")
				c.Add("trim "+rt, "override:trim")
				c.Add("toUpperCase "+rt, "override:toUpperCase")
				c.Add("split "+rt+" "+h.BytesTok(""), "override:split")
				c.Add("localeCompare "+rt+" "+h.BytesTok("zzz"), "override:localeCompare")
			}
			c.Add("concat Tw:"+randUnits(r, 4), "override:w")
			c.Add("plus w:"+randUnits(r, 3)+" w:"+randUnits(r, 3), "plus")
			c.Add("eqpair w:"+randUnits(r, 3)+" w:"+randUnits(r, 3), "eqpair")
		}
		for _, p := range [][2]string{{"d83d", "de00"}, {"d83d", "0061"}, {"0061", "de00"}, {"0061", "0062"}, {"d83dde00", "0061"}, {"de00", "d83d"}, {"fffd", "0061"}} {
			c.Add("plus w:"+p[0]+" w:"+p[1], "plus")
			c.Add("eqpair w:"+p[0]+" w:"+p[1], "eqpair")
		}
	}
	// (3d) order of conversions: scripted receivers and arguments
	{
		type meth struct {
			name  string
			kinds string // one letter per argument: n = number, s = string
		}
		meths := []meth{{"charAt", "n"}, {"charCodeAt", "n"}, {"slice", "nn"}, {"substring", "nn"}, {"substr", "nn"}, {"indexOf", "sn"}, {"lastIndexOf", "sn"},
			{"split", "sn"}, {"concat", "ss"}, {"localeCompare", "s"}, {"replace", "ss"}, {"trim", ""}, {"toUpperCase", ""}}
		recvs := []string{"abcde", "a,b,c", "", "xyx"}
		val := func(kind byte) string {
			if kind == 'n' {
				return []string{fTok(0), fTok(1), fTok(2), fTok(3), fTok(-1), fTok(math.NaN()), fTok(math.Inf(1)), fTok(1.5), h.BytesTok("2"), "n", "b:1"}[r.Intn(11)]
			}
			return []string{h.BytesTok("b"), h.BytesTok(","), h.BytesTok(""), h.BytesTok("x"), h.BytesTok("cd"), h.BytesTok("zz"), fTok(1), "n", "b:0"}[r.Intn(9)]
		}
		shape := func(kind byte, sh int) string {
			switch sh {
			case 0:
				return "P" + val(kind)
			case 1:
				return "O" + val(kind)
			case 2:
				return "O!"
			case 3:
				return "O" + val(kind) + "/" + val(kind)
			case 4:
				return "Pu"
			}
			return "O" + val(kind) + "/!"
		}
		for _, m := range meths {
			n := len(m.kinds) + 1
			// systematic: every combination of {primitive, object, throwing object} per operand, plus omitted trailing arguments
			combos := 1
			for i := 0; i < n; i++ {
				combos *= 3
			}
			for rep := 0; rep < c.N(4, 40); rep++ {
				for cb := 0; cb < combos; cb++ {
					x := cb
					recv := recvs[r.Intn(len(recvs))]
					var toks []string
					for i := 0; i < n; i++ {
						sh := x % 3
						x /= 3
						if i == 0 {
							if sh == 0 {
								toks = append(toks, "P"+h.BytesTok(recv))
							} else if sh == 1 {
								toks = append(toks, "O"+h.BytesTok(recv))
							} else {
								toks = append(toks, "O!")
							}
						} else {
							toks = append(toks, shape(m.kinds[i-1], sh))
						}
					}
					for cut := n; cut >= 1; cut-- {
						c.Add("seq "+m.name+" "+strings.Join(toks[:cut], " "), "seq:"+m.name)
					}
				}
			}
			// random shapes, including value sequences and undefined arguments
			for i := 0; i < c.N(300, 20000); i++ {
				recv := recvs[r.Intn(len(recvs))]
				toks := []string{[]string{"P", "O", "O"}[r.Intn(3)] + h.BytesTok(recv)}
				for j := 1; j < n+r.Intn(2); j++ {
					k := byte('s')
					if j-1 < len(m.kinds) {
						k = m.kinds[j-1]
					}
					toks = append(toks, shape(k, r.Intn(6)))
				}
				c.Add("seq "+m.name+" "+strings.Join(toks, " "), "seq:"+m.name)
			}
		}
		// WHICH method converts each operand: objects with distinct valueOf and toString (both logging, returning
		// different primitives), either one absent, not callable, throwing, or returning an object
		dual := func(kind byte) string {
			nv, sv := []string{fTok(0), fTok(1), fTok(2), fTok(-1), fTok(3), "b:1"}[r.Intn(6)], []string{h.BytesTok("b"), h.BytesTok(","), h.BytesTok("s"), h.BytesTok("2"), h.BytesTok("")}[r.Intn(5)]
			if kind == 's' && r.Chance(30) {
				nv = h.BytesTok("v")
			}
			vo := []string{nv, nv, nv, "-", "~", "@", "!", nv + "/" + nv}[r.Intn(8)]
			ts := []string{sv, sv, sv, "-", "~", "@", "!", sv + "/" + sv}[r.Intn(8)]
			return "D" + vo + "|" + ts
		}
		for _, m := range meths {
			n := len(m.kinds) + 1
			for i := 0; i < c.N(500, 30000); i++ {
				recv := recvs[r.Intn(len(recvs))]
				var toks []string
				switch r.Intn(4) {
				case 0:
					toks = append(toks, "D"+[]string{fTok(7), "-", "~", "@", "!"}[r.Intn(5)]+"|"+[]string{h.BytesTok(recv), h.BytesTok(recv), "-", "~", "@", "!"}[r.Intn(6)])
				case 1:
					toks = append(toks, "O"+h.BytesTok(recv))
				default:
					toks = append(toks, "P"+h.BytesTok(recv))
				}
				for j := 1; j < n; j++ {
					if r.Chance(75) {
						toks = append(toks, dual(m.kinds[j-1]))
					} else {
						toks = append(toks, shape(m.kinds[j-1], r.Intn(6)))
					}
				}
				c.Add("seq "+m.name+" "+strings.Join(toks, " "), "seqD:"+m.name)
			}
		}
		// split with a limit that converts to 0, replace with and without a match
		for _, l := range []string{fTok(0), fTok(4294967296), fTok(math.NaN()), h.BytesTok("0"), "n", fTok(0.5), fTok(1)} {
			for _, sep := range []string{"O" + h.BytesTok(","), "O!", "P" + h.BytesTok(","), "Pu"} {
				c.Add("seq split P"+h.BytesTok("a,b")+" "+sep+" P"+l, "seq:split0")
				c.Add("seq split O"+h.BytesTok("a,b")+" "+sep+" O"+l, "seq:split0")
			}
		}
	}
	// (4) fromCharCode
	bd := h.BoundaryDoubles()
	for i := 0; i < c.N(1500, 60000); i++ {
		n := r.Intn(5)
		var as []string
		for j := 0; j < n; j++ {
			switch r.Intn(6) {
			case 0:
				as = append(as, fTok(h.RandomDouble(r, bd)))
			case 1:
				as = append(as, []string{"u", "n", "b:1", h.BytesTok("65"), h.BytesTok("x"), "i64:65601", "u16:66", "i8:-1"}[r.Intn(8)])
			case 2:
				as = append(as, fTok(float64(0xD800+r.Intn(0x800))))
			default:
				as = append(as, fTok(float64(r.Intn(0x11000))+float64(r.Intn(2))*0.5))
			}
		}
		c.Add(strings.TrimSpace("fromCharCode - "+strings.Join(as, " ")), "fromCharCode")
	}
	// (5) random requests
	ops := []string{"charAt", "charCodeAt", "slice", "substring", "substr", "indexOf", "lastIndexOf", "split", "concat", "trim", "localeCompare", "length", "index", "toLowerCase", "toUpperCase"}
	for i := 0; i < c.N(40000, 2500000); i++ {
		var s string
		if r.Chance(15) {
			s = c09Fixed[r.Intn(len(c09Fixed))]
		} else {
			s = randString(r, 12)
		}
		n := unitLen(s)
		op := ops[r.Intn(len(ops))]
		if (op == "toLowerCase" || op == "toUpperCase") && r.Chance(70) {
			s = randCased(r)
		}
		rt := randRecv(r, s)
		var as []string
		switch op {
		case "charAt", "charCodeAt":
			if r.Chance(95) {
				as = append(as, randPos(r, n))
			}
		case "slice", "substring", "substr":
			k := r.Intn(10)
			if k > 0 {
				as = append(as, randPos(r, n))
			}
			if k > 2 {
				as = append(as, randPos(r, n))
			}
		case "indexOf", "lastIndexOf":
			k := r.Intn(10)
			if k > 0 {
				as = append(as, randNeedle(r, s))
			}
			if k > 3 {
				as = append(as, randPos(r, n))
			}
		case "split":
			k := r.Intn(10)
			if k > 0 {
				if r.Chance(25) {
					as = append(as, h.BytesTok(""))
				} else {
					as = append(as, randNeedle(r, s))
				}
			}
			if k > 5 {
				as = append(as, []string{"u", fTok(0), fTok(1), fTok(2), fTok(3), fTok(-1), fTok(4294967296), fTok(4294967297), fTok(1.9), fTok(math.NaN()), fTok(math.Inf(1)), "n", h.BytesTok("2"), fTok(1e19), fTok(-math.Ldexp(1, 63) - 2048)}[r.Intn(15)])
			}
		case "concat":
			for j := r.Intn(4); j > 0; j-- {
				if r.Chance(70) {
					as = append(as, h.BytesTok(randString(r, 4)))
				} else {
					as = append(as, []string{"u", "n", "b:0", fTok(7), "i64:-3", fTok(math.NaN())}[r.Intn(6)])
				}
			}
		case "localeCompare":
			if r.Chance(90) {
				if r.Chance(30) {
					as = append(as, h.BytesTok(s))
				} else {
					as = append(as, h.BytesTok(randString(r, 12)))
				}
			}
		case "length":
			rt = []string{"Ms:", "MS:"}[r.Intn(2)] + hex.EncodeToString([]byte(s))
			if r.Chance(20) {
				rt = "Mw:" + randUnits(r, 8)
			}
		case "index":
			rt = []string{"Ms:", "MS:"}[r.Intn(2)] + hex.EncodeToString([]byte(s))
			if r.Chance(10) {
				rt = "Mw:" + randUnits(r, 8)
			}
			if r.Chance(50) {
				as = append(as, fTok(float64(r.Intn(n+2))))
			} else {
				as = append(as, h.BytesTok([]string{"0", "1", "2", "3", "01", "+1", "-0", "1.0", "x", "", "5", "11", " 1"}[r.Intn(13)]))
			}
		}
		line := op + " " + rt
		if len(as) > 0 {
			line += " " + strings.Join(as, " ")
		}
		c.Add(line, op+":random")
	}
}
