package main

import (
	"fmt"
	"strings"

	"github.com/robertkrimen/otto"

	"ottoverif/h"
)

// Requests about entering function code (Lean: C01/CallModel, CallTheorems):
//   bind <nargs> <params> <fns> <vars> <x>  - which binding does identifier x denote inside
//        function f(<params>){ <function declarations fns>; var <vars>; ... } called with nargs
//        arguments "A0","A1",...: A<i> | u (undefined) | F<j> (j-th declaration) | args | none
//   amap <nargs> <params>  - for each index i < nargs, the parameter name joined to arguments[i]
//        (probed in both directions: writing arguments[i] changes the parameter, and writing the
//        parameter changes arguments[i]), or _

const bindPrelude = `
var __cls = function(v){
  if (v === undefined) return "u";
  if (typeof v === "string") return v;
  if (typeof v === "function") return v();
  if (Object.prototype.toString.call(v) === "[object Arguments]") return "args";
  return "other";
};
`

func listOf(s string) []string {
	if s == "-" {
		return nil
	}
	return strings.Split(s, ",")
}

func argList(n int) string {
	as := make([]string, n)
	for i := range as {
		as[i] = fmt.Sprintf(`"A%d"`, i)
	}
	return strings.Join(as, ",")
}

// bindSrc renders the function; layout picks where declarations sit relative to the probe.
func bindSrc(nargs int, params, fns, vars []string, x string, layout int) string {
	var decls []string
	for j, f := range fns {
		decls = append(decls, fmt.Sprintf("function %s(){return \"F%d\"}", f, j))
	}
	var vs []string
	for _, v := range vars {
		vs = append(vs, "var "+v+";")
	}
	probe := "try { return __cls(" + x + "); } catch (e) { return \"none\"; }"
	var body string
	switch layout % 3 {
	case 0: // declarations first
		body = strings.Join(decls, "\n") + "\n" + strings.Join(vs, "\n") + "\n" + probe
	case 1: // probe first: everything is hoisted
		body = probe + "\n" + strings.Join(vs, "\n") + "\n" + strings.Join(decls, "\n")
	default: // vars, probe, functions
		body = strings.Join(vs, "\n") + "\n" + probe + "\n" + strings.Join(decls, "\n")
	}
	return bindPrelude + "function f(" + strings.Join(params, ",") + "){\n" + body + "\n}\nf(" + argList(nargs) + ")"
}

func implBind(f []string) string {
	var nargs int
	fmt.Sscan(f[1], &nargs)
	params, fns, vars, x := listOf(f[2]), listOf(f[3]), listOf(f[4]), f[5]
	first := ""
	for layout := 0; layout < 3; layout++ {
		src := bindSrc(nargs, params, fns, vars, x, layout)
		for route := 0; route < 2; route++ {
			vm := otto.New()
			var v otto.Value
			var err error
			if route == 0 {
				v, err = vm.Run(src)
			} else {
				var s *otto.Script
				if s, err = otto.New().Compile("", src); err == nil {
					v, err = vm.Run(s)
				}
			}
			out := ""
			if err != nil {
				out = "error:" + h.Sanitize(err.Error())
			} else {
				out = v.String()
			}
			if first == "" {
				first = out
			} else if out != first {
				return fmt.Sprintf("layouts-differ:%s/%s@layout%d,route%d", first, out, layout, route)
			}
		}
	}
	return first
}

func distinct(xs []string) []string {
	seen := map[string]bool{}
	var out []string
	for _, x := range xs {
		if !seen[x] {
			seen[x] = true
			out = append(out, x)
		}
	}
	return out
}

func implAmap(f []string) string {
	var nargs int
	fmt.Sscan(f[1], &nargs)
	params := listOf(f[2])
	names := distinct(params)
	if nargs == 0 {
		return "-"
	}
	res := make([]string, nargs)
	for i := 0; i < nargs; i++ {
		// forward: arguments[i] = "W" and see which parameter changed
		var chk []string
		for _, n := range names {
			chk = append(chk, fmt.Sprintf("if (%s === \"W\") r.push(%q);", n, n))
		}
		fwd := fmt.Sprintf("function f(%s){ arguments[%d] = \"W\"; var r = []; %s return r.join(\"+\"); }\nf(%s)",
			strings.Join(params, ","), i, strings.Join(chk, " "), argList(nargs))
		// backward: for each name, a fresh call: name = "W" and see whether arguments[i] changed
		var back []string
		for _, n := range names {
			back = append(back, fmt.Sprintf("(function(%s){ %s = \"W\"; return arguments[%d] === \"W\"; })(%s) ? %q : \"\"",
				strings.Join(params, ","), n, i, argList(nargs), n))
		}
		bwd := "[" + strings.Join(back, ",") + "].filter(function(s){return s !== \"\"}).join(\"+\")"
		if len(names) == 0 {
			bwd = `""`
		}
		a, err1 := otto.New().Run(fwd)
		b, err2 := otto.New().Run(bwd)
		if err1 != nil || err2 != nil {
			return "error:" + h.Sanitize(fmt.Sprint(err1, err2))
		}
		if a.String() != b.String() {
			return fmt.Sprintf("directions-differ@%d:%s/%s", i, a.String(), b.String())
		}
		if a.String() == "" {
			res[i] = "_"
		} else {
			res[i] = a.String()
		}
	}
	return strings.Join(res, ",")
}

var bindNames = []string{"a", "b", "c", "arguments", "d"}

func pick(r *h.Rng, pool []string, max int) string {
	k := r.Intn(max + 1)
	if k == 0 {
		return "-"
	}
	out := make([]string, k)
	for i := range out {
		out[i] = pool[r.Intn(len(pool))]
	}
	return strings.Join(out, ",")
}

func genBind(c *h.Ctx) {
	r := c.Rng
	n := c.N(1500, 60000)
	for i := 0; i < n; i++ {
		x := bindNames[r.Intn(len(bindNames))]
		if r.Chance(8) {
			x = "zz"
		}
		c.Add(fmt.Sprintf("bind %d %s %s %s %s", r.Intn(5), pick(r, bindNames, 4), pick(r, bindNames, 3), pick(r, bindNames, 3), x), "bind")
	}
	m := c.N(400, 8000)
	for i := 0; i < m; i++ {
		c.Add(fmt.Sprintf("amap %d %s", r.Intn(5), pick(r, []string{"a", "b", "c"}, 4)), "amap")
	}
}
