// Command c01 is the correspondence harness binary for property C01.
package main

import "ottoverif/h"

func main() { h.Main("C01") }
