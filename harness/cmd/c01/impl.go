package main

import (
	"fmt"
	"strconv"
	"strings"

	"github.com/robertkrimen/otto"
	"github.com/robertkrimen/otto/parser"
	"ottoverif/h"
	"ottoverif/mujs"
)

func init() {
	h.Register(&h.Prop{ID: "C01", Gen: genC01, Impl: implC01})
}

// ---------------------------------------------------------------- running the real interpreter

type outcome struct{ trace, value string }

func runRoute(route int, src string) (out outcome) {
	var logged []string
	mk := func() *otto.Otto {
		vm := otto.New()
		vm.Set("log", func(call otto.FunctionCall) otto.Value {
			logged = append(logged, mujs.Tok(call.Argument(0)))
			return call.Argument(0)
		})
		return vm
	}
	vm := mk()
	var v otto.Value
	var err error
	switch route {
	case 0:
		v, err = vm.Run(src)
	case 1:
		var s *otto.Script
		s, err = vm.Compile("", src)
		if err == nil {
			v, err = vm.Run(s)
		}
	case 2:
		prog, perr := parser.ParseFile(nil, "", src, 0)
		if perr != nil {
			err = perr
		} else {
			v, err = vm.Run(prog)
		}
	case 3:
		v, err = vm.Eval(src)
	case 4:
		other := otto.New()
		var s *otto.Script
		s, err = other.Compile("", src)
		if err == nil {
			// run it once elsewhere first: a Script must not be changed by execution
			o2 := mk()
			logged = nil
			o2.Run(s)
			logged = nil
			v, err = vm.Run(s)
		}
	}
	t := "t:[" + strings.Join(logged, ",") + "]"
	if err != nil {
		k := "k:throw:"
		msg := err.Error()
		switch {
		case strings.HasPrefix(msg, "ReferenceError"):
			k += "err:ReferenceError"
		case strings.HasPrefix(msg, "TypeError"):
			k += "err:TypeError"
		case strings.HasPrefix(msg, "SyntaxError"), strings.HasPrefix(msg, "(anonymous)"):
			k = "k:syntaxerror:" + strings.ReplaceAll(msg, " ", "_")
		default:
			if n, e2 := strconv.ParseInt(msg, 10, 64); e2 == nil {
				k += fmt.Sprintf("n%d", n)
			} else {
				k += "other:" + strings.ReplaceAll(msg, " ", "_")
			}
		}
		return outcome{t + ";" + k, "throw"}
	}
	return outcome{t + ";k:normal", mujs.Tok(v)}
}

func implC01(line string) string {
	f := strings.Fields(line)
	if len(f) == 3 && f[0] == "fn" {
		return implFn(f[2])
	}
	if len(f) == 4 && f[0] == "fn2" {
		return implFn(f[2], f[3])
	}
	if len(f) == 6 && f[0] == "bind" {
		return implBind(f)
	}
	if len(f) == 3 && f[0] == "amap" {
		return implAmap(f)
	}
	if len(f) != 4 {
		return "bad-op"
	}
	src := mujs.RenderJS(f[2], f[3])
	first := runRoute(0, src)
	for r := 1; r < 5; r++ {
		o := runRoute(r, src)
		if o != first {
			return fmt.Sprintf("routes-differ:route0=%s/%s;route%d=%s/%s", first.trace, first.value, r, o.trace, o.value)
		}
	}
	if f[0] == "trace" {
		return first.trace
	}
	return first.value
}

func genC01(c *h.Ctx) {
	genFn(c)
	genBind(c)
	n := c.N(3000, 120000)
	for i := 0; i < n; i++ {
		size := 8 + c.Rng.Intn(c.N(30, 80))
		vars, prog, _ := mujs.GenProgram(c.Rng.Fork(), size)
		c.Add("trace 5000 "+vars+" "+prog, "trace")
		c.Add("value 5000 "+vars+" "+prog, "value")
	}
}

// implFn runs one program, or several one after the other on the same runtime (several Run calls)
func implFn(progs ...string) string {
	var srcs []string
	for _, p := range progs {
		srcs = append(srcs, mujs.RenderFnJS(p))
	}
	var first string
	for route := 0; route < 2; route++ {
		var logged []string
		vm := otto.New()
		vm.Set("log", func(call otto.FunctionCall) otto.Value {
			logged = append(logged, fnTok(call.Argument(0)))
			return call.Argument(0)
		})
		// a host function that reports the This value it was called with
		vm.Set("__hostThis", hostThis)
		// a host function that re-enters the VM through the Go API
		vm.Set("hostCall", func(call otto.FunctionCall) otto.Value {
			r, e := call.Otto.Call(call.Argument(0).String(), nil)
			if e != nil {
				panic(call.Otto.MakeCustomError("HostError", e.Error()))
			}
			return r
		})
		var v otto.Value
		var err error
		if route == 0 {
			for _, src := range srcs {
				if v, err = vm.Run(src); err != nil {
					break
				}
			}
		} else {
			var ss []*otto.Script
			for _, src := range srcs {
				var s *otto.Script
				if s, err = vm.Compile("", src); err != nil {
					break
				}
				ss = append(ss, s)
			}
			if err == nil {
				// Scripts run on another runtime first must not change what they do here
				o2 := otto.New()
				o2.Set("log", func(call otto.FunctionCall) otto.Value { return call.Argument(0) })
				o2.Set("__hostThis", hostThis)
				o2.Set("hostCall", func(call otto.FunctionCall) otto.Value {
					r, _ := call.Otto.Call(call.Argument(0).String(), nil)
					return r
				})
				for _, s := range ss {
					if _, e2 := o2.Run(s); e2 != nil {
						break
					}
				}
				for _, s := range ss {
					if v, err = vm.Run(s); err != nil {
						break
					}
				}
			}
		}
		t := "t:[" + strings.Join(logged, ",") + "];"
		var out string
		if err != nil {
			msg := err.Error()
			switch {
			case strings.HasPrefix(msg, "ReferenceError"):
				out = t + "k:throw:err:ReferenceError"
			case strings.HasPrefix(msg, "TypeError"):
				out = t + "k:throw:err:TypeError"
			case strings.HasPrefix(msg, "RangeError"):
				out = t + "k:throw:err:RangeError"
			case strings.HasPrefix(msg, "SyntaxError"), strings.HasPrefix(msg, "(anonymous)"):
				out = t + "k:syntaxerror:" + strings.ReplaceAll(msg, " ", "_")
			// an uncaught value that is not an Error instance comes back as an error whose text is ToString(value)
			case msg == "[object Object]", strings.HasPrefix(msg, "/"):
				out = t + "k:throw:obj"
			case msg == "[object Arguments]":
				out = t + "k:throw:args"
			case strings.HasPrefix(msg, "function"):
				out = t + "k:throw:fn"
			case msg == "true":
				out = t + "k:throw:t"
			case msg == "false":
				out = t + "k:throw:f"
			case msg == "null":
				out = t + "k:throw:null"
			case msg == "undefined":
				out = t + "k:throw:u"
			default:
				if n, e2 := strconv.ParseInt(msg, 10, 64); e2 == nil {
					out = t + fmt.Sprintf("k:throw:n%d", n)
				} else {
					out = t + "k:throw:s" + strings.ReplaceAll(msg, " ", "_")
				}
			}
		} else {
			out = t + "k:normal:" + fnTok(v)
		}
		if route == 0 {
			first = out
		} else if out != first {
			return "routes-differ:source=" + first + ";script-reused=" + out
		}
	}
	return first
}

func hostThis(call otto.FunctionCall) otto.Value {
	t := call.This
	var s string
	switch {
	case t.IsUndefined():
		s = "undefined"
	case t.IsNull():
		s = "null"
	case t.IsString():
		s = "string:" + t.String()
	case t.IsNumber():
		s = "number:" + t.String()
	case t.IsBoolean():
		s = "boolean:" + t.String()
	case t.IsFunction():
		s = "function"
	default:
		s = "object"
	}
	r, _ := otto.ToValue(s)
	return r
}

func fnTok(v otto.Value) string {
	switch {
	case v.IsNumber() && v.IsNaN():
		return "nan"
	case v.IsFunction():
		return "fn"
	case v.IsObject():
		switch v.Class() {
		case "Error":
			n, _ := v.Object().Get("name")
			return "err:" + n.String()
		case "Arguments":
			return "args"
		}
		return "obj"
	}
	return mujs.Tok(v)
}
