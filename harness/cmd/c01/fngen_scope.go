package main

import (
	"fmt"

	"ottoverif/h"
	m "ottoverif/mujs"
)

// Scenario builders for `with` (ES5 12.10, 10.2.1.2), for-in (12.6.4) and labels/break/continue in the
// function layer.  ES5 leaves the ORDER of for-in open, so every program here is order-independent:
// loops count, sum distinct powers of two, tally per key into an object that is read back in a fixed
// order, run over single-key objects, or delete ALL other keys in the first iteration.

// function inh(q) { function F() {} F.prototype = q; return new F(); }
var inhDecl = m.Decl{Name: "inh", F: m.Fn{Name: "inh", Params: []string{"q"},
	Decls: []m.Decl{{Name: "F", F: m.Fn{Name: "F"}}},
	Body:  []m.N{m.X(m.Set(m.Var("F"), "prototype", m.Var("q"))), m.Ret(m.New(m.Var("F")))}}}

func (p *prog) inh() {
	for _, d := range p.decls {
		if d.Name == "inh" {
			return
		}
	}
	p.decls = append(p.decls, inhDecl)
}

type cell struct {
	key string
	val m.N
	ne  bool // non-enumerable
}

func chainName(name string, i int) string {
	if i == 0 {
		return name
	}
	return fmt.Sprintf("%s%d", name, i)
}

// mkChain makes variable `name` an object whose own properties are levels[0] and whose prototype chain
// holds levels[1], levels[2], ...; the prototype objects are bound to name1, name2, ...
func mkChain(name string, levels [][]cell) (vars []string, st []m.N) {
	k := len(levels)
	for i := k - 1; i >= 0; i-- {
		nm := chainName(name, i)
		vars = append(vars, nm)
		if i == k-1 {
			st = append(st, m.X(m.Asg(nm, m.Obj())))
		} else {
			st = append(st, m.X(m.Asg(nm, m.CallV("inh", m.Var(chainName(name, i+1))))))
		}
		for _, c := range levels[i] {
			if c.ne {
				st = append(st, m.X(m.DefNE(m.Var(nm), c.key, c.val)))
			} else {
				st = append(st, m.X(m.Set(m.Var(nm), c.key, c.val)))
			}
		}
	}
	return
}

// randLevels: every (level, key) cell present with probability pct, its value a distinct power of two
func randLevels(r *h.Rng, keys []string, nlev, pct, pctNE int) [][]cell {
	lv := make([][]cell, nlev)
	bit := 1
	for i := range lv {
		for _, k := range keys {
			if r.Chance(pct) {
				lv[i] = append(lv[i], cell{k, m.Num(bit), r.Chance(pctNE)})
			}
			bit *= 2
		}
	}
	return lv
}

// partLevels: each key lives on exactly one level (no shadowing), all enumerable
func partLevels(r *h.Rng, keys []string, nlev int) [][]cell {
	lv := make([][]cell, nlev)
	bit := 1
	for _, k := range keys {
		i := r.Intn(nlev)
		lv[i] = append(lv[i], cell{k, m.Num(bit), false})
		bit *= 2
	}
	return lv
}

func inc(x string, by int) m.N { return m.X(m.Asg(x, m.Add(m.Var(x), m.Num(by)))) }

// guard wraps statements that may throw a ReferenceError/TypeError: the error's name is logged instead
func guard(st ...m.N) m.N {
	return m.Try(st, "e", []m.N{lg(m.Get(m.Var("e"), "name"))}, nil, true, false)
}

func pickS(r *h.Rng, xs []string) string { return xs[r.Intn(len(xs))] }
func pickN(r *h.Rng, xs []m.N) m.N       { return xs[r.Intn(len(xs))] }

var keyU = []string{"a", "b", "c", "d", "e"}

// wrapFn puts vars+body into function f (called once, result logged) or leaves them at global level
func wrapFn(p *prog, r *h.Rng, inFn bool, params []string, args []m.N, vars []string, body []m.N) {
	if inFn {
		p.decl("f", m.Fn{Name: "f", Params: params, Vars: vars, Body: body})
		p.add(lg(m.CallV("f", args...)))
	} else {
		p.v(vars...)
		p.add(body...)
	}
}

// ---------------------------------------------------------------- with

// lookup / assignment / typeof / delete / fall-through along  with-object -> its prototype -> locals -> globals
func scWithLookup(r *h.Rng) *prog {
	p := &prog{}
	p.inh()
	names := []string{"x", "y", "z", "w"}
	inFn := r.Chance(70)
	lv := [][]cell{{}, {}}
	var locals []string
	var init []m.N
	for i, nm := range names {
		if r.Bool() {
			lv[0] = append(lv[0], cell{nm, m.Num(10 + i), false})
		}
		if r.Chance(40) {
			lv[1] = append(lv[1], cell{nm, m.Num(20 + i), false})
		}
		switch {
		case inFn && r.Bool():
			locals = append(locals, nm)
			init = append(init, m.X(m.Asg(nm, m.Num(30+i))))
		case r.Bool():
			p.v(nm)
			p.add(m.X(m.Asg(nm, m.Num(40+i))))
		}
	}
	vars, st := mkChain("o", lv)
	p.v(vars...)
	p.add(st...)
	var wb []m.N
	fresh := 100
	for k := 3 + r.Intn(5); k > 0; k-- {
		nm := pickS(r, names)
		fresh++
		switch r.Intn(8) {
		case 0:
			wb = append(wb, lg(m.Typeof(m.Var(nm))))
		case 1:
			wb = append(wb, guard(lg(m.Var(nm))))
		case 2:
			wb = append(wb, m.X(m.Asg(nm, m.Num(fresh))))
		case 3:
			wb = append(wb, guard(m.X(m.Asg(nm, m.Add(m.Var(nm), m.Num(1000))))))
		case 4:
			wb = append(wb, lg(m.Del(m.Var("o"), nm)))
		case 5:
			wb = append(wb, m.X(m.Del(m.Var("o1"), nm)))
		case 6:
			wb = append(wb, m.X(m.Set(m.Var("o"), nm, m.Num(fresh))))
		default:
			wb = append(wb, m.X(m.Set(m.Var("o1"), nm, m.Num(fresh))))
		}
	}
	body := append(init, m.With(m.Var("o"), wb...))
	for _, nm := range names {
		body = append(body, lg(m.Typeof(m.Var(nm))), guard(lg(m.Var(nm))), lg(m.Get(m.Var("o"), nm)), lg(m.Get(m.Var("o1"), nm)))
	}
	wrapFn(p, r, inFn, nil, nil, locals, body)
	for _, nm := range names {
		p.add(guard(lg(m.Var(nm))))
	}
	return p
}

// closures made in a with body keep the object environment: later changes of the object are seen
func scWithClosure(r *h.Rng) *prog {
	p := &prog{}
	p.inh()
	lv := [][]cell{{}, {}}
	if r.Chance(70) {
		lv[0] = append(lv[0], cell{"x", m.Num(10), false})
	}
	if r.Chance(40) {
		lv[1] = append(lv[1], cell{"x", m.Num(20), false})
	}
	vars, st := mkChain("o", lv)
	p.v(vars...)
	p.v("x", "t")
	p.add(st...)
	p.add(m.X(m.Asg("x", m.Num(1))))
	mkVars := []string{"gt", "st"}
	var mkBody []m.N
	if r.Bool() {
		mkVars = append(mkVars, "x")
		mkBody = append(mkBody, m.X(m.Asg("x", m.Num(2))))
	}
	gt := m.Fn{Body: []m.N{m.Ret(m.Var("x"))}}
	stf := m.Fn{Params: []string{"v"}, Body: []m.N{m.X(m.Asg("x", m.Var("v"))), m.Ret(m.Typeof(m.Var("x")))}}
	mkBody = append(mkBody,
		m.With(m.Var("o"), m.X(m.Asg("gt", gt.Expr())), m.X(m.Asg("st", stf.Expr()))),
		m.Ret(m.Obj(m.Prop{K: "gt", V: m.Var("gt")}, m.Prop{K: "st", V: m.Var("st")})))
	p.decl("mk", m.Fn{Name: "mk", Vars: mkVars, Body: mkBody})
	p.add(m.X(m.Asg("t", m.CallV("mk"))))
	fresh := 50
	for k := 4 + r.Intn(5); k > 0; k-- {
		fresh++
		switch r.Intn(7) {
		case 0, 1:
			p.add(lg(m.MCall(m.Var("t"), "gt")))
		case 2:
			p.add(lg(m.MCall(m.Var("t"), "st", m.Num(fresh))))
		case 3:
			p.add(m.X(m.Set(m.Var("o"), "x", m.Num(fresh))))
		case 4:
			p.add(m.X(m.Del(m.Var("o"), "x")))
		case 5:
			p.add(m.X(m.Del(m.Var("o1"), "x")))
		default:
			p.add(m.X(m.Set(m.Var("o1"), "x", m.Num(fresh))))
		}
	}
	p.add(lg(m.MCall(m.Var("t"), "gt")), lg(m.Get(m.Var("o"), "x")), lg(m.Get(m.Var("o1"), "x")), lg(m.Var("x")))
	return p
}

// f() whose callee resolves in an object environment gets this = the binding object (10.2.1.2.6, 11.2.3 6.b)
func scWithThis(r *h.Rng) *prog {
	p := &prog{}
	p.inh()
	p.v("tag", "o", "o1", "q", "a")
	meth := m.Fn{Body: []m.N{m.Ret(m.Add(m.Str("this="), m.Get(m.This(), "tag")))}}
	p.add(m.X(m.Asg("tag", m.Str("G"))),
		m.X(m.Asg("o1", m.Obj(m.Prop{K: "tag", V: m.Str("P")}))),
		m.X(m.Asg("o", m.CallV("inh", m.Var("o1")))),
		m.X(m.Asg("q", m.Obj(m.Prop{K: "tag", V: m.Str("Q")}))),
		m.X(m.Asg("a", m.Obj(m.Prop{K: "tag", V: m.Str("A")}))))
	if r.Bool() {
		p.add(m.X(m.Set(m.Var("o"), "tag", m.Str("O"))))
	}
	where := r.Intn(5) // where the function `mm` lives
	inFn := r.Bool()
	var locals []string
	var pre []m.N
	switch where {
	case 0:
		p.add(m.X(m.Set(m.Var("o"), "mm", meth.Expr())))
	case 1:
		p.add(m.X(m.Set(m.Var("o1"), "mm", meth.Expr())))
	case 2:
		p.add(m.X(m.Set(m.Var("a"), "mm", meth.Expr())))
	case 3:
		if inFn {
			locals = append(locals, "mm")
		} else {
			p.v("mm")
		}
		pre = append(pre, m.X(m.Asg("mm", meth.Expr())))
	default:
		p.decl("mm", m.Fn{Name: "mm", Body: meth.Body})
	}
	calls := func() []m.N {
		out := []m.N{lg(m.CallV("mm"))}
		for k := r.Intn(4); k > 0; k-- {
			switch r.Intn(5) {
			case 0:
				out = append(out, lg(m.Call(m.Val(m.Var("mm")))))
			case 1:
				out = append(out, lg(m.MCall(m.Var("mm"), "call", m.Var("q"))))
			case 2:
				// callee found in a declarative environment nested in the with body
				out = append(out, lg(m.Call(m.Fn{Vars: []string{"g"}, Body: []m.N{m.X(m.Asg("g", m.Var("mm"))), m.Ret(m.CallV("g"))}}.Expr())))
			case 3:
				// a closure made here, called later outside
				out = append(out, m.X(m.Set(m.Var("q"), "later", m.Fn{Body: []m.N{m.Ret(m.CallV("mm"))}}.Expr())))
			default:
				out = append(out, lg(m.CallV("mm")))
			}
		}
		return out
	}
	var body []m.N
	switch r.Intn(3) {
	case 0:
		body = []m.N{m.With(m.Var("o"), calls()...)}
	case 1:
		body = []m.N{m.With(m.Var("a"), append(calls(), m.With(m.Var("o"), calls()...))...)}
	default:
		body = []m.N{m.With(m.Var("o"), append(calls(), m.With(m.Var("a"), calls()...))...)}
	}
	body = append(pre, body...)
	body = append(body, guard(lg(m.CallV("mm"))), guard(lg(m.MCall(m.Var("q"), "later"))))
	wrapFn(p, r, inFn, nil, nil, locals, body)
	return p
}

// `var x = e` in a with body: the declaration is hoisted to the function, the initialiser assigns
// through the scope chain (to the object if it has x)
func scWithVar(r *h.Rng) *prog {
	p := &prog{}
	p.inh()
	lv := [][]cell{{}, {}}
	for i, nm := range []string{"x", "y"} {
		switch r.Intn(3) {
		case 0:
			lv[0] = append(lv[0], cell{nm, m.Num(10 + i), false})
		case 1:
			lv[1] = append(lv[1], cell{nm, m.Num(20 + i), false})
		}
	}
	vars, st := mkChain("o", lv)
	p.v(vars...)
	p.add(st...)
	inFn := r.Chance(75)
	var params []string
	var args []m.N
	if inFn && r.Bool() {
		params, args = []string{"x"}, []m.N{m.Num(77)}
	}
	var wb []m.N
	wb = append(wb, lg(m.Typeof(m.Var("x"))), lg(m.Typeof(m.Var("y"))))
	if r.Bool() {
		wb = append(wb, m.VarS("x", m.Num(5)))
	} else {
		wb = append(wb, m.X(m.EvalD([]string{"x"}, nil, []m.N{m.VarS("x", m.Num(5))})))
	}
	wb = append(wb, m.VarS("y", m.Add(m.Var("x"), m.Num(1))), lg(m.Var("x")), lg(m.Var("y")))
	body := []m.N{lg(m.Typeof(m.Var("x"))), lg(m.Typeof(m.Var("y"))), m.With(m.Var("o"), wb...),
		lg(m.Var("x")), lg(m.Var("y")), lg(m.Get(m.Var("o"), "x")), lg(m.Get(m.Var("o"), "y")), lg(m.Get(m.Var("o1"), "x")), lg(m.Get(m.Var("o1"), "y"))}
	wrapFn(p, r, inFn, params, args, []string{"x", "y"}, body)
	p.add(lg(m.Typeof(m.Var("x"))), lg(m.Typeof(m.Var("y"))))
	return p
}

// delete inside the body: lookup then falls outward; the reference of an assignment is made before
// its right-hand side runs
func scWithDelete(r *h.Rng) *prog {
	p := &prog{}
	p.inh()
	lv := [][]cell{{{"x", m.Num(10), false}}, {}}
	if r.Chance(40) {
		lv[1] = append(lv[1], cell{"x", m.Num(20), false})
	}
	if r.Chance(30) {
		lv[0] = nil
	}
	vars, st := mkChain("o", lv)
	p.v(vars...)
	p.add(st...)
	p.decl("dx", m.Fn{Name: "dx", Body: []m.N{m.X(m.Del(m.Var("o"), "x")), m.Ret(m.Num(7))}})
	p.decl("ax", m.Fn{Name: "ax", Body: []m.N{m.X(m.Set(m.Var("o"), "x", m.Num(1))), m.Ret(m.Num(2))}})
	inFn := r.Bool()
	var wb []m.N
	for k := 2 + r.Intn(4); k > 0; k-- {
		switch r.Intn(6) {
		case 0:
			wb = append(wb, lg(m.Var("x")))
		case 1:
			wb = append(wb, lg(m.Del(m.Var("o"), "x")))
		case 2:
			wb = append(wb, m.X(m.Asg("x", m.Num(9+k))))
		case 3:
			wb = append(wb, m.X(m.Asg("x", m.CallV("dx")))) // reference made first: re-creates o.x when o had it
		case 4:
			wb = append(wb, m.X(m.Asg("x", m.CallV("ax")))) // o.x appears only after the reference was made
		default:
			wb = append(wb, m.VarS("x", m.CallV("dx")))
		}
		wb = append(wb, lg(m.Var("x")), lg(m.Get(m.Var("o"), "x")))
	}
	body := []m.N{m.X(m.Asg("x", m.Num(3))), m.With(m.Var("o"), wb...), lg(m.Var("x")), lg(m.Get(m.Var("o"), "x")), lg(m.Get(m.Var("o1"), "x"))}
	wrapFn(p, r, inFn, nil, nil, []string{"x"}, body)
	return p
}

// nested with: inner object first, then the outer one, then the function; leaving the inner restores the outer
func scWithNested(r *h.Rng) *prog {
	p := &prog{}
	names := []string{"x", "y", "z"}
	sub := func(base int) m.N {
		var ps []m.Prop
		for i, nm := range names {
			if r.Bool() {
				ps = append(ps, m.Prop{K: nm, V: m.Num(base + i)})
			}
		}
		return m.Obj(ps...)
	}
	p.v("a", "b")
	p.add(m.X(m.Asg("a", sub(10))), m.X(m.Asg("b", sub(20))))
	if r.Chance(20) {
		p.add(m.X(m.Asg("b", m.Var("a"))))
	}
	inFn := r.Bool()
	var init []m.N
	for i, nm := range names {
		init = append(init, m.X(m.Asg(nm, m.Num(30+i))))
	}
	ops := func(n int) []m.N {
		var out []m.N
		for k := n; k > 0; k-- {
			nm := pickS(r, names)
			switch r.Intn(4) {
			case 0, 1:
				out = append(out, lg(m.Var(nm)))
			case 2:
				out = append(out, m.X(m.Asg(nm, m.Add(m.Var(nm), m.Num(100)))))
			default:
				out = append(out, m.X(m.Del(m.Var(pickS(r, []string{"a", "b"})), nm)))
			}
		}
		return out
	}
	inner := m.With(m.Var("b"), ops(2+r.Intn(3))...)
	outer := m.With(m.Var("a"), append(append(ops(1+r.Intn(2)), inner), ops(1+r.Intn(3))...)...)
	body := append(init, outer)
	for _, nm := range names {
		body = append(body, lg(m.Var(nm)), lg(m.Get(m.Var("a"), nm)), lg(m.Get(m.Var("b"), nm)))
	}
	wrapFn(p, r, inFn, nil, nil, names, body)
	return p
}

// the lexical environment is restored however the body is left; afterwards identifier reads,
// assignments and new closures must not see the object
func scWithExit(r *h.Rng) *prog {
	p := &prog{}
	p.v("o", "o2", "one", "x")
	p.add(m.X(m.Asg("x", m.Str("G"))),
		m.X(m.Asg("o", m.Obj(m.Prop{K: "x", V: m.Str("O")}))),
		m.X(m.Asg("o2", m.Obj(m.Prop{K: "x", V: m.Str("N")}))),
		m.X(m.Asg("one", m.Obj(m.Prop{K: "k1", V: m.Num(1)}))))
	p.decl("thr", m.Fn{Name: "thr", Body: []m.N{m.With(m.Var("o2"), m.Throw(m.Add(m.Str("T"), m.Var("x"))))}})
	exit := r.Intn(9)
	catchHere := r.Bool()
	fin := r.Bool()
	var ex m.N
	switch exit {
	case 0:
		ex = m.X(m.Str("none"))
	case 1:
		ex = m.Break("")
	case 2:
		ex = m.Break("OUT")
	case 3:
		ex = m.Continue("")
	case 4:
		ex = m.Continue("OUT")
	case 5:
		ex = m.Ret(m.Add(m.Str("ret:"), m.Var("x")))
	case 6:
		ex = m.Throw(m.Str("T"))
	case 7:
		ex = m.X(m.CallV("thr"))
	default:
		ex = m.X(m.Var("nowhere")) // ReferenceError object
	}
	cond := m.If(m.Seq(m.Var("i"), m.Num(1+r.Intn(2))), []m.N{ex}, nil)
	var inner m.N
	switch r.Intn(4) {
	case 0: // nested with
		inner = m.With(m.Var("o2"), m.X(m.Asg("x", m.Add(m.Var("x"), m.Str("n")))), cond)
	case 1: // a for-in (single key) between the with and the exit
		inner = m.ForIn(false, "kk", m.Var("one"), cond)
	case 2: // try/finally inside the body
		inner = m.Try([]m.N{cond}, "", nil, []m.N{lg(m.Add(m.Str("ifin:"), m.Var("x")))}, false, true)
	default:
		inner = cond
	}
	withS := m.With(m.Var("o"), m.X(m.Asg("x", m.Add(m.Var("x"), m.Var("i")))), inner, lg(m.Str("end-of-with")))
	tryBody := []m.N{withS, lg(m.Add(m.Str("after-with:"), m.Var("x")))}
	var loopBody []m.N
	loopBody = append(loopBody, inc("i", 1))
	if catchHere || fin {
		loopBody = append(loopBody, m.Try(tryBody, "e",
			[]m.N{lg(m.Add(m.Str("caught:"), m.Var("x"))), lg(m.Var("e")), m.X(m.Asg("x", m.Add(m.Var("x"), m.Str("c"))))},
			[]m.N{lg(m.Add(m.Str("fin:"), m.Var("x")))}, catchHere, fin))
	} else {
		loopBody = append(loopBody, tryBody...)
	}
	loopBody = append(loopBody, lg(m.Add(m.Str("tail:"), m.Var("x"))))
	loop := m.Label("OUT", m.While(m.Lt(m.Var("i"), m.Num(2)), loopBody))
	if r.Chance(30) {
		loop = m.Label("OUT", m.ForIn(false, "kk", m.Var("one"), loopBody...))
	}
	gBody := []m.N{m.X(m.Asg("x", m.Str("L"))), m.X(m.Asg("i", m.Num(0))), loop,
		lg(m.Var("x")), m.X(m.Asg("x", m.Add(m.Var("x"), m.Str("!")))), m.X(m.Asg("h1", m.Fn{Body: []m.N{m.Ret(m.Var("x"))}}.Expr())),
		lg(m.CallV("h1")), lg(m.Get(m.Var("o"), "x")), lg(m.Get(m.Var("o2"), "x")), m.Ret(m.Var("x"))}
	inFn := r.Chance(80) || exit == 5
	if inFn {
		p.decl("g", m.Fn{Name: "g", Vars: []string{"x", "i", "h1", "kk"}, Body: gBody})
		call := lg(m.CallV("g"))
		p.add(m.Try([]m.N{call}, "e", []m.N{lg(m.Add(m.Str("caller:"), m.Var("x"))), lg(m.Var("e"))}, nil, true, false))
		if r.Bool() {
			p.add(m.Try([]m.N{call}, "e", []m.N{lg(m.Add(m.Str("caller2:"), m.Var("x"))), lg(m.Var("e"))}, nil, true, false))
		}
	} else {
		p.v("i", "h1", "kk")
		gBody = gBody[:len(gBody)-1]
		p.add(m.Try(gBody, "e", []m.N{lg(m.Add(m.Str("top:"), m.Var("x"))), lg(m.Var("e"))}, nil, true, false))
	}
	p.add(lg(m.Var("x")), m.X(m.Asg("x", m.Str("g2"))), lg(m.Get(m.Var("o"), "x")), lg(m.Call(m.Fn{Body: []m.N{m.Ret(m.Var("x"))}}.Expr())))
	return p
}

// ToObject(undefined/null) throws a TypeError before any environment is made; the body does not run
func scWithNull(r *h.Rng) *prog {
	p := &prog{}
	p.v("o", "x")
	p.add(m.X(m.Asg("x", m.Num(1))), m.X(m.Asg("o", m.Obj(m.Prop{K: "x", V: m.Num(2)}))))
	var bad m.N
	switch r.Intn(4) {
	case 0:
		bad = m.Null()
	case 1:
		bad = m.Undef()
	case 2:
		bad = m.Get(m.Var("o"), "nothing")
	default:
		bad = m.Log(m.Null())
	}
	w := m.With(bad, lg(m.Str("body")), m.X(m.Asg("x", m.Num(3))))
	if r.Bool() {
		w = m.With(m.Var("o"), lg(m.Var("x")), w, lg(m.Str("unreached")))
	}
	inFn := r.Bool()
	caught := r.Chance(70)
	var body []m.N
	if caught {
		body = []m.N{m.Try([]m.N{w}, "e", []m.N{lg(m.Get(m.Var("e"), "name")), lg(m.Inst(m.Var("e"), m.Var("f")))}, nil, true, false), lg(m.Var("x")), lg(m.Get(m.Var("o"), "x"))}
		p.decl("f", m.Fn{Name: "f", Body: nil})
		if inFn {
			p.decl("g", m.Fn{Name: "g", Body: body})
			p.add(lg(m.CallV("g")))
		} else {
			p.add(body...)
		}
	} else {
		if inFn {
			p.decl("g", m.Fn{Name: "g", Body: []m.N{w}})
			p.add(lg(m.Var("x")), m.X(m.CallV("g")), lg(m.Str("unreached")))
		} else {
			p.add(lg(m.Var("x")), w, lg(m.Str("unreached")))
		}
	}
	return p
}

// ---------------------------------------------------------------- for-in

func tallyInit() m.N {
	var ps []m.Prop
	for _, k := range keyU {
		ps = append(ps, m.Prop{K: k, V: m.Num(0)})
	}
	return m.Obj(ps...)
}

// count / sum / tally, then read everything back in a fixed order
func tallyBody(obj string) []m.N {
	return []m.N{inc("n", 1), m.X(m.Asg("s", m.Add(m.Var("s"), m.GetE(m.Var(obj), m.Var("k"))))),
		m.X(m.SetE(m.Var("seen"), m.Var("k"), m.Add(m.GetE(m.Var("seen"), m.Var("k")), m.Num(1))))}
}

func tallyReport() []m.N {
	out := []m.N{lg(m.Var("n")), lg(m.Var("s"))}
	for _, k := range keyU {
		out = append(out, lg(m.Get(m.Var("seen"), k)))
	}
	return out
}

// own and inherited, enumerable and not, shadowed by enumerable and by non-enumerable properties
func scForInChain(r *h.Rng) *prog {
	p := &prog{}
	p.inh()
	nlev := 1 + r.Intn(3)
	nk := 1 + r.Intn(len(keyU))
	lv := randLevels(r, keyU[:nk], nlev, 35+r.Intn(40), r.Intn(45))
	vars, st := mkChain("o", lv)
	p.v(vars...)
	p.add(st...)
	inFn := r.Bool()
	isVar := r.Bool()
	body := []m.N{m.X(m.Asg("n", m.Num(0))), m.X(m.Asg("s", m.Num(0))), m.X(m.Asg("seen", tallyInit())),
		m.ForIn(isVar, "k", m.Var("o"), tallyBody("o")...)}
	body = append(body, tallyReport()...)
	// enumerating a prototype of the chain on its own
	if nlev > 1 && r.Bool() {
		nm := chainName("o", 1+r.Intn(nlev-1))
		body = append(body, m.X(m.Asg("n", m.Num(0))), m.X(m.Asg("s", m.Num(0))), m.X(m.Asg("seen", tallyInit())),
			m.ForIn(false, "k", m.Var(nm), tallyBody(nm)...))
		body = append(body, tallyReport()...)
	}
	wrapFn(p, r, inFn, nil, nil, []string{"n", "s", "seen", "k"}, body)
	return p
}

// objects with built-in non-enumerable properties: functions (length, prototype), prototype objects
// (constructor), arguments objects (length), bound functions, String wrappers, and chains through them
func scForInSpecial(r *h.Rng) *prog {
	p := &prog{}
	p.inh()
	p.v("o", "n", "s", "k", "seen", "C")
	p.decl("C", m.Fn{Name: "C", Params: []string{"p1", "p2"}, Body: []m.N{m.X(m.Set(m.This(), "a", m.Num(1)))}})
	extra := func(target m.N, bit int) []m.N {
		var out []m.N
		for _, k := range keyU[1:] {
			if r.Chance(40) {
				out = append(out, m.X(m.Set(target, k, m.Num(bit))))
			}
			bit *= 2
		}
		return out
	}
	switch r.Intn(7) {
	case 0: // a function object with extra properties
		p.add(m.X(m.Asg("o", m.Var("C"))))
		p.add(extra(m.Var("C"), 2)...)
	case 1: // an instance: own a, inherited from C.prototype (whose constructor is not enumerable)
		p.add(extra(m.Get(m.Var("C"), "prototype"), 2)...)
		p.add(m.X(m.Asg("o", m.New(m.Var("C")))))
		p.add(extra(m.Var("o"), 64)...)
	case 2: // the prototype object itself
		p.add(extra(m.Get(m.Var("C"), "prototype"), 2)...)
		p.add(m.X(m.Asg("o", m.Get(m.Var("C"), "prototype"))))
	case 3: // an object inheriting from a function: own enumerable `length` shadows nothing visible; `prototype` stays hidden
		p.add(extra(m.Var("C"), 2)...)
		p.add(m.X(m.Asg("o", m.CallV("inh", m.Var("C")))))
		if r.Bool() {
			p.add(m.X(m.Set(m.Var("o"), "length", m.Num(512))))
		}
		if r.Bool() {
			p.add(m.X(m.Set(m.Var("o"), "prototype", m.Num(1024))))
		}
		p.add(extra(m.Var("o"), 64)...)
	case 4: // a bound function
		p.add(m.X(m.Asg("o", m.MCall(m.Var("C"), "bind", m.Null(), m.Num(1)))))
		p.add(extra(m.Var("o"), 2)...)
	case 5: // an object whose own NON-enumerable constructor/length shadow enumerable inherited ones
		p.v("q")
		p.add(m.X(m.Asg("q", m.Obj(m.Prop{K: "constructor", V: m.Num(2)}, m.Prop{K: "length", V: m.Num(4)}, m.Prop{K: "b", V: m.Num(8)}))),
			m.X(m.Set(m.Var("C"), "prototype", m.Var("q"))),
			m.X(m.Asg("o", m.New(m.Var("C")))),
			m.X(m.DefNE(m.Var("o"), pickS(r, []string{"constructor", "length", "b"}), m.Num(16))))
	default: // a deleted and re-created built-in property becomes enumerable
		p.add(m.X(m.Asg("o", m.Get(m.Var("C"), "prototype"))), lg(m.Del(m.Var("o"), "constructor")))
		if r.Bool() {
			p.add(m.X(m.Set(m.Var("o"), "constructor", m.Num(32))))
		}
	}
	p.add(m.X(m.Asg("n", m.Num(0))), m.X(m.Asg("s", m.Num(0))), m.X(m.Asg("seen", tallyInit())),
		m.X(m.Set(m.Var("seen"), "length", m.Num(0))), m.X(m.Set(m.Var("seen"), "prototype", m.Num(0))), m.X(m.Set(m.Var("seen"), "constructor", m.Num(0))),
		m.ForIn(r.Bool(), "k", m.Var("o"), inc("n", 1),
			m.X(m.SetE(m.Var("seen"), m.Var("k"), m.Add(m.GetE(m.Var("seen"), m.Var("k")), m.Num(1))))))
	p.add(lg(m.Var("n")))
	for _, k := range append([]string{"length", "prototype", "constructor"}, keyU...) {
		p.add(lg(m.Get(m.Var("seen"), k)))
	}
	return p
}

// return / break / continue in the body leave or continue the WHOLE statement (not just the object of
// the prototype chain that is being enumerated)
func scForInReturn(r *h.Rng) *prog {
	p := &prog{}
	p.inh()
	nlev := 1 + r.Intn(3)
	nk := 2 + r.Intn(4)
	lv := partLevels(r, keyU[:nk], nlev)
	vars, st := mkChain("o", lv)
	p.v(vars...)
	p.add(st...)
	j := 1 + r.Intn(nk+1)
	var ex m.N
	switch r.Intn(8) {
	case 0:
		ex = m.Break("")
	case 1:
		ex = m.Continue("")
	case 2:
		ex = m.Break("L")
	case 3:
		ex = m.Continue("L")
	default:
		ex = m.Ret(m.Add(m.Var("n"), m.Num(100)))
	}
	cond := m.If(m.Seq(m.Var("n"), m.Var("j")), []m.N{ex}, nil)
	switch r.Intn(4) {
	case 0:
		cond = m.Try([]m.N{cond}, "", nil, []m.N{lg(m.Str("fin"))}, false, true)
	case 1:
		cond = m.Block(cond)
	case 2:
		cond = m.With(m.Var("o"), cond)
	}
	loop := m.ForIn(r.Bool(), "k", m.Var("o"), inc("n", 1), cond, lg(m.Add(m.Str("b"), m.Var("n"))))
	if r.Bool() {
		loop = m.Label("L", loop)
	} else {
		loop = m.Label("L", m.Label("M", loop))
	}
	p.decl("f", m.Fn{Name: "f", Params: []string{"j"}, Vars: []string{"n", "k"}, Body: []m.N{
		m.X(m.Asg("n", m.Num(0))), loop, lg(m.Add(m.Str("after"), m.Var("n"))), m.Ret(m.Sub(m.Num(0), m.Var("n")))}})
	p.add(lg(m.CallV("f", m.Num(j))))
	if r.Bool() {
		p.add(lg(m.CallV("f", m.Num(1+r.Intn(nk+1)))))
	}
	return p
}

// break / continue to an outer label from inside for-in; for-in nested in while, while in for-in, for-in in for-in
func scForInLabels(r *h.Rng) *prog {
	p := &prog{}
	p.inh()
	nlev := 1 + r.Intn(2)
	nk := 1 + r.Intn(3)
	vars, st := mkChain("o", partLevels(r, keyU[:nk], nlev))
	p.v(vars...)
	p.add(st...)
	vars2, st2 := mkChain("q", partLevels(r, keyU[:1+r.Intn(3)], 1+r.Intn(2)))
	p.v(vars2...)
	p.add(st2...)
	j := 1 + r.Intn(2*nk+2)
	var ex m.N
	switch r.Intn(6) {
	case 0:
		ex = m.Break("L")
	case 1:
		ex = m.Continue("L")
	case 2:
		ex = m.Break("")
	case 3:
		ex = m.Continue("")
	case 4:
		ex = m.Break("B")
	default:
		ex = m.Ret(m.Add(m.Str("r"), m.Var("n")))
	}
	cond := m.If(m.Seq(m.Var("n"), m.Num(j)), []m.N{ex}, nil)
	if r.Chance(30) {
		cond = m.Try([]m.N{cond}, "", nil, []m.N{inc("fc", 1)}, false, true)
	}
	work := []m.N{inc("n", 1), cond, lg(m.Add(m.Str("b"), m.Var("n")))}
	var loop m.N
	switch r.Intn(3) {
	case 0: // for-in in while
		inner := m.ForIn(r.Bool(), "k", m.Var("o"), work...)
		if r.Bool() {
			inner = m.Label("M", inner)
		}
		loop = m.Label("L", m.While(m.Lt(m.Var("i"), m.Num(3)), []m.N{inc("i", 1), inner, lg(m.Add(m.Str("w"), m.Var("i")))}))
	case 1: // while in for-in
		inner := m.While(m.Lt(m.Var("i"), m.Num(2)), append([]m.N{inc("i", 1)}, work...))
		loop = m.Label("L", m.ForIn(r.Bool(), "k", m.Var("o"), m.X(m.Asg("i", m.Num(0))), inner, lg(m.Add(m.Str("f"), m.Var("n")))))
	default: // for-in in for-in
		inner := m.ForIn(r.Bool(), "k2", m.Var("q"), work...)
		loop = m.Label("L", m.ForIn(r.Bool(), "k", m.Var("o"), inner, lg(m.Add(m.Str("f"), m.Var("n")))))
	}
	body := []m.N{m.X(m.Asg("n", m.Num(0))), m.X(m.Asg("i", m.Num(0))), m.X(m.Asg("fc", m.Num(0))),
		m.Label("B", m.Block(loop, lg(m.Str("end-of-B")))), lg(m.Var("n")), lg(m.Var("i")), lg(m.Var("fc"))}
	p.decl("f", m.Fn{Name: "f", Vars: []string{"n", "i", "k", "k2", "fc"}, Body: body})
	p.add(lg(m.CallV("f")))
	return p
}

// deleting during enumeration: properties deleted before being visited are not visited
func scForInDelete(r *h.Rng) *prog {
	p := &prog{}
	p.inh()
	nlev := 1 + r.Intn(3)
	nk := 2 + r.Intn(4)
	var lv [][]cell
	delSelf := r.Chance(35)
	if delSelf {
		lv = partLevels(r, keyU[:nk], nlev) // no shadowing: each name has one holder
	} else {
		lv = randLevels(r, keyU[:nk], nlev, 60, 20)
	}
	vars, st := mkChain("o", lv)
	p.v(vars...)
	p.v("n", "m2", "k")
	p.add(st...)
	delAll := func(key m.N) []m.N {
		var out []m.N
		for i := 0; i < nlev; i++ {
			out = append(out, m.X(m.DelE(m.Var(chainName("o", i)), key)))
		}
		return out
	}
	var body []m.N
	if delSelf {
		// delete the current key itself, everywhere: every visible key is still visited exactly once
		body = append([]m.N{inc("n", 1)}, delAll(m.Var("k"))...)
	} else {
		// in the first iteration delete every OTHER name from every object of the chain
		var dels []m.N
		for _, u := range keyU[:nk] {
			dels = append(dels, m.If(m.Seq(m.Var("k"), m.Str(u)), nil, delAll(m.Str(u))))
		}
		body = []m.N{inc("n", 1), m.If(m.Seq(m.Var("n"), m.Num(1)), dels, nil)}
	}
	p.add(m.X(m.Asg("n", m.Num(0))), m.X(m.Asg("m2", m.Num(0))),
		m.ForIn(r.Bool(), "k", m.Var("o"), body...), lg(m.Var("n")),
		m.ForIn(false, "k", m.Var("o"), inc("m2", 1)), lg(m.Var("m2")))
	if !delSelf {
		// what is left is the one name that was visited (if any was)
		p.add(m.If(m.Lt(m.Num(0), m.Var("n")), []m.N{lg(m.Seq(m.Typeof(m.GetE(m.Var("o"), m.Var("k"))), m.Str("number")))}, nil))
	}
	p.add(lg(m.Str("end")))
	return p
}

// "A property name must not be visited more than once in any enumeration" (12.6.4): deleting the own,
// already visited, current property must not make an inherited property of the same name appear
// (repaired defect, formerly region forin_revisit).  All properties enumerable; only the start object is deleted from.
func scForInRevisit(r *h.Rng) *prog {
	p := &prog{}
	p.inh()
	nlev := 2 + r.Intn(2)
	nk := 1 + r.Intn(4)
	lv := randLevels(r, keyU[:nk], nlev, 65, 0)
	vars, st := mkChain("o", lv)
	p.v(vars...)
	p.v("n", "s", "seen", "k")
	p.add(st...)
	body := tallyBody("o")
	if r.Chance(80) {
		body = append(body, m.X(m.DelE(m.Var("o"), m.Var("k"))))
	}
	p.add(m.X(m.Asg("n", m.Num(0))), m.X(m.Asg("s", m.Num(0))), m.X(m.Asg("seen", tallyInit())), m.ForIn(r.Bool(), "k", m.Var("o"), body...))
	p.add(tallyReport()...)
	return p
}

// undefined / null: no iteration and no TypeError; primitives; arguments objects; `for (var k in ...)` hoisting
func scForInEmpty(r *h.Rng) *prog {
	p := &prog{}
	p.v("o", "n")
	var src m.N
	single := "" // the only key, if the source has exactly one
	switch r.Intn(9) {
	case 0:
		src = m.Null()
	case 1:
		src = m.Undef()
	case 2:
		src = m.Num(r.Intn(100))
	case 3:
		src = m.Bool(r.Bool())
	case 4:
		src = m.Obj()
	case 5:
		src = m.Get(m.Obj(), "nothing")
	case 6:
		src = m.Str("")
	case 7:
		src, single = m.Str("z"), "0"
	default:
		single = pickS(r, keyU)
		src = m.Obj(m.Prop{K: single, V: m.Num(5)})
	}
	isVar := r.Bool()
	// in a function: k is local when declared (by `var k` in the for-in head only), global otherwise
	fb := []m.N{lg(m.Typeof(m.Var("k"))), m.X(m.Asg("n", m.Num(0))),
		m.ForIn(isVar, "k", src, inc("n", 1), lg(m.Var("k"))),
		lg(m.Var("n")), lg(m.Typeof(m.Var("k")))}
	if single != "" {
		fb = append(fb, lg(m.Seq(m.Var("k"), m.Str(single))))
	}
	var fvars []string
	if isVar {
		fvars = []string{"k"}
	}
	p.decl("f", m.Fn{Name: "f", Vars: fvars, Body: fb})
	p.add(guard(lg(m.CallV("f"))), lg(m.Typeof(m.Var("k"))))
	// arguments objects: the indices are enumerable, length is not
	na := r.Intn(4)
	ab := []m.N{m.X(m.Asg("n", m.Num(0))), m.X(m.Asg("s", m.Num(0)))}
	switch r.Intn(3) {
	case 0:
		ab = append(ab, m.X(m.Set(m.Var("arguments"), "extra", m.Num(64))))
	case 1:
		if na > 0 {
			ab = append(ab, lg(m.DelE(m.Var("arguments"), m.Num(r.Intn(na)))))
		}
	}
	ab = append(ab, m.ForIn(true, "k", m.Var("arguments"), inc("n", 1), m.X(m.Asg("s", m.Add(m.Var("s"), m.GetE(m.Var("arguments"), m.Var("k")))))),
		lg(m.Var("n")), m.Ret(m.Var("s")))
	p.decl("g", m.Fn{Name: "g", Params: []string{"p1"}, Vars: []string{"n", "s", "k"}, Body: ab})
	args := make([]m.N, na)
	for i := range args {
		args[i] = m.Num(1 << uint(i))
	}
	p.add(lg(m.CallV("g", args...)))
	return p
}

// the loop variable is assigned through the scope chain: for-in inside with, with inside for-in
func scForInWith(r *h.Rng) *prog {
	p := &prog{}
	p.inh()
	p.v("o", "src", "k", "n", "x")
	key := pickS(r, keyU)
	var ops []m.Prop
	hasK, hasN, hasSrc := r.Bool(), r.Bool(), r.Chance(30)
	if hasK {
		ops = append(ops, m.Prop{K: "k", V: m.Str("ok")})
	}
	if hasN {
		ops = append(ops, m.Prop{K: "n", V: m.Num(100)})
	}
	if hasSrc {
		ops = append(ops, m.Prop{K: "src", V: m.Obj(m.Prop{K: "inner", V: m.Num(1)})})
	}
	ops = append(ops, m.Prop{K: "x", V: m.Str("O")})
	p.add(m.X(m.Asg("o", m.Obj(ops...))), m.X(m.Asg("src", m.Obj(m.Prop{K: key, V: m.Num(1)}))),
		m.X(m.Asg("k", m.Str("gk"))), m.X(m.Asg("n", m.Num(0))), m.X(m.Asg("x", m.Str("G"))))
	isVar := r.Bool()
	inFn := r.Bool()
	var body []m.N
	if r.Bool() {
		// for-in inside with: k, n and src are looked up through the object first
		body = []m.N{m.With(m.Var("o"), m.ForIn(isVar, "k", m.Var("src"), inc("n", 1), lg(m.Var("k")), lg(m.Var("x"))), lg(m.Var("k")), lg(m.Var("n")))}
	} else {
		// with inside for-in, left in various ways
		var ex m.N
		switch r.Intn(4) {
		case 0:
			ex = m.Break("")
		case 1:
			ex = m.Continue("")
		case 2:
			ex = m.Break("L")
		default:
			ex = m.X(m.Str("none"))
		}
		body = []m.N{m.Label("L", m.ForIn(isVar, "k", m.Var("src"),
			m.With(m.Var("o"), inc("n", 1), lg(m.Var("k")), m.X(m.Asg("x", m.Add(m.Var("x"), m.Str("+")))), ex, lg(m.Str("end-of-with"))),
			lg(m.Add(m.Str("in-loop:"), m.Var("x"))))),
			lg(m.Add(m.Str("after:"), m.Var("x")))}
	}
	body = append(body, lg(m.Var("k")), lg(m.Var("n")), lg(m.Var("x")), lg(m.Get(m.Var("o"), "k")), lg(m.Get(m.Var("o"), "n")), lg(m.Get(m.Var("o"), "x")))
	var fv []string
	if isVar {
		fv = []string{"k"}
	}
	if inFn {
		p.decl("f", m.Fn{Name: "f", Vars: fv, Body: body})
		p.add(lg(m.CallV("f")))
	} else {
		p.add(body...)
	}
	p.add(lg(m.Var("k")), lg(m.Var("n")), lg(m.Var("x")))
	return p
}

// completion values (observed through eval): V is the value of the last body evaluation that had one;
// continue keeps it; `break` keeps it too (repaired defect, formerly region forin_break_value); zero iterations
// leave the value of the statements before
func scForInValue(r *h.Rng) *prog {
	p := &prog{}
	p.inh()
	nlev := 1 + r.Intn(3)
	nk := 1 + r.Intn(4)
	vars, st := mkChain("o", partLevels(r, keyU[:nk], nlev))
	p.v(vars...)
	p.v("n", "k", "x")
	p.add(st...)
	p.add(m.X(m.Asg("n", m.Num(0))), m.X(m.Asg("x", m.Num(3))))
	c := 7 + r.Intn(3)
	j := 1 + r.Intn(nk+1)
	var body []m.N
	src := m.Var("o")
	kind := r.Intn(8)
	switch kind {
	case 0:
		body = []m.N{inc("n", 1), m.X(m.Num(c))}
	case 1:
		body = []m.N{inc("n", 1), m.X(m.Num(c)), m.Continue("")}
	case 2:
		body = []m.N{inc("n", 1), m.X(m.Num(c)), m.If(m.Seq(m.Var("n"), m.Num(j)), []m.N{m.Break("")}, nil)}
	case 3:
		body = []m.N{inc("n", 1), m.If(m.Seq(m.Var("n"), m.Num(j)), []m.N{m.Break("")}, nil), m.X(m.Num(c))}
	case 4:
		src = m.Null()
		body = []m.N{m.X(m.Num(c))}
	case 5:
		body = []m.N{inc("n", 1), m.If(m.Seq(m.Var("n"), m.Num(j)), []m.N{m.Continue("")}, nil), m.X(m.Num(c))}
	case 6:
		src = m.Obj()
		body = []m.N{m.X(m.Num(c))}
	default:
		body = []m.N{inc("n", 1), m.With(m.Var("o"), m.X(m.Num(c)))}
	}
	var stmts []m.N
	if r.Bool() {
		stmts = append(stmts, m.X(m.Num(5)))
	}
	loop := m.ForIn(false, "k", src, body...)
	if r.Chance(30) {
		loop = m.Label("L", loop)
	}
	stmts = append(stmts, loop)
	p.add(lg(m.EvalD(nil, nil, stmts)), lg(m.Var("n")))
	// a with statement's value is its body's
	p.add(lg(m.EvalI(nil, nil, []m.N{m.X(m.Num(1)), m.With(m.Var("o"), m.X(m.Add(m.Var("x"), m.Num(c))))})))
	return p
}

// labels / break / continue on while loops and blocks (the function layer's own while must honour them)
func scLabels(r *h.Rng) *prog {
	p := &prog{}
	j := 1 + r.Intn(6)
	var ex m.N
	switch r.Intn(7) {
	case 0:
		ex = m.Break("")
	case 1:
		ex = m.Continue("")
	case 2:
		ex = m.Break("A")
	case 3:
		ex = m.Continue("A")
	case 4:
		ex = m.Break("B")
	case 5:
		ex = m.Ret(m.Add(m.Str("r"), m.Var("n")))
	default:
		ex = m.Throw(m.Add(m.Str("thr"), m.Var("n")))
	}
	cond := m.If(m.Seq(m.Var("n"), m.Num(j)), []m.N{ex}, nil)
	if r.Bool() {
		cond = m.Try([]m.N{cond}, "", nil, []m.N{inc("fc", 1)}, false, true)
	}
	inner := m.While(m.Lt(m.Var("i2"), m.Num(2)), []m.N{inc("i2", 1), inc("n", 1), cond, lg(m.Add(m.Str("b"), m.Var("n")))})
	if r.Bool() {
		inner = m.Label("C", inner)
	}
	outer := m.Label("A", m.While(m.Lt(m.Var("i"), m.Num(3)), []m.N{inc("i", 1), m.X(m.Asg("i2", m.Num(0))), inner, lg(m.Add(m.Str("w"), m.Var("i")))}))
	body := []m.N{m.X(m.Asg("n", m.Num(0))), m.X(m.Asg("i", m.Num(0))), m.X(m.Asg("i2", m.Num(0))), m.X(m.Asg("fc", m.Num(0))),
		m.Label("B", m.Block(outer, lg(m.Str("end-of-B")))), lg(m.Var("n")), lg(m.Var("fc")), m.Ret(m.Var("i"))}
	p.decl("f", m.Fn{Name: "f", Vars: []string{"n", "i", "i2", "fc"}, Body: body})
	p.add(guard(lg(m.CallV("f"))))
	p.add(m.Try([]m.N{lg(m.CallV("f"))}, "e", []m.N{lg(m.Var("e"))}, nil, true, false))
	return p
}

// duplicated parameter names and the arguments object (10.6 step 11: indx runs down from the number
// of ARGUMENTS, so with fewer arguments than parameters an earlier duplicate IS the mapped one:
// function f(a, a) { arguments[0] = 7; return a } f(1) gives 7, f(1, 2) gives 2)
func scDupParams(r *h.Rng) *prog {
	p := &prog{}
	pats := [][]string{{"a", "a"}, {"a", "b", "a"}, {"a", "a", "a"}, {"a", "a", "b"}, {"b", "a", "a"}, {"a", "b", "b", "a"}}
	params := pats[r.Intn(len(pats))]
	var body []m.N
	report := func() {
		body = append(body, lg(m.Var("a")), lg(m.Var("b")), lg(m.Get(m.Var("arguments"), "length")))
		for i := 0; i <= len(params); i++ {
			body = append(body, lg(m.GetE(m.Var("arguments"), m.Num(i))))
		}
	}
	report()
	for k := 1 + r.Intn(3); k > 0; k-- {
		switch r.Intn(4) {
		case 0, 1:
			body = append(body, m.X(m.SetE(m.Var("arguments"), m.Num(r.Intn(len(params)+1)), m.Num(700+k))))
		case 2:
			body = append(body, m.X(m.Asg(pickS(r, []string{"a", "b"}), m.Num(900+k))))
		default:
			body = append(body, lg(m.DelE(m.Var("arguments"), m.Num(r.Intn(len(params))))))
		}
		report()
	}
	body = append(body, m.Ret(m.Var("a")))
	p.decl("f", m.Fn{Name: "f", Params: params, Vars: []string{"b"}, Body: body})
	// fewer arguments than (duplicated) parameters, exactly as many, more
	for k := 1 + r.Intn(3); k > 0; k-- {
		p.add(lg(m.CallV("f", nums(r, r.Intn(len(params)+2))...)))
	}
	p.add(lg(m.CallV("f", nums(r, 1)...)))
	return p
}

// evaluation order around calls, `new` and assignments (11.2.2, 11.2.3: the callee's VALUE is read before
// the arguments are evaluated - repaired defect, formerly region call_callee_late; 11.13.1 / 11.2.1: the left-hand
// reference incl. CheckObjectCoercible comes before the right-hand side), and `new` on a bound function
// whose target is a bound function (15.3.4.5.2; repaired by f83bcd0)
func scOrder(r *h.Rng) *prog {
	p := &prog{}
	p.v("f", "g", "o", "u", "x", "B")
	k1, k2 := 1+r.Intn(9), 11+r.Intn(9)
	mk := func(k int) m.N {
		return m.Fn{Params: []string{"a"}, Body: []m.N{m.X(m.Set(m.This(), "t", m.Num(k))), m.Ret(m.Add(m.Num(k*100), m.Var("a")))}}.Expr()
	}
	p.add(m.X(m.Asg("f", mk(k1))), m.X(m.Asg("g", mk(k2))), m.X(m.Asg("o", m.Obj(m.Prop{K: "mm", V: mk(k1)}))), m.X(m.Asg("x", m.Num(0))))
	for n := 1 + r.Intn(3); n > 0; n-- {
		switch r.Intn(9) {
		case 0: // f(f = g): ES5 calls the old f
			p.add(lg(m.CallV("f", m.Seq(m.Asg("f", m.Var("g")), m.Var("g")))), lg(m.Seq(m.Var("f"), m.Var("g"))))
		case 1: // the argument assigns something else: no question of order
			p.add(lg(m.CallV("f", m.Asg("x", m.Num(r.Intn(9))))), lg(m.Var("x")))
		case 2: // o.mm(o.mm = g)
			p.add(lg(m.MCall(m.Var("o"), "mm", m.Seq(m.Set(m.Var("o"), "mm", m.Var("g")), m.Var("g")))), lg(m.Get(m.Var("o"), "t")))
		case 3: // new f(f = g)
			p.add(lg(m.Get(m.New(m.Var("f"), m.Seq(m.Asg("f", m.Var("g")), m.Var("g"))), "t")))
		case 4: // u.p = log(1): TypeError before the right-hand side
			p.add(guard(m.X(m.Set(m.Var("u"), "p", m.Log(m.Num(1))))))
		case 5: // u[log(2)] = log(1): the key is evaluated, then TypeError
			p.add(guard(m.X(m.SetE(m.Var("u"), m.Log(m.Num(2)), m.Log(m.Num(1))))))
		case 6: // a call whose callee is not callable: the arguments are evaluated first (11.2.3 step 3, then 4-5)
			p.add(guard(lg(m.CallV("x", m.Log(m.Num(3))))), guard(lg(m.MCall(m.Var("o"), "nothing", m.Log(m.Num(4))))))
		case 7: // new on a bound function of a bound function
			p.add(m.X(m.Asg("B", m.MCall(m.MCall(m.Var("f"), "bind", m.Null(), m.Num(1)), "bind", m.Null()))),
				guard(lg(m.Get(m.New(m.Var("B")), "t"))), lg(m.CallV("B")))
		default: // an unresolvable callee: ReferenceError, but only after the arguments
			p.add(guard(lg(m.CallV("nowhere", m.Log(m.Num(5))))))
		}
	}
	p.add(lg(m.CallV("f", m.Num(1))))
	return p
}

// the label set of a statement is taken when the statement STARTS: script code run by its header (the
// for-in source, the while test, …) must not swallow it.  `L: for (k in f()) { … continue L … }`
func scLabelCapture(r *h.Rng) *prog {
	p := &prog{}
	p.v("o", "n", "i", "k", "cnt")
	// functions whose bodies contain blocks / loops / labelled statements of their own
	p.decl("src", m.Fn{Name: "src", Vars: []string{"j"}, Body: []m.N{
		inc("cnt", 1), m.X(m.Asg("j", m.Num(0))),
		m.Label("Z", m.While(m.Lt(m.Var("j"), m.Num(2)), []m.N{inc("j", 1), m.If(m.Seq(m.Var("j"), m.Num(1)), []m.N{m.Continue("Z")}, nil)})),
		m.Block(m.X(m.Num(0))), m.Ret(m.Var("o"))}})
	p.decl("C", m.Fn{Name: "C", Body: []m.N{m.Block(m.X(m.Set(m.This(), "a", m.Num(1)))), m.X(m.Set(m.This(), "b", m.Num(2)))}})
	p.decl("tst", m.Fn{Name: "tst", Body: []m.N{m.Block(inc("i", 1)), m.Ret(m.Lt(m.Var("i"), m.Num(4)))}})
	nk := 2 + r.Intn(2)
	var ps []m.Prop
	for _, k := range keyU[:nk] {
		ps = append(ps, m.Prop{K: k, V: m.Num(1)})
	}
	p.add(m.X(m.Asg("o", m.Obj(ps...))), m.X(m.Asg("n", m.Num(0))), m.X(m.Asg("i", m.Num(0))), m.X(m.Asg("cnt", m.Num(0))))
	j := 1 + r.Intn(3)
	var ex m.N
	switch r.Intn(4) {
	case 0, 1:
		ex = m.Continue("L")
	case 2:
		ex = m.Break("L")
	default:
		ex = m.Continue("")
	}
	cond := m.If(m.Seq(m.Var("n"), m.Num(j)), []m.N{ex}, nil)
	if ex.SX != m.Continue("").SX && r.Bool() { // from inside a nested loop (a plain continue would spin in it)
		cond = m.While(m.Lt(m.Var("n"), m.Num(100)), []m.N{cond, m.Break("")})
	}
	body := []m.N{inc("n", 1), cond, lg(m.Add(m.Str("b"), m.Var("n")))}
	var src m.N
	switch r.Intn(4) {
	case 0:
		src = m.CallV("src")
	case 1:
		src = m.New(m.Var("C"))
	case 2:
		src = m.Get(m.Obj(m.Prop{K: "q", V: m.CallV("src")}), "q")
	default:
		src = m.Call(m.Fn{Body: []m.N{m.Label("Y", m.Block(m.Break("Y"))), m.Ret(m.Var("o"))}}.Expr())
	}
	var loop m.N
	switch r.Intn(3) {
	case 0, 1:
		loop = m.ForIn(r.Bool(), "k", src, body...)
	default:
		loop = m.While(m.CallV("tst"), body)
	}
	loop = m.Label("L", loop)
	if r.Bool() {
		loop = m.Label("M", loop)
	}
	if r.Bool() { // inside a function: a stray completion would end the function
		p.decl("run", m.Fn{Name: "run", Vars: []string{"k"}, Body: []m.N{loop, lg(m.Str("after-loop")), m.Ret(m.Var("n"))}})
		p.add(lg(m.CallV("run")))
	} else {
		p.add(loop, lg(m.Str("after-loop")))
	}
	p.add(lg(m.Var("n")), lg(m.Var("cnt")), lg(m.Var("i")))
	return p
}

// an indirect eval whose code exits abnormally must leave no scope behind: locals, `this`, closures and
// further calls afterwards, with the exception caught in the same function, in a caller, or at top level
func scEvalThrow(r *h.Rng) *prog {
	p := &prog{}
	p.v("x", "o", "keep")
	p.add(m.X(m.Asg("x", m.Str("G"))))
	var bad []m.N
	switch r.Intn(4) {
	case 0:
		bad = []m.N{m.Throw(m.Str("T"))}
	case 1:
		bad = []m.N{m.X(m.Var("nowhere"))}
	case 2:
		bad = []m.N{m.X(m.CallV("x"))} // TypeError: not a function
	default:
		bad = []m.N{lg(m.Str("in-eval")), m.X(m.Get(m.Undef(), "p"))}
	}
	ev := func() m.N {
		pad := make([]m.N, r.Intn(2)) // varies the spelling of the indirect call
		for i := range pad {
			pad[i] = m.X(m.Num(i))
		}
		return m.X(m.EvalI(nil, nil, append(pad, bad...)))
	}
	after := []m.N{lg(m.Var("x")), lg(m.Var("loc")), lg(m.Get(m.This(), "tag")),
		m.X(m.Asg("keep", m.Fn{Body: []m.N{m.Ret(m.Add(m.Var("loc"), m.Var("x")))}}.Expr())), lg(m.CallV("keep")),
		lg(m.CallV("helper", m.Num(1))), m.X(m.Asg("loc", m.Add(m.Var("loc"), m.Str("!")))), lg(m.Var("loc"))}
	p.decl("helper", m.Fn{Name: "helper", Params: []string{"a"}, Vars: []string{"x"}, Body: []m.N{m.X(m.Asg("x", m.Str("H"))), m.Ret(m.Add(m.Var("x"), m.Var("a")))}})
	where := r.Intn(3)
	switch where {
	case 0: // caught in the same function
		body := []m.N{m.X(m.Asg("x", m.Str("L"))), m.X(m.Asg("loc", m.Str("loc"))),
			m.Try([]m.N{ev(), lg(m.Str("unreached"))}, "e", []m.N{lg(m.Typeof(m.Var("e")))}, nil, true, false)}
		body = append(body, after...)
		body = append(body, m.Ret(m.Var("loc")))
		p.decl("f", m.Fn{Name: "f", Vars: []string{"x", "loc"}, Body: body})
	case 1: // caught in the caller
		p.decl("thrower", m.Fn{Name: "thrower", Vars: []string{"x", "z"}, Body: []m.N{m.X(m.Asg("x", m.Str("TH"))), ev(), m.Ret(m.Str("unreached"))}})
		body := []m.N{m.X(m.Asg("x", m.Str("L"))), m.X(m.Asg("loc", m.Str("loc"))),
			m.Try([]m.N{lg(m.CallV("thrower"))}, "e", []m.N{lg(m.Typeof(m.Var("e")))}, nil, true, false)}
		body = append(body, after...)
		body = append(body, m.Ret(m.Var("loc")))
		p.decl("f", m.Fn{Name: "f", Vars: []string{"x", "loc"}, Body: body})
	default: // caught by try/finally only, then by the top level
		body := []m.N{m.X(m.Asg("x", m.Str("L"))), m.X(m.Asg("loc", m.Str("loc"))),
			m.Try([]m.N{ev()}, "", nil, after, false, true), m.Ret(m.Str("unreached"))}
		p.decl("f", m.Fn{Name: "f", Vars: []string{"x", "loc"}, Body: body})
	}
	p.add(m.X(m.Asg("o", m.Obj(m.Prop{K: "tag", V: m.Str("O")}, m.Prop{K: "f", V: m.Var("f")}))))
	call := lg(m.MCall(m.Var("o"), "f"))
	p.add(m.Try([]m.N{call}, "e", []m.N{lg(m.Add(m.Str("top:"), m.Typeof(m.Var("e"))))}, nil, true, false))
	// the top level continues in the global scope with its own bindings
	p.add(lg(m.Var("x")), lg(m.Typeof(m.Var("loc"))), lg(m.CallV("helper", m.Num(2))),
		m.Try([]m.N{ev()}, "e", []m.N{lg(m.Str("top2"))}, nil, true, false), lg(m.Var("x")), lg(m.Typeof(m.This())))
	if r.Bool() {
		p.add(m.Try([]m.N{call}, "e", []m.N{lg(m.Str("again"))}, nil, true, false))
	}
	return p
}

// hoisting where a function's own name, its parameters, its vars and its inner function declarations collide
// (10.5: parameters, then function declarations, then `arguments`, then vars that do not exist yet; the name of a
// function DECLARATION is not bound inside it, that of a named function EXPRESSION is, immutably, one level out)
func scHoistCollide(r *h.Rng) *prog {
	p := &prog{}
	p.v("h", "r1")
	pool := []string{"f", "a", "g", "arguments"}
	sub := func() []string {
		var out []string
		for _, x := range pool {
			if r.Chance(45) {
				out = append(out, x)
			}
		}
		return out
	}
	params, vars, inner := sub(), sub(), sub()
	for i, x := range params { // a parameter named `arguments` is legal; keep at most one `f`
		_ = i
		_ = x
	}
	var decls []m.Decl
	for _, x := range inner {
		decls = append(decls, m.Decl{Name: x, F: m.Fn{Name: x, Body: []m.N{m.Ret(m.Str("inner-" + x))}}})
	}
	probe := func() []m.N {
		var out []m.N
		for _, x := range pool {
			out = append(out, lg(m.Typeof(m.Var(x))))
		}
		return out
	}
	body := probe()
	// assignments: to a var initialiser of the function's own name, to a parameter, to an inner function's name
	for _, x := range vars {
		if r.Bool() {
			body = append(body, m.VarS(x, m.Num(7)))
		}
	}
	if r.Bool() {
		body = append(body, m.X(m.Asg("f", m.Num(5))))
	}
	body = append(body, probe()...)
	body = append(body, m.Ret(m.Typeof(m.Var("f"))))
	fn := m.Fn{Name: "f", Params: params, Vars: vars, Decls: decls, Body: body}
	args := nums(r, r.Intn(len(params)+1))
	switch r.Intn(3) {
	case 0: // a function declaration
		p.decl("f", fn)
		p.add(lg(m.CallV("f", args...)), lg(m.Typeof(m.Var("f"))), lg(m.Typeof(m.Var("a"))), lg(m.Typeof(m.Var("g"))))
		if r.Bool() {
			p.add(lg(m.CallV("f", args...)))
		}
	case 1: // a named function expression: the name is visible inside only
		p.add(m.X(m.Asg("h", fn.Expr())), lg(m.CallV("h", args...)), lg(m.Typeof(m.Var("f"))), lg(m.CallV("h", args...)))
	default: // a named function expression with the same name as an outer function
		p.decl("f", m.Fn{Name: "f", Body: []m.N{m.Ret(m.Str("outer-f"))}})
		p.add(m.X(m.Asg("h", fn.Expr())), lg(m.CallV("h", args...)), lg(m.CallV("f")), lg(m.Typeof(m.Var("f"))))
	}
	return p
}

// a label left pending by a labelled statement that THROWS inside a callee must not be adopted by the caller's
// catch / finally block: `break L` there is the caller's own
func scLabelStale(r *h.Rng) *prog {
	p := &prog{}
	p.v("i", "n")
	var thrower m.N
	switch r.Intn(3) {
	case 0:
		thrower = m.Label("L", m.Throw(m.Str("T")))
	case 1:
		thrower = m.Label("L", m.X(m.Get(m.Null(), "y")))
	default:
		thrower = m.Label("M", m.Label("L", m.X(m.Var("nowhere"))))
	}
	var tb []m.N
	switch r.Intn(3) {
	case 0:
		tb = []m.N{thrower}
	case 1:
		tb = []m.N{m.X(m.EvalD(nil, nil, []m.N{thrower}))}
	default:
		tb = []m.N{m.X(m.EvalI(nil, nil, []m.N{thrower}))}
	}
	p.decl("th", m.Fn{Name: "th", Body: append(tb, m.Ret(m.Str("unreached")))})
	ex := m.Break("L")
	if r.Chance(30) {
		ex = m.Continue("L")
	}
	var tr m.N
	if r.Bool() { // caught: break L in the catch block
		tr = m.Try([]m.N{m.X(m.CallV("th"))}, "e", []m.N{inc("n", 10), ex, lg(m.Str("unreached-c"))}, nil, true, false)
	} else { // no catch: break L in the finally block (which also discards the exception)
		tr = m.Try([]m.N{m.X(m.CallV("th"))}, "", nil, []m.N{inc("n", 100), ex, lg(m.Str("unreached-f"))}, false, true)
	}
	loop := m.Label("L", m.While(m.Lt(m.Var("i"), m.Num(3)), []m.N{inc("i", 1), tr, lg(m.Str("after-try"))}))
	body := []m.N{m.X(m.Asg("i", m.Num(0))), m.X(m.Asg("n", m.Num(0))), loop, lg(m.Var("i")), lg(m.Var("n"))}
	if r.Bool() {
		p.decl("run", m.Fn{Name: "run", Vars: []string{"i", "n"}, Body: append(body, m.Ret(m.Var("n")))})
		p.add(lg(m.CallV("run")))
	} else {
		p.add(body...)
	}
	// a labelled block in the caller
	p.add(m.Label("L", m.Block(m.Try([]m.N{m.X(m.CallV("th"))}, "e", []m.N{m.Break("L")}, nil, true, false), lg(m.Str("unreached-b")))), lg(m.Str("end")))
	return p
}

// a host function that re-enters the VM (Otto.Call) runs the named function as GLOBAL code, whatever locals shadow it
func scHostReentry(r *h.Rng) *prog {
	p := &prog{}
	p.v("o")
	p.decl("who", m.Fn{Name: "who", Body: []m.N{m.Ret(m.Add(m.Str("G:"), m.Typeof(m.Var("loc"))))}})
	re := func() m.N { return m.EvalI(nil, nil, []m.N{m.X(m.CallV("who"))}) }
	var fb []m.N
	fvars := []string{"loc"}
	fb = append(fb, m.X(m.Asg("loc", m.Num(1))))
	var decls []m.Decl
	switch r.Intn(3) {
	case 0: // a local variable shadows it
		fvars = append(fvars, "who")
		fb = append(fb, m.X(m.Asg("who", m.Fn{Body: []m.N{m.Ret(m.Str("L"))}}.Expr())))
	case 1: // an inner function declaration shadows it
		decls = append(decls, m.Decl{Name: "who", F: m.Fn{Name: "who", Body: []m.N{m.Ret(m.Str("L"))}}})
	}
	fb = append(fb, lg(re()), lg(m.CallV("who")))
	if r.Bool() {
		fb = append(fb, m.With(m.Obj(m.Prop{K: "who", V: m.Fn{Body: []m.N{m.Ret(m.Str("W"))}}.Expr()}), lg(re()), lg(m.CallV("who"))))
	}
	fb = append(fb, lg(re()), m.Ret(m.Var("loc")))
	p.decl("f", m.Fn{Name: "f", Vars: fvars, Decls: decls, Body: fb})
	p.add(lg(m.CallV("f")), lg(re()), lg(m.Typeof(m.Var("loc"))))
	return p
}

// bound functions made by a bound `bind` (Function.prototype.bind.bind(f, this, a…)): every bound function has its
// own argument list (15.3.4.5.1), whatever was bound or called in between
func scBindChain(r *h.Rng) *prog {
	p := &prog{}
	p.v("ff", "bb", "g1", "g2", "g3")
	ff := m.Fn{Body: []m.N{m.Ret(m.Add(m.Add(m.Add(m.Str("n"), m.Get(m.Var("arguments"), "length")), m.Str(":")),
		m.Add(m.Add(m.Add(m.GetE(m.Var("arguments"), m.Num(0)), m.Str(",")), m.Add(m.GetE(m.Var("arguments"), m.Num(1)), m.Str(","))), m.GetE(m.Var("arguments"), m.Num(2)))))}}
	p.add(m.X(m.Asg("ff", ff.Expr())))
	nb := r.Intn(3) // arguments bound by the outer bind (after the this value)
	args := []m.N{m.Var("ff"), m.Null()}
	for i := 0; i < nb; i++ {
		args = append(args, m.Num(1+i))
	}
	p.add(m.X(m.Asg("bb", m.MCall(m.Get(m.Var("ff"), "bind"), "bind", args...))))
	mk := func(base int) []m.N {
		out := make([]m.N, 1+r.Intn(2))
		for i := range out {
			out[i] = m.Num(base + i)
		}
		return out
	}
	p.add(m.X(m.Asg("g1", m.CallV("bb", mk(20)...))), m.X(m.Asg("g2", m.CallV("bb", mk(30)...))))
	if r.Bool() {
		p.add(m.X(m.Asg("g3", m.CallV("bb", mk(40)...))), lg(m.CallV("g3")))
	}
	p.add(lg(m.CallV("g1")), lg(m.CallV("g2")), lg(m.CallV("g1", m.Num(9))), lg(m.CallV("g2")), lg(m.CallV("g1")))
	// a bound function called with different arguments keeps its own bound ones
	p.add(m.X(m.Asg("g3", m.MCall(m.Var("ff"), "bind", m.Null(), m.Num(7)))), lg(m.CallV("g3", m.Num(1))), lg(m.CallV("g3", m.Num(2), m.Num(3))), lg(m.CallV("g3")))
	return p
}

// `for (var x = e in o)`: e is evaluated once, before o, whatever o has (12.6.4)
func scForInInit(r *h.Rng) *prog {
	p := &prog{}
	p.v("o", "q", "n", "cnt", "w")
	nk := r.Intn(4)
	var ps []m.Prop
	for _, k := range keyU[:nk] {
		ps = append(ps, m.Prop{K: k, V: m.Num(1)})
	}
	var src m.N
	switch r.Intn(5) {
	case 0:
		src = m.Null()
	case 1:
		src = m.Undef()
	default:
		src = m.Var("o")
	}
	// the initialiser counts its evaluations and redirects the object expression
	p.decl("ini", m.Fn{Name: "ini", Body: []m.N{inc("n", 1), m.If(m.Var("q"), []m.N{m.X(m.Asg("o", m.Var("q")))}, nil), m.Ret(m.Add(m.Str("i"), m.Var("n")))}})
	p.add(m.X(m.Asg("o", m.Obj(ps...))), m.X(m.Asg("n", m.Num(0))), m.X(m.Asg("cnt", m.Num(0))), m.X(m.Asg("w", m.Obj(m.Prop{K: "x", V: m.Str("wx")}))))
	if r.Chance(30) {
		p.add(m.X(m.Asg("q", m.Obj(m.Prop{K: "z", V: m.Num(1)}, m.Prop{K: "y", V: m.Num(2)}))))
	}
	loop := m.ForInInit("x", m.CallV("ini"), src, inc("cnt", 1), lg(m.Typeof(m.Var("x"))))
	inWith := r.Chance(30)
	body := []m.N{lg(m.Typeof(m.Var("x")))}
	if inWith {
		body = append(body, m.With(m.Var("w"), loop))
	} else {
		body = append(body, loop)
	}
	body = append(body, lg(m.Var("n")), lg(m.Var("cnt")), lg(m.Typeof(m.Var("x"))), lg(m.Get(m.Var("w"), "x")))
	if r.Bool() {
		p.decl("f", m.Fn{Name: "f", Vars: []string{"x"}, Body: append(body, m.Ret(m.Var("cnt")))})
		p.add(lg(m.CallV("f")), lg(m.Typeof(m.Var("x"))))
	} else {
		p.v("x")
		p.add(body...)
	}
	return p
}

// bindings made by eval code can be deleted, all others cannot (10.4.2, 10.5 configurableBindings; 11.4.1)
func scEvalDelete(r *h.Rng) *prog {
	p := &prog{}
	p.v("gv", "w")
	p.decl("gf", m.Fn{Name: "gf", Body: []m.N{m.Ret(m.Num(1))}})
	ev := func(vars []string, decls []m.Decl, body ...m.N) m.N {
		if r.Chance(35) {
			return m.X(m.EvalI(vars, decls, body))
		}
		return m.X(m.EvalD(vars, decls, body))
	}
	probe := func(x string) []m.N {
		return []m.N{lg(m.Typeof(m.Var(x))), lg(m.DelV(x)), lg(m.Typeof(m.Var(x)))}
	}
	// the code under test, run either as global code or as the body of a function with its own x / g
	var body []m.N
	name := []string{"x", "y", "gv", "gf", "lv", "g"}[r.Intn(6)]
	switch r.Intn(6) {
	case 0: // var in eval code
		body = append(body, ev([]string{name}, nil, m.VarS(name, m.Num(r.Intn(5)+1))))
	case 1: // function declaration in eval code
		body = append(body, ev(nil, []m.Decl{{Name: name, F: m.Fn{Name: name, Body: []m.N{m.Ret(m.Num(2))}}}}, m.X(m.Num(0))))
	case 2: // both, and a second eval that re-creates after a delete
		body = append(body, ev([]string{name}, nil, m.VarS(name, m.Num(7))))
		body = append(body, probe(name)...)
		body = append(body, ev(nil, []m.Decl{{Name: name, F: m.Fn{Name: name, Body: []m.N{m.Ret(m.Num(3))}}}}, m.X(m.Num(0))))
	case 3: // created by assignment to an unresolvable name: deletable property of the global object
		body = append(body, m.X(m.Asg(name, m.Num(4))))
	case 4: // eval inside with: the var goes to the variable environment, the with object keeps its own
		body = append(body, m.X(m.Asg("w", m.Obj(m.Prop{K: name, V: m.Str("wx")}))),
			m.With(m.Var("w"), ev([]string{name}, nil, m.VarS(name, m.Num(9))), lg(m.DelV(name)), lg(m.Typeof(m.Var(name)))),
			lg(m.Get(m.Var("w"), name)))
	default: // nothing made by eval: plain bindings stay
	}
	body = append(body, probe(name)...)
	body = append(body, probe(name)...)
	for _, x := range []string{"gv", "gf", "lv", "p"} {
		if r.Chance(40) {
			body = append(body, lg(m.DelV(x)), lg(m.Typeof(m.Var(x))))
		}
	}
	if r.Bool() {
		p.decl("f", m.Fn{Name: "f", Params: []string{"p"}, Vars: []string{"lv"}, Decls: []m.Decl{{Name: "g", F: m.Fn{Name: "g", Body: []m.N{m.Ret(m.Num(5))}}}},
			Body: append(body, lg(m.DelV("arguments")), lg(m.DelV("f")), m.Ret(m.Typeof(m.Var(name))))})
		p.add(lg(m.CallV("f", m.Num(1))), lg(m.Typeof(m.Var(name))), lg(m.DelV(name)), lg(m.Typeof(m.Var(name))))
	} else {
		p.v("lv")
		p.add(body...)
	}
	p.add(lg(m.Del(m.This(), name)), lg(m.DelV("gv")), lg(m.DelV("gf")), lg(m.Typeof(m.Var("gf"))))
	return p
}

// Object.defineProperty on an arguments object (10.6 [[DefineOwnProperty]]): a value goes through to the joined
// parameter, writable:false ends the join; and read-only properties in general (8.12.4, 8.12.5)
func scArgsDefine(r *h.Rng) *prog {
	p := &prog{}
	params := [][]string{{"a"}, {"a", "b"}, {"a", "b", "a"}, {"b", "a"}}[r.Intn(4)]
	var body []m.N
	args := m.Var("arguments")
	report := func() {
		body = append(body, lg(m.Var("a")), lg(m.Var("b")))
		for i := 0; i <= len(params); i++ {
			body = append(body, lg(m.GetE(args, m.Num(i))))
		}
	}
	report()
	for k := 2 + r.Intn(4); k > 0; k-- {
		i := r.Intn(len(params) + 1)
		switch r.Intn(7) {
		case 0, 1:
			body = append(body, m.X(m.DefRO(args, fmt.Sprint(i), m.Num(300+k))))
		case 2:
			body = append(body, m.X(m.DefNE(args, fmt.Sprint(i), m.Num(400+k))))
		case 3:
			body = append(body, m.X(m.SetE(args, m.Num(i), m.Num(700+k))))
		case 4, 5:
			body = append(body, m.X(m.Asg(pickS(r, []string{"a", "b"}), m.Num(900+k))))
		default:
			body = append(body, lg(m.DelE(args, m.Num(i))))
		}
		report()
	}
	body = append(body, m.X(m.Asg("a", m.Num(1000))), m.X(m.Asg("b", m.Num(2000))))
	report()
	body = append(body, m.X(m.Asg("cnt", m.Num(0))), m.ForIn(false, "k", args, inc("cnt", 1)), lg(m.Var("cnt")), m.Ret(m.Var("a")))
	p.decl("f", m.Fn{Name: "f", Params: params, Vars: []string{"b", "k", "cnt"}, Body: body})
	p.add(lg(m.CallV("f", nums(r, r.Intn(len(params)+2))...)))
	// a plain object: puts on a read-only property are ignored, own or inherited; delete and redefinition lift it
	p.v("o", "F", "c")
	p.add(m.X(m.Asg("o", m.Obj(m.Prop{K: "x", V: m.Num(1)}))), m.X(m.DefRO(m.Var("o"), pickS(r, []string{"x", "y"}), m.Num(5))),
		m.X(m.Asg("F", m.Fn{Body: []m.N{m.Ret0()}}.Expr())), m.X(m.Set(m.Var("F"), "prototype", m.Var("o"))), m.X(m.Asg("c", m.New(m.Var("F")))))
	for k := 1 + r.Intn(4); k > 0; k-- {
		key := pickS(r, []string{"x", "y"})
		tgt := m.Var(pickS(r, []string{"o", "c"}))
		switch r.Intn(5) {
		case 0, 1:
			p.add(m.X(m.Set(tgt, key, m.Num(50+k))))
		case 2:
			p.add(lg(m.Del(tgt, key)))
		case 3:
			p.add(m.X(m.DefNE(tgt, key, m.Num(60+k))))
		default:
			p.add(m.X(m.DefRO(tgt, key, m.Num(70+k))))
		}
		p.add(lg(m.Get(m.Var("o"), "x")), lg(m.Get(m.Var("o"), "y")), lg(m.Get(m.Var("c"), "x")), lg(m.Get(m.Var("c"), "y")))
	}
	p.v("k", "cnt")
	p.add(m.X(m.Asg("cnt", m.Num(0))), m.ForIn(false, "k", m.Var("c"), inc("cnt", 1)), lg(m.Var("cnt")))
	return p
}

// a function declaration over a name the global object already has (10.5 step 5.e): a configurable property is
// reset to a plain binding, a fixed one that is read-only or not enumerable makes the declaration a TypeError
func scGlobalRedeclare(r *h.Rng) *prog {
	p := &prog{}
	p.v("cnt", "k", "e", "base")
	name := "q"
	// the host puts enumerable functions of its own on the global object: counts are relative to the start
	p.add(m.X(m.Asg("base", m.Num(0))), m.ForIn(false, "k", m.This(), inc("base", 1)))
	how := r.Intn(8)
	switch how {
	case 0:
		p.add(m.X(m.DefFix(m.This(), name, m.Num(1))))
	case 1:
		p.add(m.X(m.DefRO(m.This(), name, m.Num(1))))
	case 2:
		p.add(m.X(m.DefNE(m.This(), name, m.Num(1))))
	case 3:
		p.add(m.X(m.Asg(name, m.Num(1))))
	case 4:
		p.v(name)
		p.add(m.X(m.Asg(name, m.Num(1))))
	case 5:
		p.decl(name, m.Fn{Name: name, Body: []m.N{m.Ret(m.Num(0))}})
	case 6: // fixed, then an attempt to change it
		p.add(m.X(m.DefFix(m.This(), name, m.Num(1))), m.Try([]m.N{m.X(m.DefFix(m.This(), name, m.Num(r.Intn(2)+1)))}, "e", []m.N{lg(m.Get(m.Var("e"), "name"))}, nil, true, false),
			m.Try([]m.N{m.X(m.DefRO(m.This(), name, m.Num(1)))}, "e", []m.N{lg(m.Get(m.Var("e"), "name"))}, nil, true, false))
	default:
	}
	count := func() []m.N {
		return []m.N{m.X(m.Asg("cnt", m.Num(0))), m.ForIn(false, "k", m.This(), inc("cnt", 1)), lg(m.Sub(m.Var("cnt"), m.Var("base")))}
	}
	probe := func() []m.N {
		out := []m.N{lg(m.Typeof(m.Var(name)))}
		out = append(out, count()...)
		out = append(out, m.X(m.Asg(name, m.Num(7))), lg(m.Typeof(m.Var(name))), lg(m.DelV(name)), lg(m.Typeof(m.Var(name))))
		return out
	}
	decl := []m.Decl{{Name: name, F: m.Fn{Name: name, Body: []m.N{m.Ret(m.Num(2))}}}}
	if r.Chance(25) {
		decl = append([]m.Decl{{Name: "other", F: m.Fn{Name: "other", Body: []m.N{m.Ret(m.Num(3))}}}}, decl...)
	}
	var ev m.N
	inFn := false
	switch r.Intn(4) {
	case 0: // direct eval in global code
		ev = m.X(m.EvalD(nil, decl, []m.N{lg(m.Str("in"))}))
	case 1: // direct eval in a function: its own variable environment, the global object is not involved
		ev = m.X(m.EvalD(nil, decl, []m.N{lg(m.Str("in"))}))
		inFn = true
	default: // indirect eval, from global code or from a function
		ev = m.X(m.EvalI(nil, decl, []m.N{lg(m.Str("in"))}))
		inFn = r.Bool()
	}
	p.add(count()...)
	attempt := m.Try([]m.N{ev, lg(m.Typeof(m.Var(name)))}, "e", []m.N{lg(m.Get(m.Var("e"), "name"))}, nil, true, false)
	if inFn {
		p.decl("f", m.Fn{Name: "f", Body: []m.N{attempt, m.Ret(m.Typeof(m.Var(name)))}})
		p.add(lg(m.CallV("f")))
	} else {
		p.add(attempt)
	}
	p.add(lg(m.Typeof(m.Var("other"))))
	p.add(probe()...)
	if r.Bool() {
		p.add(m.Try([]m.N{m.X(m.EvalI(nil, decl, []m.N{lg(m.Str("again"))}))}, "e", []m.N{lg(m.Get(m.Var("e"), "name"))}, nil, true, false))
		p.add(probe()...)
	}
	return p
}

// the conditional operator yields a VALUE (11.12: GetValue of the chosen branch): no `this` for a call through it,
// nothing for delete to delete, a ReferenceError for an undeclared name under typeof, no direct eval; and the
// spellings of indirect eval (only the identifier `eval` makes a direct call, 15.1.2.1.1)
func scCondRef(r *h.Rng) *prog {
	p := &prog{}
	p.v("tag", "o", "pp", "c", "x", "e")
	who := func(k int) m.N { return m.Fn{Body: []m.N{m.Ret(m.Add(m.Num(k), m.Get(m.This(), "tag")))}}.Expr() }
	p.add(m.X(m.Asg("tag", m.Str("G"))), m.X(m.Asg("x", m.Str("gx"))),
		m.X(m.Asg("o", m.Obj(m.Prop{K: "tag", V: m.Str("O")}, m.Prop{K: "m", V: who(1)}, m.Prop{K: "n", V: who(2)}))),
		m.X(m.Asg("pp", m.Obj(m.Prop{K: "a", V: m.Num(1)}, m.Prop{K: "b", V: m.Num(2)}))))
	var body []m.N
	for k := 2 + r.Intn(4); k > 0; k-- {
		c := m.Num(r.Intn(2))
		if r.Bool() {
			body = append(body, m.X(m.Asg("c", c)))
			c = m.Var("c")
		}
		switch r.Intn(6) {
		case 0: // call through a conditional: this is not o
			body = append(body, lg(m.Call(m.Cond(c, m.Get(m.Var("o"), "m"), m.Get(m.Var("o"), "n")))), lg(m.MCall(m.Var("o"), "m")))
		case 1: // delete of a conditional deletes nothing
			body = append(body, lg(m.DelX(m.Cond(c, m.Get(m.Var("pp"), "a"), m.Get(m.Var("pp"), "b")))), lg(m.Get(m.Var("pp"), "a")), lg(m.Get(m.Var("pp"), "b")),
				lg(m.DelX(m.Val(m.Get(m.Var("pp"), "a")))), lg(m.Get(m.Var("pp"), "a")))
		case 2: // typeof of a conditional that picks an undeclared name
			body = append(body, m.Try([]m.N{lg(m.Typeof(m.Cond(c, m.Var("undeclared"), m.Num(1))))}, "e", []m.N{lg(m.Get(m.Var("e"), "name"))}, nil, true, false),
				lg(m.Typeof(m.Var("undeclared"))))
		case 3: // with a with object: the identifier branch would carry the object as this
			body = append(body, m.With(m.Var("o"), lg(m.Call(m.Cond(c, m.Var("m"), m.Var("n")))), lg(m.CallV("m"))))
		case 4: // plain values, nested
			body = append(body, lg(m.Cond(c, m.Cond(m.Not(c), m.Num(1), m.Var("x")), m.Add(m.Var("x"), m.Num(1)))))
		default: // indirect eval in one of its spellings (padding changes the spelling): code sees the global x
			var pad []m.N
			for i := r.Intn(4); i > 0; i-- {
				pad = append(pad, m.X(m.Num(i)))
			}
			body = append(body, lg(m.EvalI(nil, nil, append(pad, m.X(m.Var("x"))))), lg(m.EvalD(nil, nil, []m.N{m.X(m.Var("x"))})))
		}
	}
	if r.Bool() {
		p.decl("f", m.Fn{Name: "f", Vars: []string{"x", "c"}, Body: append([]m.N{m.X(m.Asg("x", m.Str("lx")))}, append(body, m.Ret(m.Var("x")))...)})
		p.add(lg(m.CallV("f")), lg(m.MCall(m.Obj(m.Prop{K: "tag", V: m.Str("T")}, m.Prop{K: "f", V: m.Var("f")}), "f")))
	} else {
		p.add(body...)
	}
	return p
}

// an assignment to a name that is unresolvable when the left-hand side is evaluated, but which the right-hand side
// makes a property of the global object: PutValue is [[Put]] on the global object (8.7.2 step 3) - a read-only
// property stays, attributes are kept
func scLateGlobal(r *h.Rng) *prog {
	p := &prog{}
	p.v("cnt", "k", "base")
	p.add(m.X(m.Asg("base", m.Num(0))), m.ForIn(false, "k", m.This(), inc("base", 1)))
	name := "q"
	var mk m.N
	switch r.Intn(6) {
	case 0:
		mk = m.X(m.DefRO(m.This(), name, m.Num(1)))
	case 1:
		mk = m.X(m.DefFix(m.This(), name, m.Num(1)))
	case 2:
		mk = m.X(m.DefNE(m.This(), name, m.Num(1)))
	case 3:
		mk = m.X(m.Set(m.This(), name, m.Num(1)))
	case 4:
		mk = m.X(m.EvalI([]string{name}, nil, []m.N{m.VarS(name, m.Num(1))}))
	default:
		mk = m.X(m.Num(0))
	}
	p.decl("g", m.Fn{Name: "g", Body: []m.N{mk, m.Ret(m.Num(5))}})
	asg := m.X(m.Asg(name, m.CallV("g")))
	if r.Bool() {
		p.decl("f", m.Fn{Name: "f", Body: []m.N{asg, m.Ret(m.Typeof(m.Var(name)))}})
		p.add(lg(m.CallV("f")))
	} else {
		p.add(asg)
	}
	p.add(lg(m.Var(name)), m.X(m.Asg("cnt", m.Num(0))), m.ForIn(false, "k", m.This(), inc("cnt", 1)), lg(m.Sub(m.Var("cnt"), m.Var("base"))),
		m.X(m.Asg(name, m.Num(9))), lg(m.Var(name)), lg(m.DelV(name)), lg(m.Typeof(m.Var(name))),
		m.X(m.Asg(name, m.Num(3))), lg(m.Var(name)), lg(m.DelV(name)))
	return p
}

// a program that ends with an uncaught exception: every kind of thrown value must come back as an error that
// corresponds to the value (never as a normal completion), from global code, a function, eval code, a finally block
func scUncaught(r *h.Rng) *prog {
	p := &prog{}
	p.v("e", "o", "k")
	var val m.N
	var pre []m.N
	switch r.Intn(13) {
	case 0:
		val = m.Num(r.Intn(50))
	case 1:
		val = m.Str(pickS(r, []string{"boom", "x1", "oops"}))
	case 2:
		val = pickN(r, []m.N{m.Bool(true), m.Bool(false)})
	case 3:
		val = m.Null()
	case 4:
		val = m.Undef()
	case 5:
		val = m.Obj(m.Prop{K: "a", V: m.Num(1)})
	case 6:
		val = m.Fn{Body: []m.N{m.Ret(m.Num(1))}}.Expr()
	case 7: // an Error instance made by the engine, caught and thrown again
		pre = []m.N{m.Try([]m.N{m.X(m.Get(m.Null(), "x"))}, "e", []m.N{m.X(m.Asg("o", m.Var("e")))}, nil, true, false)}
		val = m.Var("o")
	case 8: // the prototype object of such an instance: class Error, but not made by a constructor
		pre = []m.N{m.Try([]m.N{m.X(pickN(r, []m.N{m.Get(m.Null(), "x"), m.Var("undeclared")}))}, "e", []m.N{m.X(m.Asg("o", m.ProtoOf(m.Var("e"))))}, nil, true, false)}
		val = m.Var("o")
	case 9: // an uncaught engine error itself
		val = pickN(r, []m.N{m.Get(m.Undef(), "x"), m.Var("undeclared"), m.CallV("k")})
	case 10:
		val = m.Regex()
	case 11: // an arguments object
		p.decl("ga", m.Fn{Name: "ga", Body: []m.N{m.Ret(m.Var("arguments"))}})
		val = m.CallV("ga", m.Num(1))
	default: // the prototype of a plain object / of a function: Object.prototype, Function.prototype
		val = m.ProtoOf(pickN(r, []m.N{m.Obj(), m.Fn{Body: []m.N{m.Ret0()}}.Expr()}))
	}
	thr := m.Throw(val)
	p.add(lg(m.Str("start")))
	p.add(pre...)
	switch r.Intn(5) {
	case 0:
		p.add(thr)
	case 1:
		p.decl("f", m.Fn{Name: "f", Params: []string{"o"}, Body: []m.N{lg(m.Str("in")), thr}})
		p.add(m.X(m.CallV("f", m.Var("o"))), lg(m.Str("notreached")))
	case 2:
		if r.Bool() {
			p.add(m.X(m.EvalD(nil, nil, []m.N{thr})))
		} else {
			p.add(m.X(m.EvalI(nil, nil, []m.N{thr})))
		}
		p.add(lg(m.Str("notreached")))
	case 3: // thrown again from a catch block, the finally block still runs
		p.add(m.Try([]m.N{thr}, "e", []m.N{lg(m.Typeof(m.Var("e"))), m.Throw(m.Var("e"))}, []m.N{lg(m.Str("fin"))}, true, true))
	default: // thrown by a finally block over a normal completion
		p.add(m.Try([]m.N{lg(m.Str("body"))}, "", nil, []m.N{thr}, false, true))
	}
	p.add(lg(m.Str("notreached")))
	return p
}

// literals that create a new object at EVERY evaluation (7.8.5 regular expression literals, 11.1.5 object
// initialisers, 13 function expressions): a loop body, a function called twice, code run twice; identity, expando
// properties and an assigned lastIndex must not carry over (the reused Script of the second route runs the program twice)
func scFreshLiterals(r *h.Rng) *prog {
	p := &prog{}
	p.v("prev", "cur", "i", "a", "b")
	kind := r.Intn(3)
	lit := func() m.N {
		switch kind {
		case 0:
			return m.Regex()
		case 1:
			return m.Obj(m.Prop{K: "lastIndex", V: m.Num(0)})
		}
		return m.Fn{Body: []m.N{m.Ret(m.Num(1))}}.Expr()
	}
	observe := func(x string) []m.N {
		return []m.N{lg(m.Typeof(m.Get(m.Var(x), "tag"))), lg(m.Get(m.Var(x), "lastIndex")), lg(m.Typeof(m.Get(m.Var(x), "source")))}
	}
	mark := func(x string, k int) []m.N {
		return []m.N{m.X(m.Set(m.Var(x), "tag", m.Num(k))), m.X(m.Set(m.Var(x), "lastIndex", m.Num(5+k))), m.X(m.Set(m.Var(x), "source", m.Str("changed"))),
			lg(m.Get(m.Var(x), "lastIndex")), lg(m.Del(m.Var(x), "lastIndex"))}
	}
	switch r.Intn(3) {
	case 0: // a loop body
		body := []m.N{m.X(m.Asg("cur", lit())), lg(m.Seq(m.Var("cur"), m.Var("prev")))}
		body = append(body, observe("cur")...)
		body = append(body, mark("cur", 1)...)
		body = append(body, m.X(m.Asg("prev", m.Var("cur"))), inc("i", 1))
		p.add(m.X(m.Asg("i", m.Num(0))), m.While(m.Lt(m.Var("i"), m.Num(2+r.Intn(2))), body))
	case 1: // a function called twice
		p.decl("mk", m.Fn{Name: "mk", Body: []m.N{m.Ret(lit())}})
		p.add(m.X(m.Asg("a", m.CallV("mk"))))
		p.add(observe("a")...)
		p.add(mark("a", 2)...)
		p.add(m.X(m.Asg("b", m.CallV("mk"))), lg(m.Seq(m.Var("a"), m.Var("b"))))
		p.add(observe("b")...)
		p.add(observe("a")...)
	default: // once per run: what the first run of a reused Script did must not show in the second
		p.add(m.X(m.Asg("a", lit())))
		p.add(observe("a")...)
		p.add(mark("a", 3)...)
		p.add(observe("a")...)
	}
	p.add(m.X(m.Asg("i", m.Num(0))), m.ForIn(false, "prev", lit(), inc("i", 1)), lg(m.Var("i")))
	return p
}

// primitives as the base of member expressions (8.7.1 / 8.7.2 special [[Get]] / [[Put]], 11.4.1, 11.2.3): reads, writes,
// `+=`, `++`, delete and calls through "abc", 5, true, with nothing / a data property / a logging accessor pair named
// `tag` on the wrapper's prototype or on Object.prototype; the same through an ordinary object for comparison
func scPrimBase(r *h.Rng) *prog {
	p := &prog{}
	p.v("b", "o", "e")
	kinds := []string{"String", "Number", "Boolean"}
	bases := []m.N{m.Str("abc"), m.Num(5), m.Bool(true)}
	ki := r.Intn(3)
	base := bases[ki]
	if r.Chance(40) {
		p.add(m.X(m.Asg("b", base)))
		base = m.Var("b")
	}
	// what the chain of the wrapper holds for `tag`
	where := m.WProto(kinds[ki])
	if r.Chance(30) {
		where = m.WProto("Object")
	}
	switch r.Intn(5) {
	case 0, 1:
		p.add(m.X(m.DefAcc(where, "tag", "a1")))
	case 2:
		p.add(m.X(m.Set(where, "tag", m.Num(7))))
	case 3: // an accessor further up, shadowed by a data property nearer the wrapper
		p.add(m.X(m.DefAcc(m.WProto("Object"), "tag", "a2")), m.X(m.DefRO(m.WProto(kinds[ki]), "tag", m.Num(8))))
	default:
	}
	// a method on the prototype: what it sees as this
	p.add(m.X(m.Set(m.WProto(kinds[ki]), "who", m.Fn{Params: []string{"x"}, Body: []m.N{m.Ret(m.Add(m.Typeof(m.This()), m.Var("x")))}}.Expr())))
	p.add(m.X(m.Asg("o", m.Obj(m.Prop{K: "own", V: m.Num(1)}))))
	for k := 3 + r.Intn(5); k > 0; k-- {
		tgt := base
		if r.Chance(20) {
			tgt = m.Var("o")
		}
		key := "tag"
		if r.Chance(15) {
			key = "length"
		}
		switch r.Intn(9) {
		case 0:
			p.add(lg(m.Get(tgt, key)))
		case 1:
			p.add(lg(m.GetE(tgt, m.Str(key))))
		case 2:
			p.add(lg(m.Set(tgt, key, m.Num(20+k))), lg(m.Typeof(m.Get(tgt, key))))
		case 3:
			p.add(lg(m.SetE(tgt, m.Str(key), m.Str("w"))))
		case 4:
			p.add(lg(m.OpSet(tgt, key, m.Num(1))))
		case 5:
			p.add(lg(m.Incr(tgt, key)))
		case 6:
			p.add(lg(m.Del(tgt, key)), lg(m.Typeof(m.Get(tgt, key))))
		case 7:
			p.add(m.Try([]m.N{lg(m.MCall(tgt, pickS(r, []string{"who", "tag"}), m.Str("!")))}, "e", []m.N{lg(m.Get(m.Var("e"), "name"))}, nil, true, false))
		default: // the accessor is redefined, dropped, or replaced by data in between
			switch r.Intn(3) {
			case 0:
				p.add(m.X(m.DefAcc(where, "tag", "a3")))
			case 1:
				p.add(lg(m.Del(where, "tag")))
			default:
				p.add(m.X(m.DefNE(where, "tag", m.Num(9))))
			}
		}
	}
	p.add(lg(m.Typeof(m.Get(m.Var("o"), "tag"))), lg(m.Get(m.Var("o"), "own")))
	return p
}

// an object initialiser that names a data property more than once (11.1.5: each PropertyAssignment is a
// [[DefineOwnProperty]] on the same object - the last value wins, there is ONE property): counted by for-in, deleted,
// counted again, through an inheriting object as well
func scDupKeys(r *h.Rng) *prog {
	p := &prog{}
	p.v("o", "k", "cnt", "c", "F")
	keys := []string{"a", "b", "1", "2"}
	var ps []m.Prop
	n := 2 + r.Intn(4)
	for i := 0; i < n; i++ {
		ps = append(ps, m.Prop{K: keys[r.Intn(1+r.Intn(len(keys)))], V: m.Num(10 + i)})
	}
	dup := ps[r.Intn(len(ps))].K
	ps = append(ps, m.Prop{K: dup, V: m.Num(99)})
	count := func(x string) []m.N {
		return []m.N{m.X(m.Asg("cnt", m.Num(0))), m.ForIn(false, "k", m.Var(x), inc("cnt", 1)), lg(m.Var("cnt"))}
	}
	p.add(m.X(m.Asg("o", m.Obj(ps...))))
	p.add(count("o")...)
	p.add(lg(m.GetE(m.Var("o"), m.Str(dup))))
	p.add(m.X(m.Asg("F", m.Fn{Body: []m.N{m.Ret0()}}.Expr())), m.X(m.Set(m.Var("F"), "prototype", m.Var("o"))), m.X(m.Asg("c", m.New(m.Var("F")))))
	p.add(count("c")...)
	for k := 1 + r.Intn(3); k > 0; k-- {
		key := ps[r.Intn(len(ps))].K
		switch r.Intn(3) {
		case 0, 1:
			p.add(lg(m.DelE(m.Var("o"), m.Str(key))), lg(m.Typeof(m.GetE(m.Var("o"), m.Str(key)))))
		default:
			p.add(m.X(m.SetE(m.Var("o"), m.Str(key), m.Num(7))))
		}
		p.add(count("o")...)
		p.add(count("c")...)
	}
	return p
}

// the parameter of a catch clause is a binding that cannot be deleted (12.14, 10.2.1.1.2 with D = false): delete in
// the catch block, through direct eval, from a closure made there; an outer binding of the same name stays hidden
func scCatchDelete(r *h.Rng) *prog {
	p := &prog{}
	p.v("f", "g")
	outer := r.Intn(3) // 0: no outer binding, 1: a global var e, 2: a local of the enclosing function
	var cb []m.N
	cb = append(cb, lg(m.Var("e")))
	for k := 1 + r.Intn(3); k > 0; k-- {
		switch r.Intn(4) {
		case 0:
			cb = append(cb, lg(m.DelV("e")))
		case 1:
			cb = append(cb, lg(m.EvalD(nil, nil, []m.N{m.X(m.DelV("e"))})))
		case 2:
			cb = append(cb, m.X(m.Asg("g", m.Fn{Body: []m.N{m.Ret(m.DelV("e"))}}.Expr())), lg(m.CallV("g")))
		default:
			cb = append(cb, m.X(m.Asg("e", m.Str("changed"))))
		}
		cb = append(cb, lg(m.Typeof(m.Var("e"))), lg(m.Var("e")))
	}
	cb = append(cb, m.X(m.Asg("f", m.Fn{Body: []m.N{m.Ret(m.Typeof(m.Var("e")))}}.Expr())))
	try := m.Try([]m.N{m.Throw(m.Str("thrown"))}, "e", cb, nil, true, false)
	after := []m.N{lg(m.Typeof(m.Var("e"))), lg(m.CallV("f"))}
	switch outer {
	case 0:
		p.add(try)
		p.add(after...)
	case 1:
		p.v("e")
		p.add(m.X(m.Asg("e", m.Str("outer"))), try)
		p.add(after...)
		p.add(lg(m.Var("e")))
	default:
		body := append([]m.N{m.X(m.Asg("e", m.Str("local"))), try}, after...)
		p.decl("h", m.Fn{Name: "h", Vars: []string{"e"}, Body: append(body, m.Ret(m.Var("e")))})
		p.add(lg(m.CallV("h")), lg(m.Typeof(m.Var("e"))))
	}
	return p
}

// for (var x in o) / for (x in o): the left-hand side is evaluated again for EVERY property (12.6.4 step 6.b):
// inside `with (w)`, once the body gives w a property x - or takes the one it had away - later names go to the
// binding that x then denotes (two keys, so the outcome does not depend on the order of enumeration)
func scForInRebind(r *h.Rng) *prog {
	p := &prog{}
	p.v("w", "o", "n")
	isVar := r.Bool()
	gives := r.Bool()
	var wps []m.Prop
	if !gives {
		wps = append(wps, m.Prop{K: "x", V: m.Str("init")})
	}
	var body []m.N
	if gives {
		body = []m.N{m.If(m.Seq(m.Var("n"), m.Num(0)), []m.N{m.X(m.Set(m.Var("w"), "x", m.Str("init")))}, nil)}
	} else {
		body = []m.N{m.If(m.Seq(m.Var("n"), m.Num(0)), []m.N{lg(m.Del(m.Var("w"), "x"))}, nil)}
	}
	body = append(body, inc("n", 1))
	loop := m.With(m.Var("w"), m.ForIn(isVar, "x", m.Var("o"), body...))
	fb := []m.N{m.X(m.Asg("w", m.Obj(wps...))), m.X(m.Asg("o", m.Obj(m.Prop{K: "k1", V: m.Num(1)}, m.Prop{K: "k2", V: m.Num(2)}))), m.X(m.Asg("n", m.Num(0))),
		loop, lg(m.Var("n")), lg(m.Typeof(m.Var("x"))), lg(m.Typeof(m.Get(m.Var("w"), "x"))), lg(m.Seq(m.Get(m.Var("w"), "x"), m.Str("init"))),
		lg(m.Seq(m.Var("x"), m.Get(m.Var("w"), "x")))}
	if r.Bool() {
		p.decl("f", m.Fn{Name: "f", Vars: []string{"x"}, Body: append(fb, m.Ret(m.Typeof(m.Var("x"))))})
		p.add(lg(m.CallV("f")))
	} else {
		p.v("x")
		p.add(fb...)
	}
	return p
}

// a function made by the Function constructor closes over the GLOBAL environment (15.3.2.1 step 11), not over the
// scope it was made in: made inside a function with a local x, inside with ({x: ..}), inside a catch (x) block; reads,
// assignments to the free name, a declaration in its body, calls after the maker has returned
func scFnCtor(r *h.Rng) *prog {
	p := &prog{}
	p.v("x", "g", "s", "w")
	p.add(m.X(m.Asg("x", m.Str("global"))))
	rd := m.FnCtor(m.Fn{Body: []m.N{m.Ret(m.Var("x"))}})
	wr := m.FnCtor(m.Fn{Body: []m.N{m.X(m.Asg("x", m.Str("written"))), m.Ret(m.Typeof(m.Var("y")))}})
	dc := m.FnCtor(m.Fn{Vars: []string{"x"}, Body: []m.N{m.VarS("x", m.Str("own")), m.Ret(m.Var("x"))}})
	use := func() []m.N {
		var out []m.N
		for k := 1 + r.Intn(3); k > 0; k-- {
			switch r.Intn(4) {
			case 0:
				out = append(out, lg(m.Call(rd)))
			case 1:
				out = append(out, lg(m.Call(wr)), lg(m.Var("x")))
			case 2:
				out = append(out, lg(m.Call(dc)), lg(m.Var("x")))
			default:
				out = append(out, m.X(m.Asg("g", rd)), m.X(m.Asg("s", wr)))
			}
		}
		return append(out, lg(m.Var("x")))
	}
	switch r.Intn(4) {
	case 0: // inside a function with a local x (and a local y for the written function's typeof)
		p.decl("f", m.Fn{Name: "f", Vars: []string{"x", "y"}, Body: append(append([]m.N{m.X(m.Asg("x", m.Str("local"))), m.X(m.Asg("y", m.Num(1)))}, use()...), m.Ret(m.Var("x")))})
		p.add(lg(m.CallV("f")))
	case 1: // inside with
		p.add(m.X(m.Asg("w", m.Obj(m.Prop{K: "x", V: m.Str("inwith")}, m.Prop{K: "y", V: m.Num(1)}))), m.With(m.Var("w"), use()...), lg(m.Get(m.Var("w"), "x")))
	case 2: // inside a catch block whose parameter is x
		p.add(m.Try([]m.N{m.Throw(m.Str("caught"))}, "x", use(), nil, true, false))
	default: // in global code: nothing to tell apart, but the same paths
		p.add(use()...)
	}
	p.add(lg(m.Var("x")), lg(m.Typeof(m.Var("g"))))
	p.add(m.If(m.Var("g"), []m.N{lg(m.CallV("g")), lg(m.CallV("s")), lg(m.Var("x"))}, nil))
	p.add(lg(m.Var("x")))
	return p
}

// a global function declaration over a property that an EARLIER program left on the global object (10.5 step 5.e:
// a configurable one is redefined as a plain non-deletable binding before the function is stored; a fixed one must be
// writable and enumerable): the first program makes N in one of many ways, the second declares function N
func scRedeclareAcrossRuns(r *h.Rng) *prog {
	pre := &prog{}
	name := "N"
	switch r.Intn(8) {
	case 0:
		pre.add(m.X(m.Asg(name, m.Num(1)))) // implicit global: configurable
	case 1:
		pre.add(m.X(m.Set(m.This(), name, m.Num(1))))
	case 2:
		pre.add(m.X(m.EvalD([]string{name}, nil, []m.N{m.VarS(name, m.Num(1))}))) // eval-declared: configurable
	case 3:
		pre.add(m.X(m.EvalI(nil, []m.Decl{{Name: name, F: m.Fn{Name: name, Body: []m.N{m.Ret(m.Num(0))}}}}, []m.N{m.X(m.Num(0))})))
	case 4:
		pre.v(name) // a declared global var: not configurable, writable, enumerable
		pre.add(m.X(m.Asg(name, m.Num(1))))
	case 5:
		pre.add(m.X(m.DefNE(m.This(), name, m.Num(1))))
	case 6:
		pre.add(m.X(m.DefFix(m.This(), name, m.Num(1))))
	default:
		pre.add(m.X(m.Set(m.WProto("Object"), name, m.Num(1)))) // inherited from Object.prototype
	}
	pre.add(lg(m.Typeof(m.Var(name))))
	p := &prog{pre: pre}
	p.v("cnt", "k", "r")
	p.decl(name, m.Fn{Name: name, Body: []m.N{m.Ret(m.Num(2))}})
	p.add(lg(m.Typeof(m.Var(name))), lg(m.DelV(name)), lg(m.Typeof(m.Var(name))),
		m.X(m.Asg("cnt", m.Num(0))), m.ForIn(false, "k", m.Obj(m.Prop{K: "a", V: m.Num(1)}), inc("cnt", 1)), lg(m.Var("cnt")),
		m.X(m.Asg(name, m.Num(5))), lg(m.Typeof(m.Var(name))), lg(m.Del(m.This(), name)), lg(m.Typeof(m.Var(name))))
	return p
}

// the completion VALUE of statement lists (12.1 - 12.14), observed through eval: lists that end in statements without a
// value (empty blocks, if, var, try, with, labelled statements, loops that do not run), break and continue that leave
// nested blocks after a value was produced, consumed by a labelled statement, a loop, a for-in
func scCompletion(r *h.Rng) *prog {
	p := &prog{}
	p.v("i", "j", "k", "o", "v", "c1")
	p.add(m.X(m.Asg("o", m.Obj(m.Prop{K: "a", V: m.Num(1)}))))
	nv := 0
	val := func() m.N { nv++; return m.X(m.Num(100 + nv)) }
	lab := 0
	var outer []string // labels of the enclosing labelled blocks: a break to one of them may leave loops on its way
	var list func(d int, brk, cnt string) []m.N
	stmt := func(d int, brk, cnt string) m.N {
		c := r.Intn(12)
		if d <= 0 && c > 4 {
			c = r.Intn(5)
		}
		switch c {
		case 0, 1:
			return val()
		case 2:
			return m.Block()
		case 3:
			return m.VarS("v", m.Num(5))
		case 4: // leave through the nearest target, after a value or not
			if len(outer) > 0 && r.Chance(30) {
				t := outer[r.Intn(len(outer))]
				if r.Bool() {
					return m.Block(val(), m.Break(t))
				}
				return m.If(m.Seq(m.Var("c1"), m.Num(1+r.Intn(2))), []m.N{m.Break(t)}, nil)
			}
			if brk != "" && r.Bool() {
				t := brk
				if brk == cnt && r.Bool() {
					t = "" // the nearest enclosing target is a loop: a plain break reaches it
				}
				if r.Bool() {
					return m.Block(val(), m.Break(t))
				}
				return m.Block(m.Break(brk))
			}
			if cnt != "" {
				return m.Block(val(), m.Continue(pickS(r, []string{cnt, ""})))
			}
			return m.Block(val())
		case 5:
			return m.Block(list(d-1, brk, cnt)...)
		case 6:
			return m.If(m.Num(r.Intn(2)), list(d-1, brk, cnt), list(d-1, brk, cnt))
		case 7:
			lab++
			l := fmt.Sprintf("L%d", lab)
			outer = append(outer, l)
			inner := list(d-1, l, "")
			outer = outer[:len(outer)-1]
			return m.Label(l, m.Block(append(inner, m.Break(l))...))
		case 8:
			lab++
			l := fmt.Sprintf("W%d", lab)
			ctr := fmt.Sprintf("c%d", lab)
			p.v(ctr)
			if len(outer) > 0 && r.Chance(40) {
				// the second pass leaves for an outer label before it has a value of its own: what the first pass
				// produced must not travel with the break (12.6.2 "return stmt")
				t := outer[r.Intn(len(outer))]
				return m.Block(m.X(m.Asg(ctr, m.Num(0))), m.Label(l, m.While(m.Lt(m.Var(ctr), m.Num(2)),
					[]m.N{m.If(m.Seq(m.Var(ctr), m.Num(1)), []m.N{m.Break(t)}, nil), inc(ctr, 1), val()})))
			}
			body := append([]m.N{inc(ctr, 1)}, list(d-1, l, l)...)
			return m.Block(m.X(m.Asg(ctr, m.Num(0))), m.Label(l, m.While(m.Lt(m.Var(ctr), m.Num(r.Intn(3))), body)))
		case 9:
			return m.Try(list(d-1, brk, cnt), "e", list(d-1, brk, cnt), nil, true, false)
		case 10:
			return m.With(m.Var("o"), list(d-1, brk, cnt)...)
		default:
			lab++
			l := fmt.Sprintf("F%d", lab)
			return m.Label(l, m.ForIn(false, "k", m.Var("o"), list(d-1, l, l)...))
		}
	}
	list = func(d int, brk, cnt string) []m.N {
		var out []m.N
		for n := r.Intn(4); n > 0; n-- {
			out = append(out, stmt(d, brk, cnt))
		}
		return out
	}
	for n := 1 + r.Intn(3); n > 0; n-- {
		body := list(2, "", "")
		if len(body) == 0 {
			body = []m.N{m.Block()}
		}
		if r.Bool() {
			p.add(lg(m.EvalD(nil, nil, body)))
		} else {
			p.add(lg(m.EvalI(nil, nil, body)))
		}
	}
	p.add(m.X(m.Num(0)))
	return p
}

// switch (12.11): discriminants and case values of every kind this layer has - numbers, literal strings, strings made by
// String.fromCharCode (held differently inside the engine, equal all the same), NaN (never selected), booleans, null,
// undefined, one object through two variables - with case expressions that log when they are evaluated, the default
// clause first / in the middle / last / absent, fall-through, break, continue to an enclosing loop, and the statement's
// completion value
func scSwitch(r *h.Rng) *prog {
	p := &prog{}
	p.v("d", "o", "q", "i")
	p.decl("tick", m.Fn{Name: "tick", Params: []string{"t", "v"}, Body: []m.N{lg(m.Var("t")), m.Ret(m.Var("v"))}})
	p.add(m.X(m.Asg("o", m.Obj())), m.X(m.Asg("q", m.Var("o"))))
	vals := []m.N{m.Num(1), m.Num(2), m.Str("a"), m.Fcc(97), m.Fcc(98), m.Str("b"), m.Sub(m.Str("x"), m.Num(1)), m.Bool(true), m.Null(), m.Undef(),
		m.Var("o"), m.Var("q"), m.Obj(), m.Add(m.Fcc(97), m.Fcc(98)), m.Str("ab")}
	one := func() m.N {
		d := vals[r.Intn(len(vals))]
		nc := 1 + r.Intn(4)
		dpos := r.Intn(nc + 2) // ≥ nc: no default clause
		var cs []m.Clause
		for k := 0; k <= nc; k++ {
			if k == dpos {
				body := []m.N{lg(m.Str("dflt"))}
				if r.Chance(40) {
					body = append(body, m.Break(""))
				}
				cs = append(cs, m.Clause{Body: body})
			}
			if k == nc {
				break
			}
			t := vals[r.Intn(len(vals))]
			if r.Chance(35) {
				t = d
			}
			if r.Bool() {
				t = m.CallV("tick", m.Str(fmt.Sprintf("t%d", k)), t)
			}
			body := []m.N{lg(m.Str(fmt.Sprintf("c%d", k))), m.X(m.Num(10 + k))}
			switch r.Intn(4) {
			case 0:
				body = append(body, m.Break(""))
			case 1:
				body = append(body, m.Block(m.X(m.Num(20+k)), m.Break("")))
			default: // fall through
			}
			tt := t
			cs = append(cs, m.Clause{Test: &tt, Body: body})
		}
		return m.Switch(d, cs...)
	}
	for n := 1 + r.Intn(3); n > 0; n-- {
		switch r.Intn(3) {
		case 0:
			p.add(one())
		case 1: // its completion value
			p.add(lg(m.EvalD(nil, nil, []m.N{m.X(m.Num(5)), one()})))
		default: // inside a loop: continue passes through the switch
			p.add(m.X(m.Asg("i", m.Num(0))), m.While(m.Lt(m.Var("i"), m.Num(2)), []m.N{inc("i", 1),
				m.Switch(m.Var("i"), m.Clause{Test: &vals[0], Body: []m.N{lg(m.Str("one")), m.Continue("")}}, m.Clause{Body: []m.N{lg(m.Str("other"))}}), lg(m.Str("after"))}))
		}
	}
	p.add(m.X(m.Num(0)))
	return p
}

// every function-creating form closes over the LexicalEnvironment it is evaluated in (13, 11.1.5, 10.4.2) - except the
// Function constructor (global environment): function expression, named function expression, getter and setter of an
// object initialiser, Function(...), a function declared by direct eval code; created inside with / catch / a nested
// function (each binding the same name x), called AFTER the scope was left, reading and writing x
func scCloseOver(r *h.Rng) *prog {
	p := &prog{}
	p.v("x", "w", "rd", "wr", "mk")
	p.add(m.X(m.Asg("x", m.Str("global"))), m.X(m.Asg("w", m.Obj(m.Prop{K: "x", V: m.Str("inwith")}))))
	readBody := []m.N{m.Ret(m.Var("x"))}
	writeBody := []m.N{m.X(m.Asg("x", m.Var("v"))), m.Ret(m.Var("x"))}
	// the reader and the writer, made by one of the forms
	mkRead := func() m.N {
		switch r.Intn(6) {
		case 0:
			return m.Fn{Body: readBody}.Expr()
		case 1:
			return m.Fn{Name: "self", Body: readBody}.Expr()
		case 2, 3:
			return m.AccFn(false, m.Fn{Body: readBody})
		case 4:
			return m.FnCtor(m.Fn{Body: readBody})
		default:
			return m.EvalD(nil, []m.Decl{{Name: "ed", F: m.Fn{Name: "ed", Body: readBody}}}, []m.N{m.X(m.Var("ed"))})
		}
	}
	mkWrite := func() m.N {
		switch r.Intn(4) {
		case 0:
			return m.Fn{Params: []string{"v"}, Body: writeBody}.Expr()
		case 1:
			return m.Fn{Name: "self", Params: []string{"v"}, Body: writeBody}.Expr()
		default:
			return m.AccFn(true, m.Fn{Params: []string{"v"}, Body: writeBody})
		}
	}
	create := []m.N{m.X(m.Asg("rd", mkRead())), m.X(m.Asg("wr", mkWrite())), lg(m.CallV("rd"))}
	// the scopes around the creation, innermost last
	var wrap func(k int, inner []m.N) []m.N
	wrap = func(k int, inner []m.N) []m.N {
		if k == 0 {
			return inner
		}
		switch r.Intn(3) {
		case 0:
			return wrap(k-1, []m.N{m.With(m.Var("w"), inner...)})
		case 1:
			return wrap(k-1, []m.N{m.Try([]m.N{m.Throw(m.Str("caught"))}, "x", inner, nil, true, false)})
		default:
			return wrap(k-1, []m.N{m.X(m.Call(m.Fn{Vars: []string{"x"}, Body: append([]m.N{m.X(m.Asg("x", m.Str("local")))}, append(inner, m.Ret0())...)}.Expr()))})
		}
	}
	body := wrap(1+r.Intn(3), create)
	if r.Bool() {
		p.decl("outerf", m.Fn{Name: "outerf", Vars: []string{"x"}, Body: append([]m.N{m.X(m.Asg("x", m.Str("outerlocal")))}, append(body, m.Ret(m.Var("x")))...)})
		p.add(lg(m.CallV("outerf")))
	} else {
		p.add(body...)
	}
	// the scopes are left: call the closures
	p.add(lg(m.CallV("rd")), lg(m.CallV("wr", m.Str("W1"))), lg(m.CallV("rd")), lg(m.Var("x")), lg(m.Get(m.Var("w"), "x")),
		lg(m.CallV("wr", m.Str("W2"))), lg(m.CallV("rd")), lg(m.Var("x")), lg(m.Get(m.Var("w"), "x")))
	return p
}

// the this value a callee receives (11.2.3 step 6-7, 10.2.1.2.6, 15.3.4.3-5): a host function that reports its This and a
// script function (which 10.4.3 gives an object), called by a global name, a local name, as member of a with object, as a
// property, through call / apply / bind with an object or a primitive (never undefined / null: C09's region
// call_undefined_this); bound functions are called twice: every call of a bound function with a primitive this makes
// its own wrapper (identity, state left on this)
func scThisForms(r *h.Rng) *prog {
	p := &prog{}
	p.v("ht", "sf", "st", "idf", "o", "b", "b2", "e")
	p.add(m.X(m.Asg("ht", m.HostFn())),
		m.X(m.Asg("sf", m.Fn{Body: []m.N{m.Ret(m.Typeof(m.This()))}}.Expr())),
		// st: what it finds on this, then leaves a mark there
		m.X(m.Asg("st", m.Fn{Vars: []string{"q"}, Body: []m.N{m.VarS("q", m.Typeof(m.Get(m.This(), "n"))), m.X(m.Set(m.This(), "n", m.Num(1))), m.Ret(m.Var("q"))}}.Expr())),
		m.X(m.Asg("idf", m.Fn{Body: []m.N{m.Ret(m.This())}}.Expr())),
		m.X(m.Asg("o", m.Obj(m.Prop{K: "m", V: m.Var("ht")}, m.Prop{K: "s", V: m.Var("sf")}))))
	prims := []m.N{m.Str("tag"), m.Num(7), m.Bool(true)}
	for k := 3 + r.Intn(5); k > 0; k-- {
		fn := pickS(r, []string{"ht", "sf"})
		switch r.Intn(9) {
		case 0: // by a global name
			p.add(lg(m.CallV(fn)))
		case 1: // by a local name
			p.add(lg(m.Call(m.Fn{Vars: []string{"l"}, Body: []m.N{m.VarS("l", m.Var(fn)), m.Ret(m.CallV("l"))}}.Expr())))
		case 2: // a member of a with object, called by name
			p.add(m.With(m.Var("o"), lg(m.CallV(pickS(r, []string{"m", "s"})))))
		case 3: // a property
			p.add(lg(m.MCall(m.Var("o"), pickS(r, []string{"m", "s"}))))
		case 4: // call / apply with an object or a primitive
			th := pickN(r, append(prims, m.Var("o")))
			if r.Bool() {
				p.add(lg(m.MCall(m.Var(fn), "call", th)))
			} else {
				p.add(lg(m.MCall(m.Var(fn), "apply", th)))
			}
		case 5: // bound to a primitive, called twice
			p.add(m.X(m.Asg("b", m.MCall(m.Var(fn), "bind", pickN(r, prims)))), lg(m.CallV("b")), lg(m.CallV("b")))
		case 6: // state left on the this of a bound function
			p.add(m.X(m.Asg("b", m.MCall(m.Var("st"), "bind", pickN(r, prims)))), lg(m.CallV("b")), lg(m.CallV("b")),
				lg(m.MCall(m.Var("st"), "call", m.Str("x"))), lg(m.MCall(m.Var("st"), "call", m.Str("x"))))
		case 7: // identity of the this of a bound function
			p.add(m.X(m.Asg("b", m.MCall(m.Var("idf"), "bind", pickN(r, prims)))), lg(m.Seq(m.CallV("b"), m.CallV("b"))), lg(m.Typeof(m.CallV("b"))),
				m.X(m.Asg("b2", m.MCall(m.Var("idf"), "bind", m.Var("o")))), lg(m.Seq(m.CallV("b2"), m.CallV("b2"))))
		default: // a bound function of a bound function, and bound then called as a property
			p.add(m.X(m.Asg("b", m.MCall(m.MCall(m.Var(fn), "bind", pickN(r, prims)), "bind", m.Num(99)))), lg(m.CallV("b")),
				m.X(m.Set(m.Var("o"), "bb", m.Var("b"))), lg(m.MCall(m.Var("o"), "bb")))
		}
	}
	// inside a function: the same by a name that is global from there
	p.decl("f", m.Fn{Name: "f", Body: []m.N{m.Ret(m.Add(m.Add(m.CallV("ht"), m.Str("|")), m.CallV("sf")))}})
	p.add(lg(m.CallV("f")), lg(m.MCall(m.Var("o"), "m")))
	return p
}

// Function.prototype.apply takes ToUint32 of the array-like's length (15.3.4.3 step 5): lengths at and beyond 2^32 and
// negative lengths whose ToUint32 is small, on array-likes that are plain objects, directly, through a bound target
// and through Function.prototype.apply.call
func scApplyLength(r *h.Rng) *prog {
	p := &prog{}
	p.v("cnt", "al", "b", "e")
	p.add(m.X(m.Asg("cnt", m.Fn{Body: []m.N{m.Ret(m.Add(m.Add(m.Get(m.Var("arguments"), "length"), m.Str(":")), m.Add(m.Typeof(m.GetE(m.Var("arguments"), m.Num(0))), m.Typeof(m.GetE(m.Var("arguments"), m.Num(2))))))}}.Expr())))
	lens := []int{4294967296, 4294967297, 4294967298, 4294967299, -4294967295, -4294967294, -4294967296, 8589934593, 0, 1, 3}
	for k := 2 + r.Intn(4); k > 0; k-- {
		l := lens[r.Intn(len(lens))]
		al := m.Obj(m.Prop{K: "length", V: m.Num(l)}, m.Prop{K: "0", V: m.Str("a")}, m.Prop{K: "1", V: m.Str("b")}, m.Prop{K: "2", V: m.Str("c")})
		p.add(m.X(m.Asg("al", al)))
		var call m.N
		switch r.Intn(3) {
		case 0:
			call = m.MCall(m.Var("cnt"), "apply", m.Null(), m.Var("al"))
		case 1:
			call = m.MCall(m.MCall(m.Var("cnt"), "bind", m.Null(), m.Str("z")), "apply", m.Null(), m.Var("al"))
		default:
			call = m.MCall(m.Get(m.Var("cnt"), "apply"), "call", m.Var("cnt"), m.Null(), m.Var("al"))
		}
		p.add(m.Try([]m.N{lg(call)}, "e", []m.N{lg(m.Get(m.Var("e"), "name"))}, nil, true, false))
	}
	return p
}

// the name of a named function expression is bound in an environment of its own whether or not the function's source
// mentions it (13): the name is reached only through direct eval of a code string that is not spelled in the function
// (read, typeof, assignment - ignored: the binding is immutable -, a closure made by the eval code, recursion)
func scSelfNameEval(r *h.Rng) *prog {
	p := &prog{}
	p.v("run", "res", "k")
	name := pickS(r, []string{"walker", "selfname", "recur", "fun", "unct"})
	var code []m.N
	switch r.Intn(5) {
	case 0:
		code = []m.N{m.X(m.Typeof(m.Var(name)))}
	case 1:
		code = []m.N{m.X(m.Seq(m.Var(name), m.Var("run")))}
	case 2:
		code = []m.N{m.X(m.Asg(name, m.Num(5))), m.X(m.Typeof(m.Var(name)))}
	case 3:
		code = []m.N{m.X(m.Fn{Body: []m.N{m.Ret(m.Typeof(m.Var(name)))}}.Expr())}
	default: // recursion through the name
		code = []m.N{m.X(m.Cond(m.Lt(m.Var("d"), m.Num(2)), m.CallV(name, m.Add(m.Var("d"), m.Num(1))), m.Add(m.Str("depth"), m.Var("d"))))}
	}
	body := []m.N{m.Ret(m.EvalX(nil, nil, code))}
	if r.Chance(30) {
		body = []m.N{lg(m.Str("in")), m.Ret(m.EvalX(nil, nil, code))}
	}
	p.add(m.X(m.Asg("run", m.Fn{Name: name, Params: []string{"d"}, Body: body}.Expr())))
	p.add(m.X(m.Asg("res", m.CallV("run", m.Num(0)))))
	p.add(m.If(m.Seq(m.Typeof(m.Var("res")), m.Str("function")), []m.N{lg(m.CallV("res"))}, []m.N{lg(m.Var("res"))}))
	p.add(lg(m.Typeof(m.Var(name))))
	// the same function with the name spelled in its body, for comparison
	p.add(m.X(m.Asg("run", m.Fn{Name: name, Body: []m.N{m.Ret(m.Typeof(m.Var(name)))}}.Expr())), lg(m.CallV("run")))
	return p
}

func init() {
	fnScenarios = append(fnScenarios, []fnScenario{
		{"with-lookup", scWithLookup}, {"with-closure", scWithClosure}, {"with-this", scWithThis}, {"with-var", scWithVar},
		{"with-delete", scWithDelete}, {"with-nested", scWithNested}, {"with-exit", scWithExit}, {"with-null", scWithNull},
		{"forin-chain", scForInChain}, {"forin-special", scForInSpecial}, {"forin-return", scForInReturn}, {"forin-labels", scForInLabels},
		{"forin-delete", scForInDelete}, {"forin-revisit", scForInRevisit}, {"forin-empty", scForInEmpty}, {"forin-with", scForInWith}, {"forin-value", scForInValue},
		{"labels", scLabels}, {"dup-params", scDupParams}, {"order", scOrder},
		{"label-capture", scLabelCapture}, {"eval-throw", scEvalThrow},
		{"hoist-collide", scHoistCollide}, {"label-stale", scLabelStale}, {"host-reentry", scHostReentry},
		{"bind-chain", scBindChain}, {"forin-init", scForInInit}, {"eval-delete", scEvalDelete}, {"args-define", scArgsDefine}, {"global-redeclare", scGlobalRedeclare}, {"cond-ref", scCondRef}, {"late-global", scLateGlobal}, {"uncaught", scUncaught}, {"fresh-literals", scFreshLiterals}, {"prim-base", scPrimBase}, {"dup-keys", scDupKeys}, {"catch-delete", scCatchDelete}, {"forin-rebind", scForInRebind}, {"fn-ctor", scFnCtor}, {"redeclare-runs", scRedeclareAcrossRuns}, {"completion", scCompletion}, {"switch", scSwitch}, {"close-over", scCloseOver}, {"this-forms", scThisForms}, {"apply-length", scApplyLength}, {"selfname-eval", scSelfNameEval}}...)
}
