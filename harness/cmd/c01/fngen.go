package main

import (
	"fmt"

	"ottoverif/h"
	m "ottoverif/mujs"
)

// Scenario builders for the function layer: each returns (vars, decls, body) of a program that logs
// its observations through log().  Random parameters vary argument counts, indices, orders, hoist
// placement and which variant of a construct is used.

type prog struct {
	vars  []string
	decls []m.Decl
	body  []m.N
	pre   *prog // a program run before this one on the same runtime (an earlier Run call)
}

func (p *prog) add(ns ...m.N)         { p.body = append(p.body, ns...) }
func (p *prog) v(names ...string)     { p.vars = append(p.vars, names...) }
func (p *prog) decl(n string, f m.Fn) { p.decls = append(p.decls, m.Decl{Name: n, F: f}) }

func lg(e m.N) m.N { return m.X(m.Log(e)) }

func nums(r *h.Rng, k int) []m.N {
	out := make([]m.N, k)
	for i := range out {
		out[i] = m.Num(r.Intn(9) + 1 + 10*i)
	}
	return out
}

// closures: counters made by one maker share nothing; closures over a loop variable share it
func scClosures(r *h.Rng) *prog {
	p := &prog{}
	step := r.Intn(3) + 1
	mk := m.Fn{Name: "mk", Params: []string{"s"}, Vars: []string{"n"}, HoistStyle: r.Intn(3), Body: []m.N{
		m.X(m.Asg("n", m.Var("s"))),
		m.Ret(m.Fn{Body: []m.N{m.X(m.Asg("n", m.Add(m.Var("n"), m.Num(step)))), m.Ret(m.Var("n"))}}.Expr()),
	}}
	p.decl("mk", mk)
	p.v("a", "b", "fs", "i")
	p.add(m.X(m.Asg("a", m.CallV("mk", m.Num(r.Intn(5))))), m.X(m.Asg("b", m.CallV("mk", m.Num(100)))))
	for i := 0; i < 2+r.Intn(3); i++ {
		if r.Bool() {
			p.add(lg(m.CallV("a")))
		} else {
			p.add(lg(m.CallV("b")))
		}
	}
	// closures created in a loop see the final value of the shared variable
	p.add(m.X(m.Asg("fs", m.Obj())), m.X(m.Asg("i", m.Num(0))),
		m.While(m.Lt(m.Var("i"), m.Num(3)), []m.N{
			m.X(m.SetE(m.Var("fs"), m.Var("i"), m.Fn{Body: []m.N{m.Ret(m.Var("i"))}}.Expr())),
			m.X(m.Asg("i", m.Add(m.Var("i"), m.Num(1))))}),
		lg(m.Call(m.GetE(m.Var("fs"), m.Num(0)))), lg(m.Call(m.GetE(m.Var("fs"), m.Num(2)))))
	return p
}

// this-binding: method call, extracted call (this = global), call/apply/bind
func scThis(r *h.Rng) *prog {
	p := &prog{}
	p.v("o", "f", "g", "q", "x")
	get := m.Fn{Params: []string{"k"}, Body: []m.N{m.Ret(m.Add(m.Get(m.This(), "x"), m.Var("k")))}}
	p.add(m.X(m.Asg("x", m.Num(1000))), // global x, visible as this.x when this = global
		m.X(m.Asg("o", m.Obj(m.Prop{K: "x", V: m.Num(r.Intn(50))}, m.Prop{K: "get", V: get.Expr()}))),
		m.X(m.Asg("q", m.Obj(m.Prop{K: "x", V: m.Num(500 + r.Intn(50))}))),
		lg(m.MCall(m.Var("o"), "get", m.Num(1))),
		m.X(m.Asg("f", m.Get(m.Var("o"), "get"))),
		lg(m.CallV("f", m.Num(2))), // this = global object
		lg(m.MCall(m.Var("f"), "call", m.Var("q"), m.Num(3))),
		lg(m.MCall(m.Var("f"), "call", m.Undef(), m.Num(4))),
		lg(m.MCall(m.Var("f"), "apply", m.Var("q"), m.Obj(m.Prop{K: "length", V: m.Num(1)}, m.Prop{K: "0", V: m.Num(5)}))),
		lg(m.MCall(m.Var("f"), "apply", m.Null())),
		m.X(m.Asg("g", m.MCall(m.Var("f"), "bind", m.Var("q"), m.Num(6)))),
		lg(m.CallV("g", m.Num(99))), lg(m.MCall(m.Var("g"), "call", m.Var("o"))), lg(m.Get(m.Var("g"), "length")),
		lg(m.Get(m.Var("f"), "length")), lg(m.Typeof(m.Var("g"))),
		// a method assigned to another object takes that object as this
		m.X(m.Set(m.Var("q"), "get", m.Var("f"))), lg(m.MCall(m.Var("q"), "get", m.Num(7))),
		// a function setting this.y when called plainly creates a global
		lg(m.Call(m.Fn{Body: []m.N{m.X(m.Set(m.This(), "y", m.Num(r.Intn(9)))), m.Ret(m.Typeof(m.This()))}}.Expr())),
		lg(m.Var("y")))
	return p
}

// constructors, prototypes, instanceof, constructor return values, bound constructors
func scNew(r *h.Rng) *prog {
	p := &prog{}
	p.v("a", "b", "c", "B", "d")
	ctor := m.Fn{Name: "P", Params: []string{"x", "y"}, Body: []m.N{m.X(m.Set(m.This(), "x", m.Var("x"))), m.X(m.Set(m.This(), "y", m.Var("y")))}}
	switch r.Intn(4) {
	case 1:
		ctor.Body = append(ctor.Body, m.Ret(m.Num(5))) // primitive return is ignored
	case 2:
		ctor.Body = append(ctor.Body, m.Ret(m.Obj(m.Prop{K: "x", V: m.Str("other")}))) // object return wins
	}
	p.decl("P", ctor)
	p.add(m.X(m.Set(m.Get(m.Var("P"), "prototype"), "sum", m.Fn{Body: []m.N{m.Ret(m.Add(m.Get(m.This(), "x"), m.Get(m.This(), "y")))}}.Expr())),
		m.X(m.Set(m.Get(m.Var("P"), "prototype"), "k", m.Num(7))),
		m.X(m.Asg("a", m.New(m.Var("P"), m.Num(r.Intn(9)), m.Num(10)))),
		lg(m.Get(m.Var("a"), "x")), lg(m.Typeof(m.Get(m.Var("a"), "sum"))), lg(m.Get(m.Var("a"), "k")),
		lg(m.Inst(m.Var("a"), m.Var("P"))), lg(m.Seq(m.Get(m.Var("a"), "constructor"), m.Var("P"))),
		m.X(m.Set(m.Var("a"), "k", m.Num(8))), m.X(m.Asg("b", m.New(m.Var("P"), m.Num(1), m.Num(2)))),
		lg(m.Get(m.Var("b"), "k")), lg(m.Get(m.Var("a"), "k")), // own property shadows, prototype unchanged
		m.X(m.Del(m.Var("a"), "k")), lg(m.Get(m.Var("a"), "k")),
		// replacing the prototype affects later instances only
		m.X(m.Set(m.Var("P"), "prototype", m.Obj(m.Prop{K: "k", V: m.Num(70)}))),
		m.X(m.Asg("c", m.New(m.Var("P"), m.Num(3), m.Num(4)))),
		lg(m.Get(m.Var("c"), "k")), lg(m.Get(m.Var("b"), "k")), lg(m.Inst(m.Var("b"), m.Var("P"))), lg(m.Inst(m.Var("c"), m.Var("P"))),
		// a non-object prototype falls back to Object.prototype
		m.X(m.Set(m.Var("P"), "prototype", m.Num(3))), lg(m.Get(m.New(m.Var("P"), m.Num(1), m.Num(1)), "k")),
		// bound constructor: bound this ignored, bound arguments prepended
		m.X(m.Set(m.Var("P"), "prototype", m.Obj(m.Prop{K: "k", V: m.Num(71)}))),
		m.X(m.Asg("B", m.MCall(m.Var("P"), "bind", m.Obj(m.Prop{K: "x", V: m.Str("bound")}), m.Num(40)))),
		m.X(m.Asg("d", m.New(m.Var("B"), m.Num(2)))), lg(m.Get(m.Var("d"), "x")), lg(m.Get(m.Var("d"), "y")), lg(m.Get(m.Var("d"), "k")),
		lg(m.Inst(m.Var("d"), m.Var("B"))),
		// calling a non-function / new on a non-constructor
		m.Try([]m.N{m.X(m.New(m.Get(m.Var("d"), "y")))}, "e", []m.N{lg(m.Var("e"))}, nil, true, false),
		m.Try([]m.N{m.X(m.MCall(m.Var("d"), "nothing"))}, "e", []m.N{lg(m.Get(m.Var("e"), "name"))}, nil, true, false))
	return p
}

// the arguments object: mapping to parameters, delete, length, extra/missing arguments, calls repeated
func scArguments(r *h.Rng) *prog {
	p := &prog{}
	np := 1 + r.Intn(3)
	params := []string{"a", "b", "c"}[:np]
	i := r.Intn(np + 1) // index touched (possibly beyond the parameters)
	body := []m.N{
		lg(m.Get(m.Var("arguments"), "length")),
		lg(m.GetE(m.Var("arguments"), m.Num(i))),
	}
	pi := params[r.Intn(np)]
	pidx := 0
	for k, n := range params {
		if n == pi {
			pidx = k
		}
	}
	switch r.Intn(5) {
	case 0: // write the arguments object, read the parameter
		body = append(body, m.X(m.SetE(m.Var("arguments"), m.Num(pidx), m.Num(77))), lg(m.Var(pi)))
	case 1: // write the parameter, read the arguments object
		body = append(body, m.X(m.Asg(pi, m.Num(88))), lg(m.GetE(m.Var("arguments"), m.Num(pidx))))
	case 2: // delete unmaps
		body = append(body, lg(m.DelE(m.Var("arguments"), m.Num(pidx))), m.X(m.Asg(pi, m.Num(99))),
			lg(m.GetE(m.Var("arguments"), m.Num(pidx))), m.X(m.SetE(m.Var("arguments"), m.Num(pidx), m.Num(55))), lg(m.Var(pi)), lg(m.GetE(m.Var("arguments"), m.Num(pidx))))
	case 3: // string key and length write
		body = append(body, m.X(m.SetE(m.Var("arguments"), m.Str(fmt.Sprint(pidx)), m.Num(66))), lg(m.Var(pi)),
			m.X(m.Set(m.Var("arguments"), "length", m.Num(9))), lg(m.Get(m.Var("arguments"), "length")))
	default: // passing arguments on
		body = append(body, lg(m.MCall(m.Var("inner"), "apply", m.This(), m.Var("arguments"))))
	}
	body = append(body, m.Ret(m.Add(m.Var(params[0]), m.Num(0))))
	f := m.Fn{Name: "f", Params: params, Body: body, HoistStyle: r.Intn(3)}
	inner := m.Fn{Name: "inner", Params: []string{"x", "y"}, Body: []m.N{m.Ret(m.Add(m.Str("in:"), m.Add(m.Get(m.Var("arguments"), "length"), m.Add(m.Str(":"), m.Var("x")))))}}
	p.decl("f", f)
	p.decl("inner", inner)
	// several calls of the SAME function with fewer / exactly / more arguments
	for k := 0; k < 2+r.Intn(2); k++ {
		na := r.Intn(np + 2)
		p.add(lg(m.CallV("f", nums(r, na)...)))
	}
	p.add(lg(m.CallV("f", nums(r, np)...)), lg(m.CallV("f", nums(r, np)...)))
	// a parameter or an inner function named `arguments` suppresses the arguments object
	if r.Bool() {
		p.decl("h1", m.Fn{Name: "h1", Params: []string{"arguments"}, Body: []m.N{m.Ret(m.Typeof(m.Var("arguments")))}})
		p.add(lg(m.CallV("h1", m.Num(1))), lg(m.CallV("h1")))
	} else {
		p.decl("h2", m.Fn{Name: "h2", Params: []string{"q"}, Decls: []m.Decl{{Name: "arguments", F: m.Fn{Name: "arguments"}}}, Body: []m.N{m.Ret(m.Typeof(m.Var("arguments")))}, HoistStyle: r.Intn(3)})
		p.add(lg(m.CallV("h2", m.Num(1))))
	}
	return p
}

// hoisting: use before definition, function vs var of the same name, parameters vs var
func scHoist(r *h.Rng) *prog {
	p := &prog{}
	style := 1 + r.Intn(2)
	f := m.Fn{Name: "f", Params: []string{"p"}, Vars: []string{"v", "p", "g"}, HoistStyle: style,
		Decls: []m.Decl{{Name: "g", F: m.Fn{Name: "g", Body: []m.N{m.Ret(m.Num(r.Intn(9)))}}}, {Name: "k", F: m.Fn{Name: "k", Body: []m.N{m.Ret(m.Typeof(m.Var("v")))}}}},
		Body: []m.N{
			lg(m.Typeof(m.Var("v"))), lg(m.Typeof(m.Var("g"))), lg(m.Var("p")), lg(m.CallV("k")),
			m.X(m.Asg("v", m.Num(3))), lg(m.CallV("k")), lg(m.CallV("g")),
			m.X(m.Asg("g", m.Num(4))), lg(m.Typeof(m.Var("g"))),
			m.X(m.Asg("undeclared", m.Num(r.Intn(9)))), m.Ret(m.Typeof(m.Var("nowhere"))),
		}}
	p.decl("f", f)
	p.v("t")
	p.add(lg(m.Typeof(m.Var("t"))), lg(m.CallV("f", m.Num(r.Intn(9)))), lg(m.Var("undeclared")), lg(m.Typeof(m.Var("v"))),
		m.Try([]m.N{m.X(m.Var("nowhere"))}, "e", []m.N{lg(m.Get(m.Var("e"), "name"))}, nil, true, false))
	return p
}

// direct vs indirect eval
func scEval(r *h.Rng) *prog {
	p := &prog{}
	p.v("x", "r")
	n := r.Intn(9)
	f := m.Fn{Name: "f", Params: []string{"x"}, Vars: []string{"loc"}, Body: []m.N{
		m.X(m.Asg("loc", m.Num(n))),
		lg(m.EvalD(nil, nil, []m.N{m.X(m.Add(m.Var("x"), m.Var("loc")))})),                    // sees locals, completion value
		lg(m.EvalI(nil, nil, []m.N{m.X(m.Typeof(m.Var("loc")))})),                             // does not
		lg(m.EvalI(nil, nil, []m.N{m.X(m.Var("x"))})),                                         // global x
		m.X(m.EvalD([]string{"ev"}, nil, []m.N{m.X(m.Asg("ev", m.Num(5)))})), lg(m.Var("ev")), // var declared in the function
		m.X(m.EvalI([]string{"gv"}, nil, []m.N{m.X(m.Asg("gv", m.Num(6)))})), // var declared globally
		m.X(m.EvalD(nil, []m.Decl{{Name: "ef", F: m.Fn{Name: "ef", Body: []m.N{m.Ret(m.Var("loc"))}}}}, nil)), lg(m.CallV("ef")),
		lg(m.EvalD(nil, nil, []m.N{m.X(m.Typeof(m.This()))})),
		m.Ret(m.EvalD(nil, nil, []m.N{m.If(m.Bool(r.Bool()), []m.N{m.X(m.Asg("loc", m.Num(2)))}, nil), m.X(m.Add(m.Var("loc"), m.Num(1)))})),
	}}
	p.decl("f", f)
	p.add(m.X(m.Asg("x", m.Num(100))), lg(m.CallV("f", m.Num(r.Intn(9)))), lg(m.Var("gv")), lg(m.Typeof(m.Var("ev"))), lg(m.Typeof(m.Var("ef"))))
	return p
}

// named function expressions and recursion
func scNamed(r *h.Rng) *prog {
	p := &prog{}
	p.v("fact", "r")
	n := 1 + r.Intn(4)
	fact := m.Fn{Name: "me", Params: []string{"n"}, Body: []m.N{
		m.If(m.Lt(m.Var("n"), m.Num(1)), []m.N{m.Ret(m.Num(0))}, nil),
		m.X(m.Asg("me", m.Num(5))), // assignment to the immutable name is ignored
		m.Ret(m.Add(m.Var("n"), m.CallV("me", m.Sub(m.Var("n"), m.Num(1))))),
	}}
	p.add(m.X(m.Asg("fact", fact.Expr())), lg(m.CallV("fact", m.Num(n))), lg(m.Typeof(m.Var("me"))), lg(m.Get(m.Var("fact"), "length")))
	return p
}

// exceptions through calls, finally ordering, catch scoping with closures
func scThrow(r *h.Rng) *prog {
	p := &prog{}
	p.v("g", "e", "keep")
	depth := 1 + r.Intn(3)
	thrower := m.Fn{Name: "th", Params: []string{"n"}, Body: []m.N{
		m.Try([]m.N{
			m.If(m.Lt(m.Var("n"), m.Num(1)), []m.N{m.Throw(m.Num(40 + r.Intn(9)))}, nil),
			m.Ret(m.CallV("th", m.Sub(m.Var("n"), m.Num(1)))),
		}, "", nil, []m.N{lg(m.Add(m.Str("fin"), m.Var("n")))}, false, true),
	}}
	p.decl("th", thrower)
	p.add(m.X(m.Asg("e", m.Str("outer"))),
		m.Try([]m.N{m.X(m.CallV("th", m.Num(depth)))}, "e", []m.N{lg(m.Var("e")), m.X(m.Asg("keep", m.Fn{Body: []m.N{m.Ret(m.Var("e"))}}.Expr())), m.X(m.Asg("e", m.Num(1)))},
			[]m.N{lg(m.Var("e"))}, true, true),
		lg(m.Var("e")), lg(m.CallV("keep")),
		// finally overriding a return
		lg(m.Call(m.Fn{Body: []m.N{m.Try([]m.N{m.Ret(m.Num(1))}, "", nil, []m.N{m.If(m.Bool(r.Bool()), []m.N{m.Ret(m.Num(2))}, nil)}, false, true)}}.Expr())))
	return p
}

type fnScenario struct {
	name string
	f    func(*h.Rng) *prog
}

// (fngen_scope.go appends the with / for-in / label scenarios)
var fnScenarios = []fnScenario{{"closures", scClosures}, {"this", scThis}, {"new", scNew}, {"arguments", scArguments}, {"hoist", scHoist}, {"eval", scEval}, {"named", scNamed}, {"throw", scThrow}}

func genFn(c *h.Ctx) {
	n := c.N(7500, 250000)
	for i := 0; i < n; i++ {
		sc := fnScenarios[c.Rng.Intn(len(fnScenarios))]
		r := c.Rng.Fork()
		p := sc.f(r)
		// sometimes merge a second scenario into the same program (independent names are not guaranteed:
		// that is fine, both sides see the same program)
		sxp, _ := m.Program(p.vars, p.decls, p.body, r.Intn(3))
		if p.pre != nil {
			sx0, _ := m.Program(p.pre.vars, p.pre.decls, p.pre.body, r.Intn(3))
			c.Add("fn2 20000 "+sx0+" "+sxp, "fn:"+sc.name)
			continue
		}
		c.Add("fn 20000 "+sxp, "fn:"+sc.name)
	}
}
