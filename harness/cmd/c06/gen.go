package main

import (
	"fmt"
	"math"
	"math/big"
	"strconv"
	"strings"

	"ottoverif/h"
)

// ---------------------------------------------------------------- doubles

func nextN(x float64, n int) float64 {
	for ; n > 0; n-- {
		x = math.Nextafter(x, math.Inf(1))
	}
	for ; n < 0; n++ {
		x = math.Nextafter(x, math.Inf(-1))
	}
	return x
}

// c06Doubles: the structured part of the double domain.
func c06Doubles(c *h.Ctx) []float64 {
	var out []float64
	add := func(f float64) { out = append(out, f) }
	for _, f := range h.BoundaryDoubles() {
		add(f)
	}
	// powers of ten and their neighbours
	step := 1
	if !c.Thorough() {
		step = 7
	}
	for k := -330; k <= 310; k += step {
		p, err := strconv.ParseFloat(fmt.Sprintf("1e%d", k), 64)
		if err != nil && !math.IsInf(p, 0) {
			continue
		}
		for d := -2; d <= 2; d++ {
			add(nextN(p, d))
		}
	}
	for k := -8; k <= 23; k++ {
		p, _ := strconv.ParseFloat(fmt.Sprintf("1e%d", k), 64)
		for d := -3; d <= 3; d++ {
			add(nextN(p, d))
			add(-nextN(p, d))
		}
	}
	// the two thresholds of floatToString, densely
	for _, s := range []string{"1e21", "1e-6", "1e-7", "1e20", "1e22", "1e-5"} {
		p, _ := strconv.ParseFloat(s, 64)
		n := 24
		if c.Thorough() {
			n = 300
		}
		for d := -n; d <= n; d++ {
			add(nextN(p, d))
		}
		add(-p)
	}
	// powers of two and neighbours
	for k := -1074; k <= 1023; k += c.N(13, 1) {
		p := math.Ldexp(1, k)
		add(p)
		add(nextN(p, 1))
		add(nextN(p, -1))
	}
	for k := 50; k <= 66; k++ {
		p := math.Ldexp(1, k)
		for _, f := range []float64{p, nextN(p, 1), nextN(p, -1), p + 1, p - 1} {
			add(f)
			add(-f)
		}
	}
	// exact decimal ties (n + 1/2)/10^d that are dyadic, small integers, simple fractions
	for i := 0; i <= 40; i++ {
		add(float64(i))
		add(-float64(i))
		add(float64(i) + 0.5)
		add(-(float64(i) + 0.5))
		add((float64(i) + 0.5) / 2)
		add((float64(i)*2 + 1) / 8)
		add((float64(i)*2 + 1) / 16)
		add(float64(i)*5 + 2.5)
		add(float64(i)*50 + 25)
		add(float64(i)*1000 + 500)
		add((float64(i)*2 + 1) * 5e15) // ties for toPrecision at 16 digits
		add((float64(i)*2 + 1) * 5e19)
	}
	for _, f := range []float64{0.1, 0.2, 0.3, 1.005, 1.45, 8.345, 0.000001, 0.0000001, 123.456, 1e21, 1e-7, 999999.5, 99999.95, 9.5, 9.95, 0.95, 0.095, 99.5, 999.5, 1234.5678, 0.00001, 0.000011, 1e5, 123456, 1234567, 1e6, 1e15, 1e16, 1e17, 255, 256, 35, 36, 1295, 1296, math.Pi, math.E, 4.35, 0.045, 2.675, 1.0000000000000002} {
		add(f)
		add(-f)
	}
	return out
}

func randDouble(r *h.Rng, base []float64) float64 {
	switch r.Intn(8) {
	case 0:
		return base[r.Intn(len(base))]
	case 1, 2:
		return math.Float64frombits(r.U64())
	case 3: // random subnormal / small exponent
		return math.Float64frombits(r.U64() & 0x800fffffffffffff)
	case 4: // decimal-looking values
		v, _ := strconv.ParseFloat(fmt.Sprintf("%d.%de%d", r.Intn(1000), r.Intn(100000), r.Intn(60)-30), 64)
		if r.Bool() {
			v = -v
		}
		return v
	case 5: // integers
		return float64(int64(r.U64()) >> uint(r.Intn(64)))
	case 6: // dyadic fractions (exact ties)
		return float64(int64(r.U64()>>uint(30+r.Intn(34)))) / float64(int64(1)<<uint(r.Intn(12)))
	default:
		return math.Ldexp(float64(int64(r.U64()>>11)), r.Intn(200)-120)
	}
}

func x2(x float64) string { return h.F64Hex(x) + " " + lg(x) }

// ---------------------------------------------------------------- arguments

func argTok(f float64) string { return h.F64Hex(f) }

var digitArgs = []string{}

func init() {
	for i := -2; i <= 23; i++ {
		digitArgs = append(digitArgs, argTok(float64(i)))
	}
	for _, f := range []float64{0.5, 1.9, 20.5, 20.999, 21.5, -0.5, -0.9, -1.5, math.NaN(), math.Inf(1), math.Inf(-1), math.Copysign(0, -1), 25, 50, 100, 101, 330, 800, 1100, -4294967296, -1e10} {
		digitArgs = append(digitArgs, argTok(f))
	}
	digitArgs = append(digitArgs, "u")
}

var radixArgs = []string{}

func init() {
	for i := -1; i <= 38; i++ {
		radixArgs = append(radixArgs, argTok(float64(i)))
	}
	for _, f := range []float64{2.5, 16.9, 36.5, 1.99, math.NaN(), math.Inf(1), math.Inf(-1), math.Copysign(0, -1), 4294967312, 4294967296, -16, 1e10, 0.5} {
		radixArgs = append(radixArgs, argTok(f))
	}
	radixArgs = append(radixArgs, "u")
}

// ---------------------------------------------------------------- strings

var wsRunes = []rune{0x9, 0xA, 0xB, 0xC, 0xD, 0x20, 0xA0, 0x1680, 0x180E, 0x2000, 0x2001, 0x2005, 0x200A, 0x2028, 0x2029, 0x202F, 0x205F, 0x3000, 0xFEFF}
var nonWsRunes = []rune{0x85, 0x200B, 0x200C, 0x2060, 0x0, 0x1F, 0x7F, 0x2800}

// every ES5 WhiteSpace / LineTerminator code point (Unicode Zs as of ES5.1, U+180E included, plus U+FEFF)
var es5WsAll = []rune{0x9, 0xA, 0xB, 0xC, 0xD, 0x20, 0xA0, 0x1680, 0x180E, 0x2000, 0x2001, 0x2002, 0x2003, 0x2004, 0x2005, 0x2006,
	0x2007, 0x2008, 0x2009, 0x200A, 0x2028, 0x2029, 0x202F, 0x205F, 0x3000, 0xFEFF}

// code points that are NOT ES5 white space: Go's unicode.IsSpace extra (U+0085), and neighbours / look-alikes
var notEs5Ws = []rune{0x85, 0x1C, 0x1D, 0x1E, 0x1F, 0x8, 0xE, 0x0, 0x7F, 0x200B, 0x200C, 0x200D, 0x200E, 0x2060, 0x2800, 0x3164, 0x180B, 0x180D, 0x180F,
	0x1FFF, 0x200F, 0x2027, 0x202A, 0x202E, 0x2030, 0x205E, 0x2060, 0x2FFF, 0x3001, 0xFEFE, 0xFFFE, 0xFFFD, 0xA1, 0x9F, 0x1681, 0x167F}

// wsEdgeRequests: every edge code point x (leading, trailing, both, mixed with ordinary white space) around
// a few numeric texts, for Number(s), parseFloat(s) and parseInt(s)
func wsEdgeRequests(c *h.Ctx) {
	bodies := []string{"1", "-12.5", "0x1F", "Infinity", "", "7e1"}
	all := append(append([]rune{}, es5WsAll...), notEs5Ws...)
	for _, x := range all {
		xs := string(x)
		for _, b := range bodies {
			for _, s := range []string{xs + b, b + xs, xs + b + xs, " " + xs + b, xs + " " + b, b + xs + " ", b + " " + xs, "\t" + xs + "\n" + b + "\r" + xs + " ", xs + xs + b + xs + xs} {
				tok := h.BytesTok(s)
				c.Add("num "+tok, "ws:num")
				c.Add("pfloat "+tok, "ws:pfloat")
				c.Add("pint "+tok+" u", "ws:pint")
				c.Add("pint "+tok+" "+argTok(16), "ws:pint")
			}
		}
	}
	// mixed runs of several edge code points
	r := c.Rng
	for i := 0; i < c.N(1500, 60000); i++ {
		mk := func() string {
			var sb strings.Builder
			for n := r.Intn(4); n > 0; n-- {
				if r.Intn(3) == 0 {
					sb.WriteRune(notEs5Ws[r.Intn(len(notEs5Ws))])
				} else {
					sb.WriteRune(es5WsAll[r.Intn(len(es5WsAll))])
				}
			}
			return sb.String()
		}
		s := mk() + bodies[r.Intn(len(bodies))] + mk()
		tok := h.BytesTok(s)
		switch r.Intn(3) {
		case 0:
			c.Add("num "+tok, "ws:num")
		case 1:
			c.Add("pfloat "+tok, "ws:pfloat")
		default:
			c.Add("pint "+tok+" "+radixArgs[r.Intn(len(radixArgs))], "ws:pint")
		}
	}
}

func digitsStr(r *h.Rng, n int) string {
	var b strings.Builder
	for i := 0; i < n; i++ {
		b.WriteByte(byte('0' + r.Intn(10)))
	}
	return b.String()
}

func digitLen(r *h.Rng) int {
	switch r.Intn(10) {
	case 0:
		return 0
	case 1, 2, 3:
		return 1 + r.Intn(3)
	case 4, 5, 6:
		return 1 + r.Intn(18)
	case 7, 8:
		return 15 + r.Intn(10)
	default:
		return 20 + r.Intn(60)
	}
}

// strDecimal draws from StrDecimalLiteral (mostly valid).
func strDecimal(r *h.Rng) string {
	var b strings.Builder
	switch r.Intn(6) {
	case 0:
		b.WriteByte('+')
	case 1:
		b.WriteByte('-')
	}
	if r.Intn(25) == 0 {
		b.WriteString("Infinity")
		return b.String()
	}
	ip, fp := digitLen(r), digitLen(r)
	switch r.Intn(4) {
	case 0: // DecimalDigits
		b.WriteString(digitsStr(r, ip))
	case 1: // DecimalDigits . DecimalDigits_opt
		b.WriteString(digitsStr(r, ip))
		b.WriteByte('.')
		b.WriteString(digitsStr(r, fp))
	case 2: // . DecimalDigits
		b.WriteByte('.')
		b.WriteString(digitsStr(r, fp))
	default:
		b.WriteString(digitsStr(r, 1+r.Intn(3)))
		b.WriteByte('.')
		b.WriteString(digitsStr(r, fp))
	}
	if r.Intn(2) == 0 {
		b.WriteByte("eE"[r.Intn(2)])
		switch r.Intn(3) {
		case 0:
			b.WriteByte('+')
		case 1:
			b.WriteByte('-')
		}
		switch r.Intn(6) {
		case 0:
			b.WriteString(strconv.Itoa(r.Intn(10)))
		case 1, 2:
			b.WriteString(strconv.Itoa(r.Intn(40)))
		case 3:
			b.WriteString(strconv.Itoa(290 + r.Intn(50)))
		case 4:
			b.WriteString("0" + strconv.Itoa(r.Intn(400)))
		default:
			b.WriteString(strconv.Itoa(r.Intn(100000)))
		}
	}
	return b.String()
}

// exact decimal expansion of a finite double or of the midpoint to its successor
func exactDecimal(x float64, mid bool) string {
	f := new(big.Float).SetPrec(2000).SetFloat64(x)
	if mid {
		n := new(big.Float).SetPrec(2000).SetFloat64(math.Nextafter(x, math.Inf(1)))
		f.Add(f, n)
		f.Quo(f, big.NewFloat(2))
	}
	return f.Text('f', -1)
}

func bumpLast(s string, up bool) string {
	if up {
		return s + "1"
	}
	// decrease: ...d000 -> ...(d-1)999 by appending after decrement of the last non-zero digit
	b := []byte(s)
	for i := len(b) - 1; i >= 0; i-- {
		if b[i] >= '1' && b[i] <= '9' {
			b[i]--
			return string(b) + "9"
		}
	}
	return s
}

func wrapWs(r *h.Rng, s string) string {
	var b strings.Builder
	for i := r.Intn(3); i > 0; i-- {
		b.WriteRune(wsRunes[r.Intn(len(wsRunes))])
	}
	b.WriteString(s)
	for i := r.Intn(3); i > 0; i-- {
		b.WriteRune(wsRunes[r.Intn(len(wsRunes))])
	}
	return b.String()
}

const mutAlphabet = "0123456789..eE+-xXpP__ abfIniNFty"

func mutate(r *h.Rng, s string) string {
	rs := []rune(s)
	n := 1 + r.Intn(2)
	for ; n > 0; n-- {
		switch r.Intn(4) {
		case 0: // insert
			i := r.Intn(len(rs) + 1)
			var ch rune
			if r.Intn(8) == 0 {
				all := append(append([]rune{}, wsRunes...), nonWsRunes...)
				ch = all[r.Intn(len(all))]
			} else {
				ch = rune(mutAlphabet[r.Intn(len(mutAlphabet))])
			}
			rs = append(rs[:i], append([]rune{ch}, rs[i:]...)...)
		case 1: // delete
			if len(rs) > 0 {
				i := r.Intn(len(rs))
				rs = append(rs[:i], rs[i+1:]...)
			}
		case 2: // replace
			if len(rs) > 0 {
				rs[r.Intn(len(rs))] = rune(mutAlphabet[r.Intn(len(mutAlphabet))])
			}
		default: // duplicate a char
			if len(rs) > 0 {
				i := r.Intn(len(rs))
				rs = append(rs[:i], append([]rune{rs[i]}, rs[i:]...)...)
			}
		}
	}
	return string(rs)
}

var fixedStrings = []string{"", " ", "0", "-0", "+0", "1", "+1", " 12 ", "\t\n42\r", "1e3", "1E-2", ".5", "5.", "-.5e1", "0x10", "0X1f", "-0x10", "+0x10", "0x", "0x1g",
	"Infinity", "-Infinity", "+Infinity", "infinity", "inf", "Inf", "INF", "+inf", "-INFINITY", "iNfInItY", "Infinit", "Infinityx", "Infinity1", "InfinityInfinity", "NaN", "nan", "+nan", "abc", "1 2", "1_000", "1_0.5", "1e1_0", "_1", "1_", "1__0", "0x1_0", "0x_10", "0b11", "0o17", "0B1", "0O7", "010", "08", "1e999", "-1e999", "1e-999", "1e400", "1e309", "1.7976931348623158e308", "1.7976931348623159e308", "4.9e-324", "2.4703282292062327e-324", "2.4703282292062328e-324", "2.5e-324",
	"0x1.8p1", "0x1p3", "0x.8p1", "0X1.P1", "-0x1.8p1", "+0x1.8p+1", "0x1.8", "0x1.8p", "0x8000000000000000", "0x7fffffffffffffff", "0xffffffffffffffff", "0x10000000000000000", "0x20000000000000180000", "0x8000000000000401", "\u00a0 7\ufeff", "\u180e1", "\u200b1", "1\u200b", "\u00851", "1.", "..1", "1..", "1.2.3", "1e", "1e+", "1e-", "e5", ".e5", ".", "+", "-", "+-1", "--1", "++1", "1+", "1e5.5", "1e+5e", "1d", "1f", "1L",
	"9007199254740993", "9007199254740992", "9007199254740991", "9223372036854775807", "9223372036854775808", "18446744073709551615", "18446744073709551616", "123456789012345678901234567890", "0.1", "0.30000000000000004", "5e-324", "1e21", "1e-7", "00012", "-00012.50", "0e0", "0.0e-0", "-0.0", "\u0661\u0662\u0663", "\uff11\uff12\uff13", "1,000", "$1", "1%", "true", "null", "undefined", "[object Object]", "1Infinity", "Infinity.5", "1inf", "5infinity6", "infx", "xinf", "Infe", "Infe5", "infinityy", "1e5x", "1.5abc", "0x1p3zzz", "1_0z", "-.5", "-.", "- 5", "-\t5", "1e400x", "-1e400", "1e40000000000", "1e-40000000000", "123abc", "0x1F.8", "12e", "12e+x", "\u0663", "1\x00", "\x001"}

func genStringNum(r *h.Rng, doubles []float64) string {
	switch r.Intn(12) {
	case 0:
		return fixedStrings[r.Intn(len(fixedStrings))]
	case 1, 2:
		return wrapWs(r, strDecimal(r))
	case 3:
		return strDecimal(r)
	case 4: // a formatted double
		x := randDouble(r, doubles)
		fmts := []byte{'e', 'f', 'g', 'E', 'G'}
		p := -1
		if r.Bool() {
			p = r.Intn(25)
		}
		if math.IsInf(x, 0) || math.IsNaN(x) {
			x = 1.5
		}
		return strconv.FormatFloat(x, fmts[r.Intn(len(fmts))], p, 64)
	case 5: // exact expansion, midpoint, and just off the midpoint
		x := math.Abs(randDouble(r, doubles))
		if math.IsInf(x, 0) || math.IsNaN(x) || x == 0 || (x < 1e-280) || x > 1e280 {
			x = math.Ldexp(float64(r.U64()>>11|1<<52), r.Intn(120)-60)
		}
		s := exactDecimal(x, r.Intn(3) != 0)
		switch r.Intn(3) {
		case 0:
			return s
		case 1:
			return bumpLast(s, true)
		default:
			return bumpLast(s, false)
		}
	case 6: // hex integers
		n := 1 + r.Intn(20)
		var b strings.Builder
		b.WriteString([]string{"0x", "0X", "0x", "-0x", "+0X", "0x0"}[r.Intn(6)])
		for i := 0; i < n; i++ {
			b.WriteByte("0123456789abcdefABCDEF"[r.Intn(22)])
		}
		return wrapWs(r, b.String())
	case 7: // Go-only syntax
		x := math.Abs(randDouble(r, doubles))
		if math.IsInf(x, 0) || math.IsNaN(x) {
			x = 3
		}
		switch r.Intn(5) {
		case 0:
			return strconv.FormatFloat(x, 'x', -1, 64)
		case 1:
			return strconv.FormatFloat(x, 'X', r.Intn(8), 64)
		case 2:
			s := strDecimal(r)
			if len(s) > 2 {
				i := 1 + r.Intn(len(s)-1)
				s = s[:i] + "_" + s[i:]
			}
			return s
		case 3:
			return []string{"inf", "Inf", "INF", "infinity", "INFINITY", "InFiNiTy", "+inf", "-inf", "+Infinity", "-infinity", "nan", "NAN", "NaN"}[r.Intn(13)]
		default:
			return []string{"0b", "0B", "0o", "0O"}[r.Intn(4)] + digitsStr(r, 1+r.Intn(5))
		}
	default:
		base := strDecimal(r)
		if r.Intn(3) == 0 {
			base = fixedStrings[r.Intn(len(fixedStrings))]
		}
		return mutate(r, wrapWs(r, base))
	}
}

const radixDigits = "0123456789abcdefghijklmnopqrstuvwxyzABCDEFGHIJKLMNOPQRSTUVWXYZ"

func genParseIntString(r *h.Rng, radix int) string {
	if radix < 2 || radix > 36 {
		radix = []int{10, 16, 8, 2, 36}[r.Intn(5)]
	}
	var b strings.Builder
	switch r.Intn(5) {
	case 0:
		b.WriteByte('-')
	case 1:
		b.WriteByte('+')
	}
	if r.Intn(6) == 0 {
		b.WriteString([]string{"0x", "0X"}[r.Intn(2)])
	}
	n := 0
	switch r.Intn(8) {
	case 0:
		n = 0
	case 1, 2, 3:
		n = 1 + r.Intn(6)
	case 4, 5:
		n = 1 + r.Intn(20)
	case 6: // around 2^63 / 2^64 in this radix
		n = int(math.Ceil(63/math.Log2(float64(radix)))) + r.Intn(3) - 1
	default:
		n = 20 + r.Intn(60)
	}
	for i := 0; i < n; i++ {
		d := r.Intn(radix)
		if r.Intn(30) == 0 {
			d = r.Intn(36)
		}
		ch := radixDigits[d]
		if d >= 10 && r.Bool() {
			ch = radixDigits[d+26]
		}
		b.WriteByte(ch)
	}
	switch r.Intn(6) {
	case 0:
		b.WriteString([]string{".5", "e5", "px", " ", "_1", "z", "\u00e9", "n"}[r.Intn(8)])
	}
	s := b.String()
	if r.Intn(4) == 0 {
		s = wrapWs(r, s)
	}
	if r.Intn(12) == 0 {
		s = mutate(r, s)
	}
	return s
}

var parseIntFixed = []string{"", " ", "-", "+", "0", "-0", "+0", " -0", "-00", "-0x0", "0x", "0X", "0x0", "-0x", "0xg", "0x1F", "-0X1f", "  0x10  ", "010", "08", "0b11", "1e3", "12.9", "-12.9", "  42abc", "abc", "z", "Z", "zz", "9223372036854775807", "9223372036854775808", "-9223372036854775808", "-9223372036854775809", "18446744073709551616", "9007199254740993", "-9007199254740993", "0x8000000000000000", "0x8000000000000401", "0x7fffffffffffffff", "0xffffffffffffffff", "0x20000000000000180000", "123456789012345678901234567890", "1111111111111111111111111111111111111111111111111111111111111111", "Infinity", "-Infinity", "NaN", "\u180e12", "\u200b12", "12\u200b", "1_000", "\u0663", "--1", "+-1", "-+1", "- 1", "1 2", "0x-1", "0x+1", "00x10", "0 x10"}

// argobjRequests: toFixed / toExponential / toPrecision / toString called with a scripted object argument
// (successive valueOf / toString results: numbers, an object, a throw) on number, Number-object and
// non-number receivers, incl. NaN and the infinities.
func argobjRequests(c *h.Ctx, ds []float64) {
	r := c.Rng
	meths := []string{"toFixed", "toExponential", "toPrecision", "toString"}
	recvVals := []float64{0.5, 2.5, 123.456, -1.5, 0, math.Copysign(0, -1), 1e21, 1e-7, 255, math.NaN(), math.Inf(1), math.Inf(-1), 12345678905}
	argVals := []float64{0, 1, 2, 3, 10, 16, 20, 21, 22, 25, 36, 37, -1, 1.9, 100, 1e9, math.NaN(), math.Inf(1), math.Inf(-1), 0.5, -0.5}
	item := func() string {
		switch r.Intn(9) {
		case 0:
			return "o"
		case 1:
			return "T"
		default:
			return h.F64Hex(argVals[r.Intn(len(argVals))])
		}
	}
	script := func() string {
		n := 1 + r.Intn(3)
		var p []string
		for i := 0; i < n; i++ {
			p = append(p, item())
		}
		return strings.Join(p, ",")
	}
	recv := func() string {
		switch r.Intn(8) {
		case 0:
			return "x"
		case 1, 2:
			return "N:" + h.F64Hex(recvVals[r.Intn(len(recvVals))])
		case 3:
			return "p:" + h.F64Hex(math.Trunc(randDouble(r, ds)))
		default:
			return "p:" + h.F64Hex(recvVals[r.Intn(len(recvVals))])
		}
	}
	// toString(radix) of a non-integral value is specified only for power-of-two radixes: integral receivers there
	intRecv := func(m, rv string) string {
		if m != "toString" || rv == "x" {
			return rv
		}
		return rv[:2] + h.F64Hex(math.Trunc(h.HexF64(rv[2:])))
	}
	// the systematic part: check-then-use pairs (in range first, out of range second and vice versa)
	for _, m := range meths {
		for _, rv := range []string{"p:" + h.F64Hex(0.5), "p:" + h.F64Hex(math.NaN()), "p:" + h.F64Hex(math.Inf(1)), "N:" + h.F64Hex(255), "x"} {
			for _, a := range argVals {
				for _, b := range []float64{1, 25, 1e9, math.NaN()} {
					c.Add("argobj "+m+" "+intRecv(m, rv)+" "+h.F64Hex(a)+","+h.F64Hex(b)+" "+h.F64Hex(2), "argobj:pairs")
				}
			}
			for _, sc := range [][2]string{{"T", h.F64Hex(1)}, {"o", h.F64Hex(2)}, {"o", "T"}, {"o", "o"}, {"o,T", h.F64Hex(2) + "," + h.F64Hex(99)}} {
				c.Add("argobj "+m+" "+intRecv(m, rv)+" "+sc[0]+" "+sc[1], "argobj:shapes")
			}
		}
	}
	for i := 0; i < c.N(6000, 300000); i++ {
		m := meths[r.Intn(4)]
		c.Add("argobj "+m+" "+intRecv(m, recv())+" "+script()+" "+script(), "argobj:random")
	}
}

// pintobjRequests: parseInt with an object as radix (logging / throwing valueOf, toString fallback) and a
// primitive, logging or throwing string argument, for empty, white-space-only, sign-only, prefix-only and
// ordinary inputs.
func pintobjRequests(c *h.Ctx) {
	r := c.Rng
	inputs := []string{"", " ", "\t\n", "\ufeff", "-", "+", " - ", "0x", "0X", "-0x", "0", "12", "-12", "0x1F", " 7 ", "z", "abc", "1e3", "10", "-0", "9007199254740993", "0x8000000000000401", "\u0085", "\u00851"}
	radVals := []float64{0, 10, 16, 2, 36, 37, 1, -1, 8, 16.9, 4294967312, math.NaN(), math.Inf(1), math.Copysign(0, -1)}
	strTok := func(mode byte, s string) string { return string(mode) + ":" + strings.TrimPrefix(h.BytesTok(s), "s:") }
	scripts := [][2]string{}
	for _, rv := range radVals {
		scripts = append(scripts, [2]string{h.F64Hex(rv), h.F64Hex(2)}, [2]string{"o", h.F64Hex(rv)})
	}
	scripts = append(scripts, [2]string{"T", h.F64Hex(10)}, [2]string{"o", "T"}, [2]string{"o", "o"}, [2]string{h.F64Hex(10) + "," + h.F64Hex(16), h.F64Hex(2)})
	for _, in := range inputs {
		for _, sc := range scripts {
			c.Add("pintobj "+strTok('p', in)+" "+sc[0]+" "+sc[1], "pintobj")
			c.Add("pintobj "+strTok('o', in)+" "+sc[0]+" "+sc[1], "pintobj")
		}
	}
	for _, sc := range scripts {
		c.Add("pintobj T "+sc[0]+" "+sc[1], "pintobj")
	}
	for i := 0; i < c.N(3000, 150000); i++ {
		a := radixArgs[r.Intn(len(radixArgs))]
		radix := 0
		if a != "u" {
			if f := h.HexF64(a); f >= 2 && f <= 36 {
				radix = int(f)
			}
		} else {
			a = h.F64Hex(0)
		}
		in := genParseIntString(r, radix)
		if r.Intn(4) == 0 {
			in = inputs[r.Intn(len(inputs))]
		}
		v, sv := a, h.F64Hex(10)
		switch r.Intn(8) {
		case 0:
			v, sv = "o", a
		case 1:
			v = "T"
		case 2:
			v, sv = "o", "o"
		}
		c.Add("pintobj "+strTok("po"[r.Intn(2)], in)+" "+v+" "+sv, "pintobj:random")
	}
}

// numeric literal source texts (ES5 7.8.3 + B.1.1) and near misses
func genLiteral(r *h.Rng, doubles []float64) string {
	switch r.Intn(10) {
	case 0:
		return litFixed[r.Intn(len(litFixed))]
	case 1, 2: // DecimalLiteral
		s := strDecimal(r)
		return strings.TrimLeft(s, "+-")
	case 3: // formatted double
		x := math.Abs(randDouble(r, doubles))
		if math.IsInf(x, 0) || math.IsNaN(x) {
			x = 2.5
		}
		p := -1
		if r.Bool() {
			p = r.Intn(22)
		}
		return strconv.FormatFloat(x, []byte{'e', 'f', 'g'}[r.Intn(3)], p, 64)
	case 4: // hex
		n := 1 + r.Intn(22)
		var b strings.Builder
		b.WriteString([]string{"0x", "0X"}[r.Intn(2)])
		for i := 0; i < n; i++ {
			b.WriteByte("0123456789abcdefABCDEF"[r.Intn(22)])
		}
		return b.String()
	case 5: // legacy octal and 08/09 forms
		n := 1 + r.Intn(24)
		var b strings.Builder
		b.WriteByte('0')
		for i := 0; i < n; i++ {
			if r.Intn(15) == 0 {
				b.WriteByte("89"[r.Intn(2)])
			} else {
				b.WriteByte(byte('0' + r.Intn(8)))
			}
		}
		return b.String()
	case 6: // integers around 2^53 / 2^63 / 2^64
		base := []uint64{1 << 53, 1<<63 - 1, 1 << 63, math.MaxUint64, 1 << 62, 9007199254740993}[r.Intn(6)]
		return strconv.FormatUint(base+uint64(r.Intn(5))-2, 10)
	default:
		var base string
		switch r.Intn(3) {
		case 0:
			base = litFixed[r.Intn(len(litFixed))]
		case 1:
			base = strings.TrimLeft(strDecimal(r), "+-")
		default:
			base = strconv.FormatUint(r.U64()>>uint(r.Intn(64)), []int{8, 10, 16}[r.Intn(3)])
			if r.Bool() {
				base = "0x" + base
			}
		}
		return mutateLit(r, base)
	}
}

const litAlphabet = "0123456789..eE+-xXabfABF_$ 78"

func mutateLit(r *h.Rng, s string) string {
	b := []byte(s)
	switch r.Intn(4) {
	case 0:
		i := r.Intn(len(b) + 1)
		b = append(b[:i], append([]byte{litAlphabet[r.Intn(len(litAlphabet))]}, b[i:]...)...)
	case 1:
		if len(b) > 0 {
			i := r.Intn(len(b))
			b = append(b[:i], b[i+1:]...)
		}
	case 2:
		if len(b) > 0 {
			b[r.Intn(len(b))] = litAlphabet[r.Intn(len(litAlphabet))]
		}
	default:
		if len(b) > 0 {
			i := r.Intn(len(b))
			b = append(b[:i], append([]byte{b[i]}, b[i:]...)...)
		}
	}
	return string(b)
}

var litFixed = []string{"0", "1", "00", "01", "07", "08", "09", "010", "017", "018", "0777", "00.5", "0.5", "0.", ".5", ".", "5.", "5.e3", "5.e", "1e3", "1E3", "1e+3", "1e-3", "1e", "1e+", "0e0", "0e", "0x", "0X", "0x0", "0x1F", "0X1f", "0xg", "0x1g", "0x1.8", "0x1p3", "0b11", "0o17", "1_000", "1a", "1$", "1_", "1 ", " 1", "1;", "1.5.5", "1..5", "1.e5", "1.5e5.5", "1e5e5", "0.0000001", "1e21", "1e-7", "1e400", "1e-400", "1.7976931348623159e308", "4.9e-324", "2.4703282292062327e-324", "2.4703282292062328e-324",
	"9007199254740992", "9007199254740993", "9223372036854775807", "9223372036854775808", "18446744073709551615", "18446744073709551616", "123456789012345678901234567890",
	"0x7fffffffffffffff", "0x8000000000000000", "0x8000000000000401", "0xffffffffffffffff", "0x10000000000000000", "0x20000000000000180000", "0x1fffffffffffff8", "0x3fffffffffffff0",
	"0777777777777777777777", "01000000000000000000000", "01777777777777777777777", "02000000000000000000000", "0000000000000000000000000017",
	"1+1", "0xe+5", "1e+5+5", "-1", "+1", "1-", "Infinity", "NaN", "1n", "1f", "1d", "1L", "0.1e", "0.e1", ".e1", "..1", "0..1", "012.5", "08.5", "09e1", "0e1x", "3in", "1\\u0061"}

// ---------------------------------------------------------------- the request stream

func genC06(c *h.Ctx) {
	first := len(c.Lines) // corpus lines stay in front
	genStream(c)
	// deterministic shuffle: the model driver is run on contiguous chunks in parallel, and the
	// operations differ a lot in cost, so interleave them
	r := c.Rng.Fork()
	ls := c.Lines[first:]
	for i := len(ls) - 1; i > 0; i-- {
		j := r.Intn(i + 1)
		ls[i], ls[j] = ls[j], ls[i]
	}
}

func genStream(c *h.Ctx) {
	r := c.Rng
	ds := c06Doubles(c)

	// --- number -> text: every structured double through every operation
	for _, x := range ds {
		c.Add("tostr "+x2(x), "tostr:structured")
	}
	for i := 0; i < c.N(12000, 800000); i++ {
		c.Add("tostr "+x2(randDouble(r, ds)), "tostr:random")
	}
	pick := func() float64 {
		if r.Intn(3) == 0 {
			return ds[r.Intn(len(ds))]
		}
		return randDouble(r, ds)
	}
	// toFixed: all digit counts 0..20 plus the fringe
	for i := 0; i < c.N(14000, 1000000); i++ {
		c.Add("fixed "+x2(pick())+" "+digitArgs[r.Intn(len(digitArgs))], "fixed")
	}
	for i := 0; i < c.N(9000, 700000); i++ {
		x := pick()
		c.Add("exp "+h.F64Hex(x)+" "+digitArgs[r.Intn(len(digitArgs))], "exp")
	}
	for i := 0; i < c.N(9000, 700000); i++ {
		c.Add("prec "+x2(pick())+" "+digitArgs[r.Intn(len(digitArgs))], "prec")
	}
	// radix: integers (the property's quantifier), some non-integers with power-of-two radix
	for i := 0; i < c.N(9000, 700000); i++ {
		var x float64
		switch r.Intn(6) {
		case 0:
			x = float64(r.Intn(5000) - 2500)
		case 1:
			x = float64(int64(r.U64()) >> uint(r.Intn(64)))
		case 2:
			x = math.Trunc(math.Ldexp(float64(int64(r.U64()>>11)), r.Intn(80)-10))
			if r.Bool() {
				x = -x
			}
		case 3:
			x = ds[r.Intn(len(ds))]
		default:
			x = math.Trunc(randDouble(r, ds))
		}
		a := radixArgs[r.Intn(len(radixArgs))]
		if x != math.Trunc(x) && !math.IsInf(x, 0) { // non-integral: only where the spec is defined
			a = argTok(float64([]int{2, 4, 8, 16, 32, 10}[r.Intn(6)]))
			if math.Abs(x) < 1e-300 {
				continue
			}
		}
		c.Add("radix "+x2(x)+" "+a, "radix")
	}
	for i := 0; i < c.N(300, 20000); i++ { // a thin stream of fractions
		x := float64(int64(r.U64()>>uint(40+r.Intn(24)))) / float64(int64(1)<<uint(1+r.Intn(10)))
		if r.Bool() {
			x = -x
		}
		c.Add("radix "+x2(x)+" "+argTok(float64([]int{2, 4, 8, 16, 32}[r.Intn(5)])), "radix:fraction")
	}

	// --- object arguments: how often / when the digit count or radix is converted
	argobjRequests(c, ds)
	pintobjRequests(c)
	// --- text -> number
	wsEdgeRequests(c)
	for _, m := range []string{"toString", "toLocaleString", "valueOf", "toFixed", "toExponential", "toPrecision"} {
		for k := range thisExprs {
			c.Add("nthis "+m+" "+k, "nthis")
		}
	}
	for _, s := range fixedStrings {
		c.Add("num "+h.BytesTok(s), "num:fixed")
		c.Add("pfloat "+h.BytesTok(s), "pfloat:fixed")
		c.Add("pint "+h.BytesTok(s)+" u", "pint:fixed")
	}
	for i := 0; i < c.N(16000, 1200000); i++ {
		c.Add("num "+h.BytesTok(genStringNum(r, ds)), "num")
	}
	for i := 0; i < c.N(12000, 800000); i++ {
		s := genStringNum(r, ds)
		if r.Intn(3) == 0 {
			s += []string{"x", "abc", " 1", ".", "e", "e+", "_", "Infinity", "inf", "p1", "\u00e9"}[r.Intn(11)]
		}
		c.Add("pfloat "+h.BytesTok(s), "pfloat")
	}
	// numeric literals
	for _, s := range litFixed {
		c.Add("lit "+h.BytesTok(s), "lit:fixed")
	}
	for i := 0; i < c.N(9000, 700000); i++ {
		c.Add("lit "+h.BytesTok(genLiteral(r, ds)), "lit")
	}
	// String(<literal>) and String(parseInt(..)): integers around 2^53 .. 2^64 in every base
	for _, s := range litFixed {
		c.Add("litstr "+h.BytesTok(s), "litstr:fixed")
	}
	for _, s := range parseIntFixed {
		c.Add("pintstr "+h.BytesTok(s)+" u", "pintstr:fixed")
	}
	for i := 0; i < c.N(4000, 300000); i++ {
		var n uint64
		switch r.Intn(4) {
		case 0:
			n = 1<<53 + uint64(r.Intn(4096)) - 2048
		case 1:
			n = r.U64() >> uint(r.Intn(12))
		case 2:
			n = uint64(1)<<uint(53+r.Intn(11)) + uint64(r.Intn(9)) - 4
		default:
			n = uint64(r.Intn(1000000))
		}
		base := []int{10, 16, 8}[r.Intn(3)]
		lit := strconv.FormatUint(n, base)
		switch base {
		case 16:
			lit = "0x" + lit
		case 8:
			lit = "0" + lit
		}
		if r.Bool() {
			c.Add("litstr "+h.BytesTok(lit), "litstr")
		} else {
			ps := strconv.FormatUint(n, 10)
			a := "u"
			if r.Intn(3) == 0 {
				rad := 2 + r.Intn(35)
				ps = strconv.FormatUint(n, rad)
				a = argTok(float64(rad))
			}
			if r.Intn(3) == 0 {
				ps = "-" + ps
			}
			c.Add("pintstr "+h.BytesTok(ps)+" "+a, "pintstr")
		}
	}
	for i := 0; i < c.N(1500, 100000); i++ {
		c.Add("litstr "+h.BytesTok(genLiteral(r, ds)), "litstr:any")
	}
	// ToString of integer-kinded number Values
	for _, n := range []int64{0, 1, -1, 10, 1 << 53, 1<<53 + 1, 1<<53 - 1, -(1<<53 + 1), 9007199254740993, math.MaxInt64, math.MinInt64, 1 << 62, 1000000000000000000, 999999999999999999, 123456789012345678} {
		c.Add("istr "+strconv.FormatInt(n, 10), "istr")
	}
	for i := 0; i < c.N(1500, 100000); i++ {
		n := int64(r.U64()) >> uint(r.Intn(64))
		c.Add("istr "+strconv.FormatInt(n, 10), "istr")
	}
	// round trip Number(String(x)) = x
	for _, x := range ds {
		c.Add("rt "+x2(x), "rt:structured")
	}
	for i := 0; i < c.N(6000, 300000); i++ {
		c.Add("rt "+x2(randDouble(r, ds)), "rt:random")
	}
	for _, s := range parseIntFixed {
		for _, a := range radixArgs {
			c.Add("pint "+h.BytesTok(s)+" "+a, "pint:fixed")
		}
	}
	for i := 0; i < c.N(14000, 1000000); i++ {
		a := radixArgs[r.Intn(len(radixArgs))]
		radix := 0
		if a != "u" {
			f := h.HexF64(a)
			if f >= 2 && f <= 36 {
				radix = int(f)
			}
		}
		c.Add("pint "+h.BytesTok(genParseIntString(r, radix))+" "+a, "pint")
	}
}
