package main

import (
	"encoding/hex"
	"errors"
	"fmt"
	"math"
	"strconv"
	"strings"
	"sync"
	"unicode/utf16"

	"github.com/robertkrimen/otto"
	"github.com/robertkrimen/otto/ast"
	"github.com/robertkrimen/otto/parser"
	"ottoverif/h"
)

func init() {
	h.Register(&h.Prop{ID: "C06", Gen: genC06, Impl: implC06, Trivial: func(l string) bool { return false }})
}

// ---------------------------------------------------------------- the real code, through the public API

type vmCtx struct {
	vm                                                             *otto.Otto
	fString, fNumber, fParseInt, fParseFloat                        otto.Value
	mToString, mToFixed, mToExponential, mToPrecision               otto.Value
}

var vmPool = sync.Pool{New: func() interface{} {
	vm := otto.New()
	get := func(src string) otto.Value {
		v, err := vm.Run(src)
		if err != nil {
			panic(err)
		}
		return v
	}
	return &vmCtx{vm: vm,
		fString: get("String"), fNumber: get("Number"), fParseInt: get("parseInt"), fParseFloat: get("parseFloat"),
		mToString: get("Number.prototype.toString"), mToFixed: get("Number.prototype.toFixed"),
		mToExponential: get("Number.prototype.toExponential"), mToPrecision: get("Number.prototype.toPrecision")}
}}

func errTok(err error) string {
	var oe *otto.Error
	if errors.As(err, &oe) {
		msg := oe.Error()
		if i := strings.IndexByte(msg, ':'); i > 0 {
			return "throw:" + msg[:i]
		}
		return "throw:" + strings.Fields(msg + " ?")[0]
	}
	return "error:" + strings.ReplaceAll(err.Error(), " ", "_")
}

func strRes(v otto.Value, err error) string {
	if err != nil {
		return errTok(err)
	}
	if !v.IsString() {
		return "notstring:" + h.ValTok(v)
	}
	s, _ := v.ToString()
	return h.BytesTok(s)
}

func numRes(v otto.Value, err error) string {
	if err != nil {
		return errTok(err)
	}
	if !v.IsNumber() {
		return "notnumber:" + h.ValTok(v)
	}
	f, _ := v.ToFloat()
	return h.F64Hex(f)
}

func fval(tok string) otto.Value {
	v, err := otto.ToValue(h.HexF64(tok))
	if err != nil {
		panic(err)
	}
	return v
}

func argVal(tok string) otto.Value {
	if tok == "u" {
		return otto.UndefinedValue()
	}
	return fval(tok)
}

func sval(tok string) otto.Value {
	b, err := hex.DecodeString(strings.TrimPrefix(tok, "s:"))
	if err != nil {
		panic(err)
	}
	v, err := otto.ToValue(string(b))
	if err != nil {
		panic(err)
	}
	return v
}

func implC06(line string) string {
	f := strings.Fields(line)
	c := vmPool.Get().(*vmCtx)
	defer vmPool.Put(c)
	u := otto.UndefinedValue()
	switch f[0] {
	case "tostr": // tostr X L
		return strRes(c.fString.Call(u, fval(f[1])))
	case "fixed": // fixed X L A
		return strRes(c.mToFixed.Call(fval(f[1]), argVal(f[3])))
	case "exp": // exp X A
		return strRes(c.mToExponential.Call(fval(f[1]), argVal(f[2])))
	case "prec": // prec X L A
		return strRes(c.mToPrecision.Call(fval(f[1]), argVal(f[3])))
	case "radix": // radix X L A
		return strRes(c.mToString.Call(fval(f[1]), argVal(f[3])))
	case "num": // num S
		return numRes(c.fNumber.Call(u, sval(f[1])))
	case "pint": // pint S A
		return numRes(c.fParseInt.Call(u, sval(f[1]), argVal(f[2])))
	case "pfloat": // pfloat S
		return numRes(c.fParseFloat.Call(u, sval(f[1])))
	case "lit": // lit S
		return litImpl(c, f[1])
	case "litstr": // litstr S : String(<literal>)
		if r := litImpl(c, f[1]); r == "other" || strings.HasPrefix(r, "throw:") || strings.Contains(r, "mismatch") {
			return r
		}
		b, _ := hex.DecodeString(strings.TrimPrefix(f[1], "s:"))
		v, err := c.vm.Run(string(b))
		if err != nil {
			return errTok(err)
		}
		return strRes(c.fString.Call(u, v))
	case "pintstr": // pintstr S A : String(parseInt(s, a))
		v, err := c.fParseInt.Call(u, sval(f[1]), argVal(f[2]))
		if err != nil {
			return errTok(err)
		}
		return strRes(c.fString.Call(u, v))
	case "pintobj": // pintobj SA V S : parseInt(<string argument>, <scripted radix object>)  ->  value|call log
		return pintobjImpl(c, f[1], f[2], f[3])
	case "argobj": // argobj M R V S : Number.prototype.M.call(R, <scripted object>)  ->  result|call log
		return argobjImpl(c, f[1], f[2], f[3], f[4])
	case "nthis": // nthis M K : Number.prototype.M.call(<this of kind K>)
		expr, ok := thisExprs[f[2]]
		if !ok {
			return "bad-op"
		}
		_, err := c.vm.Run("Number.prototype." + f[1] + ".call(" + expr + ")")
		if err != nil {
			return errTok(err)
		}
		return "ok"
	case "istr": // istr I   (an int64-kinded number Value, as produced by integer literals, parseInt, Go ints)
		n, err := strconv.ParseInt(f[1], 10, 64)
		if err != nil {
			panic(err)
		}
		return strRes(c.fString.Call(u, n))
	case "rt": // rt X L
		v, err := c.fString.Call(u, fval(f[1]))
		if err != nil {
			return errTok(err)
		}
		return numRes(c.fNumber.Call(u, v))
	}
	return "bad-op"
}

// litImpl: the program text must parse (public parser package) to exactly one expression statement
// holding one NumberLiteral spanning the whole text; its value is then obtained by running the
// program.  Anything else (syntax error, other program shape) is "other".
func litImpl(c *vmCtx, tok string) string {
	b, err := hex.DecodeString(strings.TrimPrefix(tok, "s:"))
	if err != nil {
		panic(err)
	}
	src := string(b)
	prog, err := parser.ParseFile(nil, "", src, 0)
	if err != nil || len(prog.Body) != 1 {
		return "other"
	}
	es, ok := prog.Body[0].(*ast.ExpressionStatement)
	if !ok {
		return "other"
	}
	nl, ok := es.Expression.(*ast.NumberLiteral)
	if !ok || nl.Literal != src {
		return "other"
	}
	v, err := c.vm.Run(src)
	if err != nil {
		return errTok(err)
	}
	if !v.IsNumber() {
		return "notnumber:" + h.ValTok(v)
	}
	f, _ := v.ToFloat()
	var lf float64
	switch x := nl.Value.(type) {
	case int64:
		lf = float64(x)
	case float64:
		lf = x
	default:
		return "badliteralvalue"
	}
	if h.F64Hex(lf) != h.F64Hex(f) {
		return "ast-vs-run-mismatch:" + h.F64Hex(lf) + ":" + h.F64Hex(f)
	}
	return h.F64Hex(f)
}

// jsNum renders a double as a JavaScript expression with exactly that value.
func jsNum(x float64) string {
	switch {
	case math.IsNaN(x):
		return "NaN"
	case math.IsInf(x, 1):
		return "Infinity"
	case math.IsInf(x, -1):
		return "-Infinity"
	case x == 0 && math.Signbit(x):
		return "-0"
	}
	return "(" + strconv.FormatFloat(x, 'e', -1, 64) + ")"
}

func jsItems(tok string) string {
	var parts []string
	for _, it := range strings.Split(tok, ",") {
		switch it {
		case "o":
			parts = append(parts, "'o'")
		case "T":
			parts = append(parts, "'T'")
		default:
			parts = append(parts, jsNum(h.HexF64(it)))
		}
	}
	return "[" + strings.Join(parts, ",") + "]"
}

// jsStr renders bytes (valid UTF-8) as a JavaScript string literal made of \u escapes only.
func jsStr(b []byte) string {
	var sb strings.Builder
	sb.WriteByte('"')
	for _, u := range utf16.Encode([]rune(string(b))) {
		fmt.Fprintf(&sb, "\\u%04x", u)
	}
	sb.WriteByte('"')
	return sb.String()
}

// pintobjImpl: the string argument is a primitive, an object with a logging toString ('S'), or an object
// whose toString throws; the radix is a scripted object (valueOf 'v', toString 's').
func pintobjImpl(c *vmCtx, sa, vs, ss string) string {
	var arg string
	switch {
	case sa == "T":
		arg = "{ toString: function () { log.push('S'); throw new SyntaxError('x'); } }"
	case strings.HasPrefix(sa, "p:"), strings.HasPrefix(sa, "o:"):
		b, err := hex.DecodeString(sa[2:])
		if err != nil {
			panic(err)
		}
		if sa[0] == 'p' {
			arg = jsStr(b)
		} else {
			arg = "{ toString: function () { log.push('S'); return " + jsStr(b) + "; } }"
		}
	default:
		return "bad-op"
	}
	src := `(function(){ var log = [], vi = 0, si = 0, vs = ` + jsItems(vs) + `, ss = ` + jsItems(ss) + `;
  function pick(a, i) { var x = a[Math.min(i, a.length - 1)]; if (x === 'T') throw new SyntaxError('x'); if (x === 'o') return {}; return x; }
  var o = { valueOf: function () { log.push('v'); return pick(vs, vi++); }, toString: function () { log.push('s'); return pick(ss, si++); } };
  var res;
  try { res = parseInt(` + arg + `, o); } catch (e) { res = 'throw:' + e.name; }
  return [res, log.length ? log.join('') : '-']; })()`
	v, err := c.vm.Run(src)
	if err != nil {
		return errTok(err)
	}
	res, _ := v.Object().Get("0")
	lg, _ := v.Object().Get("1")
	log, _ := lg.ToString()
	if res.IsNumber() {
		x, _ := res.ToFloat()
		return h.F64Hex(x) + "|" + log
	}
	r, _ := res.ToString()
	return r + "|" + log
}

// argobjImpl builds an object whose valueOf / toString log their calls and follow the scripts, calls the
// method through the public API and reports "<result>|<call log>".
func argobjImpl(c *vmCtx, m, recv, vs, ss string) string {
	var r string
	switch {
	case recv == "x":
		r = "'12'"
	case strings.HasPrefix(recv, "p:"):
		r = jsNum(h.HexF64(recv[2:]))
	case strings.HasPrefix(recv, "N:"):
		r = "new Number(" + jsNum(h.HexF64(recv[2:])) + ")"
	default:
		return "bad-op"
	}
	src := `(function(){ var log = [], vi = 0, si = 0, vs = ` + jsItems(vs) + `, ss = ` + jsItems(ss) + `;
  function pick(a, i) { var x = a[Math.min(i, a.length - 1)]; if (x === 'T') throw new SyntaxError('x'); if (x === 'o') return {}; return x; }
  var o = { valueOf: function () { log.push('v'); return pick(vs, vi++); }, toString: function () { log.push('s'); return pick(ss, si++); } };
  var res;
  try { res = 'ok:' + Number.prototype.` + m + `.call(` + r + `, o); } catch (e) { res = 'throw:' + e.name; }
  return res + '|' + (log.length ? log.join('') : '-'); })()`
	v, err := c.vm.Run(src)
	if err != nil {
		return errTok(err)
	}
	out, _ := v.ToString()
	i := strings.LastIndexByte(out, '|')
	res, log := out[:i], out[i:]
	if strings.HasPrefix(res, "ok:") {
		return h.BytesTok(res[3:]) + log
	}
	return res + log
}

var thisExprs = map[string]string{
	"undef": "undefined", "null": "null", "bool": "true", "str": "'12'", "num": "12.5", "obj": "({})", "arr": "[1]",
	"fn": "(function(){})", "date": "new Date(0)", "numObj": "new Number(12.5)", "strObj": "new String('12')",
	"boolObj": "new Boolean(false)", "protoChild": "Object.create(Number.prototype)",
}

func lg(x float64) string { return h.F64Hex(math.Log10(math.Abs(x))) }
