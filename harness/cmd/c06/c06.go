package main

import (
	"encoding/hex"
	"errors"
	"math"
	"strings"
	"sync"

	"github.com/robertkrimen/otto"
	"ottoverif/h"
)

func init() {
	h.Register(&h.Prop{ID: "C06", Gen: genC06, Impl: implC06, Trivial: func(l string) bool { return false }})
}

// ---------------------------------------------------------------- the real code, through the public API

type vmCtx struct {
	vm                                                             *otto.Otto
	fString, fNumber, fParseInt, fParseFloat                        otto.Value
	mToString, mToFixed, mToExponential, mToPrecision               otto.Value
}

var vmPool = sync.Pool{New: func() interface{} {
	vm := otto.New()
	get := func(src string) otto.Value {
		v, err := vm.Run(src)
		if err != nil {
			panic(err)
		}
		return v
	}
	return &vmCtx{vm: vm,
		fString: get("String"), fNumber: get("Number"), fParseInt: get("parseInt"), fParseFloat: get("parseFloat"),
		mToString: get("Number.prototype.toString"), mToFixed: get("Number.prototype.toFixed"),
		mToExponential: get("Number.prototype.toExponential"), mToPrecision: get("Number.prototype.toPrecision")}
}}

func errTok(err error) string {
	var oe *otto.Error
	if errors.As(err, &oe) {
		msg := oe.Error()
		if i := strings.IndexByte(msg, ':'); i > 0 {
			return "throw:" + msg[:i]
		}
		return "throw:" + strings.Fields(msg + " ?")[0]
	}
	return "error:" + strings.ReplaceAll(err.Error(), " ", "_")
}

func strRes(v otto.Value, err error) string {
	if err != nil {
		return errTok(err)
	}
	if !v.IsString() {
		return "notstring:" + h.ValTok(v)
	}
	s, _ := v.ToString()
	return h.BytesTok(s)
}

func numRes(v otto.Value, err error) string {
	if err != nil {
		return errTok(err)
	}
	if !v.IsNumber() {
		return "notnumber:" + h.ValTok(v)
	}
	f, _ := v.ToFloat()
	return h.F64Hex(f)
}

func fval(tok string) otto.Value {
	v, err := otto.ToValue(h.HexF64(tok))
	if err != nil {
		panic(err)
	}
	return v
}

func argVal(tok string) otto.Value {
	if tok == "u" {
		return otto.UndefinedValue()
	}
	return fval(tok)
}

func sval(tok string) otto.Value {
	b, err := hex.DecodeString(strings.TrimPrefix(tok, "s:"))
	if err != nil {
		panic(err)
	}
	v, err := otto.ToValue(string(b))
	if err != nil {
		panic(err)
	}
	return v
}

func implC06(line string) string {
	f := strings.Fields(line)
	c := vmPool.Get().(*vmCtx)
	defer vmPool.Put(c)
	u := otto.UndefinedValue()
	switch f[0] {
	case "tostr": // tostr X L
		return strRes(c.fString.Call(u, fval(f[1])))
	case "fixed": // fixed X L A
		return strRes(c.mToFixed.Call(fval(f[1]), argVal(f[3])))
	case "exp": // exp X A
		return strRes(c.mToExponential.Call(fval(f[1]), argVal(f[2])))
	case "prec": // prec X L A
		return strRes(c.mToPrecision.Call(fval(f[1]), argVal(f[3])))
	case "radix": // radix X L A
		return strRes(c.mToString.Call(fval(f[1]), argVal(f[3])))
	case "num": // num S
		return numRes(c.fNumber.Call(u, sval(f[1])))
	case "pint": // pint S A
		return numRes(c.fParseInt.Call(u, sval(f[1]), argVal(f[2])))
	case "pfloat": // pfloat S
		return numRes(c.fParseFloat.Call(u, sval(f[1])))
	}
	return "bad-op"
}

func lg(x float64) string { return h.F64Hex(math.Log10(math.Abs(x))) }
