// Command c06 is the correspondence harness binary for property C06.
package main

import "ottoverif/h"

func main() { h.Main("C06") }
