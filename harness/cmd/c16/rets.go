package main

// op `rets`: histories of calls of bridged Go functions with 0, 1, 2 and 3 results (also (T, error)), called
// repeatedly, re-entrantly from a callback and from a Copy() of the runtime. Every result the script has kept
// is observed again after each later step, through the script and through Export.

import (
	"errors"
	"fmt"
	"reflect"
	"strconv"
	"strings"

	"github.com/robertkrimen/otto"
)

const retsJS = `
var R = [];
function show() {
  return R.map(function(r) {
    if (r === undefined) return "u";
    if (typeof r === "number") return String(r);
    return "[" + Array.prototype.map.call(r, function(x){ return x === undefined ? "u" : (typeof x === "number" ? String(x) : "E"); }).join(",") + "]";
  }).join(";");
}`

func retsInstall(vm *otto.Otto) {
	vm.Set("f0", func() {})
	vm.Set("f1", func(x int) int { return x + 1 })
	vm.Set("f2", func(a, b int) (int, int) { return a / b, a % b })
	vm.Set("f3", func(a, b int) (int, int, int) { return a, b, a + b })
	vm.Set("fe", func(x int) (int, error) {
		if x%2 == 0 {
			return x / 2, nil
		}
		return 0, errors.New("odd")
	})
	vm.Set("twice", func(cb func(int) int) (int, int) { return cb(1), cb(2) })
}

func retsExport(v interface{}) string {
	switch x := v.(type) {
	case nil:
		return "u"
	case error:
		return "E"
	case otto.Value: // the result list holds the converted results as Values
		if x.IsUndefined() {
			return "u"
		}
		e, _ := x.Export()
		return retsExport(e)
	}
	rv := reflect.ValueOf(v)
	switch rv.Kind() {
	case reflect.Slice: // Export types a list of equally typed elements ([][]interface{}, []int64, ...)
		parts := make([]string, rv.Len())
		for i := range parts {
			parts[i] = retsExport(rv.Index(i).Interface())
		}
		return "[" + strings.Join(parts, ",") + "]"
	case reflect.Int, reflect.Int64, reflect.Float64:
		return fmt.Sprint(v)
	}
	return fmt.Sprintf("?%T", v)
}

func implRets(f []string) string {
	vm := otto.New()
	retsInstall(vm)
	if _, tok := runJS(vm, retsJS); tok != "" {
		return "setup:" + tok
	}
	var out []string
	for _, st := range strings.Split(f[1], ";") {
		a := strings.Split(st, ".")
		var src string
		switch a[0] {
		case "c":
			src = "R.push(" + a[1] + "(" + strings.Join(a[2:], ",") + ")); 0"
		case "t":
			src = "R.push(twice(function(x){ var t = f2(x + " + a[1] + ", 3); R.push(t); return t[0]; })); 0"
		case "k":
			// the same Go function, called in a copy of the runtime; its results stay there
			cp := vm.Copy()
			if _, tok := runJS(cp, "var K = "+a[1]+"("+strings.Join(a[2:], ",")+"); 0"); tok != "" {
				return strings.Join(append(out, "copy:"+tok), "#")
			}
			src = "0"
		case "w":
			if _, err := strconv.Atoi(a[1]); err != nil {
				return "bad-op"
			}
			src = "if (R[" + a[1] + "] !== undefined && typeof R[" + a[1] + "] !== 'number' && " + a[2] + " < R[" + a[1] + "].length) R[" + a[1] + "][" + a[2] + "] = " + a[3] + "; 0"
		default:
			return "bad-op"
		}
		if _, tok := runJS(vm, src); tok != "" {
			return strings.Join(append(out, tok), "#")
		}
		v, tok := runJS(vm, "show()")
		if tok != "" {
			return strings.Join(append(out, tok), "#")
		}
		rv, err := vm.Get("R")
		if err != nil {
			return strings.Join(append(out, "get-error"), "#")
		}
		ex, _ := rv.Export()
		var parts []string
		if l := reflect.ValueOf(ex); l.IsValid() && l.Kind() == reflect.Slice {
			for i := 0; i < l.Len(); i++ {
				parts = append(parts, retsExport(l.Index(i).Interface()))
			}
		} else {
			parts = append(parts, retsExport(ex))
		}
		out = append(out, v.String()+"|"+strings.Join(parts, ";"))
	}
	return strings.Join(out, "#")
}
