package main

// C16 — bridged Go functions, structs, maps and slices convert exactly or fail loudly.
//
// Every request is evaluated on the REAL code through the public API only: a Go function of the
// requested signature is built with reflect.MakeFunc, installed with Otto.Set, and called from a
// script; the callee records exactly what it received.

import (
	"encoding/hex"
	"fmt"
	"math"
	"os"
	"reflect"
	"sort"
	"strconv"
	"strings"
	"sync"

	"github.com/robertkrimen/otto"
	"ottoverif/h"
)

func init() {
	h.Register(&h.Prop{ID: "C16", Gen: genC16, Impl: implC16, Trivial: func(l string) bool { return false }})
}

type namedF32 float32

var vmPool = sync.Pool{New: func() interface{} { return otto.New() }}

// ---------------------------------------------------------------- numeric kinds

var intKinds = []string{"i8", "i16", "i32", "i64", "int", "u8", "u16", "u32", "u64", "uint"}
var numTypes = append(append([]string{}, intKinds...), "f32", "f64")

var kindType = map[string]reflect.Type{
	"i8": reflect.TypeOf(int8(0)), "i16": reflect.TypeOf(int16(0)), "i32": reflect.TypeOf(int32(0)), "i64": reflect.TypeOf(int64(0)), "int": reflect.TypeOf(int(0)),
	"u8": reflect.TypeOf(uint8(0)), "u16": reflect.TypeOf(uint16(0)), "u32": reflect.TypeOf(uint32(0)), "u64": reflect.TypeOf(uint64(0)), "uint": reflect.TypeOf(uint(0)),
	"f32": reflect.TypeOf(float32(0)), "f64": reflect.TypeOf(float64(0)),
	"str": reflect.TypeOf(""), "bool": reflect.TypeOf(false), "any": reflect.TypeOf((*interface{})(nil)).Elem(),
}

var kindName = map[reflect.Kind]string{
	reflect.Int8: "i8", reflect.Int16: "i16", reflect.Int32: "i32", reflect.Int64: "i64", reflect.Int: "int",
	reflect.Uint8: "u8", reflect.Uint16: "u16", reflect.Uint32: "u32", reflect.Uint64: "u64", reflect.Uint: "uint",
}

// numGo turns a number token (i8:5, u64:7, f:hex, f32:hex) into the Go value a JS number carries.
func numGo(t string) interface{} {
	i := strings.IndexByte(t, ':')
	k, p := t[:i], t[i+1:]
	switch k {
	case "f", "f64":
		return h.HexF64(p)
	case "f32":
		// a plain float32 is widened to float64 by toValue (value.go:296); only a NAMED float32 type reaches
		// the reflect path (value.go:353) that keeps a float32 payload inside the Value
		return namedF32(h.HexF64(p))
	case "u64", "uint", "u8", "u16", "u32":
		n, err := strconv.ParseUint(p, 10, 64)
		if err != nil {
			panic(err)
		}
		return reflect.ValueOf(n).Convert(kindType[k]).Interface()
	}
	n, err := strconv.ParseInt(p, 10, 64)
	if err != nil {
		panic(err)
	}
	return reflect.ValueOf(n).Convert(kindType[k]).Interface()
}

// render prints a Go value canonically (never uses addresses or map order).
func render(v reflect.Value) string {
	if !v.IsValid() {
		return "invalid"
	}
	switch v.Kind() {
	case reflect.Bool:
		if v.Bool() {
			return "b:1"
		}
		return "b:0"
	case reflect.Int, reflect.Int8, reflect.Int16, reflect.Int32, reflect.Int64:
		return kindName[v.Kind()] + ":" + strconv.FormatInt(v.Int(), 10)
	case reflect.Uint, reflect.Uint8, reflect.Uint16, reflect.Uint32, reflect.Uint64:
		return kindName[v.Kind()] + ":" + strconv.FormatUint(v.Uint(), 10)
	case reflect.Float32:
		return "f32:" + h.F64Hex(v.Float())
	case reflect.Float64:
		return "f64:" + h.F64Hex(v.Float())
	case reflect.String:
		return "s:" + hex.EncodeToString([]byte(v.String()))
	case reflect.Interface:
		if v.IsNil() {
			return "nil"
		}
		return "any(" + render(v.Elem()) + ")"
	case reflect.Ptr:
		if v.IsNil() {
			return "P.nil"
		}
		return "P(" + render(v.Elem()) + ")"
	case reflect.Slice, reflect.Array:
		parts := make([]string, v.Len())
		for i := range parts {
			parts[i] = render(v.Index(i))
		}
		return "S[" + strings.Join(parts, ",") + "]"
	case reflect.Map:
		var parts []string // nil and empty maps/slices are not distinguished
		for _, k := range v.MapKeys() {
			parts = append(parts, render(k)+"="+render(v.MapIndex(k)))
		}
		sort.Strings(parts)
		return "M{" + strings.Join(parts, ",") + "}"
	case reflect.Struct:
		parts := make([]string, v.NumField())
		for i := range parts {
			parts[i] = render(v.Field(i))
		}
		return "T{" + strings.Join(parts, ",") + "}"
	case reflect.Func:
		if v.IsNil() {
			return "F.nil"
		}
		return "F"
	}
	return "other:" + v.Kind().String()
}

// errTok maps the error of vm.Run to the small enum.
func errTok(err error) string {
	s := err.Error()
	for _, n := range []string{"RangeError", "TypeError", "ReferenceError", "SyntaxError"} {
		if strings.HasPrefix(s, n) {
			return "throw:" + n
		}
	}
	return "throw:other"
}

// runJS runs src; a Go panic escaping vm.Run is mapped to "gopanic".
func runJS(vm *otto.Otto, src string) (val otto.Value, tok string) {
	defer func() {
		if r := recover(); r != nil {
			tok = "gopanic"
		}
	}()
	v, err := vm.Run(src)
	if err != nil {
		return v, errTok(err)
	}
	return v, ""
}

// ---------------------------------------------------------------- op: num

func implNum(f []string) string {
	t, ok := kindType[f[1]]
	if !ok {
		return "bad-op"
	}
	vm := vmPool.Get().(*otto.Otto)
	defer vmPool.Put(vm)
	got := "not-called"
	fn := reflect.MakeFunc(reflect.FuncOf([]reflect.Type{t}, nil, false), func(args []reflect.Value) []reflect.Value {
		got = "ok:" + render(args[0])
		return nil
	})
	vm.Set("f", fn.Interface())
	vm.Set("n0", numGo(f[2]))
	if _, tok := runJS(vm, "f(n0)"); tok != "" {
		return tok
	}
	return got
}

func implC16(line string) string {
	f := strings.Fields(line)
	switch f[0] {
	case "num":
		return implNum(f)
	case "call":
		return implCall(f)
	case "ret":
		return implRet(f)
	case "store":
		return implStore(f)
	case "slice":
		return implSlice(f)
	case "map":
		return implMap(f)
	case "struct":
		return implStruct(f)
	case "field":
		return implField(f)
	case "view":
		return implView(f)
	case "recs":
		return implRecs(f)
	case "cb":
		return implCb(f)
	case "zoo":
		return implZoo(f)
	case "rets":
		return implRets(f)
	}
	return "bad-op"
}

// ---------------------------------------------------------------- generators

func numBoundary(r *h.Rng) []string {
	var vs []string
	seen := map[string]bool{}
	add := func(s string) {
		if !seen[s] {
			seen[s] = true
			vs = append(vs, s)
		}
	}
	type rng struct {
		k      string
		lo, hi int64
	}
	for _, it := range []rng{{"i8", math.MinInt8, math.MaxInt8}, {"i16", math.MinInt16, math.MaxInt16}, {"i32", math.MinInt32, math.MaxInt32}, {"i64", math.MinInt64, math.MaxInt64}, {"int", math.MinInt64, math.MaxInt64}} {
		for _, n := range []int64{it.lo, it.lo + 1, -129, -128, -1, 0, 1, 127, 128, 255, 256, 32767, 32768, 65535, 65536, 16777216, 16777217, -16777217, 2147483647, 2147483648, 4294967295, 4294967296,
			9007199254740992, 9007199254740993, -9007199254740993, 9007199254740994, it.hi - 1, it.hi} {
			if n >= it.lo && n <= it.hi {
				add(fmt.Sprintf("%s:%d", it.k, n))
			}
		}
	}
	type urng struct {
		k  string
		hi uint64
	}
	for _, it := range []urng{{"u8", math.MaxUint8}, {"u16", math.MaxUint16}, {"u32", math.MaxUint32}, {"u64", math.MaxUint64}, {"uint", math.MaxUint64}} {
		for _, n := range []uint64{0, 1, 127, 128, 255, 256, 32767, 32768, 65535, 65536, 16777217, 2147483647, 2147483648, 4294967295, 4294967296, 9007199254740993,
			9223372036854775807, 9223372036854775808, 9223372036854775809, it.hi / 2, it.hi/2 + 1, it.hi - 1, it.hi} {
			if n <= it.hi {
				add(fmt.Sprintf("%s:%d", it.k, n))
			}
		}
	}
	fl := h.BoundaryDoubles()
	for _, k := range []int{7, 8, 15, 16, 24, 31, 32, 53, 63, 64, 127, 128, -126, -149, -150} {
		p := math.Ldexp(1, k)
		fl = append(fl, p, -p, p-1, -(p - 1), p+1, -(p + 1), -p-1, p-0.5, -p-0.5, -p+0.5, math.Nextafter(p, 0), math.Nextafter(p, math.Inf(1)), -math.Nextafter(p, math.Inf(1)))
	}
	fl = append(fl, math.MaxFloat32, -math.MaxFloat32, math.Nextafter(math.MaxFloat32, math.Inf(1)), math.MaxFloat32+math.Ldexp(1, 102), math.MaxFloat32+math.Ldexp(1, 103), 3.5e38, 1e39,
		math.SmallestNonzeroFloat32, math.SmallestNonzeroFloat32/2, math.SmallestNonzeroFloat32*1.5, 0.1, 0.25, 16777217, 1e19, 18446744073709549568, 9223372036854774784, -9223372036854777856, 1e-50)
	for _, f := range fl {
		add("f:" + h.F64Hex(f))
		add("f32:" + h.F64Hex(float64(float32(f))))
	}
	return vs
}

func randNum(r *h.Rng, bd []float64) string {
	switch r.Intn(4) {
	case 0:
		k := intKinds[r.Intn(len(intKinds))]
		bits := uint(reflect.Zero(kindType[k]).Type().Bits())
		if k[0] == 'u' {
			return fmt.Sprintf("%s:%d", k, (r.U64()>>uint(r.Intn(64)))&(^uint64(0)>>(64-bits)))
		}
		return fmt.Sprintf("%s:%d", k, int64(r.U64())>>(64-bits)>>uint(r.Intn(int(bits))))
	case 1:
		return "f32:" + h.F64Hex(float64(float32(h.RandomDouble(r, bd))))
	default:
		return "f:" + h.F64Hex(h.RandomDouble(r, bd))
	}
}

func genC16(c *h.Ctx) {
	defer func() {
		if p := os.Getenv("C16_DUMP"); p != "" { // debugging aid: dump the request stream in replay format
			var b strings.Builder
			for _, l := range c.Lines {
				b.WriteString("request: " + l + "\n")
			}
			os.WriteFile(p, []byte(b.String()), 0o644)
		}
	}()
	// h.NewRng(seed) streams for neighbouring seeds are shifted copies of one another; fork to decorrelate
	rng := c.Rng.Fork()
	bd := h.BoundaryDoubles()
	nums := numBoundary(rng)
	for _, t := range numTypes {
		for _, n := range nums {
			c.Add("num "+t+" "+n, "num:"+t)
		}
	}
	for i := 0; i < c.N(8000, 400000); i++ {
		c.Add("num "+numTypes[rng.Intn(len(numTypes))]+" "+randNum(c.Rng, bd), "num:random")
	}
	g := &gen{r: rng, bd: bd, nums: nums}
	// store path: every scalar target x boundary numbers and a few non-numbers
	others := []string{"u", "n", "b:0", "b:1", "s:", "s:3132", "s:312e35", "s:616263", "s:30783130", "s:31653330", "s:2d31", "s:20372020"}
	for _, t := range append(append([]string{}, numTypes...), "bool", "str", "any") {
		for _, n := range nums {
			if t == "str" && !strOK(n) {
				continue
			}
			c.Add("store "+t+" "+n, "store:"+t)
		}
		for _, o := range others {
			c.Add("store "+t+" "+o, "store:nonnumber")
		}
	}
	for i := 0; i < c.N(3000, 150000); i++ {
		t := numTypes[rng.Intn(len(numTypes))]
		c.Add("store "+t+" "+randNum(c.Rng, bd), "store:random")
	}
	// arity: every count 0..4 against fixed and variadic signatures
	for k := 0; k <= 3; k++ {
		for m := 0; m <= 5; m++ {
			for _, fv := range []string{"F", "V"} {
				if fv == "V" && k == 0 {
					continue
				}
				ts := strings.Repeat(" int", k)
				as := ""
				for j := 0; j < m; j++ {
					as += fmt.Sprintf(" i64:%d", j+1)
				}
				c.Add(fmt.Sprintf("call %s %d%s%s", fv, k, ts, as), "call:arity")
			}
		}
	}
	for k := 0; k <= 4; k++ {
		c.Add(fmt.Sprintf("ret %d", k), "ret")
	}
	for name := range zooTable {
		c.Add("zoo "+name, "zoo")
	}
	for _, k := range []string{"ret", "range", "type", "num", "str", "obj", "retstr", "retfrac", "uncaught"} {
		c.Add("cb "+k, "cb")
	}
	// structured calls
	for i := 0; i < c.N(14000, 500000); i++ {
		k := 1 + rng.Intn(3)
		if rng.Chance(60) {
			k = 1
		}
		variadic := rng.Chance(30)
		var ts, as []string
		for j := 0; j < k; j++ {
			ts = append(ts, g.typ(2))
		}
		m := k
		if variadic {
			m = k - 1 + rng.Intn(4)
		} else if rng.Chance(4) {
			m = rng.Intn(k + 2)
		}
		for j := 0; j < m; j++ {
			tj := ts[len(ts)-1]
			if j < k {
				tj = ts[j]
			}
			if variadic && j == k-1 && m == k && rng.Chance(50) {
				tj = "S(" + tj + ")" // the "last argument is itself the slice" rule
			}
			as = append(as, g.val(tj, 2))
		}
		fv := "F"
		if variadic {
			fv = "V"
		}
		key := "call:fixed"
		if variadic {
			key = "call:variadic"
		}
		c.Add(fmt.Sprintf("call %s %d %s %s", fv, k, strings.Join(ts, " "), strings.Join(as, " ")), key)
	}
	// struct field lookup
	for i := 0; i < c.N(3000, 60000); i++ {
		st := g.structType(2)
		c.Add("field "+st+" "+g.fieldKey(st), "field")
	}
	// container histories
	for i := 0; i < c.N(4000, 120000); i++ {
		c.Add(g.sliceHistory(), "hist:slice")
	}
	for i := 0; i < c.N(3000, 80000); i++ {
		c.Add(g.mapHistory(), "hist:map")
	}
	for i := 0; i < c.N(3000, 80000); i++ {
		c.Add(g.structHistory(), "hist:struct")
	}
	// histories of calls: every earlier result is observed again after each later call
	for i := 0; i < c.N(1500, 30000); i++ {
		c.Add(g.retsRequest(), "rets")
	}
	// distinct struct types that print the same, in one process and one or several runtimes
	for i := 0; i < c.N(1500, 30000); i++ {
		c.Add(g.recsRequest(), "recs")
	}
	// observers of bridged containers and bridged values in argument positions of built-ins
	for i := 0; i < c.N(4000, 60000); i++ {
		c.Add(g.viewRequest(), "view")
	}
}
