package main

// op `zoo`: fixed scenarios around bridged values of DEFINED Go types, structs by value, embedded pointers,
// slice fields of bridged structs, non-string map keys and mutating Array methods on bridged slices.
// Every scenario builds fresh Go values, runs one script through the public API and prints what the script
// saw followed by what Go sees.

import (
	"fmt"
	"reflect"

	"github.com/robertkrimen/otto"
)

type ZIn struct {
	A string
	B int
}
type zT struct {
	C int
	S []int
}
type zP struct{ *ZIn }
type zSh struct {
	ZIn
	A string
}
type zun struct{ U int }
type zE struct {
	zun
	Skip int `json:"-"`
	*ZIn
}
type zOut struct {
	ZIn
	Y int
}
type zTag struct {
	Label     string `json:"label,omitempty"`
	Num       int    `json:"num,string"`
	Multi     int    `json:"multi,omitempty,string"`
	NoName    int    `json:",omitempty"`
	Dash      int    `json:"-"`
	DashComma int    `json:"-,"`
}
type zUni struct {
	Ärger int
	A     int
}
type zOther struct{ C int }
type zMyInt int64
type zMyU8 uint8
type zMyStr string
type zMyBool bool
type zMyF float64
type zK int
type zSK string

type zooCase struct {
	setup  func(vm *otto.Otto) func() string // installs values, returns the Go-side dump
	script string
}

func zooCases() map[string]zooCase {
	str := func(x interface{}) string { return fmt.Sprintf("%+v", x) }
	none := func() string { return "" }
	m := map[string]zooCase{
		"byval_struct_write": {func(vm *otto.Otto) func() string { vm.Set("v", zT{C: 1}); return none }, `v.C = 3; "" + v.C`},
		"byval_struct_read":  {func(vm *otto.Otto) func() string { vm.Set("v", zT{C: 1}); return none }, `"" + v.C`},
		"nilptr_embedded_read": {func(vm *otto.Otto) func() string {
			p := &zP{}
			vm.Set("p", p)
			return func() string { return str(p.ZIn == nil) }
		},
			`String(p.A) + "," + ("A" in p)`},
		"nilptr_embedded_write": {func(vm *otto.Otto) func() string {
			p := &zP{}
			vm.Set("p", p)
			return func() string { return str(p.ZIn == nil) }
		},
			`p.A = "z"; String(p.A)`},
		"defined_int": {func(vm *otto.Otto) func() string {
			vm.Set("f", func(x zMyInt) string { return fmt.Sprintf("%T:%v", x, x) })
			return none
		}, `f(5)`},
		"defined_int_from_float": {func(vm *otto.Otto) func() string {
			vm.Set("f", func(x zMyInt) string { return fmt.Sprintf("%T:%v", x, x) })
			return none
		}, `f(2.5*2)`},
		"defined_u8_overflow": {func(vm *otto.Otto) func() string {
			vm.Set("f", func(x zMyU8) string { return fmt.Sprintf("%T:%v", x, x) })
			return none
		}, `f(300)`},
		"defined_string": {func(vm *otto.Otto) func() string {
			vm.Set("f", func(x zMyStr) string { return fmt.Sprintf("%T:%v", x, x) })
			return none
		}, `f("a") + f(7)`},
		"defined_bool": {func(vm *otto.Otto) func() string {
			vm.Set("f", func(x zMyBool) string { return fmt.Sprintf("%T:%v", x, x) })
			return none
		}, `f(true) + f(0)`},
		"defined_float": {func(vm *otto.Otto) func() string {
			vm.Set("f", func(x zMyF) string { return fmt.Sprintf("%T:%v", x, x) })
			return none
		}, `f(1.5) + f(2)`},
		"defined_slice_elem": {func(vm *otto.Otto) func() string {
			vm.Set("f", func(x []zMyInt) string { return fmt.Sprintf("%T:%v", x, x) })
			return none
		}, `f([1, 2])`},
		"defined_key_read": {func(vm *otto.Otto) func() string { vm.Set("m", map[zK]string{1: "a", 16: "p"}); return none }, `m[1] + m[16] + String(m[2]) + (1 in m) + Object.keys(m).sort().join()`},
		"defined_key_write": {func(vm *otto.Otto) func() string {
			mm := map[zK]string{1: "a"}
			vm.Set("m", mm)
			return func() string { return str(mm) }
		}, `m[2] = "b"; delete m[1]; m[2] + String(m[1])`},
		"defined_key_param": {func(vm *otto.Otto) func() string {
			vm.Set("f", func(x map[zSK]int) string { return fmt.Sprintf("%T:%v", x, x) })
			return none
		}, `f({a: 1})`},
		"ptr_to_value_param": {func(vm *otto.Otto) func() string {
			vm.Set("t", &zT{C: 1, S: []int{1, 2, 3}})
			vm.Set("f", func(x zT) string { return str(x) })
			return none
		}, `f(t)`},
	}
	field := func(script string) zooCase {
		return zooCase{func(vm *otto.Otto) func() string {
			t := &zT{C: 1, S: []int{1, 2, 3}}
			vm.Set("t", t)
			return func() string { return str(t.S) }
		}, script}
	}
	m["slice_field_push"] = field(`t.S.push(4); t.S.length + ":" + t.S.join()`)
	m["slice_field_setlen"] = field(`t.S.length = 5; t.S.length + ":" + t.S.join()`)
	m["slice_field_shrink"] = field(`t.S.length = 1; t.S.length + ":" + t.S.join()`)
	m["slice_field_regrow"] = field(`t.S.length = 1; t.S.length = 3; t.S.join()`)
	m["slice_field_write"] = field(`t.S[1] = 9; t.S.join()`)
	m["shadowed_field"] = zooCase{func(vm *otto.Otto) func() string {
		s := &zSh{ZIn: ZIn{A: "inner"}, A: "outer"}
		vm.Set("s", s)
		return func() string { return s.A + "," + s.ZIn.A }
	}, `var r = s.A; s.A = "z"; r + "," + s.A`}
	emb := func(script string) zooCase {
		return zooCase{func(vm *otto.Otto) func() string {
			e := &zE{ZIn: &ZIn{A: "ia"}}
			vm.Set("e", e)
			return func() string { return fmt.Sprintf("%d,%d,%s", e.U, e.Skip, e.ZIn.A) }
		}, script}
	}
	m["promoted_ptr_read"] = emb(`e.A + "," + e.U + "," + e.Skip`)
	m["promoted_ptr_write"] = emb(`e.A = "q"; e.A`)
	m["unexported_embedded_write"] = emb(`e.U = 5; "" + e.U`)
	m["dash_field_write"] = emb(`e.Skip = 4; "" + e.Skip`)
	m["keys_after_dropped_writes"] = emb(`e.A = "q"; e.U = 5; e.Skip = 4; Object.keys(e).sort().join()`)
	m["struct_keys"] = emb(`Object.keys(e).sort().join()`)
	intmap := func(script string) zooCase {
		return zooCase{func(vm *otto.Otto) func() string {
			mi := map[int]int{16: 1, 0: 5}
			vm.Set("m", mi)
			return func() string { return str(mi) }
		}, script}
	}
	m["int_key_plain"] = intmap(`m[16] + "," + m["16"] + "," + m[0] + "," + String(m[3]) + "," + (16 in m) + "," + Object.keys(m).sort().join()`)
	m["int_key_alias_hex"] = intmap(`String(m["0x10"]) + "," + ("0x10" in m)`)
	m["int_key_alias_underscore"] = intmap(`String(m["1_6"])`)
	m["int_key_alias_plus"] = intmap(`String(m["+16"]) + "," + String(m["016"])`)
	m["int_key_alias_negzero"] = intmap(`String(m["-0"])`)
	m["int_key_write"] = intmap(`m[7] = 2; m["16"] = 3; m[7] + "," + m[16]`)
	m["int_key_assign_unconvertible"] = intmap(`m["x"] = 1`)
	m["int_key_delete_unconvertible"] = intmap(`String(delete m.x)`)
	m["int_key_delete"] = intmap(`(delete m[16]) + "," + String(m[16]) + "," + (delete m[99])`)
	m["bool_key"] = zooCase{func(vm *otto.Otto) func() string { vm.Set("m", map[bool]int{true: 1}); return none },
		`m["true"] + "," + m[true] + "," + String(m["false"]) + "," + Object.keys(m).join()`}
	m["bool_key_alias"] = zooCase{func(vm *otto.Otto) func() string { vm.Set("m", map[bool]int{true: 1}); return none },
		`String(m["1"]) + "," + String(m["t"]) + "," + String(m["TRUE"])`}
	slice := func(script string) zooCase {
		return zooCase{func(vm *otto.Otto) func() string {
			s := []int{1, 2, 3}
			vm.Set("s", s)
			return func() string { return str(s) }
		}, script}
	}
	m["slice_unshift"] = slice(`s.unshift(8, 9) + ":" + s.join()`)
	m["slice_splice_insert"] = slice(`s.splice(1, 0, 7, 7).join() + ":" + s.join()`)
	m["slice_mutators"] = slice(`var a = [1, 2, 3], r = [];
		function both(f) { var x, y; try { x = String(f(s)); } catch (e) { x = "throw:" + e.name; } try { y = String(f(a)); } catch (e) { y = "throw:" + e.name; } r.push(x === y && s.join() === a.join() ? "ok" : x + "/" + s.join() + "!=" + y + "/" + a.join()); }
		both(function(o){ return o.push(4, 5); });
		both(function(o){ return o.pop(); });
		both(function(o){ return o.shift(); });
		both(function(o){ return o.reverse().join(); });
		both(function(o){ return o.sort(function(p, q){ return p - q; }).join(); });
		both(function(o){ return o.splice(1, 1).join(); });
		both(function(o){ o.length = 2; return o.length; });
		both(function(o){ o[2] = 6; return o.length; });
		r.join()`)
	strmap := func(script string) zooCase {
		return zooCase{func(vm *otto.Otto) func() string {
			sm := map[string]int{"a": 1, "b": 2, "c": 3, "d": 4, "e": 5, "f": 6}
			vm.Set("m", sm)
			return func() string { return fmt.Sprint(len(sm)) }
		}, script}
	}
	m["map_forin_delete_during"] = strmap(`var seen = 0; for (var k in m) { seen++; delete m.a; delete m.b; delete m.c; delete m.d; delete m.e; delete m.f; } "" + seen`)
	m["map_enumeration_order"] = strmap(`var first = Object.keys(m).join(), same = true; for (var i = 0; i < 30; i++) { if (Object.keys(m).join() !== first) same = false; } same ? "stable" : "unstable"`)
	m["slice_forin_shrink_during"] = slice(`var seen = []; for (var i in s) { seen.push(i); s.length = 1; } seen.join()`)
	m["struct_promoted_enumeration"] = zooCase{func(vm *otto.Otto) func() string { vm.Set("st", &zOut{ZIn: ZIn{A: "x", B: 2}, Y: 3}); return none },
		`("A" in st) + "," + st.A + "," + st.hasOwnProperty("B") + "|" + Object.keys(st).sort().join() + "|" + Object.getOwnPropertyNames(st).sort().join()`}
	m["nested_container_identity"] = zooCase{func(vm *otto.Otto) func() string {
		vm.Set("mm", map[string]interface{}{"a": []interface{}{1}, "p": &zT{C: 1}})
		return none
	}, `(mm.a === mm.a) + "," + (mm.p === mm.p) + "," + (mm === mm)`}
	m["setlength_thrown_value"] = slice(`try { s.length = {valueOf: function(){ throw 42; }}; "no-throw" } catch (e) { typeof e + ":" + e }`)
	// behaviour defined by the bridged-container repair campaign (errors instead of Go panics)
	catching := func(body string) string {
		return `(function(){ try { ` + body + ` } catch (e) { return "caught:" + e.name; } })()`
	}
	m["setlength_huge"] = slice(catching(`s.length = 1e100; return "len:" + s.length;`))
	m["setlength_2p32"] = slice(catching(`s.length = 4294967296; return "len:" + s.length;`))
	m["setlength_fraction"] = slice(catching(`s.length = 1.5; return "len:" + s.length;`))
	m["setlength_nan"] = slice(catching(`s.length = NaN; return "len:" + s.length;`))
	m["setlength_string"] = slice(catching(`s.length = "2"; var a = s.length; s.length = "x"; return "len:" + a + "," + s.length;`))
	m["setlength_negative"] = slice(catching(`s.length = -1; return "len:" + s.length;`))
	m["define_accessor_on_slice"] = slice(catching(`Object.defineProperty(s, "0", {get: function(){ return 7; }}); return "v:" + s[0];`))
	m["define_value_on_slice"] = slice(catching(`Object.defineProperty(s, "0", {value: 7, writable: true, enumerable: true, configurable: true}); return "v:" + s[0];`))
	nested := func(script string) zooCase {
		return zooCase{func(vm *otto.Otto) func() string {
			ss := []zT{{C: 1}}
			nn := [][]int{{1}}
			pp := []*zT{{C: 1}}
			aa := [][2]int{{1, 2}}
			ii := []interface{}{1}
			var fn func()
			vm.Set("ss", ss)
			vm.Set("nn", nn)
			vm.Set("pp", pp)
			vm.Set("aa", aa)
			vm.Set("ii", ii)
			vm.Set("fn", fn)
			vm.Set("pt", &zT{C: 9})
			return func() string {
				return fmt.Sprintf("%v|%v|%v|%v|%T:%v", ss, nn, pp[0] == nil, aa, ii[0], ii[0])
			}
		}, script}
	}
	m["store_number_into_struct_elem"] = nested(catching(`ss[0] = 1; return "stored";`))
	m["store_number_into_slice_elem"] = nested(catching(`nn[0] = 1; return "stored";`))
	m["store_array_into_slice_elem"] = nested(catching(`nn[0] = [4, 5]; return "stored:" + nn[0].join();`))
	m["store_number_into_pointer_elem"] = nested(catching(`pp[0] = 1; return "stored";`))
	m["store_null_into_pointer_elem"] = nested(catching(`pp[0] = null; return "stored:" + String(pp[0]);`))
	m["store_bridged_pointer_into_pointer_elem"] = nested(catching(`pp[0] = pt; return "stored:" + pp[0].C;`))
	m["store_long_array_into_array_elem"] = nested(catching(`aa[0] = [7, 8, 9]; return "stored:" + aa[0].join();`))
	m["store_utf16_string_into_interface_elem"] = nested(catching(`ii[0] = String.fromCharCode(65); return "stored:" + ii[0];`))
	m["nil_func_reads_undefined"] = nested(`typeof fn + "," + String(fn)`)
	elems := func(script string) zooCase {
		return zooCase{func(vm *otto.Otto) func() string {
			aa := &[2][2]int{{1, 2}, {3, 4}}
			sa := [][2]int{{1, 2}}
			ss := []zT{{C: 1}}
			vm.Set("aa", aa)
			vm.Set("sa", sa)
			vm.Set("ss", ss)
			return func() string { return fmt.Sprintf("%v|%v|%v", *aa, sa, ss) }
		}, script}
	}
	m["nested_array_elem_write"] = elems(catching(`aa[0][1] = 9; return "v:" + aa[0][1];`))
	m["slice_of_array_elem_write"] = elems(catching(`sa[0][1] = 9; return "v:" + sa[0][1];`))
	m["slice_of_struct_field_write"] = elems(catching(`ss[0].C = 5; return "v:" + ss[0].C;`))
	m["nested_array_elem_read"] = elems(`aa[1][0] + "," + sa[0][1] + "," + ss[0].C`)
	tagged := func(script string) zooCase {
		return zooCase{func(vm *otto.Otto) func() string {
			t := &zTag{Label: "l", Num: 1, Multi: 2, NoName: 3, Dash: 4, DashComma: 5}
			vm.Set("t", t)
			vm.Set("f", func(x zTag) string { return fmt.Sprintf("%+v", x) })
			return func() string { return fmt.Sprintf("%+v", *t) }
		}, script}
	}
	m["tagopt_read_by_tag"] = tagged(`[t.label, t.num, t.multi, t["-"]].map(String).join()`)
	m["tagopt_read_by_name"] = tagged(`[t.Label, t.Num, t.Multi, t.NoName, t.Dash, t.DashComma].map(String).join()`)
	m["tagopt_in"] = tagged(`["label", "num", "multi", "Label", "NoName", "Dash", "DashComma", "-", "omitempty"].map(function(k){ return (k in t) ? 1 : 0; }).join("")`)
	m["tagopt_write_by_tag"] = tagged(`t.label = "x"; t.num = 7; t.multi = 8; [t.label, t.num, t.multi].join()`)
	m["tagopt_write_by_name"] = tagged(`t.Label = "y"; t.NoName = 9; t.DashComma = 6; [t.Label, t.NoName, t.DashComma].join()`)
	m["tagopt_keys"] = tagged(`t.label = "x"; Object.keys(t).sort().join()`)
	m["tagopt_param"] = tagged(catching(`return f({label: "x", num: 7, multi: 8, NoName: 9});`))
	m["tagopt_param_by_name"] = tagged(catching(`return f({Label: "x", Num: 7});`))
	m["tagopt_param_dashcomma"] = tagged(catching(`return f({"-": 3});`))
	m["unicode_field_name"] = zooCase{func(vm *otto.Otto) func() string {
		u := &zUni{Ärger: 1, A: 2}
		vm.Set("u", u)
		return func() string { return fmt.Sprintf("%+v", *u) }
	}, `String(u["\u00c4rger"]) + "," + ("\u00c4rger" in u) + "," + u.A + "," + Object.keys(u).length`}
	structParam := func(script string) zooCase {
		return zooCase{func(vm *otto.Otto) func() string {
			vm.Set("mp", map[string]int{"C": 5})
			vm.Set("other", &zOther{C: 7})
			vm.Set("same", &zT{C: 9})
			vm.Set("f", func(x zT) string { return fmt.Sprintf("%+v", x) })
			return none
		}, script}
	}
	m["struct_param_from_bridged_map"] = structParam(catching(`return f(mp);`))
	m["struct_param_from_other_struct"] = structParam(catching(`return f(other);`))
	m["struct_param_from_same_struct"] = structParam(catching(`return f(same);`))
	m["struct_param_from_plain_object"] = structParam(catching(`return f({C: 5});`))
	return m
}

var zooTable = zooCases()

func implZoo(f []string) string {
	zc, ok := zooTable[f[1]]
	if !ok {
		return "bad-op"
	}
	vm := otto.New()
	dump := zc.setup(vm)
	v, tok := runJS(vm, zc.script)
	if tok != "" {
		return tok
	}
	out := v.String()
	if d := dump(); d != "" {
		out += "|go:" + d
	}
	return "s:" + fmt.Sprintf("%x", out)
}

var _ = reflect.TypeOf
