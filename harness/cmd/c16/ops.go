package main

import (
	"encoding/hex"
	"fmt"
	"reflect"
	"strconv"
	"strings"

	"github.com/robertkrimen/otto"
	"ottoverif/h"
)

// ---------------------------------------------------------------- type tokens → reflect.Type

type parser struct {
	s string
	i int
}

func (p *parser) peek() byte {
	if p.i < len(p.s) {
		return p.s[p.i]
	}
	return 0
}
func (p *parser) expect(c byte) {
	if p.peek() != c {
		panic(fmt.Sprintf("parse %q at %d: want %c", p.s, p.i, c))
	}
	p.i++
}
func isDelim(c byte) bool { return strings.IndexByte(",;()[]{}=", c) >= 0 }
func (p *parser) atom() string {
	j := p.i
	for p.i < len(p.s) && !isDelim(p.s[p.i]) {
		p.i++
	}
	return p.s[j:p.i]
}
func (p *parser) upTo(c byte) string {
	j := p.i
	for p.i < len(p.s) && p.s[p.i] != c {
		p.i++
	}
	r := p.s[j:p.i]
	p.i++
	return r
}

func (p *parser) typ() reflect.Type {
	if p.i+1 < len(p.s) && (p.s[p.i+1] == '(' || p.s[p.i+1] == '{') {
		c := p.s[p.i]
		switch c {
		case 'S', 'M', 'P':
			p.i += 2
			e := p.typ()
			p.expect(')')
			switch c {
			case 'S':
				return reflect.SliceOf(e)
			case 'M':
				return reflect.MapOf(kindType["str"], e)
			default:
				return reflect.PointerTo(e)
			}
		case 'T':
			p.i += 2
			var fs []reflect.StructField
			for p.peek() != '}' {
				name := p.upTo(':')
				tag := p.upTo(':')
				anon := p.upTo(':')
				t := p.typ()
				f := reflect.StructField{Name: name, Type: t, Anonymous: anon == "1"}
				if tag != "" {
					f.Tag = reflect.StructTag(`json:"` + tag + `"`)
				}
				if !(name[0] >= 'A' && name[0] <= 'Z') {
					f.PkgPath = "main"
				}
				fs = append(fs, f)
				if p.peek() == ';' {
					p.i++
				}
			}
			p.expect('}')
			return reflect.StructOf(fs)
		}
	}
	a := p.atom()
	t, ok := kindType[a]
	if !ok {
		panic("bad type " + a)
	}
	return t
}

func parseType(s string) reflect.Type {
	p := &parser{s: s}
	t := p.typ()
	if p.i != len(s) {
		panic("trailing type input " + s)
	}
	return t
}

// ---------------------------------------------------------------- value tokens → JavaScript source

// jsEnv collects the globals a script refers to (numbers are injected with their Go payload kind).
type jsEnv struct {
	vm *otto.Otto
	n  int
}

func (e *jsEnv) val(p *parser) string {
	if p.i+1 < len(p.s) && p.s[p.i] == 'A' && p.s[p.i+1] == '[' {
		p.i += 2
		var parts []string
		for p.peek() != ']' {
			if p.peek() == '_' {
				p.i++
				parts = append(parts, "")
			} else {
				parts = append(parts, e.val(p))
			}
			if p.peek() == ',' {
				p.i++
			}
		}
		p.expect(']')
		src := "[" + strings.Join(parts, ",") + "]"
		if len(parts) > 0 && parts[len(parts)-1] == "" {
			src = "[" + strings.Join(parts, ",") + ",]" // a trailing hole needs its own comma
		}
		return src
	}
	if p.i+1 < len(p.s) && p.s[p.i] == 'O' && p.s[p.i+1] == '{' {
		p.i += 2
		var parts []string
		for p.peek() != '}' {
			k := p.upTo('=')
			parts = append(parts, strconv.Quote(k)+":"+e.val(p))
			if p.peek() == ',' {
				p.i++
			}
		}
		p.expect('}')
		return "({" + strings.Join(parts, ",") + "})"
	}
	a := p.atom()
	switch a {
	case "u":
		return "undefined"
	case "n":
		return "null"
	case "b:0":
		return "false"
	case "b:1":
		return "true"
	}
	if strings.HasPrefix(a, "s16:") {
		// a string held as []uint16 inside the Value: every String.fromCharCode result is
		h := a[4:]
		var us []string
		for i := 0; i+4 <= len(h); i += 4 {
			u, err := strconv.ParseUint(h[i:i+4], 16, 16)
			if err != nil {
				panic(err)
			}
			us = append(us, strconv.FormatUint(u, 10))
		}
		return "String.fromCharCode(" + strings.Join(us, ",") + ")"
	}
	name := fmt.Sprintf("g%d", e.n)
	e.n++
	if strings.HasPrefix(a, "s:") || a == "s" {
		b, err := hex.DecodeString(strings.TrimPrefix(strings.TrimPrefix(a, "s"), ":"))
		if err != nil {
			panic(err)
		}
		e.vm.Set(name, string(b))
		return name
	}
	e.vm.Set(name, numGo(a))
	return name
}

func (e *jsEnv) js(tok string) string {
	p := &parser{s: tok}
	s := e.val(p)
	if p.i != len(tok) {
		panic("trailing value input " + tok)
	}
	return s
}

// ---------------------------------------------------------------- op: call

func implCall(f []string) string {
	k, err := strconv.Atoi(f[2])
	if err != nil || len(f) < 3+k {
		return "bad-op"
	}
	variadic := f[1] == "V"
	ins := make([]reflect.Type, k)
	for i := 0; i < k; i++ {
		ins[i] = parseType(f[3+i])
	}
	if variadic {
		ins[k-1] = reflect.SliceOf(ins[k-1])
	}
	vm := vmPool.Get().(*otto.Otto)
	defer vmPool.Put(vm)
	got := "not-called"
	fn := reflect.MakeFunc(reflect.FuncOf(ins, nil, variadic), func(args []reflect.Value) []reflect.Value {
		parts := make([]string, len(args))
		for i, a := range args {
			parts[i] = render(a)
		}
		got = "ok:(" + strings.Join(parts, "|") + ")"
		return nil
	})
	vm.Set("f", fn.Interface())
	env := &jsEnv{vm: vm}
	var as []string
	for _, a := range f[3+k:] {
		as = append(as, env.js(a))
	}
	if _, tok := runJS(vm, "f("+strings.Join(as, ",")+")"); tok != "" {
		return tok
	}
	return got
}

// ---------------------------------------------------------------- op: ret

func implRet(f []string) string {
	k, _ := strconv.Atoi(f[1])
	outs := make([]reflect.Type, k)
	for i := range outs {
		outs[i] = kindType["int"]
	}
	vm := vmPool.Get().(*otto.Otto)
	defer vmPool.Put(vm)
	fn := reflect.MakeFunc(reflect.FuncOf(nil, outs, false), func(args []reflect.Value) []reflect.Value {
		r := make([]reflect.Value, k)
		for i := range r {
			r[i] = reflect.ValueOf(i + 1)
		}
		return r
	})
	vm.Set("f", fn.Interface())
	v, tok := runJS(vm, `(function(){ var r = f(); if (r === undefined) return "undefined"; if (typeof r === "number") return "num:" + r; if (Array.isArray(r)) return "arr:" + r.join(","); return "other:" + typeof r; })()`)
	if tok != "" {
		return tok
	}
	return v.String()
}

// ---------------------------------------------------------------- op: store

func implStore(f []string) string {
	t := parseType(f[1])
	vm := otto.New() // a Go panic may leave the runtime mid-call: never reuse it
	sl := reflect.MakeSlice(reflect.SliceOf(t), 1, 1)
	vm.Set("s", sl.Interface())
	env := &jsEnv{vm: vm}
	src := env.js(f[2])
	if _, tok := runJS(vm, "s[0] = "+src+"; 0"); tok != "" {
		return tok
	}
	return "ok:" + render(sl.Index(0))
}

// ---------------------------------------------------------------- histories

func goElem(t reflect.Type, n int64) reflect.Value {
	switch t.Kind() {
	case reflect.String:
		return reflect.ValueOf(strconv.FormatInt(n, 10))
	case reflect.Bool:
		return reflect.ValueOf(n != 0)
	case reflect.Interface:
		return reflect.ValueOf(int(n))
	}
	return reflect.ValueOf(n).Convert(t)
}

// jsObs renders what a script expression evaluates to: undefined or the exported Go value.
func jsObs(vm *otto.Otto, src string) string {
	v, tok := runJS(vm, src)
	if tok != "" {
		return tok
	}
	if v.IsUndefined() {
		return "u"
	}
	e, _ := v.Export()
	return "v:" + render(reflect.ValueOf(e))
}

func isFail(o string) bool { return o == "gopanic" || strings.HasPrefix(o, "throw:") }

func implSlice(f []string) string {
	et := parseType(f[1])
	capN, _ := strconv.Atoi(f[2])
	var init []int64
	if f[3] != "-" {
		for _, s := range strings.Split(f[3], ",") {
			n, _ := strconv.ParseInt(s, 10, 64)
			init = append(init, n)
		}
	}
	if capN < len(init) {
		capN = len(init)
	}
	sl := reflect.MakeSlice(reflect.SliceOf(et), len(init), capN)
	for i, n := range init {
		sl.Index(i).Set(goElem(et, n))
	}
	vm := otto.New()
	vm.Set("s", sl.Interface())
	env := &jsEnv{vm: vm}
	var obs []string
	if f[4] != "-" {
		for _, op := range strings.Split(f[4], ";") {
			a := strings.SplitN(op, ":", 3)
			var o string
			switch a[0] {
			case "jr":
				o = jsObs(vm, "s["+a[1]+"]")
			case "jw":
				before := jsObs(vm, "s.length")
				idx, _ := strconv.Atoi(a[1])
				_, tok := runJS(vm, "s["+a[1]+"] = "+env.js(a[2])+"; 0")
				o = "-"
				if tok != "" {
					o = tok
				} else if n, err := strconv.Atoi(strings.TrimPrefix(before, "v:int:")); err == nil && idx > n {
					o = "ign"
				}
			case "jl":
				v, tok := runJS(vm, "s.length")
				if tok != "" {
					o = tok
				} else {
					n, _ := v.ToInteger()
					o = fmt.Sprintf("len:%d", n)
				}
			case "jsl":
				_, tok := runJS(vm, "s.length = "+a[1]+"; 0")
				o = "-"
				if tok != "" {
					o = tok
				}
			case "jslneg":
				_, tok := runJS(vm, "s.length = -1; 0")
				o = "-"
				if tok != "" {
					o = tok
				}
			case "jd":
				v, tok := runJS(vm, "delete s["+a[1]+"]")
				o = "-"
				if tok != "" {
					o = tok
				} else if b, _ := v.ToBoolean(); !b {
					o = "ign"
				}
			case "gr":
				i, _ := strconv.Atoi(a[1])
				if i < sl.Len() {
					o = "v:" + render(sl.Index(i))
				} else {
					o = "gopanic"
				}
			case "gw":
				i, _ := strconv.Atoi(a[1])
				n, _ := strconv.ParseInt(a[2], 10, 64)
				if i < sl.Len() {
					sl.Index(i).Set(goElem(et, n))
					o = "-"
				} else {
					o = "gopanic"
				}
			case "gl":
				o = fmt.Sprintf("len:%d", sl.Len())
			case "ga":
				b := strings.SplitN(a[1]+":"+a[2], ":", 2)
				n, _ := strconv.ParseInt(b[0], 10, 64)
				sl = reflect.Append(sl, goElem(et, n))
				o = "-"
			default:
				return "bad-op"
			}
			obs = append(obs, o)
			if isFail(o) {
				return strings.Join(obs, ";")
			}
		}
	}
	obs = append(obs, "G"+render(sl))
	// the JavaScript view: read length and every index through the script
	v, tok := runJS(vm, "s.length")
	if tok != "" {
		return strings.Join(append(obs, tok), ";")
	}
	n, _ := v.ToInteger()
	parts := make([]string, n)
	for i := range parts {
		parts[i] = strings.TrimPrefix(jsObs(vm, fmt.Sprintf("s[%d]", i)), "v:")
	}
	obs = append(obs, "JS["+strings.Join(parts, ",")+"]")
	return strings.Join(obs, ";")
}

func implMap(f []string) string {
	et := parseType(f[1])
	m := reflect.MakeMap(reflect.MapOf(kindType["str"], et))
	if f[2] == "nil" {
		m = reflect.Zero(reflect.MapOf(kindType["str"], et)) // a nil map handed over by value
	} else if f[2] != "-" {
		for _, kv := range strings.Split(f[2], ",") {
			a := strings.SplitN(kv, "=", 2)
			n, _ := strconv.ParseInt(a[1], 10, 64)
			m.SetMapIndex(reflect.ValueOf(a[0]), goElem(et, n))
		}
	}
	vm := otto.New()
	vm.Set("m", m.Interface())
	env := &jsEnv{vm: vm}
	var obs []string
	if f[3] != "-" {
		for _, op := range strings.Split(f[3], ";") {
			a := strings.SplitN(op, ":", 3)
			var o string
			switch a[0] {
			case "jr":
				o = jsObs(vm, "m["+strconv.Quote(a[1])+"]")
			case "jw":
				_, tok := runJS(vm, "m["+strconv.Quote(a[1])+"] = "+env.js(a[2])+"; 0")
				o = "-"
				if tok != "" {
					o = tok
				}
			case "jd":
				_, tok := runJS(vm, "delete m["+strconv.Quote(a[1])+"]")
				o = "-"
				if tok != "" {
					o = tok
				}
			case "jk":
				// keys seen by for-in, each with the value read through the script
				v, tok := runJS(vm, `(function(){ var k = []; for (var i in m) k.push(i); return k.join(","); })()`)
				if tok != "" {
					o = tok
					break
				}
				seen := reflect.MakeMap(m.Type())
				if s := v.String(); s != "" {
					for _, k := range strings.Split(s, ",") {
						seen.SetMapIndex(reflect.ValueOf(k), m.MapIndex(reflect.ValueOf(k)))
					}
				}
				o = "k:" + render(seen)
			case "gr":
				x := m.MapIndex(reflect.ValueOf(a[1]))
				if !x.IsValid() {
					x = reflect.Zero(et)
				}
				o = "v:" + render(x)
			case "gw":
				if m.IsNil() {
					return "bad-op" // Go itself cannot write to a nil map
				}
				n, _ := strconv.ParseInt(a[2], 10, 64)
				m.SetMapIndex(reflect.ValueOf(a[1]), goElem(et, n))
				o = "-"
			case "gd":
				m.SetMapIndex(reflect.ValueOf(a[1]), reflect.Value{})
				o = "-"
			default:
				return "bad-op"
			}
			obs = append(obs, o)
			if isFail(o) {
				return strings.Join(obs, ";")
			}
		}
	}
	obs = append(obs, "G"+render(m))
	return strings.Join(obs, ";")
}

func implStruct(f []string) string {
	st := parseType(f[1])
	ptr := reflect.New(st)
	vm := otto.New()
	vm.Set("t", ptr.Interface())
	env := &jsEnv{vm: vm}
	var obs []string
	shadowed := map[string]bool{}
	for _, op := range strings.Split(f[2], ";") {
		a := strings.SplitN(op, ":", 3)
		var o string
		switch a[0] {
		case "jr":
			o = jsObs(vm, "t["+strconv.Quote(a[1])+"]")
			if shadowed[a[1]] && !isFail(o) {
				// the script reads back its own earlier write to a name that is not a bridged field
				o = "shadowread"
			}
		case "jw":
			before := render(ptr.Elem())
			_, tok := runJS(vm, "t["+strconv.Quote(a[1])+"] = "+env.js(a[2])+"; 0")
			o = "-"
			if tok != "" {
				o = tok
			} else if otto.VerifFieldIndexByName(st, a[1]) == nil && !goNameField(st, a[1]) {
				// neither the tag lookup nor Go's FieldByName knows the name: the write lands on the wrapper
				o = "shadow"
				if render(ptr.Elem()) != before {
					o = "shadow-but-go-changed"
				}
				shadowed[a[1]] = true
			}
		case "gr":
			v := ptr.Elem()
			ok := true
			for _, s := range strings.Split(a[1], ".") {
				i, _ := strconv.Atoi(s)
				if v.Kind() != reflect.Struct || i >= v.NumField() {
					ok = false
					break
				}
				v = v.Field(i)
			}
			if ok {
				o = "v:" + render(v)
			} else {
				o = "u"
			}
		default:
			return "bad-op"
		}
		obs = append(obs, o)
		if isFail(o) {
			return strings.Join(obs, ";")
		}
	}
	obs = append(obs, "G"+render(ptr.Elem()))
	return strings.Join(obs, ";")
}

// goNameField: is name a direct exported Go field (found by reflect FieldByName although hidden from
// fieldIndexByName by a json:"-" tag)?
func goNameField(st reflect.Type, name string) bool {
	if name == "" || name[0] < 'A' || name[0] > 'Z' {
		return false
	}
	_, ok := st.FieldByName(name)
	return ok
}

func implField(f []string) string {
	st := parseType(f[1])
	idx := otto.VerifFieldIndexByName(st, f[2])
	if idx == nil {
		return "none"
	}
	parts := make([]string, len(idx))
	for i, n := range idx {
		parts[i] = strconv.Itoa(n)
	}
	return "path:" + strings.Join(parts, ".")
}

var _ = h.F64Hex

// ---------------------------------------------------------------- op: cb (a JavaScript function as a Go func)

var cbScripts = map[string]string{
	"ret":      `"ok:" + apply(function(x){ return x + 41; })`,
	"range":    `try { apply(function(x){ throw new RangeError("r"); }); "no-throw" } catch (e) { "caught:" + e.name + ":" + e.message + ":" + ((e instanceof RangeError) ? "instanceof" : "other") }`,
	"type":     `try { apply(function(x){ throw new TypeError("t"); }); "no-throw" } catch (e) { "caught:" + e.name + ":" + e.message + ":" + ((e instanceof TypeError) ? "instanceof" : "other") }`,
	"num":      `try { apply(function(x){ throw 5; }); "no-throw" } catch (e) { "caught:" + typeof e + ":" + e }`,
	"str":      `try { apply(function(x){ throw "boom"; }); "no-throw" } catch (e) { "caught:" + typeof e + ":" + e }`,
	"obj":      `try { apply(function(x){ throw {a: 1}; }); "no-throw" } catch (e) { "caught:" + typeof e + ":" + e.a }`,
	"retstr":   `try { apply(function(x){ return "a"; }); "no-throw" } catch (e) { "caught:" + e.name + "::" + ((e instanceof TypeError) ? "instanceof" : "other") }`,
	"retfrac":  `try { apply(function(x){ return 1.5; }); "no-throw" } catch (e) { "caught:" + e.name + "::" + ((e instanceof RangeError) ? "instanceof" : "other") }`,
	"uncaught": `apply(function(x){ throw new RangeError("r"); })`,
}

func implCb(f []string) string {
	src, ok := cbScripts[f[1]]
	if !ok {
		return "bad-op"
	}
	vm := otto.New()
	vm.Set("apply", func(cb func(int) int) int { return cb(1) })
	v, tok := runJS(vm, src)
	if tok != "" {
		return tok
	}
	return v.String()
}
