package main

// op `recs`: several DISTINCT Go struct types that print the same (function-local types all named `rec`) are
// bridged in one process, in one or several runtimes; every property access must resolve against the object's
// own type.

import (
	"fmt"
	"reflect"
	"strconv"
	"strings"

	"github.com/robertkrimen/otto"
)

func recA() interface{} {
	type rec struct{ X, Y, Z int }
	return &rec{}
}

func recB() interface{} {
	type rec struct{ Y, X int }
	return &rec{}
}

func recC() interface{} {
	type rec struct{ Z int }
	return &rec{}
}

func recD() interface{} {
	type rec struct{ W, Z, Y, X int }
	return &rec{}
}

func recE() interface{} {
	type rec struct {
		Y int `json:"X"`
		Q int
	}
	return &rec{}
}

var recMakers = map[string]func() interface{}{"a": recA, "b": recB, "c": recC, "d": recD, "e": recE}

const recsLayout = "a=X,Y,Z|b=Y,X|c=Z|d=W,Z,Y,X"

func implRecs(f []string) string {
	nvm, _ := strconv.Atoi(f[1])
	if nvm < 1 || nvm > 4 {
		return "bad-op"
	}
	type obj struct {
		name string
		val  reflect.Value // pointer to struct
	}
	var objs []obj
	for oi, part := range strings.Split(f[2], "|") {
		a := strings.SplitN(part, "=", 2)
		mk, ok := recMakers[a[0]]
		if !ok {
			return "bad-op"
		}
		v := reflect.ValueOf(mk())
		names := strings.Split(a[1], ",")
		if v.Elem().NumField() != len(names) {
			return "bad-layout"
		}
		for p, n := range names {
			if v.Elem().Type().Field(p).Name != n {
				return "bad-layout"
			}
			v.Elem().Field(p).SetInt(int64(10*(oi+1) + p))
		}
		objs = append(objs, obj{a[0], v})
	}
	vms := make([]*otto.Otto, nvm)
	for i := range vms {
		vms[i] = otto.New()
		for _, o := range objs {
			vms[i].Set(o.name, o.val.Interface())
		}
	}
	find := func(name string) *obj {
		for i := range objs {
			if objs[i].name == name {
				return &objs[i]
			}
		}
		return nil
	}
	shadowed := map[string]bool{}
	var out []string
	for _, st := range strings.Split(f[3], ";") {
		a := strings.Split(st, ".")
		vi, _ := strconv.Atoi(a[0])
		if vi >= nvm || find(a[1]) == nil {
			return "bad-op"
		}
		_, isField := find(a[1]).val.Elem().Type().FieldByName(a[3])
		switch a[2] {
		case "r":
			v, tok := runJS(vms[vi], a[1]+"."+a[3])
			switch {
			case tok != "":
				return strings.Join(append(out, tok), ";")
			case v.IsUndefined():
				out = append(out, "u")
			case !isField && shadowed[a[0]+"."+a[1]+"."+a[3]]:
				out = append(out, "shadowread")
			default:
				n, _ := v.ToInteger()
				s, _ := v.ToString()
				if v.IsNumber() {
					out = append(out, fmt.Sprintf("v:%d", n))
				} else {
					out = append(out, "v:"+s)
				}
			}
		case "w":
			if _, tok := runJS(vms[vi], a[1]+"."+a[3]+" = "+a[4]+"; 0"); tok != "" {
				return strings.Join(append(out, tok), ";")
			}
			if isField {
				out = append(out, "-")
			} else {
				shadowed[a[0]+"."+a[1]+"."+a[3]] = true
				out = append(out, "shadow")
			}
		default:
			return "bad-op"
		}
	}
	var dump []string
	for _, o := range objs {
		var fs []string
		for p := 0; p < o.val.Elem().NumField(); p++ {
			fs = append(fs, fmt.Sprintf("%s:%d", o.val.Elem().Type().Field(p).Name, o.val.Elem().Field(p).Int()))
		}
		dump = append(dump, o.name+"="+strings.Join(fs, ","))
	}
	return strings.Join(out, ";") + ";G:" + strings.Join(dump, "|")
}
