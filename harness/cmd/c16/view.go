package main

// op `view`: JavaScript-side observers of a bridged container of small integers, after every step, next to the
// Go-side contents; and the bridged value in ARGUMENT positions of built-ins, compared with the same call on
// the equivalent plain JavaScript array / object.

import (
	"fmt"
	"reflect"
	"sort"
	"strconv"
	"strings"

	"github.com/robertkrimen/otto"
)

const viewJS = `
function kpart(o, probes) {
  function srt(a) { return a.sort().join(","); }
  var r = [];
  r.push("in:" + probes.map(function(k){ return (k in o) ? 1 : 0; }).join(""));
  r.push("own:" + probes.map(function(k){ return o.hasOwnProperty(k) ? 1 : 0; }).join(""));
  r.push("keys:" + srt(Object.keys(o)));
  r.push("names:" + srt(Object.getOwnPropertyNames(o).filter(function(k){ return k !== "length"; })));
  var f = [], g = [];
  for (var k in o) { f.push(k); if (o.hasOwnProperty(k)) g.push(k); }
  r.push("forin:" + srt(f));
  r.push("forinown:" + srt(g));
  r.push("desc:" + probes.map(function(k){
    var d = Object.getOwnPropertyDescriptor(o, k);
    if (!d) return "-";
    return (d.value === undefined ? "u" : String(d.value)) + "/" + (d.writable ? 1 : 0) + (d.enumerable ? 1 : 0) + (d.configurable ? 1 : 0);
  }).join(","));
  return r.join(";");
}
function norm(x) {
  var p = JSON.parse(JSON.stringify(x));
  if (Array.isArray(p)) return "[" + p.join(",") + "]";
  return "{" + Object.keys(p).sort().map(function(k){ return k + ":" + p[k]; }).join(",") + "}";
}
var seqCalls = [
  ["json", function(x){ return JSON.stringify(x); }],
  ["jsonval", function(x){ return JSON.stringify({v: x, w: [x]}); }],
  ["jsonrepl", function(x){ return JSON.stringify({"0":"z","1":"p","2":"q","7":"r","30":"s"}, x); }],
  ["join", function(x){ return Array.prototype.join.call(x, "|"); }],
  ["ownjoin", function(x){ return x.join("|"); }],
  ["tostring", function(x){ return String(x); }],
  ["indexOf", function(x){ return Array.prototype.indexOf.call(x, x[0]) + "," + Array.prototype.lastIndexOf.call(x, x[0]) + "," + Array.prototype.indexOf.call(x, 7); }],
  ["slice", function(x){ return Array.prototype.slice.call(x, 1).join("|"); }],
  ["concat", function(x){ var c = [0].concat(x); return c.join("|") + "#" + c.length + "#" + [].concat(x, x).length; }],
  ["ownconcat", function(x){ return x.concat([9]).join("|"); }],
  ["apply", function(x){ return Math.max.apply(null, x) + "," + (function(a, b){ return [a, b, arguments.length].join(); }).apply(null, x); }],
  ["newArray", function(x){ return (new Array(x)).length + "," + (Array(x)[0] === x); }],
  ["isArray", function(x){ return Array.isArray(x); }],
  ["keys", function(x){ return Object.keys(x).join(); }],
  ["iter", function(x){ var n = 0; x.forEach(function(){ n++; }); return x.map(function(a){ return a * 2; }).join("|") + "," + x.filter(function(a){ return a > 1; }).length + "," + x.reduce(function(a, b){ return a + b; }, 0) + "," + x.some(function(a){ return a > 2; }) + "," + x.every(function(a){ return a >= 0; }) + "," + n; }],
  ["string", function(x){ return "x".concat(x) + "," + "a,b,c,d,e".split(",", x.length).join("|") + "," + "abc".replace("b", x); }],
  ["create", function(x){ var c = Object.create(x); return c.length + "," + c[0]; }],
  ["defprops", function(x){ return Object.defineProperties({}, {a: {value: x, enumerable: true}}).a === x; }],
  ["len", function(x){ return x.length; }]
];
var objCalls = [
  ["json", function(x){ return norm(x); }],
  ["jsonval", function(x){ return norm({v: x}.v) + JSON.stringify([x]).length; }],
  ["jsonpick", function(x){ var k = Object.keys(x).sort(); return JSON.stringify(x, k.slice(0, 1)); }],
  ["keys", function(x){ return Object.keys(x).sort().join(); }],
  ["tostring", function(x){ return String(x) + Object.prototype.toString.call(x); }],
  ["create", function(x){ var c = Object.create(x), k = Object.keys(x).sort()[0]; return String(c[k]) + "," + (k in c); }],
  ["defprops", function(x){ return Object.defineProperties({}, {a: {value: x}}).a === x; }],
  ["forin", function(x){ var n = 0; for (var k in x) n += x[k]; return n; }],
  ["isArray", function(x){ return Array.isArray(x); }]
];
function vpart(o, e, seq) {
  var calls = seq ? seqCalls : objCalls, bad = [];
  for (var i = 0; i < calls.length; i++) {
    var a, b;
    try { a = String(calls[i][1](o)); } catch (ex) { a = "throw:" + ex.name; }
    try { b = String(calls[i][1](e)); } catch (ex) { b = "throw:" + ex.name; }
    if (a !== b) bad.push(calls[i][0]);
  }
  return bad.length ? "diff:" + bad.join(",") : "ok";
}
`

type viewState struct {
	kind  string
	names []string // ordered entry names (sequence: indices; map: insertion order is irrelevant; struct: fields)
	val   reflect.Value
}

func implView(f []string) string {
	if len(f) != 6 {
		return "bad-op"
	}
	kind := f[1]
	type kv struct {
		k string
		v int64
	}
	var ents []kv
	if f[2] != "-" {
		for _, s := range strings.Split(f[2], ",") {
			a := strings.SplitN(s, "=", 2)
			n, _ := strconv.ParseInt(a[1], 10, 64)
			ents = append(ents, kv{a[0], n})
		}
	}
	tags := map[string]string{} // field name -> tag
	if f[3] != "-" {
		for _, s := range strings.Split(f[3], ",") {
			a := strings.SplitN(s, "=", 2)
			tags[a[1]] = a[0]
		}
	}
	probes := strings.Split(f[4], ",")
	intT := kindType["int"]
	var root reflect.Value // addressable Go container
	var jsVal interface{}
	switch kind {
	case "slice":
		root = reflect.MakeSlice(reflect.SliceOf(intT), len(ents), len(ents))
		for i, e := range ents {
			root.Index(i).SetInt(e.v)
		}
		jsVal = root.Interface()
	case "aptr", "aval":
		p := reflect.New(reflect.ArrayOf(len(ents), intT))
		root = p.Elem()
		for i, e := range ents {
			root.Index(i).SetInt(e.v)
		}
		if kind == "aptr" {
			jsVal = p.Interface()
		} else {
			jsVal = root.Interface() // a copy
		}
	case "map":
		root = reflect.MakeMap(reflect.MapOf(kindType["str"], intT))
		for _, e := range ents {
			root.SetMapIndex(reflect.ValueOf(e.k), reflect.ValueOf(int(e.v)))
		}
		jsVal = root.Interface()
	case "struct":
		var fs []reflect.StructField
		for _, e := range ents {
			sf := reflect.StructField{Name: e.k, Type: intT}
			if t, ok := tags[e.k]; ok {
				sf.Tag = reflect.StructTag(`json:"` + t + `"`)
			}
			if !(e.k[0] >= 'A' && e.k[0] <= 'Z') {
				sf.PkgPath = "main"
			}
			fs = append(fs, sf)
		}
		p := reflect.New(reflect.StructOf(fs))
		root = p.Elem()
		for i, e := range ents {
			if root.Field(i).CanSet() {
				root.Field(i).SetInt(e.v)
			}
		}
		jsVal = p.Interface()
	default:
		return "bad-op"
	}
	// unexported struct fields cannot be set through reflect: they stay 0; tell the model by requiring 0 in the request
	vm := otto.New()
	if _, tok := runJS(vm, viewJS); tok != "" {
		return "setup:" + tok
	}
	vm.Set("o", jsVal)
	vm.Set("probes", probes)
	seq := kind == "slice" || kind == "aptr" || kind == "aval"

	contents := func() (string, string) { // canonical Go contents, and the equivalent JavaScript literal
		switch kind {
		case "slice", "aptr", "aval":
			parts := make([]string, root.Len())
			for i := range parts {
				parts[i] = strconv.FormatInt(root.Index(i).Int(), 10)
			}
			return strings.Join(parts, "|"), "[" + strings.Join(parts, ",") + "]"
		case "map":
			var parts, lit []string
			for _, k := range root.MapKeys() {
				parts = append(parts, fmt.Sprintf("%s=%d", k.String(), root.MapIndex(k).Int()))
				lit = append(lit, fmt.Sprintf("%q:%d", k.String(), root.MapIndex(k).Int()))
			}
			sort.Strings(parts)
			sort.Strings(lit)
			return strings.Join(parts, ","), "({" + strings.Join(lit, ",") + "})"
		default:
			var parts, lit []string
			for i := 0; i < root.NumField(); i++ {
				n := root.Type().Field(i).Name
				parts = append(parts, fmt.Sprintf("%s=%d", n, root.Field(i).Int()))
				if n[0] >= 'A' && n[0] <= 'Z' {
					lit = append(lit, fmt.Sprintf("%q:%d", n, root.Field(i).Int()))
				}
			}
			return strings.Join(parts, ","), "({" + strings.Join(lit, ",") + "})"
		}
	}
	observe := func() (string, bool) {
		v, tok := runJS(vm, "kpart(o, probes)")
		if tok != "" {
			return tok, false
		}
		g, lit := contents()
		w, tok := runJS(vm, "vpart(o, "+lit+", "+strconv.FormatBool(seq)+")")
		if tok != "" {
			return tok, false
		}
		return v.String() + ";G:" + g + ";V:" + w.String(), true
	}
	var out []string
	o, ok := observe()
	out = append(out, o)
	if !ok || f[5] == "-" {
		return strings.Join(out, "#")
	}
	for _, st := range strings.Split(f[5], ";") {
		a := strings.Split(st, ":")
		switch a[0] {
		case "jw":
			if _, tok := runJS(vm, "o["+strconv.Quote(a[1])+"] = "+a[2]+"; 0"); tok != "" {
				return strings.Join(append(out, tok), "#")
			}
		case "jd":
			if _, tok := runJS(vm, "delete o["+strconv.Quote(a[1])+"]; 0"); tok != "" {
				return strings.Join(append(out, tok), "#")
			}
		case "gw":
			n, _ := strconv.ParseInt(a[2], 10, 64)
			switch kind {
			case "map":
				root.SetMapIndex(reflect.ValueOf(a[1]), reflect.ValueOf(int(n)))
			case "struct":
				if fv := root.FieldByName(a[1]); fv.IsValid() && fv.CanSet() {
					fv.SetInt(n)
				}
			default:
				if kind == "aval" {
					break // the bridged object is a copy of the Go array: the original is not observable through it
				}
				if i, err := strconv.Atoi(a[1]); err == nil && i < root.Len() {
					root.Index(i).SetInt(n)
				}
			}
		case "gd":
			if kind == "map" {
				root.SetMapIndex(reflect.ValueOf(a[1]), reflect.Value{})
			}
		default:
			return "bad-op"
		}
		o, ok := observe()
		out = append(out, o)
		if !ok {
			break
		}
	}
	return strings.Join(out, "#")
}
