// Command c16 is the correspondence harness binary for property C16.
package main

import "ottoverif/h"

func main() { h.Main("C16") }
