package main

import (
	"fmt"
	"math"
	"strings"

	"ottoverif/h"
)

// gen produces type tokens and (mostly) matching JavaScript value tokens.
type gen struct {
	r    *h.Rng
	bd   []float64
	nums []string
}

var scalarTypes = []string{"bool", "str", "any", "int", "int", "i8", "i16", "i32", "i64", "u8", "u16", "u32", "u64", "uint", "f32", "f64", "f64"}
var fieldNames = []string{"A", "B", "C", "Dd", "Zed", "x", "y_", "Ee"}
var tagPool = []string{"", "", "", "a", "bee", "-", "A", "zed", "B"}
var keyPool = []string{"a", "b", "c", "k1", "zz", "A"}

func (g *gen) typ(depth int) string {
	if depth <= 0 || g.r.Chance(55) {
		return scalarTypes[g.r.Intn(len(scalarTypes))]
	}
	switch g.r.Intn(5) {
	case 0, 1:
		return "S(" + g.typ(depth-1) + ")"
	case 2:
		return "M(" + g.typ(depth-1) + ")"
	case 3:
		return "P(" + g.typ(depth-1) + ")"
	default:
		return g.structType(depth - 1)
	}
}

func (g *gen) structType(depth int) string {
	n := 1 + g.r.Intn(4)
	used := map[string]bool{}
	var fs []string
	for i := 0; i < n; i++ {
		name := fieldNames[g.r.Intn(len(fieldNames))]
		if used[name] {
			continue
		}
		used[name] = true
		tag := tagPool[g.r.Intn(len(tagPool))]
		if depth > 0 && g.r.Chance(25) && !used["Inner"] {
			used["Inner"] = true
			anon := "1"
			if g.r.Chance(20) {
				anon = "0"
			}
			fs = append(fs, "Inner:"+tag+":"+anon+":"+g.structType(depth-1))
			continue
		}
		fs = append(fs, name+":"+tag+":0:"+g.typ(depth))
	}
	return "T{" + strings.Join(fs, ";") + "}"
}

// parsed view of a struct token, for picking keys
type fieldInfo struct{ name, tag, anon, typ string }

func splitFields(st string) []fieldInfo {
	body := st[2 : len(st)-1]
	var out []fieldInfo
	depth, start := 0, 0
	flush := func(end int) {
		if end > start {
			a := strings.SplitN(body[start:end], ":", 4)
			out = append(out, fieldInfo{a[0], a[1], a[2], a[3]})
		}
	}
	for i := 0; i < len(body); i++ {
		switch body[i] {
		case '{', '(':
			depth++
		case '}', ')':
			depth--
		case ';':
			if depth == 0 {
				flush(i)
				start = i + 1
			}
		}
	}
	flush(len(body))
	return out
}

func (g *gen) fieldKey(st string) string {
	fs := splitFields(st)
	if len(fs) == 0 || g.r.Chance(15) {
		return []string{"Nope", "a", "x", "A", "bee", "zed", "Inner", "B"}[g.r.Intn(8)]
	}
	f := fs[g.r.Intn(len(fs))]
	if f.anon == "1" && strings.HasPrefix(f.typ, "T{") && g.r.Chance(60) {
		return g.fieldKey(f.typ)
	}
	if f.tag != "" && f.tag != "-" && g.r.Chance(50) {
		return f.tag
	}
	return f.name
}

// fieldTypeOf resolves the type a key addresses (first match, approximating fieldIndexByName) for value generation.
func fieldTypeOf(st, key string) string {
	if t := fieldTypeByTag(st, key); t != "" {
		return t
	}
	// the FieldByName fallback of reads and writes: a direct exported field by its Go name (json:"-" fields)
	return fieldTypeByGoName(st, key)
}

// fieldTypeByGoName approximates reflect's FieldByName: a direct field first, then promoted ones.
func fieldTypeByGoName(st, key string) string {
	if key == "" || key[0] < 'A' || key[0] > 'Z' {
		return ""
	}
	for _, f := range splitFields(st) {
		if f.name == key {
			return f.typ
		}
	}
	for _, f := range splitFields(st) {
		if f.anon == "1" && strings.HasPrefix(f.typ, "T{") {
			if t := fieldTypeByGoName(f.typ, key); t != "" {
				return t
			}
		}
	}
	return ""
}

// fieldTypeByTag mirrors fieldIndexByName.
func fieldTypeByTag(st, key string) string {
	for _, f := range splitFields(st) { // same order of precedence as fieldIndexByName
		if f.name[0] < 'A' || f.name[0] > 'Z' {
			continue
		}
		if f.anon == "1" && strings.HasPrefix(f.typ, "T{") {
			if t := fieldTypeByTag(f.typ, key); t != "" {
				return t
			}
		}
		if f.tag == "-" {
			continue
		}
		if f.tag == key || f.name == key {
			return f.typ
		}
	}
	return ""
}

func strOK(n string) bool {
	// numbers whose Go %v / JS ToString forms are modelled: integer payloads below 2^53, and doubles that are
	// NaN, ±Inf, ±0 or integral below 2^53
	if strings.HasPrefix(n, "f32:") {
		return false
	}
	if strings.HasPrefix(n, "f:") {
		f := h.HexF64(n[2:])
		if f != f || math.IsInf(f, 0) {
			return true
		}
		return f < 9007199254740992 && f > -9007199254740992 && f == float64(int64(f))
	}
	i := strings.IndexByte(n, ':')
	v := strings.TrimPrefix(n[i+1:], "-")
	return len(v) < 16
}

func (g *gen) number() string {
	if g.r.Chance(50) {
		return g.nums[g.r.Intn(len(g.nums))]
	}
	if g.r.Chance(50) {
		return fmt.Sprintf("i64:%d", g.r.Intn(300)-50)
	}
	return randNum(g.r, g.bd)
}

func (g *gen) strSafeNumber() string {
	for i := 0; i < 50; i++ {
		if n := g.number(); strOK(n) {
			return n
		}
	}
	return "i64:7"
}

var strPool = []string{"s:", "s:61", "s:6162", "s:3132", "s:c3a9", "s:756e646566696e6564", "s:312e35",
	"s16:0041", "s16:00e90062", "s16:d83dde00", "s16:0061d83dde000062", "s16:d800", "s16:0031de00"} // s16: held as []uint16

func (g *gen) prim(strSafe bool) string {
	switch g.r.Intn(7) {
	case 0:
		return "u"
	case 1:
		return "n"
	case 2:
		return []string{"b:0", "b:1"}[g.r.Intn(2)]
	case 3:
		return strPool[g.r.Intn(len(strPool))]
	default:
		if strSafe {
			return g.strSafeNumber()
		}
		return g.number()
	}
}

// anyVal: a value for interface{} / mismatches; strSafe keeps numbers inside the modelled ToString domain
func (g *gen) anyVal(depth int, strSafe bool) string {
	if depth <= 0 || g.r.Chance(50) {
		return g.prim(strSafe)
	}
	if g.r.Chance(60) {
		n := g.r.Intn(4)
		parts := make([]string, n)
		same := g.r.Chance(50)
		first := ""
		for i := range parts {
			if g.r.Chance(8) {
				parts[i] = "_"
				continue
			}
			if same && first != "" && g.r.Chance(80) {
				if strings.HasPrefix(first, "A[") || strings.HasPrefix(first, "O{") {
					parts[i] = g.anyVal(depth-1, strSafe)
				} else {
					parts[i] = first
				}
			} else {
				parts[i] = g.anyVal(depth-1, strSafe)
			}
			if first == "" {
				first = parts[i]
			}
		}
		return "A[" + strings.Join(parts, ",") + "]"
	}
	return g.objVal(func(string) string { return g.anyVal(depth-1, strSafe) })
}

func (g *gen) objVal(val func(key string) string) string {
	n := g.r.Intn(4)
	used := map[string]bool{}
	var parts []string
	for i := 0; i < n; i++ {
		k := keyPool[g.r.Intn(len(keyPool))]
		if used[k] {
			continue
		}
		used[k] = true
		parts = append(parts, k+"="+val(k))
	}
	return "O{" + strings.Join(parts, ",") + "}"
}

// val generates a JavaScript value for the Go type token t: mostly of the matching shape, sometimes not.
func (g *gen) val(t string, depth int) string {
	if g.r.Chance(7) {
		return g.anyVal(1, true)
	}
	switch {
	case strings.HasPrefix(t, "S("):
		e := t[2 : len(t)-1]
		n := g.r.Intn(4)
		parts := make([]string, n)
		for i := range parts {
			if g.r.Chance(7) {
				parts[i] = "_"
			} else {
				parts[i] = g.val(e, depth-1)
			}
		}
		return "A[" + strings.Join(parts, ",") + "]"
	case strings.HasPrefix(t, "M("):
		e := t[2 : len(t)-1]
		if g.r.Chance(10) {
			return "A[" + g.val(e, depth-1) + "]"
		}
		return g.objVal(func(string) string { return g.val(e, depth-1) })
	case strings.HasPrefix(t, "P("):
		if g.r.Chance(25) {
			return []string{"n", "u"}[g.r.Intn(2)]
		}
		return g.val(t[2:len(t)-1], depth)
	case strings.HasPrefix(t, "T{"):
		n := g.r.Intn(4)
		used := map[string]bool{}
		var parts []string
		for i := 0; i < n; i++ {
			k := g.fieldKey(t)
			if used[k] {
				continue
			}
			used[k] = true
			ft := fieldTypeOf(t, k)
			if ft == "" {
				ft = "int"
			}
			parts = append(parts, k+"="+g.val(ft, depth-1))
		}
		return "O{" + strings.Join(parts, ",") + "}"
	case t == "bool":
		return g.prim(true)
	case t == "str":
		if g.r.Chance(50) {
			return strPool[g.r.Intn(len(strPool))]
		}
		if g.r.Chance(15) {
			return g.anyVal(1, true)
		}
		return g.prim(true)
	case t == "any":
		return g.anyVal(2, true)
	default: // numeric
		if g.r.Chance(88) {
			return g.number()
		}
		return g.prim(true)
	}
}

// ---------------------------------------------------------------- histories

var histElemTypes = []string{"int", "int", "i64", "u64", "uint", "f64"}

func (g *gen) storeVal() string {
	switch g.r.Intn(10) {
	case 0:
		return []string{"f:3ff8000000000000", "f:bff8000000000000", "f:7ff8000000000001", "f:43e0000000000000", "s:3132", "u", "b:1", "f:7ff0000000000000", "i64:9007199254740993"}[g.r.Intn(9)]
	case 1:
		return g.number()
	default:
		return fmt.Sprintf("i64:%d", g.r.Intn(100))
	}
}

func (g *gen) sliceHistory() string {
	et := histElemTypes[g.r.Intn(len(histElemTypes))]
	n := g.r.Intn(5)
	capN := n + g.r.Intn(4)
	if capN > 8 {
		capN = 8
	}
	init := make([]string, n)
	for i := range init {
		init[i] = fmt.Sprint(g.r.Intn(50))
	}
	goLen, goCap := n, capN
	if goCap < goLen {
		goCap = goLen
	}
	steps := 1 + g.r.Intn(10)
	var ops []string
	for i := 0; i < steps; i++ {
		idx := g.r.Intn(7)
		switch g.r.Intn(12) {
		case 0, 1:
			ops = append(ops, fmt.Sprintf("jr:%d", idx))
		case 2, 3, 4:
			ops = append(ops, fmt.Sprintf("jw:%d:%s", idx, g.storeVal()))
		case 5:
			ops = append(ops, "jl")
		case 6:
			if g.r.Chance(5) {
				ops = append(ops, "jslneg")
			} else if g.r.Chance(40) {
				ops = append(ops, fmt.Sprintf("jsl:%d", g.r.Intn(12)))
			} else {
				ops = append(ops, fmt.Sprintf("jd:%d", idx))
			}
		case 7:
			if goLen > 0 {
				ops = append(ops, fmt.Sprintf("gr:%d", g.r.Intn(goLen)))
			}
		case 8, 9:
			if goLen > 0 {
				ops = append(ops, fmt.Sprintf("gw:%d:%d", g.r.Intn(goLen), 100+g.r.Intn(100)))
			}
		case 10:
			ops = append(ops, "gl")
		default:
			if goCap <= 8 {
				if goLen < goCap {
					goLen++
				} else {
					if goCap == 0 {
						goCap = 1
					} else {
						goCap *= 2
					}
					goLen++
				}
				ops = append(ops, fmt.Sprintf("ga:%d:%d", 200+g.r.Intn(50), goCap))
			}
		}
	}
	if len(ops) == 0 {
		ops = []string{"jl"}
	}
	is := "-"
	if n > 0 {
		is = strings.Join(init, ",")
	}
	return fmt.Sprintf("slice %s %d %s %s", et, capN, is, strings.Join(ops, ";"))
}

var mapElemTypes = []string{"int", "i8", "u8", "i64", "f64", "f32", "str", "bool", "u64"}

func (g *gen) mapHistory() string {
	et := mapElemTypes[g.r.Intn(len(mapElemTypes))]
	var init []string
	used := map[string]bool{}
	for i := 0; i < g.r.Intn(4); i++ {
		k := keyPool[g.r.Intn(len(keyPool))]
		if !used[k] {
			used[k] = true
			init = append(init, fmt.Sprintf("%s=%d", k, g.r.Intn(50)))
		}
	}
	var ops []string
	for i := 0; i < 1+g.r.Intn(9); i++ {
		k := keyPool[g.r.Intn(len(keyPool))]
		switch g.r.Intn(10) {
		case 0, 1:
			ops = append(ops, "jr:"+k)
		case 2, 3, 4:
			v := g.storeVal()
			if et == "str" && !strings.HasPrefix(v, "s:") && !(strings.Contains(v, ":") && strOK(v)) {
				v = "i64:5"
			}
			ops = append(ops, "jw:"+k+":"+v)
		case 5:
			ops = append(ops, "jd:"+k)
		case 6:
			ops = append(ops, "jk")
		case 7:
			ops = append(ops, "gr:"+k)
		case 8:
			ops = append(ops, fmt.Sprintf("gw:%s:%d", k, 100+g.r.Intn(20)))
		default:
			ops = append(ops, "gd:"+k)
		}
	}
	is := "-"
	if len(init) > 0 {
		is = strings.Join(init, ",")
	} else if g.r.Chance(40) {
		is = "nil" // a nil Go map: Go-side writes are impossible
		var keep []string
		for _, o := range ops {
			if !strings.HasPrefix(o, "gw:") {
				keep = append(keep, o)
			}
		}
		if len(keep) == 0 {
			keep = []string{"jr:a"}
		}
		ops = keep
	}
	return fmt.Sprintf("map %s %s %s", et, is, strings.Join(ops, ";"))
}

func (g *gen) structHistory() string {
	st := g.structType(2)
	for strings.Contains(st, "P(S(") || strings.Contains(st, "P(M(") || strings.Contains(st, "P(any)") {
		// reading a non-nil *slice / *map / *interface{} field throws TypeError "invalid value" in toValue (not modelled)
		st = g.structType(2)
	}
	var ops []string
	for i := 0; i < 1+g.r.Intn(8); i++ {
		k := g.fieldKey(st)
		switch g.r.Intn(6) {
		case 0, 1:
			ops = append(ops, "jr:"+k)
		case 2, 3, 4:
			ft := fieldTypeOf(st, k)
			if ft == "" {
				ft = "int"
			}
			ops = append(ops, "jw:"+k+":"+g.val(ft, 1))
		default:
			fs := splitFields(st)
			ops = append(ops, fmt.Sprintf("gr:%d", g.r.Intn(len(fs)+1)))
		}
	}
	return fmt.Sprintf("struct %s %s", st, strings.Join(ops, ";"))
}

// ---------------------------------------------------------------- observers

func (g *gen) viewRequest() string {
	kind := []string{"slice", "slice", "aptr", "aval", "map", "struct"}[g.r.Intn(6)]
	n := g.r.Intn(5)
	var names []string
	var init, tags []string
	probes := []string{}
	switch kind {
	case "map":
		used := map[string]bool{}
		for i := 0; i < n; i++ {
			k := keyPool[g.r.Intn(len(keyPool))]
			if !used[k] {
				used[k] = true
				names = append(names, k)
				init = append(init, fmt.Sprintf("%s=%d", k, g.r.Intn(10)))
			}
		}
		probes = append(probes, "a", "b", keyPool[g.r.Intn(len(keyPool))], "length", "nope")
	case "struct":
		pool := []string{"A", "Bb", "Cc", "d", "e_"}
		tagPool := []string{"bee", "cee", "zed"}
		if n == 0 {
			n = 1
		}
		for i := 0; i < n; i++ {
			k := pool[i]
			names = append(names, k)
			if k[0] >= 'A' && k[0] <= 'Z' {
				init = append(init, fmt.Sprintf("%s=%d", k, g.r.Intn(10)))
				if g.r.Chance(40) {
					tags = append(tags, tagPool[i%3]+"="+k)
				}
			} else {
				init = append(init, k+"=0") // unexported fields cannot be initialised through reflect
			}
		}
		probes = append(probes, "A", "Bb", "bee", "cee", "d", "zz")
	default:
		for i := 0; i < n; i++ {
			names = append(names, fmt.Sprint(i))
			init = append(init, fmt.Sprintf("%d=%d", i, g.r.Intn(10)))
		}
		probes = append(probes, "0", "length", "x")
		if n > 1 {
			probes = append(probes, fmt.Sprint(n-1))
		}
		if g.r.Chance(50) {
			probes = append(probes, fmt.Sprint(n), fmt.Sprint(n+5))
		}
	}
	var steps []string
	for i := 0; i < g.r.Intn(5); i++ {
		key := "0"
		if len(names) > 0 {
			key = names[g.r.Intn(len(names))]
		}
		v := g.r.Intn(10)
		switch kind {
		case "map":
			if g.r.Chance(30) {
				key = keyPool[g.r.Intn(len(keyPool))]
			}
			switch g.r.Intn(4) {
			case 0:
				steps = append(steps, fmt.Sprintf("jw:%s:%d", key, v))
			case 1:
				steps = append(steps, fmt.Sprintf("gw:%s:%d", key, v))
			case 2:
				steps = append(steps, "jd:"+key)
			default:
				steps = append(steps, "gd:"+key)
			}
		case "struct":
			if !(key[0] >= 'A' && key[0] <= 'Z') {
				continue
			}
			wkey := key
			for _, t := range tags {
				a := strings.SplitN(t, "=", 2)
				if a[1] == key && g.r.Chance(50) {
					wkey = a[0]
				}
			}
			switch g.r.Intn(3) {
			case 0:
				steps = append(steps, fmt.Sprintf("jw:%s:%d", wkey, v))
			case 1:
				steps = append(steps, fmt.Sprintf("gw:%s:%d", key, v))
			default:
				steps = append(steps, "jd:"+key)
			}
		default:
			if len(names) == 0 {
				continue
			}
			switch g.r.Intn(3) {
			case 0:
				steps = append(steps, fmt.Sprintf("jw:%s:%d", key, v))
			case 1:
				steps = append(steps, fmt.Sprintf("gw:%s:%d", key, v))
			default:
				if g.r.Chance(25) {
					key = []string{"foo", "length", "x1"}[g.r.Intn(3)] // delete of a non-index name
				}
				steps = append(steps, "jd:"+key)
			}
		}
	}
	join := func(a []string, sep string) string {
		if len(a) == 0 {
			return "-"
		}
		return strings.Join(a, sep)
	}
	return fmt.Sprintf("view %s %s %s %s %s", kind, join(init, ","), join(tags, ","), strings.Join(probes, ","), join(steps, ";"))
}

// ---------------------------------------------------------------- same-named struct types

func (g *gen) recsRequest() string {
	layouts := map[string][]string{"a": {"X", "Y", "Z"}, "b": {"Y", "X"}, "c": {"Z"}, "d": {"W", "Z", "Y", "X"}}
	order := []string{"a", "b", "c", "d"}
	// a random subset in random order, at least two types
	g.shuffle(order)
	order = order[:2+g.r.Intn(3)]
	var parts []string
	for _, o := range order {
		parts = append(parts, o+"="+strings.Join(layouts[o], ","))
	}
	nvm := 1 + g.r.Intn(3)
	fields := []string{"X", "Y", "Z", "W"}
	var steps []string
	for i := 0; i < 2+g.r.Intn(8); i++ {
		o := order[g.r.Intn(len(order))]
		f := fields[g.r.Intn(len(fields))]
		if g.r.Chance(60) {
			steps = append(steps, fmt.Sprintf("%d.%s.r.%s", g.r.Intn(nvm), o, f))
		} else {
			steps = append(steps, fmt.Sprintf("%d.%s.w.%s.%d", g.r.Intn(nvm), o, f, 100+g.r.Intn(100)))
		}
	}
	return fmt.Sprintf("recs %d %s %s", nvm, strings.Join(parts, "|"), strings.Join(steps, ";"))
}

func (g *gen) shuffle(a []string) {
	for i := len(a) - 1; i > 0; i-- {
		j := g.r.Intn(i + 1)
		a[i], a[j] = a[j], a[i]
	}
}

// ---------------------------------------------------------------- histories of calls

func (g *gen) retsRequest() string {
	var steps []string
	kept := 0
	call := func(prefix string) string {
		switch g.r.Intn(6) {
		case 0:
			return prefix + ".f0"
		case 1:
			return fmt.Sprintf("%s.f1.%d", prefix, g.r.Intn(50))
		case 2, 3:
			return fmt.Sprintf("%s.f2.%d.%d", prefix, g.r.Intn(100), 1+g.r.Intn(9))
		case 4:
			return fmt.Sprintf("%s.f3.%d.%d", prefix, g.r.Intn(20), g.r.Intn(20))
		default:
			return fmt.Sprintf("%s.fe.%d", prefix, g.r.Intn(30))
		}
	}
	for i := 0; i < 2+g.r.Intn(7); i++ {
		switch g.r.Intn(10) {
		case 0:
			steps = append(steps, fmt.Sprintf("t.%d", g.r.Intn(20)))
			kept += 3
		case 1:
			steps = append(steps, call("k"))
		case 2:
			if kept > 0 {
				steps = append(steps, fmt.Sprintf("w.%d.%d.%d", g.r.Intn(kept), g.r.Intn(3), 100+g.r.Intn(100)))
				continue
			}
			fallthrough
		default:
			steps = append(steps, call("c"))
			kept++
		}
	}
	return "rets " + strings.Join(steps, ";")
}
