// Command c02 is the harness binary for property C02.
//
//	ottoh-C02 --facts <out.lean>     regenerate the panic-discipline facts from /repo (go/types)
package main

import (
	"fmt"
	"os"

	"ottoverif/h"
)

func main() {
	if len(os.Args) >= 3 && os.Args[1] == "--facts" {
		if err := writeFacts(repoRoot(), os.Args[2]); err != nil {
			fmt.Fprintln(os.Stderr, err)
			os.Exit(1)
		}
		return
	}
	h.Main("C02")
}

// repoRoot: /repo, or the scratch worktree named by VERIF_REPO (development aid of ./check)
func repoRoot() string {
	if r := os.Getenv("VERIF_REPO"); r != "" {
		return r
	}
	return "/repo"
}
