// Command c02 is the harness binary for property C02.
//
//	ottoh-C02 --facts <out.lean>     regenerate the panic-discipline facts from /repo (go/types)
//	ottoh-C02 --deep-child <kind> <n> <limit>   run one `deep` request and print its token (deep.go)
package main

import (
	"fmt"
	"os"

	"ottoverif/h"
)

func main() {
	if len(os.Args) >= 2 && os.Args[1] == "--deep-child" { // one `deep` request, in a process of its own (deep.go)
		deepChild(os.Args[2:])
		return
	}
	if len(os.Args) >= 3 && os.Args[1] == "--deep-list" { // the deep requests of a tier as a --replay file (development aid)
		c := &h.Ctx{Tier: os.Args[2], Dist: map[string]int{}}
		h.InitCtx(c)
		genDeep(c)
		for _, l := range c.Lines {
			fmt.Println("request: " + l)
		}
		return
	}
	if len(os.Args) >= 3 && os.Args[1] == "--facts" {
		if err := writeFacts(repoRoot(), os.Args[2]); err != nil {
			fmt.Fprintln(os.Stderr, err)
			os.Exit(1)
		}
		return
	}
	h.Main("C02")
}

// repoRoot: /repo, or the scratch worktree named by VERIF_REPO (development aid of ./check)
func repoRoot() string {
	if r := os.Getenv("VERIF_REPO"); r != "" {
		return r
	}
	return "/repo"
}
