// Command c02 is the harness binary for property C02.
//
//	ottoh-C02 --facts <out.lean>     regenerate the panic-discipline facts from /repo (go/types)
package main

import (
	"fmt"
	"os"

	"ottoverif/h"
)

func main() {
	if len(os.Args) >= 3 && os.Args[1] == "--facts" {
		if err := writeFacts("/repo", os.Args[2]); err != nil {
			fmt.Fprintln(os.Stderr, err)
			os.Exit(1)
		}
		return
	}
	h.Main("C02")
}
