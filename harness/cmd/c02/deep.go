package main

// deep <kind> <n> <limit>: nesting depth n — in the source text, or in a structure a script builds
// with a loop — must never exhaust the Go stack.  A Go stack overflow is not a panic: the runtime
// prints "fatal error: stack overflow" and the process is gone, whatever the embedder wrapped around
// the call.  So every request runs in a CHILD process (this binary re-executed with --deep-child),
// with a 256 MB stack ceiling (a quarter of Go's default 1 GB: what passes here has a fourfold
// margin in an embedder's process), a wall-clock limit and a memory ceiling; the parent turns the
// child's fate into the token
//
//	returns                a value or an error came back and the runtime still evaluates 1+1
//	fatal-stack-overflow   the child died of stack exhaustion
//	timeout / oom          the child was still busy after the time limit / passed the memory ceiling
//	gopanic:<msg>          an ordinary Go panic escaped the public API
//	unusable-after         the call returned, the runtime did not evaluate 1+1 afterwards
//
// limit = 0: no stack depth limit configured; otherwise Otto.SetStackDepthLimit(limit).
//
// kind = <entry>:<shape> for source text (entry: the public function that receives the text) or
// js:<build>:<op> for a structure built by a script loop / a Go value of that depth, and an operation
// walking it.

import (
	"bytes"
	"context"
	"fmt"
	"os"
	"os/exec"
	"runtime"
	"runtime/debug"
	"strconv"
	"strings"
	"time"

	"github.com/robertkrimen/otto"
	"github.com/robertkrimen/otto/ast"
	"github.com/robertkrimen/otto/parser"

	"ottoverif/h"
)

func rep(s string, n int) string { return strings.Repeat(s, n) }

// ---------------------------------------------------------------- source shapes

type deepShape struct {
	name string
	src  func(n int) string
}

func binChain(op string) func(int) string {
	return func(n int) string { return "1" + rep(op+"1", n) }
}

var deepShapes = []deepShape{
	// recursive productions
	{"paren", func(n int) string { return rep("(", n) + "1" + rep(")", n) }},
	{"bracket", func(n int) string { return rep("[", n) + rep("]", n) }},
	{"block", func(n int) string { return rep("{", n) + rep("}", n) }},
	{"objlit", func(n int) string { return "x=" + rep("{a:", n) + "1" + rep("}", n) }},
	{"not", func(n int) string { return rep("!", n) + "1" }},
	{"neg", func(n int) string { return rep("- ", n) + "1" }},
	{"typeof", func(n int) string { return rep("typeof ", n) + "1" }},
	{"new", func(n int) string { return "function X(){}; " + rep("new ", n) + "X" }},
	{"fndecl", func(n int) string { return rep("function f(){", n) + rep("}", n) }},
	{"fnexpr", func(n int) string { return rep("(function(){", n) + rep("})", n) }},
	{"iife", func(n int) string { return rep("(function(){return ", n) + "1" + rep("})()", n) }},
	{"scope-lookup", func(n int) string { return "var x=1; " + rep("(function(){return ", n) + "x" + rep("})()", n) }}, // x is found n function scopes up
	{"getter", func(n int) string { return "x=" + rep("{get a(){return ", n) + "1" + rep("}}", n) }},
	{"assign", func(n int) string { return "var a; " + rep("a=", n) + "1" }},
	{"cond-nest", func(n int) string { return rep("1?", n) + "1" + rep(":1", n) }},
	{"cond-right", func(n int) string { return rep("0?1:", n) + "1" }},
	{"arg-nest", func(n int) string { return "function f(x){return x}; " + rep("f(", n) + "1" + rep(")", n) }},
	{"index-nest", func(n int) string { return "var a=[0]; " + rep("a[", n) + "0" + rep("]", n) }},
	{"if-else", func(n int) string { return rep("if(0);else ", n) + ";" }},
	{"if-nest", func(n int) string { return rep("if(1)", n) + ";" }},
	{"while-nest", func(n int) string { return rep("while(0)", n) + ";" }},
	{"for-nest", func(n int) string { return rep("for(;0;)", n) + ";" }},
	{"forin-nest", func(n int) string { return rep("for(var k in {})", n) + ";" }},
	{"do-nest", func(n int) string { return rep("do ", n) + ";" + rep(" while(0);", n) }},
	{"with-nest", func(n int) string { return rep("with(0)", n) + ";" }},
	{"with-lookup", func(n int) string { return "var o={}; " + rep("with(o)", min(n, 3000)) + ";" }},
	{"label-same", func(n int) string { return rep("a:", n) + ";" }},
	{"label", func(n int) string {
		var b strings.Builder
		for i := 0; i < n; i++ {
			fmt.Fprintf(&b, "l%d:", i)
		}
		return b.String() + ";"
	}},
	{"try-nest", func(n int) string { return rep("try{", n) + rep("}finally{}", n) }},
	{"catch-nest", func(n int) string { return rep("try{throw 1}catch(e){", n) + rep("}", n) }},
	{"switch-nest", func(n int) string { return rep("switch(0){default:", n) + rep("}", n) }},
	{"regexp-lit", func(n int) string { return "/" + rep("(", n) + "a" + rep(")", n) + "/" }},
	{"unclosed-paren", func(n int) string { return rep("(", n) }},
	{"unclosed-bracket", func(n int) string { return rep("[", n) }},
	{"unclosed-brace", func(n int) string { return rep("{", n) }},
	{"unclosed-fn", func(n int) string { return rep("function f(){", n) }},
	{"closers", func(n int) string { return rep(")", n) + rep("]", n) + rep("}", n) }},
	// left-deep trees built by loops
	{"plus", binChain("+")},
	{"minus", binChain("-")},
	{"times", binChain("*")},
	{"shift", binChain("<<")},
	{"less", binChain("<")},
	{"instanceof", func(n int) string { return "1" + rep(" instanceof Object", n) }},
	{"in", func(n int) string { return "'a'" + rep(" in {}", n) }},
	{"equal", binChain("==")},
	{"bitand", binChain("&")},
	{"bitxor", binChain("^")},
	{"bitor", binChain("|")},
	{"and", binChain("&&")},
	{"or", func(n int) string { return "0" + rep("||0", n) }},
	{"comma", binChain(",")},
	{"strcat", func(n int) string { return `""` + rep(`+"a"`, n) }},
	{"dot", func(n int) string { return "var a={}; a.a=a; a" + rep(".a", n) }},
	{"index", func(n int) string { return "var a=[]; a[0]=a; a.toString=function(){return 'a'}; a" + rep("[0]", n) }}, // (toString: an array that holds itself never finishes join without a limit)
	{"call", func(n int) string { return "function f(){return f}; f" + rep("()", n) }},
	{"new-call", func(n int) string { return "function F(){return F}; " + rep("new ", n) + "F" + rep("()", n) }},
	{"var-list", func(n int) string { return "var a=1" + rep(",a=1", n) }},
	{"stmts", func(n int) string { return rep("1;", n) }},
	{"else-if-blocks", func(n int) string { return rep("if(0){}else ", n) + "{}" }},
}

func deepShapeByName(name string) *deepShape {
	for i := range deepShapes {
		if deepShapes[i].name == name {
			return &deepShapes[i]
		}
	}
	return nil
}

// the public functions that take source text
var deepEntries = []string{"run", "compile", "eval", "call", "object", "jseval", "jsfunction", "parse", "parsec", "walk"}

func deepSource(vm *otto.Otto, entry, src string) {
	switch entry {
	case "run":
		vm.Run(src)
	case "compile":
		if s, err := vm.Compile("", src); err == nil {
			vm.Run(s)
		}
	case "eval":
		vm.Eval(src)
	case "call":
		vm.Call(src, nil)
	case "object":
		vm.Object(src)
	case "jseval":
		vm.Set("s", src)
		vm.Run("eval(s)")
	case "jsfunction":
		vm.Set("s", src)
		vm.Run("Function(s)()")
	case "parse", "parsec", "walk":
		mode := parser.Mode(0)
		if entry == "parsec" {
			mode = parser.StoreComments
		}
		prog, _ := parser.ParseFile(nil, "", src, mode)
		if entry == "walk" && prog != nil {
			ast.Walk(nopVisitor{}, prog)
		}
	}
}

type nopVisitor struct{}

func (nopVisitor) Enter(ast.Node) ast.Visitor { return nopVisitor{} }
func (nopVisitor) Exit(ast.Node)              {}

// ---------------------------------------------------------------- structures built by a loop

// build: JavaScript with N for the depth (leaves the structure in `a`), or a Go value
var deepBuilds = map[string]string{
	"arr":    `var a = []; for (var i = 0; i < $N; i++) a = [a];`,
	"obj":    `var a = {}; for (var i = 0; i < $N; i++) a = {p: a};`,
	"objP":   `var a = {}; for (var i = 0; i < $N; i++) a = {P: a};`,
	"mixed":  `var a = 1; for (var i = 0; i < $N; i++) a = (i & 1) ? [a] : {p: a};`,
	"proto":  `var a = {}; for (var i = 0; i < $N; i++) a = Object.create(a);`,
	"bind":   `var a = function(){ return 1 }; for (var i = 0; i < $N; i++) a = a.bind(null);`,
	"cycarr": `var a = []; a[0] = a;`,
	"cycobj": `var a = {}; a.p = a;`,
	"goarr":  "",
	"gomap":  "",
	// a getter on every level of a prototype chain is script recursion (each getter a scope): not here
}

type deepOp struct {
	name      string
	builds    []string
	needLimit bool // the recursion runs through scopes: the property promises an end only with a limit
	js        string
	goOp      func(vm *otto.Otto, a otto.Value)
}

var allData = []string{"arr", "obj", "mixed", "goarr", "gomap"}
var dataAndCyc = []string{"arr", "obj", "mixed", "goarr", "gomap", "cycarr", "cycobj"}
var jsDataAndCyc = []string{"arr", "obj", "mixed", "cycarr", "cycobj"}

var deepOps = []deepOp{
	// JSON.stringify: its nesting counts against the stack depth limit like nested calls do; without a
	// limit it is in the class of String(a) — recursion as deep as the script's data
	{name: "stringify", builds: dataAndCyc, needLimit: true, js: `JSON.stringify(a)`},
	{name: "stringify-indent", builds: allData, needLimit: true, js: `JSON.stringify(a, null, 1)`},
	{name: "stringify-replacer", builds: allData, needLimit: true, js: `JSON.stringify(a, function(k, v){ return v })`},
	{name: "stringify-list", builds: allData, needLimit: true, js: `JSON.stringify(a, ["p", "0"])`},
	{name: "stringify-wrap", builds: []string{"cycobj"}, needLimit: true, js: `JSON.stringify({a: 1}, function(k, v){ return [v] })`},
	{name: "String", builds: dataAndCyc, needLimit: true, js: `String(a)`},
	{name: "concat-str", builds: allData, needLimit: true, js: `a + ""`},
	{name: "eq-str", builds: allData, needLimit: true, js: `a == "x"`},
	{name: "join", builds: []string{"arr", "goarr", "cycarr"}, needLimit: true, js: `Array.prototype.join.call(a)`},
	{name: "toLocaleString", builds: []string{"arr", "cycarr"}, needLimit: true, js: `a.toLocaleString()`},
	{name: "sort", builds: []string{"arr"}, needLimit: true, js: `[a, a].sort()`},
	{name: "keys", builds: dataAndCyc, js: `Object.keys(a).length`},
	{name: "go-export", builds: dataAndCyc, goOp: func(vm *otto.Otto, a otto.Value) { a.Export() }},
	// (MarshalJSON of a bridged Go value is encoding/json on the embedder's own data: not asked here)
	{name: "go-marshal", builds: jsDataAndCyc, needLimit: true, goOp: func(vm *otto.Otto, a otto.Value) { a.MarshalJSON() }},
	{name: "go-objmarshal", builds: jsDataAndCyc, needLimit: true, goOp: func(vm *otto.Otto, a otto.Value) {
		if a.IsObject() {
			a.Object().MarshalJSON()
		}
	}},
	{name: "go-string", builds: dataAndCyc, needLimit: true, goOp: func(vm *otto.Otto, a otto.Value) { _ = a.String() }},
	{name: "go-tostring", builds: dataAndCyc, needLimit: true, goOp: func(vm *otto.Otto, a otto.Value) { a.ToString() }},
	{name: "go-tofloat", builds: allData, needLimit: true, goOp: func(vm *otto.Otto, a otto.Value) { a.ToFloat() }},
	{name: "go-copy", builds: []string{"arr", "obj", "mixed", "proto", "bind", "cycarr", "cycobj", "goarr", "gomap"}, goOp: func(vm *otto.Otto, a otto.Value) {
		c := vm.Copy()
		c.Run("1+1")
		c.Run("a")
	}},
	{name: "go-tovalue-export", builds: []string{"goarr", "gomap"}, goOp: func(vm *otto.Otto, a otto.Value) {
		if x, err := a.Export(); err == nil {
			if v, err := vm.ToValue(x); err == nil {
				v.Export()
			}
		}
	}},
	// prototype chains
	{name: "get-missing", builds: []string{"proto"}, js: `a.zzz`},
	{name: "get-inherited", builds: []string{"proto"}, js: `a.hasOwnProperty`},
	{name: "call-inherited", builds: []string{"proto"}, js: `a.toString()`},
	{name: "in", builds: []string{"proto"}, js: `"zzz" in a`},
	{name: "put", builds: []string{"proto"}, js: `a.zzz = 1`},
	{name: "delete", builds: []string{"proto"}, js: `delete a.zzz`},
	{name: "for-in", builds: []string{"proto"}, js: `var c = 0; for (var k in a) c++; c`},
	{name: "instanceof", builds: []string{"proto"}, js: `(a instanceof Object) + (a instanceof Array)`},
	{name: "isPrototypeOf", builds: []string{"proto"}, js: `Object.prototype.isPrototypeOf(a) + Array.prototype.isPrototypeOf(a)`},
	{name: "define", builds: []string{"proto"}, js: `Object.defineProperty(a, "q", {value: 1}); a.q`},
	{name: "stringify-proto", builds: []string{"proto"}, js: `JSON.stringify(a)`},
	{name: "go-param-iface", builds: dataAndCyc, js: `goIface(a)`},
	{name: "go-param-node", builds: []string{"objP", "cycobj"}, js: `goNode(a)`},
	{name: "go-param-tree", builds: []string{"arr", "cycarr"}, js: `goTree(a)`},
	{name: "go-param-map", builds: []string{"obj", "objP", "cycobj"}, js: `goMap(a)`},
	{name: "with-lookup", builds: []string{"proto"}, js: `with (a) { typeof zzz }`},
	{name: "go-keysbyparent", builds: []string{"proto"}, goOp: func(vm *otto.Otto, a otto.Value) {
		a.Object().KeysByParent()
		a.Object().Keys()
		a.Object().Get("zzz")
		a.Object().Set("zzz", 1)
	}},
	{name: "go-export-proto", builds: []string{"proto"}, goOp: func(vm *otto.Otto, a otto.Value) { a.Export() }},
	// bound-function chains: a bound function passes the call on without a scope of its own
	{name: "call-bound", builds: []string{"bind"}, js: `a()`},
	{name: "new-bound", builds: []string{"bind"}, js: `new a()`},
	{name: "instanceof-bound", builds: []string{"bind"}, js: `({}) instanceof a`},
	{name: "apply-bound", builds: []string{"bind"}, js: `a.apply(null, [1, 2])`},
	{name: "props-bound", builds: []string{"bind"}, js: `a.length + a.name + typeof a + String(a)`},
	{name: "callback-bound", builds: []string{"bind"}, js: `[1].map(a)`},
	{name: "go-call-bound", builds: []string{"bind"}, goOp: func(vm *otto.Otto, a otto.Value) { a.Call(otto.UndefinedValue()) }},
}

// self-contained scripts (n is their size where they have one)
var deepScripts = []struct {
	name      string
	needLimit bool
	js        string
}{
	// a direct eval enters no scope
	{"evalself", true, `var s = 'eval(s)'; eval(s)`},
	{"evalself-try", true, `var s = 'eval(s)', r = 0; try { eval(s) } catch (e) { r = e instanceof RangeError } r`},
	{"evalself-fn", true, `var s = 'eval(s)'; (function(){ eval(s) })()`},
	{"evalself-nested", true, `var s = "eval('eval(s)')"; eval(s)`},
	{"evalself-var", true, `var s = 'var x = eval(s)'; eval(s)`},
	{"evalself-Function", true, `var s = 'eval(s)'; Function("eval(s)")()`},
	// the same through an ordinary cycle (each level a scope)
	{"recurse", true, `function f(){ return f() } f()`},
	{"cyc-join", true, `var a = []; a[0] = a; a.join()`},
	{"cyc-toString", true, `var o = {}; o.toString = Array.prototype.join; o.length = 1; o[0] = o; String(o)`},
	{"cyc-error", true, `var e = new Error("x"); e.message = e; String(e)`},
	{"cyc-valueOf-date", true, `var o = {}; o.valueOf = function(){ return +new Date(o) }; +o`},
	// texts of depth $N handed to the built-ins that parse
	{"json-parse", false, `var s = new Array($N + 1).join("[") + new Array($N + 1).join("]"); try { JSON.parse(s) } catch (e) {} 0`},
	{"json-parse-reviver", false, `var s = new Array($N + 1).join("[") + new Array($N + 1).join("]"); try { JSON.parse(s, function(k, v){ return v }) } catch (e) {} 0`},
	{"json-parse-obj", false, `var s = new Array($N + 1).join('{"a":') + "1" + new Array($N + 1).join("}"); try { JSON.parse(s) } catch (e) {} 0`},
	{"regexp-ctor", false, `var s = new Array($N + 1).join("(") + "a" + new Array($N + 1).join(")"); try { new RegExp(s) } catch (e) {} 0`},
	{"regexp-class", false, `var s = new Array($N + 1).join("(?:a|") + "a" + new Array($N + 1).join(")*"); try { new RegExp(s).test("aaaa") } catch (e) {} 0`},
	{"replace-callback", false, `new Array(Math.min($N, 20000) + 1).join("a").replace(/a/g, function(m){ return m + m }).length`},
	{"split-join", false, `new Array($N + 1).join("a,").split(",").join("").length`},
	{"apply-args", false, `var b = []; b.length = Math.min($N, 200000); Math.max.apply(null, b)`},
	{"array-ctor-nest", false, `var a = 1; for (var i = 0; i < $N; i++) a = new Array(a, a); 0`},
	{"error-cause-chain", false, `var e = new Error("0"); for (var i = 0; i < Math.min($N, 300000); i++) { var f = new Error("e"); f.cause = e; f.inner = e; e = f } String(e)`},
	{"closure-chain-build", false, `var f = function(){ return 1 }; for (var i = 0; i < Math.min($N, 300000); i++) f = (function(g){ return function(){ return g } })(f); typeof f()`},
	{"arguments-chain", true, `var a = (function(){ return arguments })(); for (var i = 0; i < Math.min($N, 300000); i++) a = (function(){ return arguments })(a); JSON.stringify(a) === undefined`},
}

type deepNode struct{ P *deepNode }
type deepTree []deepTree
type deepMap map[string]deepMap

func goNested(kind string, n int) interface{} {
	var v interface{} = 1
	for i := 0; i < n; i++ {
		if kind == "goarr" {
			v = []interface{}{v}
		} else {
			v = map[string]interface{}{"p": v}
		}
	}
	return v
}

// ---------------------------------------------------------------- the child

func deepRun(kind string, n, limit int) string {
	vm := otto.New()
	if limit > 0 {
		vm.SetStackDepthLimit(limit)
	}
	vm.Set("goIface", func(x interface{}) int { return 1 })
	vm.Set("goNode", func(x *deepNode) int { return 1 })
	vm.Set("goTree", func(x deepTree) int { return len(x) })
	vm.Set("goMap", func(x deepMap) int { return len(x) })
	parts := strings.Split(kind, ":")
	if tok, ok := deepRunExtra(vm, parts, n); ok { // big:, smap:, nilsrc: (deep2.go)
		if tok != "" {
			return tok
		}
		if v, err := vm.Run("1+1"); err != nil || v.String() != "2" {
			return "unusable-after"
		}
		return "returns"
	}
	switch {
	case parts[0] == "js" && len(parts) == 3:
		build, opName := parts[1], parts[2]
		var op *deepOp
		for i := range deepOps {
			if deepOps[i].name == opName {
				op = &deepOps[i]
			}
		}
		bjs, ok := deepBuilds[build]
		if op == nil || !ok {
			return "bad-op"
		}
		if bjs == "" {
			vm.Set("a", goNested(build, n))
		} else if _, err := vm.Run(strings.ReplaceAll(bjs, "$N", fmt.Sprint(n))); err != nil {
			return "build:" + h.Sanitize(err.Error())
		}
		if op.goOp != nil {
			a, _ := vm.Get("a")
			op.goOp(vm, a)
		} else {
			vm.Run(op.js)
		}
	case parts[0] == "script" && len(parts) == 2:
		found := false
		for _, s := range deepScripts {
			if s.name == parts[1] {
				found = true
				vm.Run(strings.ReplaceAll(s.js, "$N", fmt.Sprint(n)))
			}
		}
		if !found {
			return "bad-op"
		}
	case len(parts) == 2:
		sh := deepShapeByName(parts[1])
		if sh == nil {
			return "bad-op"
		}
		known := false
		for _, e := range deepEntries {
			known = known || e == parts[0]
		}
		if !known {
			return "bad-op"
		}
		deepSource(vm, parts[0], sh.src(n))
	default:
		return "bad-op"
	}
	if v, err := vm.Run("1+1"); err != nil || v.String() != "2" {
		return "unusable-after"
	}
	return "returns"
}

const deepMemCeiling = 6 << 30

// deepChild is what `ottoh-C02 --deep-child <kind> <n> <limit>` runs (see main.go).
func deepChild(args []string) {
	stackMB := 256
	if v, err := strconv.Atoi(os.Getenv("VERIF_DEEP_MAXSTACK_MB")); err == nil && v > 0 {
		stackMB = v // measurement aid: how much stack do the trees just below the parser's limit need?
	}
	debug.SetMaxStack(stackMB << 20)
	if len(args) != 3 {
		fmt.Println("bad-op")
		return
	}
	var n, limit int
	fmt.Sscan(args[1], &n)
	fmt.Sscan(args[2], &limit)
	go func() {
		for {
			time.Sleep(100 * time.Millisecond)
			var ms runtime.MemStats
			runtime.ReadMemStats(&ms)
			if ms.Sys > deepMemCeiling {
				fmt.Println("oom")
				os.Exit(0)
			}
		}
	}()
	tok := func() (tok string) {
		defer func() {
			if r := recover(); r != nil {
				tok = "gopanic:" + h.Sanitize(fmt.Sprint(r))
			}
		}()
		return deepRun(args[0], n, limit)
	}()
	fmt.Println(tok)
}

// ---------------------------------------------------------------- the parent

// at most this many children with a big structure at a time (memory), any number of small ones
var deepBigSem = make(chan struct{}, 6)

type headBuf struct {
	b bytes.Buffer
}

func (w *headBuf) Write(p []byte) (int, error) {
	if room := 2048 - w.b.Len(); room > 0 {
		if len(p) < room {
			room = len(p)
		}
		w.b.Write(p[:room])
	}
	return len(p), nil
}

func implDeep(f []string) string {
	if len(f) != 4 {
		return "bad-op"
	}
	var n int
	fmt.Sscan(f[2], &n)
	if n >= 1000000 && !strings.HasPrefix(f[1], "big:") {
		deepBigSem <- struct{}{}
		defer func() { <-deepBigSem }()
	}
	ctx, cancel := context.WithTimeout(context.Background(), 60*time.Second)
	defer cancel()
	// /proc/self/exe, not os.Args[0]: the running image, whatever a concurrent build has put at the path since
	cmd := exec.CommandContext(ctx, "/proc/self/exe", "--deep-child", f[1], f[2], f[3])
	cmd.Env = append(os.Environ(), "GOMEMLIMIT=4GiB", "GOTRACEBACK=none")
	var out, errb headBuf
	cmd.Stdout, cmd.Stderr = &out, &errb
	err := cmd.Run()
	if ctx.Err() != nil {
		return "timeout"
	}
	so, se := strings.TrimSpace(out.b.String()), errb.b.String()
	if err == nil {
		if so == "" || strings.ContainsAny(so, " \n") {
			return "child-said:" + h.Sanitize(so)
		}
		return so
	}
	switch {
	case strings.Contains(se, "stack overflow") || strings.Contains(se, "stack exceeds"):
		return "fatal-stack-overflow"
	case strings.Contains(se, "out of memory") || strings.Contains(se, "cannot allocate"):
		return "oom"
	}
	first := se
	if i := strings.IndexByte(first, '\n'); i >= 0 {
		first = first[:i]
	}
	return "died:" + h.Sanitize(err.Error()+":"+first)
}

// ---------------------------------------------------------------- generation

// deepCoreShapes go through every entry in the quick tier (all shapes do in thorough)
var deepCoreShapes = map[string]bool{"paren": true, "bracket": true, "block": true, "objlit": true, "not": true, "fndecl": true,
	"iife": true, "cond-nest": true, "plus": true, "dot": true, "call": true, "if-else": true, "try-nest": true, "label": true, "new": true}

func genDeep(c *h.Ctx) {
	genDeepExtra(c)
	// the parser's nesting limit is 10000 and a shape costs 1-3 levels per repetition: 3300/4900/9900 sit
	// just below it (the deepest trees every later stage has to survive), the rest far above
	srcRungs := []int{1000, 4900, 9900, 100000, 1000000}
	otherRungs := []int{9900, 100000}
	jsRungs := []int{100000}
	bigOps := map[string]bool{"go-copy": true, "get-missing": true, "in": true, "put": true, "go-export": true}
	bindRungs := []int{1000, 10000}
	limits := []int{0, 100}
	if c.Thorough() {
		srcRungs = []int{100, 3300, 4900, 9900, 10010, 100000, 3000000}
		otherRungs = []int{9900, 10010, 100000}
		jsRungs = []int{1000, 9000, 11000, 1000000}
		bindRungs = []int{100, 1000, 10000, 30000}
		limits = []int{0, 100, 1000, 10}
	}
	for _, sh := range deepShapes {
		for _, e := range deepEntries {
			rungs := srcRungs
			if e != "run" {
				if !c.Thorough() && !deepCoreShapes[sh.name] {
					continue
				}
				rungs = otherRungs
			}
			for _, n := range rungs {
				for _, L := range limits {
					switch {
					case L != 0 && (e == "parse" || e == "parsec" || e == "walk"):
						continue // no runtime involved
					case L != 0 && e != "run" && e != "jseval" && e != "jsfunction":
						continue // source text must return, limit or not: the limit is varied with Run and the script-level entries
					case L != 0 && (L != 100 || !c.Thorough()) && n != 9900 && n != 100000:
						continue // the other limits at two rungs only (quick: also 100)
					case L != 0 && L != 100 && e != "run":
						continue
					}
					c.Add(fmt.Sprintf("deep %s:%s %d %d", e, sh.name, n, L), "deep:source:"+e)
				}
			}
		}
	}
	for _, op := range deepOps {
		for _, b := range op.builds {
			rungs := jsRungs
			switch {
			case strings.HasPrefix(b, "cyc"):
				rungs = []int{0}
			case b == "bind":
				rungs = bindRungs // "bound bound ... f": the name makes a chain of n cost n*n/2*6 bytes
			case !c.Thorough() && bigOps[op.name]:
				rungs = append(append([]int{}, jsRungs...), 1000000)
			case c.Thorough() && bigOps[op.name] && op.name != "go-copy":
				rungs = append(append([]int{}, jsRungs...), 3000000)
			}
			for _, n := range rungs {
				for _, L := range limits {
					if L == 0 && op.needLimit {
						continue
					}
					if L != 0 && L != 100 && n != 11000 && n != 0 {
						continue // the other limits at one rung (and on the cyclic values)
					}
					c.Add(fmt.Sprintf("deep js:%s:%s %d %d", b, op.name, n, L), "deep:structure:"+b)
				}
			}
		}
	}
	for _, s := range deepScripts {
		rungs := jsRungs
		if !strings.Contains(s.js, "$N") {
			rungs = []int{0}
		}
		for _, n := range rungs {
			for _, L := range limits {
				if L == 0 && s.needLimit {
					continue
				}
				c.Add(fmt.Sprintf("deep script:%s %d %d", s.name, n, L), "deep:script")
			}
		}
	}
}
