package main

import (
	"fmt"
	"reflect"

	"github.com/robertkrimen/otto"

	"ottoverif/h"
)

// goapi2 <k>: the Go API used in unusual but legal ways.  Every scenario must return to the caller
// (a value or an error), whatever the script-side objects do.

type thrower struct{}

var goAPI2 = []struct {
	name string
	run  func(vm *otto.Otto)
}{
	{"string-param-gets-utf16-held-string", func(vm *otto.Otto) {
		vm.Set("f", func(s string) string { return s })
		vm.Set("g", func(a int, s ...string) int { return a + len(s) })
		vm.Set("h", func(m map[string]string, l []string) int { return len(m) + len(l) })
		vm.Run(`f(String.fromCharCode(65))`)
		vm.Run(`f(String.fromCharCode(0xD800)) + g(1, String.fromCharCode(66), "😀".slice(0,1))`)
		vm.Run(`h({a: String.fromCharCode(67)}, [String.fromCharCode(68)])`)
	}},
	{"thrown-value-whose-conversion-throws", func(vm *otto.Otto) {
		vm.Run(`throw {toString: function(){ throw 1 }}`)
		vm.Run(`throw {toString: function(){ return {} }, valueOf: function(){ return {} }}`)
		vm.Run(`throw {get message(){ throw 2 }, get name(){ throw 3 }}`)
		vm.Run(`var e = new Error("x"); Object.defineProperty(e, "message", {get: function(){ throw 4 }}); throw e`)
		vm.Eval(`throw {toString: function(){ throw 1 }}`)
		vm.Call(`(function(){ throw {toString: function(){ throw 1 }} })`, nil)
	}},
	{"value-readers-on-throwing-conversions", func(vm *otto.Otto) {
		for _, src := range []string{`({valueOf: function(){ throw 1 }, toString: function(){ throw 2 }})`, `({valueOf: function(){ return {} }, toString: function(){ return {} }})`, `({get x(){ throw 3 }})`, `(function(){ var a = []; a[0] = a; return a })()`} {
			v, err := vm.Run(src)
			if err != nil {
				continue
			}
			v.IsNaN()
			v.ToString()
			v.ToInteger()
			v.ToFloat()
			v.ToBoolean()
			_ = v.String()
			v.Class()
			v.Export()
			v.MarshalJSON()
			v.IsFunction()
			v.Call(otto.UndefinedValue())
			if v.IsObject() {
				o := v.Object()
				o.Get("x")
				o.Set("y", v)
				o.Keys()
				o.KeysByParent()
				o.Call("toString")
				o.Call("nope")
				o.MarshalJSON()
			}
			vm.Set("w", v)
			vm.ToValue(v)
		}
	}},
	{"host-function-called-with-no-script-running", func(vm *otto.Otto) {
		vm.Set("loc", func(c otto.FunctionCall) otto.Value {
			c.CallerLocation()
			c.Otto.Context()
			c.Otto.ContextSkip(5, true)
			c.Argument(3)
			c.ArgumentList = nil
			c.Argument(0)
			v, _ := otto.ToValue(1)
			return v
		})
		fn, _ := vm.Get("loc")
		fn.Call(otto.UndefinedValue())
		fn.Call(otto.NullValue(), 1, 2)
		vm.Call("loc", nil)
		vm.Context()
		vm.ContextLimit(-1)
		vm.ContextSkip(100, false)
	}},
	{"nil-go-values", func(vm *otto.Otto) {
		v, _ := vm.Run(`5`)
		vm.Set("x", v.Object()) // nil *Object
		vm.Run(`x; typeof x; String(x)`)
		var np *goPoint
		vm.Set("np", np)
		vm.Run(`np; np && np.A; typeof np`)
		var nf func(int) int
		vm.Set("nf", nf)
		vm.Run(`typeof nf; try { nf(1) } catch (e) {}`)
		vm.Set("nm", map[string]int(nil))
		vm.Run(`nm.a; "a" in nm; Object.keys(nm); try { nm.a = 1 } catch (e) {}; delete nm.a`)
		vm.Set("ns", []int(nil))
		vm.Run(`ns.length; ns[0]; try { ns.push(1) } catch (e) {}; try { ns[0] = 1 } catch (e) {}`)
		var ni interface{}
		vm.Set("ni", ni)
		var ne error
		vm.Set("ne", ne)
		vm.Set("", 1)
		vm.Get("")
		vm.ToValue(nil)
	}},
	{"script-callback-converted-to-go-func-throws", func(vm *otto.Otto) {
		vm.Set("apply", func(cb func(int) int) int { return cb(1) })
		vm.Set("applyS", func(cb func(string) string) string { return cb("s") })
		vm.Run(`try { apply(function(x){ throw new RangeError("r") }) } catch (e) { String(e) }`)
		vm.Run(`apply(function(x){ throw 1 })`)
		vm.Run(`apply(function(x){ return {} })`)
		vm.Run(`applyS(function(x){ return String.fromCharCode(0xD800) })`)
		vm.Run(`apply(function(x){ return apply(function(y){ null.z }) })`)
	}},
	{"marshal-and-export-of-non-data", func(vm *otto.Otto) {
		for _, src := range []string{`(function(){})`, `undefined`, `/x/g`, `new Date(NaN)`, `Math`, `this`, `(function(){ return arguments })(1)`, `Object.create(null)`, `new Error("e")`} {
			if v, err := vm.Run(src); err == nil {
				v.MarshalJSON()
				v.Export()
				if v.IsObject() {
					v.Object().MarshalJSON()
				}
			}
		}
	}},
	{"call-with-odd-sources-and-receivers", func(vm *otto.Otto) {
		vm.Run(`var log = []; function f(a){ log.push("f" + a) } function g(a){ log.push("g" + a) } var o = {m: function(){ return this }}`)
		vm.Call("f(); g", nil, 7)
		vm.Call("o.m", nil)
		vm.Call("o.m", thrower{}, 1)
		vm.Call("new o.m", nil)
		vm.Call("new", nil)
		vm.Call("o.nope", nil)
		vm.Call("f", make(chan int))
		vm.Call("f", nil, make(chan int), complex(1, 2), struct{ a int }{1}, &struct{ A func() }{})
		vm.Call("f", nil, []interface{}{func() {}, make(chan int)})
	}},
	{"objects-and-copies", func(vm *otto.Otto) {
		o, err := vm.Object(`({a: 1, get b(){ throw 1 }})`)
		if err == nil {
			o.Get("b")
			o.Set("a", func() {})
			o.Set("c", make(chan int))
			o.Call("a")
			o.Call("b")
			o.Keys()
			o.Value().Export()
		}
		cp := vm.Copy()
		cp.Run(`f && f("x")`)
		cp.Copy().Run(`1`)
		vm.Object(`throw 1`)
		vm.Object(`5`)
		vm.Object(``)
		vm.MakeCustomError("", "")
		vm.MakeCustomError("%s", "%d")
		vm.MakeTypeError("%!")
	}},
	{"reflect-values-handed-to-the-api", func(vm *otto.Otto) {
		// a zero reflect.Value (what reflect.ValueOf(nil) gives), one from an unexported field, nil pointers,
		// nil maps/slices/funcs/interfaces/channels wrapped in reflect.Value (b3a477e)
		type priv struct {
			a int
			B *int
			C map[string]int
			D []int
			E func()
			F interface{}
			G chan int
		}
		rv := reflect.ValueOf(priv{a: 1})
		vals := []interface{}{reflect.Value{}, rv.Field(0), rv.Field(1), rv.Field(2), rv.Field(3), rv.Field(4), rv.Field(5), rv.Field(6),
			reflect.ValueOf(&priv{}), reflect.ValueOf((*priv)(nil)), reflect.ValueOf(reflect.Value{}), reflect.ValueOf(rv)}
		for i, v := range vals {
			vm.ToValue(v)
			otto.ToValue(v)
			vm.Set(fmt.Sprintf("rv%d", i), v)
			vm.Run(fmt.Sprintf(`typeof rv%d; String(rv%d); rv%d && rv%d.x; JSON.stringify(rv%d)`, i, i, i, i, i))
			vm.Call(`(function(x){ return typeof x })`, nil, v)
			vm.Call(`Object.keys`, nil, v)
		}
	}},
	{"argument-mutated-while-it-is-converted", func(vm *otto.Otto) {
		// converting a script array / object into a Go slice, array, map or struct parameter reads its
		// elements, which can run script (accessors, inherited accessors behind holes, toString for []string)
		// that grows, shrinks or replaces the very array being converted (seed P01)
		vm.Set("ints", func(a []int) int { return len(a) })
		vm.Set("strs", func(a []string) int { return len(a) })
		vm.Set("ifaces", func(a []interface{}) int { return len(a) })
		vm.Set("arr3", func(a [3]int) int { return a[0] })
		vm.Set("nested", func(a [][]int) int { return len(a) })
		vm.Set("vari", func(a ...int) int { return len(a) })
		vm.Set("smap", func(m map[string]int) int { return len(m) })
		vm.Set("st", func(s struct{ A, B int }) int { return s.A })
		for _, fn := range []string{"ints", "strs", "ifaces", "arr3", "nested", "smap", "st"} {
			for _, mut := range []string{"a.push(1, 2, 3)", "a.length = 100", "a.length = 0", "a.pop()", "a[50] = 1", "delete a[2]", "a.splice(0, 2)", "a.unshift(9, 9)", "Object.defineProperty(a, 'length', {writable: false})"} {
				vm.Run(`var a = [1, 2, 3]; Object.defineProperty(a, 1, {get: function(){ ` + mut + `; return 7 }, configurable: true}); ` + fn + `(a)`)
				vm.Run(`var a = [1, , 3]; Object.defineProperty(Array.prototype, 1, {get: function(){ ` + mut + `; return 7 }, configurable: true}); try { ` + fn + `(a) } finally { delete Array.prototype[1] }`)
				vm.Run(`var a = [1, {toString: function(){ ` + mut + `; return "7" }, valueOf: function(){ ` + mut + `; return 7 }}, 3]; ` + fn + `(a)`)
				vm.Run(`var a = {A: 1, get B(){ delete this.A; this.C = 1; return 2 }}; ` + fn + `(a)`)
			}
		}
		vm.Run(`var a = [1, 2, 3]; Object.defineProperty(a, 0, {get: function(){ a.push(4, 5, 6, 7); return 7 }}); vari.apply(null, a)`)
		vm.Run(`var a = [[1], [2]]; Object.defineProperty(a[0], 0, {get: function(){ a.push([3], [4]); a[1].push(5, 6); return 7 }}); nested(a)`)
	}},
	{"context-with-throwing-getters", func(vm *otto.Otto) {
		// Context / ContextLimit / ContextSkip read every visible binding: accessor properties of with objects
		// and of the global object run script that may throw (2253018)
		vm.Set("ctx", func(call otto.FunctionCall) otto.Value {
			call.Otto.Context()
			call.Otto.ContextLimit(1)
			call.Otto.ContextSkip(3, false)
			return otto.UndefinedValue()
		})
		vm.Run(`var o = {get bad(){ throw new Error("boom") }, get worse(){ throw {toString: function(){ throw 1 }} }, ok: 1}; with (o) { (function(){ ctx() })() }`)
		vm.Run(`Object.defineProperty(this, "gbad", {get: function(){ throw new Error("boom") }, enumerable: true, configurable: true}); ctx()`)
		vm.Run(`Object.defineProperty(this, "gloop", {get: function(){ return ctx() }, enumerable: true, configurable: true})`)
		vm.Context()
		vm.ContextLimit(0)
		vm.ContextSkip(-1, true)
		vm.Run(`delete this.gbad; delete this.gloop`)
	}},
}

func implGoAPI2(k int) string {
	if k < 0 || k >= len(goAPI2) {
		return "bad-op"
	}
	return guarded("goapi2 "+goAPI2[k].name, func() string {
		vm := newVM()
		stop := watchdog(vm)
		defer stop()
		goAPI2[k].run(vm)
		if v, err := vm.Run("1+1"); err != nil || v.String() != "2" {
			return "unusable-after"
		}
		return "returns"
	})
}

func genGoAPI2(c *h.Ctx) {
	for k := range goAPI2 {
		c.Add(fmt.Sprintf("goapi2 %d", k), "goapi2:"+goAPI2[k].name)
	}
}
