package main

import (
	"fmt"
	"strings"

	"github.com/robertkrimen/otto"

	"ottoverif/h"
)

// recur <L> <cap> <kind>: a self-limiting recursion (it stops by itself after cap levels, so a
// missing guard shows as "returned"/"runaway", not as a dead process) whose cycle passes through
// one of the routes by which the interpreter enters a scope.  With cap >= L the property demands a
// RangeError the script can catch, a counter that never passed L, and a usable runtime afterwards;
// with 4*cap+5 < L the recursion must simply return.

// each cycle: JavaScript for "call step() once more through this route"; go = host function needed
var recurKinds = []struct {
	name, js string
}{
	{"plain", `step()`},
	{"indirect-eval", `geval("step()")`},
	{"comma-eval", `(0,eval)("step()")`},
	{"eval-call", `eval.call(null, "step()")`},
	{"direct-eval", `eval("step()")`},
	{"Function-ctor", `Fn()`},
	{"getter", `og.p`},
	{"setter", `(os.p = 1, 0)`},
	{"valueOf", `(ov + 1, 0)`},
	{"toString", `(String(ot), 0)`},
	{"forEach", `([1].forEach(function(){ step() }), 0)`},
	{"map", `[1].map(function(){ return step() })[0]`},
	{"reduce", `[1,2].reduce(function(){ return step() })`},
	{"sort", `([2,1].sort(function(){ step(); return 0 }), 0)`},
	{"replace", `("a".replace(/a/, function(){ step(); return "" }), 0)`},
	{"toJSON", `(JSON.stringify({toJSON: function(){ return step() }}), 0)`},
	{"reviver", `(JSON.parse("1", function(k, v){ return step() }), 0)`},
	{"bind", `step.bind(null)()`},
	{"call", `step.call(null)`},
	{"apply", `step.apply(null, [])`},
	{"new", `(new step(), 0)`},
	{"with", `(function(){ with ({}) { return step() } })()`},
	{"try-finally", `(function(){ try { return step() } finally { } })()`},
	{"host-Run", `hostRun()`},
	{"host-Call", `hostCall()`},
	{"host-ValueCall", `hostValueCall()`},
	{"host-Eval", `hostEval()`},
	{"direct-eval-only", `eval(es)`}, // the cycle is eval alone: no function scope between the levels
}

const recurPrelude = `
var n = 0, geval = eval;
function step(){ n++; if (n >= CAP) return 0; return CYCLE; }
var Fn = Function("return step()");
var es = "(++n >= CAP) ? 0 : eval(es)";
var og = {get p(){ return step() }};
var os = {set p(v){ step() }};
var ov = {valueOf: function(){ return step() }};
var ot = {toString: function(){ step(); return "" }};
`

func recurVM(L int) *otto.Otto {
	vm := otto.New()
	vm.SetStackDepthLimit(L)
	rethrow := func(v otto.Value, err error) otto.Value {
		if err != nil {
			// hand the script-level error back to the script (what a host function does with it)
			if oe, ok := err.(*otto.Error); ok && strings.HasPrefix(oe.Error(), "RangeError") {
				panic(vm.MakeRangeError("host: " + oe.Error()))
			}
			panic(vm.MakeCustomError("HostError", err.Error()))
		}
		return v
	}
	vm.Set("hostRun", func(call otto.FunctionCall) otto.Value { return rethrow(vm.Run("step()")) })
	vm.Set("hostCall", func(call otto.FunctionCall) otto.Value { return rethrow(vm.Call("step", nil)) })
	vm.Set("hostValueCall", func(call otto.FunctionCall) otto.Value {
		f, _ := vm.Get("step")
		return rethrow(f.Call(otto.UndefinedValue()))
	})
	vm.Set("hostEval", func(call otto.FunctionCall) otto.Value { return rethrow(vm.Eval("step()")) })
	return vm
}

func implRecur(f []string) string {
	var L, cap, kind int
	fmt.Sscan(f[1], &L)
	fmt.Sscan(f[2], &cap)
	fmt.Sscan(f[3], &kind)
	if kind < 0 || kind >= len(recurKinds) || L <= 0 {
		return "bad-op"
	}
	return guarded("recur "+recurKinds[kind].name, func() string {
		vm := recurVM(L)
		src := strings.ReplaceAll(strings.ReplaceAll(recurPrelude, "CAP", fmt.Sprint(cap)), "CYCLE", recurKinds[kind].js)
		if _, err := vm.Run(src); err != nil {
			return "prelude:" + h.Sanitize(err.Error())
		}
		run := func() string {
			v, err := vm.Run(`n = 0; var r; try { step(); r = "returned" } catch (e) { r = (e instanceof RangeError) ? "RangeError" : "other:" + e } r + ";" + n`)
			if err != nil {
				return "uncaught:" + h.Sanitize(err.Error())
			}
			return v.String()
		}
		first := run()
		usable := "usable"
		if v, err := vm.Run("1+1"); err != nil || v.String() != "2" {
			usable = "unusable"
		}
		// the scope chain is back at rest: the same recursion ends the same way again
		if second := run(); second != first {
			return "second-run-differs:" + first + "/" + second
		}
		var kindTok string
		var n int
		if i := strings.LastIndex(first, ";"); i >= 0 {
			kindTok = first[:i]
			fmt.Sscan(first[i+1:], &n)
		}
		switch kindTok {
		case "RangeError":
			if n <= L {
				return "RangeError;bounded;" + usable
			}
			return fmt.Sprintf("RangeError;n=%d>L=%d;%s", n, L, usable)
		case "returned":
			return "returned;" + usable
		}
		return h.Sanitize(first) + ";" + usable
	})
}

func genRecur(c *h.Ctx) {
	limits := []int{8, 50, 200}
	if c.N(0, 1) == 1 {
		limits = append(limits, 1000, 3)
	}
	for _, L := range limits {
		for k := range recurKinds {
			// well above the limit: must end in the RangeError
			c.Add(fmt.Sprintf("recur %d %d %d", L, 4*L+16, k), "recur:over:"+recurKinds[k].name)
			// at the limit
			c.Add(fmt.Sprintf("recur %d %d %d", L, L, k), "recur:at:"+recurKinds[k].name)
			// well below: must return
			if below := (L - 5) / 4; below >= 1 {
				c.Add(fmt.Sprintf("recur %d %d %d", L, below-1, k), "recur:under:"+recurKinds[k].name)
			}
		}
	}
}
