package main

import (
	"fmt"
	"strings"
	"time"

	"github.com/robertkrimen/otto"
	"ottoverif/h"
)

// Stateful API-sequence programs: a pool of values, each step stores the result (or the caught
// exception) of a built-in call / property operation back into the pool, so that later steps
// operate on whatever odd objects earlier steps produced.

var descs = []string{
	`{value: 1}`, `{value: 2, writable: true}`, `{writable: false}`, `{enumerable: false}`, `{configurable: false}`,
	`{get: function(){ return 7 }}`, `{get: function(){ return 7 }, set: undefined}`, `{get: undefined, set: function(v){}}`,
	`{get: undefined}`, `{set: undefined}`, `{get: undefined, set: undefined, configurable: true}`, `{value: undefined, writable: true, configurable: true}`,
	`{writable: true}`, `{value: v0}`, `{get: v1}`, `{}`, `{value: 1, get: function(){}}`, `{enumerable: true, configurable: true}`,
}

var propNames = []string{`"p"`, `"q"`, `"length"`, `"0"`, `"1"`, `"prototype"`, `"constructor"`, `"caller"`, `"stack"`, `"message"`, `"lastIndex"`, `"get"`, `"set"`, `"value"`, `"callee"`}

// seqArg: an argument for a sequence step.  The two array-length-sized numbers are left out here:
// `new Array(2147483648)` followed by any join/toString of it (the observation phase stringifies every
// pool value) makes builtinArrayJoin reserve 16 bytes x length = 32 GiB per worker, which is memory
// exhaustion by design (ES5 demands a 2 GiB string) and only gets the harness killed by the kernel.
// They stay in the single-call stream, where nothing stringifies the result.
func seqArg(r *h.Rng) string {
	for {
		a := argvs[r.Intn(len(argvs))]
		if a != "4294967296" && a != "2147483648" {
			return a
		}
	}
}

func genSeq(r *h.Rng, fns []string, steps int) string {
	var b strings.Builder
	b.WriteString(`var v0 = {p: 1, q: [1,2]}, v1 = function(a,b){ return arguments }, v2 = [1,,3], v3 = "str", v4 = /a(b)?/g, v5 = new Date(0), v6 = new Error("e"), v7 = (function(){ return arguments })(1,2), v8 = Object.create(v0), v9 = v1.bind(v0, 1);` + "\n")
	v := func() string { return fmt.Sprintf("v%d", r.Intn(10)) }
	for i := 0; i < steps; i++ {
		t := v()
		var stmt string
		switch r.Intn(17) {
		case 0, 1, 2, 3:
			fn := fns[r.Intn(len(fns))]
			args := []string{v()}
			for k := r.Intn(3); k > 0; k-- {
				if r.Chance(70) {
					args = append(args, v())
				} else {
					args = append(args, seqArg(r))
				}
			}
			stmt = fmt.Sprintf("%s = (%s).call(%s)", t, fn, strings.Join(args, ", "))
		case 4:
			stmt = fmt.Sprintf("%s = Object.getOwnPropertyDescriptor(%s, %s)", t, v(), propNames[r.Intn(len(propNames))])
		case 5, 6:
			stmt = fmt.Sprintf("Object.defineProperty(%s, %s, %s)", v(), propNames[r.Intn(len(propNames))], descs[r.Intn(len(descs))])
		case 7:
			stmt = fmt.Sprintf("%s[%s] = %s", v(), propNames[r.Intn(len(propNames))], v())
		case 8:
			stmt = fmt.Sprintf("%s = %s[%s]", t, v(), propNames[r.Intn(len(propNames))])
		case 9:
			stmt = fmt.Sprintf("delete %s[%s]", v(), propNames[r.Intn(len(propNames))])
		case 10:
			stmt = fmt.Sprintf("%s = JSON.stringify(%s) + String(%s) + (%s + %s)", t, v(), v(), v(), v())
		case 11:
			stmt = fmt.Sprintf("for (var k in %s) { %s = %s[k] }", v(), t, v())
		case 12:
			stmt = fmt.Sprintf("%s = new (%s)(%s)", t, fns[r.Intn(len(fns))], v())
		case 13:
			stmt = fmt.Sprintf("%s = Object.keys(%s).concat(Object.getOwnPropertyNames(%s)); Object.freeze(%s)", t, v(), v(), v())
		case 14:
			// length writes with small numbers (shrinks stop at non-configurable elements: error paths of
			// arrayDefineOwnProperty), by assignment and by defineProperty, writable or not
			if r.Bool() {
				stmt = fmt.Sprintf("%s.length = %d", v(), r.Intn(4))
			} else {
				stmt = fmt.Sprintf("Object.defineProperty(%s, \"length\", {value: %d, writable: %v})", v(), r.Intn(4), r.Bool())
			}
		case 15:
			x := v()
			stmt = fmt.Sprintf("Object.%s(%s); %s.push(1); %s[%d] = 2; %s.length", []string{"seal", "preventExtensions", "freeze"}[r.Intn(3)], x, x, x, r.Intn(5), x)
		default:
			x := v()
			stmt = fmt.Sprintf("%s = JSON.stringify(JSON.parse(JSON.stringify(%s), function(k, val){ return val })) + [].concat(%s).length + Array.prototype.slice.call(%s).length", t, x, x, x)
		}
		b.WriteString("try { " + stmt + " } catch (e) { " + t + " = e }\n")
	}
	// observe everything
	b.WriteString(`var out = []; for (var i = 0; i < 10; i++) { try { var x = this["v" + i]; out.push(typeof x + String(x) + JSON.stringify(x) + Object.prototype.toString.call(x)); for (var k in x) { out.push(k) } if (x) { Object.getOwnPropertyNames(Object(x)).forEach(function(n){ var d = Object.getOwnPropertyDescriptor(Object(x), n); out.push(JSON.stringify(d)); if (d) { out.push(String(d.get) + String(d.set) + typeof d.value) } }) } } catch (e) { out.push("E") } } out.length`)
	return b.String()
}

// genSeqArray: a focused history on ONE array — the error paths of arrayDefineOwnProperty (a length
// shrink stopping at a non-configurable element, non-writable length, sealed/frozen arrays) followed by
// ordinary use of the same array and by the Go-side readers implSeq applies to every pool value.
func genSeqArray(r *h.Rng, steps int) string {
	var b strings.Builder
	b.WriteString("var v0 = {p: 1}, v1 = function(a,b){ return arguments }, v2 = [1,2,3,4,5], v3 = \"str\", v4 = /a/g, v5 = new Date(0), v6 = new Error(\"e\"), v7 = [7,,9], v8 = Object.create(v2), v9 = v1.bind(v0, 1);\n")
	arr := func() string {
		if r.Chance(75) {
			return "v2"
		}
		return "v7"
	}
	for i := 0; i < steps; i++ {
		a := arr()
		var stmt string
		switch r.Intn(12) {
		case 0, 1:
			stmt = fmt.Sprintf("Object.defineProperty(%s, \"%d\", {value: %d, configurable: %v, writable: %v, enumerable: true})", a, r.Intn(6), r.Intn(9), r.Chance(40), r.Bool())
		case 2, 3:
			stmt = fmt.Sprintf("%s.length = %d", a, r.Intn(7))
		case 4:
			stmt = fmt.Sprintf("Object.defineProperty(%s, \"length\", {value: %d, writable: %v})", a, r.Intn(7), r.Chance(60))
		case 5:
			stmt = fmt.Sprintf("Object.%s(%s)", []string{"seal", "preventExtensions", "freeze"}[r.Intn(3)], a)
		case 6:
			stmt = fmt.Sprintf("%s.push(%d, %d)", a, r.Intn(9), r.Intn(9))
		case 7:
			stmt = fmt.Sprintf("%s[%d] = %d", a, r.Intn(8), r.Intn(9))
		case 8:
			stmt = fmt.Sprintf("%s.%s()", a, []string{"pop", "shift", "reverse", "sort"}[r.Intn(4)])
		case 9:
			stmt = fmt.Sprintf("%s.splice(%d, %d, %d)", a, r.Intn(4), r.Intn(3), r.Intn(9))
		case 10:
			stmt = fmt.Sprintf("v3 = JSON.stringify(JSON.parse(JSON.stringify(%s), function(k, val){ return val })) + %s.concat(%s).length", a, a, a)
		default:
			stmt = fmt.Sprintf("delete %s[%d]; %s.unshift(0)", a, r.Intn(6), a)
		}
		b.WriteString("try { " + stmt + " } catch (e) { v6 = e }\n")
	}
	b.WriteString("[v2.length, v7.length, v2.join(), v7.join()].join(\"|\")")
	return b.String()
}

func implSeq(src string) string {
	return guarded("seq "+src, func() string {
		vm := newVM()
		t0 := time.Now()
		stop := watchdog(vm)
		_, rerr := vm.Run(src)
		stop()
		// a Go run-time panic raised INSIDE a script-level try block does not escape Run: tryCatchEvaluate
		// recovers it and fails to convert it, and Run returns "TypeError: invalid value …".  Every
		// statement of a sequence sits in a try, so that is how a crash shows here (unless the watchdog
		// fired: its halting panic takes the same route and is the known finding trycatch_foreign of C18).
		if rerr != nil && time.Since(t0) < time.Second && strings.Contains(rerr.Error(), "invalid value") {
			return "go-panic-inside-try:" + h.Sanitize(rerr.Error())
		}
		for i := 0; i < 10; i++ {
			if v, err := vm.Get(fmt.Sprintf("v%d", i)); err == nil {
				v.Export()
				v.MarshalJSON()
				v.ToString()
				if v.IsObject() {
					v.Object().Keys()
				}
			}
		}
		cp := vm.Copy()
		if v, err := cp.Run("1+1"); err != nil || v.String() != "2" {
			return "copy-unusable"
		}
		cp.Run(`var n = 0; for (var i = 0; i < 10; i++) { try { n += String(this["v" + i]).length } catch (e) {} } n`)
		if v, err := vm.Run("1+1"); err != nil || v.String() != "2" {
			return "unusable-after"
		}
		return "returns"
	})
}

var _ = otto.New
