package main

import (
	"fmt"
	"strings"

	"github.com/robertkrimen/otto"
	"ottoverif/h"
)

// Stateful API-sequence programs: a pool of values, each step stores the result (or the caught
// exception) of a built-in call / property operation back into the pool, so that later steps
// operate on whatever odd objects earlier steps produced.

var descs = []string{
	`{value: 1}`, `{value: 2, writable: true}`, `{writable: false}`, `{enumerable: false}`, `{configurable: false}`,
	`{get: function(){ return 7 }}`, `{get: function(){ return 7 }, set: undefined}`, `{get: undefined, set: function(v){}}`,
	`{get: undefined}`, `{set: undefined}`, `{get: undefined, set: undefined, configurable: true}`, `{value: undefined, writable: true, configurable: true}`,
	`{writable: true}`, `{value: v0}`, `{get: v1}`, `{}`, `{value: 1, get: function(){}}`, `{enumerable: true, configurable: true}`,
}

var propNames = []string{`"p"`, `"q"`, `"length"`, `"0"`, `"1"`, `"prototype"`, `"constructor"`, `"caller"`, `"stack"`, `"message"`, `"lastIndex"`, `"get"`, `"set"`, `"value"`, `"callee"`}

// seqArg: an argument for a sequence step.  The two array-length-sized numbers are left out here:
// `new Array(2147483648)` followed by any join/toString of it (the observation phase stringifies every
// pool value) makes builtinArrayJoin reserve 16 bytes x length = 32 GiB per worker, which is memory
// exhaustion by design (ES5 demands a 2 GiB string) and only gets the harness killed by the kernel.
// They stay in the single-call stream, where nothing stringifies the result.
func seqArg(r *h.Rng) string {
	for {
		a := argvs[r.Intn(len(argvs))]
		if a != "4294967296" && a != "2147483648" {
			return a
		}
	}
}

func genSeq(r *h.Rng, fns []string, steps int) string {
	var b strings.Builder
	b.WriteString(`var v0 = {p: 1, q: [1,2]}, v1 = function(a,b){ return arguments }, v2 = [1,,3], v3 = "str", v4 = /a(b)?/g, v5 = new Date(0), v6 = new Error("e"), v7 = (function(){ return arguments })(1,2), v8 = Object.create(v0), v9 = v1.bind(v0, 1);` + "\n")
	v := func() string { return fmt.Sprintf("v%d", r.Intn(10)) }
	for i := 0; i < steps; i++ {
		t := v()
		var stmt string
		switch r.Intn(14) {
		case 0, 1, 2, 3:
			fn := fns[r.Intn(len(fns))]
			args := []string{v()}
			for k := r.Intn(3); k > 0; k-- {
				if r.Chance(70) {
					args = append(args, v())
				} else {
					args = append(args, seqArg(r))
				}
			}
			stmt = fmt.Sprintf("%s = (%s).call(%s)", t, fn, strings.Join(args, ", "))
		case 4:
			stmt = fmt.Sprintf("%s = Object.getOwnPropertyDescriptor(%s, %s)", t, v(), propNames[r.Intn(len(propNames))])
		case 5, 6:
			stmt = fmt.Sprintf("Object.defineProperty(%s, %s, %s)", v(), propNames[r.Intn(len(propNames))], descs[r.Intn(len(descs))])
		case 7:
			stmt = fmt.Sprintf("%s[%s] = %s", v(), propNames[r.Intn(len(propNames))], v())
		case 8:
			stmt = fmt.Sprintf("%s = %s[%s]", t, v(), propNames[r.Intn(len(propNames))])
		case 9:
			stmt = fmt.Sprintf("delete %s[%s]", v(), propNames[r.Intn(len(propNames))])
		case 10:
			stmt = fmt.Sprintf("%s = JSON.stringify(%s) + String(%s) + (%s + %s)", t, v(), v(), v(), v())
		case 11:
			stmt = fmt.Sprintf("for (var k in %s) { %s = %s[k] }", v(), t, v())
		case 12:
			stmt = fmt.Sprintf("%s = new (%s)(%s)", t, fns[r.Intn(len(fns))], v())
		default:
			stmt = fmt.Sprintf("%s = Object.keys(%s).concat(Object.getOwnPropertyNames(%s)); Object.freeze(%s)", t, v(), v(), v())
		}
		b.WriteString("try { " + stmt + " } catch (e) { " + t + " = e }\n")
	}
	// observe everything
	b.WriteString(`var out = []; for (var i = 0; i < 10; i++) { try { var x = this["v" + i]; out.push(typeof x + String(x) + JSON.stringify(x) + Object.prototype.toString.call(x)); for (var k in x) { out.push(k) } if (x) { Object.getOwnPropertyNames(Object(x)).forEach(function(n){ var d = Object.getOwnPropertyDescriptor(Object(x), n); out.push(JSON.stringify(d)); if (d) { out.push(String(d.get) + String(d.set) + typeof d.value) } }) } } catch (e) { out.push("E") } } out.length`)
	return b.String()
}

func implSeq(src string) string {
	return guarded("seq "+src, func() string {
		vm := newVM()
		stop := watchdog(vm)
		vm.Run(src)
		stop()
		for i := 0; i < 10; i++ {
			if v, err := vm.Get(fmt.Sprintf("v%d", i)); err == nil {
				v.Export()
				v.MarshalJSON()
				v.ToString()
				if v.IsObject() {
					v.Object().Keys()
				}
			}
		}
		cp := vm.Copy()
		if v, err := cp.Run("1+1"); err != nil || v.String() != "2" {
			return "copy-unusable"
		}
		cp.Run(`var n = 0; for (var i = 0; i < 10; i++) { try { n += String(this["v" + i]).length } catch (e) {} } n`)
		if v, err := vm.Run("1+1"); err != nil || v.String() != "2" {
			return "unusable-after"
		}
		return "returns"
	})
}

var _ = otto.New
