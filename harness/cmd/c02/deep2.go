package main

// More `deep` kinds (same child-process isolation, same expected token `returns`):
//
//	big:<op> <n> 0        an array-like or array whose `length` is n (4294967295 for {length: -1}) handed to
//	                      Function.prototype.apply and to the built-ins that allocate by `length` up front:
//	                      on the unchanged tree `make([]Value, 4294967295)` asks for 100 GB and the process
//	                      dies with "fatal error: runtime: out of memory" (token oom)
//	smap:<map>:<entry> 0 0   a valid program that ends in a crafted `//# sourceMappingURL=data:…` comment
//	                      (or gets the map explicitly), then everything that looks a position up: the program
//	                      must run (a comment cannot make it invalid), Error.String(), e.stack and
//	                      Otto.Context() must come back
//	nilsrc:<what> 0 0     typed nil pointers as source: an error, not a nil dereference

import (
	"bytes"
	"encoding/base64"
	"fmt"
	"io"
	"strings"

	"github.com/robertkrimen/otto"
	"github.com/robertkrimen/otto/ast"
	"github.com/robertkrimen/otto/file"
	"github.com/robertkrimen/otto/parser"

	"ottoverif/h"
)

// ---------------------------------------------------------------- big lengths

var bigOps = []struct {
	name string
	js   string
	max  int // largest n asked (0: any): the loops that only take time are not asked for 2^32 turns
}{
	{"apply", `(function(){ return arguments.length }).apply(null, {length: $N})`, 0},
	{"apply-native", `Math.max.apply(null, {length: $N})`, 0},
	{"apply-array", `var a = []; a.length = $N; (function(){}).apply(null, a)`, 0},
	{"apply-fromCharCode", `String.fromCharCode.apply(null, {length: $N}).length`, 0},
	{"apply-push", `var t = []; Array.prototype.push.apply(t, {length: $N}); t.length`, 0},
	{"apply-concat", `Array.prototype.concat.apply([], {length: $N}).length`, 0},
	{"apply-call", `Function.prototype.call.apply(function(){}, {length: $N})`, 0},
	{"apply-bind-new", `new (Function.prototype.bind.apply(Date, {length: $N}))`, 0},
	{"apply-bound", `(function(){}).bind(null, 1).apply(null, {length: $N})`, 0},
	{"apply-apply", `Function.prototype.apply.apply(function(){}, [null, {length: $N}])`, 0},
	{"apply-go", `goVariadic.apply(null, {length: $N})`, 0},
	{"join", `new Array($N).join()`, 0},
	{"join-empty", `new Array($N).join("").length`, 0},
	{"toString", `String(new Array($N)).length`, 0},
	{"toLocaleString", `new Array($N).toLocaleString().length`, 0},
	{"join-arraylike", `Array.prototype.join.call({length: $N}, "")`, 0},
	{"slice", `Array.prototype.slice.call({length: $N}).length`, 0},
	{"slice-array", `new Array($N).slice(0).length`, 0},
	{"splice", `Array.prototype.splice.call({length: $N}, 0).length`, 0},
	{"splice-array", `new Array($N).splice(1).length`, 0},
	{"map", `Array.prototype.map.call({length: $N}, function(x){ return x }).length`, 0},
	{"map-array", `new Array($N).map(function(x){ return x }).length`, 0},
	{"concat-array", `[].concat(new Array($N)).length`, 0},
	{"stringify-array", `JSON.stringify(new Array($N)).length`, 0},
	{"stringify-replacer-list", `JSON.stringify({a: 1}, new Array($N))`, 0},
	{"go-export", `goIface(new Array($N))`, 3000000}, // (Export visits every index: a loop that only takes time, see below)
	// loops to `length` that allocate nothing: they return after n turns (n = 2^32 takes minutes and cannot
	// be interrupted: recorded in NOTES as not repaired, not asked here)
	{"reverse", `Array.prototype.reverse.call({length: $N}); 0`, 3000000},
	{"indexOf", `Array.prototype.indexOf.call({length: $N}, 1)`, 3000000},
	{"lastIndexOf", `Array.prototype.lastIndexOf.call({length: $N}, 1)`, 3000000},
	{"forEach", `Array.prototype.forEach.call({length: $N}, function(){})`, 3000000},
	{"every", `Array.prototype.every.call({length: $N}, function(){ return true })`, 3000000},
	{"some", `Array.prototype.some.call({length: $N}, function(){ return false })`, 3000000},
	{"filter", `Array.prototype.filter.call({length: $N}, function(){ return true }).length`, 3000000},
	{"reduce", `Array.prototype.reduce.call({length: $N}, function(a){ return a }, 0)`, 3000000},
	{"reduceRight", `Array.prototype.reduceRight.call({length: $N}, function(a){ return a }, 0)`, 3000000},
	{"shift", `Array.prototype.shift.call({length: $N})`, 3000000},
	{"unshift", `Array.prototype.unshift.call({length: $N}, 1)`, 3000000},
	{"sort", `Array.prototype.sort.call({length: $N})`, 3000000},
	{"pop", `Array.prototype.pop.call({length: $N})`, 0},
	{"push", `Array.prototype.push.call({length: $N}, 1)`, 0},
}

func runBig(vm *otto.Otto, op string, n int) string {
	vm.Set("goVariadic", func(a ...interface{}) int { return len(a) })
	for _, b := range bigOps {
		if b.name == op {
			vm.Run(strings.ReplaceAll(b.js, "$N", fmt.Sprint(n)))
			return ""
		}
	}
	return "bad-op"
}

// ---------------------------------------------------------------- source maps

func dataURL(m string) string {
	return "\n//# sourceMappingURL=data:application/json;base64," + base64.StdEncoding.EncodeToString([]byte(m))
}

// what follows the program text (tail), or the JSON of the map (json; tail = dataURL(json))
var smapVariants = []struct {
	name, json, tail string
}{
	{name: "good", json: `{"version":3,"sources":["hello.js"],"names":["f"],"mappings":"AAAA,QAASA"}`},
	{name: "empty-sources", json: `{"version":3,"sources":[],"names":[],"mappings":"AAAC,oGAAC"}`},
	{name: "source-index-5", json: `{"version":3,"sources":["a.js"],"names":[],"mappings":"AKAA,SAAS"}`},
	{name: "name-index-9", json: `{"version":3,"sources":["a.js"],"names":[],"mappings":"AAAAS,QAASA"}`},
	{name: "negative-source", json: `{"version":3,"sources":["a.js"],"names":[],"mappings":"ADAA,QAAS"}`},
	{name: "negative-name", json: `{"version":3,"sources":["a.js"],"names":["n"],"mappings":"AAAAD,QAASD"}`},
	{name: "negative-line-col", json: `{"version":3,"sources":["a.js"],"names":[],"mappings":"AAzBzB,QAAS"}`},
	{name: "huge-vlq", json: `{"version":3,"sources":["a.js"],"names":[],"mappings":"ggggggggggggggggggggggggB,AAAA"}`},
	{name: "huge-source-vlq", json: `{"version":3,"sources":["a.js"],"names":[],"mappings":"Agggggggggggggggggggggggggggggggg4BAA"}`},
	{name: "bad-vlq-chars", json: `{"version":3,"sources":["a.js"],"names":[],"mappings":"!!!!,????"}`},
	{name: "truncated-segment", json: `{"version":3,"sources":["a.js"],"names":[],"mappings":"AA,A,AAA"}`},
	{name: "many-lines", json: `{"version":3,"sources":["a.js"],"names":[],"mappings":";;;;;;;;;;;;;;;;;;;;AAAA"}`},
	{name: "version-0", json: `{}`},
	{name: "version-2", json: `{"version":2,"sources":["a.js"],"names":[],"mappings":"AAAA"}`},
	{name: "version-string", json: `{"version":"3","sources":["a.js"],"names":[],"mappings":"AAAA"}`},
	{name: "no-mappings", json: `{"version":3}`},
	{name: "sources-null", json: `{"version":3,"sources":[null],"names":[null],"mappings":"AAAAA"}`},
	{name: "sources-number", json: `{"version":3,"sources":[1],"names":[{}],"mappings":"AAAAA"}`},
	{name: "names-object", json: `{"version":3,"sources":["a.js"],"names":[{"a":[1]}],"mappings":"AAAAA"}`},
	{name: "bad-sourceroot", json: `{"version":3,"sourceRoot":"%zz","sources":["a.js"],"names":[],"mappings":"AAAA"}`},
	{name: "sourceroot-url", json: `{"version":3,"sourceRoot":"http://[::1","sources":["a.js"],"names":[],"mappings":"AAAA"}`},
	{name: "source-bad-url", json: `{"version":3,"sourceRoot":"http://x/","sources":["%zz:://"],"names":[],"mappings":"AAAA"}`},
	{name: "sections", json: `{"version":3,"sections":[{"offset":{"line":0,"column":0},"map":{"version":3,"sources":[],"names":[],"mappings":"AAAC"}}]}`},
	{name: "null", json: `null`},
	{name: "array", json: `[]`},
	{name: "number", json: `3`},
	{name: "not-json", json: `not json at all`},
	{name: "truncated-json", json: `{"version":3,"sources":["a.js"],"nam`},
	{name: "empty", json: ``},
	{name: "bad-base64", tail: "\n//# sourceMappingURL=data:application/json;base64,!!!!not base64!!!!"},
	{name: "no-comma", tail: "\n//# sourceMappingURL=data:application/json;base64"},
	{name: "no-payload", tail: "\n//# sourceMappingURL=data:application/json;base64,"},
	{name: "charset", tail: "\n//# sourceMappingURL=data:application/json;charset=utf-8;base64," + base64.StdEncoding.EncodeToString([]byte(`{"version":3,"sources":[],"names":[],"mappings":"AAAC,oGAAC"}`))},
	{name: "not-base64-label", tail: "\n//# sourceMappingURL=data:application/json,{\"version\":3}"},
	{name: "file-url", tail: "\n//# sourceMappingURL=/nonexistent/x.js.map"},
	{name: "two-comments", tail: dataURL(`{}`) + dataURL(`{"version":3,"sources":[],"names":[],"mappings":"AAAC,oGAAC"}`)},
	{name: "trailing-newline", tail: dataURL(`{"version":3,"sources":[],"names":[],"mappings":"AAAC,oGAAC"}`) + "\n"},
}

var smapEntries = []string{"run", "eval", "compile", "compile-colon-name", "compile-url-name", "explicit-map", "explicit-map-reader", "parsefile", "parsefile-fileset"}

// smapPrograms: valid programs and what each has to give back
const (
	smapValue = "var smapValue = 1 + 1; smapValue"
	smapThrow = "function f(){ throw new Error('x') }\nfunction g(){ f() }\ng()"
	smapStack = "var r = 'none'; function f(){ null.x }\ntry { f() } catch (e) { r = typeof e.stack + ':' + (e.stack.length > 0) }\nr"
	smapHost  = "function f(){ return host() }\nf()"
)

func runSmap(variant, entry string) string {
	var tail, js string
	found := false
	for _, v := range smapVariants {
		if v.name == variant {
			found = true
			tail, js = v.tail, v.json
			if tail == "" {
				tail = dataURL(js)
			}
		}
	}
	if !found {
		return "bad-op"
	}
	explicit := strings.HasPrefix(entry, "explicit-map")
	if explicit && js == "" {
		js = "{}"
	}
	if strings.HasPrefix(entry, "parsefile") {
		// the parser alone, then every node's position through the file
		var fs *file.FileSet
		if entry == "parsefile-fileset" {
			fs = &file.FileSet{}
			fs.AddFile("other.js", "var other")
		}
		prog, err := parser.ParseFile(fs, "p.js", smapThrow+tail, 0)
		if err != nil {
			return "parse-rejected:" + h.Sanitize(err.Error())
		}
		ast.Walk(posVisitor{prog.File, fs}, prog)
		return ""
	}
	run := func(src string) (otto.Value, error, string) {
		vm := otto.New()
		ctxSeen := ""
		vm.Set("host", func(call otto.FunctionCall) otto.Value {
			c := vm.Context()
			vm.ContextLimit(1)
			vm.ContextSkip(10, true)
			ctxSeen = fmt.Sprintf("%s:%d:%d/%d", c.Filename, c.Line, c.Column, len(c.Stacktrace))
			_ = call.CallerLocation()
			return otto.UndefinedValue()
		})
		var v otto.Value
		var err error
		switch entry {
		case "run":
			v, err = vm.Run(src + tail)
		case "eval":
			v, err = vm.Eval(src + tail)
		case "compile", "compile-colon-name", "compile-url-name":
			name := map[string]string{"compile": "c.js", "compile-colon-name": "my file:1.js", "compile-url-name": "http://[::1/x.js"}[entry]
			var s *otto.Script
			if s, err = vm.Compile(name, src+tail); err == nil {
				v, err = vm.Run(s)
			} else {
				return v, err, "compile"
			}
		case "explicit-map", "explicit-map-reader":
			var m interface{} = js
			if entry == "explicit-map-reader" {
				m = io.Reader(bytes.NewReader([]byte(js)))
			}
			var s *otto.Script
			if s, err = vm.CompileWithSourceMap("e.js", src, m); err == nil {
				v, err = vm.Run(s)
			} else {
				return v, err, "compile"
			}
		}
		return v, err, ctxSeen
	}
	// 1. the value program runs (with an explicit map the embedder may be told that the map is bad)
	v, err, where := run(smapValue)
	if err != nil {
		if !(explicit && where == "compile") {
			return "value-rejected:" + h.Sanitize(err.Error())
		}
	} else if v.String() != "2" {
		return "value:" + h.Sanitize(v.String())
	}
	// 2. an uncaught error: the error value and its long form
	_, err, where = run(smapThrow)
	if !(explicit && where == "compile") {
		oe, ok := err.(*otto.Error)
		if !ok {
			return "throw-gave:" + h.Sanitize(fmt.Sprint(err))
		}
		if s := oe.String(); !strings.HasPrefix(s, "Error: x") {
			return "throw-string:" + h.Sanitize(s)
		}
		_ = oe.Error()
	}
	// 3. e.stack inside the script
	v, err, where = run(smapStack)
	if !(explicit && where == "compile") {
		if err != nil {
			return "stack-rejected:" + h.Sanitize(err.Error())
		}
		if v.String() != "string:true" {
			return "stack:" + h.Sanitize(v.String())
		}
	}
	// 4. Context() from a host function
	_, err, where = run(smapHost)
	if !(explicit && where == "compile") {
		if err != nil {
			return "host-rejected:" + h.Sanitize(err.Error())
		}
		if where == "" {
			return "host-not-called"
		}
	}
	return ""
}

type posVisitor struct {
	f  *file.File
	fs *file.FileSet
}

func (p posVisitor) Enter(n ast.Node) ast.Visitor {
	if n != nil {
		if p.f != nil {
			p.f.Position(n.Idx0())
			p.f.Position(n.Idx1())
		}
		if p.fs != nil {
			p.fs.Position(n.Idx0())
		}
	}
	return p
}
func (p posVisitor) Exit(ast.Node) {}

// ---------------------------------------------------------------- typed nil sources

var nilSources = []struct {
	name string
	src  func() interface{}
}{
	{"script", func() interface{} { return (*otto.Script)(nil) }},
	{"program", func() interface{} { return (*ast.Program)(nil) }},
	{"buffer", func() interface{} { return (*bytes.Buffer)(nil) }},
	{"reader", func() interface{} { return io.Reader((*bytes.Reader)(nil)) }},
	{"strings-reader", func() interface{} { return (*strings.Reader)(nil) }},
	{"untyped", func() interface{} { return nil }},
	{"byte-slice", func() interface{} { return []byte(nil) }},
	{"int", func() interface{} { return 42 }},
	{"string-pointer", func() interface{} { return (*string)(nil) }},
	{"empty-program", func() interface{} { return &ast.Program{} }},
	{"zero-script", func() interface{} { return &otto.Script{} }},
}

func runNilSrc(what string) string {
	for _, s := range nilSources {
		if s.name != what {
			continue
		}
		vm := otto.New()
		vm.Run(s.src())
		vm.Eval(s.src())
		if sc, err := vm.Compile("", s.src()); err == nil && sc != nil {
			vm.Run(sc)
			_ = sc.String()
		}
		vm.CompileWithSourceMap("x.js", "1+1", s.src())
		vm.CompileWithSourceMap("x.js", s.src(), s.src())
		parser.ParseFile(nil, "", s.src(), 0)
		parser.ParseFileWithSourceMap(nil, "", "1+1", s.src(), 0)
		parser.ReadSource("", s.src())
		parser.ReadSourceMap("", s.src())
		if v, err := vm.Run("1+1"); err != nil || v.String() != "2" {
			return "unusable-after"
		}
		return ""
	}
	return "bad-op"
}

// deepRunExtra dispatches the kinds of this file; ok = false: not one of them.
func deepRunExtra(vm *otto.Otto, parts []string, n int) (tok string, ok bool) {
	switch {
	case parts[0] == "big" && len(parts) == 2:
		return runBig(vm, parts[1], n), true
	case parts[0] == "smap" && len(parts) == 3:
		return runSmap(parts[1], parts[2]), true
	case parts[0] == "nilsrc" && len(parts) == 2:
		return runNilSrc(parts[1]), true
	}
	return "", false
}

func genDeepExtra(c *h.Ctx) {
	lengths := []int{1000, 500000, 500001, 3000000, 100000000, 2147483648, 4294967295}
	if c.Thorough() {
		lengths = append(lengths, 0, 1, 65536, 499999, 1000000, 16777216, 16777217, 1000000000, 4294967294)
	}
	for _, b := range bigOps {
		for _, n := range lengths {
			if b.max != 0 && n > b.max {
				continue
			}
			c.Add(fmt.Sprintf("deep big:%s %d 0", b.name, n), "deep:big-length")
		}
	}
	c.Add("deep big:apply -1 0", "deep:big-length") // {length: -1}: ToUint32 makes it 4294967295
	for _, v := range smapVariants {
		for _, e := range smapEntries {
			c.Add(fmt.Sprintf("deep smap:%s:%s 0 0", v.name, e), "deep:sourcemap")
		}
	}
	for _, s := range nilSources {
		c.Add(fmt.Sprintf("deep nilsrc:%s 0 0", s.name), "deep:nil-source")
	}
}
