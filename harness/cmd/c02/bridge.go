package main

import (
	"errors"
	"fmt"
	"strings"
	"time"

	"github.com/robertkrimen/otto"

	"ottoverif/h"
)

// bridge <value> <name|-> : every script-side operation on every kind of bridged Go value.  The zoo
// holds the Go types reflection treats specially (defined types as parameters and map keys, structs by
// value, nil embedded pointers, unexported and tagged fields, nested containers, nil pointers inside
// containers, interface-typed slots).  Each operation runs in its own vm.Run on one runtime; whatever
// the bridge thinks of the operation, Run has to return.

type bzIn struct{ A string }
type bzP struct{ *bzIn }
type bzT struct {
	C int
	S []int
	M map[string]int
	F float32
	U uint8
	I interface{}
	P *bzT
}

func (t bzT) Val(n int) int     { return t.C + n }
func (t *bzT) Ptr(n int) int    { t.C += n; return t.C }
func (t bzT) Two() (int, error) { return t.C, errors.New("second") }
func (t bzT) None()             {}

type bzE struct {
	bzIn
	A string
}
type bzTag struct {
	Exp  int
	hid  int  `json:"hid"`
	Dash int  `json:"-"`
	Ren  int  `json:"ren"`
	Emb  bzIn `json:"-"`
	bzIn `json:"-"`
}
type bzUnexpEmb struct {
	bzIn
	hidden int
}
type bzMyInt int64
type bzStr string
type bzBool bool
type bzFlt float32
type bzK int
type bzSK string
type bzFn func(int) int
type bzSl []int
type bzMp map[string]int

type bzStringer struct{ n int }

func (s bzStringer) String() string { return fmt.Sprint("S", s.n) }

var bridgeZoo = []struct {
	name string
	mk   func() interface{}
}{
	{"struct-by-value", func() interface{} { return bzT{C: 1, S: []int{1, 2}, M: map[string]int{"a": 1}} }},
	{"struct-by-pointer", func() interface{} {
		return &bzT{C: 1, S: make([]int, 2, 8), M: map[string]int{"a": 1}, I: 5, P: &bzT{}}
	}},
	{"struct-zero-by-pointer", func() interface{} { return &bzT{} }},
	{"nil-embedded-pointer", func() interface{} { return &bzP{} }},
	{"nil-embedded-pointer-by-value", func() interface{} { return bzP{} }},
	{"embedded-shadowed-by-value", func() interface{} { return bzE{bzIn{"in"}, "out"} }},
	{"embedded-shadowed-by-pointer", func() interface{} { return &bzE{bzIn{"in"}, "out"} }},
	{"tagged-fields", func() interface{} { return &bzTag{Exp: 1, hid: 2, Dash: 3, Ren: 4} }},
	{"tagged-fields-by-value", func() interface{} { return bzTag{Exp: 1, hid: 2, Dash: 3, Ren: 4} }},
	{"unexported-embedded", func() interface{} { return &bzUnexpEmb{bzIn{"in"}, 1} }},
	{"anonymous-struct", func() interface{} { return &struct{ A, b int }{1, 2} }},
	{"defined-int", func() interface{} { return bzMyInt(5) }},
	{"defined-string", func() interface{} { return bzStr("x") }},
	{"defined-bool", func() interface{} { return bzBool(true) }},
	{"defined-float32", func() interface{} { return bzFlt(1.5) }},
	{"defined-func", func() interface{} { return bzFn(func(a int) int { return a }) }},
	{"defined-slice", func() interface{} { return bzSl{1, 2} }},
	{"defined-map", func() interface{} { return bzMp{"a": 1} }},
	{"stringer", func() interface{} { return bzStringer{1} }},
	{"error-value", func() interface{} { return errors.New("e") }},
	{"func-defined-int-param", func() interface{} { return func(x bzMyInt) int { return int(x) } }},
	{"func-defined-string-param", func() interface{} { return func(x bzStr) string { return string(x) } }},
	{"func-defined-bool-float-param", func() interface{} { return func(b bzBool, f bzFlt) bool { return bool(b) && f > 0 } }},
	{"func-map-defined-string-key", func() interface{} { return func(m map[bzSK]int) int { return len(m) } }},
	{"func-map-defined-int-key", func() interface{} { return func(m map[bzK]string) int { return len(m) } }},
	{"func-map-int-key", func() interface{} { return func(m map[int]int) int { return len(m) } }},
	{"func-struct-by-value", func() interface{} { return func(t bzT) int { return t.C } }},
	{"func-struct-by-pointer", func() interface{} { return func(t *bzT) int { return t.C } }},
	{"func-slice-of-defined", func() interface{} { return func(l []bzMyInt) int { return len(l) } }},
	{"func-variadic-defined", func() interface{} { return func(l ...bzMyInt) int { return len(l) } }},
	{"func-variadic-interface", func() interface{} { return func(a int, l ...interface{}) int { return a + len(l) } }},
	{"func-interface-param", func() interface{} { return func(x interface{}) string { return fmt.Sprintf("%T", x) } }},
	{"func-error-param", func() interface{} { return func(e error) bool { return e == nil } }},
	{"func-stringer-param", func() interface{} { return func(s fmt.Stringer) bool { return s == nil } }},
	{"func-chan-param", func() interface{} { return func(c chan int) bool { return c == nil } }},
	{"func-func-param", func() interface{} { return func(f func()) bool { return f == nil } }},
	{"func-uint8-param", func() interface{} { return func(u uint8, i int8) int { return int(u) + int(i) } }},
	{"func-array-param", func() interface{} { return func(a [2]int) int { return a[0] } }},
	{"func-ptrptr-param", func() interface{} { return func(p **int) bool { return p == nil } }},
	{"func-two-results", func() interface{} { return func() (int, error) { return 1, errors.New("e") } }},
	{"func-no-result", func() interface{} { return func() {} }},
	{"func-returns-nil-pointer", func() interface{} { return func() *bzT { return nil } }},
	{"func-returns-nil-error", func() interface{} { return func() error { return nil } }},
	{"func-returns-defined", func() interface{} { return func() (bzMyInt, bzStr) { return 1, "s" } }},
	{"func-value-param", func() interface{} { return func(v otto.Value) otto.Value { return v } }},
	{"func-object-param", func() interface{} { return func(o *otto.Object) bool { return o == nil } }},
	{"map-defined-int-key", func() interface{} { return map[bzK]string{1: "a"} }},
	{"map-defined-string-key", func() interface{} { return map[bzSK]int{"a": 1} }},
	{"map-int-key", func() interface{} { return map[int]string{16: "x", 0: "z"} }},
	{"map-bool-key", func() interface{} { return map[bool]int{true: 1} }},
	{"map-float-key", func() interface{} { return map[float64]int{1.5: 1} }},
	{"map-uint8-key", func() interface{} { return map[uint8]int{1: 1} }},
	{"map-interface-key", func() interface{} { return map[interface{}]int{1: 1, "a": 2} }},
	{"map-array-key", func() interface{} { return map[[2]int]int{{1, 2}: 1} }},
	{"map-struct-key", func() interface{} { return map[bzIn]int{{"a"}: 1} }},
	{"map-interface-value", func() interface{} { return map[string]interface{}{"a": nil, "length": 1, "b": []int{1}} }},
	{"map-nil-pointer-value", func() interface{} { return map[string]*bzT{"a": nil} }},
	{"map-defined-value", func() interface{} { return map[string]bzMyInt{"a": 1} }},
	{"map-struct-value", func() interface{} { return map[string]bzT{"a": {C: 1}} }},
	{"map-func-value", func() interface{} { return map[string]func(bzMyInt) int{"a": func(x bzMyInt) int { return int(x) }} }},
	{"slice-of-defined", func() interface{} { return []bzMyInt{1, 2} }},
	{"slice-of-nil-pointers", func() interface{} { return []*bzT{nil, {C: 1}} }},
	{"slice-of-slices", func() interface{} { return [][]int{{1}, nil} }},
	{"slice-of-interface", func() interface{} { return []interface{}{nil, 1, "a", bzT{}} }},
	{"slice-of-structs", func() interface{} { return []bzT{{C: 1}} }},
	{"slice-of-uint8", func() interface{} { return []uint8("bytes") }},
	{"slice-of-errors", func() interface{} { return []error{nil, errors.New("e")} }},
	{"slice-of-bool", func() interface{} { return []bool{true} }},
	{"slice-of-string", func() interface{} { return []string{"a"} }},
	{"slice-of-float32", func() interface{} { return []float32{1.5} }},
	{"slice-with-capacity", func() interface{} { return make([]int, 1, 4) }},
	{"empty-array", func() interface{} { return [0]int{} }},
	{"array-of-defined", func() interface{} { return [2]bzMyInt{1, 2} }},
	{"array-by-pointer", func() interface{} { return &[2]int{1, 2} }},
	{"pointer-to-int", func() interface{} { i := 5; return &i }},
	{"pointer-to-pointer", func() interface{} { i := 5; p := &i; return &p }},
	{"pointer-to-slice", func() interface{} { s := []int{1}; return &s }},
	{"pointer-to-map", func() interface{} { m := map[string]int{"a": 1}; return &m }},
	{"pointer-to-nil-pointer", func() interface{} { var p *int; return &p }},
	{"channel", func() interface{} { return make(chan int) }},
	{"complex", func() interface{} { return complex(1, 2) }},
	{"uintptr", func() interface{} { return uintptr(7) }},
	{"uint64-max", func() interface{} { return ^uint64(0) }},
	{"int64-min", func() interface{} { return int64(-1 << 63) }},
	{"rune", func() interface{} { return 'x' }},
}

var bridgeNames = []string{"C", "S", "M", "I", "P", "A", "F", "U", "hid", "ren", "Ren", "Dash", "Exp", "Emb", "bzIn", "hidden", "b", "a", "0", "1", "2", "16", "0x10", "1_6", "-1", "1.5", "true", "1,2", "{a}", "length", "x", "Val", "Ptr", "Two", "None", "String", "Error", "constructor", "__proto__", ""}

// operations on one property name N of the bridged value V
var bridgeNameOps = []string{
	`V[N]`, `typeof V[N]`, `V[N] = 1`, `V[N] = 1.5`, `V[N] = -1`, `V[N] = 1e100`, `V[N] = "s"`, `V[N] = true`, `V[N] = null`, `V[N] = undefined`,
	`V[N] = {}`, `V[N] = {a: 1}`, `V[N] = [1, 2]`, `V[N] = [1.5, "x"]`, `V[N] = function(){}`, `V[N] = V`, `V[N] = V[N]`, `V[N] = String.fromCharCode(0xD800)`,
	`V[N] = new Number(3)`, `V[N] = {valueOf: function(){ throw 1 }}`, `delete V[N]`, `N in V`, `V.hasOwnProperty(N)`, `V.propertyIsEnumerable(N)`,
	`Object.getOwnPropertyDescriptor(V, N)`, `Object.defineProperty(V, N, {value: 1})`, `Object.defineProperty(V, N, {get: function(){ return 1 }})`,
	`Object.defineProperty(V, N, {writable: false})`, `V[N](1)`, `V[N]()`, `V[N](V)`, `V[N]("a", {}, [])`, `new V[N]`, `V[N].call(null, 1)`, `V[N].call(1, 1)`,
	`V[N].apply(V, [1, 2, 3])`, `V[N][N]`, `V[N][N] = 1`, `V[N].length = 0`, `V[N].length = 10`, `V[N].push(1)`, `V[N].push(1.5)`, `V[N][0] = "s"`, `V[N].a = "s"`,
	`V[N].x = 1`, `delete V[N][0]`, `V[N].C = 1`, `Object.keys(V[N])`, `JSON.stringify(V[N])`, `V[N] + ""`, `V[N]++`, `V[N] += "s"`,
}

// operations on the bridged value V as a whole (lengths stay small: `V.length = 4294967296` on a
// bridged slice is a 32 GiB allocation request, memory exhaustion rather than a panic)
var bridgeWholeOps = []string{
	`V`, `typeof V`, `V + ""`, `V + 1`, `String(V)`, `Number(V)`, `V == V`, `V < V`, `JSON.stringify(V)`, `JSON.stringify([V, {v: V}])`, `Object.keys(V)`,
	`Object.getOwnPropertyNames(V)`, `for (var k in V) V[k]`, `for (var k in V) V[k] = V[k]`, `for (var k in V) delete V[k]`, `Object.freeze(V)`, `Object.seal(V)`,
	`Object.preventExtensions(V); V.zz = 1`, `Object.isFrozen(V)`, `Object.getPrototypeOf(V)`, `Object.create(V).C`, `Object.create(V).C = 1`, `Object.create(V)[0]`,
	`V.length`, `V.length = 0`, `V.length = 1`, `V.length = 3`, `V.length = 10`, `V.length = -1`, `V.length = 1.5`, `V.length = "2"`, `V.length = 70000`,
	`V.push(1)`, `V.push(1.5)`, `V.push("s")`, `V.push(null)`, `V.push(V)`, `V.push({})`, `V.push()`, `V.pop()`, `V.shift()`, `V.unshift(1, 2)`, `V.splice(0, 1)`,
	`V.splice(0, 0, 1, 2, 3)`, `V.sort()`, `V.reverse()`, `V.concat(V)`, `V.slice(0)`, `V.join()`, `V.indexOf(1)`, `V.map(function(x){ return x })`,
	`V.forEach(function(x, i, a){ a[i] = x })`, `Array.prototype.slice.call(V)`, `Array.prototype.push.call(V, 1)`, `Array.prototype.fill && 1`, `[].concat(V)`,
	`V[0]`, `V[0] = 1`, `V[5] = 1`, `V[-1] = 1`, `V[70000] = 1`, `V["01"] = 1`, `V[1.5] = 1`,
	`V()`, `V(5)`, `V(5.5)`, `V(-1)`, `V(300)`, `V(1e100)`, `V(NaN)`, `V("x")`, `V("5")`, `V(true)`, `V(null)`, `V(undefined)`, `V({})`, `V({a: 1})`, `V({1: "a"})`,
	`V({a: "s"})`, `V({a: {}})`, `V({C: 1, S: [1], M: {a: 1}})`, `V({C: "s"})`, `V({S: 5})`, `V({zz: 1})`, `V([])`, `V([1, 2])`, `V([1.5, "x"])`, `V([[1]])`, `V([1, 2, 3])`,
	`V(function(){})`, `V(function(){ throw 1 })`, `V(V)`, `V(new Number(5))`, `V(new String("s"))`, `V(String.fromCharCode(0xD800))`, `V(new Date(0))`, `V(/x/)`,
	`V(5, 5)`, `V(5, "x")`, `V(1, 2, 3, 4)`, `V(true, 1.5)`, `V("a", "b")`, `V({valueOf: function(){ throw 1 }})`, `V({toString: function(){ return {} }})`,
	`V.call(null, 5)`, `V.apply(null, [5])`, `V.apply(null, {length: 2})`, `V.bind(null, 5)()`, `new V(5)`, `new V`, `V.length`, `V.name`, `V.prototype`,
	`V.toString()`, `V.valueOf()`, `V.constructor`, `V instanceof Object`, `Object.prototype.toString.call(V)`, `Array.isArray(V)`,
}

func implBridge(f []string) string {
	if len(f) != 3 {
		return "bad-op"
	}
	var vi, ni int
	fmt.Sscan(f[1], &vi)
	if vi < 0 || vi >= len(bridgeZoo) {
		return "bad-op"
	}
	ops := bridgeWholeOps
	n := ""
	if f[2] != "-" {
		fmt.Sscan(f[2], &ni)
		if ni < 0 || ni >= len(bridgeNames) {
			return "bad-op"
		}
		ops = bridgeNameOps
		n = bridgeNames[ni]
	}
	return guarded("bridge "+bridgeZoo[vi].name+" N="+n, func() string {
		mk := func() *otto.Otto {
			vm := otto.New()
			vm.SetStackDepthLimit(200)
			vm.Interrupt = make(chan func(), 1)
			vm.Set("N", n)
			return vm
		}
		vm := mk()
		var bad []string
		for _, op := range ops {
			if r := bridgeOp(vm, vi, n, op); r != "" {
				bad = append(bad, r+":"+strings.ReplaceAll(op, " ", ""))
				vm = mk() // go on with a fresh runtime: every panicking operation is reported
			}
		}
		if len(bad) == 0 {
			return "returns"
		}
		if len(bad) > 3 {
			bad = append(bad[:3], fmt.Sprintf("+%d-more", len(bad)-3))
		}
		return strings.Join(bad, ",")
	})
}

// bridgeOp runs one operation, inside try/catch and bare; "" when both returned to the caller.
func bridgeOp(vm *otto.Otto, vi int, n, op string) (res string) {
	defer func() {
		if r := recover(); r != nil {
			if _, halted := r.(haltT); halted {
				return
			}
			notePanic("bridge "+bridgeZoo[vi].name+" N="+n+" "+op, r)
			res = "gopanic"
		}
	}()
	stop := watchdogAfter(vm, 1500*time.Millisecond)
	defer stop()
	vm.Set("V", bridgeZoo[vi].mk())
	if v, err := vm.Run(`try { ` + op + ` } catch (e) { String(e) }`); err == nil && strings.Contains(v.String(), "invalid value") && strings.Contains(v.String(), "missing runtime") {
		// a Go panic caught by the script's try (see C18 trycatch_foreign): still a Go panic
		notePanic("bridge "+bridgeZoo[vi].name+" N="+n+" "+op+" (inside try)", v.String())
		return "gopanic-inside-try"
	}
	vm.Set("V", bridgeZoo[vi].mk())
	vm.Run(op)
	if v, err := vm.Run("1+1"); err != nil || v.String() != "2" {
		return "unusable-after"
	}
	return ""
}

func genBridge(c *h.Ctx) {
	for vi := range bridgeZoo {
		c.Add(fmt.Sprintf("bridge %d -", vi), "bridge:whole-value")
		for ni := range bridgeNames {
			c.Add(fmt.Sprintf("bridge %d %d", vi, ni), "bridge:by-name")
		}
	}
}
