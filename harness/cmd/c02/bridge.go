package main

import (
	"context"
	"encoding/json"
	"errors"
	"fmt"
	"os"
	"os/exec"
	"regexp"
	"runtime/debug"
	"strings"
	"sync"
	"time"
	"unsafe"

	"github.com/robertkrimen/otto"

	"ottoverif/h"
)

// bridge <value> <name|-> : every script-side operation on every kind of bridged Go value.  The zoo
// holds the Go types reflection treats specially (defined types as parameters and map keys, structs by
// value, nil embedded pointers, unexported and tagged fields, nested containers, nil pointers inside
// containers, interface-typed slots).  Each operation runs in its own vm.Run on one runtime; whatever
// the bridge thinks of the operation, Run has to return.

type bzIn struct{ A string }
type bzP struct{ *bzIn }
type bzT struct {
	C int
	S []int
	M map[string]int
	F float32
	U uint8
	I interface{}
	P *bzT
}

func (t bzT) Val(n int) int     { return t.C + n }
func (t *bzT) Ptr(n int) int    { t.C += n; return t.C }
func (t bzT) Two() (int, error) { return t.C, errors.New("second") }
func (t bzT) None()             {}

type bzE struct {
	bzIn
	A string
}
type bzTag struct {
	Exp  int
	hid  int  `json:"hid"`
	Dash int  `json:"-"`
	Ren  int  `json:"ren"`
	Emb  bzIn `json:"-"`
	bzIn `json:"-"`
}
type bzUnexpEmb struct {
	bzIn
	hidden int
}
type bzMyInt int64
type bzStr string
type bzBool bool
type bzFlt float32
type bzK int
type bzSK string
type bzFn func(int) int
type bzSl []int
type bzMp map[string]int

type bzStringer struct{ n int }

type bzDeep struct {
	L1 map[string][]map[string]*bzT
	L2 [][][]int
	L3 map[string]map[string][]interface{}
	A  [2][2]int
	PA *[2]bzT
	Fn func(int) int
	Ch chan int
	NM map[string]int
	NS []string
	PI *int
	PP **bzT
	E  error
	St fmt.Stringer
	T  time.Time
	D  time.Duration
	Cx complex128
	R  json.RawMessage
	V  otto.Value
	O  *otto.Object
	U  unsafe.Pointer
	un int
}

type bzSelf struct {
	Name string
	Self *bzSelf
	Kids []*bzSelf
	M    map[string]*bzSelf
	I    interface{}
}

type bzJSON struct{ A int }

func (j bzJSON) MarshalJSON() ([]byte, error) { return nil, errors.New("marshal fails") }

type bzJSONBad struct{ A int }

func (j bzJSONBad) MarshalJSON() ([]byte, error) { return []byte("{not json"), nil }

type bzText struct{ s string }

func (t *bzText) UnmarshalText(b []byte) error {
	if len(b) == 0 {
		return errors.New("empty")
	}
	t.s = string(b)
	return nil
}

type bzIface interface{ M() int }
type bzImpl struct{ N int }

func (i *bzImpl) M() int { return i.N }

type bzEmbIface struct {
	bzIface
	fmt.Stringer
	X int
}

type bzMeth struct{ C int }

func (m bzMeth) Val(n int) int                      { return m.C + n }
func (m *bzMeth) Ptr(n int) int                     { m.C += n; return m.C }
func (m bzMeth) Two() (int, error)                  { return m.C, errors.New("second") }
func (m bzMeth) Three() (int, string, []int)        { return 1, "s", nil }
func (m bzMeth) None()                              {}
func (m bzMeth) Variadic(a int, r ...string) int    { return a + len(r) }
func (m bzMeth) Self() bzMeth                       { return m }
func (m *bzMeth) PSelf() *bzMeth                    { return m }
func (m bzMeth) NilPtr() *bzMeth                    { return nil }
func (m bzMeth) Fn() func(int) int                  { return func(a int) int { return a } }
func (m bzMeth) TakesSelf(o bzMeth, p *bzMeth) int  { return o.C }
func (m bzMeth) TakesFn(f func(int) int) int        { return f(1) }
func (m bzMeth) TakesMap(x map[string][]int) int    { return len(x) }
func (m bzMeth) TakesIface(x interface{}) string    { return fmt.Sprintf("%T", x) }
func (m bzMeth) TakesValue(v otto.Value) otto.Value { return v }
func (m bzMeth) Call(c otto.FunctionCall) otto.Value {
	return c.Argument(0)
}

type bzSlMeth []int

func (s bzSlMeth) Sum() int    { return len(s) }
func (s *bzSlMeth) Grow(n int) { *s = append(*s, n) }

type bzMpMeth map[string]int

func (m bzMpMeth) Len() int { return len(m) }

type bzArrMeth [2]int

func (a bzArrMeth) First() int { return a[0] }

func (s bzStringer) String() string { return fmt.Sprint("S", s.n) }

var bridgeZoo = []struct {
	name string
	mk   func() interface{}
}{
	{"struct-by-value", func() interface{} { return bzT{C: 1, S: []int{1, 2}, M: map[string]int{"a": 1}} }},
	{"struct-by-pointer", func() interface{} {
		return &bzT{C: 1, S: make([]int, 2, 8), M: map[string]int{"a": 1}, I: 5, P: &bzT{}}
	}},
	{"struct-zero-by-pointer", func() interface{} { return &bzT{} }},
	{"nil-embedded-pointer", func() interface{} { return &bzP{} }},
	{"nil-embedded-pointer-by-value", func() interface{} { return bzP{} }},
	{"embedded-shadowed-by-value", func() interface{} { return bzE{bzIn{"in"}, "out"} }},
	{"embedded-shadowed-by-pointer", func() interface{} { return &bzE{bzIn{"in"}, "out"} }},
	{"tagged-fields", func() interface{} { return &bzTag{Exp: 1, hid: 2, Dash: 3, Ren: 4} }},
	{"tagged-fields-by-value", func() interface{} { return bzTag{Exp: 1, hid: 2, Dash: 3, Ren: 4} }},
	{"unexported-embedded", func() interface{} { return &bzUnexpEmb{bzIn{"in"}, 1} }},
	{"anonymous-struct", func() interface{} { return &struct{ A, b int }{1, 2} }},
	{"defined-int", func() interface{} { return bzMyInt(5) }},
	{"defined-string", func() interface{} { return bzStr("x") }},
	{"defined-bool", func() interface{} { return bzBool(true) }},
	{"defined-float32", func() interface{} { return bzFlt(1.5) }},
	{"defined-func", func() interface{} { return bzFn(func(a int) int { return a }) }},
	{"defined-slice", func() interface{} { return bzSl{1, 2} }},
	{"defined-map", func() interface{} { return bzMp{"a": 1} }},
	{"stringer", func() interface{} { return bzStringer{1} }},
	{"error-value", func() interface{} { return errors.New("e") }},
	{"func-defined-int-param", func() interface{} { return func(x bzMyInt) int { return int(x) } }},
	{"func-defined-string-param", func() interface{} { return func(x bzStr) string { return string(x) } }},
	{"func-defined-bool-float-param", func() interface{} { return func(b bzBool, f bzFlt) bool { return bool(b) && f > 0 } }},
	{"func-map-defined-string-key", func() interface{} { return func(m map[bzSK]int) int { return len(m) } }},
	{"func-map-defined-int-key", func() interface{} { return func(m map[bzK]string) int { return len(m) } }},
	{"func-map-int-key", func() interface{} { return func(m map[int]int) int { return len(m) } }},
	{"func-struct-by-value", func() interface{} { return func(t bzT) int { return t.C } }},
	{"func-struct-by-pointer", func() interface{} {
		return func(t *bzT) int {
			if t == nil { // null and undefined arrive as the nil pointer
				return -1
			}
			return t.C
		}
	}},
	{"func-slice-of-defined", func() interface{} { return func(l []bzMyInt) int { return len(l) } }},
	{"func-variadic-defined", func() interface{} { return func(l ...bzMyInt) int { return len(l) } }},
	{"func-variadic-interface", func() interface{} { return func(a int, l ...interface{}) int { return a + len(l) } }},
	{"func-interface-param", func() interface{} { return func(x interface{}) string { return fmt.Sprintf("%T", x) } }},
	{"func-error-param", func() interface{} { return func(e error) bool { return e == nil } }},
	{"func-stringer-param", func() interface{} { return func(s fmt.Stringer) bool { return s == nil } }},
	{"func-chan-param", func() interface{} { return func(c chan int) bool { return c == nil } }},
	{"func-func-param", func() interface{} { return func(f func()) bool { return f == nil } }},
	{"func-uint8-param", func() interface{} { return func(u uint8, i int8) int { return int(u) + int(i) } }},
	{"func-array-param", func() interface{} { return func(a [2]int) int { return a[0] } }},
	{"func-ptrptr-param", func() interface{} { return func(p **int) bool { return p == nil } }},
	{"func-two-results", func() interface{} { return func() (int, error) { return 1, errors.New("e") } }},
	{"func-no-result", func() interface{} { return func() {} }},
	{"func-returns-nil-pointer", func() interface{} { return func() *bzT { return nil } }},
	{"func-returns-nil-error", func() interface{} { return func() error { return nil } }},
	{"func-returns-defined", func() interface{} { return func() (bzMyInt, bzStr) { return 1, "s" } }},
	{"func-value-param", func() interface{} { return func(v otto.Value) otto.Value { return v } }},
	{"func-object-param", func() interface{} { return func(o *otto.Object) bool { return o == nil } }},
	{"map-defined-int-key", func() interface{} { return map[bzK]string{1: "a"} }},
	{"map-defined-string-key", func() interface{} { return map[bzSK]int{"a": 1} }},
	{"map-int-key", func() interface{} { return map[int]string{16: "x", 0: "z"} }},
	{"map-bool-key", func() interface{} { return map[bool]int{true: 1} }},
	{"map-float-key", func() interface{} { return map[float64]int{1.5: 1} }},
	{"map-uint8-key", func() interface{} { return map[uint8]int{1: 1} }},
	{"map-interface-key", func() interface{} { return map[interface{}]int{1: 1, "a": 2} }},
	{"map-array-key", func() interface{} { return map[[2]int]int{{1, 2}: 1} }},
	{"map-struct-key", func() interface{} { return map[bzIn]int{{"a"}: 1} }},
	{"map-interface-value", func() interface{} { return map[string]interface{}{"a": nil, "length": 1, "b": []int{1}} }},
	{"map-nil-pointer-value", func() interface{} { return map[string]*bzT{"a": nil} }},
	{"map-defined-value", func() interface{} { return map[string]bzMyInt{"a": 1} }},
	{"map-struct-value", func() interface{} { return map[string]bzT{"a": {C: 1}} }},
	{"map-func-value", func() interface{} { return map[string]func(bzMyInt) int{"a": func(x bzMyInt) int { return int(x) }} }},
	{"slice-of-defined", func() interface{} { return []bzMyInt{1, 2} }},
	{"slice-of-nil-pointers", func() interface{} { return []*bzT{nil, {C: 1}} }},
	{"slice-of-slices", func() interface{} { return [][]int{{1}, nil} }},
	{"slice-of-interface", func() interface{} { return []interface{}{nil, 1, "a", bzT{}} }},
	{"slice-of-structs", func() interface{} { return []bzT{{C: 1}} }},
	{"slice-of-uint8", func() interface{} { return []uint8("bytes") }},
	{"slice-of-errors", func() interface{} { return []error{nil, errors.New("e")} }},
	{"slice-of-bool", func() interface{} { return []bool{true} }},
	{"slice-of-string", func() interface{} { return []string{"a"} }},
	{"slice-of-float32", func() interface{} { return []float32{1.5} }},
	{"slice-with-capacity", func() interface{} { return make([]int, 1, 4) }},
	{"empty-array", func() interface{} { return [0]int{} }},
	{"array-of-defined", func() interface{} { return [2]bzMyInt{1, 2} }},
	{"array-by-pointer", func() interface{} { return &[2]int{1, 2} }},
	{"pointer-to-int", func() interface{} { i := 5; return &i }},
	{"pointer-to-pointer", func() interface{} { i := 5; p := &i; return &p }},
	{"pointer-to-slice", func() interface{} { s := []int{1}; return &s }},
	{"pointer-to-map", func() interface{} { m := map[string]int{"a": 1}; return &m }},
	{"pointer-to-nil-pointer", func() interface{} { var p *int; return &p }},
	{"channel", func() interface{} { return make(chan int) }},
	{"complex", func() interface{} { return complex(1, 2) }},
	{"uintptr", func() interface{} { return uintptr(7) }},
	{"uint64-max", func() interface{} { return ^uint64(0) }},
	{"int64-min", func() interface{} { return int64(-1 << 63) }},
	{"rune", func() interface{} { return 'x' }},
	// --- second round: nested containers, methods of every shape, nil containers, cyclic data, odd parameter types
	{"deep-struct", func() interface{} {
		i := 5
		t := &bzT{C: 1}
		return &bzDeep{L1: map[string][]map[string]*bzT{"a": {{"x": nil, "y": {C: 1}}, nil}, "n": nil}, L2: [][][]int{{{1}, nil}, nil},
			L3: map[string]map[string][]interface{}{"a": {"b": {1, "s", nil, []int{1}, map[string]int{"k": 1}, &bzT{}}}, "n": nil},
			PA: &[2]bzT{{C: 1}}, Fn: func(a int) int { return a }, Ch: make(chan int), PI: &i, PP: &t, E: errors.New("e"), St: bzStringer{1}}
	}},
	{"deep-struct-zero", func() interface{} { return &bzDeep{} }},
	{"deep-struct-by-value", func() interface{} { return bzDeep{L2: [][][]int{{{1}}}} }},
	{"map-3-deep", func() interface{} {
		return map[string]map[string]map[string]int{"C": {"C": {"C": 1}}, "a": {"a": nil}, "0": nil}
	}},
	{"slice-3-deep", func() interface{} { return [][][]int{{{1, 2}, nil}, nil, {}} }},
	{"map-of-slices-of-maps", func() interface{} { return map[string][]map[string]interface{}{"a": {{"a": 1}, nil}, "S": nil} }},
	{"slice-of-maps", func() interface{} { return []map[string]int{{"a": 1}, nil} }},
	{"slice-of-map-int-key", func() interface{} { return []map[int][]string{{1: {"a"}}, nil} }},
	{"array-of-arrays", func() interface{} { return [2][2]int{{1, 2}, {3, 4}} }},
	{"array-of-arrays-by-pointer", func() interface{} { return &[2][2]int{{1, 2}, {3, 4}} }},
	{"array-of-slices", func() interface{} { return &[2][]int{{1}, nil} }},
	{"array-of-struct-pointers", func() interface{} { return &[2]*bzT{nil, {C: 1}} }},
	{"map-array-value", func() interface{} { return map[string][2]int64{"a": {1, 2}} }},
	{"map-slice-value", func() interface{} { return map[string][]int{"a": {1}, "S": nil} }},
	{"map-pointer-to-int-value", func() interface{} { i := 1; return map[string]*int{"a": &i, "b": nil} }},
	{"map-error-value", func() interface{} { return map[string]error{"a": errors.New("e"), "b": nil} }},
	{"map-chan-value", func() interface{} { return map[string]chan int{"a": make(chan int), "b": nil} }},
	{"map-value-value", func() interface{} { return map[string]otto.Value{"a": otto.NullValue(), "b": {}} }},
	{"map-pointer-key", func() interface{} { i := 1; return map[*int]int{&i: 1, nil: 2} }},
	{"map-chan-key", func() interface{} { return map[chan int]int{make(chan int): 1} }},
	{"map-complex-key", func() interface{} { return map[complex128]int{1: 1} }},
	{"map-stringer-key", func() interface{} { return map[fmt.Stringer]int{bzStringer{1}: 1} }},
	{"map-int8-key", func() interface{} { return map[int8]int{-1: 1, 1: 2} }},
	{"map-uint64-key", func() interface{} { return map[uint64]string{^uint64(0): "max", 0: "z"} }},
	{"map-float32-key", func() interface{} { return map[float32]int{1.5: 1, 0.1: 2} }},
	{"map-rune-key", func() interface{} { return map[rune]int{'a': 1} }},
	{"nil-map", func() interface{} { return map[string]int(nil) }},
	{"nil-map-int-key", func() interface{} { return map[int]int(nil) }},
	{"nil-slice", func() interface{} { return []int(nil) }},
	{"nil-slice-of-structs", func() interface{} { return []bzT(nil) }},
	{"nil-func", func() interface{} { return (func(int) int)(nil) }},
	{"nil-struct-pointer", func() interface{} { return (*bzT)(nil) }},
	{"nil-array-pointer", func() interface{} { return (*[2]int)(nil) }},
	{"nil-error", func() interface{} { return error(nil) }},
	{"nil-pointer-to-slice", func() interface{} { return (*[]int)(nil) }},
	{"self-referential", func() interface{} {
		s := &bzSelf{Name: "s"}
		s.Self = s
		s.Kids = []*bzSelf{s, nil}
		s.M = map[string]*bzSelf{"a": s}
		s.I = s
		return s
	}},
	{"self-containing-slice", func() interface{} { s := []interface{}{1, nil}; s[1] = s; return s }},
	{"self-containing-map", func() interface{} { m := map[string]interface{}{"a": 1}; m["C"] = m; return m }},
	{"json-marshaler-fails", func() interface{} { return &bzJSON{1} }},
	{"json-marshaler-bad-output", func() interface{} { return bzJSONBad{1} }},
	{"slice-of-json-marshalers", func() interface{} { return []interface{}{bzJSON{1}, &bzJSONBad{1}} }},
	{"embedded-nil-interfaces", func() interface{} { return &bzEmbIface{X: 1} }},
	{"embedded-interface", func() interface{} { return &bzEmbIface{bzIface: &bzImpl{1}, Stringer: bzStringer{1}} }},
	{"methods-by-value", func() interface{} { return bzMeth{C: 1} }},
	{"methods-by-pointer", func() interface{} { return &bzMeth{C: 1} }},
	{"slice-with-methods", func() interface{} { return bzSlMeth{1, 2} }},
	{"slice-with-methods-by-pointer", func() interface{} { return &bzSlMeth{1, 2} }},
	{"map-with-methods", func() interface{} { return bzMpMeth{"a": 1} }},
	{"array-with-methods", func() interface{} { return bzArrMeth{1, 2} }},
	{"array-with-methods-by-pointer", func() interface{} { return &bzArrMeth{1, 2} }},
	{"time", func() interface{} { return time.Unix(0, 0) }},
	{"time-by-pointer", func() interface{} { t := time.Unix(0, 0); return &t }},
	{"duration", func() interface{} { return time.Second }},
	{"raw-message", func() interface{} { return json.RawMessage(`{"a":1}`) }},
	{"otto-value", func() interface{} { return otto.TrueValue() }},
	{"otto-value-zero", func() interface{} { return otto.Value{} }},
	{"otto-value-pointer", func() interface{} { v := otto.NullValue(); return &v }},
	{"native-function", func() interface{} { return func(c otto.FunctionCall) otto.Value { return c.Argument(5) } }},
	{"native-function-uses-this", func() interface{} {
		return func(c otto.FunctionCall) otto.Value {
			c.This.Object()
			c.Otto.Run("1")
			v, _ := c.This.Export()
			_ = v
			return c.This
		}
	}},
	{"unsafe-pointer", func() interface{} { i := 1; return unsafe.Pointer(&i) }},
	{"func-text-unmarshaler-param", func() interface{} { return func(t bzText) string { return t.s } }},
	{"func-text-unmarshaler-pointer-param", func() interface{} {
		return func(t *bzText) string {
			if t == nil {
				return ""
			}
			return t.s
		}
	}},
	{"func-raw-message-param", func() interface{} { return func(r json.RawMessage) int { return len(r) } }},
	{"func-time-param", func() interface{} { return func(t time.Time, d time.Duration) bool { return t.IsZero() } }},
	{"func-iface-method-param", func() interface{} { return func(i bzIface) bool { return i == nil } }},
	{"func-nested-param", func() interface{} {
		return func(m map[string][]map[string]*bzT, l [][][]int) int { return len(m) + len(l) }
	}},
	{"func-deep-struct-param", func() interface{} { return func(d bzDeep, p *bzDeep) int { return len(d.L1) } }},
	{"func-self-param", func() interface{} { return func(s bzSelf) string { return s.Name } }},
	{"func-variadic-struct", func() interface{} { return func(l ...bzT) int { return len(l) } }},
	{"func-variadic-pointer", func() interface{} { return func(l ...*bzT) int { return len(l) } }},
	{"func-variadic-only-values", func() interface{} { return func(l ...otto.Value) int { return len(l) } }},
	{"func-variadic-slices", func() interface{} { return func(a string, l ...[]int) int { return len(l) } }},
	{"func-map-interface-key-param", func() interface{} { return func(m map[interface{}]interface{}) int { return len(m) } }},
	{"func-map-struct-value-param", func() interface{} { return func(m map[string]bzT) int { return len(m) } }},
	{"func-slice-of-pointers-param", func() interface{} { return func(l []*bzT) int { return len(l) } }},
	{"func-slice-of-funcs-param", func() interface{} {
		return func(l []func(int) int) int {
			n := 0
			for _, f := range l {
				if f != nil {
					n += f(1)
				}
			}
			return n
		}
	}},
	{"func-func-with-results-param", func() interface{} {
		return func(f func(int, string) string, g func() (int, error)) string {
			if f == nil {
				return ""
			}
			return f(1, "a")
		}
	}},
	{"func-func-returning-struct-param", func() interface{} {
		return func(f func(bzT) bzT, g func(*bzT) []int, k func() map[string]int) int {
			if f == nil || g == nil || k == nil {
				return -1
			}
			return f(bzT{}).C + len(g(nil)) + len(k())
		}
	}},
	{"func-uintptr-complex-param", func() interface{} { return func(u uintptr, c complex64) bool { return u == 0 } }},
	{"func-unsafe-pointer-param", func() interface{} { return func(u unsafe.Pointer) bool { return u == nil } }},
	{"func-function-call-and-more", func() interface{} { return func(c otto.FunctionCall, n int) int { return n } }},
	{"func-returns-func", func() interface{} { return func() func(bzMyInt) []int { return func(bzMyInt) []int { return nil } } }},
	{"func-returns-chan", func() interface{} { return func() chan int { return make(chan int) } }},
	{"func-returns-nil-everything", func() interface{} {
		return func() (map[string]int, []int, func(), *int, error, interface{}, chan int) {
			return nil, nil, nil, nil, nil, nil, nil
		}
	}},
	{"func-returns-nested", func() interface{} {
		return func() (map[string][]*bzT, [][2]int) { return map[string][]*bzT{"a": {nil}}, [][2]int{{1, 2}} }
	}},
	{"func-returns-complex", func() interface{} { return func() complex128 { return 1 } }},
	{"func-returns-unsafe-pointer", func() interface{} { return func() unsafe.Pointer { return nil } }},
	{"func-returns-struct-with-chan", func() interface{} { return func() *bzDeep { return &bzDeep{Ch: make(chan int)} } }},
	{"func-returns-value-zero", func() interface{} { return func() otto.Value { return otto.Value{} } }},
	{"func-returns-object-nil", func() interface{} { return func() *otto.Object { return nil } }},
	{"slice-of-funcs", func() interface{} { return []func(int) int{nil, func(a int) int { return a }} }},
	{"slice-of-chans", func() interface{} { return []chan int{nil, make(chan int)} }},
	{"slice-of-complex", func() interface{} { return []complex128{1} }},
	{"slice-of-values", func() interface{} { return []otto.Value{otto.NullValue(), {}} }},
	{"slice-of-pointers-to-int", func() interface{} { i := 1; return []*int{&i, nil} }},
	{"slice-of-arrays", func() interface{} { return [][2]int64{{1, 2}} }},
	{"slice-of-array-pointers", func() interface{} { return []*[2]int{nil, {1, 2}} }},
	{"slice-of-int8", func() interface{} { return []int8{-1, 1} }},
	{"slice-of-uint64", func() interface{} { return []uint64{^uint64(0)} }},
	{"slice-of-time", func() interface{} { return []time.Time{time.Unix(0, 0)} }},
	{"slice-of-stringers", func() interface{} { return []fmt.Stringer{nil, bzStringer{1}} }},
	{"slice-of-defined-structs-pointers", func() interface{} { return []*bzMeth{{C: 1}, nil} }},
	{"slice-of-empty-structs", func() interface{} { return []struct{}{{}, {}} }},
	{"pointer-to-struct-pointer", func() interface{} { t := &bzT{C: 1}; return &t }},
	{"pointer-to-interface", func() interface{} { var i interface{} = 1; return &i }},
	{"pointer-to-func", func() interface{} { f := func(a int) int { return a }; return &f }},
	{"pointer-to-array-of-structs", func() interface{} { return &[1]bzT{{C: 1}} }},
	{"interface-holding-nil-pointer", func() interface{} { var p *bzT; var i interface{} = p; return &i }},
}

// names every value is asked for (fields and methods of the first zoo members, numeric and odd spellings)
var bridgeNames = []string{"C", "S", "M", "I", "P", "A", "F", "U", "hid", "ren", "Ren", "Dash", "Exp", "Emb", "bzIn", "hidden", "b", "a", "0", "1", "2", "16", "0x10", "1_6", "-1", "1.5", "true", "1,2", "{a}", "length", "x", "Val", "Ptr", "Two", "None", "String", "Error", "constructor", "__proto__", "",
	// names asked only of the values that have them (`N in V` at generation time): the second round's fields and methods
	"L1", "L2", "L3", "PA", "Fn", "Ch", "NM", "NS", "PI", "PP", "E", "St", "T", "D", "Cx", "R", "V", "O", "un", "Name", "Self", "Kids", "X", "N",
	"Three", "Variadic", "PSelf", "NilPtr", "TakesSelf", "TakesFn", "TakesMap", "TakesIface", "TakesValue", "Call", "Sum", "Grow", "Len", "First",
	"MarshalJSON", "UnmarshalText", "Unix", "Add", "Seconds", "n", "k", "y", "max", "z", "-1", "97", "0.1", "18446744073709551615", "S1", "s"}

const bridgeGenericNames = 40

// operations on one property name N of the bridged value V
var bridgeNameOps = []string{
	`V[N]`, `typeof V[N]`, `V[N] = 1`, `V[N] = 1.5`, `V[N] = -1`, `V[N] = 1e100`, `V[N] = "s"`, `V[N] = true`, `V[N] = null`, `V[N] = undefined`,
	`V[N] = {}`, `V[N] = {a: 1}`, `V[N] = [1, 2]`, `V[N] = [1.5, "x"]`, `V[N] = function(){}`, `V[N] = V`, `V[N] = V[N]`, `V[N] = String.fromCharCode(0xD800)`,
	`V[N] = new Number(3)`, `V[N] = {valueOf: function(){ throw 1 }}`, `delete V[N]`, `N in V`, `V.hasOwnProperty(N)`, `V.propertyIsEnumerable(N)`,
	`Object.getOwnPropertyDescriptor(V, N)`, `Object.defineProperty(V, N, {value: 1})`, `Object.defineProperty(V, N, {get: function(){ return 1 }})`,
	`Object.defineProperty(V, N, {writable: false})`, `V[N](1)`, `V[N]()`, `V[N](V)`, `V[N]("a", {}, [])`, `new V[N]`, `V[N].call(null, 1)`, `V[N].call(1, 1)`,
	`V[N].apply(V, [1, 2, 3])`, `V[N][N]`, `V[N][N] = 1`, `V[N].length = 0`, `V[N].length = 10`, `V[N].push(1)`, `V[N].push(1.5)`, `V[N][0] = "s"`, `V[N].a = "s"`,
	`V[N].x = 1`, `delete V[N][0]`, `V[N].C = 1`, `Object.keys(V[N])`, `JSON.stringify(V[N])`, `V[N] + ""`, `V[N]++`, `V[N] += "s"`,
	// second round
	`Object.defineProperty(V, N, {writable: true, enumerable: true, configurable: true})`, `Object.defineProperty(V, N, {set: function(v){}, enumerable: true, configurable: true})`,
	`Object.defineProperty(V, N, {value: V, writable: true, enumerable: true, configurable: true})`, `Object.defineProperty(V, N, {})`, `Object.defineProperty(V, N, {enumerable: false})`,
	`Object.defineProperties(V, (function(){ var d = {}; d[N] = {value: "s"}; return d })())`,
	`Object.create(V)[N]`, `Object.create(V)[N] = 1`, `Object.create(V)[N]()`, `Object.create(V)[N](1, 2)`, `delete Object.create(V)[N]`, `var o = Object.create(V); o[N] = V[N]; o[N]`,
	`Object.create(V[N])[N]`, `Object.create(Object.create(V))[N] = "s"`, `V[N][0][0]`, `V[N][0][0] = 1`, `V[N][0][0] = null`, `V[N][0].a = 1`, `V[N].a[0] = 1`, `V[N].a.b = 1`, `V[N].a.b[0] = V`,
	`V[N][0] = V[N][1]`, `V[N][1] = V[N][0]`, `V[N][0] = V[N]`, `V[N][N] = V[N]`, `V[N].a = V[N].b`, `V[N].a = null`, `V[N].zz = {}`, `V[N][0] = {C: 1}`, `V[N][0] = [1]`, `V[N][0] = [[1]]`,
	`V[N].reverse()`, `V[N].sort()`, `V[N].splice(0, 1, V[N][0], null)`, `V[N].unshift(V[N][0])`, `V[N].concat(V[N], V)`, `V[N].length = 1e100`, `V[N].length = NaN`,
	`for (var k in V[N]) V[N][k] = V[N][k]`, `for (var k in V[N]) delete V[N][k]`, `String(V[N])`, `V[N] == V[N]`, `V[N] === V[N]`, `V[N] < 1`, `-V[N]`, `V[N] | 0`, `[V[N]].join()`, `[].concat(V[N])`,
	`V[N](null)`, `V[N](undefined, undefined)`, `V[N](null, null, null)`, `V[N]({}, {}, {})`, `V[N]([], [], [])`, `V[N](1, "a", [1], {a: 1})`, `V[N](V[N])`, `V[N](V, V)`, `V[N]({C: 1}, {C: 1})`,
	`V[N](function(){ return 1 })`, `V[N](function(){ return "s" })`, `V[N](function(){ throw new Error("cb") })`, `V[N](function(){ return {} })`, `V[N]({a: [1, 2]})`, `V[N]({a: "s"})`, `V[N](1.5)`, `V[N](1e100, "a")`,
	`V[N].bind(V)(1)`, `V[N].bind(null, 1, 2, 3)()`, `V[N].apply(null, V)`, `V[N].apply(V[N], {length: 3})`, `new (V[N].bind(null))`, `V[N].length`, `V[N].name`, `V[N].toString()`, `V[N].prototype`,
	`var f = V[N]; f(1)`, `var f = V[N]; V = null; f(1)`, `[1, 2].map(V[N])`, `[1, 2].forEach(V[N])`, `[3, 1].sort(V[N])`, `"ab".replace(/a/, V[N])`, `JSON.stringify({a: 1}, V[N])`, `JSON.parse("[1]", V[N])`,
	`Object.freeze(V[N])`, `Object.keys(Object(V[N]))`, `Object.getOwnPropertyNames(Object(V[N]))`, `V[N] instanceof Object`, `V[N].constructor`, `V[N].hasOwnProperty(N)`, `N in Object(V[N])`,
	`with (V) { eval(N) }`, `with (V) { eval(N + " = 1") }`, `with (V) { typeof eval(N) }`,
}

// operations on the bridged value V as a whole.  A valid but huge length (`V.length = 4294967295` on a bridged
// []int is a 32 GiB allocation request) is memory exhaustion rather than a panic and is not in the list; the
// invalid lengths 4294967296 / 1e100 / NaN must be RangeErrors (they were allocation panics before 9ca504e).
var bridgeWholeOps = []string{
	`V`, `typeof V`, `V + ""`, `V + 1`, `String(V)`, `Number(V)`, `V == V`, `V < V`, `JSON.stringify(V)`, `JSON.stringify([V, {v: V}])`, `Object.keys(V)`,
	`Object.getOwnPropertyNames(V)`, `for (var k in V) V[k]`, `for (var k in V) V[k] = V[k]`, `for (var k in V) delete V[k]`, `Object.freeze(V)`, `Object.seal(V)`,
	`Object.preventExtensions(V); V.zz = 1`, `Object.isFrozen(V)`, `Object.getPrototypeOf(V)`, `Object.create(V).C`, `Object.create(V).C = 1`, `Object.create(V)[0]`,
	`V.length`, `V.length = 0`, `V.length = 1`, `V.length = 3`, `V.length = 10`, `V.length = -1`, `V.length = 1.5`, `V.length = "2"`, `V.length = 70000`,
	`V.push(1)`, `V.push(1.5)`, `V.push("s")`, `V.push(null)`, `V.push(V)`, `V.push({})`, `V.push()`, `V.pop()`, `V.shift()`, `V.unshift(1, 2)`, `V.splice(0, 1)`,
	`V.splice(0, 0, 1, 2, 3)`, `V.sort()`, `V.reverse()`, `V.concat(V)`, `V.slice(0)`, `V.join()`, `V.indexOf(1)`, `V.map(function(x){ return x })`,
	`V.forEach(function(x, i, a){ a[i] = x })`, `Array.prototype.slice.call(V)`, `Array.prototype.push.call(V, 1)`, `Array.prototype.fill && 1`, `[].concat(V)`,
	`V[0]`, `V[0] = 1`, `V[5] = 1`, `V[-1] = 1`, `V[70000] = 1`, `V["01"] = 1`, `V[1.5] = 1`,
	`V()`, `V(5)`, `V(5.5)`, `V(-1)`, `V(300)`, `V(1e100)`, `V(NaN)`, `V("x")`, `V("5")`, `V(true)`, `V(null)`, `V(undefined)`, `V({})`, `V({a: 1})`, `V({1: "a"})`,
	`V({a: "s"})`, `V({a: {}})`, `V({C: 1, S: [1], M: {a: 1}})`, `V({C: "s"})`, `V({S: 5})`, `V({zz: 1})`, `V([])`, `V([1, 2])`, `V([1.5, "x"])`, `V([[1]])`, `V([1, 2, 3])`,
	`V(function(){})`, `V(function(){ throw 1 })`, `V(V)`, `V(new Number(5))`, `V(new String("s"))`, `V(String.fromCharCode(0xD800))`, `V(new Date(0))`, `V(/x/)`,
	`V(5, 5)`, `V(5, "x")`, `V(1, 2, 3, 4)`, `V(true, 1.5)`, `V("a", "b")`, `V({valueOf: function(){ throw 1 }})`, `V({toString: function(){ return {} }})`,
	`V.call(null, 5)`, `V.apply(null, [5])`, `V.apply(null, {length: 2})`, `V.bind(null, 5)()`, `new V(5)`, `new V`, `V.length`, `V.name`, `V.prototype`,
	`V.toString()`, `V.valueOf()`, `V.constructor`, `V instanceof Object`, `Object.prototype.toString.call(V)`, `Array.isArray(V)`,
	// second round
	`V.length = 4294967296`, `V.length = 1e100`, `V.length = NaN`, `V.length = Infinity`, `V.length = {valueOf: function(){ throw 1 }}`, `V.length = "x"`, `V.length = undefined`,
	`Object.defineProperty(V, "length", {value: 1e100})`, `Object.defineProperty(V, "length", {get: function(){ return 1 }})`, `Object.defineProperty(V, "length", {writable: false})`,
	`Array.prototype.push.call(V, V)`, `Array.prototype.splice.call(V, 0, 1, V, null, {})`, `Array.prototype.unshift.call(V, null)`, `Array.prototype.reverse.call(V)`, `Array.prototype.sort.call(V, function(){ return -1 })`,
	`V.sort(function(){ throw 1 })`, `V.sort(function(){ return NaN })`, `V.map(function(){ return V })`, `V.filter(function(){ return true })`, `V.reduce(function(a, b){ return a })`, `V.lastIndexOf(V)`,
	`V.splice(0, 0, V)`, `V.splice(1, 5)`, `V.unshift(null, undefined)`, `V.unshift(V)`, `V.concat([V, [V]])`, `V.fill && 0`, `V.push(V[0])`, `V.push(V[0], V[1], null)`, `V.push([1])`, `V.push([[1]])`, `V.push({a: 1})`, `V.push({C: 1})`,
	`V[0] = V[1]`, `V[1] = V[0]`, `V[0] = V`, `V[0] = null`, `V[0] = undefined`, `V[0] = {}`, `V[0] = {a: 1}`, `V[0] = {C: 1, P: {C: 2}}`, `V[0] = [1]`, `V[0] = [[1]]`, `V[0] = [null]`, `V[0] = "s"`, `V[0] = 1.5`, `V[0] = -1`, `V[0] = 1e100`, `V[0] = true`,
	`V[0] = function(){ return 1 }`, `V[0] = new Date(0)`, `V[0] = /x/`, `V[0] = String.fromCharCode(0xD800)`, `V[0] = new String("ab")`, `V[0] = [1, 2, 3]`, `V[0] = [1]; V[0]`, `V[V.length] = V[0]`, `V[V.length] = null`, `delete V[0]`, `delete V.length`,
	`V[0][0] = 1`, `V[0][0][0] = 1`, `V[0][0] = V[0][0]`, `V[0][0] = null`, `V[0][0] = [1]`, `V[0].a = 1`, `V[0].a = null`, `V[0].C = 1`, `V[0].C = "s"`, `V[0].push(1)`, `V[0].push(null)`, `V[0].push([1])`, `V[0].length = 0`, `V[0].length = 5`,
	`V.a.a.a = 1`, `V.a.a.zz = 1`, `V.a.zz = {}`, `V.a.a = null`, `V.a.a = {a: 1}`, `V.a.a = {a: "s"}`, `V.a = {a: {a: 1}}`, `V.zz = {a: {a: 1}}`, `V.a[0].a = 1`, `V.a[0] = {a: 1}`, `V.a[0] = null`, `V.a.push({a: 1})`, `V.a.push(null)`, `V.a = [{a: 1}]`, `V.a = [null]`, `V.a = V.a`, `V.b = V.a`,
	`V(V, V)`, `V(V, null)`, `V(null, null)`, `V(undefined, undefined, undefined)`, `V({}, {})`, `V([], [])`, `V("", "")`, `V("a", 1)`, `V("a", [1], [2])`, `V("a", [1, 2])`, `V("a", "b", "c")`, `V("2000-01-01T00:00:00Z", 1)`, `V("x", "y")`,
	`V({A: 1}, {A: 1})`, `V({s: "a"})`, `V({L1: {a: [{x: {C: 1}}, null]}, L2: [[[1]]], L3: {a: {b: [1, "s", null]}}}, null)`, `V({A: [[1, 2], [3, 4]]})`, `V({A: [[1]]})`, `V({PA: [{C: 1}, {C: 2}]})`, `V({Fn: function(a){ return a }})`, `V({Fn: 1})`,
	`V({Ch: 1})`, `V({PI: 1, PP: {C: 1}})`, `V({E: "e"})`, `V({E: {}})`, `V({St: {}})`, `V({T: "2000-01-01T00:00:00Z", D: 1})`, `V({Cx: 1})`, `V({R: {a: 1}})`, `V({V: 1, O: {}})`, `V({U: 1})`, `V({un: 1})`, `V({NM: {a: 1}, NS: ["a"]})`, `V({NM: null, NS: null})`,
	`V({Name: "s", Self: {Name: "t", Self: null}, Kids: [{Name: "k"}, null], M: {a: {Name: "m"}}, I: {a: 1}})`, `var o = {Name: "c"}; o.Self = o; V(o)`, `var a = []; a[0] = a; V(a)`, `var o = {}; o.a = o; V(o)`,
	`V([{C: 1}], [{C: 1}])`, `V([null], [undefined])`, `V([{C: 1}, null, undefined])`, `V({a: [{a: null}]}, [[[1]]])`, `V({a: [{x: null, y: {C: 1}}]}, [[[1, 2], []], []])`, `V([function(){ return 1 }, null])`, `V([function(){ throw 1 }])`, `V([1, function(){}])`,
	`V([[1, 2]])`, `V([[1, 2], [3]])`, `V([1, [2]])`, `V({a: {C: 1}})`, `V({a: null})`, `V({a: 1, b: "s"})`, `V({1: 1, x: 2})`, `V({1.5: 1})`, `V(Object.create({a: 1}))`, `V(Object.create(null))`, `V({get a(){ throw 1 }})`, `V({get C(){ return 1 }})`,
	`V({toString: function(){ return this }})`, `V("a", {toString: function(){ return this }})`, `var o = {toString: function(){ return p }}, p = {toString: function(){ return o }}; V(o)`,
	`var o = {}; o.P = o; V(o)`, `var o = {C: 1}; o.P = {P: o}; V(o, o)`, `var o = {}; o.PP = {P: o}; V(o, o)`, `var o = {}; o.I = o; V(o)`, `var a = [1]; a[1] = a; V(a)`, `var o = {}; o.a = [o]; V(o)`,
	`V(function(a, b){ return "s" }, function(){ return 1 })`, `V(function(){ return 1 }, function(){ return 1 }, function(){ return 1 })`, `V(function(t){ return t }, function(p){ return [1] }, function(){ return {a: 1} })`,
	`V(function(t){ return {C: 1} }, function(p){ return [1.5] }, function(){ return {a: "s"} })`, `V(function(){ return null }, function(){ return null }, function(){ return null })`, `V(function(){ throw 1 }, function(){ throw 1 }, function(){ throw 1 })`,
	`V(function(){ return V }, function(){ return V })`, `V(V, function(){ return 1 })`, `V(Math.abs, Math.max)`, `V(Object, Array, Function)`, `V(eval, eval)`, `V(V.bind(null), V.bind(null))`,
	`V.apply(null, V)`, `V.apply(V, [V, V, V])`, `V.call(V, V)`, `V.bind(V, V, V)()`, `new (V.bind(null, 1))`, `[1, 2].map(V)`, `[1, 2].forEach(V)`, `[3, 1].sort(V)`, `"ab".replace(/a/, V)`, `"ab".replace(/a/g, V)`, `JSON.stringify({a: 1}, V)`, `JSON.stringify(V, V)`,
	`JSON.stringify(V, null, V)`, `JSON.stringify(V, [V])`, `JSON.stringify({a: V, b: [V]})`, `JSON.stringify(V, function(k, v){ return v })`, `JSON.parse("[1, {\"a\": 2}]", V)`, `JSON.stringify(Object.create(V))`,
	`V.toJSON = function(){ return 1 }; JSON.stringify(V)`, `V.toString = function(){ return "s" }; V + ""`, `V.valueOf = function(){ throw 1 }; V + 1`, `V.zz = function(){ return this }; V.zz()`, `V.zz = V; V.zz.zz`,
	`with (V) { C = 1; typeof S; typeof a; length }`, `with (V) { var C = 2; function S(){}; }`, `with (Object.create(V)) { C = 1 }`, `(function(){ return this }).call(V)`, `(function(){ "use strict"; return this }).call(V)`,
	`Function.prototype.call.call(V, V, V)`, `Function.prototype.apply.call(V, V, V)`, `Function.prototype.bind.call(V, V)()`, `Function.prototype.toString.call(V)`, `new (Function.prototype.bind.call(V, null))`,
	`V instanceof V`, `({}) instanceof V`, `V in V`, `"a" in V`, `0 in V`, `V[V]`, `V[V] = V`, `delete V[V]`, `({})[V]`, `var o = {}; o[V] = 1`, `[V].sort()`, `[V, V].join()`, `[V, null, V].indexOf(V)`, `new Array(V)`, `Array(V, V)`, `new Object(V)`, `Object(V) === V`,
	`new Number(V)`, `new String(V)`, `new Boolean(V)`, `new Date(V)`, `new RegExp(V)`, `new Error(V)`, `new Function(V)`, `Function("a", V)`, `eval(V)`, `parseInt(V)`, `parseFloat(V)`, `isNaN(V)`, `encodeURIComponent(V)`, `escape(V)`,
	`Math.max(V, V)`, `Math.abs(V)`, `String.fromCharCode(V)`, `"abc".indexOf(V)`, `"abc".charAt(V)`, `"abc".split(V)`, `"abc".slice(V, V)`, `"abc".substr(V)`, `"abc".concat(V)`, `"abc".localeCompare(V)`, `"abc".match(V)`, `"abc".search(V)`,
	`(1).toFixed(V)`, `(1).toString(V)`, `(1).toPrecision(V)`, `[1, 2].slice(V)`, `[1, 2].splice(V, V)`, `[1, 2].join(V)`, `[1, 2].indexOf(V, V)`, `[1, 2].concat(V, [V])`, `new Date(2000, V)`, `Date.UTC(V, V)`, `new Date(0).setHours(V)`,
	`Object.keys(V).length`, `Object.create(V, {zz: {value: 1}})`, `Object.create(Object.prototype, V)`, `Object.defineProperties({}, V)`, `Object.defineProperty({}, "a", V)`, `Object.defineProperty({}, V, {value: 1})`, `Object.getOwnPropertyDescriptor(V, V)`,
	`Object.isExtensible(V)`, `Object.isSealed(V)`, `Object.seal(V); V.C = 2; V[0] = 2; delete V.C`, `Object.freeze(V); V.C = 2; V[0] = 2; V.length = 0; V.push && V.push(1)`, `Object.preventExtensions(V); V[V.length || 0] = 1`,
	`V.__proto__ = null; V + ""`, `V.__proto__ = V`, `V.constructor = V; new V.constructor`, `Object.getPrototypeOf(V).zz = 1; V.zz`, `V.hasOwnProperty(V)`, `V.isPrototypeOf(V)`, `V.propertyIsEnumerable(0)`,
	`try { throw V } catch (e) { e === V }`, `throw V`, `(function(){ return arguments })(V, V)[0]`, `(function(a){ a = 1; return arguments[0] })(V)`, `typeof (0, V)`, `void V`, `!V`, `+V`, `-V`, `~V`, `V++`, `V--`, `V += V`, `V * V`, `V & V`, `V >>> V`, `V && V`, `V ? 1 : 2`, `V, V`,
	`switch (V) { case V: 1 }`, `for (var i in V) { delete V[i]; V[i + "x"] = 1 }`, `for (var i in V) { V.length = 0 }`, `for (var i in V) { V.push && V.push(1); if (V.length > 20) break }`, `V.forEach && V.forEach(function(){ V.length = 0 })`, `V.forEach && V.forEach(function(x, i){ V.push(x) })`,
	`V.map && V.map(function(){ V.pop() })`, `V.sort && V.sort(function(a, b){ V.length = 0; return 1 })`, `V.sort && V.sort(function(a, b){ V.push(1); return -1 })`, `V.reduce && V.reduce(function(a){ V.shift(); return a }, 0)`,
}

// a second bridged value W (by zoo name) for the cross operations: W stored into V, passed to V, to V's methods
var bridgeSecond = []string{"struct-by-value", "struct-by-pointer", "nil-embedded-pointer", "defined-int", "defined-string", "defined-func", "defined-slice", "defined-map",
	"error-value", "map-defined-int-key", "map-int-key", "map-interface-key", "map-struct-key", "map-interface-value", "map-struct-value", "map-3-deep", "slice-of-nil-pointers",
	"slice-of-slices", "slice-of-interface", "slice-of-structs", "slice-of-uint8", "slice-of-errors", "slice-of-float32", "array-of-defined", "array-by-pointer", "pointer-to-int",
	"deep-struct", "methods-by-pointer", "methods-by-value", "self-referential", "self-containing-slice", "nil-map", "nil-slice", "nil-struct-pointer", "time", "duration", "otto-value",
	"native-function", "func-variadic-interface", "func-returns-nil-everything", "slice-of-funcs", "slice-3-deep", "array-of-arrays", "json-marshaler-fails", "embedded-interface", "uint64-max"}

var bridgeCrossOps = []string{
	`V(W)`, `V(W, W)`, `V(W, W, W)`, `V(1, W)`, `V("a", W)`, `V([W])`, `V([W, W])`, `V({a: W})`, `V({C: W, S: W, M: W, I: W, P: W})`, `V([[W]])`, `V({a: [W]})`, `V(function(){ return W })`, `V(W, function(){ return W })`,
	`V.call(W, W)`, `V.apply(W, [W])`, `V.apply(null, W)`, `V.bind(W, W)()`, `new V(W)`, `W(V)`, `W(V, V)`, `W([V])`, `W({a: V})`,
	`V[0] = W`, `V[1] = W`, `V[V.length] = W`, `V.a = W`, `V.C = W`, `V.S = W`, `V.M = W`, `V.I = W`, `V.P = W`, `V.zz = W`, `V[W] = W`, `V[0] = [W]`, `V.a = [W]`, `V.a = {a: W}`, `V[0][0] = W`, `V.a.a = W`, `V.a[0] = W`,
	`V.S[0] = W`, `V.S.push(W)`, `V.M.a = W`, `V.I = W; V.I`, `V.P = W; V.P.C`, `V.L1 = W`, `V.L1.a = W`, `V.L1.a[0] = W`, `V.L2[0] = W`, `V.L3.a.b[0] = W`, `V.PA[0] = W`, `V.Fn = W`, `V.E = W`, `V.St = W`, `V.T = W`, `V.V = W`, `V.O = W`, `V.PP = W`,
	`V.push(W)`, `V.push(W, W)`, `V.unshift(W)`, `V.splice(0, 1, W)`, `V.concat(W)`, `W.concat(V)`, `V.indexOf(W)`, `V.fill && 0`, `Array.prototype.push.call(V, W)`, `[].concat(V, W)`,
	`Object.defineProperty(V, 0, {value: W, writable: true, enumerable: true, configurable: true})`, `Object.defineProperty(V, "a", {value: W, writable: true, enumerable: true, configurable: true})`, `Object.defineProperty(V, "C", {value: W})`,
	`V.Val(W)`, `V.Ptr(W)`, `V.Variadic(W)`, `V.Variadic(1, W, W)`, `V.TakesSelf(W, W)`, `V.TakesFn(W)`, `V.TakesMap(W)`, `V.TakesIface(W)`, `V.TakesValue(W)`, `V.Call(W)`, `V.Grow(W)`, `V.Add(W)`, `V.String(W)`,
	`V == W`, `V === W`, `V < W`, `V + W`, `V in W`, `V instanceof W`, `W[V]`, `W[V] = V`, `JSON.stringify([V, W])`, `JSON.stringify(V, W)`, `JSON.stringify(V, null, W)`, `Object.create(V, W)`, `Object.create(W, {a: {value: V}})`,
	`Object.defineProperties(V, W)`, `Object.defineProperty(V, "a", W)`, `with (V) { with (W) { C = S; a = length } }`, `for (var k in W) V[k] = W[k]`, `for (var k in V) W[k] = V[k]`, `[V, W].sort()`, `[V, W].join()`,
	`V.__proto__ = W; V.C; V.a; V[0]; V + ""`, `W.__proto__ = V; W.C; W.length`, `Object.create(W).C = V`, `var o = Object.create(V); o.__proto__ = W; o.a`, `Function.prototype.call.call(V, W, W)`, `Function.prototype.apply.call(V, W, W)`,
}

// operations through the Go API on the bridged value (and on a property N of it)
var bridgeGoOps = []string{"export", "string", "tointeger", "tofloat", "toboolean", "class", "marshal", "is", "keys", "keysbyparent", "get", "set1", "setstring", "setnil", "setself", "setvalue", "setmap", "setslice", "setfunc",
	"call", "callself", "callname", "callthis", "tovalue", "callarg", "getname", "objectexpr", "copy", "valuecall", "objectvalue", "objectmarshal", "evalin", "setglobal-twice", "export-name", "call-export"}

var bridgeGoNames = []string{"C", "a", "0", "length", "Val", "Two", "Self", "L1", "toString", "zz", ""}

// Requests that run in a child process: a Go stack overflow is a fatal error that no recover() catches, it
// would take the whole harness down with it.  On a tree without c1bc6cd / 9d882df / 550cd5d that is what
// JSON.stringify of cyclic Go data, a replacer that wraps its value (JSON.stringify(x, Array) - `constructor`
// of a bridged slice is Array) and a cyclic script object for a recursive Go parameter type end in.  All
// whole-value and built-in requests are isolated, and every request of the values listed here.
var bridgeIsolated = map[string]bool{"self-referential": true, "self-containing-slice": true, "self-containing-map": true,
	"func-self-param": true, "func-deep-struct-param": true, "func-returns-nested": true, "deep-struct": true}

func bridgeIsolate(vi int, what string) bool {
	if bridgeIsolated[bridgeZoo[vi].name] || what == "-" || strings.HasPrefix(what, "fn") || strings.HasPrefix(what, "w") {
		return true
	}
	var ni int
	if _, err := fmt.Sscan(what, &ni); err == nil && ni >= 0 && ni < len(bridgeNames) {
		return bridgeNames[ni] == "constructor" || bridgeNames[ni] == "Self" || bridgeNames[ni] == "Kids"
	}
	return false
}

// operations in which the PANIC is the zoo's own Go code, not otto: a method promoted from a nil embedded
// interface is a nil dereference inside the Go method wrapper, exactly as `v.M()` is in Go
func bridgeHostPanic(value, n, op string, r interface{}) bool {
	return value == "embedded-nil-interfaces" && (n == "M" || n == "String" || strings.Contains(op, "V.String(") || strings.Contains(op, "V.M(")) &&
		strings.Contains(fmt.Sprint(r), "nil pointer dereference")
}

func init() {
	// child mode: one bridge request, result on stdout, progress lines so that the parent can name the
	// operation during which the process died
	if line := os.Getenv("VERIF_C02_BRIDGE_CHILD"); line != "" {
		os.Unsetenv("VERIF_C02_BRIDGE_CHILD")
		os.Unsetenv("VERIF_C02_PANICLOG")
		debug.SetMaxStack(96 << 20)
		bridgeProgress = func(op string) { fmt.Println("op " + strings.ReplaceAll(op, " ", "")) }
		res := implBridgeHere(strings.Fields(line))
		panicMu.Lock()
		for k := range panicLog {
			fmt.Println("note " + strings.ReplaceAll(k, "\n", " "))
		}
		panicMu.Unlock()
		fmt.Println("result " + res)
		os.Exit(0)
	}
}

var bridgeProgress = func(string) {}

func implBridge(f []string) string {
	if len(f) != 3 {
		return "bad-op"
	}
	var vi int
	fmt.Sscan(f[1], &vi)
	if vi < 0 || vi >= len(bridgeZoo) {
		return "bad-op"
	}
	if !bridgeIsolate(vi, f[2]) {
		return implBridgeHere(f)
	}
	// The image this process runs, not the path it was started from: ./check of another worktree may have
	// rebuilt bin/ottoh-C02-alt in the meantime, and the child has to be linked against the same otto.
	exe := "/proc/self/exe"
	if _, err := os.Stat(exe); err != nil {
		if exe, err = os.Executable(); err != nil {
			return "no-child"
		}
	}
	ctx, cancel := context.WithTimeout(context.Background(), 120*time.Second)
	defer cancel()
	cmd := exec.CommandContext(ctx, exe)
	cmd.Env = append(os.Environ(), "VERIF_C02_BRIDGE_CHILD="+strings.Join(f, " "))
	out, _ := cmd.Output() // stderr (a Go fatal trace) is dropped
	last, res := "-", ""
	for _, l := range strings.Split(string(out), "\n") {
		switch {
		case strings.HasPrefix(l, "op "):
			last = l[3:]
		case strings.HasPrefix(l, "note "):
			notePanic(l[5:], "(in child)")
		case strings.HasPrefix(l, "result "):
			res = l[7:]
		}
	}
	if res == "" {
		notePanic("bridge "+bridgeZoo[vi].name+" "+last, "child process died (fatal error, no recover possible) or timed out")
		return "host-process-died:" + last
	}
	return res
}

func implBridgeHere(f []string) string {
	var vi, ni int
	fmt.Sscan(f[1], &vi)
	ops := bridgeWholeOps
	n := ""
	run := bridgeOp
	switch {
	case f[2] == "-":
	case strings.HasPrefix(f[2], "go"):
		fmt.Sscan(f[2][2:], &ni)
		if ni < 0 || ni >= len(bridgeGoNames) {
			return "bad-op"
		}
		ops, n, run = bridgeGoOps, bridgeGoNames[ni], bridgeGoOp
	case strings.HasPrefix(f[2], "w"):
		// cross operations with a second bridged value W
		fmt.Sscan(f[2][1:], &ni)
		wi := -1
		if ni >= 0 && ni < len(bridgeSecond) {
			for i, z := range bridgeZoo {
				if z.name == bridgeSecond[ni] {
					wi = i
				}
			}
		}
		if wi < 0 {
			return "bad-op"
		}
		ops, n = bridgeCrossOps, "W="+bridgeZoo[wi].name
		run = func(vm *otto.Otto, vi int, n, op string) string {
			return bridgeOpWith(vm, vi, n, op, func() { vm.Set("W", bridgeZoo[wi].mk()) })
		}
	case strings.HasPrefix(f[2], "fn"):
		// every built-in with the bridged value as this value and as first / second argument, called and constructed
		fmt.Sscan(f[2][2:], &ni)
		fns := bridgeFns()
		ops = nil
		for i := ni; i < len(fns); i += bridgeFnStride {
			fn := fns[i]
			ops = append(ops, "("+fn+").call(V)", "("+fn+").call(V, V)", "("+fn+").call(null, V, V)", "("+fn+").call(V, 1, V)", "new ("+fn+")(V)", "("+fn+").call(Object.create(V), V)")
		}
	default:
		fmt.Sscan(f[2], &ni)
		if ni < 0 || ni >= len(bridgeNames) {
			return "bad-op"
		}
		ops = bridgeNameOps
		n = bridgeNames[ni]
	}
	// (several hundred operations; on a tree where many of them panic each one costs a fresh runtime)
	return guardedFor(90*time.Second, "bridge "+bridgeZoo[vi].name+" N="+n, func() string {
		mk := func() *otto.Otto {
			vm := otto.New()
			vm.SetStackDepthLimit(200)
			vm.Interrupt = make(chan func(), 1)
			vm.Set("N", n)
			return vm
		}
		vm := mk()
		var bad []string
		for _, op := range ops {
			bridgeProgress(op)
			if r := run(vm, vi, n, op); r != "" {
				bad = append(bad, r+":"+strings.ReplaceAll(op, " ", ""))
				vm = mk() // go on with a fresh runtime: every panicking operation is reported
			}
		}
		if len(bad) == 0 {
			return "returns"
		}
		if len(bad) > 3 {
			bad = append(bad[:3], fmt.Sprintf("+%d-more", len(bad)-3))
		}
		return strings.Join(bad, ",")
	})
}

const bridgeFnStride = 8

var bridgeFnsOnce sync.Once
var bridgeFnList []string

func bridgeFns() []string {
	bridgeFnsOnce.Do(func() { bridgeFnList = discover() })
	return bridgeFnList
}

// bridgeForeign: the text a script's catch sees for a foreign Go panic value (an error is a pointer to a struct,
// tryCatchEvaluate converts it with toValue, which has no runtime at hand): "TypeError: invalid value (struct):
// missing runtime: <message> (<Go type>)".  toValue raises the same text as a genuine script exception for a
// zoo value it cannot bridge (a **struct field, a struct map key), so the zoo's own types are excluded.
var bridgeOwnType = regexp.MustCompile(`\(\**main\.bz\w+\)$`)

func bridgeForeign(msg string) bool {
	return strings.Contains(msg, "invalid value") && strings.Contains(msg, "missing runtime") && !bridgeOwnType.MatchString(msg)
}

// bridgeOp runs one operation, inside try/catch and bare; "" when both returned to the caller.
func bridgeOp(vm *otto.Otto, vi int, n, op string) (res string) {
	return bridgeOpWith(vm, vi, n, op, func() {})
}

func bridgeOpWith(vm *otto.Otto, vi int, n, op string, more func()) (res string) {
	defer func() {
		if r := recover(); r != nil {
			if _, halted := r.(haltT); halted {
				return
			}
			if bridgeHostPanic(bridgeZoo[vi].name, n, op, r) {
				return
			}
			notePanic("bridge "+bridgeZoo[vi].name+" N="+n+" "+op, r)
			res = "gopanic"
		}
	}()
	stop := watchdogAfter(vm, 1500*time.Millisecond)
	defer stop()
	vm.Set("V", bridgeZoo[vi].mk())
	more()
	// (`; 0`: the value of the operation is not looked at - the string form of `new Array(1e9)` is gigabytes)
	if v, err := vm.Run(`try { ` + op + `; 0 } catch (e) { String(e) }`); err == nil && v.IsString() && bridgeForeign(v.String()) {
		// a Go panic caught by the script's try (see C18 trycatch_foreign): still a Go panic
		notePanic("bridge "+bridgeZoo[vi].name+" N="+n+" "+op+" (inside try)", v.String())
		return "gopanic-inside-try"
	}
	vm.Set("V", bridgeZoo[vi].mk())
	more()
	vm.Run(op)
	if v, err := vm.Run("1+1"); err != nil || v.String() != "2" {
		return "unusable-after"
	}
	return ""
}

// bridgeGoOp: the bridged value handled through the Go API (Value / Object accessors, Call, Set, ToValue, Copy)
func bridgeGoOp(vm *otto.Otto, vi int, n, op string) (res string) {
	defer func() {
		if r := recover(); r != nil {
			if _, halted := r.(haltT); halted {
				return
			}
			if bridgeHostPanic(bridgeZoo[vi].name, n, op, r) {
				return
			}
			notePanic("bridge "+bridgeZoo[vi].name+" N="+n+" go:"+op, r)
			res = "gopanic"
		}
	}()
	stop := watchdogAfter(vm, 1500*time.Millisecond)
	defer stop()
	goV := bridgeZoo[vi].mk()
	vm.Set("V", goV)
	v, _ := vm.Get("V")
	var o *otto.Object
	if v.IsObject() {
		o = v.Object()
	}
	switch op {
	case "export":
		v.Export()
	case "string":
		_ = v.String()
		v.ToString()
	case "tointeger":
		v.ToInteger()
	case "tofloat":
		v.ToFloat()
	case "toboolean":
		v.ToBoolean()
	case "class":
		v.Class()
	case "marshal":
		v.MarshalJSON()
		json.Marshal(v)
		json.Marshal(map[string]interface{}{"v": v, "o": o})
	case "is":
		v.IsFunction()
		v.IsNaN()
		v.IsPrimitive()
		v.IsString()
		v.IsNumber()
		v.IsBoolean()
		v.IsNull()
		v.IsUndefined()
		v.IsDefined()
	case "valuecall":
		v.Call(v)
		v.Call(otto.NullValue(), 1, "a", nil)
		v.Call(v, goV, v, o)
		v.Call(otto.UndefinedValue(), map[string]interface{}{"C": 1}, []interface{}{1}, func() {})
	}
	if o == nil {
		// the remaining operations need an object
		switch op {
		case "tovalue":
			vm.ToValue(goV)
			otto.ToValue(goV)
		case "callarg":
			vm.Call(`(function(x){ return x })`, nil, goV)
			vm.Call(`(function(x){ return x })`, goV, goV)
		}
		return ""
	}
	switch op {
	case "keys":
		o.Keys()
	case "keysbyparent":
		o.KeysByParent()
	case "get", "getname":
		if pv, err := o.Get(n); err == nil {
			pv.Export()
			pv.String()
			pv.MarshalJSON()
			if pv.IsObject() {
				pv.Object().Keys()
				pv.Object().Get(n)
				pv.Object().Set(n, 1)
				pv.Object().Set("0", goV)
			}
		}
	case "set1":
		o.Set(n, 1)
		o.Set(n, 1.5)
		o.Set(n, int8(-1))
		o.Set(n, uint64(1<<63))
		o.Set(n, true)
	case "setstring":
		o.Set(n, "s")
		o.Set(n, []byte("s"))
		o.Set(n, 'x')
	case "setnil":
		o.Set(n, nil)
		o.Set(n, (*bzT)(nil))
		o.Set(n, otto.Value{})
		o.Set(n, otto.NullValue())
		o.Set(n, (*otto.Object)(nil))
	case "setself":
		o.Set(n, goV)
		o.Set(n, v)
		o.Set(n, o)
		o.Set(n, &goV)
	case "setvalue":
		if pv, err := o.Get(n); err == nil {
			o.Set(n, pv)
			o.Set("zz", pv)
			o.Set("0", pv)
		}
	case "setmap":
		o.Set(n, map[string]interface{}{"C": 1, "a": nil})
		o.Set(n, map[string]int{"a": 1})
		o.Set(n, map[int]int{1: 1})
		o.Set(n, map[interface{}]interface{}{1: 1})
		o.Set(n, bzT{C: 1})
		o.Set(n, &bzT{C: 1})
	case "setslice":
		o.Set(n, []interface{}{1, "a", nil})
		o.Set(n, []int{1})
		o.Set(n, [2]int{1, 2})
		o.Set(n, []*bzT{nil})
		o.Set(n, [][]int{{1}})
	case "setfunc":
		o.Set(n, func() {})
		o.Set(n, func(c otto.FunctionCall) otto.Value { return c.This })
		o.Set(n, (func())(nil))
		o.Set(n, make(chan int))
		o.Set(n, complex(1, 1))
		o.Set(n, errors.New("e"))
	case "call":
		o.Call(n)
		o.Call(n, 1)
		o.Call(n, 1, "a", nil, 2.5)
	case "callself":
		o.Call(n, goV)
		o.Call(n, v, o)
		o.Call(n, goV, goV, goV)
	case "callname":
		o.Call("toString")
		o.Call("valueOf")
		o.Call("hasOwnProperty", n)
		o.Call("push", goV)
		o.Call("join")
	case "callthis":
		vm.Call(`(function(){ return this })`, goV)
		vm.Call(`(function(){ return this[N] })`, v)
		vm.Call(`Object.keys`, nil, goV)
		vm.Call(`JSON.stringify`, nil, goV)
	case "tovalue":
		if tv, err := vm.ToValue(goV); err == nil {
			tv.Export()
			tv.String()
		}
		if !strings.HasPrefix(bridgeZoo[vi].name, "self-containing") {
			// (the package-level ToValue rejects a slice or map with an error text that prints it with %v, and fmt
			// itself overflows the stack on a []interface{} that holds itself, as fmt.Sprint(v) would in the embedder)
			otto.ToValue(goV)
		}
	case "callarg":
		vm.Call(`(function(x){ return x })`, nil, goV)
		vm.Call(`(function(x, y){ x[N] = y; return x[N] })`, nil, goV, goV)
		vm.Call(`(function(x){ return x[N](x) })`, nil, goV)
	case "objectexpr":
		vm.Object(`V`)
		vm.Object(`V[N]`)
		vm.Object(`(V)`)
	case "copy":
		c := vm.Copy()
		c.Run(`V[N]; V[N] = 1; Object.keys(V); JSON.stringify(V)`)
		c.Run(`V(1)`)
		if cv, err := c.Get("V"); err == nil {
			cv.Export()
			cv.String()
			if cv.IsObject() {
				cv.Object().Keys()
				cv.Object().Set(n, 1)
				cv.Object().Get(n)
			}
		}
		vm.Run(`V[N]; V[N] = 1`)
	case "objectvalue":
		o.Value().Export()
		o.Class()
	case "objectmarshal":
		o.MarshalJSON()
	case "evalin":
		vm.Eval(`V[N]`)
		vm.Eval(`V[N] = V`)
	case "setglobal-twice":
		vm.Set("V", v)
		vm.Set("W", o)
		vm.Set("V", goV)
		vm.Run(`V === W; W[N] = V[N]`)
	case "export-name":
		if pv, err := vm.Run(`V[N]`); err == nil {
			pv.Export()
		}
		if pv, err := vm.Run(`[V, V[N], {v: V}]`); err == nil {
			pv.Export()
			pv.MarshalJSON()
		}
		if pv, err := vm.Run(`({v: V, n: V[N], a: [V]})`); err == nil {
			pv.Export()
			pv.MarshalJSON()
		}
	case "call-export":
		if pv, err := o.Call(n, 1); err == nil {
			pv.Export()
			pv.String()
		}
		if pv, err := v.Call(v, 1); err == nil {
			pv.Export()
			pv.String()
		}
	}
	if r, err := vm.Run("1+1"); err != nil || r.String() != "2" {
		return "unusable-after"
	}
	return ""
}

func genBridge(c *h.Ctx) {
	probe := otto.New()
	has := func(vi int, n string) (yes bool) {
		defer func() { recover() }()
		probe.Set("V", bridgeZoo[vi].mk())
		probe.Set("N", n)
		v, err := probe.Run(`N in Object(V)`)
		return err == nil && v.String() == "true"
	}
	for vi := range bridgeZoo {
		c.Add(fmt.Sprintf("bridge %d -", vi), "bridge:whole-value")
		for ni, n := range bridgeNames {
			if ni < bridgeGenericNames || has(vi, n) {
				c.Add(fmt.Sprintf("bridge %d %d", vi, ni), "bridge:by-name")
			}
		}
		for ni := range bridgeGoNames {
			c.Add(fmt.Sprintf("bridge %d go%d", vi, ni), "bridge:go-api")
		}
		// a second bridged value: all of them in the thorough tier, a rotating sixth in quick
		for wi := range bridgeSecond {
			if c.Thorough() || (wi+vi+int(c.Seed))%6 == 0 {
				c.Add(fmt.Sprintf("bridge %d w%d", vi, wi), "bridge:two-values")
			}
		}
		// every built-in with the value as this / argument: all of them in the thorough tier, a rotating eighth in quick
		for k := 0; k < bridgeFnStride; k++ {
			if c.Thorough() || k == (vi+int(c.Seed))%bridgeFnStride {
				c.Add(fmt.Sprintf("bridge %d fn%d", vi, k), "bridge:builtins")
			}
		}
	}
}
