package main

import (
	"fmt"
	"go/ast"
	"go/importer"
	"go/parser"
	"go/token"
	"go/types"
	"os"
	"path/filepath"
	"sort"
	"strings"
)

// Facts about panic discipline in package otto, extracted with go/types:
//
//	P1  raw receiver object access `call.This.object()` inside functions taking a FunctionCall
//	    (nil for primitive receivers) - expected: none
//	P2  constant-index reads `call.ArgumentList[i]` (must be guarded by a length test)
//	P3  explicit panic(x) sites whose payload is NOT one of the kinds Run converts to an error
//	    (payload kind by static type: *exception, ottoError, *Error, Value are converted)
func buildTagVerif(path string) bool {
	b, err := os.ReadFile(path)
	if err != nil {
		return false
	}
	head := string(b)
	if len(head) > 400 {
		head = head[:400]
	}
	for _, l := range strings.Split(head, "\n") {
		l = strings.TrimSpace(l)
		if strings.HasPrefix(l, "//go:build") {
			return strings.Contains(l, "verif") && !strings.Contains(l, "!verif")
		}
		if strings.HasPrefix(l, "package ") {
			break
		}
	}
	return false
}

// exprText renders a (small) expression back to source text
func exprText(e ast.Expr) string {
	switch x := e.(type) {
	case *ast.Ident:
		return x.Name
	case *ast.SelectorExpr:
		return exprText(x.X) + "." + x.Sel.Name
	case *ast.CallExpr:
		return exprText(x.Fun) + "(…)"
	case *ast.IndexExpr:
		return exprText(x.X) + "[…]"
	case *ast.ParenExpr:
		return "(" + exprText(x.X) + ")"
	case *ast.StarExpr:
		return "*" + exprText(x.X)
	case *ast.TypeAssertExpr:
		return exprText(x.X) + ".(…)"
	}
	return "…"
}

func writeFacts(repo, out string) error {
	os.Chdir(repo)
	fset := token.NewFileSet()
	files, _ := filepath.Glob(filepath.Join(repo, "*.go"))
	sort.Strings(files)
	var afs []*ast.File
	for _, f := range files {
		if strings.HasSuffix(f, "_test.go") || buildTagVerif(f) {
			continue
		}
		af, err := parser.ParseFile(fset, f, nil, 0)
		if err != nil {
			return err
		}
		afs = append(afs, af)
	}
	var terr error
	conf := types.Config{Importer: importer.ForCompiler(fset, "source", nil), Error: func(err error) {
		if terr == nil {
			terr = err
		}
	}}
	info := &types.Info{Uses: map[*ast.Ident]types.Object{}, Types: map[ast.Expr]types.TypeAndValue{}, Selections: map[*ast.SelectorExpr]*types.Selection{}}
	conf.Check("github.com/robertkrimen/otto", fset, afs, info)
	if terr != nil {
		return fmt.Errorf("type check: %v", terr)
	}
	type fact struct{ fn, what string }
	var p1, p2, p3, p4 []fact
	for _, af := range afs {
		for _, d := range af.Decls {
			fd, ok := d.(*ast.FuncDecl)
			if !ok || fd.Body == nil {
				continue
			}
			fn := fd.Name.Name
			if fd.Recv != nil && len(fd.Recv.List) == 1 {
				t := fd.Recv.List[0].Type
				if s, ok := t.(*ast.StarExpr); ok {
					t = s.X
				}
				if id, ok := t.(*ast.Ident); ok {
					fn = id.Name + "." + fn
				}
			}
			isFC := func(e ast.Expr) bool {
				tv, ok := info.Types[e]
				if !ok {
					return false
				}
				n, ok := tv.Type.(*types.Named)
				return ok && n.Obj().Name() == "FunctionCall"
			}
			// P4: single-value type assertions x.(T) (not `v, ok :=`, not a type switch): each one is a
			// possible "interface conversion" run-time panic
			okForm := map[*ast.TypeAssertExpr]bool{}
			ast.Inspect(fd.Body, func(n ast.Node) bool {
				switch x := n.(type) {
				case *ast.AssignStmt:
					if len(x.Lhs) == 2 && len(x.Rhs) == 1 {
						if ta, ok := x.Rhs[0].(*ast.TypeAssertExpr); ok {
							okForm[ta] = true
						}
					}
				case *ast.ValueSpec:
					if len(x.Names) == 2 && len(x.Values) == 1 {
						if ta, ok := x.Values[0].(*ast.TypeAssertExpr); ok {
							okForm[ta] = true
						}
					}
				}
				return true
			})
			ast.Inspect(fd.Body, func(n ast.Node) bool {
				if ta, ok := n.(*ast.TypeAssertExpr); ok && ta.Type != nil && !okForm[ta] {
					ts := types.TypeString(info.Types[ta.Type].Type, func(p *types.Package) string { return "" })
					src := exprText(ta.X)
					p4 = append(p4, fact{fn, src + ".(" + ts + ")"})
				}
				return true
			})
			ast.Inspect(fd.Body, func(n ast.Node) bool {
				switch x := n.(type) {
				case *ast.CallExpr:
					// P1: <FunctionCall>.This.object()
					if se, ok := x.Fun.(*ast.SelectorExpr); ok && se.Sel.Name == "object" && len(x.Args) == 0 {
						if inner, ok := se.X.(*ast.SelectorExpr); ok && inner.Sel.Name == "This" && isFC(inner.X) {
							p1 = append(p1, fact{fn, "This.object()"})
						}
					}
					// P3: panic(x)
					if id, ok := x.Fun.(*ast.Ident); ok && id.Name == "panic" && len(x.Args) == 1 {
						if _, isBuiltin := info.Uses[id].(*types.Builtin); isBuiltin {
							t := info.Types[x.Args[0]].Type
							ts := types.TypeString(t, func(p *types.Package) string { return "" })
							switch ts {
							case "*exception", "ottoError", "*Error", "Value":
							default:
								p3 = append(p3, fact{fn, ts})
							}
						}
					}
				case *ast.IndexExpr:
					// P2: <FunctionCall>.ArgumentList[<const>]
					if se, ok := x.X.(*ast.SelectorExpr); ok && se.Sel.Name == "ArgumentList" && isFC(se.X) {
						if tv, ok := info.Types[x.Index]; ok && tv.Value != nil {
							p2 = append(p2, fact{fn, "ArgumentList[" + tv.Value.String() + "]"})
						}
					}
				}
				return true
			})
		}
	}
	emit := func(b *strings.Builder, name, doc string, fs []fact) {
		sort.Slice(fs, func(i, j int) bool {
			if fs[i].fn != fs[j].fn {
				return fs[i].fn < fs[j].fn
			}
			return fs[i].what < fs[j].what
		})
		fmt.Fprintf(b, "/-- %s -/\ndef %s : List (String × String) := [", doc, name)
		for i, f := range fs {
			if i > 0 {
				b.WriteString(",")
			}
			fmt.Fprintf(b, "\n  (%q, %q)", f.fn, f.what)
		}
		b.WriteString("]\n\n")
	}
	var b strings.Builder
	b.WriteString("/- GENERATED from /repo's current sources by harness/cmd/c02 --facts (go/types).  Do not edit, do not commit. -/\nnamespace OttoVerif.C02.Gen\n\n")
	emit(&b, "rawReceiverObject", "P1: (function, expression) raw receiver object access on a FunctionCall", p1)
	emit(&b, "constArgumentIndex", "P2: (function, expression) constant-index reads of the argument list", p2)
	emit(&b, "uncheckedAssertions", "P4: (function, expression) single-value type assertions (a failed one is a Go run-time panic)", p4)
	emit(&b, "unconvertedPanics", "P3: (function, static payload type) explicit panics whose payload Run does not convert", p3)
	b.WriteString("end OttoVerif.C02.Gen\n")
	return os.WriteFile(out, []byte(b.String()), 0o644)
}
