package main

import (
	"encoding/hex"
	"fmt"
	"os"
	"sort"
	"strings"
	"sync"
	"time"

	"github.com/robertkrimen/otto"
	"ottoverif/h"
	"ottoverif/mujs"
)

func init() {
	h.Register(&h.Prop{ID: "C02", Gen: genC02, Impl: implC02})
}

// receivers and arguments, as JavaScript expressions (index = token)
var recvs = []string{
	"undefined", "null", "true", "0", "NaN", `""`, `"abc"`, "({})", "[1,2,3]", "(function(a,b){return a})",
	"new Date(0)", "/x/g", `new String("s")`, "new Number(1)", "new Boolean(false)", "Object.create(null)",
	"(function(){return arguments})(1,2)", `new Error("e")`, "Math", "JSON", "this", `new Date(NaN)`, "Object.prototype", "Array.prototype",
	"Function.prototype", "String.prototype", "({length: 3, 0: 1, 2: 3})", "Object.freeze([1,2])",
	"RegExp.prototype", "Date.prototype", "Number.prototype", "Boolean.prototype", "Error.prototype", "(function f(){}).bind(null)",
	"String.fromCharCode(0xD800)", `new String("\ud83d\ude00".slice(0, 1) + "1")`,
	"__goSlice", "__goArr", "__goMap", "__goStruct", "__goFunc", "__goIface",
	"Object.create(Array.prototype)", "Object.create(String.prototype)", "Object.create(RegExp.prototype)", "Object.create(Date.prototype)",
	"Object.create(Number.prototype)", "Object.create(Function.prototype)", "Object.create(Error.prototype)", "Object.create(Boolean.prototype)",
}

var argvs = []string{
	"undefined", "null", "true", "false", "0", "-1", "1.5", "NaN", "Infinity", "-Infinity", "4294967296", "2147483648",
	`""`, `"abc"`, `"0"`, "({})", "[]", "[1,[2]]", "(function(){return 1})", "({valueOf:function(){throw new RangeError('v')}})",
	"({toString:function(){return {}},valueOf:function(){return {}}})", "/a/", "new Date(1e12)", "-0", "1e21", `"\ud800"`, "9007199254740993",
	"({length:3})", "({get x(){throw 1}})", `"!!"`, `"%"`, `"\\"`, "Object.create(null)",
	// strings held as UTF-16 code units (unpaired surrogates): a second internal representation every
	// conversion has to know
	"String.fromCharCode(0xDC00)", `("12" + String.fromCharCode(0xD800))`, `"\ud83d\ude00".slice(1)`,
	"__goSlice", "__goArr", "__goMap", "__goStruct", "__goFunc",
	// the built-in prototype objects: they carry the [[Class]] of their kind, and some lack the internal
	// state an instance has ("abc".split(RegExp.prototype) dereferenced a nil *regexp.Regexp until e1ce809)
	"RegExp.prototype", "Date.prototype", "Function.prototype", "Array.prototype", "String.prototype", "Number.prototype",
	"Boolean.prototype", "Error.prototype", "Object.prototype", "Object.create(RegExp.prototype)", "Object.create(Date.prototype)",
}

// protoArgs: indices into argvs of the prototype objects above
func protoArgs() []int {
	var out []int
	for i, a := range argvs {
		if strings.Contains(a, ".prototype") {
			out = append(out, i)
		}
	}
	return out
}

// discover enumerates every function reachable from the global object (own properties, any
// attributes, through prototypes and constructors), as JavaScript access paths.
const discoverJS = `
(function(){
  var seen = [], paths = [], out = [];
  function visit(o, path, depth) {
    if (o === null || (typeof o !== "object" && typeof o !== "function")) return;
    var i = seen.indexOf(o);
    if (i >= 0) return;
    seen.push(o);
    if (typeof o === "function") out.push(path);
    if (depth > 4) return;
    var names;
    try { names = Object.getOwnPropertyNames(o); } catch (e) { return; }
    names.sort();
    for (var k = 0; k < names.length; k++) {
      var n = names[k];
      var d;
      try { d = Object.getOwnPropertyDescriptor(o, n); } catch (e) { continue; }
      if (!d) continue;
      var p = /^[A-Za-z_$][A-Za-z0-9_$]*$/.test(n) ? path + "." + n : path + "[" + JSON.stringify(n) + "]";
      if ("value" in d) visit(d.value, p, depth + 1);
      if (d.get) visit(d.get, "Object.getOwnPropertyDescriptor(" + path + "," + JSON.stringify(n) + ").get", depth + 1);
      if (d.set) visit(d.set, "Object.getOwnPropertyDescriptor(" + path + "," + JSON.stringify(n) + ").set", depth + 1);
    }
  }
  var g = this;
  var names = Object.getOwnPropertyNames(g).sort();
  for (var k = 0; k < names.length; k++) {
    if (names[k] === "console") continue;
    visit(g[names[k]], names[k], 0);
  }
  visit(console, "console", 0);
  // instances: their own accessor functions (an Error's stack getter, a function's caller getter, an
  // arguments object's callee) are not reachable from the global object
  var inst = ['(new(Error)("e"))', '(new(TypeError)("t"))', '(function(){try{null.x}catch(e){return(e)}})()',
    '(function(a,b){return(arguments)})(1,2)', '(function(a){return(a)})', '(function(){}).bind(null,1)',
    '(/x/g)', '(new(Date)(0))', '(new(String)("s"))', '(new(Number)(1))', '([1,2])', '({})', '(Math.abs)'];   // no spaces: a path is one token of the request line
  for (var k = 0; k < inst.length; k++) {
    try { visit((0, eval)(inst[k]), inst[k], 0); } catch (e) {}
  }
  return out.join("\n");
}).call(this)`

func discover() []string {
	vm := otto.New()
	v, err := vm.Run(discoverJS)
	if err != nil {
		panic(err)
	}
	fs := strings.Split(v.String(), "\n")
	sort.Strings(fs)
	return fs
}

type outcome struct {
	tok    string
	detail string
}

// guarded runs f on its own goroutine with recover and a timeout.
var panicMu sync.Mutex
var panicLog = map[string]int{}

func notePanic(what string, r interface{}) {
	panicMu.Lock()
	defer panicMu.Unlock()
	panicLog[what+" :: "+fmt.Sprint(r)]++
	if p := os.Getenv("VERIF_C02_PANICLOG"); p != "" {
		var b strings.Builder
		for k, v := range panicLog {
			fmt.Fprintf(&b, "%6d %s\n", v, k)
		}
		// (written whole and renamed: the process may exit while a timed-out request is still noting a panic)
		if os.WriteFile(p+".tmp", []byte(b.String()), 0o644) == nil {
			os.Rename(p+".tmp", p)
		}
	}
}

func guarded(what string, f func() string) (res string) {
	return guardedFor(5*time.Second, what, f)
}

func guardedFor(limit time.Duration, what string, f func() string) (res string) {
	done := make(chan string, 1)
	go func() {
		defer func() {
			if r := recover(); r != nil {
				if _, halted := r.(haltT); halted {
					done <- "returns" // halted by the watchdog interrupt: the host stayed in control
					return
				}
				notePanic(what, r)
				done <- "gopanic"
			}
		}()
		done <- f()
	}()
	select {
	case s := <-done:
		return s
	case <-time.After(limit):
		return "timeout"
	}
}

type haltT struct{}

// newVM makes a runtime with a stack limit and a watchdog: a script still running after 1.5 s is
// halted through the interrupt channel (non-termination by design is not a defect; failing to
// honour the interrupt shows up as "timeout").
type goPoint struct {
	A int
	B string
	C []int
}

func (p *goPoint) Sum(n int) int { return p.A + n }

func newVM() *otto.Otto {
	vm := otto.New()
	vm.SetStackDepthLimit(200)
	vm.Interrupt = make(chan func(), 1)
	// bridged Go values are receivers and arguments like any other object
	vm.Set("__goSlice", []int{1, 2, 3})
	vm.Set("__goArr", [2]string{"a", "c"})
	vm.Set("__goMap", map[string]int{"a": 1, "length": 2})
	vm.Set("__goStruct", &goPoint{A: 1, B: "b", C: []int{7}})
	vm.Set("__goFunc", func(a int, b ...string) int { return a + len(b) })
	vm.Set("__goIface", []interface{}{1, "x", nil, 2.5})
	return vm
}

func watchdog(vm *otto.Otto) func() { return watchdogAfter(vm, 1500*time.Millisecond) }

func watchdogAfter(vm *otto.Otto, d time.Duration) func() {
	t := time.AfterFunc(d, func() {
		select {
		case vm.Interrupt <- func() { panic(haltT{}) }:
		default:
		}
	})
	return func() { t.Stop() }
}

func classify(err error) string {
	// every value-or-error return is what the property demands
	return "returns"
}

func implC02(line string) string {
	f := strings.Fields(line)
	switch f[0] {
	case "call", "new", "callb", "newb":
		fn := f[1]
		var ri int
		fmt.Sscan(f[2], &ri)
		var args []string
		if f[3] != "-" {
			for _, a := range strings.Split(f[3], ",") {
				var ai int
				fmt.Sscan(a, &ai)
				args = append(args, argvs[ai])
			}
		}
		var src string
		switch f[0] {
		case "call":
			src = "(" + fn + ").call(" + strings.Join(append([]string{recvs[ri]}, args...), ", ") + ")"
		case "new":
			src = "new (" + fn + ")(" + strings.Join(args, ", ") + ")"
		default:
			// first argument bound, the rest passed at the call; also a bound function of a bound function
			var bound, rest []string
			if len(args) > 0 {
				bound, rest = args[:1], args[1:]
			}
			b := "(" + fn + ").bind(" + strings.Join(append([]string{recvs[ri]}, bound...), ", ") + ")"
			if ri%2 == 1 {
				b = "(" + b + ").bind(null)"
			}
			if f[0] == "callb" {
				src = "(" + b + ")(" + strings.Join(rest, ", ") + ")"
			} else {
				src = "new (" + b + ")(" + strings.Join(rest, ", ") + ")"
			}
		}
		return guarded(f[0]+" "+fn, func() string {
			vm := newVM()
			stop := watchdog(vm)
			_, err := vm.Run(src)
			stop()
			r := classify(err)
			// the runtime must still be usable
			if v, err2 := vm.Run("1+1"); err2 != nil || v.String() != "2" {
				return "unusable-after"
			}
			return r
		})
	case "goapi":
		// the same call through Value.Call / Object.Call / Otto.Call with Go-side arguments
		fn := f[1]
		var ri int
		fmt.Sscan(f[2], &ri)
		return guarded("goapi "+fn, func() string {
			vm := newVM()
			fv, err := vm.Run("(" + fn + ")")
			if err != nil {
				return "returns"
			}
			rv, err := vm.Run("(" + recvs[ri] + ")")
			if err != nil {
				return "returns"
			}
			goArgs := []interface{}{nil, 1.5, "abc", true, []interface{}{1, "x"}, map[string]interface{}{"a": 1}, int8(-1), uint64(1 << 63)}
			var k int
			fmt.Sscan(f[3], &k)
			fv.Call(rv, goArgs[:k%len(goArgs)]...)
			if fv.IsObject() {
				fv.Object().Call("call", rv)
				fv.Object().Get("length")
				fv.Object().Keys()
			}
			vm.Call(fn, nil, goArgs[:k%len(goArgs)]...)
			rv.Export()
			rv.ToString()
			rv.ToInteger()
			rv.ToFloat()
			rv.ToBoolean()
			rv.Class()
			rv.MarshalJSON()
			if rv.IsObject() {
				o := rv.Object()
				o.Get("x")
				o.Set("x", goArgs[k%len(goArgs)])
				o.Keys()
				o.KeysByParent()
				o.Value()
				o.MarshalJSON()
			}
			vm.Get("undefinedName")
			vm.Set("newName", goArgs[k%len(goArgs)])
			return "returns"
		})
	case "bridge":
		return implBridge(f)
	case "deep":
		return implDeep(f)
	case "goapi2":
		var k int
		if len(f) != 2 {
			return "bad-op"
		}
		fmt.Sscan(f[1], &k)
		return implGoAPI2(k)
	case "recur":
		if len(f) != 4 {
			return "bad-op"
		}
		return implRecur(f)
	case "seq":
		b, err := hex.DecodeString(f[1])
		if err != nil {
			return "bad-op"
		}
		return implSeq(string(b))
	case "src", "eval", "compile", "gocall", "goobject", "goname", "strfn":
		if len(f) < 2 {
			f = append(f, "")
		}
		b, err := hex.DecodeString(f[1])
		if err != nil {
			return "bad-op"
		}
		return guarded(f[0]+" "+string(b), func() string {
			vm := newVM()
			stop := watchdog(vm)
			defer stop()
			switch f[0] {
			case "src":
				vm.Run(string(b))
			case "eval":
				vm.Eval(string(b))
			case "gocall":
				// Otto.Call parses its first argument as source text (plain, "new …", with and without a this
				// value); each call gets its own watchdog (a mutated source may spin)
				wd := func(f func()) { st := watchdogAfter(vm, 600*time.Millisecond); defer st(); f() }
				wd(func() { vm.Call(string(b), nil) })
				wd(func() { vm.Call(string(b), nil, 1, "a") })
				wd(func() { vm.Call("new "+string(b), nil, 1) })
				wd(func() { vm.Call(string(b), map[string]interface{}{"a": 1}, 2) })
			case "goobject":
				wd := func(f func()) { st := watchdogAfter(vm, 600*time.Millisecond); defer st(); f() }
				wd(func() { vm.Object(string(b)) })
				wd(func() { vm.Object("(" + string(b) + ")") })
			case "strfn":
				// built-ins that parse their string argument: the byte string as parameter list and as body of
				// the Function constructor, as pattern and flags of RegExp, as JSON text, URI, date, number
				wd := func(f func()) { st := watchdogAfter(vm, 400*time.Millisecond); defer st(); f() }
				x := string(b)
				wd(func() { vm.Call("Function", nil, x) })
				wd(func() { vm.Call("Function", nil, x, "return 1") })
				wd(func() { vm.Call("new Function", nil, "a", x) })
				wd(func() { vm.Call("eval", nil, x) })
				wd(func() { vm.Call("RegExp", nil, x) })
				wd(func() { vm.Call("new RegExp", nil, "a", x) })
				wd(func() { vm.Call("JSON.parse", nil, x) })
				wd(func() { vm.Call("decodeURIComponent", nil, x) })
				wd(func() { vm.Call("unescape", nil, x) })
				wd(func() { vm.Call("Date.parse", nil, x) })
				wd(func() { vm.Call("parseFloat", nil, x) })
				wd(func() { vm.Call("Number", nil, x) })
			case "goname":
				// arbitrary bytes as a global name / property name through the Go API
				vm.Set(string(b), 1)
				vm.Get(string(b))
				if o, err := vm.Object("({})"); err == nil {
					o.Set(string(b), 2)
					o.Get(string(b))
					o.Call(string(b))
					o.Keys()
				}
			default:
				s, err := vm.Compile("", string(b))
				if err == nil {
					vm.Run(s)
				}
			}
			if v, err2 := vm.Run("1+1"); err2 != nil || v.String() != "2" {
				return "unusable-after"
			}
			return "returns"
		})
	}
	return "bad-op"
}

var srcSeeds = []string{
	`RegExp.prototype.global = true; "abc".match(RegExp.prototype)`,
	`"abc".split(RegExp.prototype)`, `"abc".replace(RegExp.prototype, "x")`, `"abc".search(RegExp.prototype)`,
	`var a = 1; a &= 2; a |= 3; a ^= 1; a <<= 2; a >>= 1; a >>>= 1; a %= 5; a`,
	`function f(x) { return x ? f(x - 1) : 0 } f(10)`,
	`try { throw new Error("x") } catch (e) { e.message } finally { }`,
	`var o = {a: 1, get b() { return 2 }, set b(v) {}}; for (var k in o) o[k]`,
	`/a[b-c]+(?:d|e)*$/gim.exec("abcde")`,
	`"str".charAt(1) + [1,2,3].map(function(x){return x*2}).join() + JSON.stringify({a:[1]})`,
	`l: for (;;) { switch (1) { case 1: break l; default: continue l } }`,
	`new Date(2000, 1, 1).getTime() + typeof void 0 + (1, 2) + (a ? b : c)`,
	`x = y = z = 0x1F + 017 + 1e3 + .5 + "A\x41\n\
"`,
	`do x++; while (x < 5) with (o) { a } if (a) b; else c; debugger; return`,
	// strings held as UTF-16 code units inside the engine (String.fromCharCode results) in every construct
	`var s = String.fromCharCode(97), t = String.fromCharCode(97), u = String.fromCharCode(0xD800); switch (s) { case t: 1; break; case u: 2; default: 3 }`,
	`var s = String.fromCharCode(98), t = String.fromCharCode(98), o = {}; o[s] = 1; [s === t, s == t, s != t, s < t, s <= t, s + t, s in o, typeof s, !s, -s, s ? 1 : 2, s && t, s || t, delete o[s], s instanceof Object].join()`,
	`var s = String.fromCharCode(99), o = {}; o[s] = s; for (var k in o) { k === s } with (o) { c } var f = {valueOf: function(){ return s }}; f + f; f < f; f == s; [s, s].sort(); [s].indexOf(s); s.localeCompare(s); ({})[s]; JSON.stringify(o); new RegExp(s).test(s); s.replace(s, s); s.split(s); parseInt(s); Number(s); new Date(s); eval(s); new Function(s, s)`,
	`var u = String.fromCharCode(0xD800), v = String.fromCharCode(0xDC00); switch (u + v) { case u + v: 1 } switch (u) { case v: 2; case u: 3 } u + v === v + u; ({})[u + v]; (u + v).length`,
	// object literals naming one key several times, then every observer
	`var o = {a: 1, a: 2, '1': 3, 1: 4, b: 5, a: 6}; Object.keys(o) + Object.getOwnPropertyNames(o) + JSON.stringify(o); for (var k in o) k; delete o.a; delete o[1]; delete o.a; Object.keys(o) + ""; o.a = 1; delete o.b; Object.freeze(o); Object.keys(o).length`,
	`var o = {get a(){ return 1 }, set a(v){}, b: 1, b: 2}; delete o.b; delete o.a; Object.keys(o).length`,
	// escapes cut short inside string literals, identifiers and regexp literals
	"\"\\uD83D\\uDE0\"", "\"\\uD83D\\u\"", "'\\uDC00\\u1'", "({\"\\uD83D\\uDE\": 1})", "\"\\x4\"", "\"\\u12\"", "'\\uD800\\uDC'", "\"\\uD83D\\x\"", "/\\uD83D\\uDE0/", "a\\uD83D\\u = 1", "\"\\uDBFF\\uDFFF\\uD800\\u\"",
	// a continue whose label is on a non-iteration statement, its completion used as a value (before e286354 the
	// parser accepted it and the stray completion reached typeof / + / array literals: "Here be dragons" panics)
	`typeof eval("a: { for (var i = 0; i < 2; i++) { continue a; } }")`,
	`1 + eval("a: if (1) for(;;){ continue a; }")`,
	`[eval("a: { while (1) { continue a } }")].length`,
	`var x = (function(){ a: { for (var i = 0; i < 2; i++) { continue a; } } return 7 })(); String(x)`,
	`void eval("a: switch (1) { case 1: do { continue a } while (0) }"); eval("b: try { for (;;) continue b } finally { }") + ""`,
	// a source map reference cut short on the last line
	"var answer = 6 * 7; answer\n//# sourceMappingURL=data:application/json",
	"1\n//# sourceMappingURL=data:application/json;base64",
	"1\n//# sourceMappingURL=data:application/json;base64,",
	"1\n//# sourceMappingURL=data:application/json;base64,e30=",
	"1\n//# sourceMappingURL=data:application/json;base64,!!!!",
	"1\n//# sourceMappingURL=",
	"1\n//@ sourceMappingURL=data:,",
}

func genC02(c *h.Ctx) {
	fns := discover()
	c.Dist["builtin_functions_discovered"] = len(fns)
	r := c.Rng
	// every function x every receiver with no arguments, and with one argument from a rotating choice
	for i, fn := range fns {
		for ri := range recvs {
			c.Add(fmt.Sprintf("call %s %d -", fn, ri), "call:0args")
			c.Add(fmt.Sprintf("call %s %d %d", fn, ri, (i+ri)%len(argvs)), "call:1arg")
		}
		for ai := range argvs {
			// every argument value also in the SECOND and THIRD position (behind a plain object / string)
			c.Add(fmt.Sprintf("call %s %d 15,%d", fn, 7+ai%3, ai), "call:2nd-arg")
			if ai%2 == i%2 {
				c.Add(fmt.Sprintf("call %s %d 13,15,%d", fn, 7+ai%3, ai), "call:3rd-arg")
			}
			c.Add(fmt.Sprintf("call %s %d %d", fn, 6+ai%4, ai), "call:1arg")
			c.Add(fmt.Sprintf("new %s 0 %d", fn, ai), "new")
		}
		// prototype objects as the argument of every function on a string, an array, a regular expression and a date
		for _, ai := range protoArgs() {
			for _, ri := range []int{6, 8, 10, 11} {
				c.Add(fmt.Sprintf("call %s %d %d", fn, ri, ai), "call:prototype-object-as-argument")
			}
		}
		c.Add(fmt.Sprintf("new %s 0 -", fn), "new")
		c.Add(fmt.Sprintf("goapi %s %d %d", fn, i%len(recvs), i), "goapi")
		// the same built-in behind Function.prototype.bind (with and without bound arguments), called and constructed
		for ai := 0; ai < len(argvs); ai += 7 {
			c.Add(fmt.Sprintf("callb %s %d %d,%d", fn, (i+ai)%len(recvs), ai, (ai+3)%len(argvs)), "bound:call")
			c.Add(fmt.Sprintf("newb %s %d %d,%d", fn, (i+ai)%len(recvs), ai, (ai+5)%len(argvs)), "bound:new")
		}
		c.Add(fmt.Sprintf("newb %s 0 -", fn), "bound:new")
	}
	n := c.N(15000, 1500000)
	for i := 0; i < n; i++ {
		fn := fns[r.Intn(len(fns))]
		k := r.Intn(4)
		as := make([]string, k)
		for j := range as {
			as[j] = fmt.Sprint(r.Intn(len(argvs)))
		}
		a := "-"
		if k > 0 {
			a = strings.Join(as, ",")
		}
		if r.Chance(85) {
			c.Add(fmt.Sprintf("call %s %d %s", fn, r.Intn(len(recvs)), a), fmt.Sprintf("call:%dargs", k))
		} else {
			c.Add(fmt.Sprintf("new %s 0 %s", fn, a), "new")
		}
	}
	genRecur(c)
	genDeep(c)
	genGoAPI2(c)
	genBridge(c)
	// stateful API sequences
	for i := 0; i < c.N(4000, 150000); i++ {
		c.Add("seq "+hex.EncodeToString([]byte(genSeq(r.Fork(), fns, 4+r.Intn(10)))), "sequence")
	}
	for i := 0; i < c.N(3000, 100000); i++ {
		c.Add("seq "+hex.EncodeToString([]byte(genSeqArray(r.Fork(), 3+r.Intn(8)))), "sequence:array-error-paths")
	}
	// byte strings as source
	kinds := []string{"src", "eval", "compile", "gocall", "goobject", "goname", "strfn"}
	// fixed odd sources for every kind (programs without statements, comments swallowing what the API appends, …)
	for _, odd := range []string{"", " ", "//x", "/*", "/**/", "//", "f //", "new", "new ", "new //x", ";", "{}", "()", ")", "a.b", "a[", "this", "null", "undefined", "Math.abs", "Math.abs //", "\n", "\u2028", "0", "'s'", "function(){}", "(function(){})", "x => x",
		"})(function(){", "}, function(){", "a){}) ; (function(b", "}", "{", ") {", "*/", "(", "[", "(?", "\\", "%", "%E0%A4%A", "{\"a\":", "[1,", "1e", "0x", "-", "T", "2000-", "Infinity", "+",
		"var o = {}; o.e\u0301 = 1", "o.a\u0663", "var o = {}; o.\u2118", "({}).a\u200d", "x\u0301", "var \u2118 = 1", "a.\u0663", "o.\\u0061", "o.if\nvar b", "({get if(){}})", "o.a\u0085.b"} {
		for _, k := range kinds {
			c.Add(k+" "+hex.EncodeToString([]byte(odd)), "source:"+k)
		}
	}
	for _, p := range auditProbes {
		c.Add("src "+hex.EncodeToString([]byte(p)), "source:audit-probe")
		c.Add("eval "+hex.EncodeToString([]byte(p)), "source:audit-probe")
	}
	for _, seed := range srcSeeds {
		for _, k := range kinds {
			c.Add(k+" "+hex.EncodeToString([]byte(seed)), "source:"+k)
		}
	}
	var corpus []string
	corpus = append(corpus, srcSeeds...)
	corpus = append(corpus, auditProbes...)
	for i := 0; i < 40; i++ {
		vars, prog, _ := mujs.GenProgram(r.Fork(), 30)
		corpus = append(corpus, mujs.RenderJS(vars, prog))
	}
	m := c.N(6000, 400000)
	for i := 0; i < m; i++ {
		var b []byte
		switch r.Intn(6) {
		case 5: // a character of an unusual Unicode class spliced in next to an identifier or a `.`
			s := corpus[r.Intn(len(corpus))]
			odd := []string{"\u0301", "\u093f", "\u0663", "\u203f", "\u2118", "\u2160", "\u200d", "\u200c", "\u0085", "\u180e", "\ufeff", "\U00010400", "\U0001d7ce", "\xed\xa0\x80", "\u00aa", "\u02b0", "\u0345", "\u1885", "\u309b", "\u00b7", "\u0387", "\u19da", "\\u0301", "\\u{41}"}
			var at []int
			for j := 0; j < len(s); j++ {
				c := s[j]
				if c == '.' || c == '_' || c == '$' || 'a' <= c && c <= 'z' || 'A' <= c && c <= 'Z' {
					at = append(at, j+1)
				}
			}
			if len(at) == 0 {
				at = []int{0}
			}
			p := at[r.Intn(len(at))]
			b = []byte(s[:p] + odd[r.Intn(len(odd))] + s[p:])
		case 0: // random bytes
			b = make([]byte, 1+r.Intn(24))
			for j := range b {
				b[j] = byte(r.U64())
			}
		case 1: // truncation
			s := corpus[r.Intn(len(corpus))]
			b = []byte(s[:r.Intn(len(s)+1)])
		case 2: // byte mutation
			b = []byte(corpus[r.Intn(len(corpus))])
			for j := 0; j < 1+r.Intn(3); j++ {
				b[r.Intn(len(b))] = byte(r.U64())
			}
		case 3: // token soup
			toks := []string{"&^", "&^=", "=>", "...", "`", "\\u", "\\u{1F600}", "/*", "//", "'", "\"", "/", "/=", "++", "--", "<<<", ">>>>=", "0x", "0b1", "1e", "1.e+", "..", "?.", "#", "@", "\x00", "\xff\xfe", "\u2028", "\ufeff", "\\uD83D", "\\uDE0", "\\uD83D\\u", "\\x4", "\\u{", "//# sourceMappingURL=data:application/json", "\n//# sourceMappingURL=data:application/json;base64,", "String.fromCharCode(97)", "switch(", "case ", "a:1,a:2,", "for(", "function", "{", "}", "(", ")", "[", "]", ";", "var", "=", "a", "1", ",", ":", "case", "new", "this", "in", "instanceof", "typeof", "delete", "void", "let", "class", "enum", "yield", "get", "set"}
			var sb strings.Builder
			for j := 0; j < 1+r.Intn(10); j++ {
				sb.WriteString(toks[r.Intn(len(toks))])
				if r.Bool() {
					sb.WriteString(" ")
				}
			}
			b = []byte(sb.String())
		default: // insertion of an odd token into a valid program
			s := corpus[r.Intn(len(corpus))]
			toks := []string{"&^=", "&^", "\\", "\x80", "\u2029", "0x", "1__0", "/(/", "/[/", "/(?=a)/", "/\\1/", "'\\", "\"\\u12", "/*"}
			p := r.Intn(len(s) + 1)
			b = []byte(s[:p] + toks[r.Intn(len(toks))] + s[p:])
		}
		c.Add(kinds[i%len(kinds)]+" "+hex.EncodeToString(b), "source:"+kinds[i%len(kinds)])
	}
}
