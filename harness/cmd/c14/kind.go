package main

// `kind <cfg> <owner> <aspect>`: does a start-up object BEHAVE as the special object ES5 says it is
// (Array.prototype is an array, Date.prototype a Date with NaN time value, Function.prototype callable, …)?
// Every request mutates the object, so it runs on a throw-away Copy() of the configuration's runtime.

import "strings"

const kindJS = `
(function(O, aspect){
  function setlen(v){ try { O.length=v; return "noerror"; } catch(e) { return e.name; } }
  function thrown(f){ try { return f(); } catch(e) { return "throws:"+e.name; } }
  switch(aspect){
  case "idxlen": var b=O.length; O[5]=1; var a=O.length; return (a===b || (a!==a && b!==b))? "same" : String(a);
  case "lenneg": return setlen(-1);
  case "lenfrac": return setlen(1.5);
  case "lenbig": return setlen(4294967296);
  case "shrink": O[3]=1; try { O.length=1; } catch(e) {} return (3 in O)? "kept" : "deleted";
  case "call": if(typeof O!=="function") return "notcallable"; return thrown(function(){ return "returns:"+typeof O(); });
  case "newthrows": try { new O(); return "noerror"; } catch(e) { return e.name; }
  case "wrap":
    var c=Object.prototype.toString.call(O);
    if(c==="[object String]"){ var s=O.toString(), h=""; for(var i=0;i<s.length;i++){ var x=s.charCodeAt(i).toString(16); while(x.length<4) x="0"+x; h+=x; }
      return "str:"+h+","+O.length+","+Object.prototype.hasOwnProperty.call(O,"0"); }
    if(c==="[object Boolean]") return thrown(function(){ return String(O.toString()); });
    if(c==="[object Number]") return thrown(function(){ return O.toString()+","+(1/O.valueOf()); });
    return "notawrapper:"+c;
  case "datenan": return thrown(function(){ return String(O.getTime())+","+O.toString(); });
  case "dateset": return thrown(function(){ O.setTime(5); return String(O.getTime()); });
  case "retest": return thrown(function(){ return String(O.test("x")); });
  case "restr": return thrown(function(){ return O.toString(); });
  case "errstr": return thrown(function(){ return O.toString(); });
  }
  return "bad-aspect";
})
`

func implKind(f []string) (res string) {
	if len(f) != 4 {
		return "bad-op"
	}
	cfg := cfgs[f[1]]
	if cfg == nil {
		return "bad-cfg"
	}
	expr := ""
	for _, oe := range ownerExprs {
		if oe[0] == f[2] {
			expr = oe[1]
		}
	}
	if expr == "" {
		return "bad-owner"
	}
	if expr == "G" {
		expr = "this"
	}
	mu := lockFor(f[1])
	mu.Lock()
	vm := cfg.vm.Copy()
	mu.Unlock()
	defer func() {
		if r := recover(); r != nil {
			res = "panic"
		}
	}()
	v, err := vm.Run(kindJS + "(" + expr + ", \"" + f[3] + "\")")
	if err != nil {
		return "error:" + strings.SplitN(strings.ReplaceAll(err.Error(), " ", "_"), ":", 2)[0]
	}
	return strings.ReplaceAll(v.String(), " ", "_")
}
