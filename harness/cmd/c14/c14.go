package main

// Correspondence stream of property C14.  The quantifier is finite: every request the Lean tables
// induce (asked from the driver with `list`) is issued for every configuration, plus one `extra`
// request per reflected own property that ES5 does not list, plus the probes.

import (
	"encoding/hex"
	"fmt"
	"os"
	"strings"

	"github.com/robertkrimen/otto"
	"ottoverif/h"
)

func init() {
	h.Register(&h.Prop{ID: "C14", Gen: genC14, Impl: implC14, Trivial: func(l string) bool { return false }})
}

// userGlobal reports the globals a configuration's own scripts created ("modulo the underscore global").
func userGlobal(cfg, name string) bool {
	switch cfg {
	case "under", "undercopy":
		return name == "_"
	case "usedcopy":
		return name == "userFn" || name == "userGlobal"
	}
	return false
}

func genC14(c *h.Ctx) {
	buildConfigs()
	rep, err := h.RunModel("C14", []string{"list"})
	if err != nil || len(rep) != 1 || rep[0].Spec != "-" {
		fmt.Fprintln(os.Stderr, "C14: cannot obtain the request list from the Lean driver:", err)
		c.Add("noprobe driver list") // surfaces as a disagreement instead of a silent empty run
		return
	}
	listed := map[string]bool{}
	items := strings.Split(rep[0].Model, ",")
	for _, cfg := range cfgNames {
		for _, it := range items {
			f := strings.Split(it, "/")
			switch f[0] {
			case "entry", "own", "bind", "objkind", "kind":
				if len(f) == 3 {
					c.Add(fmt.Sprintf("%s %s %s %s", f[0], cfg, f[1], f[2]), f[0], "cfg:"+cfg)
					if f[0] == "entry" {
						listed[f[1]+" "+f[2]] = true
					}
				}
			case "forin", "link", "beh", "route":
				if len(f) == 2 {
					c.Add(fmt.Sprintf("%s %s %s", f[0], cfg, f[1]), f[0], "cfg:"+cfg)
				}
			}
		}
		c.Add("static "+cfg+" order", "static", "cfg:"+cfg)
		c.Add("static "+cfg+" eval", "static", "cfg:"+cfg)
		// every reflected own property that ES5 does not list
		if d := cfgs[cfg].dump; d != nil {
			for _, oe := range ownerExprs {
				for _, p := range d.Order[oe[0]] {
					if !listed[oe[0]+" "+p] && !(oe[0] == "global" && userGlobal(cfg, p)) && !strings.ContainsAny(p, " \t") {
						c.Add(fmt.Sprintf("extra %s %s %s", cfg, oe[0], p), "extra", "cfg:"+cfg)
					}
				}
			}
		}
	}
	for _, a := range cfgNames {
		for _, b := range cfgNames {
			if a < b {
				c.Add("same "+a+" "+b, "same")
			}
		}
	}
	genProbes(c)
	genDynFn(c)
}

func implC14(line string) string {
	buildConfigs()
	f := strings.Fields(line)
	if len(f) < 3 {
		return "bad-op"
	}
	if f[0] == "kind" {
		return implKind(f)
	}
	if f[0] == "dynfn" {
		return implDynFn(f)
	}
	if f[0] == "noprobe" {
		return "missing"
	}
	if f[0] == "same" {
		a, b := cfgs[f[1]], cfgs[f[2]]
		if a == nil || b == nil {
			return "bad-cfg"
		}
		if a.err != nil || b.err != nil {
			return "reflect-failed"
		}
		return diffDumps(f[1], a.dump, f[2], b.dump)
	}
	cfg := cfgs[f[1]]
	if cfg == nil {
		return "bad-cfg"
	}
	if f[0] == "probe" {
		return runProbe(f[1], f[4])
	}
	if cfg.err != nil {
		return "reflect-failed:" + strings.ReplaceAll(strings.SplitN(cfg.err.Error(), "\n", 2)[0], " ", "_")
	}
	d := cfg.dump
	get := func(m map[string]string, k string) string {
		if v, ok := m[k]; ok {
			return v
		}
		return "absent"
	}
	switch f[0] {
	case "entry":
		return get(d.Ent[f[2]], f[3])
	case "own":
		return get(d.Own[f[2]], f[3])
	case "extra":
		t := get(d.Ent[f[2]], f[3])
		i := strings.LastIndex(t, "|")
		if i < 0 {
			return t
		}
		if strings.Contains(t[i:], "e") {
			return "enum"
		}
		return "nonenum"
	case "forin":
		return get(d.ForIn, f[2])
	case "link":
		return get(d.Link, f[2])
	case "beh":
		return get(d.Beh, f[2])
	case "route":
		return get(d.Route, f[2])
	case "objkind":
		return get(d.Static, "kind "+f[2]+" "+f[3])
	case "bind":
		if f[3] == "@self" {
			return get(d.Static, "self "+f[2])
		}
		return get(d.Static, "bind "+f[2]+" "+f[3])
	case "static":
		return get(d.Static, f[2])
	}
	return "bad-op"
}

// diffDumps compares two reflected shapes completely (entries, order, object facts, for-in, links, wiring),
// ignoring only the user globals of either configuration.
func diffDumps(an string, a *Dump, bn string, b *Dump) string {
	skip := func(o, p string) bool { return o == "global" && (userGlobal(an, p) || userGlobal(bn, p)) }
	for _, oe := range ownerExprs {
		o := oe[0]
		var ka, kb []string
		for _, p := range a.Order[o] {
			if !skip(o, p) {
				ka = append(ka, p)
			}
		}
		for _, p := range b.Order[o] {
			if !skip(o, p) {
				kb = append(kb, p)
			}
		}
		if strings.Join(ka, ",") != strings.Join(kb, ",") {
			return "differ:names:" + o
		}
		for _, p := range ka {
			if a.Ent[o][p] != b.Ent[o][p] {
				return "differ:entry:" + o + ":" + p
			}
			if a.Static["bind "+o+" "+p] != b.Static["bind "+o+" "+p] {
				return "differ:bind:" + o + ":" + p
			}
		}
		for _, fld := range ownFields {
			if fld == "forin" && o == "global" {
				continue
			}
			if a.Own[o][fld] != b.Own[o][fld] {
				return "differ:own:" + o + ":" + fld
			}
		}
		if a.Static["self "+o] != b.Static["self "+o] {
			return "differ:self:" + o
		}
	}
	for _, k := range sortedKeys(a.ForIn) {
		if a.ForIn[k] != b.ForIn[k] {
			return "differ:forin:" + k
		}
	}
	for _, k := range sortedKeys(a.Link) {
		if a.Link[k] != b.Link[k] {
			return "differ:link:" + k
		}
	}
	if len(a.ForIn) != len(b.ForIn) || len(a.Link) != len(b.Link) {
		return "differ:subjects"
	}
	return "equal"
}

// runProbe evaluates one JavaScript expression on a throw-away copy of the configuration's runtime.
func runProbe(cfg, jshex string) string {
	src, err := hex.DecodeString(jshex)
	if err != nil {
		return "bad-hex"
	}
	vm := probeRuntime(cfg)
	if vm == nil {
		return "bad-cfg"
	}
	mu := lockFor(cfg)
	mu.Lock()
	defer mu.Unlock()
	v, err := vm.Run(string(src))
	if err != nil {
		if oe, ok := err.(*otto.Error); ok {
			m := oe.Error()
			if i := strings.Index(m, ":"); i > 0 {
				return "throw:" + strings.ReplaceAll(m[:i], " ", "_")
			}
		}
		return "error"
	}
	if v.IsBoolean() {
		b, _ := v.ToBoolean()
		return h.BoolTok(b)
	}
	return "notboolean:" + strings.ReplaceAll(v.String(), " ", "_")
}
