package main

import (
	"fmt"
	"runtime/debug"
	"sync"

	"github.com/robertkrimen/otto"
	"github.com/robertkrimen/otto/underscore"
)

// The runtime configurations over which the property quantifies.
var cfgNames = []string{"fresh", "fresh2", "under", "copy", "copy2", "usedcopy", "undercopy"}

type cfgRT struct {
	vm   *otto.Otto // the runtime that is reflected (never mutated by probes)
	dump *Dump
	err  error
}

var (
	cfgOnce sync.Once
	cfgs    = map[string]*cfgRT{}
)

// buildConfigs creates every configuration once.  underscore is imported (its import side
// effect registers it for every new runtime) and switched off/on around otto.New().
func buildConfigs() {
	cfgOnce.Do(func() {
		underscore.Disable()
		fresh := otto.New()
		fresh2 := otto.New()
		underscore.Enable()
		under := otto.New()
		underscore.Disable()
		cp := fresh.Copy()
		cp2 := cp.Copy()
		used := otto.New()
		used.Run(`var userGlobal = {a:[1,2,3]}; function userFn(x){ return x+1 } [3,1,2].sort(); JSON.stringify({a:1}); try { null.x } catch (e) {}`)
		usedcopy := used.Copy()
		undercopy := under.Copy()
		for n, vm := range map[string]*otto.Otto{"fresh": fresh, "fresh2": fresh2, "under": under, "copy": cp, "copy2": cp2, "usedcopy": usedcopy, "undercopy": undercopy} {
			c := &cfgRT{vm: vm}
			func() {
				defer func() {
					if r := recover(); r != nil {
						c.err = fmt.Errorf("panic: %v\n%s", r, debug.Stack())
					}
				}()
				c.dump, c.err = reflectRuntime(vm)
			}()
			cfgs[n] = c
		}
	})
}
