package main

// `dynfn <cfg> <kind> <L> <n> <field>`: the shape of function objects created at run time
// (function expressions, new Function, Function.prototype.bind) – ES5 13.2 and 15.3.4.5.
// Each request runs on a throw-away Copy() of the configuration's runtime (before /repo f48e83f the
// descriptor fields provoked a Go panic inside otto, after which a runtime is not to be reused).

import (
	"fmt"
	"strconv"
	"strings"

	"ottoverif/h"
)

var dynKinds = []string{"node", "newfn", "bound"}
var dynFields = []string{"length", "hasproto", "protoattr", "ctor", "enumown", "callerdesc", "stackdesc"}

func genDynFn(c *h.Ctx) {
	for _, cfg := range cfgNames {
		for _, k := range dynKinds {
			for l := 0; l <= 6; l++ {
				maxN := 0
				if k == "bound" {
					maxN = 8
				}
				for n := 0; n <= maxN; n++ {
					for _, f := range dynFields {
						if f != "length" && (l > 2 || n > 3) && !c.Thorough() {
							continue
						}
						c.Add(fmt.Sprintf("dynfn %s %s %d %d %s", cfg, k, l, n, f), "dynfn", "cfg:"+cfg)
					}
				}
			}
		}
	}
}

func dynExpr(kind string, l, n int) string {
	var ps, as []string
	for i := 0; i < l; i++ {
		ps = append(ps, fmt.Sprintf("p%d", i))
	}
	for i := 0; i < n; i++ {
		as = append(as, strconv.Itoa(i))
	}
	switch kind {
	case "node":
		return "(function(" + strings.Join(ps, ",") + "){})"
	case "newfn":
		var qs []string
		for _, p := range ps {
			qs = append(qs, `"`+p+`"`)
		}
		qs = append(qs, `""`)
		return "(new Function(" + strings.Join(qs, ",") + "))"
	case "bound":
		return "((function(" + strings.Join(ps, ",") + "){}).bind(" + strings.Join(append([]string{"null"}, as...), ",") + "))"
	}
	return "undefined"
}

const dynJS = `
(function(f, field){
  function attrs(d){ return (d.writable?"w":"-")+(d.enumerable?"e":"-")+(d.configurable?"c":"-"); }
  var has = Object.prototype.hasOwnProperty;
  if(field==="length"){ var d=Object.getOwnPropertyDescriptor(f,"length"); return String(d.value)+"|"+attrs(d); }
  if(field==="hasproto") return has.call(f,"prototype")? "P" : "-";
  if(field==="protoattr"){ if(!has.call(f,"prototype")) return "absent"; return attrs(Object.getOwnPropertyDescriptor(f,"prototype")); }
  if(field==="ctor"){
    if(!has.call(f,"prototype")) return "absent";
    var d=Object.getOwnPropertyDescriptor(f.prototype,"constructor");
    if(!d) return "noconstructor";
    return (d.value===f? "self" : "other")+"|"+attrs(d);
  }
  if(field==="enumown"){ var k=0; for(var p in f){ if(has.call(f,p)) k++; } return String(k); }
  // ES5 8.10.4: a descriptor object has exactly value/writable/enumerable/configurable or get/set/enumerable/configurable
  function wellFormed(d){
    if(d===undefined) return "ok";
    var ns=Object.getOwnPropertyNames(d).sort().join();
    if(ns==="configurable,enumerable,get,set"){
      if(!(d.get===undefined || typeof d.get==="function")) return "malformed:get";
      if(!(d.set===undefined || typeof d.set==="function")) return "malformed:set";
    } else if(ns==="configurable,enumerable,value,writable"){
      if(typeof d.writable!=="boolean") return "malformed:writable";
    } else return "malformed:fields:"+ns;
    if(typeof d.configurable!=="boolean") return "malformed:configurable";
    if(d.enumerable!==false) return "enumerable";
    return "ok";
  }
  if(field==="callerdesc") return wellFormed(Object.getOwnPropertyDescriptor(f,"caller"));
  if(field==="stackdesc") return wellFormed(Object.getOwnPropertyDescriptor(new Error("m"),"stack"));
  return "bad-field";
})
`

func implDynFn(f []string) (res string) {
	if len(f) != 6 {
		return "bad-op"
	}
	cfg := cfgs[f[1]]
	if cfg == nil {
		return "bad-cfg"
	}
	l, _ := strconv.Atoi(f[3])
	n, _ := strconv.Atoi(f[4])
	mu := lockFor(f[1])
	mu.Lock()
	vm := cfg.vm.Copy()
	mu.Unlock()
	defer func() {
		if r := recover(); r != nil {
			res = "panic"
		}
	}()
	v, err := vm.Run(dynJS + "(" + dynExpr(f[2], l, n) + ", \"" + f[5] + "\")")
	if err != nil {
		return "error:" + strings.SplitN(strings.ReplaceAll(err.Error(), " ", "_"), ":", 2)[0]
	}
	return strings.ReplaceAll(v.String(), " ", "_")
}
