// Command c14 is the correspondence harness binary for property C14.
package main

import "ottoverif/h"

func main() { h.Main("C14") }
