package main

// One distinguishing JavaScript probe per built-in function: an expression that is `true` exactly when the
// property is bound to the operation of that name (it separates the function from its siblings).

import (
	"encoding/hex"
	"strings"
	"sync"

	"github.com/robertkrimen/otto"
	"ottoverif/h"
)

var probeLocks = map[string]*sync.Mutex{}
var probeLocksOnce sync.Once

// probeRuntime: probes run on the configuration's own runtime (after it has been reflected), one at a time.
func probeRuntime(cfg string) *otto.Otto {
	buildConfigs()
	if c := cfgs[cfg]; c != nil {
		return c.vm
	}
	return nil
}

func lockFor(cfg string) *sync.Mutex {
	probeLocksOnce.Do(func() {
		for _, n := range cfgNames {
			probeLocks[n] = &sync.Mutex{}
		}
	})
	return probeLocks[cfg]
}

var probes = map[string]string{
	// 15.1
	"global eval":               `eval("1+2")===3 && eval("var q_e=7; q_e")===7`,
	"global parseInt":           `parseInt("12px")===12 && parseInt("ff",16)===255 && parseInt("1.9")===1`,
	"global parseFloat":         `parseFloat("1.5e1x")===15 && parseFloat("1.9")===1.9`,
	"global isNaN":              `isNaN(NaN)===true && isNaN("x")===true && isNaN(Infinity)===false`,
	"global isFinite":           `isFinite(1)===true && isFinite(Infinity)===false && isFinite(NaN)===false`,
	"global decodeURI":          `decodeURI("%41%2F")==="A%2F"`,
	"global decodeURIComponent": `decodeURIComponent("%41%2F")==="A/"`,
	"global encodeURI":          `encodeURI("a b/?")==="a%20b/?"`,
	"global encodeURIComponent": `encodeURIComponent("a b/?")==="a%20b%2F%3F"`,
	"global escape":             `escape("a b+Ā")==="a%20b+%u0100"`,
	"global unescape":           `unescape("a%20b%u0100")==="a bĀ"`,
	"global Object":             `Object(1) instanceof Number && typeof new Object()==="object" && Object.prototype.toString.call(new Object())==="[object Object]"`,
	"global Function":           `new Function("a","b","return a*b")(3,4)===12 && Function("return 5")()===5`,
	"global Array":              `new Array(3).length===3 && Array(1,2).length===2 && Array.isArray(new Array())`,
	"global String":             `String(12)==="12" && typeof new String("a")==="object" && new String("ab").length===2`,
	"global Boolean":            `Boolean("")===false && Boolean("a")===true && typeof new Boolean(false)==="object"`,
	"global Number":             `Number("12")===12 && typeof new Number(1)==="object" && isNaN(Number("x"))`,
	"global Date":               `typeof Date()==="string" && new Date(5).getTime()===5 && new Date(2000,0,1).getFullYear()===2000`,
	"global RegExp":             `new RegExp("a+","g").global===true && RegExp("b").test("abc") && new RegExp("a+").source==="a+"`,
	"global Error":              `new Error("m").message==="m" && Error("m") instanceof Error && new Error("m").name==="Error"`,
	"global EvalError":          `new EvalError("m").name==="EvalError" && new EvalError("m") instanceof Error && EvalError("q").message==="q"`,
	"global TypeError":          `new TypeError("m").name==="TypeError" && new TypeError("m") instanceof Error && TypeError("q").message==="q"`,
	"global RangeError":         `new RangeError("m").name==="RangeError" && new RangeError("m") instanceof Error && RangeError("q").message==="q"`,
	"global ReferenceError":     `new ReferenceError("m").name==="ReferenceError" && new ReferenceError("m") instanceof Error && ReferenceError("q").message==="q"`,
	"global SyntaxError":        `new SyntaxError("m").name==="SyntaxError" && new SyntaxError("m") instanceof Error && SyntaxError("q").message==="q"`,
	"global URIError":           `new URIError("m").name==="URIError" && new URIError("m") instanceof Error && URIError("q").message==="q"`,
	// 15.2
	"Object getPrototypeOf":                 `Object.getPrototypeOf([])===Array.prototype && Object.getPrototypeOf(Object.prototype)===null`,
	"Object assign":                         `(function(){ var t={a:1}; var r=Object.assign(t,{b:2},{a:3}); return r===t && t.a===3 && t.b===2; })()`,
	"Object getOwnPropertyDescriptor":       `(function(){ var d=Object.getOwnPropertyDescriptor({a:5},"a"); return d.value===5 && d.writable===true && d.enumerable===true && d.configurable===true && Object.getOwnPropertyDescriptor({}, "a")===undefined; })()`,
	"Object defineProperty":                 `(function(){ var o={}; var r=Object.defineProperty(o,"a",{value:1}); return r===o && o.a===1 && Object.keys(o).length===0; })()`,
	"Object defineProperties":               `(function(){ var o={}; var r=Object.defineProperties(o,{a:{value:1,enumerable:true},b:{value:2}}); return r===o && o.a===1 && o.b===2 && Object.keys(o).join()==="a"; })()`,
	"Object create":                         `(function(){ var p={x:1}; var o=Object.create(p,{y:{value:2}}); return Object.getPrototypeOf(o)===p && o.x===1 && o.y===2 && !o.hasOwnProperty("x"); })()`,
	"Object isExtensible":                   `Object.isExtensible({})===true && Object.isExtensible(Object.preventExtensions({}))===false`,
	"Object preventExtensions":              `(function(){ var o={a:1}; var r=Object.preventExtensions(o); o.b=2; return r===o && o.b===undefined && !Object.isExtensible(o) && !Object.isSealed(o); })()`,
	"Object isSealed":                       `Object.isSealed({a:1})===false && Object.isSealed(Object.seal({a:1}))===true && Object.isSealed(Object.preventExtensions({}))===true`,
	"Object seal":                           `(function(){ var o={a:1}; var r=Object.seal(o); delete o.a; o.a=2; return r===o && o.a===2 && Object.isSealed(o) && !Object.isFrozen(o); })()`,
	"Object isFrozen":                       `Object.isFrozen({a:1})===false && Object.isFrozen(Object.freeze({a:1}))===true && Object.isFrozen(Object.seal({a:1}))===false`,
	"Object freeze":                         `(function(){ var o={a:1}; var r=Object.freeze(o); o.a=2; return r===o && o.a===1 && Object.isFrozen(o); })()`,
	"Object keys":                           `(function(){ var o=Object.create({z:1}); o.a=1; o.b=2; Object.defineProperty(o,"h",{value:1}); return Object.keys(o).join()==="a,b"; })()`,
	"Object values":                         `Object.values({a:1,b:"x"}).join()==="1,x"`,
	"Object getOwnPropertyNames":            `(function(){ var o={a:1}; Object.defineProperty(o,"h",{value:1}); return Object.getOwnPropertyNames(o).sort().join()==="a,h" && Object.getOwnPropertyNames([7]).sort().join()==="0,length"; })()`,
	"Object.prototype constructor":          `Object.prototype.constructor===Object && ({}).constructor===Object`,
	"Object.prototype hasOwnProperty":       `({a:1}).hasOwnProperty("a")===true && ({}).hasOwnProperty("toString")===false`,
	"Object.prototype isPrototypeOf":        `Array.prototype.isPrototypeOf([])===true && Object.prototype.isPrototypeOf([])===true && Array.prototype.isPrototypeOf({})===false`,
	"Object.prototype propertyIsEnumerable": `({a:1}).propertyIsEnumerable("a")===true && [].propertyIsEnumerable("length")===false && ({}).propertyIsEnumerable("toString")===false`,
	"Object.prototype toString":             `Object.prototype.toString.call([])==="[object Array]" && ({}).toString()==="[object Object]" && Object.prototype.toString.call(null)==="[object Null]"`,
	"Object.prototype valueOf":              `(function(){ var o={}; return o.valueOf()===o && typeof Object.prototype.valueOf.call(1)==="object"; })()`,
	"Object.prototype toLocaleString":       `({toString:function(){return "T"}}).toLocaleString()==="T"`,
	// 15.3
	"Function.prototype toString":    `typeof Function.prototype.toString.call(function f(a){return a})==="string" && Function.prototype.toString.call(function fq(a){return a}).indexOf("fq")>=0 && (function(){ try { Function.prototype.toString.call({}); return false } catch(e) { return e instanceof TypeError } })()`,
	"Function.prototype apply":       `(function(a,b){return this.x+a+b}).apply({x:1},[2,3])===6 && Math.max.apply(null,[1,5,2])===5`,
	"Function.prototype call":        `(function(a,b){return this.x+a+b}).call({x:1},2,3)===6`,
	"Function.prototype bind":        `(function(){ var f=function(a,b){return this.x+a+b}; var g=f.bind({x:1},2); return g(3)===6 && g.length===1 && typeof g==="function"; })()`,
	"Function.prototype constructor": `Function.prototype.constructor===Function && (function(){}).constructor===Function`,
	// 15.4
	"Array isArray":                  `Array.isArray([])===true && Array.isArray({length:0})===false && Array.isArray(Array.prototype)===true`,
	"Array.prototype constructor":    `Array.prototype.constructor===Array && [].constructor===Array`,
	"Array.prototype concat":         `(function(){ var a=[1]; var r=a.concat([2,3],4); return r!==a && r.join()==="1,2,3,4" && a.length===1; })()`,
	"Array.prototype lastIndexOf":    `[1,2,1,2].lastIndexOf(2)===3 && [1,2,1,2].lastIndexOf(1)===2 && [1].lastIndexOf(5)===-1`,
	"Array.prototype pop":            `(function(){ var a=[1,2,3]; return a.pop()===3 && a.join()==="1,2"; })()`,
	"Array.prototype push":           `(function(){ var a=[1,2]; return a.push(3)===3 && a.join()==="1,2,3"; })()`,
	"Array.prototype reverse":        `(function(){ var a=[1,2,3]; return a.reverse()===a && a.join()==="3,2,1"; })()`,
	"Array.prototype shift":          `(function(){ var a=[1,2,3]; return a.shift()===1 && a.join()==="2,3"; })()`,
	"Array.prototype unshift":        `(function(){ var a=[2,3]; return a.unshift(0,1)===4 && a.join()==="0,1,2,3"; })()`,
	"Array.prototype slice":          `(function(){ var a=[1,2,3,4]; var r=a.slice(1,-1); return r.join()==="2,3" && a.length===4; })()`,
	"Array.prototype sort":           `(function(){ var a=[3,10,2]; return a.sort()===a && a.join()==="10,2,3" && [3,10,2].sort(function(x,y){return x-y}).join()==="2,3,10"; })()`,
	"Array.prototype splice":         `(function(){ var a=[1,2,3,4]; var r=a.splice(1,2,"x"); return r.join()==="2,3" && a.join()==="1,x,4"; })()`,
	"Array.prototype indexOf":        `[1,2,1,2].indexOf(2)===1 && [1,2,1,2].indexOf(2,2)===3 && [1].indexOf(5)===-1`,
	"Array.prototype join":           `[1,2,3].join("-")==="1-2-3" && [1,null,3].join()==="1,,3"`,
	"Array.prototype forEach":        `(function(){ var s=0; var r=[1,2,3].forEach(function(v,i){ s+=v*i }); return r===undefined && s===8; })()`,
	"Array.prototype filter":         `[1,2,3,4].filter(function(v){return v%2===0}).join()==="2,4"`,
	"Array.prototype map":            `[1,2,3].map(function(v,i){return v*i}).join()==="0,2,6"`,
	"Array.prototype every":          `[2,4].every(function(v){return v%2===0})===true && [2,3].every(function(v){return v%2===0})===false && [].every(function(){return false})===true`,
	"Array.prototype some":           `[1,2].some(function(v){return v%2===0})===true && [1,3].some(function(v){return v%2===0})===false && [].some(function(){return true})===false`,
	"Array.prototype reduce":         `[1,2,3].reduce(function(a,v){return a+"-"+v})==="1-2-3" && [1,2].reduce(function(a,v){return a+v},10)===13`,
	"Array.prototype reduceRight":    `[1,2,3].reduceRight(function(a,v){return a+"-"+v})==="3-2-1"`,
	"Array.prototype toLocaleString": `[{toLocaleString:function(){return "L"}, toString:function(){return "S"}}].toLocaleString()==="L"`,
	"Array.prototype toString":       `[1,[2,3]].toString()==="1,2,3" && Array.prototype.toString.call({join:function(){return "J"}})==="J"`,
	// 15.5
	"String fromCharCode":                `String.fromCharCode(65,66)==="AB" && String.fromCharCode(0x10041)==="A"`,
	"String.prototype constructor":       `String.prototype.constructor===String && "a".constructor===String`,
	"String.prototype charAt":            `"abc".charAt(1)==="b" && "abc".charAt(5)===""`,
	"String.prototype charCodeAt":        `"abc".charCodeAt(1)===98 && isNaN("abc".charCodeAt(5))`,
	"String.prototype concat":            `"a".concat("b",1)==="ab1"`,
	"String.prototype indexOf":           `"abcabc".indexOf("c")===2 && "abcabc".indexOf("c",3)===5 && "a".indexOf("z")===-1`,
	"String.prototype lastIndexOf":       `"abcabc".lastIndexOf("c")===5 && "abcabc".lastIndexOf("c",4)===2`,
	"String.prototype localeCompare":     `"a".localeCompare("b")<0 && "b".localeCompare("a")>0 && "a".localeCompare("a")===0`,
	"String.prototype match":             `"a1b22".match(/\d+/g).join()==="1,22" && "abc".match(/(b)(c)/)[2]==="c" && "abc".match(/z/)===null`,
	"String.prototype replace":           `"aXbX".replace("X","-")==="a-bX" && "aXbX".replace(/X/g,"-")==="a-b-"`,
	"String.prototype search":            `"abc".search(/c/)===2 && "abc".search(/z/)===-1`,
	"String.prototype slice":             `"abcdef".slice(1,-2)==="bcd" && "abc".slice(2,1)===""`,
	"String.prototype split":             `"a,b,c".split(",").length===3 && "a,b,c".split(",",2).join("|")==="a|b" && "abc".split("").length===3`,
	"String.prototype substr":            `"abcdef".substr(1,2)==="bc" && "abcdef".substr(-2)==="ef"`,
	"String.prototype substring":         `"abcdef".substring(4,1)==="bcd" && "abcdef".substring(-2,2)==="ab"`,
	"String.prototype startsWith":        `"abc".startsWith("ab")===true && "abc".startsWith("bc")===false`,
	"String.prototype toString":          `new String("ab").toString()==="ab" && typeof new String("ab").toString()==="string" && (function(){ try { String.prototype.toString.call(1); return false } catch(e) { return e instanceof TypeError } })()`,
	"String.prototype trim":              `" \t\na b  ".trim()==="a b"`,
	"String.prototype trimLeft":          `"  a  ".trimLeft()==="a  "`,
	"String.prototype trimRight":         `"  a  ".trimRight()==="  a"`,
	"String.prototype trimStart":         `"  a  ".trimStart()==="a  "`,
	"String.prototype trimEnd":           `"  a  ".trimEnd()==="  a"`,
	"String.prototype toLocaleLowerCase": `"AbC".toLocaleLowerCase()==="abc"`,
	"String.prototype toLocaleUpperCase": `"AbC".toLocaleUpperCase()==="ABC"`,
	"String.prototype toLowerCase":       `"AbCÉ".toLowerCase()==="abcé"`,
	"String.prototype toUpperCase":       `"AbCé".toUpperCase()==="ABCÉ"`,
	"String.prototype valueOf":           `new String("ab").valueOf()==="ab" && typeof new String("ab").valueOf()==="string"`,
	// 15.6
	"Boolean.prototype constructor": `Boolean.prototype.constructor===Boolean && true.constructor===Boolean`,
	"Boolean.prototype toString":    `true.toString()==="true" && new Boolean(false).toString()==="false"`,
	"Boolean.prototype valueOf":     `new Boolean(true).valueOf()===true && false.valueOf()===false`,
	// 15.7
	"Number isNaN":                    `Number.isNaN(NaN)===true && Number.isNaN(1)===false && Number.isNaN()===false`,
	"Number.prototype constructor":    `Number.prototype.constructor===Number && (1).constructor===Number`,
	"Number.prototype toExponential":  `(12345).toExponential(2).indexOf("1.23e+")===0 && (0.5).toExponential(0).indexOf("5e-")===0`,
	"Number.prototype toFixed":        `(1.255).toFixed(1)==="1.3" && (12).toFixed(2)==="12.00"`,
	"Number.prototype toPrecision":    `(123.456).toPrecision(4)==="123.5" && (123.456).toPrecision(2).indexOf("1.2e+")===0`,
	"Number.prototype toString":       `(255).toString(16)==="ff" && (1.5).toString()==="1.5" && (8).toString(2)==="1000"`,
	"Number.prototype valueOf":        `new Number(5).valueOf()===5 && typeof new Number(5).valueOf()==="number"`,
	"Number.prototype toLocaleString": `typeof (1234.5).toLocaleString()==="string" && (5).toLocaleString().indexOf("5")>=0`,
	// 15.8
	"Math abs":    `Math.abs(-2)===2 && Math.abs(2)===2`,
	"Math acos":   `Math.acos(1)===0 && Math.abs(Math.acos(0)-Math.PI/2)<1e-15`,
	"Math acosh":  `Math.acosh(1)===0 && Math.abs(Math.acosh(2)-1.3169578969248166)<1e-15`,
	"Math asin":   `Math.asin(0)===0 && Math.abs(Math.asin(1)-Math.PI/2)<1e-15`,
	"Math asinh":  `Math.asinh(0)===0 && Math.abs(Math.asinh(1)-0.881373587019543)<1e-15`,
	"Math atan":   `Math.atan(0)===0 && Math.abs(Math.atan(1)-Math.PI/4)<1e-15`,
	"Math atanh":  `Math.atanh(0)===0 && Math.abs(Math.atanh(0.5)-0.5493061443340548)<1e-15`,
	"Math atan2":  `Math.abs(Math.atan2(1,-1)-3*Math.PI/4)<1e-15 && Math.atan2(0,1)===0`,
	"Math cbrt":   `Math.cbrt(27)===3 && Math.cbrt(-8)===-2`,
	"Math ceil":   `Math.ceil(1.2)===2 && Math.ceil(-1.2)===-1`,
	"Math cos":    `Math.cos(0)===1 && Math.abs(Math.cos(Math.PI)+1)<1e-15`,
	"Math cosh":   `Math.cosh(0)===1 && Math.abs(Math.cosh(1)-1.5430806348152437)<1e-15`,
	"Math exp":    `Math.exp(0)===1 && Math.abs(Math.exp(1)-Math.E)<1e-15`,
	"Math expm1":  `Math.expm1(0)===0 && Math.abs(Math.expm1(1)-(Math.E-1))<1e-15`,
	"Math floor":  `Math.floor(1.8)===1 && Math.floor(-1.2)===-2`,
	"Math log":    `Math.log(1)===0 && Math.abs(Math.log(Math.E)-1)<1e-15 && Math.abs(Math.log(8)-2.0794415416798357)<1e-15`,
	"Math log10":  `Math.log10(1000)===3 && Math.log10(1)===0`,
	"Math log1p":  `Math.log1p(0)===0 && Math.abs(Math.log1p(1)-Math.LN2)<1e-15`,
	"Math log2":   `Math.log2(8)===3 && Math.log2(1)===0`,
	"Math max":    `Math.max(1,5,2)===5 && Math.max()===-Infinity`,
	"Math min":    `Math.min(4,1,2)===1 && Math.min()===Infinity`,
	"Math pow":    `Math.pow(2,10)===1024 && Math.pow(9,0.5)===3`,
	"Math random": `(function(){ for(var i=0;i<50;i++){ var r=Math.random(); if(!(r>=0 && r<1)) return false; } return Math.random()!==Math.random() || Math.random()!==Math.random(); })()`,
	"Math round":  `Math.round(2.5)===3 && Math.round(-2.5)===-2 && Math.round(2.4)===2`,
	"Math sin":    `Math.sin(0)===0 && Math.abs(Math.sin(Math.PI/2)-1)<1e-15`,
	"Math sinh":   `Math.sinh(0)===0 && Math.abs(Math.sinh(1)-1.1752011936438014)<1e-15`,
	"Math sqrt":   `Math.sqrt(16)===4 && isNaN(Math.sqrt(-1))`,
	"Math tan":    `Math.tan(0)===0 && Math.abs(Math.tan(Math.PI/4)-1)<1e-15`,
	"Math tanh":   `Math.tanh(0)===0 && Math.abs(Math.tanh(1)-0.7615941559557649)<1e-15`,
	"Math trunc":  `Math.trunc(1.8)===1 && Math.trunc(-1.8)===-1`,
	// 15.9
	"Date parse":                        `Date.parse("1970-01-01T00:00:01.000Z")===1000 && isNaN(Date.parse("not a date"))`,
	"Date UTC":                          `Date.UTC(1970,0,1,0,0,1)===1000 && Date.UTC(2000,1,29)===951782400000`,
	"Date now":                          `typeof Date.now()==="number" && Date.now()>1500000000000 && Math.abs(Date.now()-new Date().getTime())<5000`,
	"Date.prototype constructor":        `Date.prototype.constructor===Date && new Date(0).constructor===Date`,
	"Date.prototype toString":           `typeof new Date(0).toString()==="string" && new Date(86400000*365).toString().indexOf("1971")>=0 && new Date(NaN).toString()==="Invalid Date"`,
	"Date.prototype toDateString":       `(function(){ var s=new Date(2001,5,15,12,34,56).toDateString(); return s.indexOf("2001")>=0 && s.indexOf("34")<0; })()`,
	"Date.prototype toTimeString":       `(function(){ var s=new Date(2001,5,15,12,34,56).toTimeString(); return s.indexOf("12:34:56")>=0 && s.indexOf("2001")<0; })()`,
	"Date.prototype toISOString":        `new Date(1000).toISOString()==="1970-01-01T00:00:01.000Z"`,
	"Date.prototype toUTCString":        `new Date(1000).toUTCString().indexOf("1970 00:00:01")>=0 && new Date(1000).toUTCString().indexOf("Thu")===0`,
	"Date.prototype toGMTString":        `new Date(1000).toGMTString().indexOf("1970 00:00:01")>=0 && new Date(1000).toGMTString().indexOf("Thu")===0`,
	"Date.prototype getDate":            `new Date(2001,5,15,12,34,56,789).getDate()===15`,
	"Date.prototype setDate":            `(function(){ var d=new Date(2001,5,15,12,34,56,789); var r=d.setDate(20); return r===d.getTime() && d.getDate()===20 && d.getMonth()===5; })()`,
	"Date.prototype getDay":             `new Date(2001,5,15,12).getDay()===5`,
	"Date.prototype getFullYear":        `new Date(2001,5,15,12,34,56,789).getFullYear()===2001`,
	"Date.prototype setFullYear":        `(function(){ var d=new Date(2001,5,15,12); d.setFullYear(1999,0,2); return d.getFullYear()===1999 && d.getMonth()===0 && d.getDate()===2 && d.getHours()===12; })()`,
	"Date.prototype getHours":           `new Date(2001,5,15,12,34,56,789).getHours()===12`,
	"Date.prototype setHours":           `(function(){ var d=new Date(2001,5,15,12,34,56,789); d.setHours(3,4,5,6); return d.getHours()===3 && d.getMinutes()===4 && d.getSeconds()===5 && d.getMilliseconds()===6 && d.getDate()===15; })()`,
	"Date.prototype getMilliseconds":    `new Date(2001,5,15,12,34,56,789).getMilliseconds()===789`,
	"Date.prototype setMilliseconds":    `(function(){ var d=new Date(2001,5,15,12,34,56,789); d.setMilliseconds(5); return d.getMilliseconds()===5 && d.getSeconds()===56; })()`,
	"Date.prototype getMinutes":         `new Date(2001,5,15,12,34,56,789).getMinutes()===34`,
	"Date.prototype setMinutes":         `(function(){ var d=new Date(2001,5,15,12,34,56,789); d.setMinutes(1,2,3); return d.getMinutes()===1 && d.getSeconds()===2 && d.getMilliseconds()===3 && d.getHours()===12; })()`,
	"Date.prototype getMonth":           `new Date(2001,5,15,12,34,56,789).getMonth()===5`,
	"Date.prototype setMonth":           `(function(){ var d=new Date(2001,5,15,12); d.setMonth(2,3); return d.getMonth()===2 && d.getDate()===3 && d.getFullYear()===2001; })()`,
	"Date.prototype getSeconds":         `new Date(2001,5,15,12,34,56,789).getSeconds()===56`,
	"Date.prototype setSeconds":         `(function(){ var d=new Date(2001,5,15,12,34,56,789); d.setSeconds(7,8); return d.getSeconds()===7 && d.getMilliseconds()===8 && d.getMinutes()===34; })()`,
	"Date.prototype getTime":            `new Date(12345).getTime()===12345 && isNaN(new Date(NaN).getTime())`,
	"Date.prototype setTime":            `(function(){ var d=new Date(0); return d.setTime(777)===777 && d.getTime()===777; })()`,
	"Date.prototype getTimezoneOffset":  `(function(){ var d=new Date(2001,5,15,12); return d.getTimezoneOffset()===(Date.UTC(2001,5,15,12)-d.getTime())/-60000; })()`,
	"Date.prototype getUTCDate":         `new Date(Date.UTC(2001,5,15,12,34,56,789)).getUTCDate()===15`,
	"Date.prototype setUTCDate":         `(function(){ var d=new Date(Date.UTC(2001,5,15,12,34,56,789)); d.setUTCDate(20); return d.getTime()===Date.UTC(2001,5,20,12,34,56,789); })()`,
	"Date.prototype getUTCDay":          `new Date(Date.UTC(2001,5,15,12)).getUTCDay()===5`,
	"Date.prototype getUTCFullYear":     `new Date(Date.UTC(2001,5,15,12)).getUTCFullYear()===2001`,
	"Date.prototype setUTCFullYear":     `(function(){ var d=new Date(Date.UTC(2001,5,15,12)); d.setUTCFullYear(1999,0,2); return d.getTime()===Date.UTC(1999,0,2,12); })()`,
	"Date.prototype getUTCHours":        `new Date(Date.UTC(2001,5,15,12,34,56,789)).getUTCHours()===12`,
	"Date.prototype setUTCHours":        `(function(){ var d=new Date(Date.UTC(2001,5,15,12,34,56,789)); d.setUTCHours(3,4,5,6); return d.getTime()===Date.UTC(2001,5,15,3,4,5,6); })()`,
	"Date.prototype getUTCMilliseconds": `new Date(Date.UTC(2001,5,15,12,34,56,789)).getUTCMilliseconds()===789`,
	"Date.prototype setUTCMilliseconds": `(function(){ var d=new Date(Date.UTC(2001,5,15,12,34,56,789)); d.setUTCMilliseconds(5); return d.getTime()===Date.UTC(2001,5,15,12,34,56,5); })()`,
	"Date.prototype getUTCMinutes":      `new Date(Date.UTC(2001,5,15,12,34,56,789)).getUTCMinutes()===34`,
	"Date.prototype setUTCMinutes":      `(function(){ var d=new Date(Date.UTC(2001,5,15,12,34,56,789)); d.setUTCMinutes(1,2,3); return d.getTime()===Date.UTC(2001,5,15,12,1,2,3); })()`,
	"Date.prototype getUTCMonth":        `new Date(Date.UTC(2001,5,15,12)).getUTCMonth()===5`,
	"Date.prototype setUTCMonth":        `(function(){ var d=new Date(Date.UTC(2001,5,15,12)); d.setUTCMonth(2,3); return d.getTime()===Date.UTC(2001,2,3,12); })()`,
	"Date.prototype getUTCSeconds":      `new Date(Date.UTC(2001,5,15,12,34,56,789)).getUTCSeconds()===56`,
	"Date.prototype setUTCSeconds":      `(function(){ var d=new Date(Date.UTC(2001,5,15,12,34,56,789)); d.setUTCSeconds(7,8); return d.getTime()===Date.UTC(2001,5,15,12,34,7,8); })()`,
	"Date.prototype valueOf":            `new Date(12345).valueOf()===12345 && typeof new Date(5).valueOf()==="number"`,
	"Date.prototype getYear":            `new Date(2001,5,15,12).getYear()===101`,
	"Date.prototype setYear":            `(function(){ var d=new Date(2001,5,15,12); d.setYear(99); return d.getFullYear()===1999 && d.getMonth()===5; })()`,
	"Date.prototype toJSON":             `new Date(1000).toJSON()==="1970-01-01T00:00:01.000Z" && new Date(NaN).toJSON()===null`,
	"Date.prototype toLocaleString":     `(function(){ var s=new Date(2001,5,15,12,34,56).toLocaleString(); return typeof s==="string" && s.indexOf("2001")>=0 && s.indexOf("34")>=0; })()`,
	"Date.prototype toLocaleDateString": `(function(){ var s=new Date(2001,5,15,12,34,56).toLocaleDateString(); return typeof s==="string" && s.indexOf("2001")>=0 && s.indexOf("34")<0; })()`,
	"Date.prototype toLocaleTimeString": `(function(){ var s=new Date(2001,5,15,12,34,56).toLocaleTimeString(); return typeof s==="string" && s.indexOf("34")>=0 && s.indexOf("2001")<0; })()`,
	// 15.10
	"RegExp.prototype constructor": `RegExp.prototype.constructor===RegExp && /x/.constructor===RegExp`,
	"RegExp.prototype exec":        `(function(){ var m=/(b)(c)?/.exec("abd"); return m[0]==="b" && m[1]==="b" && m[2]===undefined && m.index===1 && m.input==="abd" && /z/.exec("a")===null; })()`,
	"RegExp.prototype compile":     `(function(){ var r=/a/; return r.compile("b")===undefined && r.test("a"); })()`,
	"RegExp.prototype toString":    `/a+b/gi.toString()==="/a+b/gi"`,
	"RegExp.prototype test":        `/b/.test("abc")===true && /z/.test("abc")===false`,
	// 15.11
	"Error.prototype constructor":          `Error.prototype.constructor===Error`,
	"Error.prototype toString":             `new Error("m").toString()==="Error: m" && Error.prototype.toString.call({name:"N",message:"M"})==="N: M" && Error.prototype.toString.call({})==="Error"`,
	"EvalError.prototype constructor":      `EvalError.prototype.constructor===EvalError`,
	"EvalError.prototype toString":         `new EvalError("m").toString()==="EvalError: m"`,
	"TypeError.prototype constructor":      `TypeError.prototype.constructor===TypeError`,
	"TypeError.prototype toString":         `new TypeError("m").toString()==="TypeError: m"`,
	"RangeError.prototype constructor":     `RangeError.prototype.constructor===RangeError`,
	"RangeError.prototype toString":        `new RangeError("m").toString()==="RangeError: m"`,
	"ReferenceError.prototype constructor": `ReferenceError.prototype.constructor===ReferenceError`,
	"ReferenceError.prototype toString":    `new ReferenceError("m").toString()==="ReferenceError: m"`,
	"SyntaxError.prototype constructor":    `SyntaxError.prototype.constructor===SyntaxError`,
	"SyntaxError.prototype toString":       `new SyntaxError("m").toString()==="SyntaxError: m"`,
	"URIError.prototype constructor":       `URIError.prototype.constructor===URIError`,
	"URIError.prototype toString":          `new URIError("m").toString()==="URIError: m"`,
	// 15.12
	"JSON parse":     `(function(){ var o=JSON.parse('{"a":[1,2,{"b":null}]}'); return o.a[2].b===null && o.a.length===3 && JSON.parse("[1]", function(k,v){ return typeof v==="number"? v+1 : v })[0]===2; })()`,
	"JSON stringify": `JSON.stringify({a:[1,"x",null],b:undefined})==='{"a":[1,"x",null]}' && JSON.stringify([1],null,1)==="[\n 1\n]"`,
}

// genProbes issues, per configuration, one probe per function-valued slot of the reflected runtime, and a
// `noprobe` request (always a disagreement) for a function slot that has no probe.
func genProbes(c *h.Ctx) {
	for _, cfg := range cfgNames {
		d := cfgs[cfg].dump
		if d == nil {
			continue
		}
		for _, oe := range ownerExprs {
			o := oe[0]
			for _, p := range d.Order[o] {
				t := d.Ent[o][p]
				isFn := strings.HasPrefix(t, "fn:")
				if strings.HasPrefix(t, "ref:") {
					target := t[4:strings.LastIndex(t, "|")]
					isFn = d.Own[target]["typeof"] == "function" && target != "Function.prototype"
				}
				if !isFn || (o == "global" && userGlobal(cfg, p)) {
					continue
				}
				js, ok := probes[o+" "+p]
				if !ok {
					c.Add("noprobe "+o+" "+p, "noprobe")
					continue
				}
				c.Add("probe "+cfg+" "+o+" "+p+" "+hex.EncodeToString([]byte(js)), "probe", "cfg:"+cfg)
			}
		}
	}
}
