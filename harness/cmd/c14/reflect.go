package main

// Reflection of a running otto runtime through the public API only: one JavaScript
// program walks the ES5 section 15 owners and returns a table of shape tokens.

import (
	"fmt"
	"sort"
	"strings"

	"github.com/robertkrimen/otto"
	"ottoverif/h"
)

// ownerExprs: owner path -> JavaScript expression (evaluated with `G` bound to the global object)
// (in the order of /repo/tools/gen-jscore/.gen-jscore.yaml, which is also the order of the Lean model table)
var ownerExprs = [][2]string{
	{"Object", "Object"}, {"Object.prototype", "Object.prototype"},
	{"Function", "Function"}, {"Function.prototype", "Function.prototype"},
	{"Array", "Array"}, {"Array.prototype", "Array.prototype"},
	{"String", "String"}, {"String.prototype", "String.prototype"},
	{"Boolean", "Boolean"}, {"Boolean.prototype", "Boolean.prototype"},
	{"Number", "Number"}, {"Number.prototype", "Number.prototype"},
	{"Math", "Math"},
	{"Date", "Date"}, {"Date.prototype", "Date.prototype"},
	{"RegExp", "RegExp"}, {"RegExp.prototype", "RegExp.prototype"},
	{"Error", "Error"}, {"Error.prototype", "Error.prototype"},
	{"EvalError", "EvalError"}, {"EvalError.prototype", "EvalError.prototype"},
	{"TypeError", "TypeError"}, {"TypeError.prototype", "TypeError.prototype"},
	{"RangeError", "RangeError"}, {"RangeError.prototype", "RangeError.prototype"},
	{"ReferenceError", "ReferenceError"}, {"ReferenceError.prototype", "ReferenceError.prototype"},
	{"SyntaxError", "SyntaxError"}, {"SyntaxError.prototype", "SyntaxError.prototype"},
	{"URIError", "URIError"}, {"URIError.prototype", "URIError.prototype"},
	{"JSON", "JSON"},
	{"global", "G"},
}

// The reflector.  Everything it returns is a string without spaces; numbers are returned in a
// side array (`nums`) and turned into bit patterns on the Go side, so that otto's number
// formatting is not part of what is trusted.
//
// entry token:   <value>|<attrs>
//
//	attrs   three characters  w/-  e/-  c/-     (accessor properties: `acc|<e><c>`)
//	value   ref:<owner>                                  the value is (identical to) a section 15 owner
//	        fn:<len>:<attrs of length>:<[[Class]]>:<proto owner>:<x|- extensible>:<P|- own `prototype`>:<n|N `new` refused/accepted>:<number of enumerable own properties>
//	        num:#<index into nums>     str:<hex UTF-16 units>     bool:true|false     undef     null
//	        obj:<[[Class]]>                               some other object
const reflectJS = `
(function(){
  var G = this;
  var owners = [@OWNERS@];
  var nums = [];
  function hex(s){ var r=""; for(var i=0;i<s.length;i++){ var c=s.charCodeAt(i).toString(16); while(c.length<4) c="0"+c; r+=c; } return r; }
  function ownerName(o){ for(var i=0;i<owners.length;i++) if(owners[i][1]===o) return owners[i][0]; return null; }
  function cls(o){ var s=Object.prototype.toString.call(o); return s.substring(8,s.length-1); }
  function attrs(d){ return (d.writable?"w":"-")+(d.enumerable?"e":"-")+(d.configurable?"c":"-"); }
  function protoName(o){ var p=Object.getPrototypeOf(o); if(p===null) return "null"; var n=ownerName(p); return n===null?"?":n; }
  function isObj(v){ return (typeof v==="object" && v!==null) || typeof v==="function"; }
  function enumCount(o){ var ns=Object.getOwnPropertyNames(o), k=0; for(var i=0;i<ns.length;i++){ if(Object.prototype.propertyIsEnumerable.call(o,ns[i])) k++; } return k; }
  function prim(v){
    if(v===undefined) return "undef";
    if(v===null) return "null";
    if(typeof v==="number"){ nums.push(v); return "num:#"+(nums.length-1); }
    if(typeof v==="string") return "str:"+hex(v);
    if(typeof v==="boolean") return "bool:"+v;
    return "other:"+typeof v;
  }
  function value(v){
    if(!isObj(v)) return prim(v);
    var n=ownerName(v);
    if(n!==null) return "ref:"+n;
    if(typeof v==="function"){
      var ld=Object.getOwnPropertyDescriptor(v,"length");
      var len = ld? (("value" in ld)? String(ld.value) : "acc") : "none";
      var la = ld? (("value" in ld)? attrs(ld) : "acc") : "none";
      var nw;
      try { new v(); nw="N"; } catch(e) { var m=String(e.message), suf="is not a constructor"; nw = (e instanceof TypeError && m.length>=suf.length && m.substring(m.length-suf.length)===suf)? "n" : "N"; }
      return "fn:"+len+":"+la+":"+cls(v)+":"+protoName(v)+":"+(Object.isExtensible(v)?"x":"-")+":"+(Object.prototype.hasOwnProperty.call(v,"prototype")?"P":"-")+":"+nw+":"+enumCount(v);
    }
    return "obj:"+cls(v);
  }
  function forin(o){ var r=[]; for(var k in o) r.push(k); return r.length? r.join(",") : "-"; }
  var lines=[];
  for(var i=0;i<owners.length;i++){
    var on=owners[i][0], o=owners[i][1];
    lines.push("own\t"+on+"\ttypeof\t"+typeof o);
    lines.push("own\t"+on+"\tclass\t"+cls(o));
    lines.push("own\t"+on+"\tproto\t"+protoName(o));
    lines.push("own\t"+on+"\text\t"+(Object.isExtensible(o)?"x":"-"));
    var pv="-";
    try {
      var c=cls(o);
      if(c==="Date") pv=prim(Date.prototype.valueOf.call(o));
      else if(c==="Number") pv=prim(Number.prototype.valueOf.call(o));
      else if(c==="String") pv=prim(String.prototype.valueOf.call(o));
      else if(c==="Boolean") pv=prim(Boolean.prototype.valueOf.call(o));
    } catch(e) { pv="throw:"+e.name; }
    lines.push("own\t"+on+"\tprim\t"+pv);
    lines.push("own\t"+on+"\tforin\t"+forin(o));
    var names=Object.getOwnPropertyNames(o);
    lines.push("own\t"+on+"\tnames\t"+(names.length?names.join(","):"-"));
    for(var j=0;j<names.length;j++){
      var d=Object.getOwnPropertyDescriptor(o,names[j]);
      var tok;
      if(!d) tok="nodesc";
      else if("value" in d) tok=value(d.value)+"|"+attrs(d);
      else tok="acc|"+(d.enumerable?"e":"-")+(d.configurable?"c":"-");
      lines.push("ent\t"+on+"\t"+names[j]+"\t"+tok);
    }
  }
  // for-in over ordinary values never shows a built-in
  var subjects = [
    ["emptyobj", {}], ["obj", {a:1,b:2}], ["emptyarr", []], ["arr", [7,8]], ["sparsearr", [,5]], ["str", "ab"], ["strobj", new String("ab")],
    ["num", 5], ["numobj", new Number(5)], ["boolobj", new Boolean(true)], ["fun", function(a,b){}], ["bound", (function(){}).bind(null)],
    ["date", new Date(0)], ["regexp", /x/g], ["error", new Error("m")], ["typeerror", new TypeError("m")],
    ["args", (function(){return arguments;})(1,2)], ["created", Object.create({q:1})], ["creatednull", Object.create(null)],
    ["newfun", new (function(){ this.z=1; })()], ["jsonobj", JSON.parse('{"k":[1]}')], ["caught", (function(){ try { null.x; } catch(e) { return e; } })()]
  ];
  for(var i=0;i<subjects.length;i++) lines.push("forin\t"+subjects[i][0]+"\t\t"+forin(subjects[i][1]));
  // the prototype links the evaluator itself uses for literals, wrappers and thrown errors
  function thrown(f){ try { f(); } catch(e) { return e; } return undefined; }
  var links = [
    ["objlit", {}, "Object.prototype"], ["arrlit", [], "Array.prototype"], ["funlit", function(){}, "Function.prototype"],
    ["relit", /x/, "RegExp.prototype"], ["newobj", new Object(), "Object.prototype"], ["newarr", new Array(3), "Array.prototype"],
    ["newfun", new Function("return 1"), "Function.prototype"], ["newre", new RegExp("x"), "RegExp.prototype"],
    ["newdate", new Date(0), "Date.prototype"], ["newstr", new String("s"), "String.prototype"], ["newnum", new Number(1), "Number.prototype"],
    ["newbool", new Boolean(false), "Boolean.prototype"], ["objstr", Object("s"), "String.prototype"], ["objnum", Object(1), "Number.prototype"],
    ["objbool", Object(true), "Boolean.prototype"], ["newerr", new Error("m"), "Error.prototype"], ["callerr", Error("m"), "Error.prototype"],
    ["newevalerr", new EvalError("m"), "EvalError.prototype"], ["newrangeerr", new RangeError("m"), "RangeError.prototype"],
    ["newreferr", new ReferenceError("m"), "ReferenceError.prototype"], ["newsyntaxerr", new SyntaxError("m"), "SyntaxError.prototype"],
    ["newtypeerr", new TypeError("m"), "TypeError.prototype"], ["newurierr", new URIError("m"), "URIError.prototype"],
    ["throwntype", thrown(function(){ null.x; }), "TypeError.prototype"], ["thrownref", thrown(function(){ undefinedVariable_q; }), "ReferenceError.prototype"],
    ["thrownrange", thrown(function(){ new Array(-1); }), "RangeError.prototype"], ["thrownsyntax", thrown(function(){ eval("("); }), "SyntaxError.prototype"],
    ["thrownuri", thrown(function(){ decodeURI("%"); }), "URIError.prototype"],
    ["args", (function(){ return arguments; })(), "Object.prototype"], ["bound", (function(){}).bind(null), "Function.prototype"],
    ["jsonparsed", JSON.parse("[1]"), "Array.prototype"], ["splitres", "a,b".split(","), "Array.prototype"], ["execres", /a/.exec("a"), "Array.prototype"],
    ["keysres", Object.keys({a:1}), "Array.prototype"], ["mapres", [1].map(function(x){return x;}), "Array.prototype"],
    ["funproto", (function(){}).prototype, "Object.prototype"], ["descres", Object.getOwnPropertyDescriptor({a:1},"a"), "Object.prototype"],
    ["strmethod", "abc".charAt, "Function.prototype"], ["thisglobal", (function(){ return this; })(), "Object.prototype"]
  ];
  for(var i=0;i<links.length;i++){ var v=links[i][1]; lines.push("link\t"+links[i][0]+"\t"+links[i][2]+"\t"+(isObj(v)? protoName(v)+":"+cls(v) : "notobject:"+typeof v)); }
  // behaviour of the special objects the language creates (never touches a built-in)
  function idxlen(o){ var b=o.length; o[5]=1; var a=o.length; return (a===b || (a!==a && b!==b))? "same" : String(a); }
  function setlen(o,v){ try { o.length=v; return "noerror"; } catch(e) { return e.name; } }
  function shrink(o){ o[3]=1; try { o.length=1; } catch(e) {} return (3 in o)? "kept" : "deleted"; }
  function beh(n,v){ lines.push("beh\t"+n+"\t\t"+v); }
  var makers = [
    ["arrlit", function(){ return [1,2]; }], ["newarr", function(){ return new Array(2); }], ["arrcall", function(){ return Array(1,2); }],
    ["splitres", function(){ return "a,b".split(","); }], ["jsonarr", function(){ return JSON.parse("[1,2]"); }],
    ["concatres", function(){ return [1].concat([2]); }]
  ];
  for(var i=0;i<makers.length;i++){
    var n=makers[i][0], mk=makers[i][1];
    beh(n+"_idxlen", idxlen(mk())); beh(n+"_lenneg", setlen(mk(),-1)); beh(n+"_lenfrac", setlen(mk(),1.5));
    beh(n+"_lenbig", setlen(mk(),4294967296)); beh(n+"_shrink", shrink(mk()));
  }
  beh("objlit_idxlen", idxlen({})); beh("objlit_lenneg", setlen({},-1)); beh("objlit_shrink", shrink({}));
  function mkargs(){ return (function(){ return arguments; })(1,2); }
  beh("args_idxlen", idxlen(mkargs())); beh("args_shrink", shrink(mkargs()));
  beh("args_class", cls(mkargs()));
  beh("args_mapped", String((function(a){ arguments[0]=5; return a; })(1)));
  (function(){ var a=mkargs(); var d=Object.getOwnPropertyDescriptor(a,"length"); beh("args_lenattrs", d? attrs(d) : "absent"); })();
  (function(){ var f=function(){ return arguments; }; var a=f(); var d=Object.getOwnPropertyDescriptor(a,"callee"); beh("args_callee", d? ((d.value===f?"self":"other")+"|"+attrs(d)) : "absent"); })();
  (function(){ var s=new String("ab"); var d=Object.getOwnPropertyDescriptor(s,"0"); beh("strobj_idx0", d? (d.value+"|"+attrs(d)) : "absent");
    var l=Object.getOwnPropertyDescriptor(s,"length"); beh("strobj_len", l? (l.value+"|"+attrs(l)) : "absent");
    s[0]="x"; beh("strobj_write", String(s[0])); beh("strobj_names", Object.getOwnPropertyNames(new String("ab")).sort().join(","));
    beh("strobj_idxlen", idxlen(new String("ab"))); })();
  // every constructor through every [[Call]] / [[Construct]] route
  (function(){
    var ctors=[["Object",Object,[]],["Function",Function,["return 1"]],["Array",Array,[1,2]],["String",String,["s"]],["Boolean",Boolean,[true]],
      ["Number",Number,[1]],["Date",Date,[0]],["RegExp",RegExp,["x"]],["Error",Error,["m"]],["EvalError",EvalError,["m"]],["TypeError",TypeError,["m"]],
      ["RangeError",RangeError,["m"]],["ReferenceError",ReferenceError,["m"]],["SyntaxError",SyntaxError,["m"]],["URIError",URIError,["m"]]];
    function on(o){ var n=ownerName(o); return n===null? "?" : n; }
    function shape(r, isErr){
      if(r===null) return "null";
      if(!isObj(r)) return "prim:"+typeof r;
      return on(Object.getPrototypeOf(r))+":"+cls(r)+":"+on(r.constructor)+":"+(isErr? String(r.name)+":"+String(r.message) : "-");
    }
    for(var i=0;i<ctors.length;i++){ (function(n, C, a){
      var isErr = n.length>=5 && n.substring(n.length-5)==="Error";
      function rt(route, f){ var t; try { t=shape(f(), isErr); } catch(e) { t="throws:"+e.name; } lines.push("route\t"+n+"_"+route+"\t\t"+t); }
      rt("call", function(){ return C.apply(undefined, a); });
      rt("plaincall", function(){ return a.length===0? C() : a.length===1? C(a[0]) : C(a[0], a[1]); });
      rt("method", function(){ var o={f:C}; return a.length===0? o.f() : a.length===1? o.f(a[0]) : o.f(a[0], a[1]); });
      rt("dotcall", function(){ return a.length===0? C.call(null) : a.length===1? C.call(null, a[0]) : C.call(null, a[0], a[1]); });
      rt("bound", function(){ var B=C.bind(null); return a.length===0? B() : a.length===1? B(a[0]) : B(a[0], a[1]); });
      rt("boundargs", function(){ return a.length===0? C.bind(null)() : a.length===1? C.bind(null, a[0])() : C.bind(null, a[0])(a[1]); });
      rt("new", function(){ return a.length===0? new C() : a.length===1? new C(a[0]) : new C(a[0], a[1]); });
      rt("boundnew", function(){ var B=C.bind(null); return a.length===0? new B() : a.length===1? new B(a[0]) : new B(a[0], a[1]); });
      rt("boundargsnew", function(){ var B= a.length===0? C.bind(null) : C.bind(null, a[0]); return a.length===2? new B(a[1]) : new B(); });
    })(ctors[i][0], ctors[i][1], ctors[i][2]); }
  })();
  beh("gmt_is_utc", String(Date.prototype.toGMTString===Date.prototype.toUTCString));
  return {lines: lines.join("\n"), nums: nums};
})()
`

// Dump is the reflected shape of one runtime.
type Dump struct {
	Own    map[string]map[string]string // owner -> field -> token   (typeof class proto ext prim forin names)
	Ent    map[string]map[string]string // owner -> property -> token
	Order  map[string][]string          // owner -> own property names in getOwnPropertyNames order
	ForIn  map[string]string            // subject -> keys
	Beh    map[string]string            // behaviour name -> outcome
	Route  map[string]string            // <Ctor>_<route> -> what the constructor created
	Link   map[string]string            // subject -> "<proto owner>:<[[Class]]>"
	Static map[string]string            // hook facts: "bind <owner> <prop>" / "self <owner>" / "order" / "count" / "eval" -> token
}

func reflectSource() string {
	var parts []string
	for _, oe := range ownerExprs {
		parts = append(parts, fmt.Sprintf("[%q,%s]", oe[0], oe[1]))
	}
	return strings.Replace(reflectJS, "@OWNERS@", strings.Join(parts, ","), 1)
}

func reflectRuntime(vm *otto.Otto) (*Dump, error) {
	v, err := vm.Run(reflectSource())
	if err != nil {
		return nil, err
	}
	res := v.Object()
	lv, _ := res.Get("lines")
	nv, _ := res.Get("nums")
	nums := nv.Object()
	d := &Dump{Own: map[string]map[string]string{}, Ent: map[string]map[string]string{}, Order: map[string][]string{}, ForIn: map[string]string{}, Link: map[string]string{}, Beh: map[string]string{}, Route: map[string]string{}, Static: map[string]string{}}
	fix := func(tok string) string {
		// replace num:#k by num:<bits>
		i := strings.Index(tok, "num:#")
		if i < 0 {
			return tok
		}
		j := i + 5
		k := j
		for k < len(tok) && tok[k] >= '0' && tok[k] <= '9' {
			k++
		}
		x, _ := nums.Get(tok[j:k])
		f, _ := x.ToFloat()
		return tok[:i] + "num:" + h.F64Hex(f) + tok[k:]
	}
	for _, l := range strings.Split(lv.String(), "\n") {
		f := strings.Split(l, "\t")
		if len(f) != 4 {
			return nil, fmt.Errorf("bad reflector line %q", l)
		}
		for i := range f {
			f[i] = strings.ReplaceAll(f[i], " ", "_")
		}
		switch f[0] {
		case "own":
			if d.Own[f[1]] == nil {
				d.Own[f[1]] = map[string]string{}
			}
			d.Own[f[1]][f[2]] = fix(f[3])
		case "ent":
			if d.Ent[f[1]] == nil {
				d.Ent[f[1]] = map[string]string{}
			}
			d.Ent[f[1]][f[2]] = fix(f[3])
			d.Order[f[1]] = append(d.Order[f[1]], f[2])
		case "forin":
			d.ForIn[f[1]] = f[3]
		case "link":
			d.Link[f[1]] = f[3]
		case "beh":
			d.Beh[f[1]] = f[3]
		case "route":
			d.Route[f[1]] = f[3]
		}
	}
	// facts read from the Go structures (hook VerifC14Static, build tag verif)
	var orderBad []string
	for _, l := range otto.VerifC14Static(vm) {
		f := strings.Split(strings.ReplaceAll(l, " ", "_"), "\t")
		switch f[0] {
		case "bind": // owner prop mode name call construct
			d.Static["bind "+f[1]+" "+f[2]] = strings.Join(normClosures(f[3:]), ":")
		case "self":
			d.Static["self "+f[1]] = strings.Join(normClosures(f[2:]), ":")
		case "kind": // owner prop class objectClass valueType
			if len(f) == 6 {
				d.Static["kind "+f[1]+" "+f[2]] = f[3] + ":" + f[4] + ":" + strings.TrimPrefix(f[5], "otto.")
			}
		case "order":
			orderBad = append(orderBad, f[1])
		case "count":
			d.Static["count"] = f[1]
		case "eval":
			d.Static["eval"] = f[1]
		}
	}
	if len(orderBad) == 0 {
		d.Static["order"] = "consistent"
	} else {
		if len(orderBad) > 5 {
			orderBad = orderBad[:5]
		}
		d.Static["order"] = "inconsistent:" + strings.Join(orderBad, ";")
	}
	return d, nil
}

// normClosures replaces compiler-chosen names of function literals (init.func1, glob..func1, …) by "closure".
func normClosures(fs []string) []string {
	out := append([]string(nil), fs...)
	for i, f := range out {
		if strings.Contains(f, ".func") {
			out[i] = "closure"
		}
	}
	return out
}

func sortedKeys(m map[string]string) []string {
	ks := make([]string, 0, len(m))
	for k := range m {
		ks = append(ks, k)
	}
	sort.Strings(ks)
	return ks
}
