// Command c10 is the correspondence harness binary for property C10.
package main

import "ottoverif/h"

func main() { h.Main("C10") }
