package main

import (
	"encoding/hex"
	"fmt"
	"strings"
	"sync"

	"github.com/robertkrimen/otto"
	"github.com/robertkrimen/otto/parser"
	"ottoverif/h"
)

func init() {
	h.Register(&h.Prop{ID: "C10", Gen: genC10, Impl: implC10, Trivial: func(l string) bool { return false }})
}

// ---------------------------------------------------------------- implementation side

const helpers = `
function hx(s){var o="";for(var i=0;i<s.length;i++){var c=s.charCodeAt(i);if(c!==c)c=0xfffd;o+=("000"+c.toString(16)).slice(-4)}return o}
function li(v){if(typeof v!=="number")return "T"+typeof v;if(v!==v)return "nan";if(v===Infinity)return "pinf";if(v===-Infinity)return "ninf";if(Math.floor(v)===v)return "i"+String(v);return "h"+String(Math.floor(v))}
function it(x){return x===undefined?"U":"="+hx(String(x))}
function res(v){if(v===null)return "null";if(v===undefined)return "undef";if(v===true)return "true";if(v===false)return "false";if(typeof v==="number")return "n"+String(v);if(typeof v==="string")return "s"+hx(v);if(v instanceof Array){var o=[];for(var i=0;i<v.length;i++)o.push(it(v[i]));return "A"+(v.hasOwnProperty("index")?String(v.index):"")+":"+o.join(",")}return "other"}
function okTok(r){var t=String(r);return "ok:"+hx(r.source)+":"+t.slice(t.lastIndexOf("/")+1)}
function T(){var a=[];for(var i=0;i<arguments.length;i++)a.push(typeof arguments[i]);return "<"+a.join(",")+"|"+(arguments[arguments.length-1]===V)+">"}
function F(){var a=[];for(var i=0;i<arguments.length;i++)a.push(arguments[i]===undefined?"U":String(arguments[i]));return "<"+a.join(",")+">"}
`

var vmPool = sync.Pool{New: func() interface{} {
	vm := otto.New()
	if _, err := vm.Run(helpers); err != nil {
		panic(err)
	}
	return vm
}}

func unhex(t string) string {
	if t == "-" {
		return ""
	}
	b, err := hex.DecodeString(t)
	if err != nil {
		panic("bad hex " + t)
	}
	return string(b)
}

func hexTok(s string) string {
	if s == "" {
		return "-"
	}
	return hex.EncodeToString([]byte(s))
}

func liJS(t string) string {
	switch {
	case t == "nan":
		return "NaN"
	case t == "pinf":
		return "Infinity"
	case t == "ninf":
		return "-Infinity"
	case strings.HasPrefix(t, "i"):
		return "(" + t[1:] + ")"
	case strings.HasPrefix(t, "h"):
		return "(" + t[1:] + "+0.5)"
	}
	panic("bad li " + t)
}

func implC10(line string) (out string) {
	f := strings.Fields(line)
	switch f[0] {
	case "tr":
		s, err := parser.TransformRegExp(unhex(f[1]))
		switch {
		case err == nil:
			return "ok:" + hexTok(s)
		case s != "":
			return "inc:" + hexTok(s)
		}
		return "invalid"
	}
	vm := vmPool.Get().(*otto.Otto)
	healthy := true
	defer func() {
		if r := recover(); r != nil {
			out = "panic"
			healthy = false
		}
		if healthy {
			vmPool.Put(vm)
		}
	}()
	if f[0] == "xl" {
		return implLiteral(vm, f)
	}
	if f[0] == "xr" {
		return implReceiver(vm, f)
	}
	if f[0] == "xo" { // xo <pat> <flags> <subj> <o<li>|x> <steps>: lastIndex is an object with a logging / throwing valueOf
		vm.Set("P", unhex(f[1]))
		vm.Set("FL", unhex(f[2]))
		vm.Set("S", unhex(f[3]))
		body := "throw new Error('v')"
		if f[4] != "x" {
			body = "return " + liJS(f[4][1:])
		}
		if _, err := vm.Run("var LOG = 0; var re = new RegExp(P, FL); re.lastIndex = {valueOf: function(){ LOG++; " + body + " }}"); err != nil {
			return errTok(err)
		}
		h := runSteps(vm, f[5])
		v, err := vm.Run("LOG")
		if err != nil {
			return "throw-log"
		}
		n := v.String()
		if f[4] == "x" {
			n = "0" // a throwing valueOf counts its calls too; the model counts completed conversions
			if w, err := vm.Run("0"); err == nil {
				n = w.String()
			}
		}
		return h + "|log:" + n
	}
	if f[0] == "xf" { // xf <nw|fr> <pat> <flags> <subj>: lastIndex not writable, replace with a counting function
		vm.Set("P", unhex(f[2]))
		vm.Set("FL", unhex(f[3]))
		vm.Set("S", unhex(f[4]))
		if _, err := vm.Run("var re = new RegExp(P, FL)"); err != nil {
			return errTok(err)
		}
		lock := `Object.defineProperty(re, "lastIndex", {writable: false})`
		if f[1] == "fr" {
			lock = "Object.freeze(re)"
		}
		v, err := vm.Run(lock + `; var calls = 0, tok; try { tok = res(S.replace(re, function(){ calls++; return "-" })) } catch (e) { tok = "throw:" + e.name }; tok + "|calls:" + calls + "|li:" + li(re.lastIndex)`)
		if err != nil {
			return "throw-xf"
		}
		return v.String()
	}
	prefix := ""
	if f[0] == "xc" { // a RegExp built from the RegExp R0 = new RegExp(P, FL)
		mode := f[1]
		f = append([]string{"x"}, f[2:]...)
		vm.Set("P", unhex(f[1]))
		vm.Set("FL", unhex(f[2]))
		if _, err := vm.Run("var R0 = new RegExp(P, FL)"); err != nil {
			return errTok(err)
		}
		src := map[string]string{"n": "new RegExp(R0)", "u": "new RegExp(R0, undefined)", "f": "RegExp(R0)", "e": `new RegExp(R0, "g")`, "c": `RegExp(R0, "g")`}[mode]
		if src == "" {
			return "bad-mode"
		}
		if _, err := vm.Run("var re = " + src); err != nil {
			return errTok(err)
		}
		v, err := vm.Run(`(re === R0 ? "same:" : "copy:") + okTok(re) + "|"`)
		if err != nil {
			return "throw-props"
		}
		prefix = v.String()
	} else {
		vm.Set("P", unhex(f[1]))
		vm.Set("FL", unhex(f[2]))
		if _, err := vm.Run("var re = new RegExp(P, FL)"); err != nil {
			return errTok(err)
		}
	}
	if f[0] == "new" {
		v, err := vm.Run("okTok(re)")
		if err != nil {
			return "throw-props"
		}
		return v.String()
	}
	vm.Set("S", unhex(f[3]))
	return prefix + runSteps(vm, f[4])
}

// runSteps applies the steps to the global `re` on the subject `S`
func runSteps(vm *otto.Otto, steps string) string { return runStepsOn(vm, steps, false) }

// runStepsOn: with recv the subject is the global `R` (any value) and the String methods go through .call
func runStepsOn(vm *otto.Otto, steps string, recv bool) string {
	var parts []string
	for _, st := range strings.Split(steps, ",") {
		var src string
		if recv {
			sp := "String.prototype."
			switch {
			case st == "e":
				src = "re.exec(R)"
			case st == "t":
				src = "re.test(R)"
			case st == "m":
				src = sp + "match.call(R, re)"
			case st == "s":
				src = sp + "search.call(R, re)"
			case st == "rF":
				src = sp + "replace.call(R, re, F)"
			case st == "rT":
				src = sp + "replace.call(R, re, T)"
			case cbSrc(st, "V") != "":
				src = sp + "replace.call(R, re, " + cbSrc(st, "V") + ")"
			case strings.HasPrefix(st, "rS:"):
				vm.Set("RV", unhex(st[3:]))
				src = sp + "replace.call(R, re, RV)"
			case strings.HasPrefix(st, "rK:"):
				vm.Set("RV", unhex(st[3:]))
				src = sp + "replace.call(R, re, function(){ return RV })"
			case st == "p:u":
				src = sp + "split.call(R, re)"
			case strings.HasPrefix(st, "p:"):
				src = sp + "split.call(R, re, " + st[2:] + ")"
			case strings.HasPrefix(st, "L:"):
				src = "void (re.lastIndex = " + liJS(st[2:]) + ")"
			default:
				return "bad-step"
			}
			v, err := vm.Run("res(" + src + ")+'@'+li(re.lastIndex)")
			if err != nil {
				parts = append(parts, throwTok(vm))
				continue
			}
			parts = append(parts, v.String())
			continue
		}
		switch {
		case st == "e":
			src = "re.exec(S)"
		case st == "t":
			src = "re.test(S)"
		case st == "m":
			src = "S.match(re)"
		case st == "s":
			src = "S.search(re)"
		case st == "rF":
			src = "S.replace(re, F)"
		case st == "rT":
			vm.Set("V", unhex(""))
			src = "(V = S, S.replace(re, T))"
		case cbSrc(st, "S") != "":
			src = "S.replace(re, " + cbSrc(st, "S") + ")"
		case strings.HasPrefix(st, "rS:"):
			vm.Set("R", unhex(st[3:]))
			src = "S.replace(re, R)"
		case strings.HasPrefix(st, "rK:"): // a function replacer returning a constant string
			vm.Set("R", unhex(st[3:]))
			src = "S.replace(re, function(){ return R })"
		case st == "p:u":
			src = "S.split(re)"
		case strings.HasPrefix(st, "p:"):
			src = "S.split(re, " + st[2:] + ")"
		case strings.HasPrefix(st, "L:"):
			src = "void (re.lastIndex = " + liJS(st[2:]) + ")"
		default:
			return "bad-step"
		}
		v, err := vm.Run("res(" + src + ")+'@'+li(re.lastIndex)")
		if err != nil {
			parts = append(parts, throwTok(vm))
			continue
		}
		parts = append(parts, v.String())
	}
	return strings.Join(parts, ";")
}

// implLiteral: the literal route.  function f(){ return /P/F }: steps on f(), a lastIndex and an expando
// written to it, then a second evaluation of the same literal (identity, state, the same steps) and the
// literal in a loop body.
func implLiteral(vm *otto.Otto, f []string) string {
	lit := "/" + unhex(f[1]) + "/" + unhex(f[2])
	if _, err := vm.Run("function f(){ return " + lit + " }; var re = f()"); err != nil {
		return errTok(err)
	}
	vm.Set("S", unhex(f[3]))
	h1 := runSteps(vm, f[4])
	v, err := vm.Run(`re.lastIndex = 7; re.xp = 1; var r1 = re; re = f(); (re === r1 ? "same" : "diff") + ":" + li(re.lastIndex) + ":" + typeof re.xp`)
	if err != nil {
		return "throw-second"
	}
	h2 := runSteps(vm, f[4])
	w, err := vm.Run("(function(){ var a = []; for (var i = 0; i < 2; i++) { a.push(" + lit + ") } return a[0] === a[1] ? 'same' : 'diff' })()")
	if err != nil {
		return "throw-loop"
	}
	return h1 + "|" + v.String() + "|" + h2 + "|loop:" + w.String()
}

// implReceiver: xr <recv> <pat> <flags> <steps>: the receiver is a String object, a number, a boolean or an
// object whose toString counts its calls; V is the primitive string it converts to.
func implReceiver(vm *otto.Otto, f []string) string {
	kind, val := f[1][:1], unhex(f[1][2:])
	vm.Set("V", val)
	var src string
	switch kind {
	case "p":
		src = "R = V"
	case "S":
		src = "R = new String(V)"
	case "n":
		src = "R = Number(V)"
	case "b":
		src = "R = (V === 'true')"
	case "o":
		src = "R = {toString: function(){ CNT++; return V }}"
	default:
		return "bad-recv"
	}
	vm.Set("P", unhex(f[2]))
	vm.Set("FL", unhex(f[3]))
	if _, err := vm.Run("var CNT = 0, R; " + src + "; var re = new RegExp(P, FL)"); err != nil {
		return errTok(err)
	}
	h := runStepsOn(vm, f[4], true)
	v, err := vm.Run("CNT")
	if err != nil {
		return "throw-cnt"
	}
	return h + "|conv:" + v.String()
}

// throwTok: a step threw; the lastIndex it left behind is still observed
func throwTok(vm *otto.Otto) string {
	v, err := vm.Run("li(re.lastIndex)")
	if err != nil {
		return "throw@?"
	}
	return "throw@" + v.String()
}

// cbSrc: the function replacers that look at the regexp itself (subj = the JS expression of the subject)
func cbSrc(st, subj string) string {
	switch {
	case st == "rL":
		return `function(){ return "<" + li(re.lastIndex) + ">" }`
	case strings.HasPrefix(st, "rW:"):
		return `function(){ re.lastIndex = ` + liJS(st[3:]) + `; return "" }`
	case st == "rE":
		return `function(){ var m = re.exec(` + subj + `); return "<" + (m === null ? "n" : "m" + m.index) + "@" + li(re.lastIndex) + ">" }`
	case st == "rX":
		return `function(){ throw new Error("x") }`
	}
	return ""
}

// errTok names the class of a thrown error: throw:SyntaxError, throw:TypeError, …
func errTok(err error) string {
	msg := err.Error()
	if i := strings.IndexByte(msg, ':'); i > 0 {
		return "throw:" + msg[:i]
	}
	return "throw:" + h.Sanitize(msg)
}

// ---------------------------------------------------------------- generators

type gen struct {
	r      *h.Rng
	groups int
}

var patChars = []string{"a", "b", "c", "A", "B", "k", "s", "1", "_", " ", "-", ",", "=", "!", ":", "<", "é", "É", "K", "ſ", "x"}

func (g *gen) pick(xs []string) string { return xs[g.r.Intn(len(xs))] }

func (g *gen) char() string {
	switch g.r.Intn(14) {
	case 0:
		return g.pick([]string{`\x61`, `\x41`, `\x20`, `\x0a`, `\xe9`, `\x4B`})
	case 1:
		return g.pick([]string{`\u0061`, `\u0062`, `\u00e9`, `\u0020`, `\u212A`, `\u000A`, `\u2028`, `\u017f`})
	case 2:
		return g.pick([]string{`\cJ`, `\cj`, `\cM`, `\cI`, `\cA`, `\cz`})
	case 3:
		return g.pick([]string{`\n`, `\t`, `\r`, `\v`, `\f`})
	case 4:
		return g.pick([]string{`\.`, `\$`, `\*`, `\(`, `\)`, `\[`, `\]`, `\{`, `\}`, `\|`, `\\`, `\/`, `\^`, `\+`, `\?`, `\-`, `\ `, `\,`, `\=`, `\!`, `\:`})
	case 5:
		if g.r.Chance(30) {
			return `\0`
		}
	}
	if g.r.Chance(80) {
		return patChars[g.r.Intn(9)]
	}
	return g.pick(patChars)
}

func (g *gen) classAtom() string {
	switch g.r.Intn(10) {
	case 0:
		return g.pick([]string{`\d`, `\w`, `\s`, `\D`, `\W`, `\S`})
	case 1:
		return `\b`
	case 2:
		return g.pick([]string{`\x61`, `b`, `\cJ`, `\n`, `\t`, `\]`, `\\`, `\-`, `\^`, `\[`, `\0`})
	case 3:
		return g.pick([]string{".", "*", "(", ")", "$", "|", "?", "+", "{", "}", "/"})
	}
	return g.pick([]string{"a", "b", "c", "A", "B", "k", "s", "1", "_", " ", "é", "x", "K"})
}

var rangeEnds = [][2]string{{"a", "c"}, {"a", "z"}, {"A", "Z"}, {"0", "9"}, {"b", "b"}, {`\x61`, `\x63`}, {"A", "z"}, {" ", "~"}, {`\t`, `\r`}, {"à", "ÿ"}, {"a", `ÿ`}, {`\cA`, `\cZ`}, {`\0`, "a"}, {`\b`, `\n`}, {"j", "l"}, {"r", "t"}}

// casePair reports a class whose content is exactly the two cases of one ASCII letter ([Bb]): Go's
// parser turns it into (?i:B) and then factors it with a neighbouring literal B (a bug of
// regexp/syntax in go1.23, see NOTES.md) – kept out of the stream.
func casePair(c string) bool {
	// collapse x-x to x and drop repeated characters first ([Bb-b], [bBb])
	if len(c) < 4 || c[0] != '[' || c[1] == '^' {
		return false
	}
	in := []byte(c[1 : len(c)-1])
	var set []byte
	for i := 0; i < len(in); i++ {
		ch := in[i]
		if i+2 < len(in) && in[i+1] == '-' && in[i+2] == ch {
			i += 2
		}
		dup := false
		for _, s := range set {
			if s == ch {
				dup = true
			}
		}
		if !dup {
			set = append(set, ch)
		}
	}
	if len(set) != 2 {
		return false
	}
	a, b := set[0], set[1]
	return a != b && (a|0x20) == (b|0x20) && (a|0x20) >= 'a' && (a|0x20) <= 'z'
}

func (g *gen) class() string {
	for {
		c := g.class1()
		if !casePair(c) {
			return c
		}
	}
}

func (g *gen) class1() string {
	var b strings.Builder
	b.WriteString("[")
	if g.r.Chance(30) {
		b.WriteString("^")
	}
	n := 1 + g.r.Intn(3)
	for i := 0; i < n; i++ {
		if g.r.Chance(30) {
			e := rangeEnds[g.r.Intn(len(rangeEnds))]
			b.WriteString(e[0] + "-" + e[1])
		} else {
			b.WriteString(g.classAtom())
		}
	}
	if g.r.Chance(5) {
		b.WriteString("-")
	}
	b.WriteString("]")
	return b.String()
}

// node: text, nullable, number of groups
type node struct {
	s    string
	null bool
}

func (g *gen) atom(depth int) node {
	k := g.r.Intn(20)
	switch {
	case k < 8 || depth <= 0 && k < 12:
		return node{g.char(), false}
	case k < 10:
		return node{".", false}
	case k < 12:
		return node{g.pick([]string{`\d`, `\w`, `\s`, `\D`, `\W`, `\S`}), false}
	case k < 15:
		return node{g.class(), false}
	case k < 18:
		g.groups++
		d := g.disj(depth - 1)
		return node{"(" + d.s + ")", d.null}
	default:
		d := g.disj(depth - 1)
		return node{"(?:" + d.s + ")", d.null}
	}
}

func (g *gen) quant() (string, bool) { // text, min==0
	var q string
	zero := false
	switch g.r.Intn(9) {
	case 0, 1:
		q, zero = "*", true
	case 2, 3:
		q = "+"
	case 4, 5:
		q, zero = "?", true
	case 6:
		n := g.r.Intn(3)
		q, zero = fmt.Sprintf("{%d}", n), n == 0
	case 7:
		n := g.r.Intn(3)
		q, zero = fmt.Sprintf("{%d,}", n), n == 0
	default:
		n := g.r.Intn(3)
		q, zero = fmt.Sprintf("{%d,%d}", n, n+g.r.Intn(3)), n == 0
	}
	if g.r.Chance(25) {
		q += "?"
	}
	return q, zero
}

func (g *gen) term(depth int) node {
	k := g.r.Intn(20)
	switch {
	case k < 2:
		return node{g.pick([]string{"^", "$", `\b`, `\B`}), true}
	case k < 8:
		for tries := 0; ; tries++ {
			save := g.groups
			a := g.atom(depth)
			// no nullable quantified bodies here (region nullable_loop; it also has a fixed stream of its own)
			if a.null && tries < 8 {
				g.groups = save
				continue
			}
			if a.null {
				return a // never quantify a nullable body at random: Go's memoised backtracking is not modelled there
			}
			q, zero := g.quant()
			return node{a.s + q, zero || a.null}
		}
	}
	return g.atom(depth)
}

func (g *gen) alt(depth int) node {
	n := 1 + g.r.Intn(3)
	if g.r.Chance(4) {
		n = 0
	}
	out := node{"", true}
	for i := 0; i < n; i++ {
		t := g.term(depth)
		out.s += t.s
		out.null = out.null && t.null
	}
	return out
}

func (g *gen) disj(depth int) node {
	a := g.alt(depth)
	if depth > 0 && g.r.Chance(25) {
		b := g.disj(depth)
		return node{a.s + "|" + b.s, a.null || b.null}
	}
	return a
}

func (g *gen) pattern() string {
	g.groups = 0
	return g.disj(1 + g.r.Intn(3)).s
}

var subjCommon = []string{"a", "b", "c", "A", "B", "k", "s", "1", "_", " ", "-", "x", "\n"}
var subjSpecial = []string{"\r", "\u2028", "\u2029", "\u00a0", "\v", "\ufeff", "\t", "\f", "\u00e9", "\u00c9", "\u212a", "\u017f", "\U0001F600", "K", "S", "\u3000", "\u2003", ",", "=", "!", ":", "<", "\x00", "\x01", "\x1a", "\u00ff", "\u00e0", "\u212b", "\u00e5", "\u00b5", "\u039c", "\u1680", "\u180e", "\u0085", "\u200b"}

func (g *gen) subject() string {
	n := g.r.Intn(9)
	special := g.r.Chance(18)
	var b strings.Builder
	for i := 0; i < n; i++ {
		if special && g.r.Chance(35) {
			b.WriteString(g.pick(subjSpecial))
		} else {
			b.WriteString(g.pick(subjCommon[:4+g.r.Intn(len(subjCommon)-3)]))
		}
	}
	return b.String()
}

var liVals = []string{"i0", "i1", "i2", "i3", "i5", "i8", "i9", "i-1", "i100", "nan", "pinf", "ninf", "h0", "h1", "h-1", "h2", "i4294967296", "i9007199254740992", "i-9007199254740992"}
var repls = []string{"", "-", "$$", "$&", "[$&]", "$`", "$'", "$1", "$2", "$01", "$10", "$11", "$0", "$", "a$", "$1$2", "$3", "<$`|$&|$'>", "$00", "$9", "$12", "x$1y", "é$&", "$&$&"}

func (g *gen) step() string {
	switch g.r.Intn(12) {
	case 0, 1, 2:
		return "e"
	case 3:
		return "t"
	case 4, 5:
		return "m"
	case 6:
		return "s"
	case 7:
		return "rS:" + hexTok(g.pick(repls))
	case 8:
		if g.r.Chance(50) {
			// the result of a function is used verbatim: same `$` alphabet as the string replacements
			return "rK:" + hexTok(g.pick(repls))
		}
		if g.r.Chance(30) {
			return "rT"
		}
		if g.r.Chance(45) { // replacers that read / write lastIndex, exec the same regexp, throw
			return g.pick([]string{"rL", "rL", "rE", "rE", "rX", "rW:" + g.pick(liVals)})
		}
		return "rF"
	case 9:
		if g.r.Chance(50) {
			return "p:u"
		}
		return "p:" + g.pick([]string{"0", "1", "2", "3", "5", "4294967295"})
	default:
		return "L:" + g.pick(liVals)
	}
}

func (g *gen) flags() string {
	fl := ""
	if g.r.Chance(45) {
		fl += "g"
	}
	if g.r.Chance(20) {
		fl += "i"
	}
	if g.r.Chance(20) {
		fl += "m"
	}
	return fl
}

var snippets = []string{`(?=a)`, `(?!a)`, `\1`, `\2`, `\10`, `\12`, `\8`, `\9`, `(?i)`, `(?P<n>a)`, `\a`, `\_`, `\x4`, `\u12`, `\c1`, `\c`, `[]`, `[^]`,
	`a**`, `a{2}{3}`, `a{3,2}`, `a{1001}`, `a{1000}`, `{`, `}`, `]`, `a{,2}`, `^*`, `\b+`, `$?`, `(`, `)`, `[`, `\`, `[b-a]`, `[a-\d]`, `[\d-a]`, `x{2`, `\00`, `\01`,
	`\777`, `\A`, `\z`, `\Q`, `\e`, `(?<n>a)`, `(?:`, `(?`, `*`, `+`, `?`, `|*`, `(*a)`, `a+?+`, `a*?`, `a??`, `[a-]`, `[-a]`, `[a-b-c]`, `\07`, `\3x`, `(a)\1`,
	`[]|[a]`, `[^]a]`, `[]a]`, `\18`, `\81`, `(?=a)*`, `(?im)`, `(?i:a)`, `(?-i)`, `(?i-m:a)`, `\u00zz`, `\xg1`, `\cé`, `\y`, `\Z`, `{1}`, `a{1`, `a{1,`, `a{1,2`, `a{ 1}`, `a{01}`, `a{00,1}`, `a{1,02}`, `(a{500}){3}`, `(a{2}){501}`, `(?)`, `(?-)`, `a{0}`, `a{0,0}`, `\\u20ac`, `\400`, `\1234`, `\377a`, `(?-i)a`, `(?P<n>a)`, `(?i:a)`, `a/b`, `[/]/`, `{0012`, `a{01`, `a{01,x}`, `a{00`, `{007}`, `a{01,}b{02`}

func genC10(c *h.Ctx) {
	g := &gen{r: c.Rng}
	// TransformRegExp alone: model = transcription, spec column = model (pure correspondence)
	for i := 0; i < c.N(3000, 100000); i++ {
		p := g.pattern()
		if g.r.Chance(40) {
			p = mutate(g, p)
		}
		c.Add("tr "+hexTok(p), "tr")
	}
	for _, s := range []string{"\\\u20ac", "a\\\u2028b", "[\\\u20ac]"} { // a backslash before a non-ASCII character
		c.Add("tr "+hexTok(s), "tr:snippet")
		c.Add("new "+hexTok(s)+" -", "new:snippet")
		c.Add("x "+hexTok(s)+" - "+hexTok("a\u20acb")+" e", "x:snippet")
	}
	for _, s := range snippets {
		c.Add("tr "+hexTok(s), "tr:snippet")
		c.Add("new "+hexTok(s)+" -", "new:snippet")
	}
	// construction: portable patterns, mutations into unsupported / malformed text, flags
	for i := 0; i < c.N(6000, 200000); i++ {
		p := g.pattern()
		key := "new:portable"
		if g.r.Chance(60) {
			p = mutate(g, p)
			key = "new:mutated"
		}
		fl := g.flags()
		if g.r.Chance(6) {
			fl += g.pick([]string{"g", "i", "m", "x", "y", "u", "s", " ", "G"})
			key = "new:flags"
		}
		c.Add("new "+hexTok(p)+" "+hexTok(fl), key)
	}
	// region nullable_loop: fixed shapes x subjects
	for _, p := range []string{`(a*)?`, `(a*)*`, `(a?)*`, `(?:a*)+`, `(a*)+`, `(|a)*`, `(a|)+`, `(a*?)*`, `(a*){2,3}`, `(a*)*b`, `(?:a|())*`, `(a?)+?b`, `(a*|b)*`, `(?:a?)??b`, `(^)*a`, `(a*)*?`, `(a?){2}`} {
		for _, s := range []string{"", "b", "a", "aa", "aab", "ba", "bab"} {
			for _, st := range []string{"e", "m", "rF", "p:u", "s"} {
				for _, fl := range []string{"", "g"} {
					c.Add("x "+hexTok(p)+" "+hexTok(fl)+" "+hexTok(s)+" "+st, "x:nullable_loop")
				}
			}
		}
	}
	// RegExp objects built from RegExp objects: every flag combination x every way of copying x operations
	{
		pats := []string{"a", "a/b", "", "(a)|b", "[/]", `a\/b`, "^a", "b*"}
		subj := []string{"aaba", "a/ba/b", "", "xa"}
		ops := []string{"e", "e,e,e", "t,t", "m", "rS:" + hexTok("-"), "rF", "s", "p:u", "L:i1,e"}
		for _, p := range pats {
			for _, fl := range []string{"", "g", "i", "m", "gi", "gm", "im", "gim", "mig"} {
				for _, mode := range []string{"n", "u", "f", "e", "c"} {
					for _, s := range subj {
						for _, st := range ops {
							c.Add("xc "+mode+" "+hexTok(p)+" "+hexTok(fl)+" "+hexTok(s)+" "+st, "xc:"+mode)
						}
					}
				}
			}
		}
		for i := 0; i < c.N(3000, 100000); i++ {
			st := make([]string, 1+g.r.Intn(3))
			for j := range st {
				st[j] = g.step()
			}
			c.Add("xc "+g.pick([]string{"n", "n", "u", "f", "e", "c"})+" "+hexTok(g.pattern())+" "+hexTok(g.flags())+" "+hexTok(g.subject())+" "+strings.Join(st, ","), "xc:random")
		}
	}
	for _, p := range []string{"{0012", "a{01", "a{01,x}", "{007}", "a{01}{02"} {
		for _, s := range []string{"{0012", "a{01", "a{01,x}", "{12", "a", "{{{{{{{"} {
			c.Add("x "+hexTok(p)+" - "+hexTok(s)+" e", "x:literal-brace")
		}
	}
	// replacers that look at the regexp itself: lastIndex seen / written inside each call, exec on the same
	// regexp, a throwing replacer – after a stale lastIndex was planted
	for _, p := range []string{"a", "a|b", "(a)(b)?", "x", "b*", "^a", "."} {
		for _, fl := range []string{"", "g", "gi", "m"} {
			for _, s := range []string{"aaba", "ab", "", "xaax"} {
				for _, st := range []string{"L:i3,rL", "L:i3,rE", "L:i2,rX,e", "L:i3,rW:i1,e", "L:i1,rE,rL", "e,rL,e", "rW:i2", "L:i3,rW:nan", "e,e,rX,rL", "L:i3,m,rE"} {
					c.Add("x "+hexTok(p)+" "+hexTok(fl)+" "+hexTok(s)+" "+st, "x:callback")
				}
			}
		}
	}
	// lastIndex is an object whose valueOf logs or throws: converted by exec/test/match for global AND non-global expressions
	for _, p := range []string{"a", "b", "(a)|x", "a*", "^a", "z"} {
		for _, fl := range []string{"", "g", "i", "gi", "m"} {
			for _, s := range []string{"aaba", "ab", "", "xaax"} {
				for _, kind := range []string{"oi0", "oi1", "oi2", "oi9", "oi-1", "onan", "opinf", "oh1", "x"} {
					for _, st := range []string{"e", "t", "m", "e,e", "t,e,m", "e,t,t", "m,e"} {
						c.Add("xo "+hexTok(p)+" "+hexTok(fl)+" "+hexTok(s)+" "+kind+" "+st, "xo")
					}
				}
			}
		}
	}
	for _, p := range []string{"a", "a|b", "(a)(b)?", "x", "b*", "."} {
		for _, fl := range []string{"", "g", "gi", "i", "gm"} {
			for _, s := range []string{"aaba", "ab", "", "xaax"} {
				for _, mode := range []string{"nw", "fr"} {
					c.Add("xf "+mode+" "+hexTok(p)+" "+hexTok(fl)+" "+hexTok(s), "xf:"+mode)
				}
			}
		}
	}
	// the receiver dimension: String methods through .call on String objects, numbers, booleans and objects
	// with a counting toString; replacers that report typeof / === of every argument
	{
		recvs := []string{"p:" + hexTok("abcab"), "S:" + hexTok("abcab"), "S:" + hexTok("a1b"), "n:" + hexTok("123"), "n:" + hexTok("-1.5"), "n:" + hexTok("1e+21"),
			"b:" + hexTok("true"), "b:" + hexTok("false"), "o:" + hexTok("abcab"), "o:" + hexTok("121"), "o:" + hexTok("-")}
		pats := []string{"b", "(a)(x)?", "1", "\\d", "[a-e]", "a|(b)", "", "(.)", "e", "x"}
		ops := []string{"rT", "rF", "m", "s", "p:u", "p:2", "e", "t", "rS:" + hexTok("[$&]"), "rK:" + hexTok("$1"), "rT,rT", "m,rT,e", "L:i1,rT"}
		for _, rv := range recvs {
			for _, p := range pats {
				for _, fl := range []string{"", "g", "i"} {
					for _, st := range ops {
						c.Add("xr "+rv+" "+hexTok(p)+" "+hexTok(fl)+" "+st, "xr:"+rv[:1])
					}
				}
			}
		}
		for i := 0; i < c.N(3000, 100000); i++ {
			st := make([]string, 1+g.r.Intn(3))
			for j := range st {
				if g.r.Chance(30) {
					st[j] = "rT"
				} else {
					st[j] = g.step()
				}
			}
			kind := g.pick([]string{"S", "S", "o", "o", "p"})
			c.Add("xr "+kind+":"+hexTok(g.subject())+" "+hexTok(g.pattern())+" "+hexTok(g.flags())+" "+strings.Join(st, ","), "xr:random")
		}
	}
	// the literal route: the same literal evaluated twice (function called twice, loop body) with the object
	// mutated in between; patterns that the lexer of a literal takes as they are (no `/`, not empty)
	for i := 0; i < c.N(4000, 150000); i++ {
		p := g.pattern()
		if p == "" || strings.ContainsAny(p, "/\n\r\u2028\u2029") {
			continue
		}
		st := make([]string, 1+g.r.Intn(3))
		for j := range st {
			st[j] = g.step()
		}
		c.Add("xl "+hexTok(p)+" "+hexTok(g.flags())+" "+hexTok(g.subject())+" "+strings.Join(st, ","), "xl")
	}
	// region astral_subject: BMP and astral characters before and after the match, every operation
	{
		A := "\U0001F600"
		for _, p := range []string{"x", ".", "^.$", "[^a]", `\W`, `\S+`, "a*", "(x)|(b)", A, A + "+", "[" + A + "]", "[^" + A + "]x", "x$", `\bx`} {
			for _, s := range []string{A, A + "x", "a" + A + "xb", "\u00e9" + A + "x" + A + "c", "x" + A, A + A + "xx", "ax"} {
				for _, st := range []string{"e", "t", "m", "s", "rF", "rK:" + hexTok("$&"), "rS:" + hexTok("[$`|$&|$']"), "p:u", "p:2", "L:i2,e", "L:i3,e", "L:i1,e,e", "e,e,e"} {
					for _, fl := range []string{"", "g"} {
						c.Add("x "+hexTok(p)+" "+hexTok(fl)+" "+hexTok(s)+" "+st, "x:astral")
					}
				}
			}
		}
	}
	// histories
	for i := 0; i < c.N(30000, 1500000); i++ {
		p := g.pattern()
		fl := g.flags()
		s := g.subject()
		n := 1
		if g.r.Chance(50) {
			n = 1 + g.r.Intn(6)
		}
		steps := make([]string, n)
		for j := range steps {
			steps[j] = g.step()
		}
		c.Add("x "+hexTok(p)+" "+hexTok(fl)+" "+hexTok(s)+" "+strings.Join(steps, ","), fmt.Sprintf("x:steps=%d", n), "x:flags="+fl)
	}
}

func mutate(g *gen, p string) string {
	rs := []rune(p)
	switch g.r.Intn(4) {
	case 0: // splice a snippet
		i := g.r.Intn(len(rs) + 1)
		return string(rs[:i]) + g.pick(snippets) + string(rs[i:])
	case 1: // insert a syntax character
		i := g.r.Intn(len(rs) + 1)
		return string(rs[:i]) + g.pick([]string{"(", ")", "[", "]", "{", "}", "*", "+", "?", "|", `\`, "^", "$", "1", "0", "8", ",", "-", ":", "="}) + string(rs[i:])
	case 2: // delete a character
		if len(rs) == 0 {
			return g.pick(snippets)
		}
		i := g.r.Intn(len(rs))
		return string(rs[:i]) + string(rs[i+1:])
	default:
		return g.pick(snippets)
	}
}
