package main

import (
	"strings"

	"github.com/robertkrimen/otto/parser"
	"ottoverif/cmd/c03/astx"
	"ottoverif/h"
)

// The `pos` stream: which nonterminal an operand position takes (negative and positive).
//
// An expression FRAGMENT without protecting parentheses — a comma expression, an assignment, a conditional, binary / unary /
// postfix / new / call / member forms — is put into every operand position of every expression form (conditional first /
// middle / last operand, arguments, `new` callee and arguments, member object and index, call callee, operands of unary,
// postfix, binary, assignment (both sides) and comma operators, parenthesised and not); the resulting token string, nested
// up to two forms deep, is put into every expression position of every STATEMENT form: expression statement, if / while /
// do-while / switch / with conditions, return, throw, case test, the three for-header positions (the first one NoIn), for-in
// right side, var initialisers (also NoIn and in front of a for-in `in`), array elements, object property values, function
// bodies.  Lean decides accept / reject at the position: model = the parser function otto calls there, spec = the ES5
// nonterminal of the position (lean/OttoVerif/C04/Positions.lean).  Request: pos <hole> x<src> <tokens of the hole content>.

var posFragments = []string{
	"b , c", "b = c", "b ? c : d", "b || c", "b + c", "b * c", "b in c", "b < c", "- b", "typeof b", "b ++", "++ b", "new b", "new b ( )", "b ( )", "b . c", "b [ 0 ]", "b", "1",
	"b , c , d", "b = c , d", "b = c = d", "b += c", "b ? c , d : e", "b ? c : d , e", "b ? c = d : e", "b ? c : d = e", "b = c ? d : e", "b ? c ? d : e : f",
	"b ? c : d ? e : f", "b ? c , d , e : f", "b ? ( c , d ) : e", "b || c ? d : e", "b ? c : d || e", "new b . c", "new b ( c , d )", "b ( c , d )",
	"b ( c = d )", "b ( c ? d : e )", "b in c in d", "b , c in d", "b = c in d", "b ? c in d : e", "b ? c : d in e", "b [ c in d ]", "b ( c in d )",
	// parentheses where the grammar needs them (a redundant pair is outside the unparse form the specification side decides by)
	"a * ( b , c )", "a * ( b = c )", "a * ( b ? c : d )", "a * ( b + c )", "a ? ( b , c ) : d", "f ( ( b , c ) )", "f ( ( b , c ) , d )",
	"( b , c ) . p", "( b = c ) ( )", "( b ? c : d ) [ 0 ]", "( - b ) . c", "( b , c ) ? d : e", "( b = c ) ? d : e", "- ( b , c )", "( b , c ) ++",
}

var posForms = []string{
	"@", "a ? @ : d", "a ? b : @", "@ ? b : c", "f ( @ )", "f ( a , @ )", "f ( @ , a )", "new f ( @ )", "new @", "new @ ( )", "@ . p", "@ [ 0 ]", "a [ @ ]", "@ ( )",
	"@ ++", "++ @", "- @", "typeof @", "! @", "@ = 1", "a = @", "a += @", "a + @", "@ + a", "a * @", "@ * a", "a || @", "@ && a", "a , @", "@ , a", "a in @", "@ in a",
	"a < @", "a ? b : c ? @ : e", "a ? b ? @ : d : e", "a = b ? @ : c", "a [ b ? @ : c ]", "f ( b ? @ : c )",
}

var posStatements = []struct{ hole, pre, post string }{
	{"expr", "", " ;"},
	{"expr", "if ( ", " ) ;"},
	{"expr", "while ( ", " ) ;"},
	{"expr", "do ; while ( ", " ) ;"},
	{"expr", "switch ( ", " ) { }"},
	{"expr", "with ( ", " ) ;"},
	{"expr", "function g ( ) { return ", " ; }"},
	{"expr", "throw ", " ;"},
	{"expr", "switch ( 1 ) { case ", " : }"},
	{"expr", "x = function ( ) { ", " ; } ;"},
	{"expr", "for ( ; ", " ; ) ;"},
	{"expr", "for ( ; ; ", " ) ;"},
	{"expr", "for ( x in ", " ) ;"},
	{"expr", "for ( var x in ", " ) ;"},
	{"exprNoIn", "for ( ", " ; ; ) ;"},
	{"decls", "var v = ", " ;"},
	{"decls", "var u , v = ", " ;"},
	{"declsNoIn", "for ( var v = ", " ; ; ) ;"},
	{"declForIn", "for ( var v = ", " in o ) ;"},
	{"elems", "x = [ ", " ] ;"},
	{"elems", "x = [ a , ", " ] ;"},
	{"props", "x = { p : ", " } ;"},
	{"props", "x = { p : 1 , q : ", " } ;"},
}

func posAdd(c *h.Ctx, si int, content, key string) {
	st := posStatements[si]
	if st.hole == "declForIn" && strings.Contains(" "+content+" ", " in ") {
		// an `in` of the content would be taken as the `in` of the for-in: the hole would end there (C03's noin stream has these)
		return
	}
	toks, _ := parser.VerifScanAll(content)
	c.Add("pos "+st.hole+" x"+astx.Hex(st.pre+content+st.post)+" "+astx.TokWire(toks), "pos:"+st.hole, key)
}

func genPos(c *h.Ctx) {
	var level1 []string
	for _, f := range posForms {
		for _, g := range posFragments {
			level1 = append(level1, strings.Replace(f, "@", g, 1))
		}
	}
	for si := range posStatements {
		for _, e := range level1 {
			posAdd(c, si, e, "pos:one-form")
		}
	}
	// two forms deep
	n := 0
	for _, f1 := range posForms[1:] {
		for _, f2 := range posForms[1:] {
			for _, g := range posFragments {
				n++
				if !c.Thorough() && !c.Rng.Chance(12) {
					continue
				}
				e := strings.Replace(f1, "@", strings.Replace(f2, "@", g, 1), 1)
				si := 0
				if n%3 != 0 {
					si = c.Rng.Intn(len(posStatements))
				}
				posAdd(c, si, e, "pos:two-forms")
			}
		}
	}
}

func implPos(f []string) string {
	o := safeParse(astx.UnHex(f[2][1:]))
	if o.panicV != "" {
		return "panic:parse"
	}
	if o.err == nil {
		return "accept"
	}
	return "reject"
}
