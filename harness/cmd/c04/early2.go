package main

import (
	"fmt"
	"strings"

	"ottoverif/h"
)

// St mirrors Lean `C04.S` (statement trees as far as jump legality is concerned).
type St struct {
	K    string // expr brk cont ret block if1 if2 loop switch try with label fn
	L    int    // label number for brk/cont/label, -1 = none
	Loop string // while dowhile for forin
	Kids []*St
	C, F []*St // catch / finally statement lists
	HasC bool
	HasF bool
}

func (s *St) dump(out *[]string) {
	switch s.K {
	case "expr", "ret", "if1", "if2", "with":
		*out = append(*out, s.K)
	case "brk", "cont":
		if s.L < 0 {
			*out = append(*out, s.K)
		} else {
			*out = append(*out, fmt.Sprintf("%s.%d", s.K, s.L))
		}
	case "block", "switch", "fn":
		*out = append(*out, fmt.Sprintf("%s.%d", s.K, len(s.Kids)))
	case "loop":
		*out = append(*out, "loop."+s.Loop)
	case "label":
		*out = append(*out, fmt.Sprintf("label.%d", s.L))
	case "try":
		nc, nf := "x", "x"
		if s.HasC {
			nc = fmt.Sprint(len(s.C))
		}
		if s.HasF {
			nf = fmt.Sprint(len(s.F))
		}
		*out = append(*out, fmt.Sprintf("try.%d.%s.%s", len(s.Kids), nc, nf))
	}
	for _, k := range s.Kids {
		k.dump(out)
	}
	for _, k := range s.C {
		k.dump(out)
	}
	for _, k := range s.F {
		k.dump(out)
	}
}

func renderList(ks []*St) string {
	var sb strings.Builder
	for _, k := range ks {
		sb.WriteString(k.render())
		sb.WriteString(" ")
	}
	return sb.String()
}

// render gives one concrete source text for the tree (legality-neutral choices only: the then-branch of if/else is
// braced against the dangling else; functions are expression statements).
func (s *St) render() string {
	switch s.K {
	case "expr":
		return "x;"
	case "brk":
		if s.L < 0 {
			return "break;"
		}
		return fmt.Sprintf("break L%d;", s.L)
	case "cont":
		if s.L < 0 {
			return "continue;"
		}
		return fmt.Sprintf("continue L%d;", s.L)
	case "ret":
		return "return;"
	case "block":
		return "{ " + renderList(s.Kids) + "}"
	case "if1":
		return "if (1) " + s.Kids[0].render()
	case "if2":
		return "if (1) { " + s.Kids[0].render() + " } else " + s.Kids[1].render()
	case "loop":
		b := s.Kids[0].render()
		switch s.Loop {
		case "while":
			return "while (1) " + b
		case "dowhile":
			return "do " + b + " while (1);"
		case "for":
			return "for (;;) " + b
		default:
			return "for (k in o) " + b
		}
	case "switch":
		if len(s.Kids) >= 2 {
			return "switch (1) { case 1: " + s.Kids[0].render() + " default: " + renderList(s.Kids[1:]) + "}"
		}
		return "switch (1) { case 1: " + renderList(s.Kids) + "}"
	case "try":
		t := "try { " + renderList(s.Kids) + "}"
		if s.HasC {
			t += " catch (e) { " + renderList(s.C) + "}"
		}
		if s.HasF {
			t += " finally { " + renderList(s.F) + "}"
		}
		return t
	case "with":
		return "with (o) " + s.Kids[0].render()
	case "label":
		return fmt.Sprintf("L%d: ", s.L) + s.Kids[0].render()
	case "fn":
		return "(function () { " + renderList(s.Kids) + "});"
	}
	return "?"
}

type wrap struct {
	name string
	f    func(*St) *St
}

func loopW(kind string) wrap {
	return wrap{kind, func(s *St) *St { return &St{K: "loop", Loop: kind, L: -1, Kids: []*St{s}} }}
}

var ex = &St{K: "expr", L: -1}

// the constructs that can stand between a jump and its target
var wrappers = []wrap{
	loopW("while"), loopW("dowhile"), loopW("for"), loopW("forin"),
	{"switch", func(s *St) *St { return &St{K: "switch", L: -1, Kids: []*St{s}} }},
	{"switch2", func(s *St) *St { return &St{K: "switch", L: -1, Kids: []*St{ex, s}} }},
	{"block", func(s *St) *St { return &St{K: "block", L: -1, Kids: []*St{ex, s}} }},
	{"try", func(s *St) *St { return &St{K: "try", L: -1, Kids: []*St{s}, HasC: true} }},
	{"catch", func(s *St) *St { return &St{K: "try", L: -1, HasC: true, C: []*St{s}} }},
	{"finally", func(s *St) *St { return &St{K: "try", L: -1, HasF: true, F: []*St{s}} }},
	{"with", func(s *St) *St { return &St{K: "with", L: -1, Kids: []*St{s}} }},
	{"if", func(s *St) *St { return &St{K: "if1", L: -1, Kids: []*St{s}} }},
	{"else", func(s *St) *St { return &St{K: "if2", L: -1, Kids: []*St{ex, s}} }},
	{"fn", func(s *St) *St { return &St{K: "fn", L: -1, Kids: []*St{s}} }},
	{"label1", func(s *St) *St { return &St{K: "label", L: 1, Kids: []*St{s}} }},
}

func lab(l int, s *St) *St { return &St{K: "label", L: l, Kids: []*St{s}} }

// what the label L0 is attached to
var targets = []wrap{
	{"L0:while", func(s *St) *St { return lab(0, loopW("while").f(s)) }},
	{"L0:dowhile", func(s *St) *St { return lab(0, loopW("dowhile").f(s)) }},
	{"L0:for", func(s *St) *St { return lab(0, loopW("for").f(s)) }},
	{"L0:forin", func(s *St) *St { return lab(0, loopW("forin").f(s)) }},
	{"L0:switch", func(s *St) *St { return lab(0, &St{K: "switch", L: -1, Kids: []*St{s}}) }},
	{"L0:block", func(s *St) *St { return lab(0, &St{K: "block", L: -1, Kids: []*St{s}}) }},
	{"L0:if", func(s *St) *St { return lab(0, &St{K: "if1", L: -1, Kids: []*St{s}}) }},
	{"L0:try", func(s *St) *St { return lab(0, &St{K: "try", L: -1, Kids: []*St{s}, HasC: true}) }},
	{"L0:with", func(s *St) *St { return lab(0, &St{K: "with", L: -1, Kids: []*St{s}}) }},
	{"L0:L1:while", func(s *St) *St { return lab(0, lab(1, loopW("while").f(s))) }},
	{"L1:L0:for", func(s *St) *St { return lab(1, lab(0, loopW("for").f(s))) }},
	{"L0:L1:block", func(s *St) *St { return lab(0, lab(1, &St{K: "block", L: -1, Kids: []*St{s}})) }},
	{"no-label", func(s *St) *St { return s }},
	// label SETS (12.12): two and three labels directly in front of every kind of loop — every one of them is a continue target
	{"L0:L1:dowhile", func(s *St) *St { return lab(0, lab(1, loopW("dowhile").f(s))) }},
	{"L0:L1:for", func(s *St) *St { return lab(0, lab(1, loopW("for").f(s))) }},
	{"L0:L1:forin", func(s *St) *St { return lab(0, lab(1, loopW("forin").f(s))) }},
	{"L1:L0:while", func(s *St) *St { return lab(1, lab(0, loopW("while").f(s))) }},
	{"L0:L1:L2:while", func(s *St) *St { return lab(0, lab(1, lab(2, loopW("while").f(s)))) }},
	{"L2:L0:L1:for", func(s *St) *St { return lab(2, lab(0, lab(1, loopW("for").f(s)))) }},
	{"L1:L2:L0:dowhile", func(s *St) *St { return lab(1, lab(2, lab(0, loopW("dowhile").f(s)))) }},
	{"L0:L1:L2:forin", func(s *St) *St { return lab(0, lab(1, lab(2, loopW("forin").f(s)))) }},
	// … and label sets that do NOT belong to a loop although a loop is nested inside
	{"L0:L1:{while}", func(s *St) *St { return lab(0, lab(1, &St{K: "block", L: -1, Kids: []*St{loopW("while").f(s)}})) }},
	{"L0:if(L1:for)", func(s *St) *St { return lab(0, &St{K: "if1", L: -1, Kids: []*St{lab(1, loopW("for").f(s))}}) }},
	{"L0:switch{L1:L2:while}", func(s *St) *St {
		return lab(0, &St{K: "switch", L: -1, Kids: []*St{lab(1, lab(2, loopW("while").f(s)))}})
	}},
	{"L0:with(while)", func(s *St) *St { return lab(0, &St{K: "with", L: -1, Kids: []*St{loopW("while").f(s)}}) }},
	{"L0:try{L1:dowhile}", func(s *St) *St {
		return lab(0, &St{K: "try", L: -1, Kids: []*St{lab(1, loopW("dowhile").f(s))}, HasC: true})
	}},
	{"L0:L1:while{L2:{..}}", func(s *St) *St {
		return lab(0, lab(1, loopW("while").f(lab(2, &St{K: "block", L: -1, Kids: []*St{s}}))))
	}},
	{"dup L0:L0:", func(s *St) *St { return lab(0, lab(0, loopW("while").f(s))) }},
	{"dup nested", func(s *St) *St { return lab(0, loopW("while").f(lab(0, s))) }},
	{"L0 in outer function", func(s *St) *St { return lab(0, loopW("while").f(&St{K: "fn", L: -1, Kids: []*St{s}})) }},
	{"L0 on a sibling", func(s *St) *St {
		return &St{K: "block", L: -1, Kids: []*St{lab(0, loopW("while").f(&St{K: "brk", L: -1})), s}}
	}},
	{"try without handler", func(s *St) *St { return lab(0, &St{K: "try", L: -1, Kids: []*St{s}}) }},
}

var outers = []wrap{
	{"top", func(s *St) *St { return s }},
	loopW("while"),
	{"fn", func(s *St) *St { return &St{K: "fn", L: -1, Kids: []*St{s}} }},
	{"switch", func(s *St) *St { return &St{K: "switch", L: -1, Kids: []*St{s}} }},
}

func jumps() []*St {
	return []*St{{K: "brk", L: -1}, {K: "brk", L: 0}, {K: "cont", L: -1}, {K: "cont", L: 0}, {K: "ret", L: -1}, {K: "brk", L: 1}, {K: "cont", L: 1}, {K: "brk", L: 2}, {K: "cont", L: 2}}
}

// genEarly2 enumerates jump × label attachment × nest between them (depth ≤ 2 quick, ≤ 3 thorough) × outer context.
func genEarly2(c *h.Ctx) {
	depth := c.N(2, 3)
	var nests [][]int
	var rec func(cur []int, d int)
	rec = func(cur []int, d int) {
		nests = append(nests, append([]int(nil), cur...))
		if d == depth {
			return
		}
		for i := range wrappers {
			rec(append(cur, i), d+1)
		}
	}
	rec(nil, 0)
	for _, j := range jumps() {
		for _, nest := range nests {
			inner := j
			for i := len(nest) - 1; i >= 0; i-- {
				inner = wrappers[nest[i]].f(inner)
			}
			for _, t := range targets {
				for oi, o := range outers {
					if c.Thorough() && len(nest) == 3 && oi >= 2 {
						continue // keep the thorough tier within its time budget
					}
					prog := o.f(t.f(inner))
					var out []string
					prog.dump(&out)
					c.Add("early2 1 "+strings.Join(out, ","), "early2", "early2:target="+t.name, fmt.Sprintf("early2:depth=%d", len(nest)))
				}
			}
		}
	}
}

// parseSt rebuilds the tree from the request (Polish notation) so that Impl renders exactly what Lean judged.
func parseSt(items []string, pos *int) *St {
	it := items[*pos]
	*pos++
	f := strings.Split(it, ".")
	s := &St{K: f[0], L: -1}
	list := func(n int) []*St {
		var ks []*St
		for i := 0; i < n; i++ {
			ks = append(ks, parseSt(items, pos))
		}
		return ks
	}
	atoi := func(x string) int { n := 0; fmt.Sscan(x, &n); return n }
	switch f[0] {
	case "brk", "cont":
		if len(f) == 2 {
			s.L = atoi(f[1])
		}
	case "block", "switch", "fn":
		s.Kids = list(atoi(f[1]))
	case "if1", "with":
		s.Kids = list(1)
	case "if2":
		s.Kids = list(2)
	case "loop":
		s.Loop = f[1]
		s.Kids = list(1)
	case "label":
		s.L = atoi(f[1])
		s.Kids = list(1)
	case "try":
		s.Kids = list(atoi(f[1]))
		if f[2] != "x" {
			s.HasC = true
			s.C = list(atoi(f[2]))
		}
		if f[3] != "x" {
			s.HasF = true
			s.F = list(atoi(f[3]))
		}
	}
	return s
}

func implEarly2(f []string) string {
	items := strings.Split(f[2], ",")
	pos := 0
	var ks []*St
	n := 0
	fmt.Sscan(f[1], &n)
	for i := 0; i < n; i++ {
		ks = append(ks, parseSt(items, &pos))
	}
	o := safeParse(renderList(ks))
	if o.panicV != "" {
		return "panic:parse"
	}
	if o.err != nil {
		return "reject"
	}
	return "accept"
}
