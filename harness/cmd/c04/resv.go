package main

import (
	"fmt"
	"strings"

	"github.com/robertkrimen/otto/parser"
	"github.com/robertkrimen/otto/token"
	"ottoverif/cmd/c03/astx"
	"ottoverif/h"
)

// The `resv` stream: every ES5 reserved word (keywords, future reserved words, null/true/false) and a set of look-alike
// non-reserved names, spelled plainly and with a \uXXXX escape at the first / a middle / the last position / everywhere
// (lower and upper case hex digits), in every identifier position and every property-name position.  Legality is decided
// in Lean on the DECODED spelling (C04/Reserved.lean).

var resvWords = []string{"break", "case", "catch", "continue", "debugger", "default", "delete", "do", "else", "finally", "for", "function", "if", "in",
	"instanceof", "new", "return", "switch", "this", "throw", "try", "typeof", "var", "void", "while", "with",
	"class", "const", "enum", "export", "extends", "import", "super", "null", "true", "false"}
var resvControls = []string{"iff", "i", "f", "vars", "va", "let", "static", "implements", "interface", "package", "private", "protected", "public", "yield",
	"In", "Var", "nul", "truee", "False", "thiss", "news", "doo", "x", "$if", "_var", "if_", "typeOf", "instanceOf", "undefined", "NaN", "eval", "arguments", "get", "set", "of",
	// IdentifierName beyond letters and ASCII digits (ES5 7.6): combining marks (Mn, Mc), non-ASCII digits (Nd), connector
	// punctuation (Pc), letter numbers (Nl), modifier/other letters, ZWNJ/ZWJ
	"e\u0301", "x\u0300\u0301y", "a\u0903", "a\u0663", "n\u0966\u0967", "a\u203f", "a\u2040b", "\u2160", "\u2167x", "\u2118", "\u00aa", "\u02b0x", "\u3007", "a\u200db", "a\u200cb", "\u0646\u200c\u0647"}

var resvPositions = []struct{ name, pre, post string }{
	{"var", "var ", " = 2;"},
	{"fname", "function ", "(){}"},
	{"fexpr", "(function ", "(){});"},
	{"param", "function f(a, ", "){}"},
	{"label", "", ": ;"},
	{"catch", "try{}catch(", "){}"},
	{"assign", "", " = 1;"},
	{"forin", "for (", " in o);"},
	{"incr", "", "++;"},
	{"dot", "o.", ";"},
	{"key", "({", ": 1});"},
	{"getter", "({get ", "(){ return 1 }});"},
	{"dotassign", "o.", " = 1;"},
}

func esc(c byte, upper bool) string {
	if upper {
		return fmt.Sprintf("\\u%04X", c)
	}
	return fmt.Sprintf("\\u%04x", c)
}

func spellings(w string) []string {
	out := []string{w}
	ascii := true
	for i := 0; i < len(w); i++ {
		if w[i] >= 0x80 {
			ascii = false
		}
	}
	if !ascii {
		// every character written as an escape (all are in the BMP), and only the non-ASCII ones
		var all, some strings.Builder
		for _, r := range w {
			all.WriteString(fmt.Sprintf("\\u%04x", r))
			if r >= 0x80 {
				some.WriteString(fmt.Sprintf("\\u%04X", r))
			} else {
				some.WriteRune(r)
			}
		}
		return append(out, all.String(), some.String())
	}
	n := len(w)
	at := func(i int, upper bool) string { return w[:i] + esc(w[i], upper) + w[i+1:] }
	out = append(out, at(0, false), at(n-1, false), at(n/2, true))
	if n > 2 {
		out = append(out, at(1, false))
	}
	var all strings.Builder
	for i := 0; i < n; i++ {
		all.WriteString(esc(w[i], i%2 == 1))
	}
	out = append(out, all.String())
	return out
}

func genResv(c *h.Ctx) {
	for _, list := range [][]string{resvWords, resvControls} {
		for _, w := range list {
			for _, sp := range spellings(w) {
				c.Add("resvtok x"+astx.Hex(sp), "resvtok")
				for _, p := range resvPositions {
					c.Add("resv "+p.name+" x"+astx.Hex(sp), "resv", "resv:"+p.name)
				}
			}
		}
	}
}

func implResv(f []string) string {
	sp := astx.UnHex(f[2][1:])
	for _, p := range resvPositions {
		if p.name == f[1] {
			o := safeParse(p.pre + sp + p.post)
			if o.panicV != "" {
				return "panic:parse"
			}
			if o.err != nil {
				return "reject"
			}
			return "accept"
		}
	}
	return "bad-position"
}

func implResvTok(f []string) string {
	toks, _ := parser.VerifScanAll(astx.UnHex(f[1][1:]))
	if len(toks) != 2 {
		return fmt.Sprintf("tokens:%d", len(toks))
	}
	switch toks[0].Tok {
	case token.IDENTIFIER, token.KEYWORD, token.BOOLEAN, token.NULL, token.ILLEGAL:
		return toks[0].Tok.String()
	}
	return toks[0].Tok.String()
}
