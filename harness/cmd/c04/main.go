// Command c04 is the correspondence harness binary for property C04.
package main

import "ottoverif/h"

func main() { h.Main("C04") }
