package main

import "ottoverif/h"

func genEarly(c *h.Ctx)           {}
func implEarly(f []string) string { return "bad-op" }
