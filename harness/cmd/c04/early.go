package main

import (
	"fmt"
	"strings"

	"github.com/robertkrimen/otto/ast"
	"github.com/robertkrimen/otto/file"
	"github.com/robertkrimen/otto/parser"
	"ottoverif/cmd/c03/astx"
	"ottoverif/h"
)

type earlyT struct {
	src, expect, region, ref string
}

// ES5 parse-time errors and their accepted neighbours.  `region` names the deviation of otto for the template.
var earlyTable = []earlyT{
	// 12.7-12.8 break / continue
	{"break;", "reject", "-", "12.8: break outside IterationStatement/SwitchStatement"},
	{"continue;", "reject", "-", "12.7"},
	{"while(1){break;}", "accept", "-", "12.8"},
	{"while(1){continue;}", "accept", "-", "12.7"},
	{"switch(1){case 1: break;}", "accept", "-", "12.8"},
	{"switch(1){case 1: continue;}", "reject", "-", "12.7: continue needs an IterationStatement"},
	{"a: { break a; }", "accept", "-", "12.8"},
	{"a: { break b; }", "reject", "-", "12.8: label not in the label set"},
	{"a: while(1){ continue a; }", "accept", "-", "12.7"},
	{"a: { while(1){ continue a; } }", "reject", "-", "12.7: the label must belong to an enclosing IterationStatement"},
	{"a: while(1){ (function(){ break a; }); }", "reject", "-", "12.8: label sets do not cross function boundaries"},
	{"a: b: for(;;){ continue a; }", "accept", "-", "12.7 / 12.12: a and b are in the label set of the loop"},
	{"a: b: for(;;){ continue b; }", "accept", "-", "12.7"},
	{"a: b: c: do { continue a; } while (0)", "accept", "-", "12.7"},
	{"a: if (1) for(;;){ continue a; }", "reject", "-", "12.7: a labels the if statement"},
	{"a: switch (1) { case 1: for(;;){ continue a; } }", "reject", "-", "12.7"},
	{"a: for(;;){ b: { continue a; } }", "accept", "-", "12.7"},
	{"a: for(;;){ b: { continue b; } }", "reject", "-", "12.7"},
	{"a: for(;;){ (function(){ for(;;){ continue a; } }); }", "reject", "-", "12.7: not across a function boundary"},
	{"typeof eval('a: { for (var i = 0; i < 2; i++) { continue a; } }')", "accept", "-", "the eval argument is a string: its SyntaxError is a run-time event"},
	{"while(1){ (function(){ break; }); }", "reject", "-", "12.8"},
	{"while(1){ (function(){ continue; }); }", "reject", "-", "12.7"},
	{"a: a: ;", "reject", "-", "12.12: duplicate label"},
	{"a: b: a: ;", "reject", "-", "12.12"},
	{"a: (function(){ a: ; });", "accept", "-", "12.12: nested function starts a new label set"},
	{"a: ; a: ;", "accept", "-", "12.12"},
	{"(a): 1;", "reject", "-", "12.12: LabelledStatement is Identifier : Statement"},
	// 12.9 return
	{"return;", "reject", "-", "12.9: return outside a FunctionBody"},
	{"return 1", "reject", "-", "12.9"},
	{"function f(){ return; }", "accept", "-", "12.9"},
	{"(function(){ return 1 })", "accept", "-", "12.9"},
	{"if (x) { return }", "reject", "-", "12.9"},
	// 12.14 try
	{"try {}", "reject", "-", "12.14"},
	{"try {} catch (e) {}", "accept", "-", "12.14"},
	{"try {} finally {}", "accept", "-", "12.14"},
	{"try {} catch {}", "reject", "-", "12.14"},
	{"try {} catch (1) {}", "reject", "-", "12.14"},
	{"try x; catch (e) {}", "reject", "-", "12.14: Block required"},
	// 11.13.1, 11.3, 11.4 targets
	{"1 = 2", "reject", "-", "11.13.1 / 16"},
	{"a + b = c", "reject", "-", "11.13"},
	{"a = b = c", "accept", "-", "11.13"},
	{"(a) = 1", "accept", "-", "11.1.6"},
	{"a++ = 1", "reject", "-", "11.13"},
	{"++a++", "reject", "-", "11.4"},
	{"1++", "reject", "-", "11.3 / 16"},
	{"--1", "reject", "-", "11.4 / 16"},
	{"for (1 in o);", "reject", "-", "12.6.4"},
	{"for (a, b in o);", "reject", "-", "12.6.4"},
	{"for (var a, b in o);", "reject", "-", "12.6.4"},
	{"for (var a = 1 in o);", "accept", "-", "12.6.4 VariableDeclarationNoIn"},
	{"for (x = a ? b in c : d; ;) break;", "accept", "-", "11.12: the middle operand of ?: is an AssignmentExpression with In"},
	{"for (var x = a < b in c) ;", "accept", "-", "11.8 / 12.6.4: RelationalExpressionNoIn < ShiftExpression, then for-in"},
	{"for (var x = a in b in c) ;", "accept", "-", "12.6.4: for (var x = a in (b in c))"},
	{"for (x = (a in b); ;) break;", "accept", "-", "11.1.6"},
	{"x = 1 < 2 < 3;", "accept", "-", "11.8"},
	{"for (var x = a < b < c in d) ;", "accept", "-", "11.8 / 12.6.4"},
	{"for (var x = a < b; x in c; ) break;", "accept", "-", "12.6.3: In is allowed in the second expression"},
	{"for (x = a ? b : c in d; ;) ;", "reject", "-", "12.6.4: the left side of for-in is a LeftHandSideExpression"},
	{"for (var x = a ? b : c in d) ;", "accept", "-", "12.6.4: for-in with initialiser a ? b : c"},
	{"for (var x = a ? b in c : d in e) ;", "accept", "-", "11.12 / 12.6.4"},
	{"for (var x = a in b; ;) ;", "reject", "-", "12.6.4: `var x = a in b` is a for-in head"},
	{"for (a in b in c) ;", "accept", "-", "12.6.4: for (a in (b in c))"},
	{"for (a in b; ;) ;", "reject", "-", "12.6.3: ExpressionNoIn"},
	{"for (a < b in c; ;) ;", "reject", "-", "12.6.3 / 12.6.4: a < b is not a LeftHandSideExpression"},
	{"for (var x = (a in b) ? 1 : 2; ;) break;", "accept", "-", "11.1.6"},
	{"for (var x = [a in b], y = {k: c in d}, z = f(e in g); ;) break;", "accept", "-", "11.1.4-5, 11.2: In is allowed inside brackets, braces and arguments"},
	// 7.6.1 reserved words
	{"var if = 1", "reject", "-", "7.6.1.1"},
	{"var class = 1", "reject", "-", "7.6.1.2"},
	{"enum = 1", "reject", "-", "7.6.1.2"},
	{"var let = 1", "accept", "-", "7.6.1.2: reserved in strict mode only"},
	{"a.if = 1", "accept", "-", "11.2.1: IdentifierName"},
	{"({ if: 1, class: 2 })", "accept", "-", "11.1.5"},
	{"function if(){}", "reject", "-", "7.6.1"},
	{"function f(if){}", "reject", "-", "7.6.1"},
	{"var x = true; var true = 1", "reject", "-", "7.6.1"},
	{"null = 1", "reject", "-", "7.6.1"},
	// 7.8.5 / 15.10 regular expressions
	{"/(/", "reject", "-", "15.10.1"},
	{"/a/", "accept", "-", "7.8.5"},
	{"/[/]/", "accept", "-", "7.8.5 RegularExpressionClass"},
	{"/a", "reject", "-", "7.8.5"},
	{"/a\n/", "reject", "-", "7.8.5"},
	{"/a**/", "reject", "-", "15.10.1"},
	// 11.1.4-5, 11.2 list syntax
	{"f(a,)", "reject", "trailing_comma_arguments", "11.2: ArgumentList has no trailing comma"},
	{"f(,)", "reject", "-", "11.2"},
	{"f(a b)", "reject", "-", "11.2"},
	{"[a,]", "accept", "-", "11.1.4"},
	{"[,]", "accept", "-", "11.1.4 Elision"},
	{"({a:1,})", "accept", "-", "11.1.5"},
	{"({a:1 b:2})", "reject", "object_literal_missing_comma", "11.1.5: PropertyNameAndValueList needs commas"},
	{"({,})", "reject", "-", "11.1.5"},
	{"({get a(){}})", "accept", "-", "11.1.5"},
	{"({get a(x){}})", "reject", "accessor_parameter_count", "11.1.5: get PropertyName ( )"},
	{"({set a(){}})", "reject", "accessor_parameter_count", "11.1.5: set PropertyName ( PropertySetParameterList )"},
	{"({set a(x,y){}})", "reject", "accessor_parameter_count", "11.1.5"},
	{"({set a(x){}})", "accept", "-", "11.1.5"},
	// 12.x statement syntax and ASI (7.9)
	{"if (a) else b", "reject", "-", "12.5"},
	{"if a b", "reject", "-", "12.5"},
	{"while () ;", "reject", "-", "12.6.2"},
	{"do ; while (0) x", "reject", "do_while_no_semicolon", "7.9.1 (ES5): no ASI after do-while without a line terminator"},
	{"do ; while (0)\nx", "accept", "-", "7.9.1"},
	{"do ; while (0); x", "accept", "-", "12.6.1"},
	{"for (;;", "reject", "-", "12.6.3"},
	{"for (;) ;", "reject", "-", "12.6.3"},
	{"switch (x) {", "reject", "-", "12.11"},
	{"switch (x) { case 1: a; ", "reject", "-", "12.11"},
	{"switch (x) { default: default: }", "reject", "-", "12.11: at most one default"},
	{"switch (x) { a; }", "reject", "-", "12.11"},
	{"with (a)", "reject", "-", "12.10"},
	{"throw\na", "reject", "-", "7.9.1 / 12.13: no LineTerminator after throw"},
	{"throw a", "accept", "-", "12.13"},
	{"a b", "reject", "-", "7.9.1"},
	{"a\nb", "accept", "-", "7.9.1"},
	{"a\n++\nb", "accept", "-", "7.9.1: parsed as a; ++b"},
	{"a ++\nb", "accept", "-", "7.9.1"},
	{"function f(){ return /*\n*/ 1 }", "accept", "-", "7.4 / 7.9.1: restricted production across a multi-line comment"},
	{"x = 1 /*\n*/ y = 2", "accept", "-", "7.4 / 7.9: a MultiLineComment containing a line terminator acts as one"},
	{"x\r \ny", "accept", "-", "7.3: CR is a LineTerminator"},
	{"x\ra\n", "accept", "-", "7.3 / 7.9.1: ASI after CR"},
	{"new\ra\n[ this ]", "accept", "-", "7.3"},
	{"var a = 1 var b", "reject", "-", "7.9.1"},
	{"var x = .5\nvar y = 2", "accept", "-", "7.9.1: ASI after a dot-leading numeric literal"},
	{"r = i + .5\n++i", "accept", "-", "7.9.1"},
	{"x = .25e1\ny", "accept", "-", "7.9.1"},
	{"x = 5.\ny", "accept", "-", "7.9.1"},
	{"x = 0x1F\ny", "accept", "-", "7.9.1"},
	{"x = 's'\ny", "accept", "-", "7.9.1"},
	{"x = /re/g\ny", "accept", "-", "7.9.1"},
	{"x = /re/\nvar y", "accept", "-", "7.9.1"},
	{"var re = /=+/\nvar x", "accept", "-", "7.9.1: a literal whose body starts with = is opened by the /= token"},
	{"x = /=(\\d+)/\n++i", "accept", "-", "7.9.1"},
	{"x = /=/\nthis.q = 1", "accept", "-", "7.9.1"},
	{"x = /[/]=/g\nvar y", "accept", "-", "7.9.1"},
	{"var a,", "reject", "-", "12.2"},
	{"var", "reject", "-", "12.2"},
	{"function (){}", "reject", "-", "13: FunctionDeclaration needs a name"},
	{"function f(a,){}", "reject", "trailing_comma_parameters", "13: FormalParameterList has no trailing comma"},
	{"function f(a b){}", "reject", "-", "13"},
	{"function f(){", "reject", "-", "13"},
	{"{", "reject", "-", "12.1"},
	{"}", "reject", "-", "14"},
	{"(", "reject", "-", "11.1.6"},
	{"a ? b", "reject", "-", "11.12"},
	{"a ? b :", "reject", "-", "11.12"},
	{"new", "reject", "-", "11.2"},
	{"a.", "reject", "-", "11.2.1"},
	{"a.1", "reject", "-", "11.2.1"},
	{"a[", "reject", "-", "11.2.1"},
	{"'abc", "reject", "-", "7.8.4"},
	{"'a\nb'", "reject", "-", "7.8.4"},
	{"'\\x4'", "reject", "-", "7.8.4 HexEscapeSequence"},
	{"'\\u12'", "reject", "-", "7.8.4 UnicodeEscapeSequence"},
	{"3in x", "reject", "-", "7.8.3: no IdentifierStart directly after a NumericLiteral"},
	{"0x", "reject", "-", "7.8.3"},
	{"1e", "reject", "-", "7.8.3"},
	{"08", "reject", "-", "7.8.3 / B.1.1"},
	{"a \\u0020 b", "reject", "-", "7.6"},
	{"@", "reject", "-", "7"},
	{"a # b", "reject", "-", "7"},
	{"/* open", "reject", "-", "7.4"},
	{"a & ^ b", "reject", "-", "11.10"},
	// baseline observations of the seeders
	{"var a = o.if\nvar b = 2", "accept", "-", "7.9.1: a keyword used as IdentifierName can end a statement"},
	{"x = o.in\ny = 2", "accept", "-", "7.9.1"},
	{"x = o.class\nvar y", "accept", "-", "7.9.1"},
	{"x = o.iff\nvar y", "accept", "-", "7.9.1"},
	{"1\u0085+\u00851", "reject", "-", "7.2 / 7.3: U+0085 is neither WhiteSpace nor LineTerminator"},
	{"a\u0085b", "reject", "-", "7.2"},
	{"a\u3000+\u2003b", "accept", "-", "7.2: Zs"},
	{"/[", "reject", "-", "7.8.5"},
	{"x = /a[", "reject", "-", "7.8.5"},
	{"x = /a[/", "reject", "-", "7.8.5: the slash is inside the class"},
	{"x = /a[/]/", "accept", "-", "7.8.5"},
	{"({get a(){}, a:3})", "reject", "object_literal_duplicate_property", "11.1.5: data and accessor property with the same name"},
	{"({a:3, get a(){}})", "reject", "object_literal_duplicate_property", "11.1.5"},
	{"({a:3, set a(v){}})", "reject", "object_literal_duplicate_property", "11.1.5"},
	{"({get a(){}, get a(){}})", "reject", "object_literal_duplicate_property", "11.1.5: two getters with the same name"},
	{"({set a(v){}, set a(w){}})", "reject", "object_literal_duplicate_property", "11.1.5"},
	{"({a:1, a:2})", "accept", "-", "11.1.5: duplicate data properties are an error in strict code only"},
	{"({get a(){}, set a(v){}})", "accept", "-", "11.1.5"},
	{"v\\u0061r x = 1", "reject", "-", "7.6: an escape cannot make a keyword; the identifier named var is reserved"},
	{"\\u0069f (x) y", "reject", "-", "7.6"},
	{"x = tru\\u0065", "reject", "-", "7.6 / 7.8.2"},
	{"x = typ\\u0065of y", "reject", "-", "7.6"},
	{"x = o.\\u0069f", "accept", "-", "11.2.1: IdentifierName"},
	{"var x = /a/\ng = 1", "accept", "regexp_flags_detached", "7.8.5 / 7.9.1"},
	{"x = /a/ g", "reject", "regexp_flags_detached", "7.8.5: flags follow the closing slash immediately"},
	{"x = /a/g", "accept", "-", "7.8.5"},
	// 7.7: punctuators written without white space between them; `<!--` and `-->` are not comments in ES5
	{"x = a<!--b", "accept", "-", "7.7: a < !(--b)"},
	{"while (i<!--n) {}", "accept", "-", "7.7"},
	{"1 <!-- ) ] }", "reject", "-", "7.7: `<!--` does not start a comment"},
	{"x = 1 <!-- comment", "accept", "-", "7.7: 1 < !(--comment)"},
	{"x = 1 <!-- a comment", "reject", "-", "7.7"},
	{"x = a-->b", "accept", "-", "7.7: (a--) > b"},
	{"x = 1\n--> comment", "reject", "-", "7.7: `-->` at the start of a line is not a comment"},
	{"x = a+++b", "accept", "-", "7.7: (a++) + b"},
	{"x = a---b", "accept", "-", "7.7"},
	{"x = a+ +b", "accept", "-", "7.7"},
	{"x = a++ +b", "accept", "-", "7.7"},
	{"x = a+++ +b", "accept", "-", "7.7"},
	{"x = a++++b", "reject", "-", "7.7: a ++ ++ b"},
	{"x = a>>>=b", "accept", "-", "7.7"},
	{"x = a>>>>=b", "reject", "-", "7.7: >>> >= has no left operand form"},
	{"x = a= >b", "reject", "-", "7.7"},
	{"x = a=>b", "reject", "-", "7.7: no arrow in ES5"},
	{"x = a!==b", "accept", "-", "7.7"},
	{"x = a!= =b", "reject", "-", "7.7"},
	{"x = a</b/", "accept", "-", "7.7 / 7.8.5: after < the slash starts a regular expression: a < /b/"},
	{"x = a</b/.source", "accept", "-", "7.8.5"},
	{"x = a/ /re/.source", "accept", "-", "7.8.5"},
	{"x = a//re/.source", "accept", "-", "7.4: `//` starts a comment; x = a"},
	{"x = a/*b*/c", "reject", "-", "7.4: x = a c"},
	{"x = a/ *b", "reject", "-", "11.5"},
	{"x = 1..toString()", "accept", "-", "7.8.3"},
	{"x = a?.5:1", "accept", "-", "7.7: ? .5 : 1 (no optional chaining in ES5)"},
	{"x = a**b", "reject", "-", "7.7: no ** in ES5"},
	{"x = a??b", "reject", "-", "7.7"},
	// where a numeric literal token ends (7.8.3)
	{"x = .5.toFixed(1)", "accept", "-", "7.8.3: the token .5 ends after its digits"},
	{".125.toString()", "accept", "-", "7.8.3"},
	{"x = .5.constructor", "accept", "-", "7.8.3"},
	{"typeof .5.e1", "accept", "-", "7.8.3: .e1 is a property access"},
	{"x = 5..toString()", "accept", "-", "7.8.3"},
	{"x = 5.5.toFixed()", "accept", "-", "7.8.3"},
	{"x = 0x1f.toString()", "accept", "-", "7.8.3"},
	{"x = 010.toString()", "accept", "-", "B.1.1"},
	{"x = 1e3.toString()", "accept", "-", "7.8.3"},
	{"x = 5.toString()", "reject", "-", "7.8.3: 5. is the literal, toString follows a number"},
	{"x = 5.5.5", "reject", "-", "7.8.3"},
	{"x = .5.5", "reject", "-", "7.8.3"},
	{"x = 1e", "reject", "-", "7.8.3"},
	{"x = 1e+", "reject", "-", "7.8.3"},
	{"x = 0x1g", "reject", "-", "7.8.3"},
	{"x = 5in y", "reject", "-", "7.8.3"},
	{"x = .5[0]", "accept", "-", "11.2.1"},
	{"x = .5\n.toFixed(1)", "accept", "-", "7.8.3 / 7.9.1: no ASI before `.`"},
	// 7.8.5: a RegularExpressionBackslashSequence does not contain a LineTerminator, inside a class either
	{"x = /[\\\n]/", "reject", "-", "7.8.5 RegularExpressionClassChar"},
	{"x = /[a\\\r]/", "reject", "-", "7.8.5"},
	{"x = /a\\\n/", "reject", "-", "7.8.5"},
	{"x = /[\\]]/", "accept", "-", "7.8.5"},
	{"/a/gg", "reject", "-", "7.8.5 / 15.10.4.1: a flag may not repeat; the error is early"},
	{"/a/x", "reject", "-", "15.10.4.1: only g, i, m"},
	{"var side = 1; if (false) /a/gg; side", "reject", "-", "7.8.5: early error even in code that never runs"},
	{"x = /a/gig", "reject", "-", "15.10.4.1"},
	{"x = /a/G", "reject", "-", "15.10.4.1"},
	{"x = /a/gim", "accept", "-", "15.10.4.1"},
	{"x = /a/mig", "accept", "-", "15.10.4.1"},
	{"x = /a/m", "accept", "-", "15.10.4.1"},
	{"a &^ b", "reject", "-", "7.7: `&^` is not an ES5 punctuator (a & ^b is a syntax error)"},
	{"a &^= b", "reject", "-", "7.7"},
}

// parser.ParseFunction (the Function constructor): parameter text and body text must form exactly one function literal.
var earlyFnTable = []struct{ params, body, expect, ref string }{
	{"", "", "accept", "15.3.2.1"},
	{"a, b", "return a + b", "accept", "15.3.2.1"},
	{"a", "}) (function(){", "reject", "15.3.2.1: body must parse as a FunctionBody"},
	{"", "})(function(){", "reject", "15.3.2.1"},
	{"a){ evil() }; (function(", "", "reject", "15.3.2.1: the parameter text must parse as a FormalParameterList"},
	{"a, b", "return /*", "reject", "7.4"},
	{"a b", "", "reject", "13"},
	{"", "break;", "reject", "12.8"},
	{"", "return", "accept", "12.9"},
	{"", "x = 1 } { y = 2", "reject", "15.3.2.1"},
	{"a //", "return a", "accept", "15.3.2.1: the parameter text is a FormalParameterList on its own; a line comment ends with it"},
	{"a /*", "*/ return a", "reject", "15.3.2.1: parameters and body are parsed separately"},
	{"a, b /* c */", "return a /* d */", "accept", "15.3.2.1"},
}

// file.FileSet.Position must agree with File.Position (the per-file answer) for every index of every file of a set.
var earlyFsTable = [][]string{
	{"var a = 1;\nvar b = 2;"},
	{"var a = 1;\nvar b = 2;", "x\n\ny = 3"},
	{"a", "", "b\r\nc", "d\u2028e"},
}

func implEarlyFs(f []string) string {
	fs := &file.FileSet{}
	var progs []*ast.Program
	for i, src := range strings.Split(astx.UnHex(f[3][1:]), "\x00") {
		p, err := parser.ParseFile(fs, fmt.Sprintf("f%d.js", i), src, 0)
		if err != nil {
			return "bad-source"
		}
		progs = append(progs, p)
	}
	for _, p := range progs {
		base := p.File.Base()
		for off := 0; off < len(p.File.Source()); off++ {
			a, b := fs.Position(file.Idx(base+off)), p.File.Position(file.Idx(base+off))
			if (a == nil) != (b == nil) || a != nil && *a != *b {
				return "reject"
			}
		}
	}
	return "accept"
}

func implEarlyFn(f []string) (out string) {
	defer func() {
		if r := recover(); r != nil {
			out = "panic:parse"
		}
	}()
	_, err := parser.ParseFunction(astx.UnHex(f[3][1:]), astx.UnHex(f[4][1:]))
	if err != nil {
		return "reject"
	}
	return "accept"
}

// a sourceMappingURL comment in the last line, in every malformed shape, must never make a valid program fail
var sourceMapTails = []string{
	"//# sourceMappingURL=data:application/json",
	"//# sourceMappingURL=data:application/json,",
	"//# sourceMappingURL=data:application/json;base64",
	"//# sourceMappingURL=data:application/json;base64,",
	"//# sourceMappingURL=data:application/json;base64,!!!not-base64!!!",
	"//# sourceMappingURL=data:application/json;base64,bm90IGpzb24=",
	"//# sourceMappingURL=data:application/json;base64,e30=",
	"//# sourceMappingURL=data:application/json;base64,eyJ2ZXJzaW9uIjo5OX0=",
	"//# sourceMappingURL=data:application/json;base64,eyJ2ZXJzaW9uIjozLCJzb3VyY2VzIjpbXSwibmFtZXMiOltdLCJtYXBwaW5ncyI6IiEhISJ9",
	"//# sourceMappingURL=data:application/json;base64,eyJ2ZXJzaW9uIjozLCJzb3VyY2VzIjpbImEuanMiXSwibmFtZXMiOltdLCJtYXBwaW5ncyI6IkFBQUEifQ==",
	"//# sourceMappingURL=data:application/json;charset=utf-8;base64,e30=,e30=",
	"//# sourceMappingURL=",
	"//# sourceMappingURL=file.map",
	"//# sourceMappingURL=data:application/json,{\"version\":3}",
}

func genEarly(c *h.Ctx) {
	for _, prog := range []string{"var a = 1;", "x = 1\ny = 2", "function f(){ return 1 }\nf()", ""} {
		for _, tail := range sourceMapTails {
			for _, sep := range []string{"\n", "\n\n", " "} {
				c.Add("early accept - x"+astx.Hex(prog+sep+tail), "early", "early:sourcemap-tail")
			}
		}
	}
	for _, set := range earlyFsTable {
		c.Add("earlyfs accept - x"+astx.Hex(strings.Join(set, "\x00")), "earlyfs")
	}
	for _, t := range earlyFnTable {
		c.Add("earlyfn "+t.expect+" - x"+astx.Hex(t.params)+" x"+astx.Hex(t.body), "earlyfn", "earlyfn:"+t.expect)
	}
	for _, t := range earlyTable {
		c.Add("early "+t.expect+" "+t.region+" x"+astx.Hex(t.src), "early", "early:"+t.expect)
	}
}

func implEarly(f []string) string {
	o := safeParse(astx.UnHex(f[3][1:]))
	if o.panicV != "" {
		return "panic:parse"
	}
	if o.err != nil {
		return "reject"
	}
	return "accept"
}
