package main

import (
	"fmt"
	"sort"
	"strings"
	"sync"
	"unicode/utf8"

	"github.com/robertkrimen/otto"
	"github.com/robertkrimen/otto/ast"
	"github.com/robertkrimen/otto/parser"
	"ottoverif/cmd/c03/astx"
	"ottoverif/h"
)

func init() {
	h.Register(&h.Prop{ID: "C04", Gen: genC04, Impl: implC04, Trivial: func(l string) bool { return false }})
}

// ---------------------------------------------------------------- observation of the real code

type parseOut struct {
	prog   *ast.Program
	err    error
	panicV string
}

func safeParse(src string) (o parseOut) {
	defer func() {
		if r := recover(); r != nil {
			o.panicV = fmt.Sprint(r)
		}
	}()
	o.prog, o.err = parser.ParseFile(nil, "", src, 0)
	return
}

type walkRec struct{ entered []ast.Node }

func (w *walkRec) Enter(n ast.Node) ast.Visitor { w.entered = append(w.entered, n); return w }
func (w *walkRec) Exit(n ast.Node)              {}

type nodeRec struct {
	n      ast.Node
	parent int
	i0, i1 int
	ok     bool
}

func safeSpan(n ast.Node) (i0, i1 int, ok bool) {
	defer func() {
		if r := recover(); r != nil {
			ok = false
		}
	}()
	return int(n.Idx0()), int(n.Idx1()), true
}

// treeVerdict describes what the real code does on an accepted tree.
func treeVerdict(prog *ast.Program, srcLen int) string {
	var nodes []nodeRec
	var rec func(n ast.Node, parent int)
	rec = func(n ast.Node, parent int) {
		if astx.IsNil(n) {
			return
		}
		i0, i1, ok := safeSpan(n)
		me := len(nodes)
		nodes = append(nodes, nodeRec{n, parent, i0, i1, ok})
		for _, k := range astx.Kids(n) {
			rec(k, me)
		}
	}
	rec(prog, -1)
	w := &walkRec{}
	walkPanic := ""
	func() {
		defer func() {
			if r := recover(); r != nil {
				walkPanic = fmt.Sprint(r)
			}
		}()
		ast.Walk(w, prog)
	}()
	nilEnters, enters := 0, 0
	seq := "ok"
	j := 0
	for _, e := range w.entered {
		if astx.IsNil(e) {
			nilEnters++
			continue
		}
		enters++
		if j < len(nodes) && nodes[j].n == e {
			j++
		} else {
			seq = "bad"
		}
	}
	if j != len(nodes) || walkPanic != "" {
		seq = "bad"
	}
	panics, oob, unnested, sum := 0, 0, 0, 0
	for _, r := range nodes {
		if !r.ok {
			panics++
			continue
		}
		sum = (sum*31 + r.i0*131 + r.i1) % 1000000007
		if r.i0 < 1 || r.i1 > srcLen+1 || r.i0 > r.i1 {
			oob++
		}
		if r.parent >= 0 && nodes[r.parent].ok {
			p := nodes[r.parent]
			if r.i0 < p.i0 || r.i1 > p.i1 {
				unnested++
			}
		}
	}
	return fmt.Sprintf("accept:n=%d,enter=%d,nil=%d,seq=%s,panic=%d,oob=%d,unnested=%d,sum=%d", len(nodes), enters, nilEnters, seq, panics, oob, unnested, sum)
}

var vmPool = sync.Pool{New: func() interface{} { return otto.New() }}

const snapshotJS = `(function(g){var n=Object.getOwnPropertyNames(g).sort(),s=[];for(var i=0;i<n.length;i++){var d=Object.getOwnPropertyDescriptor(g,n[i]);s.push(n[i]+':'+typeof d.value+':'+(typeof d.value=='object'||typeof d.value=='function'?'':String(d.value)))}return s.join('|')})(this)`

// rejectVerdict checks the rejected-source obligations: positions in bounds, no side effect.
func rejectVerdict(src string, err error, withVM bool) string {
	var bad []string
	if el, ok := err.(*parser.ErrorList); ok {
		lines := 1
		for i := 0; i < len(src); {
			r, w := utf8.DecodeRuneInString(src[i:])
			if r == '\n' || r == '\r' || r == 0x2028 || r == 0x2029 {
				lines++
			}
			i += w
		}
		for _, e := range *el {
			if e.Position.Line < 1 || e.Position.Line > lines || e.Position.Column < 0 || e.Position.Column > len(src)+1 {
				bad = append(bad, "pos-oob")
				break
			}
		}
		if len(*el) == 0 {
			bad = append(bad, "empty-error-list")
		}
	} else {
		bad = append(bad, "error-type")
	}
	reuse := false
	var vm *otto.Otto
	if withVM {
		vm = vmPool.Get().(*otto.Otto)
		reuse = true
	}
	if withVM {
		func() {
			defer func() {
				if r := recover(); r != nil {
					bad = append(bad, "run-panic")
					reuse = false
				}
			}()
			before, _ := vm.Run(snapshotJS)
			_, rerr := vm.Run(src)
			after, _ := vm.Run(snapshotJS)
			if rerr == nil {
				bad = append(bad, "run-accepted")
				reuse = false
			}
			if before.String() != after.String() {
				bad = append(bad, "side-effect")
				reuse = false
			}
		}()
	}
	if reuse {
		vmPool.Put(vm)
	}
	if len(bad) == 0 {
		return "total"
	}
	sort.Strings(bad)
	return "reject:" + strings.Join(bad, "+")
}

func implC04(line string) string {
	f := strings.Fields(line)
	switch f[0] {
	case "tree":
		src := astx.UnHex(f[1][1:])
		o := safeParse(src)
		if o.panicV != "" {
			return "panic:parse"
		}
		if o.err != nil {
			return "reject"
		}
		return treeVerdict(o.prog, len(src))
	case "junk":
		src := astx.UnHex(f[1][1:])
		o := safeParse(src)
		if o.panicV != "" {
			return "panic:parse"
		}
		if o.err == nil {
			return "accept"
		}
		return rejectVerdict(src, o.err, f[2] == "v")
	case "early":
		return implEarly(f)
	case "earlyfn":
		return implEarlyFn(f)
	case "earlyfs":
		return implEarlyFs(f)
	case "pos":
		return implPos(f)
	case "early2":
		return implEarly2(f)
	case "resv":
		return implResv(f)
	case "resvtok":
		return implResvTok(f)
	}
	return "bad-op"
}

// ---------------------------------------------------------------- generation

var c04Corpus = []string{
	"", ";", "a", "a;b", "a\nb", "for(;;)break;", "for(;;){continue}", "switch(1){case 1:}", "switch(x){case 1: a; default: b; case 2:}",
	"x: for(;;){ break x; }", "x: y: while(1) { continue x; }", "try{}finally{}", "try{a}catch(e){b}", "try{}catch(e){}finally{}",
	"(function(){})", "(function f(a,b){return a+b})(1,2)", "function f(){ return }", "function f(){ return\n1 }", "var a = 1, b", "var a\nvar b",
	"if(a)b;else c", "if(a){}else if(b){}else{}", "do x++; while(x<5)", "do{}while(0) a", "while(0);", "for(var i=0;i<1;i++);", "for(var k in o);", "for(k in o){}", "for(a.b in o);",
	"with(a)b", "throw a", "debugger", "a = b ? c : d", "a = (b, c)", "a.b.c[d](e)(f).g", "new a", "new a.b(c)", "new new a()()", "new (a())()", "x++\ny", "x\n++y", "-x++", "typeof void delete a.b",
	"[1,,2,]", "[,]", "({a:1,'b':2,3:4,get c(){return 1},set c(v){}})", "({get:1,set:2})", "({get get(){}})", "/a/g.test('a')", "a / b / c", "a /= 2", "x = /=/", "'\\u0041\\x41\\101\\\n'", "0x1F + 017 + .5e1",
	"a: { break a; }", "a \\u0062", "\\u0061b = 1", "a++ + ++b", "a - -b", "a+ +b", "i in o", "1 < 2 < 3", "a instanceof B", "(a)", "((a))", "(a) = 1", "(a)++", "(a.b)++", "x = function(){}", "x = {}", "{}", "{a:1}",
	"\ufeffa", "a\u00a0b", "a/*x*/b", "a//x\nb", "/*\n*/a", "' '", "a\u2028b", "if (a) function f(){}",
}

func mutateTokens(r *h.Rng, src string) string {
	toks, _ := parser.VerifScanAll(src)
	if len(toks) < 2 {
		return src + "("
	}
	// token texts by slicing the source between token starts
	var parts []string
	for i := 0; i+1 < len(toks); i++ {
		a, b := int(toks[i].Idx)-1, int(toks[i+1].Idx)-1
		if a < 0 || b > len(src) || a > b {
			return src + ")"
		}
		parts = append(parts, src[a:b])
	}
	if len(parts) == 0 {
		return src + "}"
	}
	i := r.Intn(len(parts))
	ins := []string{"(", ")", "{", "}", "[", "]", ";", ",", ".", "+", "++", "=", "in ", "var ", "function ", "return ", "break ", "continue ", "case ", ":", "?", "x ", "1 ", "'s'", "/", "else ", "new ", "catch ", "finally ", "try ", "class ", "enum ", "\n", "\\", "\"", "/*", "0x", "1e", "@", "#", "\x00", "\xff", " "}
	switch r.Intn(4) {
	case 0: // deletion
		parts = append(parts[:i:i], parts[i+1:]...)
	case 1: // insertion
		parts = append(parts[:i:i], append([]string{ins[r.Intn(len(ins))]}, parts[i:]...)...)
	case 2: // swap
		j := r.Intn(len(parts))
		parts[i], parts[j] = parts[j], parts[i]
	case 3: // truncation
		parts = parts[:i]
		if r.Bool() && i < len(parts) {
			parts = append(parts, parts[i][:len(parts[i])/2])
		}
	}
	return strings.Join(parts, "")
}

func randomBytes(r *h.Rng) string {
	n := r.Intn(24)
	alphabet := "abx01 \n\t(){}[];,.+-*/%<>=!&|^~?:'\"\\$_"
	b := make([]byte, n)
	for i := range b {
		switch r.Intn(10) {
		case 0:
			b[i] = byte(r.Intn(256))
		case 1:
			b[i] = []byte{0xc3, 0xa9, 0xe2, 0x80, 0xa8, 0xf0, 0x9f, 0x98, 0x80, 0xed, 0xa0, 0x80}[r.Intn(12)]
		default:
			b[i] = alphabet[r.Intn(len(alphabet))]
		}
	}
	return string(b)
}

func addSource(c *h.Ctx, src, origin string) {
	o := safeParse(src)
	switch {
	case o.panicV != "":
		c.Add("junk x"+astx.Hex(src)+" -", origin, "outcome:panic")
	case o.err != nil:
		// the runtime side of the obligation (Run reports an error, global object unchanged) costs a VM run: every rejected
		// source in the quick tier, every fourth in the thorough tier (the check must stay inside the 20 s per-request limit
		// of the shared harness on a loaded machine)
		flag := "v"
		if c.Thorough() && len(c.Lines)%4 != 0 {
			flag = "-"
		}
		c.Add("junk x"+astx.Hex(src)+" "+flag, origin, "outcome:reject")
	default:
		c.Add("tree x"+astx.Hex(src)+" "+astx.RawDump(o.prog), origin, "outcome:accept")
	}
}

// genTruncatedEscapes: escape sequences cut short at every position — alone, after a complete (surrogate) escape and
// followed by the closing delimiter — in string literals, object keys, identifiers and regular expression literals.
// Whatever the scanner and the literal decoders do with them, they must not panic (totality), and if the source is
// accepted its tree must be well-formed.
func genTruncatedEscapes(c *h.Ctx) {
	fulls := []string{"\\uD83D\\uDE00", "\\uDC00\\u1234", "\\uD83D\\u0041", "\\u0041\\uD83D", "\\x41\\x42", "\\uD83D\\x41", "\\101\\uD83D", "\\u0061\\u0062"}
	frames := []struct{ pre, post string }{
		{"\"", "\""}, {"'", "'"}, {"x = \"", "\";"}, {"({\"", "\": 1})"}, {"({'", "': 1, b: 2})"}, {"({get \"", "\"(){}})"},
		{"var a", " = 1"}, {"var ", " = 1"}, {"o.", ""}, {"({", ": 1})"}, {"function ", "(){}"}, {"L", ": ;"},
		{"/", "/"}, {"x = /a", "/g"}, {"x = /[", "]/"}, {"/", "/.test('a')"},
		{"\"", ""}, {"'abc", ""}, {"/", ""}, {"x = \"", "\n\""},
	}
	for _, full := range fulls {
		for cut := 0; cut <= len(full); cut++ {
			for _, fr := range frames {
				addSource(c, fr.pre+full[:cut]+fr.post, "src:truncated-escape")
			}
		}
	}
}

func genC04(c *h.Ctx) {
	for _, s := range c04Corpus {
		addSource(c, s, "src:corpus")
	}
	g := &astx.JSGen{R: c.Rng}
	var valid []string
	for i := 0; i < c.N(4000, 150000); i++ {
		s := g.Program(1 + c.Rng.Intn(4))
		valid = append(valid, s)
		addSource(c, s, "src:generated")
	}
	valid = append(valid, c04Corpus...)
	for i := 0; i < c.N(12000, 600000); i++ {
		s := mutateTokens(c.Rng, valid[c.Rng.Intn(len(valid))])
		if c.Rng.Chance(15) {
			s = mutateTokens(c.Rng, s)
		}
		addSource(c, s, "src:mutated")
	}
	for i := 0; i < c.N(4000, 250000); i++ {
		addSource(c, randomBytes(c.Rng), "src:random-bytes")
	}
	genTruncatedEscapes(c)
	genEarly(c)
	genEarly2(c)
	genPos(c)
	genResv(c)
}
