// Command c03 is the correspondence harness binary for property C03.
package main

import "ottoverif/h"

func main() { h.Main("C03") }
