package main

import (
	"strings"

	"github.com/robertkrimen/otto/ast"
	"github.com/robertkrimen/otto/parser"
	"ottoverif/cmd/c03/astx"
	"ottoverif/h"
)

func init() {
	h.Register(&h.Prop{ID: "C03", Gen: genC03, Impl: implC03, Trivial: func(l string) bool { return false }})
}

// parseExprText parses src with the real parser and returns the grammar-level dump of the single
// expression statement, or "reject".
func parseExprText(src string) string {
	prog, err := parser.ParseFile(nil, "", src, 0)
	if err != nil {
		return "reject"
	}
	if len(prog.Body) != 1 {
		return "reject:statements"
	}
	es, ok := prog.Body[0].(*ast.ExpressionStatement)
	if !ok {
		return "reject:" + astx.Kind(prog.Body[0])
	}
	return fromAST(es.Expression).String()
}

func implC03(line string) string {
	f := strings.Fields(line)
	switch f[0] {
	case "expr":
		if strings.HasPrefix(f[1], "ctx:") {
			return parseCtxText(astx.UnHex(f[3][1:]))
		}
		return parseExprText(astx.UnHex(f[3][1:]))
	case "cmt":
		return implCmt(f)
	case "asi":
		return implAsi(f)
	case "noin":
		return implNoIn(f)
	case "asire":
		return implAsiRe(f)
	case "obj":
		return implObj(f)
	case "punct":
		return implPunct(f)
	case "numadj":
		return implNumAdj(f)
	case "num":
		return implNum(f)
	case "str":
		return implStr(f)
	}
	return "bad-op"
}

// implNoIn: the expression inside a for-header, as the real parser built it.
func implNoIn(f []string) string {
	prog, err := parser.ParseFile(nil, "", astx.UnHex(f[3][1:]), 0)
	if err != nil || len(prog.Body) != 1 {
		return "reject"
	}
	switch st := prog.Body[0].(type) {
	case *ast.ForStatement:
		if f[1] != "init" {
			return "reject:for"
		}
		if seq, ok := st.Initializer.(*ast.SequenceExpression); ok && len(seq.Sequence) == 1 {
			return fromAST(seq.Sequence[0]).String()
		}
		return "reject:initializer"
	case *ast.ForInStatement:
		if f[1] != "var" {
			return "reject:forin"
		}
		if v, ok := st.Into.(*ast.VariableExpression); ok && v.Initializer != nil {
			return fromAST(v.Initializer).String()
		}
		return "reject:into"
	}
	return "reject:" + astx.Kind(prog.Body[0])
}

func addNoIn(c *h.Ctx, e *Ex, form string, key string) {
	w := &renderer{r: c.Rng}
	var src string
	if form == "var" {
		w.pos(1, false, e)
		src = "for ( var v = " + w.text(false) + " in z ) ;"
	} else {
		w.pos(0, false, e)
		src = "for ( " + w.text(false) + " ; ; ) ;"
	}
	toks, _ := parser.VerifScanAll(src)
	c.Add("noin "+form+" "+e.String()+" x"+astx.Hex(src)+" "+astx.TokWire(toks), "noin:"+form, key)
}

// genNoIn: expressions in for-headers (NoIn): relational chains, `in` under every operator, ?: with `in` in each operand,
// for both header forms (the `var` form is followed by the `in` of the for-in and must leave it alone).
func genNoIn(c *h.Ctx) {
	g := &gen{r: c.Rng}
	a, b, cc, d := &Ex{K: "id", Op: "a"}, &Ex{K: "id", Op: "b"}, &Ex{K: "id", Op: "c"}, &Ex{K: "id", Op: "d"}
	in := func(x, y *Ex) *Ex { return &Ex{K: "bin", Op: "in", A: []*Ex{x, y}} }
	bin := func(op string, x, y *Ex) *Ex { return &Ex{K: "bin", Op: op, A: []*Ex{x, y}} }
	var fixed []*Ex
	for _, op := range binOps {
		fixed = append(fixed, bin(op, in(a, b), cc), bin(op, a, in(b, cc)), bin(op, bin(op, a, b), cc), bin(op, a, bin(op, b, cc)))
	}
	for _, r1 := range []string{"lt", "gt", "le", "ge", "instanceof", "in"} {
		for _, r2 := range []string{"lt", "gt", "le", "ge", "instanceof", "in"} {
			fixed = append(fixed, bin(r2, bin(r1, a, b), cc), bin(r1, a, bin(r2, b, cc)), bin(r2, bin(r1, bin(r2, a, b), cc), d))
		}
	}
	cond := func(x, y, z *Ex) *Ex { return &Ex{K: "cond", A: []*Ex{x, y, z}} }
	fixed = append(fixed, cond(a, in(b, cc), d), cond(in(a, b), cc, d), cond(a, b, in(cc, d)), cond(a, cond(b, in(cc, d), a), d),
		&Ex{K: "asg", Op: "assign", A: []*Ex{a, in(b, cc)}}, &Ex{K: "asg", Op: "assign", A: []*Ex{a, cond(b, in(cc, d), a)}},
		&Ex{K: "call", A: []*Ex{a, in(b, cc)}}, &Ex{K: "idx", A: []*Ex{a, in(b, cc)}}, &Ex{K: "un", Op: "not", A: []*Ex{in(a, b)}},
		bin("lt", bin("lt", &Ex{K: "num", Op: "1"}, &Ex{K: "num", Op: "2"}), &Ex{K: "num", Op: "3"}))
	for _, e := range fixed {
		addNoIn(c, e, "init", "noin:fixed")
		addNoIn(c, e, "var", "noin:fixed")
	}
	for i := 0; i < c.N(4000, 100000); i++ {
		e := g.expr(1 + c.Rng.Intn(4))
		addNoIn(c, e, []string{"init", "var"}[c.Rng.Intn(2)], "noin:random")
	}
}

func addExpr(c *h.Ctx, e *Ex, mode string, key string) {
	w := &renderer{r: c.Rng}
	trivia := false
	switch mode {
	case "extra":
		w.extra = 25
	case "trivia":
		trivia = true
	case "both":
		w.extra = 15
		trivia = true
	case "tight":
		w.tight = true
	case "tightextra":
		w.tight = true
		w.extra = 20
	}
	w.pos(0, true, e)
	src := w.text(trivia)
	toks, _ := parser.VerifScanAll(src)
	c.Add("expr "+mode+" "+e.String()+" x"+astx.Hex(src)+" "+astx.TokWire(toks), "expr:"+mode, key)
}

func genC03(c *h.Ctx) {
	g := &gen{r: c.Rng}
	modes := []string{"min", "extra", "trivia", "both", "tight", "tightextra"}
	// exhaustive: every ordered pair of binary operators in both nestings, every unary/postfix/cond/assign against every binary
	a, b, cc := &Ex{K: "id", Op: "a"}, &Ex{K: "id", Op: "b"}, &Ex{K: "id", Op: "c"}
	for _, o1 := range binOps {
		for _, o2 := range binOps {
			l := &Ex{K: "bin", Op: o2, A: []*Ex{&Ex{K: "bin", Op: o1, A: []*Ex{a, b}}, cc}}
			r := &Ex{K: "bin", Op: o1, A: []*Ex{a, &Ex{K: "bin", Op: o2, A: []*Ex{b, cc}}}}
			for _, m := range []string{"min", "extra", "tight"} {
				addExpr(c, l, m, "pairs:left-nested")
				addExpr(c, r, m, "pairs:right-nested")
			}
		}
		inner := &Ex{K: "bin", Op: o1, A: []*Ex{a, b}}
		for _, u := range unOps {
			if u != "preinc" && u != "predec" {
				addExpr(c, &Ex{K: "un", Op: u, A: []*Ex{inner}}, "min", "pairs:unary-over-binary")
			}
			ua := &Ex{K: "un", Op: u, A: []*Ex{a}}
			addExpr(c, &Ex{K: "bin", Op: o1, A: []*Ex{b, ua}}, "tight", "pairs:binary-over-unary")
			addExpr(c, &Ex{K: "bin", Op: o1, A: []*Ex{&Ex{K: "post", Op: "dec", A: []*Ex{a}}, ua}}, "tight", "pairs:postfix-binary-unary")
			for _, u2 := range unOps {
				if u2 != "preinc" && u2 != "predec" {
					addExpr(c, &Ex{K: "bin", Op: o1, A: []*Ex{b, &Ex{K: "un", Op: u2, A: []*Ex{ua}}}}, "tight", "pairs:binary-unary-unary")
				}
			}
			addExpr(c, &Ex{K: "bin", Op: o1, A: []*Ex{ua, b}}, "min", "pairs:binary-over-unary")
			addExpr(c, &Ex{K: "bin", Op: o1, A: []*Ex{b, ua}}, "min", "pairs:binary-over-unary")
		}
		pa := &Ex{K: "post", Op: "inc", A: []*Ex{a}}
		addExpr(c, &Ex{K: "bin", Op: o1, A: []*Ex{pa, b}}, "min", "pairs:postfix")
		addExpr(c, &Ex{K: "bin", Op: o1, A: []*Ex{b, pa}}, "min", "pairs:postfix")
		addExpr(c, &Ex{K: "cond", A: []*Ex{inner, inner, inner}}, "min", "pairs:cond")
		addExpr(c, &Ex{K: "bin", Op: o1, A: []*Ex{&Ex{K: "cond", A: []*Ex{a, b, cc}}, b}}, "min", "pairs:cond")
		addExpr(c, &Ex{K: "bin", Op: o1, A: []*Ex{a, &Ex{K: "cond", A: []*Ex{a, b, cc}}}}, "min", "pairs:cond")
		for _, ao := range asgOps {
			addExpr(c, &Ex{K: "asg", Op: ao, A: []*Ex{a, inner}}, "min", "pairs:assign")
			addExpr(c, &Ex{K: "bin", Op: o1, A: []*Ex{&Ex{K: "asg", Op: ao, A: []*Ex{a, b}}, cc}}, "min", "pairs:assign")
			addExpr(c, &Ex{K: "bin", Op: o1, A: []*Ex{cc, &Ex{K: "asg", Op: ao, A: []*Ex{a, b}}}}, "min", "pairs:assign")
		}
	}
	for i := 0; i < c.N(12000, 400000); i++ {
		e := g.expr(1 + c.Rng.Intn(5))
		addExpr(c, e, modes[c.Rng.Intn(len(modes))], "random")
	}
	genLit(c)
	genAsi(c)
	genAsiRe(c)
	genNoIn(c)
	genCtx(c)
	genCmt(c)
	genObj(c)
	genPunct(c)
}
