package main

import (
	"strings"

	"github.com/robertkrimen/otto/ast"
	"github.com/robertkrimen/otto/parser"
	"ottoverif/cmd/c03/astx"
	"ottoverif/h"
)

func init() {
	h.Register(&h.Prop{ID: "C03", Gen: genC03, Impl: implC03, Trivial: func(l string) bool { return false }})
}

// parseExprText parses src with the real parser and returns the grammar-level dump of the single
// expression statement, or "reject".
func parseExprText(src string) string {
	prog, err := parser.ParseFile(nil, "", src, 0)
	if err != nil {
		return "reject"
	}
	if len(prog.Body) != 1 {
		return "reject:statements"
	}
	es, ok := prog.Body[0].(*ast.ExpressionStatement)
	if !ok {
		return "reject:" + astx.Kind(prog.Body[0])
	}
	return fromAST(es.Expression).String()
}

func implC03(line string) string {
	f := strings.Fields(line)
	switch f[0] {
	case "expr":
		return parseExprText(astx.UnHex(f[3][1:]))
	case "asi":
		return implAsi(f)
	case "num":
		return implNum(f)
	case "str":
		return implStr(f)
	}
	return "bad-op"
}

func addExpr(c *h.Ctx, e *Ex, mode string, key string) {
	w := &renderer{r: c.Rng}
	trivia := false
	switch mode {
	case "extra":
		w.extra = 25
	case "trivia":
		trivia = true
	case "both":
		w.extra = 15
		trivia = true
	}
	w.pos(0, true, e)
	src := w.text(trivia)
	toks, _ := parser.VerifScanAll(src)
	c.Add("expr "+mode+" "+e.String()+" x"+astx.Hex(src)+" "+astx.TokWire(toks), "expr:"+mode, key)
}

func genC03(c *h.Ctx) {
	g := &gen{r: c.Rng}
	modes := []string{"min", "extra", "trivia", "both"}
	// exhaustive: every ordered pair of binary operators in both nestings, every unary/postfix/cond/assign against every binary
	a, b, cc := &Ex{K: "id", Op: "a"}, &Ex{K: "id", Op: "b"}, &Ex{K: "id", Op: "c"}
	for _, o1 := range binOps {
		for _, o2 := range binOps {
			l := &Ex{K: "bin", Op: o2, A: []*Ex{&Ex{K: "bin", Op: o1, A: []*Ex{a, b}}, cc}}
			r := &Ex{K: "bin", Op: o1, A: []*Ex{a, &Ex{K: "bin", Op: o2, A: []*Ex{b, cc}}}}
			for _, m := range []string{"min", "extra"} {
				addExpr(c, l, m, "pairs:left-nested")
				addExpr(c, r, m, "pairs:right-nested")
			}
		}
		inner := &Ex{K: "bin", Op: o1, A: []*Ex{a, b}}
		for _, u := range unOps {
			if u != "preinc" && u != "predec" {
				addExpr(c, &Ex{K: "un", Op: u, A: []*Ex{inner}}, "min", "pairs:unary-over-binary")
			}
			ua := &Ex{K: "un", Op: u, A: []*Ex{a}}
			addExpr(c, &Ex{K: "bin", Op: o1, A: []*Ex{ua, b}}, "min", "pairs:binary-over-unary")
			addExpr(c, &Ex{K: "bin", Op: o1, A: []*Ex{b, ua}}, "min", "pairs:binary-over-unary")
		}
		pa := &Ex{K: "post", Op: "inc", A: []*Ex{a}}
		addExpr(c, &Ex{K: "bin", Op: o1, A: []*Ex{pa, b}}, "min", "pairs:postfix")
		addExpr(c, &Ex{K: "bin", Op: o1, A: []*Ex{b, pa}}, "min", "pairs:postfix")
		addExpr(c, &Ex{K: "cond", A: []*Ex{inner, inner, inner}}, "min", "pairs:cond")
		addExpr(c, &Ex{K: "bin", Op: o1, A: []*Ex{&Ex{K: "cond", A: []*Ex{a, b, cc}}, b}}, "min", "pairs:cond")
		addExpr(c, &Ex{K: "bin", Op: o1, A: []*Ex{a, &Ex{K: "cond", A: []*Ex{a, b, cc}}}}, "min", "pairs:cond")
		for _, ao := range asgOps {
			addExpr(c, &Ex{K: "asg", Op: ao, A: []*Ex{a, inner}}, "min", "pairs:assign")
			addExpr(c, &Ex{K: "bin", Op: o1, A: []*Ex{&Ex{K: "asg", Op: ao, A: []*Ex{a, b}}, cc}}, "min", "pairs:assign")
			addExpr(c, &Ex{K: "bin", Op: o1, A: []*Ex{cc, &Ex{K: "asg", Op: ao, A: []*Ex{a, b}}}}, "min", "pairs:assign")
		}
	}
	for i := 0; i < c.N(12000, 400000); i++ {
		e := g.expr(1 + c.Rng.Intn(5))
		addExpr(c, e, modes[c.Rng.Intn(len(modes))], "random")
	}
	genLit(c)
	genAsi(c)
}
