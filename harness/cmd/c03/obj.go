package main

import (
	"strings"

	"github.com/robertkrimen/otto/ast"
	"github.com/robertkrimen/otto/parser"
	"ottoverif/cmd/c03/astx"
	"ottoverif/h"
)

// The `obj` stream: object literals whose properties are data properties, getters and setters named by every kind of
// PropertyName (ES5 11.1.5): each keyword / future reserved word / null / true / false (plain and with an escape),
// identifiers incl. non-ASCII IdentifierParts, `get`/`set` themselves, numeric literals of every form and string literals —
// the cross product kind x name, plus random multi-property literals.  Compared: the (Kind, Key) list of the real AST with
// the Lean transcription of parseObjectPropertyKey and with the specification (key = SV / ToString(MV) / identifier name).

type objKey struct{ kind, text string }

func objKeys() []objKey {
	var ks []objKey
	for _, w := range []string{"break", "case", "catch", "continue", "debugger", "default", "delete", "do", "else", "finally", "for", "function", "if", "in",
		"instanceof", "new", "return", "switch", "this", "throw", "try", "typeof", "var", "void", "while", "with",
		"class", "const", "enum", "export", "extends", "import", "super", "null", "true", "false"} {
		ks = append(ks, objKey{"id", w})
	}
	for _, w := range []string{"a", "$", "_x", "get", "set", "of", "let", "static", "\\u0069f", "v\\u0061r", "nul\\u006c", "\\u0061b",
		"e\u0301", "a\u0663", "a\u203f", "\u2160", "\u2118", "x\u0300y"} {
		ks = append(ks, objKey{"id", w})
	}
	for _, w := range []string{"0", "1", "42", "1.0", "1.50", "1e3", "2E2", ".5", "0.25", "5.", "0x10", "0XfF", "010", "00", "100", "9007199254740992",
		"1e21", "1E+21", "1e20", "100000000000000000000", "1000000000000000000000", "1.25e22", "12.50e1", "1e-6", "0.000001", "1e-7", "0.0000001",
		"1.5e-10", "4.5E-5", "0.1", "1.5e300", "1e999", "0.0", "0e5", "0x0", "123456789012345", "0.000123456789012345", "077", "0xFFFFFFFFFFFFF"} {
		ks = append(ks, objKey{"num", w})
	}
	for _, w := range []string{"'a'", "\"b c\"", "'\\x41'", "'if'", "'1'", "''", "'\\u00e9'", "'get'", "\"\\n\""} {
		ks = append(ks, objKey{"str", w})
	}
	return ks
}

func objRender(kinds []string, keys []objKey) (string, string) {
	var src, ent []string
	for i, k := range keys {
		switch kinds[i] {
		case "value":
			src = append(src, k.text+" : 1")
		case "get":
			src = append(src, "get "+k.text+" ( ) { }")
		case "set":
			src = append(src, "set "+k.text+" ( v ) { }")
		}
		ent = append(ent, kinds[i]+"."+k.kind+"~"+astx.Hex(k.text))
	}
	return "({ " + strings.Join(src, " , ") + " });", strings.Join(ent, ",")
}

func genObj(c *h.Ctx) {
	keys := objKeys()
	kinds := []string{"value", "get", "set"}
	for _, k := range keys {
		for _, kd := range kinds {
			src, ent := objRender([]string{kd}, []objKey{k})
			c.Add("obj "+ent+" x"+astx.Hex(src), "obj", "obj:single:"+kd)
		}
	}
	for i := 0; i < c.N(1500, 40000); i++ {
		n := 2 + c.Rng.Intn(3)
		var ks []objKey
		var kd []string
		for j := 0; j < n; j++ {
			ks = append(ks, keys[c.Rng.Intn(len(keys))])
			kd = append(kd, kinds[c.Rng.Intn(3)])
		}
		src, ent := objRender(kd, ks)
		c.Add("obj "+ent+" x"+astx.Hex(src), "obj", "obj:multi")
	}
}

func implObj(f []string) string {
	prog, err := parser.ParseFile(nil, "", astx.UnHex(f[2][1:]), 0)
	if err != nil || len(prog.Body) != 1 {
		return "reject"
	}
	es, ok := prog.Body[0].(*ast.ExpressionStatement)
	if !ok {
		return "reject:statement"
	}
	ol, ok := es.Expression.(*ast.ObjectLiteral)
	if !ok {
		return "reject:" + astx.Kind(es.Expression)
	}
	var out []string
	for _, p := range ol.Value {
		e := p.Kind + ":" + astx.Hex(p.Key)
		if fl, ok := p.Value.(*ast.FunctionLiteral); ok && p.Kind != "value" {
			e += ":" + astx.Hex(fl.Source) // the source text of the accessor, as for every other function literal
		}
		out = append(out, e)
	}
	return strings.Join(out, ",")
}
