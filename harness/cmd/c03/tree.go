package main

import (
	"fmt"
	"strings"

	"github.com/robertkrimen/otto/ast"
	"github.com/robertkrimen/otto/token"
	"ottoverif/cmd/c03/astx"
	"ottoverif/h"
)

// Ex is an expression tree of the ES5 grammar (mirror of Lean `C03.E`).
//
//	K: id num str bool null this bin un post cond asg dot idx call new newx
type Ex struct {
	K  string
	Op string // operator name (bin/un/asg), "inc"/"dec" for post, literal text for id/num/str/bool, name for dot
	A  []*Ex  // operands; call/new: A[0] = callee, rest = arguments
}

var binOps = []string{"mul", "div", "rem", "add", "sub", "shl", "shr", "ushr", "lt", "gt", "le", "ge", "instanceof", "in", "eq", "ne", "seq", "sne", "band", "bxor", "bor", "land", "lor", "comma"}
var binText = map[string]string{"mul": "*", "div": "/", "rem": "%", "add": "+", "sub": "-", "shl": "<<", "shr": ">>", "ushr": ">>>", "lt": "<", "gt": ">", "le": "<=", "ge": ">=",
	"instanceof": "instanceof", "in": "in", "eq": "==", "ne": "!=", "seq": "===", "sne": "!==", "band": "&", "bxor": "^", "bor": "|", "land": "&&", "lor": "||", "comma": ","}
var binPrec = map[string]int{"comma": 0, "lor": 3, "land": 4, "bor": 5, "bxor": 6, "band": 7, "eq": 8, "ne": 8, "seq": 8, "sne": 8, "lt": 9, "gt": 9, "le": 9, "ge": 9, "instanceof": 9, "in": 9,
	"shl": 10, "shr": 10, "ushr": 10, "add": 11, "sub": 11, "mul": 12, "div": 12, "rem": 12}
var unOps = []string{"pos", "neg", "not", "bnot", "delete", "void", "typeof", "preinc", "predec"}
var unText = map[string]string{"pos": "+", "neg": "-", "not": "!", "bnot": "~", "delete": "delete", "void": "void", "typeof": "typeof", "preinc": "++", "predec": "--"}
var asgOps = []string{"assign", "add", "sub", "mul", "div", "rem", "band", "bor", "bxor", "shl", "shr", "ushr"}
var asgText = map[string]string{"assign": "=", "add": "+=", "sub": "-=", "mul": "*=", "div": "/=", "rem": "%=", "band": "&=", "andnot": "&^=", "bor": "|=", "bxor": "^=", "shl": "<<=", "shr": ">>=", "ushr": ">>>="}

func (e *Ex) prec() int {
	switch e.K {
	case "bin":
		return binPrec[e.Op]
	case "asg":
		return 1
	case "cond":
		return 2
	case "un":
		return 13
	case "post":
		return 14
	}
	return 15
}

// cat: M member, N new-without-arguments, C call, X other  (ES5 11.2)
func (e *Ex) cat() byte {
	switch e.K {
	case "id", "num", "str", "bool", "null", "this":
		return 'M'
	case "dot", "idx":
		if e.A[0].cat() == 'C' {
			return 'C'
		}
		return 'M'
	case "call":
		return 'C'
	case "newx":
		return 'N'
	case "new":
		return 'M'
	}
	return 'X'
}

func needParen(lvl int, ai bool, e *Ex) bool {
	c := e.cat()
	switch lvl {
	case 16:
		return !(c == 'M' || c == 'C')
	case 17:
		return !(c == 'M' || c == 'N')
	case 18:
		return c != 'M'
	}
	return e.prec() < lvl || (e.K == "bin" && e.Op == "in" && !ai)
}

// Polish serialisation shared with the Lean driver.
func (e *Ex) dump(sb *[]string) {
	switch e.K {
	case "id", "num", "str", "bool":
		*sb = append(*sb, e.K+"~"+astx.Hex(e.Op))
	case "null", "this":
		*sb = append(*sb, e.K)
	case "bin", "un", "asg", "post":
		*sb = append(*sb, e.K+"."+e.Op)
	case "dot":
		*sb = append(*sb, "dot~"+astx.Hex(e.Op))
	case "cond", "idx", "newx":
		*sb = append(*sb, e.K)
	case "call", "new":
		*sb = append(*sb, fmt.Sprintf("%s.%d", e.K, len(e.A)-1))
	default:
		*sb = append(*sb, "other:"+e.K)
	}
	for _, a := range e.A {
		a.dump(sb)
	}
}

func (e *Ex) String() string {
	var sb []string
	e.dump(&sb)
	return strings.Join(sb, ",")
}

// ---------------------------------------------------------------- rendering

// piece is one token's text; noNLBefore marks the restricted production (postfix ++/--).
type piece struct {
	text       string
	noNLBefore bool
}

type renderer struct {
	r     *h.Rng
	extra int  // percent chance of a redundant parenthesis around any operand
	tight bool // no white space wherever two adjacent tokens stay separate under maximal munch
	out   []piece
}

func (w *renderer) tok(s string)     { w.out = append(w.out, piece{text: s}) }
func (w *renderer) tokNoNL(s string) { w.out = append(w.out, piece{text: s, noNLBefore: true}) }

// pos renders e at a position requiring production lvl.
func (w *renderer) pos(lvl int, ai bool, e *Ex) {
	need := needParen(lvl, ai, e)
	extra := 0
	if w.extra > 0 {
		for w.r.Chance(w.extra) && extra < 3 {
			extra++
		}
	}
	if need || extra > 0 {
		n := extra
		if need && n == 0 {
			n = 1
		}
		for i := 0; i < n; i++ {
			w.tok("(")
		}
		w.bare(e, true)
		for i := 0; i < n; i++ {
			w.tok(")")
		}
		return
	}
	w.bare(e, ai)
}

func (w *renderer) args(as []*Ex) {
	w.tok("(")
	for i, a := range as {
		if i > 0 {
			w.tok(",")
		}
		w.pos(1, true, a)
	}
	w.tok(")")
}

func (w *renderer) bare(e *Ex, ai bool) {
	switch e.K {
	case "id", "num", "str", "bool":
		w.tok(e.Op)
	case "null", "this":
		w.tok(e.K)
	case "bin":
		k := binPrec[e.Op]
		w.pos(k, ai, e.A[0])
		w.tok(binText[e.Op])
		w.pos(k+1, ai, e.A[1])
	case "un":
		w.tok(unText[e.Op])
		w.pos(13, ai, e.A[0])
	case "post":
		w.pos(15, ai, e.A[0])
		w.tokNoNL(map[string]string{"inc": "++", "dec": "--"}[e.Op])
	case "cond":
		w.pos(3, ai, e.A[0])
		w.tok("?")
		w.pos(1, true, e.A[1])
		w.tok(":")
		w.pos(1, ai, e.A[2])
	case "asg":
		w.pos(15, ai, e.A[0])
		w.tok(asgText[e.Op])
		w.pos(1, ai, e.A[1])
	case "dot":
		w.pos(16, ai, e.A[0])
		w.tok(".")
		w.tok(e.Op)
	case "idx":
		w.pos(16, ai, e.A[0])
		w.tok("[")
		w.pos(0, true, e.A[1])
		w.tok("]")
	case "call":
		w.pos(16, ai, e.A[0])
		w.args(e.A[1:])
	case "newx":
		w.tok("new")
		w.pos(17, ai, e.A[0])
	case "new":
		w.tok("new")
		w.pos(18, ai, e.A[0])
		w.args(e.A[1:])
	}
}

var triviaSafe = []string{" ", "  ", "\t", "\n", "\r\n", "\r", "\r \n", "\r/**/\n", " /* c */ ", "/**/", " // c\n", "\u00a0", "\ufeff", "\u2028", "\n\n  ", "/* a\n b */"}
var triviaNoNL = []string{" ", "  ", "\t", " /* c */ ", "/**/", "\u00a0", ""}

// text joins the pieces: mode "min"/"extra": single spaces; "trivia": random white space, comments, line breaks.
func (w *renderer) text(trivia bool) string {
	var sb strings.Builder
	for i, p := range w.out {
		if i > 0 {
			switch {
			case w.tight:
				if tightNeedsSpace(w.out[i-1].text, p.text) {
					sb.WriteString(" ")
				}
			case !trivia:
				sb.WriteString(" ")
			case p.noNLBefore:
				t := triviaNoNL[w.r.Intn(len(triviaNoNL))]
				prev := w.out[i-1].text
				for prev[len(prev)-1] == '/' && len(t) > 0 && t[0] == '/' {
					t = triviaNoNL[w.r.Intn(len(triviaNoNL))]
				}
				sb.WriteString(t)
			default:
				t := triviaSafe[w.r.Intn(len(triviaSafe))]
				prev := w.out[i-1].text
				for prev[len(prev)-1] == '/' && t[0] == '/' { // "/" + "/**/" would open a line comment
					t = triviaSafe[w.r.Intn(len(triviaSafe))]
				}
				sb.WriteString(t)
			}
		}
		sb.WriteString(p.text)
	}
	return sb.String()
}

// munch tokenises a text of punctuator characters by ES5 7.7 (longest punctuator first); nil if a comment would start.
func munch(s string) []string {
	var out []string
	for len(s) > 0 {
		if strings.HasPrefix(s, "//") || strings.HasPrefix(s, "/*") {
			return nil
		}
		best := ""
		for _, p := range es5Punctuators {
			if strings.HasPrefix(s, p) && len(p) > len(best) {
				best = p
			}
		}
		if best == "" {
			return nil
		}
		out = append(out, best)
		s = s[len(best):]
	}
	return out
}

// tightNeedsSpace: must white space separate the two tokens so that they remain these two tokens (maximal munch)?
func tightNeedsSpace(a, b string) bool {
	isWord := func(c byte) bool {
		return c == '_' || c == '$' || c == '\\' || ('0' <= c && c <= '9') || ('a' <= c && c <= 'z') || ('A' <= c && c <= 'Z') || c >= 0x80
	}
	isPunct := func(t string) bool { return strings.Trim(t, "+-*/%^<>=!&|~?:.,;()[]{}") == "" }
	isNum := func(t string) bool {
		return '0' <= t[0] && t[0] <= '9' || t[0] == '.' && len(t) > 1 && '0' <= t[1] && t[1] <= '9'
	}
	la, fb := a[len(a)-1], b[0]
	switch {
	case isWord(la) && isWord(fb):
		return true
	case isNum(a) && (fb == '.' || isWord(fb)):
		return true // `5 .x`, `5. x`, `0x1f in`
	case a == "." && '0' <= fb && fb <= '9':
		return true
	case isPunct(a) && isPunct(b):
		m := munch(a + b)
		return !(len(m) == 2 && m[0] == a && m[1] == b)
	case isPunct(a) && fb == '.' && len(b) > 1: // `.5` after a punctuator such as `.`
		return la == '.'
	}
	return false
}

// glue reports whether two adjacent token texts would lex differently without a separator.
func needsSpace(a, b string) bool {
	isWord := func(c byte) bool {
		return c == '_' || c == '$' || ('0' <= c && c <= '9') || ('a' <= c && c <= 'z') || ('A' <= c && c <= 'Z') || c >= 0x80
	}
	la, fb := a[len(a)-1], b[0]
	if isWord(la) && isWord(fb) {
		return true
	}
	if la == '.' && '0' <= fb && fb <= '9' || ('0' <= la && la <= '9') && fb == '.' {
		return true
	}
	punct := "+-<>=!&|*/%^"
	return strings.IndexByte(punct, la) >= 0 && strings.IndexByte(punct, fb) >= 0
}

// ---------------------------------------------------------------- generation

var idNames = []string{"a", "b", "c", "x", "y", "foo", "$", "_z", "q1", "get", "of", "let", "\u00e9t\u00e9", "instanceOf", "In", "e\u0301", "a\u0663", "a\u203f", "\u2160", "\u2118", "x\u0300y", "\u02b0x", "a\u200db", "\u0646\u200c\u0647"}
var numLits = []string{"0", "1", "42", "3.5", ".5", "5.", "1e3", "0x1F", "017", "1E-2"}
var strLits = []string{"'s'", "\"t\"", "''", "'a b'", "\"\\n\""}

type gen struct{ r *h.Rng }

func (g *gen) leaf() *Ex {
	switch g.r.Intn(12) {
	case 0:
		return &Ex{K: "num", Op: numLits[g.r.Intn(len(numLits))]}
	case 1:
		return &Ex{K: "str", Op: strLits[g.r.Intn(len(strLits))]}
	case 2:
		return &Ex{K: "bool", Op: []string{"true", "false"}[g.r.Intn(2)]}
	case 3:
		return &Ex{K: "null"}
	case 4:
		return &Ex{K: "this"}
	}
	return &Ex{K: "id", Op: idNames[g.r.Intn(len(idNames))]}
}

func (g *gen) target(d int) *Ex {
	switch g.r.Intn(3) {
	case 0:
		return &Ex{K: "dot", Op: idNames[g.r.Intn(len(idNames))], A: []*Ex{g.expr(d - 1)}}
	case 1:
		return &Ex{K: "idx", A: []*Ex{g.expr(d - 1), g.expr(d - 1)}}
	}
	return &Ex{K: "id", Op: idNames[g.r.Intn(len(idNames))]}
}

func (g *gen) expr(d int) *Ex {
	if d <= 0 {
		return g.leaf()
	}
	switch g.r.Intn(20) {
	case 0, 1, 2, 3, 4, 5, 6:
		return &Ex{K: "bin", Op: binOps[g.r.Intn(len(binOps))], A: []*Ex{g.expr(d - 1), g.expr(d - 1)}}
	case 7, 8:
		op := unOps[g.r.Intn(len(unOps))]
		if op == "preinc" || op == "predec" {
			return &Ex{K: "un", Op: op, A: []*Ex{g.target(d)}}
		}
		return &Ex{K: "un", Op: op, A: []*Ex{g.expr(d - 1)}}
	case 9:
		return &Ex{K: "post", Op: []string{"inc", "dec"}[g.r.Intn(2)], A: []*Ex{g.target(d)}}
	case 10, 11:
		return &Ex{K: "cond", A: []*Ex{g.expr(d - 1), g.expr(d - 1), g.expr(d - 1)}}
	case 12, 13:
		return &Ex{K: "asg", Op: asgOps[g.r.Intn(len(asgOps))], A: []*Ex{g.target(d), g.expr(d - 1)}}
	case 14:
		return g.target(d)
	case 15, 16:
		n := g.r.Intn(4)
		as := []*Ex{g.expr(d - 1)}
		for i := 0; i < n; i++ {
			as = append(as, g.expr(d-1))
		}
		return &Ex{K: "call", A: as}
	case 17:
		return &Ex{K: "newx", A: []*Ex{g.expr(d - 1)}}
	case 18:
		n := g.r.Intn(3)
		as := []*Ex{g.expr(d - 1)}
		for i := 0; i < n; i++ {
			as = append(as, g.expr(d-1))
		}
		return &Ex{K: "new", A: as}
	}
	return g.leaf()
}

// ---------------------------------------------------------------- semantic dump of the real AST

var binTokName = map[token.Token]string{token.MULTIPLY: "mul", token.SLASH: "div", token.REMAINDER: "rem", token.PLUS: "add", token.MINUS: "sub",
	token.SHIFT_LEFT: "shl", token.SHIFT_RIGHT: "shr", token.UNSIGNED_SHIFT_RIGHT: "ushr", token.LESS: "lt", token.GREATER: "gt", token.LESS_OR_EQUAL: "le", token.GREATER_OR_EQUAL: "ge",
	token.INSTANCEOF: "instanceof", token.IN: "in", token.EQUAL: "eq", token.NOT_EQUAL: "ne", token.STRICT_EQUAL: "seq", token.STRICT_NOT_EQUAL: "sne",
	token.AND: "band", token.EXCLUSIVE_OR: "bxor", token.OR: "bor", token.LOGICAL_AND: "land", token.LOGICAL_OR: "lor", token.AND_NOT: "andnot"}
var unTokName = map[token.Token]string{token.PLUS: "pos", token.MINUS: "neg", token.NOT: "not", token.BITWISE_NOT: "bnot", token.DELETE: "delete", token.VOID: "void", token.TYPEOF: "typeof",
	token.INCREMENT: "preinc", token.DECREMENT: "predec"}
var asgTokName = map[token.Token]string{token.ASSIGN: "assign", token.PLUS: "add", token.MINUS: "sub", token.MULTIPLY: "mul", token.SLASH: "div", token.REMAINDER: "rem",
	token.AND: "band", token.AND_NOT: "andnot", token.OR: "bor", token.EXCLUSIVE_OR: "bxor", token.SHIFT_LEFT: "shl", token.SHIFT_RIGHT: "shr", token.UNSIGNED_SHIFT_RIGHT: "ushr"}

// fromAST converts a parsed expression to the grammar-level tree (SequenceExpression -> left-nested comma).
func fromAST(n ast.Expression) *Ex {
	switch n := n.(type) {
	case *ast.Identifier:
		return &Ex{K: "id", Op: n.Name}
	case *ast.NumberLiteral:
		return &Ex{K: "num", Op: n.Literal}
	case *ast.StringLiteral:
		return &Ex{K: "str", Op: n.Literal}
	case *ast.BooleanLiteral:
		return &Ex{K: "bool", Op: n.Literal}
	case *ast.NullLiteral:
		return &Ex{K: "null"}
	case *ast.ThisExpression:
		return &Ex{K: "this"}
	case *ast.BinaryExpression:
		return &Ex{K: "bin", Op: binTokName[n.Operator], A: []*Ex{fromAST(n.Left), fromAST(n.Right)}}
	case *ast.SequenceExpression:
		if len(n.Sequence) == 0 {
			return &Ex{K: "empty-sequence"}
		}
		e := fromAST(n.Sequence[0])
		for _, x := range n.Sequence[1:] {
			e = &Ex{K: "bin", Op: "comma", A: []*Ex{e, fromAST(x)}}
		}
		return e
	case *ast.UnaryExpression:
		if n.Postfix {
			op := "inc"
			if n.Operator == token.DECREMENT {
				op = "dec"
			}
			return &Ex{K: "post", Op: op, A: []*Ex{fromAST(n.Operand)}}
		}
		return &Ex{K: "un", Op: unTokName[n.Operator], A: []*Ex{fromAST(n.Operand)}}
	case *ast.ConditionalExpression:
		return &Ex{K: "cond", A: []*Ex{fromAST(n.Test), fromAST(n.Consequent), fromAST(n.Alternate)}}
	case *ast.AssignExpression:
		return &Ex{K: "asg", Op: asgTokName[n.Operator], A: []*Ex{fromAST(n.Left), fromAST(n.Right)}}
	case *ast.DotExpression:
		return &Ex{K: "dot", Op: n.Identifier.Name, A: []*Ex{fromAST(n.Left)}}
	case *ast.BracketExpression:
		return &Ex{K: "idx", A: []*Ex{fromAST(n.Left), fromAST(n.Member)}}
	case *ast.CallExpression:
		as := []*Ex{fromAST(n.Callee)}
		for _, a := range n.ArgumentList {
			as = append(as, fromAST(a))
		}
		return &Ex{K: "call", A: as}
	case *ast.NewExpression:
		as := []*Ex{fromAST(n.Callee)}
		for _, a := range n.ArgumentList {
			as = append(as, fromAST(a))
		}
		if n.LeftParenthesis == 0 {
			return &Ex{K: "newx", A: as}
		}
		return &Ex{K: "new", A: as}
	}
	if n == nil {
		return &Ex{K: "nil"}
	}
	return &Ex{K: astx.Kind(n)}
}
