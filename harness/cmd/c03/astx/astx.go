// Package astx holds what the C03 and C04 harnesses share: an independent
// enumeration of the children of every ast node type (written from the struct
// declarations in ast/node.go), the raw positional dump, the token wire format
// and the semantic (grammar-level) dump of parsed trees.
package astx

import (
	"encoding/hex"
	"fmt"
	"reflect"
	"strings"

	"github.com/robertkrimen/otto/ast"
	"github.com/robertkrimen/otto/parser"
	"github.com/robertkrimen/otto/token"
)

// IsNil reports whether n is a nil interface or a typed nil pointer.
func IsNil(n ast.Node) bool {
	if n == nil {
		return true
	}
	v := reflect.ValueOf(n)
	return v.Kind() == reflect.Ptr && v.IsNil()
}

func exprs(es []ast.Expression) []ast.Node {
	out := make([]ast.Node, len(es))
	for i, e := range es {
		out[i] = e
	}
	return out
}
func stmts(es []ast.Statement) []ast.Node {
	out := make([]ast.Node, len(es))
	for i, e := range es {
		out[i] = e
	}
	return out
}

// Kind is the node's type name without the package.
func Kind(n ast.Node) string {
	return strings.TrimPrefix(reflect.TypeOf(n).String(), "*ast.")
}

// Kids lists the Node-valued fields of n (slot order documented in C04/Model.lean).
// Nil interfaces and typed nil pointers are listed as they are stored.
func Kids(n ast.Node) []ast.Node {
	switch n := n.(type) {
	case *ast.ArrayLiteral:
		return exprs(n.Value)
	case *ast.AssignExpression:
		return []ast.Node{n.Left, n.Right}
	case *ast.BinaryExpression:
		return []ast.Node{n.Left, n.Right}
	case *ast.BracketExpression:
		return []ast.Node{n.Left, n.Member}
	case *ast.CallExpression:
		return append([]ast.Node{n.Callee}, exprs(n.ArgumentList)...)
	case *ast.ConditionalExpression:
		return []ast.Node{n.Test, n.Consequent, n.Alternate}
	case *ast.DotExpression:
		return []ast.Node{n.Left, n.Identifier}
	case *ast.FunctionLiteral:
		out := []ast.Node{n.Name}
		if n.ParameterList != nil {
			for _, p := range n.ParameterList.List {
				out = append(out, p)
			}
		}
		return append(out, n.Body)
	case *ast.NewExpression:
		return append([]ast.Node{n.Callee}, exprs(n.ArgumentList)...)
	case *ast.ObjectLiteral:
		var out []ast.Node
		for _, p := range n.Value {
			out = append(out, p.Value)
		}
		return out
	case *ast.SequenceExpression:
		return exprs(n.Sequence)
	case *ast.UnaryExpression:
		return []ast.Node{n.Operand}
	case *ast.VariableExpression:
		return []ast.Node{n.Initializer}
	case *ast.BlockStatement:
		return stmts(n.List)
	case *ast.BranchStatement:
		return []ast.Node{n.Label}
	case *ast.CaseStatement:
		return append([]ast.Node{n.Test}, stmts(n.Consequent)...)
	case *ast.CatchStatement:
		return []ast.Node{n.Parameter, n.Body}
	case *ast.DoWhileStatement:
		return []ast.Node{n.Test, n.Body}
	case *ast.ExpressionStatement:
		return []ast.Node{n.Expression}
	case *ast.ForInStatement:
		return []ast.Node{n.Into, n.Source, n.Body}
	case *ast.ForStatement:
		return []ast.Node{n.Initializer, n.Update, n.Test, n.Body}
	case *ast.FunctionStatement:
		return []ast.Node{n.Function}
	case *ast.IfStatement:
		return []ast.Node{n.Test, n.Consequent, n.Alternate}
	case *ast.LabelledStatement:
		return []ast.Node{n.Label, n.Statement}
	case *ast.ReturnStatement:
		return []ast.Node{n.Argument}
	case *ast.SwitchStatement:
		out := []ast.Node{n.Discriminant}
		for _, c := range n.Body {
			out = append(out, c)
		}
		return out
	case *ast.ThrowStatement:
		return []ast.Node{n.Argument}
	case *ast.TryStatement:
		return []ast.Node{n.Body, n.Catch, n.Finally}
	case *ast.VariableStatement:
		return exprs(n.List)
	case *ast.WhileStatement:
		return []ast.Node{n.Test, n.Body}
	case *ast.WithStatement:
		return []ast.Node{n.Object, n.Body}
	case *ast.Program:
		return stmts(n.Body)
	}
	return nil
}

// Raw returns the positional fields of n that Idx0/Idx1 read: (a, b, l).
func Raw(n ast.Node) (a, b, l int) {
	switch n := n.(type) {
	case *ast.ArrayLiteral:
		return int(n.LeftBracket), int(n.RightBracket), 0
	case *ast.BadExpression:
		return int(n.From), int(n.To), 0
	case *ast.BadStatement:
		return int(n.From), int(n.To), 0
	case *ast.BooleanLiteral:
		return int(n.Idx), 0, len(n.Literal)
	case *ast.Identifier:
		return int(n.Idx), 0, len(n.Name)
	case *ast.NullLiteral:
		return int(n.Idx), 0, 0
	case *ast.NumberLiteral:
		return int(n.Idx), 0, len(n.Literal)
	case *ast.RegExpLiteral:
		return int(n.Idx), 0, len(n.Literal)
	case *ast.StringLiteral:
		return int(n.Idx), 0, len(n.Literal)
	case *ast.ThisExpression:
		return int(n.Idx), 0, 0
	case *ast.BracketExpression:
		return 0, int(n.RightBracket), 0
	case *ast.CallExpression:
		return 0, int(n.RightParenthesis), 0
	case *ast.NewExpression:
		return int(n.New), int(n.RightParenthesis), 0
	case *ast.EmptyExpression:
		return int(n.Begin), int(n.End), 0
	case *ast.FunctionLiteral:
		return int(n.Function), 0, 0
	case *ast.ObjectLiteral:
		return int(n.LeftBrace), int(n.RightBrace), 0
	case *ast.UnaryExpression:
		if n.Postfix {
			return int(n.Idx), 0, 1
		}
		return int(n.Idx), 0, 0
	case *ast.VariableExpression:
		return int(n.Idx), 0, len(n.Name)
	case *ast.BlockStatement:
		return int(n.LeftBrace), int(n.RightBrace), 0
	case *ast.BranchStatement:
		return int(n.Idx), 0, len(n.Token.String())
	case *ast.CaseStatement:
		return int(n.Case), 0, 0
	case *ast.CatchStatement:
		return int(n.Catch), 0, 0
	case *ast.DebuggerStatement:
		return int(n.Debugger), 0, 0
	case *ast.DoWhileStatement:
		return int(n.Do), int(n.RightParenthesis), 0
	case *ast.EmptyStatement:
		return int(n.Semicolon), 0, 0
	case *ast.ForInStatement:
		return int(n.For), 0, 0
	case *ast.ForStatement:
		return int(n.For), 0, 0
	case *ast.IfStatement:
		return int(n.If), 0, 0
	case *ast.ReturnStatement:
		return int(n.Return), 0, 0
	case *ast.SwitchStatement:
		return int(n.Switch), int(n.RightBrace), 0
	case *ast.ThrowStatement:
		return int(n.Throw), 0, 0
	case *ast.TryStatement:
		return int(n.Try), 0, 0
	case *ast.VariableStatement:
		return int(n.Var), 0, 0
	case *ast.WhileStatement:
		return int(n.While), 0, 0
	case *ast.WithStatement:
		return int(n.With), 0, 0
	case *ast.Program:
		if n.File != nil {
			return n.File.Base(), 0, 0 // what Idx0/Idx1 report for an empty program
		}
	}
	return 0, 0, 0
}

// RawDump serialises the tree in Polish notation: items separated by ','; a node is
// `Kind.a.b.l.nkids` followed by its kids; `_` is a nil interface, `~` a typed nil pointer.
func RawDump(n ast.Node) string {
	var sb strings.Builder
	var rec func(n ast.Node)
	first := true
	emit := func(s string) {
		if !first {
			sb.WriteByte(',')
		}
		first = false
		sb.WriteString(s)
	}
	rec = func(n ast.Node) {
		if n == nil {
			emit("_")
			return
		}
		if IsNil(n) {
			emit("~")
			return
		}
		a, b, l := Raw(n)
		ks := Kids(n)
		emit(fmt.Sprintf("%s.%d.%d.%d.%d", Kind(n), a, b, l, len(ks)))
		for _, k := range ks {
			rec(k)
		}
	}
	rec(n)
	return sb.String()
}

// ---------------------------------------------------------------- token wire format

// TokWire encodes the scanner's token stream: tokens separated by '`';
// each is [#]spelling[~hexliteral]; '#' = implicitSemicolon (newline before).
func TokWire(toks []parser.VerifTok) string {
	parts := make([]string, 0, len(toks))
	for _, t := range toks {
		s := ""
		if t.NL {
			s = "#"
		}
		switch t.Tok {
		case token.IDENTIFIER, token.NUMBER, token.STRING, token.BOOLEAN, token.NULL, token.KEYWORD, token.ILLEGAL:
			s += t.Tok.String() + "~" + hex.EncodeToString([]byte(t.Literal))
		default:
			s += t.Tok.String()
		}
		parts = append(parts, s)
	}
	return strings.Join(parts, "`")
}

func Hex(s string) string { return hex.EncodeToString([]byte(s)) }
func UnHex(s string) string {
	b, _ := hex.DecodeString(s)
	return string(b)
}
