package astx

import (
	"fmt"
	"strings"

	"ottoverif/h"
)

// JSGen produces random syntactically valid ES5 program text (free-form: used by C04 as the
// base of the mutation streams and for the span/walk checks; C03 uses its own tree generator).
type JSGen struct {
	R      *h.Rng
	labels []string
	inLoop int
	inSw   int
	inFn   int
	nl     int
}

var jsNames = []string{"a", "b", "c", "x", "y", "foo", "bar", "$", "_z", "q1", "get", "set", "of", "let"}
var jsBin = []string{"*", "/", "%", "+", "-", "<<", ">>", ">>>", "<", ">", "<=", ">=", "instanceof", "in", "==", "!=", "===", "!==", "&", "^", "|", "&&", "||"}
var jsAsg = []string{"=", "+=", "-=", "*=", "/=", "%=", "<<=", ">>=", ">>>=", "&=", "|=", "^="}
var jsUn = []string{"+", "-", "!", "~", "typeof ", "void ", "delete "}
var jsLits = []string{"0", "1", "42", "3.5", ".5", "5.", "1e3", "0x1F", "017", "'s'", "\"t\\n\"", "'\\x41\\u0042'", "true", "false", "null", "this", "/ab+c/gi", "/[/]\\//"}

func (g *JSGen) name() string { return jsNames[g.R.Intn(len(jsNames))] }

func (g *JSGen) target(d int) string {
	switch g.R.Intn(4) {
	case 0:
		return g.name() + "." + g.name()
	case 1:
		return g.name() + "[" + g.Expr(d-1) + "]"
	}
	return g.name()
}

// Expr returns a fully parenthesised-where-needed random expression.
func (g *JSGen) Expr(d int) string {
	if d <= 0 {
		if g.R.Chance(50) {
			return g.name()
		}
		return jsLits[g.R.Intn(len(jsLits))]
	}
	switch g.R.Intn(16) {
	case 0, 1, 2:
		return "(" + g.Expr(d-1) + " " + jsBin[g.R.Intn(len(jsBin))] + " " + g.Expr(d-1) + ")"
	case 3:
		return jsUn[g.R.Intn(len(jsUn))] + "(" + g.Expr(d-1) + ")"
	case 4:
		if g.R.Bool() {
			return g.target(d) + []string{"++", "--"}[g.R.Intn(2)]
		}
		return "(" + []string{"++", "--"}[g.R.Intn(2)] + g.target(d) + ")"
	case 5:
		return "(" + g.Expr(d-1) + " ? " + g.Expr(d-1) + " : " + g.Expr(d-1) + ")"
	case 6:
		return "(" + g.target(d) + " " + jsAsg[g.R.Intn(len(jsAsg))] + " " + g.Expr(d-1) + ")"
	case 7:
		return "(" + g.Expr(d-1) + ", " + g.Expr(d-1) + ")"
	case 8:
		n := g.R.Intn(3)
		as := make([]string, n)
		for i := range as {
			as[i] = g.Expr(d - 1)
		}
		return g.target(d) + "(" + strings.Join(as, ", ") + ")"
	case 9:
		if g.R.Bool() {
			return "new " + g.name() + "(" + g.Expr(d-1) + ")"
		}
		return "(new " + g.name() + ")"
	case 10:
		n := g.R.Intn(4)
		as := make([]string, n)
		for i := range as {
			if g.R.Chance(20) {
				as[i] = ""
			} else {
				as[i] = g.Expr(d - 1)
			}
		}
		return "[" + strings.Join(as, ", ") + "]"
	case 11:
		n := g.R.Intn(3)
		ps := make([]string, n)
		for i := range ps {
			switch g.R.Intn(5) {
			case 0:
				ps[i] = "get " + g.name() + "() {" + g.fnBody(d-1) + "}"
			case 1:
				ps[i] = "set " + g.name() + "(v) {" + g.fnBody(d-1) + "}"
			case 2:
				ps[i] = "'k" + fmt.Sprint(i) + "': " + g.Expr(d-1)
			case 3:
				ps[i] = fmt.Sprint(i) + ": " + g.Expr(d-1)
			default:
				ps[i] = g.name() + ": " + g.Expr(d-1)
			}
		}
		return "({" + strings.Join(ps, ", ") + "})"
	case 12:
		nm := ""
		if g.R.Bool() {
			nm = " " + g.name()
		}
		return "(function" + nm + "(" + g.params() + ") {" + g.fnBody(d-1) + "})"
	case 13:
		return g.target(d)
	}
	return g.Expr(0)
}

func (g *JSGen) params() string {
	n := g.R.Intn(3)
	ps := make([]string, n)
	for i := range ps {
		ps[i] = fmt.Sprintf("p%d", i)
	}
	return strings.Join(ps, ", ")
}

func (g *JSGen) fnBody(d int) string {
	sl, sw, lp, lb := g.inLoop, g.inSw, g.inFn, g.labels
	g.inLoop, g.inSw, g.labels = 0, 0, nil
	g.inFn++
	s := g.Stmts(d, g.R.Intn(3))
	g.inLoop, g.inSw, g.inFn, g.labels = sl, sw, lp, lb
	return s
}

func (g *JSGen) Stmts(d, n int) string {
	var sb strings.Builder
	for i := 0; i < n; i++ {
		sb.WriteString(g.Stmt(d))
		if g.R.Chance(30) {
			sb.WriteString("\n")
		} else {
			sb.WriteString(" ")
		}
	}
	return sb.String()
}

func (g *JSGen) semi() string {
	if g.R.Chance(25) {
		return "\n"
	}
	return ";"
}

func (g *JSGen) loopBody(d int) string {
	g.inLoop++
	s := g.Stmt(d - 1)
	g.inLoop--
	return s
}

// Stmt returns one random statement.
func (g *JSGen) Stmt(d int) string {
	if d <= 0 {
		switch g.R.Intn(6) {
		case 0:
			return ";"
		case 1:
			return "var " + g.name() + " = " + g.Expr(1) + g.semi()
		case 2:
			if g.inLoop > 0 || g.inSw > 0 {
				return "break" + g.semi()
			}
		case 3:
			if g.inLoop > 0 {
				return "continue" + g.semi()
			}
		case 4:
			if g.inFn > 0 {
				if g.R.Bool() {
					return "return" + g.semi()
				}
				return "return " + g.Expr(1) + g.semi()
			}
		}
		return g.name() + " = " + g.Expr(1) + g.semi()
	}
	switch g.R.Intn(20) {
	case 0:
		return "{" + g.Stmts(d-1, g.R.Intn(3)) + "}"
	case 1:
		v := "var " + g.name()
		if g.R.Bool() {
			v += " = " + g.Expr(d-1)
		}
		if g.R.Bool() {
			v += ", " + g.name() + " = " + g.Expr(d-1)
		}
		return v + g.semi()
	case 2:
		s := "if (" + g.Expr(d-1) + ") " + g.Stmt(d-1)
		if g.R.Bool() {
			// the consequent must not swallow the else: wrap it
			s = "if (" + g.Expr(d-1) + ") {" + g.Stmt(d-1) + "} else " + g.Stmt(d-1)
		}
		return s
	case 3:
		init := ""
		switch g.R.Intn(3) {
		case 0:
			init = "var i = 0, j = " + g.Expr(0)
		case 1:
			init = "i = " + g.Expr(0)
		}
		test, upd := "", ""
		if g.R.Bool() {
			test = g.Expr(d - 1)
		}
		if g.R.Bool() {
			upd = "i++"
		}
		return "for (" + init + "; " + test + "; " + upd + ") " + g.loopBody(d)
	case 4:
		into := g.target(1)
		if g.R.Bool() {
			into = "var " + g.name()
		}
		return "for (" + into + " in " + g.Expr(d-1) + ") " + g.loopBody(d)
	case 5:
		return "while (" + g.Expr(d-1) + ") " + g.loopBody(d)
	case 6:
		return "do " + g.loopBody(d) + " while (" + g.Expr(d-1) + ")" + g.semi()
	case 7:
		g.inSw++
		var sb strings.Builder
		sb.WriteString("switch (" + g.Expr(d-1) + ") {")
		n := g.R.Intn(3)
		def := g.R.Intn(4)
		for i := 0; i < n; i++ {
			if i == def {
				sb.WriteString(" default: ")
			} else {
				sb.WriteString(" case " + g.Expr(1) + ": ")
			}
			sb.WriteString(g.Stmts(d-1, g.R.Intn(3)))
		}
		sb.WriteString("}")
		g.inSw--
		return sb.String()
	case 8:
		s := "try {" + g.Stmts(d-1, g.R.Intn(2)) + "}"
		k := g.R.Intn(3)
		if k != 1 {
			s += " catch (e) {" + g.Stmts(d-1, g.R.Intn(2)) + "}"
		}
		if k != 0 {
			s += " finally {" + g.Stmts(d-1, g.R.Intn(2)) + "}"
		}
		return s
	case 9:
		l := fmt.Sprintf("L%d", len(g.labels))
		g.labels = append(g.labels, l)
		var s string
		if g.R.Bool() {
			s = l + ": while (" + g.Expr(1) + ") " + g.loopBody(d)
		} else {
			s = l + ": " + g.Stmt(d-1)
		}
		g.labels = g.labels[:len(g.labels)-1]
		return s
	case 10:
		if len(g.labels) > 0 {
			return "break " + g.labels[g.R.Intn(len(g.labels))] + g.semi()
		}
	case 11:
		return "throw " + g.Expr(d-1) + g.semi()
	case 12:
		return "with (" + g.Expr(d-1) + ") " + g.Stmt(d-1)
	case 13:
		return "function " + g.name() + "(" + g.params() + ") {" + g.fnBody(d-1) + "}"
	case 14:
		return "debugger" + g.semi()
	case 15, 16, 17:
		e := g.Expr(d)
		if strings.HasPrefix(e, "function") || strings.HasPrefix(e, "{") {
			e = "(" + e + ")"
		}
		return e + g.semi()
	}
	return g.Stmt(0)
}

// Program returns a random program.
func (g *JSGen) Program(d int) string {
	return g.Stmts(d, 1+g.R.Intn(4))
}
