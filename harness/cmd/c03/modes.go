package main

import (
	"fmt"
	"hash/fnv"
	"reflect"
	"strconv"
	"strings"

	"github.com/robertkrimen/otto/ast"
	"github.com/robertkrimen/otto/file"
	"github.com/robertkrimen/otto/parser"
	"ottoverif/cmd/c03/astx"
	"ottoverif/h"
)

// The `cmt` stream: the tree does not depend on comments, nor on the parser mode.
//
// A program is a list of token texts; every gap between two tokens (and the two ends) is filled with trivia: white space,
// line terminators, line comments, block comments without and WITH a line terminator inside (ES5 7.4: such a comment counts
// as a LineTerminator for the syntactic grammar).  The REFERENCE text has the same tokens with a bare LF in every gap whose
// trivia counts as a line terminator and one space elsewhere; the expected outcome is what the parser in mode 0 makes of
// the reference text (checked against the grammar by the other streams): `reject`, or a position-free dump of the tree.
// The real parser gets the text WITH the trivia in mode 0, StoreComments and StoreComments|IgnoreRegExpErrors; the three
// outcomes must be one and the same.
//
//	cmt <nlbits> <expected> x<src> <hex of the trivia of every gap, '.'-separated, '-' = empty>
//
// Lean decides from the trivia texts which gaps count as line terminators (model: lexer.go skipWhiteSpace / the comment arms
// of scan; spec: 7.2-7.4) and answers <expected> when that agrees with <nlbits>, the bits the reference text was built from.

var cmtPrograms = []string{
	"function g ( ) { return 42 }", "function g ( ) { return a + b }", "function g ( ) { return }", "function g ( ) { return ; 42 }",
	"function g ( ) { return ( 1 ) }", "function g ( ) { return - 1 }", "function g ( ) { return /re/ }", "function g ( ) { return [ 1 ] }",
	"function g ( ) { return function ( ) { } }", "function g ( ) { return { a : 1 } }", "function g ( ) { return 'a b' }",
	"while ( 1 ) { break }", "while ( 1 ) break", "L : while ( 1 ) { break L }", "L : while ( 1 ) { continue L }", "L : for ( ; ; ) { continue L ; x }",
	"L : M : do { continue L } while ( 0 )", "L : { break L }", "while ( 1 ) { continue }", "L : while ( 1 ) break L", "L : while ( 1 ) continue L",
	"throw 1", "throw a + b", "throw new E ( 'm' )", "function g ( ) { throw x }",
	"c = a ++ b", "c = a -- b", "c = a ++", "a ++", "++ a", "a -- ; b", "i ++ j", "i ++ ++ j", "a + + b", "a - - b", "x ++ y",
	"c = a ++ + b", "c = a + ++ b", "if ( a ) b ++ ; else c --",
	"x = 1 y = 2", "x = 1 ; y = 2", "x y", "x = a b = c", "x = 'str' y = \"s\"", "var a = 1 var b = 2", "var v = 1 , w = 2", "var v w", "var v , w",
	"x = f ( a ) y = g ( b )", "x = a ( b ) ( c )", "x = a [ b ] [ c ]", "x = a . b . c", "x = a + b - c", "x = a ( b )", "x = a [ 0 ]", "a = b + c ( d + e ) . f ( )",
	"do x ; while ( 0 ) y", "do x ; while ( 0 ) ; y", "do { } while ( 0 ) y", "if ( a ) b ; else c", "if ( a ) b else c", "if ( a ) b", "if ( a ) { b } else { c } d",
	"for ( a ; b ; c ) d", "for ( var k in o ) x", "for ( ; ; ) { }", "for ( var i = 0 , j = 1 ; i < j ; i ++ ) x", "while ( a ) b", "with ( o ) x",
	"x = { a : 1 , b : 2 }", "x = [ 1 , 2 ]", "x = [ , 1 , ]", "x = { get a ( ) { return 1 } , set a ( v ) { } }", "f ( a , b )", "new a ( b )", "new a", "new a . b ( c ) . d",
	"x = function ( ) { return 1 }", "x = function f ( a , b ) { return a } ( 1 , 2 )", "( function ( ) { } ) ( )", "function f ( ) { } function g ( ) { }",
	"switch ( a ) { case 1 : b ; break ; default : c }", "switch ( a ) { case 1 : case 2 : b }", "try { a } catch ( e ) { b } finally { c }", "try { a } finally { c } d",
	"debugger", "debugger x", "x = a ? b : c", "x = /re/g . test ( s )", "x = a / b / c", "x = a /= b", "typeof a", "delete a . b", "void 0", "! a", "~ a",
	"{ a } b", "{ } { }", "a ; ; b", ";", "a , b", "a in b", "a instanceof b", "x = a || b && c", "x = - 1", "x = ( a , b )", "x = 1.5 y = .5", "x = 0x1F y = 017",
	"x = true y = null", "x = this y = false", "a : b", "a : b : c", "a : function f ( ) { }", "'strict' ; x", "'strict' x",
}

var cmtPlain = []string{" ", "\t", "  ", " /* c */ ", " /**/ ", "/**/", "/* c */", " /* a */ /* b */ ", " /* // */ ", " /* * / ** */ ", "\u00a0", " /* 'q' \"r\" */ ", "/*/ */"}
var cmtLT = []string{"\n", "\r\n", "\r", "\u2028", "\u2029", " // c\n", "// c\r", " // c\u2028", " /* a\nb */ ", "/*\n*/", " /* a\r\n b */ ", " /*\r*/ ", " /*\u2028*/ ", " /*\u2029*/ ",
	" /* x */ /* y\n */ ", " /* y\n */ /* x */ ", " /**/ // c\n", " /* a\nb */ // c\n", "/* a\nb */", " /* // a\n */ ", " /***\n***/ ", " /* a\n\n\nb */ ", " // /* c\n"}

var cmtModes = []parser.Mode{0, parser.StoreComments, parser.StoreComments | parser.IgnoreRegExpErrors}

func triviaCounts(t string) bool { // 7.3 / 7.4, on the generator's own trivia texts
	return strings.ContainsAny(t, "\n\r\u2028\u2029")
}

// tightOK: trivia without surrounding blanks must not glue to a `/` in front of it
func cmtFits(prev, trivia string) bool {
	return !(prev != "" && strings.HasSuffix(prev, "/") && strings.HasPrefix(trivia, "/"))
}

// shape: position-free dump of a tree (reflection over the ast structs; file.Idx fields, comment maps, the declaration
// lists (pointers to nodes that are dumped anyway) and FunctionLiteral.Source (raw text incl. comments) are left out)
func shape(sb *strings.Builder, v reflect.Value) {
	switch v.Kind() {
	case reflect.Interface, reflect.Ptr:
		if v.IsNil() {
			sb.WriteString("nil")
			return
		}
		shape(sb, v.Elem())
	case reflect.Struct:
		sb.WriteString(v.Type().Name())
		sb.WriteByte('(')
		for i := 0; i < v.NumField(); i++ {
			f := v.Type().Field(i)
			if f.Type == reflect.TypeOf(file.Idx(0)) || f.Name == "File" || f.Name == "Comments" || f.Name == "DeclarationList" || f.Name == "Source" || f.PkgPath != "" {
				continue
			}
			sb.WriteString(f.Name)
			sb.WriteByte('=')
			shape(sb, v.Field(i))
			sb.WriteByte(';')
		}
		sb.WriteByte(')')
	case reflect.Slice:
		sb.WriteByte('[')
		for i := 0; i < v.Len(); i++ {
			shape(sb, v.Index(i))
			sb.WriteByte(',')
		}
		sb.WriteByte(']')
	case reflect.String:
		sb.WriteString(strconv.Quote(v.String()))
	default:
		if v.CanInterface() {
			fmt.Fprintf(sb, "%v", v.Interface())
		} else {
			fmt.Fprintf(sb, "%v", v)
		}
	}
}

func hash64(s string) uint64 {
	f := fnv.New64a()
	f.Write([]byte(s))
	return f.Sum64()
}

func parseShape(src string, mode parser.Mode) (out string) {
	defer func() {
		if r := recover(); r != nil {
			out = "panic"
		}
	}()
	prog, err := parser.ParseFile(nil, "", src, mode)
	if err != nil {
		return "reject"
	}
	var sb strings.Builder
	shape(&sb, reflect.ValueOf(ast.Node(prog)))
	return fmt.Sprintf("tree:%d:%016x", len(prog.Body), hash64(sb.String()))
}

func cmtAdd(c *h.Ctx, toks []string, gaps []string, key string) {
	var src, ref strings.Builder
	bits := make([]byte, len(gaps))
	hexes := make([]string, len(gaps))
	for i, g := range gaps {
		if i > 0 && !cmtFits(toks[i-1], g) {
			g = " " + g
			gaps[i] = g
		}
		src.WriteString(g)
		bits[i] = '0'
		sep := " "
		if triviaCounts(g) {
			bits[i] = '1'
			sep = "\n"
		}
		if i > 0 || sep == "\n" {
			ref.WriteString(sep)
		}
		hexes[i] = "-"
		if g != "" {
			hexes[i] = astx.Hex(g)
		}
		if i < len(toks) {
			src.WriteString(toks[i])
			ref.WriteString(toks[i])
		}
	}
	expected := parseShape(ref.String(), 0)
	c.Add(fmt.Sprintf("cmt %s %s x%s %s", bits, expected, astx.Hex(src.String()), strings.Join(hexes, ".")), "cmt", key)
}

func genCmt(c *h.Ctx) {
	pick := func(l []string) string { return l[c.Rng.Intn(len(l))] }
	var progs [][]string
	for _, p := range cmtPrograms {
		toks := strings.Fields(strings.ReplaceAll(p, "'a b'", "'a\x00b'"))
		for i := range toks {
			toks[i] = strings.ReplaceAll(toks[i], "\x00", " ") // 'a b' is one token
		}
		progs = append(progs, toks)
	}
	g := &gen{r: c.Rng}
	for i := 0; i < c.N(300, 6000); i++ {
		w := &renderer{r: c.Rng}
		w.pos(0, true, g.expr(1+c.Rng.Intn(3)))
		text := w.text(false)
		toks := strings.Fields(text)
		if st, _ := parser.VerifScanAll(text); len(st) != len(toks)+1 {
			c.Dist["cmt:skipped-token-count"]++
			continue
		}
		progs = append(progs, toks)
	}
	for pi, toks := range progs {
		fixed := pi < len(cmtPrograms)
		n := len(toks)
		blank := func() []string {
			gaps := make([]string, n+1)
			for i := 1; i < n; i++ {
				gaps[i] = " "
			}
			return gaps
		}
		cmtAdd(c, toks, blank(), "cmt:plain")
		if !fixed {
			// random expression: random trivia in every gap, one or two of them counting as line terminators
			for k := 0; k < 3; k++ {
				gaps := blank()
				for i := range gaps {
					if i > 0 && i < n || c.Rng.Chance(30) {
						gaps[i] = pick(cmtPlain)
					}
				}
				for j := 0; j < 1+c.Rng.Intn(2); j++ {
					gaps[c.Rng.Intn(n+1)] = pick(cmtLT)
				}
				cmtAdd(c, toks, gaps, "cmt:random-expression")
			}
			continue
		}
		for gi := 0; gi <= n; gi++ {
			for _, t := range cmtLT {
				if c.Tier == "quick" && !c.Rng.Chance(35) {
					continue
				}
				gaps := blank()
				gaps[gi] = t
				cmtAdd(c, toks, gaps, "cmt:one-line-terminator")
				if c.Tier != "quick" || c.Rng.Chance(25) {
					gaps = blank()
					for i := range gaps {
						if i > 0 && i < n || c.Rng.Chance(30) {
							gaps[i] = pick(cmtPlain)
						}
					}
					gaps[gi] = t
					cmtAdd(c, toks, gaps, "cmt:line-terminator-among-comments")
				}
			}
			for _, t := range cmtPlain {
				if c.Tier == "quick" && !c.Rng.Chance(35) {
					continue
				}
				gaps := blank()
				gaps[gi] = t
				cmtAdd(c, toks, gaps, "cmt:comment-without-line-terminator")
			}
		}
		// the end of the input inside or right after a comment
		for _, t := range []string{" // c", "//", " /* c */", "/* a\nb */", " /* a\nb */ // c", "\n// c"} {
			gaps := blank()
			gaps[n] = t
			cmtAdd(c, toks, gaps, "cmt:comment-at-end")
		}
		// two gaps counting as line terminators
		for k := 0; k < c.N(4, 40); k++ {
			gaps := blank()
			gaps[c.Rng.Intn(n+1)] = pick(cmtLT)
			gaps[c.Rng.Intn(n+1)] = pick(cmtLT)
			cmtAdd(c, toks, gaps, "cmt:two-line-terminators")
		}
	}
}

// implCmt: the outcome of the real parser in every mode; one answer when the modes agree.
func implCmt(f []string) string {
	src := astx.UnHex(f[3][1:])
	outs := make([]string, len(cmtModes))
	same := true
	for i, m := range cmtModes {
		outs[i] = parseShape(src, m)
		same = same && outs[i] == outs[0]
	}
	if same {
		return outs[0]
	}
	return "modes-differ:" + strings.Join(outs, "|")
}
