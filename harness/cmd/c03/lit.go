package main

import "ottoverif/h"

func genLit(c *h.Ctx)          {}
func implNum(f []string) string { return "bad-op" }
func implStr(f []string) string { return "bad-op" }
