package main

import (
	"fmt"
	"strings"

	"github.com/robertkrimen/otto/parser"
	"github.com/robertkrimen/otto/token"
	"ottoverif/cmd/c03/astx"
	"ottoverif/h"
)

func implNum(f []string) string {
	v, err := parser.VerifParseNumberLiteral(astx.UnHex(f[1][1:]))
	if err != nil {
		return "error"
	}
	switch x := v.(type) {
	case int64:
		return h.F64Hex(float64(x)) // the runtime's toValue/float64 conversion of an int64 literal
	case float64:
		return h.F64Hex(x)
	}
	return "bad-type"
}

func implStr(f []string) (out string) {
	defer func() {
		if r := recover(); r != nil {
			// the two explicit panic(...) of parseStringLiteral are unreachable from scanner-produced bodies (no generated
			// body ends in a lone backslash); any panic is therefore reported as such and differs from the model's `error`
			out = "panic:" + strings.ReplaceAll(fmt.Sprint(r), " ", "_")
		}
	}()
	s, err := parser.VerifParseStringLiteral(astx.UnHex(f[1][1:]))
	if err != nil {
		return "error"
	}
	return h.BytesTok(s)
}

func randDigits(r *h.Rng, n int, alphabet string) string {
	var sb strings.Builder
	for i := 0; i < n; i++ {
		sb.WriteByte(alphabet[r.Intn(len(alphabet))])
	}
	return sb.String()
}

// genLit: numeric literal texts of the scanner's NUMBER grammar and string literal bodies.
// numeric literals of every form IMMEDIATELY followed by something: where does the token end (7.8.3)?
func genNumAdj(c *h.Ctx) {
	lits := []string{".5", "5.", "5.5", ".5e1", ".25", "0x1f", "0X1F", "010", "08", "09", "1e+3", "1E-2", "1e3", "0", "7", "42", "0.5", "0.", "1.", "00", "0e1", "0.e1", "1.e3", ".5E+1", "0x", "1e", "1e+", ".e1"}
	sufs := []string{"", ".name", "..name", ".toFixed(1)", "[0]", "(", ")", ";", ",", " ", "\n", "\r\n", "/*c*/", "//c", "in", "x", "g", "e", "E", "e1", "e+", "e+1", "E-", "1", ".5", ".5.x", "5", "8", "9", "_", "$", "\\u0061",
		"+1", "-", "/2", "?a:b", "'s'", "\"t\"", "}", "]", "instanceof", "0x1", ".e1", "..5"}
	for _, l := range lits {
		if l == ".e1" {
			continue
		}
		for _, s := range sufs {
			c.Add("numadj x"+astx.Hex(l+s), "numadj")
		}
	}
}

func implNumAdj(f []string) string {
	toks, _ := parser.VerifScanAll(astx.UnHex(f[1][1:]))
	if len(toks) == 0 {
		return "no-token"
	}
	switch toks[0].Tok {
	case token.NUMBER:
		return "NUMBER~" + astx.Hex(toks[0].Literal)
	case token.ILLEGAL:
		return "ILLEGAL"
	}
	return toks[0].Tok.String()
}

func genLit(c *h.Ctx) {
	genNumAdj(c)
	r := c.Rng
	add := func(s, key string) { c.Add("num x"+astx.Hex(s), "num", key) }
	for _, s := range []string{"0", "1", "9", "10", "00", "07", "017", "0777", "0x0", "0x1F", "0Xff", "0xABCDEF", "1.5", ".5", "5.", "0.5", "0.", "1e3", "1E3", "1e+3", "1e-3", ".5e1", "5.e1", "1e400", "1e-400",
		"9007199254740992", "9007199254740993", "9223372036854775807", "9223372036854775808", "18446744073709551615", "18446744073709551616",
		"0x7fffffffffffffff", "0x8000000000000000", "0x8000000000000401", "0x8000000000000400", "0xffffffffffffffff", "0x10000000000000000", "0x20000000000000", "0x20000000000001",
		"0777777777777777777777", "01000000000000000000000", "01777777777777777777777", "4.9e-324", "2.4703282292062327e-324", "1.7976931348623157e308", "1.7976931348623159e308", "0.1", "0.30000000000000004"} {
		add(s, "num:corpus")
	}
	for i := 0; i < c.N(4000, 150000); i++ {
		switch r.Intn(8) {
		case 0:
			add("0x"+randDigits(r, 1+r.Intn(24), "0123456789abcdefABCDEF"), "num:hex")
		case 1: // hex around 2^63..2^64 with low bits set
			add("0x"+randDigits(r, 1, "89abcdef")+randDigits(r, 11+r.Intn(2), "0")+randDigits(r, 3+r.Intn(2), "0123456789abcdef48c"), "num:hex-big")
		case 2:
			add("0"+randDigits(r, 1+r.Intn(24), "01234567"), "num:octal")
		case 3:
			add(randDigits(r, 1, "123456789")+randDigits(r, r.Intn(25), "0123456789"), "num:decimal-int")
		case 4:
			add(randDigits(r, 1, "123456789")+randDigits(r, r.Intn(6), "0123456789")+"."+randDigits(r, r.Intn(20), "0123456789"), "num:decimal-frac")
		case 5:
			add("."+randDigits(r, 1+r.Intn(20), "0123456789"), "num:dot-frac")
		default:
			m := randDigits(r, 1, "123456789") + randDigits(r, r.Intn(18), "0123456789")
			if r.Bool() {
				m += "." + randDigits(r, r.Intn(18), "0123456789")
			}
			add(m+[]string{"e", "E"}[r.Intn(2)]+[]string{"", "+", "-"}[r.Intn(3)]+fmt.Sprint(r.Intn(340)), "num:exponent")
		}
	}
	adds := func(s, key string) { c.Add("str x"+astx.Hex(s), "str", key) }
	for _, s := range []string{"", "a", "\\n", "\\b\\f\\n\\r\\t\\v", "\\x41", "\\u0041", "\\u00e9", "\\uD83D\\uDE00", "\\uD800", "\\uDFFF x", "\\0", "\\0a", "\\1", "\\12", "\\123", "\\377", "\\400", "\\477", "\\777", "\\47a",
		"\\\\", "\\'", "\\\"", "\\a", "\\q", "\\\n", "\\\r\n", "\\\r", "\\\u2028", "\\\u2029x", "a\\\nb", "\u00e9", "\U0001F600", "\\\u00e9", "\\\\u0041", "\\\\477", "\\\\\\477", "\\x4", "\\u004", "\\xZZ"} {
		adds(s, "str:corpus")
	}
	// escapes cut short at every position, alone and after a complete (surrogate) escape — what the scanner hands to
	// parseStringLiteral for literals like "\uD83D\uDE0" (it stops an escape at the closing quote)
	for _, full := range []string{"\\uD83D\\uDE00", "\\uDC00\\u1234", "\\uD83D\\u0041", "\\u0041\\uD83D", "\\x41\\x42", "\\uD83D\\x41", "\\uD83D\\101", "a\\uD83D\\uDE00b"} {
		for cut := 1; cut <= len(full); cut++ {
			if full[cut-1] == '\\' {
				continue // a body cannot end in a lone backslash
			}
			adds(full[:cut], "str:truncated-escape")
			adds(full[:cut]+"Z", "str:truncated-escape")
			adds("\\uD83D"+full[:cut], "str:truncated-escape")
		}
	}
	pieces := []string{"a", "Z", " ", "0", "8", "\u00e9", "\u20ac", "\U0001F600", "\\n", "\\t", "\\v", "\\b", "\\f", "\\r", "\\\\", "\\'", "\\\"", "\\a", "\\z", "\\$",
		"\\0", "\\\n", "\\\r\n", "\\\r", "\\\u2028", "\\\u2029", "\\\u00e9"}
	for i := 0; i < c.N(5000, 200000); i++ {
		var sb strings.Builder
		n := 1 + r.Intn(6)
		for j := 0; j < n; j++ {
			switch r.Intn(9) {
			case 0:
				sb.WriteString("\\x" + randDigits(r, 2, "0123456789abcdefABCDEF"))
			case 1:
				sb.WriteString("\\u" + randDigits(r, 4, "0123456789abcdefABCDEF"))
			case 2:
				sb.WriteString("\\u" + randDigits(r, 1, "dD") + randDigits(r, 1, "89abcdef") + randDigits(r, 2, "0123456789abcdef"))
			case 3: // octal escape, not followed by a decimal digit that would leave the grammar
				sb.WriteString("\\" + randDigits(r, 1+r.Intn(3), "01234567"))
				sb.WriteString([]string{"_", "a", " ", "\\n"}[r.Intn(4)])
			default:
				p := pieces[r.Intn(len(pieces))]
				if p == "\\0" { // `\0` followed by a decimal digit is outside the ES5 grammar
					p += "x"
				}
				sb.WriteString(p)
			}
		}
		adds(sb.String(), "str:random")
	}
}
