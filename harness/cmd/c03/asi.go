package main

import (
	"fmt"
	"strings"

	"github.com/robertkrimen/otto/parser"
	"github.com/robertkrimen/otto/token"
	"ottoverif/cmd/c03/astx"
	"ottoverif/h"
)

// The `asi` stream: two statements separated only by a line terminator, for every kind of token that can end the first
// one (every literal FORM, identifiers, closing punctuators, ++/--, this/true/false/null, break/continue/return/debugger),
// every kind of line-terminating trivia and several second statements; plus negative controls (line terminator after a
// token that cannot end a statement).  Compared: the scanner's implicitSemicolon flag of every token (hook) against the
// Lean model/spec of the flag, and the number of statements the parser finds.

var asiOperands = []string{
	"a", "$", "_x", "q1", "\\u0061b", "caf\\u00e9", "let",
	"0", "7", "42", "1.5", "5.", "0.5", ".5", ".25", ".25e1", ".5E-3", "1e3", "1E-2", "2e+7", "0x1F", "0Xff", "017", "00", "9007199254740993",
	"'s'", "\"t\"", "''", "'a\\nb'", "'line\\\ncont'",
	"this", "true", "false", "null",
}

var asiNL = []string{"\n", "\r\n", "\r", " \n", "\n  ", " // c\n", "\u2028", "\u2029", "/**/\n", "\t\r\n\t", "\n\n", "/*\n*/", " /* a\r\n b */ "}

type asiProg struct {
	toks  []string // token texts of the whole program
	nlAt  int      // index of the token in front of which the line terminator stands (-1: none; len(toks): before EOF only)
	stmts int      // statements at top level when the line terminator acts as required
	key   string
}

func asiPrograms() []asiProg {
	var out []asiProg
	seconds := [][]string{{"y", "=", "2"}, {"var", "y", "=", "2"}, {"++", "i"}, {"if", "(", "y", ")", "z"}, {"y"}, {}}
	add := func(first []string, stmts1 int, key string) {
		for _, sec := range seconds {
			toks := append(append([]string{}, first...), sec...)
			n := stmts1
			if len(sec) > 0 {
				n++
			}
			out = append(out, asiProg{toks, len(first), n, key})
		}
	}
	for _, t := range asiOperands {
		add([]string{"x", "=", t}, 1, "asi:operand")
		add([]string{"x", "=", "a", "+", t}, 1, "asi:operand")
		add([]string{"var", "v", "=", t}, 1, "asi:operand")
		add([]string{t}, 1, "asi:operand")
		add([]string{"x", "=", "[", t, "]"}, 1, "asi:closing")
		add([]string{"f", "(", t, ")"}, 1, "asi:closing")
	}
	add([]string{"a", "[", "0", "]"}, 1, "asi:closing")
	add([]string{"x", "=", "{", "}"}, 1, "asi:closing")
	add([]string{"{", "}"}, 1, "asi:closing")
	add([]string{"x", "++"}, 1, "asi:incdec")
	add([]string{"x", "--"}, 1, "asi:incdec")
	add([]string{"debugger"}, 1, "asi:keyword")
	// jump keywords inside their contexts: the second statement stays inside the braces
	for _, sec := range seconds[:4] {
		for _, kw := range []string{"break", "continue"} {
			toks := append(append([]string{"while", "(", "1", ")", "{", kw}, sec...), "}")
			out = append(out, asiProg{toks, 6, 1, "asi:keyword"})
		}
		toks := append(append([]string{"function", "g", "(", ")", "{", "return"}, sec...), "}")
		out = append(out, asiProg{toks, 6, 1, "asi:keyword"})
		for _, t := range []string{".5", "5.", "0x1F", "'s'", "a", "null"} {
			toks := append(append([]string{"function", "g", "(", ")", "{", "return", t}, sec...), "}")
			out = append(out, asiProg{toks, 7, 1, "asi:operand"})
		}
	}
	// negative controls: the line terminator follows a token that cannot end a statement
	for _, t := range asiOperands {
		out = append(out, asiProg{[]string{"x", "=", t}, 2, 1, "asi:control"})
		out = append(out, asiProg{[]string{"x", "=", "a", "+", t}, 4, 1, "asi:control"})
		out = append(out, asiProg{[]string{"f", "(", t, ")"}, 2, 1, "asi:control"})
		out = append(out, asiProg{[]string{"x", "=", "a", ",", t}, 4, 1, "asi:control"})
		out = append(out, asiProg{[]string{"x", "=", "!", t}, 3, 1, "asi:control"})
	}
	return out
}

func asiSource(p asiProg, nl string, tight bool) (string, string) {
	var sb strings.Builder
	bits := make([]byte, 0, len(p.toks)+1)
	for i, t := range p.toks {
		switch {
		case i == p.nlAt:
			sb.WriteString(nl)
			bits = append(bits, '1')
		case i == 0:
			bits = append(bits, '0')
		default:
			prev := p.toks[i-1]
			if !(tight && (prev == "=" || prev == "(" || prev == "[" || prev == "," || t == ")" || t == "]")) || needsSpace(prev, t) {
				sb.WriteString(" ")
			}
			bits = append(bits, '0')
		}
		sb.WriteString(t)
	}
	if p.nlAt == len(p.toks) {
		sb.WriteString(nl)
		bits = append(bits, '1')
	} else {
		bits = append(bits, '0')
	}
	return sb.String(), string(bits)
}

func genAsi(c *h.Ctx) {
	for _, p := range asiPrograms() {
		for _, nl := range asiNL {
			for _, tight := range []bool{false, true} {
				src, bits := asiSource(p, nl, tight)
				toks, _ := parser.VerifScanAll(src)
				if len(toks) != len(p.toks)+1 {
					c.Dist["asi:skipped-token-count"]++
					continue
				}
				c.Add(fmt.Sprintf("asi %s %d x%s %s", bits, p.stmts, astx.Hex(src), astx.TokWire(toks)), "asi", p.key)
			}
		}
	}
}

func implAsi(f []string) string {
	src := astx.UnHex(f[3][1:])
	toks, _ := parser.VerifScanAll(src)
	var sb strings.Builder
	for _, t := range toks {
		if t.NL {
			sb.WriteByte('1')
		} else {
			sb.WriteByte('0')
		}
	}
	_ = token.EOF
	prog, err := parser.ParseFile(nil, "", src, 0)
	if err != nil {
		return sb.String() + "/reject"
	}
	return fmt.Sprintf("%s/accept:%d", sb.String(), len(prog.Body))
}

// ---- regular expression literals as statement enders (`asire`): the tokens are the PARSER's (after it re-scans `/` or
// `/=` as a literal, expression.go:121), so they are assembled here, not taken from the scan-only hook.

var asiRegexps = []string{"/a/", "/a/g", "/ab+c/gi", "/=/", "/=+/", "/=(\\d+)/", "/=x/m", "/[/]/", "/[=/]x/", "/a\\/b/", "/\\//", "/\\[/g", "/[\\]/]+/", "/(?:a|b)*/", "/ /"}

type reTok struct{ text, kind string } // kind: "" punctuator/keyword (wire = text), else IDENTIFIER/NUMBER/REGEX

func reWire(ts []reTok, nlAt int) string {
	parts := make([]string, 0, len(ts)+1)
	for i, t := range ts {
		s := ""
		if i == nlAt {
			s = "#"
		}
		if t.kind == "" {
			s += t.text
		} else {
			s += t.kind + "~" + astx.Hex(t.text)
		}
		parts = append(parts, s)
	}
	parts = append(parts, "EOF")
	return strings.Join(parts, "`")
}

func genAsiRe(c *h.Ctx) {
	id := func(s string) reTok { return reTok{s, "IDENTIFIER"} }
	p := func(s string) reTok { return reTok{s, ""} }
	seconds := [][]reTok{{id("y"), p("="), {"2", "NUMBER"}}, {p("var"), id("y"), p("="), {"2", "NUMBER"}}, {p("++"), id("i")},
		{p("if"), p("("), id("y"), p(")"), id("z")}, {id("g")}, {p("this"), p("."), id("q"), p("="), {"1", "NUMBER"}}, {}}
	for _, re := range asiRegexps {
		r := reTok{re, "REGEX"}
		firsts := [][]reTok{{id("x"), p("="), r}, {p("var"), id("v"), p("="), r}, {r}, {id("x"), p("="), id("a"), p("+"), r},
			{id("x"), p("="), p("["), r, p("]")}, {id("f"), p("("), r, p(")")}}
		for fi, first := range firsts {
			for _, sec := range seconds {
				toks := append(append([]reTok{}, first...), sec...)
				stmts := 1
				if len(sec) > 0 {
					stmts = 2
				}
				for _, nl := range asiNL {
					var sb strings.Builder
					bits := make([]byte, 0, len(toks)+1)
					for i, t := range toks {
						switch {
						case i == len(first):
							sb.WriteString(nl)
							bits = append(bits, '1')
						case i == 0:
							bits = append(bits, '0')
						default:
							sb.WriteString(" ")
							bits = append(bits, '0')
						}
						sb.WriteString(t.text)
					}
					if len(sec) == 0 {
						sb.WriteString(nl)
						bits = append(bits, '1')
					} else {
						bits = append(bits, '0')
					}
					key := "asire:ends-statement"
					if fi >= 4 {
						key = "asire:inside-brackets"
					}
					c.Add(fmt.Sprintf("asire %s %d %s x%s", bits, stmts, reWire(toks, len(first)), astx.Hex(sb.String())), "asire", key)
				}
			}
		}
	}
}

func implAsiRe(f []string) string {
	prog, err := parser.ParseFile(nil, "", astx.UnHex(f[4][1:]), 0)
	if err != nil {
		return "reject"
	}
	return fmt.Sprintf("accept:%d", len(prog.Body))
}
