package main

import (
	"github.com/robertkrimen/otto/ast"
	"github.com/robertkrimen/otto/parser"
	"ottoverif/cmd/c03/astx"
	"ottoverif/h"
)

// Statement contexts: the expression stands as an ExpressionStatement inside a VALID program built from every
// statement form (12.1-12.14), among them iteration statements with label sets of two and three labels and a
// continue / break to each label of the set (12.7, 12.8, 12.12).  The grammar gives the expression the same tree in
// every context and the program must parse: request `expr ctx:<name> <tree> x<hex of the program> <tokens of the
// expression>`; the model and the spec speak about the expression's tokens, the real parser gets the whole program.
// No context holds another ExpressionStatement, so the target is the only one found by the statement-level walk.
var stmtContexts = []struct{ name, pre, post string }{
	{"plain", "", ";"},
	{"block", "{ ", "; }"},
	{"if", "if (1) ", ";"},
	{"else", "if (1) ; else ", ";"},
	{"while", "while (0) ", ";"},
	{"dowhile", "do ", "; while (0)"},
	{"for", "for (;;) { break; ", "; }"},
	{"forin", "for (var k in o) { ", "; continue; }"},
	{"with", "with (o) ", ";"},
	{"switch", "switch (1) { case 1: ", "; break; default: ; }"},
	{"switch-default", "switch (1) { case 1: ; default: ", "; }"},
	{"try", "try { ", "; } catch (e) { }"},
	{"catch", "try { } catch (e) { ", "; }"},
	{"finally", "try { } finally { ", "; }"},
	{"labelled", "a: ", ";"},
	{"labelled2", "a: b: ", ";"},
	{"function", "function f(p, q) { var v; ", "; return; }"},
	{"function-after-return", "function f() { return\n", "; }"},
	{"after-var", "var v = 1, w; ", ";"},
	{"after-throw", "if (0) throw 1; ", ";"},
	{"after-debugger", "debugger\n", ";"},
	// label sets
	{"set2-for-continue-first", "a: b: for (;;) { if (0) continue a; ", "; break; }"},
	{"set2-for-continue-second", "a: b: for (;;) { if (0) continue b; ", "; break a; }"},
	{"set2-while-continue-first", "a: b: while (0) { ", "; continue a; }"},
	{"set2-dowhile-continue-first", "a: b: do { ", "; continue a; } while (0)"},
	{"set2-forin-continue-first", "x: y: for (var k in o) { ", "; continue x; }"},
	{"set2-forin-continue-second", "x: y: for (k in o) { continue y; ", "; }"},
	{"set3-dowhile-continue-middle", "a: b: c: do { ", "; continue b; } while (0)"},
	{"set3-for-continue-each", "a: b: c: for (var i = 0; i < 1; i++) { if (0) continue a; if (0) continue b; if (0) continue c; ", "; }"},
	{"set3-while-break-each", "a: b: c: while (0) { if (0) break a; if (0) break b; if (0) break c; ", "; }"},
	{"set2-nested-loop-continue-outer-first", "a: b: for (;;) { for (;;) { continue a; } ", "; }"},
	{"set2-nested-sets", "a: for (;;) { b: c: for (;;) { ", "; continue a; continue b; continue c; } }"},
	{"set2-in-switch", "switch (1) { case 1: a: b: while (0) { continue a; } ", "; }"},
	{"set2-in-function", "function f() { a: b: for (;;) { ", "; continue a; return; } }"},
	{"set2-in-block-label", "l: { a: b: for (;;) { ", "; continue a; break l; } }"},
	{"set2-through-block", "a: b: while (0) { c: { if (0) continue a; ", "; break c; } }"},
	{"set2-through-try", "a: b: while (0) { try { continue a; } finally { ", "; } }"},
	{"labels-reused-in-function", "a: b: for (;;) { break; function g() { a: b: while (0) { continue a; } } ", "; }"},
}

// stmtExprs collects, in source order, the ExpressionStatements reachable through statements only.
func stmtExprs(s ast.Statement, out *[]*ast.ExpressionStatement) {
	switch n := s.(type) {
	case nil:
	case *ast.ExpressionStatement:
		*out = append(*out, n)
	case *ast.BlockStatement:
		for _, x := range n.List {
			stmtExprs(x, out)
		}
	case *ast.IfStatement:
		stmtExprs(n.Consequent, out)
		if n.Alternate != nil {
			stmtExprs(n.Alternate, out)
		}
	case *ast.WhileStatement:
		stmtExprs(n.Body, out)
	case *ast.DoWhileStatement:
		stmtExprs(n.Body, out)
	case *ast.ForStatement:
		stmtExprs(n.Body, out)
	case *ast.ForInStatement:
		stmtExprs(n.Body, out)
	case *ast.WithStatement:
		stmtExprs(n.Body, out)
	case *ast.LabelledStatement:
		stmtExprs(n.Statement, out)
	case *ast.SwitchStatement:
		for _, cs := range n.Body {
			for _, x := range cs.Consequent {
				stmtExprs(x, out)
			}
		}
	case *ast.TryStatement:
		stmtExprs(n.Body, out)
		if n.Catch != nil {
			stmtExprs(n.Catch.Body, out)
		}
		if n.Finally != nil {
			stmtExprs(n.Finally, out)
		}
	case *ast.FunctionStatement:
		if n.Function != nil {
			stmtExprs(n.Function.Body, out)
		}
	}
}

// parseCtxText: the whole program must parse, and its only statement-level ExpressionStatement is dumped.
func parseCtxText(src string) string {
	prog, err := parser.ParseFile(nil, "", src, 0)
	if err != nil {
		return "reject"
	}
	var found []*ast.ExpressionStatement
	for _, s := range prog.Body {
		stmtExprs(s, &found)
	}
	if len(found) != 1 {
		return "reject:statements"
	}
	return fromAST(found[0].Expression).String()
}

func addCtx(c *h.Ctx, e *Ex, i int, key string) {
	w := &renderer{r: c.Rng}
	w.pos(0, true, e)
	text := w.text(false)
	toks, _ := parser.VerifScanAll(text)
	x := stmtContexts[i]
	c.Add("expr ctx:"+x.name+" "+e.String()+" x"+astx.Hex(x.pre+text+x.post)+" "+astx.TokWire(toks), "expr:ctx:"+x.name, key)
}

func genCtx(c *h.Ctx) {
	g := &gen{r: c.Rng}
	a, b := &Ex{K: "id", Op: "a"}, &Ex{K: "id", Op: "b"}
	fixed := []*Ex{a, {K: "bin", Op: "in", A: []*Ex{a, b}}, {K: "asg", Op: "assign", A: []*Ex{a, b}}, {K: "call", A: []*Ex{a, b}},
		{K: "post", Op: "inc", A: []*Ex{a}}, {K: "un", Op: "preinc", A: []*Ex{a}}, {K: "cond", A: []*Ex{a, b, a}}}
	for i := range stmtContexts {
		for _, e := range fixed {
			addCtx(c, e, i, "ctx:fixed")
		}
	}
	for i := 0; i < c.N(1500, 40000); i++ {
		addCtx(c, g.expr(1+c.Rng.Intn(4)), c.Rng.Intn(len(stmtContexts)), "ctx:random")
	}
}
