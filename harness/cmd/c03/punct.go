package main

import (
	"strings"

	"github.com/robertkrimen/otto/parser"
	"github.com/robertkrimen/otto/token"
	"ottoverif/cmd/c03/astx"
	"ottoverif/h"
)

// The `punct` stream: texts over the punctuator characters (and the space) written with no space between them — every
// text of up to three characters, every pair and triple of ES5 punctuators, the classic look-alikes (`<!--`, `-->`, `+++`,
// `---`, `>>>=`, `!==`, `/*`, `//`), and random longer ones.  Compared: the spellings of the real scanner's tokens with the
// Lean transcription of the scanner's punctuator arms and with ES5 7.7 (longest punctuator wins).

const punctChars = " +-*/%^<>=!&|~?:.,;()[]{}"

var es5Punctuators = []string{"{", "}", "(", ")", "[", "]", ".", ";", ",", "<", ">", "<=", ">=", "==", "!=", "===", "!==", "+", "-", "*", "%", "++", "--",
	"<<", ">>", ">>>", "&", "|", "^", "!", "~", "&&", "||", "?", ":", "=", "+=", "-=", "*=", "%=", "<<=", ">>=", ">>>=", "&=", "|=", "^=", "/", "/="}

func genPunct(c *h.Ctx) {
	add := func(s, key string) { c.Add("punct x"+astx.Hex(s), "punct", key) }
	var rec func(cur string, n int)
	rec = func(cur string, n int) {
		if cur != "" {
			add(cur, "punct:all-up-to-3")
		}
		if n == 0 {
			return
		}
		for i := 0; i < len(punctChars); i++ {
			rec(cur+string(punctChars[i]), n-1)
		}
	}
	rec("", 3)
	for _, a := range es5Punctuators {
		for _, b := range es5Punctuators {
			add(a+b, "punct:pairs")
			if c.Thorough() {
				for _, d := range es5Punctuators {
					add(a+b+d, "punct:triples")
				}
			}
		}
	}
	for _, s := range []string{"<!--", "-->", "<!-", "<!--->", "<!---", "+++", "---", "++++", "----", "+ +", "- -", ">>>=", ">>>>=", ">>>>>", "<<<=", "!===", "====", "=>", "= >", "=>=",
		"/*", "/**/", "/* */+", "/*/", "//", "// ++", "/ /", "/=/", "/==", "*/", "*/*", "..", "...", "&&&", "|||", "&&=", "||=", "**", "**=", "??", "?.", "!--", "<--", "<++", ">--", "-->>", "<<!--"} {
		add(s, "punct:classics")
	}
	for i := 0; i < c.N(6000, 150000); i++ {
		n := 4 + c.Rng.Intn(5)
		var sb strings.Builder
		for j := 0; j < n; j++ {
			sb.WriteByte(punctChars[c.Rng.Intn(len(punctChars))])
		}
		add(sb.String(), "punct:random")
	}
}

func implPunct(f []string) string {
	toks, nerr := parser.VerifScanAll(astx.UnHex(f[1][1:]))
	var out []string
	for _, t := range toks {
		if t.Tok == token.EOF {
			break
		}
		out = append(out, t.Tok.String())
	}
	s := strings.Join(out, "`")
	if s == "" {
		s = "-"
	}
	if nerr > 0 {
		s += "`E"
	}
	return s
}
