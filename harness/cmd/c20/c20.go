package main

import (
	"fmt"
	"os"
	"runtime"
	"strings"
	"sync"

	"github.com/robertkrimen/otto"
	"github.com/robertkrimen/otto/ast"
	"github.com/robertkrimen/otto/parser"
	"ottoverif/h"
	"ottoverif/mujs"
)

func init() {
	h.Register(&h.Prop{ID: "C20", Gen: genC20, Impl: implC20, Serial: true})
}

// snippets touching as much of the standard library and evaluator as possible
var snippets = []string{
	`var s = ""; for (var i = 0; i < 20; i++) { s += String.fromCharCode(65 + i % 26) } s.toLowerCase().split("").reverse().join("-")`,
	`var a = []; for (var i = 0; i < 30; i++) a.push((i * 7919) % 31); a.sort(function(x, y){ return x - y }).join(",")`,
	`JSON.stringify(JSON.parse('{"a":[1,2,{"b":null}],"c":"\\u00e9"}'), null, 2)`,
	`"The quick brown fox".replace(/(\w+) (\w+)/g, function(m, a, b){ return b + " " + a }).match(/o\w/g).join("|")`,
	`var d = new Date(Date.UTC(2001, 1, 3, 4, 5, 6, 7)); d.toISOString() + d.getUTCDay() + Date.parse("2011-10-10T14:48:00.000Z")`,
	`var o = {}; Object.defineProperty(o, "x", {get: function(){ return 42 }, enumerable: true}); Object.keys(o) + o.x + Object.isFrozen(Object.freeze(o))`,
	`function F(n){ this.n = n } F.prototype.inc = function(){ return ++this.n }; var f = new F(1); f.inc() + f.inc() + (f instanceof F)`,
	`var r = 0; try { null.x } catch (e) { r = e.name + ":" + (e instanceof TypeError) } r`,
	`(function(){ return Array.prototype.slice.call(arguments, 1).map(function(x){ return x * 2 }) })(1, 2, 3).reduce(function(a, b){ return a + b }, 0)`,
	`var g = Function("a", "b", "return a * b + 1"); g(6, 7) + eval("1 + 2") + (0, eval)("3")`,
	`parseInt("0x1f") + parseFloat("3.25e1") + Number("  12  ") + (255).toString(16) + (0.1 + 0.2).toFixed(10) + Math.max(1, 2, 3) + Math.floor(-1.5)`,
	`encodeURIComponent("a b&c/é") + decodeURIComponent("%E2%82%AC") + escape("ä b") + unescape("%u0107")`,
	`var e = new Error("boom"); e.message + (e.stack ? "s" : "n") + String(new RangeError("r"))`,
	`var b = function(x, y){ return this.k + x + y }.bind({k: 1}, 2); b(3) + b.length`,
	`var out = []; for (var k in {a: 1, b: 2, c: 3}) out.push(k); with ({z: 9}) { out.push(z) } out.join("")`,
	`var re = /a(b)?c/g; var m, n = 0; while ((m = re.exec("ac abc ac")) !== null) { n += m.index + (m[1] ? 1 : 0) } n + re.lastIndex`,
	`"aXbXc".split("X", 2).concat("abc".substr(1, 1), "abc".substring(2), "  t ".trim(), "abc".charAt(1)).join("/") + "abc".localeCompare("abd")`,
	`var x = 0; lbl: for (var i = 0; i < 5; i++) { for (var j = 0; j < 5; j++) { if (j == 2) continue lbl; if (i == 3) break lbl; x += i * j } } x`,
	`switch (3) { case 1: "a"; case 3: var q = "c"; case 4: q += "d"; break; default: q = "z" } q`,
	`typeof undefined + typeof null + typeof 1 + typeof "" + typeof {} + typeof function(){} + (1 == "1") + (null == undefined) + (NaN != NaN) + (1 < 2 < 3)`,
	`Math.random() >= 0 && Math.random() < 1`,
	`var big = []; for (var i = 0; i < 200; i++) big[i] = {i: i, s: "v" + i}; big.filter(function(o){ return o.i % 3 == 0 }).length + big.indexOf(big[5])`,
	`[1, [2, [3]]].toString() + [3, 1, 2].sort() + [1, 2, 3].reverse() + [1, 2, 3].lastIndexOf(3) + [].concat([1], 2, [[3]]).length`,
	`new Boolean(false) ? 1 : 0`,
	`function f(a, b) { delete arguments[0]; arguments[1] = 9; a = 5; return String(a) + b + arguments[0] + arguments.length } f(1, 2) + f(3, 4) + f(5)`,
	`function g(x) { arguments[0] = x + 1; return x } function h2(x, y) { delete arguments[1]; y = 7; return [arguments[1], y, arguments.length].join() } g(1) + h2(1, 2) + g(2) + h2(3, 4)`,
	`function re() { var r = /a/g; r.test("aa"); return r.lastIndex } re() + "" + re() + re()`,
	`function mk() { return {get p() { return 1 }, q: [1, 2, {r: 3}]} } var o1 = mk(), o2 = mk(); o1.q[2].r = 9; o1.q.push(4); o2.q[2].r + "" + o2.q.length + (o1.q !== o2.q)`,
	`var c = 0; function K() { this.v = ++c } K.prototype.get = function () { return this.v }; [new K(), new K(), new K()].map(function (k) { return k.get() }).join()`,
	`Object.getOwnPropertyNames(Math).length > 10 && Object.getPrototypeOf([]) === Array.prototype && isFinite(1 / 3) && !isNaN(parseFloat("1e3"))`,
	// the same built-in with a DIFFERENT argument in different runtimes: a process-wide memo of "the last
	// pattern / needle / format" shows as a race or as another runtime's result
	`var s = "a.b,c;d:e", out = []; for (var i = 0; i < 40; i++) out.push(s.replace(".", "#")); out[39] + s.split(".").length + s.indexOf(".")`,
	`var s = "a.b,c;d:e", out = []; for (var i = 0; i < 40; i++) out.push(s.replace(",", "#")); out[39] + s.split(",").length + s.indexOf(",")`,
	`var s = "a.b,c;d:e", out = []; for (var i = 0; i < 40; i++) out.push(s.replace(";", "#")); out[39] + s.split(";").length + s.lastIndexOf(";")`,
	`var s = "a.b,c;d:e", out = []; for (var i = 0; i < 40; i++) out.push(s.replace(":", "#")); out[39] + s.split(":").length + s.lastIndexOf(":")`,
	`var r = []; for (var i = 0; i < 30; i++) r.push(new RegExp("a{" + (i % 3 + 1) + "}", "g").exec("aaaa")[0].length); r.join("")`,
	`var r = []; for (var i = 0; i < 30; i++) r.push(new RegExp("[b-" + "cde".charAt(i % 3) + "]+").exec("abcdef")[0]); r.join("")`,
	`var r = []; for (var i = 0; i < 30; i++) r.push((i * 1.5).toFixed(i % 4) + (255 + i).toString(2 + i % 30) + parseInt("z" + i, 36)); r.join()`,
	`var r = []; for (var i = 0; i < 30; i++) r.push(new Date(Date.UTC(2000 + i, i % 12, 1 + i % 28)).toISOString() + Date.parse("20" + (10 + i) + "-01-01")); r.join()`,
	`var r = []; for (var i = 0; i < 30; i++) r.push(encodeURIComponent("k" + i + " é") + decodeURIComponent("%4" + (i % 6 + 1)) + escape("x" + i + "ü")); r.join()`,
	`var r = []; for (var i = 0; i < 30; i++) r.push(JSON.stringify({k: i, s: "v" + i}, null, i % 3) + JSON.parse("[" + i + "]")[0]); r.join()`,
}

func programs(seed uint64, n int) []string {
	r := h.NewRng(seed)
	out := make([]string, n)
	for i := range out {
		if r.Chance(50) {
			out[i] = snippets[r.Intn(len(snippets))]
		} else {
			vars, prog, _ := mujs.GenProgram(r.Fork(), 10+r.Intn(40))
			out[i] = mujs.RenderJS(vars, prog)
		}
	}
	return out
}

func setLog(vm *otto.Otto, logged *[]string) {
	vm.Set("log", func(call otto.FunctionCall) otto.Value {
		*logged = append(*logged, mujs.Tok(call.Argument(0)))
		return call.Argument(0)
	})
}

func outcomeOf(v otto.Value, err error, logged []string) string {
	if err != nil {
		// the trace with its file:line:column positions: resolving a position reads the file.File the
		// runtimes sharing a Script or Program have in common
		if oe, ok := err.(*otto.Error); ok {
			return "err:" + oe.String() + "|" + strings.Join(logged, ",")
		}
		return "err:" + err.Error() + "|" + strings.Join(logged, ",")
	}
	return "val:" + v.String() + "|" + strings.Join(logged, ",")
}

// The template holds one object of every kind objectClone has an arm for (plain, array, arguments,
// bound function with bound primitive AND object arguments and spare capacity in the bound list,
// Date, RegExp with state, Error, String/Number/Boolean wrappers, accessor properties, closures), so
// that state left shared between copies shows as a race or as a result that differs from the baseline.
const template = `var T = {count: 0, items: [1, 2, 3], nested: {deep: [1, {x: 1}]}};
function bump(){ return ++T.count }
var adder = (function(){ var n = 100; return function(){ return ++n } })();
var box = {n: 0};
function addTo(b, k, extra, more){ b.n += k; return b.n + "/" + extra + "/" + more }
var boundBox = addTo.bind(null, box, 2);            // two bound arguments (spare capacity), one an object
var boundOne = addTo.bind(null, box);               // one bound argument
var tArgs = (function(a, b){ return arguments })(1, 2);
var tDate = new Date(0), tRe = /a/g, tErr = new Error("t"), tStr = new String("s"), tNum = new Number(1);
var tAcc = {}; Object.defineProperty(tAcc, "v", {get: function(){ return ++box.n }, set: function(x){ box.n = x }, configurable: true, enumerable: true});
// strings holding an unpaired surrogate are kept as UTF-16 code units ([]uint16), and a Value is copied into a
// copy as it is: the backing array is shared by template and copies, with spare capacity when the string came
// from a concatenation, a slice or unescape (seed N10: `+` appending in place)
var tU1 = "ab" + String.fromCharCode(0xD800), tU2 = ("xyz" + String.fromCharCode(0xD801) + "q").slice(0, 4), tU3 = unescape("z%uD802");
bump();`

// what every copy does with the template's objects after its own program
const templateUse = `; [String(bump()) + adder(), boundBox("e", "m"), boundBox(T.count, null), boundOne(1, 2, 3), box.n,
 (tArgs[0] = T.count, tArgs[0] + tArgs.length), (String(tArgs[1]) + (delete tArgs[1]) + String(tArgs[1]) + (1 in tArgs)), (delete T.items[0], T.items.push(T.count), T.items.join()),
 (T.nested.deep[1].x += 1), (tDate.setTime(T.count), tDate.getTime()), (tRe.test("aa"), tRe.lastIndex),
 (tErr.message += "!", tErr.message), (tStr.p = 1, Object.keys(tStr).join()), tAcc.v, (tAcc.v = 5, box.n),
 (function(){ var s = 0, t; for (var i = 0; i < 40; i++) { t = tU1 + String.fromCharCode(0xDC00 + i); s += t.charCodeAt(3) + t.length; t = tU2; t += String.fromCharCode(0xDC40 + i); s += t.charCodeAt(4); s += (tU3 + "k" + i).length + (tU3 + String.fromCharCode(0xDC80 + i)).charCodeAt(2) } return s })(),
 (Date.parse("2001-02-03T04:05:06Z") + Date.parse("2001-02-03") + new Date("Feb 3 2001 04:05:06 GMT").getTime() + Date.parse("2001") + (isNaN(Date.parse("no date " + T.count)) ? 1 : 0)),
 Object.keys(T).join()].join(";")`

// run program i according to mode on a runtime prepared by prep; returns the outcome
func runOne(mode string, src string, shared interface{}, tmpl *otto.Otto, reps int) string {
	var res []string
	for k := 0; k < reps; k++ {
		var logged []string
		var vm *otto.Otto
		if mode == "copies" || mode == "copyconc" {
			vm = tmpl.Copy()
		} else {
			vm = otto.New()
		}
		setLog(vm, &logged)
		var v otto.Value
		var err error
		switch mode {
		case "script", "program":
			v, err = vm.Run(shared)
		case "copies", "copyconc":
			v, err = vm.Run(src + "\n" + templateUse)
		default:
			v, err = vm.Run(src)
		}
		res = append(res, outcomeOf(v, err, logged))
	}
	return strings.Join(res, "##")
}

func raceLogSize() int64 {
	p := os.Getenv("VERIF_RACE_LOG")
	if p == "" {
		return 0
	}
	st, err := os.Stat(fmt.Sprintf("%s.%d", p, os.Getpid()))
	if err != nil {
		return 0
	}
	return st.Size()
}

func raceLogTail(from int64) string {
	p := os.Getenv("VERIF_RACE_LOG")
	b, err := os.ReadFile(fmt.Sprintf("%s.%d", p, os.Getpid()))
	if err != nil || int64(len(b)) <= from {
		return ""
	}
	t := string(b[from:])
	var keep []string
	for _, l := range strings.Split(t, "\n") {
		l = strings.TrimSpace(l)
		if strings.Contains(l, "robertkrimen/otto") && strings.Contains(l, "()") {
			keep = append(keep, strings.ReplaceAll(l, " ", "_"))
		}
		if len(keep) >= 6 {
			break
		}
	}
	return strings.Join(keep, "<-")
}

func implC20(line string) string {
	f := strings.Fields(line)
	if len(f) != 5 || f[0] != "conc" {
		return "bad-op"
	}
	mode := f[1]
	var n, reps int
	var seed uint64
	fmt.Sscan(f[2], &n)
	fmt.Sscan(f[3], &seed)
	fmt.Sscan(f[4], &reps)
	progs := programs(seed, n)
	shared := make([]interface{}, n)
	var tmpl *otto.Otto
	if mode == "script" || mode == "program" {
		// every shared program also resolves source positions (a caught error's stack, then an uncaught one)
		progs[0] = "var __st = ''; try { null.x } catch (__e) { __st = String(__e.stack) }\n" + progs[0] + "\n;(function thrower(){ if (__st.length > 0) undefinedFunctionAtTheEnd() })()"
	}
	switch mode {
	case "script":
		// ONE script shared by all runtimes
		vm := otto.New()
		s, err := vm.Compile("", progs[0])
		if err != nil {
			return "compile-error"
		}
		for i := range shared {
			shared[i] = s
			progs[i] = progs[0]
		}
	case "program":
		var p *ast.Program
		p, err := parser.ParseFile(nil, "", progs[0], 0)
		if err != nil {
			return "parse-error"
		}
		for i := range shared {
			shared[i] = p
			progs[i] = progs[0]
		}
	case "copies", "copyconc":
		tmpl = otto.New()
		if _, err := tmpl.Run(template); err != nil {
			return "template-error"
		}
	}
	// sequential baseline; for a shared Script/Program the baseline is the SOURCE TEXT compiled afresh on
	// a fresh runtime, so that a Script changed by an earlier execution shows up as a difference
	base := make([]string, n)
	for i := 0; i < n; i++ {
		bm := mode
		if mode == "script" || mode == "program" {
			bm = "fresh"
		}
		base[i] = runOne(bm, progs[i], shared[i], tmpl, reps)
	}
	if tmpl != nil {
		// from here on the template carries an interrupt channel with a halting function waiting in it: it is
		// the TEMPLATE's; no copy may consume it (a copy has a handle, hence a channel, of its own)
		tmpl.Interrupt = make(chan func(), 1)
		tmpl.Interrupt <- func() { panic("interrupt-meant-for-the-template") }
	}
	before := raceLogSize()
	got := make([]string, n)
	rounds := []int{0, 1, 2}
	diff := ""
	for _, p := range rounds {
		var wg sync.WaitGroup
		start := make(chan struct{})
		for i := 0; i < n; i++ {
			wg.Add(1)
			go func(i int) {
				defer wg.Done()
				defer func() {
					if r := recover(); r != nil {
						got[i] = "panic:" + fmt.Sprint(r)
					}
				}()
				<-start
				if p == 1 {
					runtime.Gosched()
				}
				got[i] = runOne(mode, progs[i], shared[i], tmpl, reps)
			}(i)
		}
		close(start)
		wg.Wait()
		for i := range got {
			if got[i] != base[i] && !strings.Contains(progs[i], "Math.random") && diff == "" {
				diff = fmt.Sprintf("differs(rt%d,round%d:%s|baseline|%s)", i, p, h.Sanitize(got[i]), h.Sanitize(base[i]))
			}
		}
	}
	race := "norace"
	if raceLogSize() > before {
		race = "race:" + raceLogTail(before)
	}
	if diff == "" && tmpl != nil && len(tmpl.Interrupt) != 1 {
		diff = "differs(template-interrupt-consumed-by-a-copy)"
	}
	if diff == "" {
		diff = "same"
	}
	return race + ";" + diff
}

func genC20(c *h.Ctx) {
	modes := []string{"fresh", "copies", "script", "program", "copyconc"}
	sets := c.N(40, 1500)
	for i := 0; i < sets; i++ {
		mode := modes[i%len(modes)]
		n := []int{2, 4, 8, 16}[c.Rng.Intn(4)]
		c.Add(fmt.Sprintf("conc %s %d %d %d", mode, n, c.Rng.U64()%1000000, 1+c.Rng.Intn(3)), "mode:"+mode)
	}
}
