package main

import (
	"fmt"
	"go/ast"
	"go/importer"
	"go/parser"
	"go/token"
	"go/types"
	"os"
	"path/filepath"
	"sort"
	"strings"
	"sync"
)

// Facts about shared state, extracted with go/types from /repo's current sources.
//
//	F1  stores to package-level variables outside init / variable initialisers
//	F2  stores to fields of values of the shared-immutable types (compiled node* trees, ast nodes,
//	    file.File/FileSet, objectClass tables)
//	F3  places where the address of a package-level variable is taken
//	F4  calls of pointer-receiver methods on package-level variables
type fact struct{ kind, pkg, target, recv, fn, file string }

var sharedTypePrefixes = map[string][]string{
	"github.com/robertkrimen/otto":        {"node", "objectClass"},
	"github.com/robertkrimen/otto/ast":    {""}, // every struct type of package ast
	"github.com/robertkrimen/otto/file":   {"File", "FileSet"},
	"github.com/robertkrimen/otto/parser": {},
}

func buildTagVerif(path string) bool {
	b, err := os.ReadFile(path)
	if err != nil {
		return false
	}
	head := string(b)
	if len(head) > 400 {
		head = head[:400]
	}
	for _, l := range strings.Split(head, "\n") {
		l = strings.TrimSpace(l)
		if strings.HasPrefix(l, "//go:build") {
			return strings.Contains(l, "verif") && !strings.Contains(l, "!verif")
		}
		if strings.HasPrefix(l, "package ") {
			break
		}
	}
	return false
}

func analyse(dir, path string) ([]fact, error) {
	fset := token.NewFileSet()
	files, _ := filepath.Glob(filepath.Join(dir, "*.go"))
	sort.Strings(files)
	var afs []*ast.File
	for _, f := range files {
		if strings.HasSuffix(f, "_test.go") || buildTagVerif(f) {
			continue
		}
		af, err := parser.ParseFile(fset, f, nil, 0)
		if err != nil {
			return nil, err
		}
		if af.Name.Name == "main" {
			continue
		}
		afs = append(afs, af)
	}
	var terr error
	conf := types.Config{Importer: importer.ForCompiler(fset, "source", nil), Error: func(err error) {
		if terr == nil {
			terr = err
		}
	}}
	info := &types.Info{Uses: map[*ast.Ident]types.Object{}, Defs: map[*ast.Ident]types.Object{}, Types: map[ast.Expr]types.TypeAndValue{}, Selections: map[*ast.SelectorExpr]*types.Selection{}}
	pkg, _ := conf.Check(path, fset, afs, info)
	if terr != nil {
		return nil, fmt.Errorf("type check %s: %v", path, terr)
	}
	isGlobal := func(id *ast.Ident) (string, bool) {
		obj := info.Uses[id]
		if obj == nil {
			obj = info.Defs[id]
		}
		v, ok := obj.(*types.Var)
		if !ok || v.IsField() {
			return "", false
		}
		if v.Parent() == pkg.Scope() {
			return v.Name(), true
		}
		return "", false
	}
	root := func(e ast.Expr) *ast.Ident {
		for {
			switch x := e.(type) {
			case *ast.Ident:
				return x
			case *ast.SelectorExpr:
				// package-qualified identifier of another package: not ours
				if id, ok := x.X.(*ast.Ident); ok {
					if _, isPkg := info.Uses[id].(*types.PkgName); isPkg {
						return nil
					}
				}
				e = x.X
			case *ast.IndexExpr:
				e = x.X
			case *ast.StarExpr:
				e = x.X
			case *ast.ParenExpr:
				e = x.X
			case *ast.SliceExpr:
				e = x.X
			case *ast.TypeAssertExpr:
				e = x.X
			default:
				return nil
			}
		}
	}
	sharedType := func(t types.Type) (string, bool) {
		for {
			if p, ok := t.(*types.Pointer); ok {
				t = p.Elem()
				continue
			}
			break
		}
		n, ok := t.(*types.Named)
		if !ok || n.Obj().Pkg() == nil {
			return "", false
		}
		if _, isStruct := n.Underlying().(*types.Struct); !isStruct {
			return "", false
		}
		prefs, ok := sharedTypePrefixes[n.Obj().Pkg().Path()]
		if !ok {
			return "", false
		}
		for _, p := range prefs {
			if strings.HasPrefix(n.Obj().Name(), p) {
				return n.Obj().Pkg().Name() + "." + n.Obj().Name(), true
			}
		}
		return "", false
	}
	var facts []fact
	short := pkg.Name()
	for _, af := range afs {
		fname := filepath.Base(fset.Position(af.Pos()).Filename)
		for _, d := range af.Decls {
			fd, ok := d.(*ast.FuncDecl)
			if !ok || fd.Body == nil {
				continue
			}
			fn := fd.Name.Name
			recv := ""
			if fd.Recv != nil && len(fd.Recv.List) == 1 {
				t := fd.Recv.List[0].Type
				if s, ok := t.(*ast.StarExpr); ok {
					t = s.X
				}
				if id, ok := t.(*ast.Ident); ok {
					recv = id.Name
				}
			}
			store := func(lhs ast.Expr) {
				// F2: store to a field of a shared-immutable type
				e := lhs
				for {
					if p, ok := e.(*ast.ParenExpr); ok {
						e = p.X
						continue
					}
					if ix, ok := e.(*ast.IndexExpr); ok { // element of a slice/map field
						e = ix.X
						continue
					}
					break
				}
				if se, ok := e.(*ast.SelectorExpr); ok {
					if sel := info.Selections[se]; sel != nil && sel.Kind() == types.FieldVal {
						if tn, ok := sharedType(sel.Recv()); ok {
							facts = append(facts, fact{"F2", short, tn + "." + se.Sel.Name, recv, fn, fname})
						}
					}
				}
				// F1: store rooted at a package-level variable
				if id := root(lhs); id != nil {
					if g, ok := isGlobal(id); ok {
						if _, plain := lhs.(*ast.Ident); plain || true {
							facts = append(facts, fact{"F1", short, g, recv, fn, fname})
						}
					}
				}
			}
			ast.Inspect(fd.Body, func(n ast.Node) bool {
				switch x := n.(type) {
				case *ast.AssignStmt:
					for _, l := range x.Lhs {
						if id, ok := l.(*ast.Ident); ok && x.Tok == token.DEFINE {
							_ = id
							continue
						}
						store(l)
					}
				case *ast.IncDecStmt:
					store(x.X)
				case *ast.RangeStmt:
					if x.Tok == token.ASSIGN {
						if x.Key != nil {
							store(x.Key)
						}
						if x.Value != nil {
							store(x.Value)
						}
					}
				case *ast.CallExpr:
					if id, ok := x.Fun.(*ast.Ident); ok && id.Name == "delete" && len(x.Args) == 2 {
						if _, isBuiltin := info.Uses[id].(*types.Builtin); isBuiltin {
							store(x.Args[0])
						}
					}
					// F4: pointer-receiver method on a global
					if se, ok := x.Fun.(*ast.SelectorExpr); ok {
						if sel := info.Selections[se]; sel != nil && sel.Kind() == types.MethodVal {
							if sig, ok := sel.Obj().Type().(*types.Signature); ok && sig.Recv() != nil {
								if _, ptr := sig.Recv().Type().(*types.Pointer); ptr {
									if id := root(se.X); id != nil {
										if g, ok := isGlobal(id); ok {
											facts = append(facts, fact{"F4", short, g, recv + "/" + se.Sel.Name, fn, fname})
										}
									}
								}
							}
						}
					}
				case *ast.UnaryExpr:
					if x.Op == token.AND {
						if id := root(x.X); id != nil {
							if g, ok := isGlobal(id); ok {
								facts = append(facts, fact{"F3", short, g, recv, fn, fname})
							}
						}
					}
				}
				return true
			})
		}
	}
	return facts, nil
}

func writeFacts(repo, out string) error {
	pkgs := []struct{ dir, path string }{
		{repo, "github.com/robertkrimen/otto"},
		{filepath.Join(repo, "parser"), "github.com/robertkrimen/otto/parser"},
		{filepath.Join(repo, "ast"), "github.com/robertkrimen/otto/ast"},
		{filepath.Join(repo, "file"), "github.com/robertkrimen/otto/file"},
		{filepath.Join(repo, "token"), "github.com/robertkrimen/otto/token"},
		{filepath.Join(repo, "registry"), "github.com/robertkrimen/otto/registry"},
		{filepath.Join(repo, "underscore"), "github.com/robertkrimen/otto/underscore"},
	}
	os.Chdir(repo)
	all := make([][]fact, len(pkgs))
	errs := make([]error, len(pkgs))
	var wg sync.WaitGroup
	for i, p := range pkgs {
		wg.Add(1)
		go func(i int, dir, path string) {
			defer wg.Done()
			all[i], errs[i] = analyse(dir, path)
		}(i, p.dir, p.path)
	}
	wg.Wait()
	var facts []fact
	for i := range pkgs {
		if errs[i] != nil {
			return errs[i]
		}
		facts = append(facts, all[i]...)
	}
	// deduplicate and sort
	seen := map[fact]bool{}
	var uniq []fact
	for _, f := range facts {
		f.file = ""
		if !seen[f] {
			seen[f] = true
			uniq = append(uniq, f)
		}
	}
	sort.Slice(uniq, func(i, j int) bool {
		a, b := uniq[i], uniq[j]
		if a.kind != b.kind {
			return a.kind < b.kind
		}
		if a.pkg != b.pkg {
			return a.pkg < b.pkg
		}
		if a.target != b.target {
			return a.target < b.target
		}
		if a.recv != b.recv {
			return a.recv < b.recv
		}
		return a.fn < b.fn
	})
	var b strings.Builder
	b.WriteString("/- GENERATED from /repo's current sources by harness/cmd/c20 --facts (go/types).  Do not edit, do not commit. -/\nnamespace OttoVerif.C20.Gen\n\n")
	for _, k := range []string{"F1", "F2", "F3", "F4"} {
		fmt.Fprintf(&b, "/-- %s: (package, target, receiver type of the enclosing function, function) -/\ndef %s : List (String × String × String × String) := [", map[string]string{
			"F1": "stores rooted at a package-level variable", "F2": "stores to a field of a shared-immutable type",
			"F3": "address of a package-level variable taken", "F4": "pointer-receiver method called on a package-level variable (receiver field = enclosing receiver/method called)"}[k], strings.ToLower(k))
		first := true
		for _, f := range uniq {
			if f.kind != k {
				continue
			}
			if !first {
				b.WriteString(",")
			}
			first = false
			fmt.Fprintf(&b, "\n  (%q, %q, %q, %q)", f.pkg, f.target, f.recv, f.fn)
		}
		b.WriteString("]\n\n")
	}
	b.WriteString("end OttoVerif.C20.Gen\n")
	return os.WriteFile(out, []byte(b.String()), 0o644)
}
