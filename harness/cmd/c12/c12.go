package main

import (
	"encoding/hex"
	"fmt"
	"math"
	"math/big"
	"strconv"
	"strings"
	"sync"
	"time"

	"github.com/robertkrimen/otto"
	"ottoverif/h"
)

// ---------------------------------------------------------------- host time zone as a request dimension

// zones are the values time.Local takes; a request line starts with `z:<name>` (absent = UTC).
var zones = map[string]*time.Location{}
var zoneNames = []string{"UTC", "F+0530", "F-0330", "F+1400", "F-1200", "F+0545", "FXYZ", "NY", "LON"}

func initZones() {
	zones["UTC"] = time.UTC
	zones["F+0530"] = time.FixedZone("IST", 19800)
	zones["F-0330"] = time.FixedZone("NST", -12600)
	zones["F+1400"] = time.FixedZone("LINT", 50400)
	zones["F-1200"] = time.FixedZone("AOE", -43200)
	zones["F+0545"] = time.FixedZone("NPT", 20700)
	zones["FXYZ"] = time.FixedZone("XYZ", 19800)
	if l, err := time.LoadLocation("America/New_York"); err == nil {
		zones["NY"] = l
	}
	if l, err := time.LoadLocation("Europe/London"); err == nil {
		zones["LON"] = l
	}
}

// zoneGate lets any number of requests of ONE zone run in parallel; time.Local (process-global) is only
// switched while no request is running.
type zoneGate struct {
	mu     sync.Mutex
	cond   *sync.Cond
	cur    string
	active int
}

var gate = func() *zoneGate { g := &zoneGate{cur: "UTC"}; g.cond = sync.NewCond(&g.mu); return g }()

func (g *zoneGate) enter(z string) {
	g.mu.Lock()
	for g.cur != z && g.active > 0 {
		g.cond.Wait()
	}
	if g.cur != z {
		g.cur = z
		time.Local = zones[z]
	}
	g.active++
	g.mu.Unlock()
}

func (g *zoneGate) leave() {
	g.mu.Lock()
	g.active--
	if g.active == 0 {
		g.cond.Broadcast()
	}
	g.mu.Unlock()
}

func init() {
	initZones()
	time.Local = time.UTC
	h.Register(&h.Prop{ID: "C12", Gen: genC12, Impl: implC12, Trivial: func(l string) bool { return false }})
}

var c12vms = sync.Pool{New: func() interface{} { return otto.New() }}

// ---------------------------------------------------------------- canonical output

func numTok(v otto.Value) string {
	if !v.IsNumber() {
		return "notnumber:" + v.String()
	}
	f, err := v.ToFloat()
	if err != nil {
		return "err"
	}
	switch {
	case math.IsNaN(f):
		return "NaN"
	case math.IsInf(f, 0):
		if f > 0 {
			return "Infinity"
		}
		return "-Infinity"
	case f == 0:
		if math.Signbit(f) {
			return "-0"
		}
		return "0"
	case f != math.Trunc(f):
		return "frac:" + h.F64Hex(f)
	}
	return new(big.Float).SetFloat64(f).Text('f', 0)
}

func errTok(err error) string {
	if oe, ok := err.(*otto.Error); ok {
		s := oe.Error()
		if i := strings.IndexByte(s, ':'); i > 0 {
			return "throw:" + s[:i]
		}
		return "throw:" + s
	}
	return "error:" + strings.ReplaceAll(err.Error(), " ", "_")
}

const obsJS = `[d.valueOf(), d.getTime(), d.getUTCFullYear(), d.getUTCMonth(), d.getUTCDate(), d.getUTCDay(), d.getUTCHours(), d.getUTCMinutes(), d.getUTCSeconds(), d.getUTCMilliseconds()]`

const lobsJS = `[d.getFullYear(), d.getMonth(), d.getDate(), d.getDay(), d.getHours(), d.getMinutes(), d.getSeconds(), d.getMilliseconds(), d.getYear(), d.getTimezoneOffset()]`

func arrTok(v otto.Value) string {
	o := v.Object()
	if o == nil {
		return "notarray"
	}
	lv, _ := o.Get("length")
	n, _ := lv.ToInteger()
	parts := make([]string, 0, n)
	for i := 0; i < int(n); i++ {
		e, _ := o.Get(strconv.Itoa(i))
		parts = append(parts, numTok(e))
	}
	return strings.Join(parts, ",")
}

func strTok(v otto.Value) string {
	switch {
	case v.IsNull():
		return "null"
	case v.IsString():
		s, _ := v.ToString()
		return "s:" + fmt.Sprintf("%x", []byte(s))
	}
	return "other:" + strings.ReplaceAll(v.String(), " ", "_")
}

func setArgs(vm *otto.Otto, prefix string, toks []string) string {
	names := make([]string, len(toks))
	for i, t := range toks {
		names[i] = prefix + strconv.Itoa(i)
		vm.Set(names[i], h.HexF64(t))
	}
	return strings.Join(names, ",")
}

var setterNames = []string{"Milliseconds", "Seconds", "Minutes", "Hours", "Date", "Month", "FullYear", "time"}

func implC12(line string) string {
	f := strings.Fields(line)
	zone := "UTC"
	if strings.HasPrefix(f[0], "z:") {
		zone = f[0][2:]
		f = f[1:]
	}
	if zones[zone] == nil {
		return "no-zone-data"
	}
	gate.enter(zone)
	defer gate.leave()
	vm := c12vms.Get().(*otto.Otto)
	defer c12vms.Put(vm)
	run := func(src string) (otto.Value, string) {
		v, err := vm.Run(src)
		if err != nil {
			return v, errTok(err)
		}
		return v, ""
	}
	switch f[0] {
	case "obs":
		vm.Set("v", h.HexF64(f[1]))
		v, e := run("var d = new Date(v); " + obsJS)
		if e != "" {
			return e
		}
		return arrTok(v)
	case "iso", "json":
		vm.Set("v", h.HexF64(f[1]))
		m := "toISOString"
		if f[0] == "json" {
			m = "toJSON"
		}
		v, e := run("new Date(v)." + m + "()")
		if e != "" {
			return e
		}
		return strTok(v)
	case "rt":
		vm.Set("v", h.HexF64(f[1]))
		v, e := run("Date.parse(new Date(v).toISOString())")
		if e != "" {
			return e
		}
		return numTok(v)
	case "utc":
		v, e := run("Date.UTC(" + setArgs(vm, "a", f[1:]) + ")")
		if e != "" {
			return e
		}
		return numTok(v)
	case "ctor":
		v, e := run("var d = new Date(" + setArgs(vm, "a", f[1:]) + "); " + obsJS)
		if e != "" {
			return e
		}
		return arrTok(v)
	case "set":
		vm.Set("v", h.HexF64(f[1]))
		var b strings.Builder
		b.WriteString("var d = new Date(v); var r = [];")
		for i, st := range f[2:] {
			k := strings.IndexByte(st, ':')
			name := st[:k]
			var toks []string
			if st[k+1:] != "" {
				toks = strings.Split(st[k+1:], ",")
			}
			args := setArgs(vm, "s"+strconv.Itoa(i)+"_", toks)
			if name == "time" {
				b.WriteString("r.push(d.setTime(" + args + "));")
			} else {
				b.WriteString("r.push(d.setUTC" + name + "(" + args + "));")
			}
		}
		b.WriteString("[r, " + obsJS + "]")
		v, e := run(b.String())
		if e != "" {
			return e
		}
		o := v.Object()
		r, _ := o.Get("0")
		ob, _ := o.Get("1")
		return arrTok(r) + "|" + arrTok(ob)
	case "rtu", "rts":
		vm.Set("v", h.HexF64(f[1]))
		m := "toUTCString"
		if f[0] == "rts" {
			m = "toString"
		}
		v, e := run("Date.parse(new Date(v)." + m + "())")
		if e != "" {
			return e
		}
		return numTok(v)
	case "parse":
		b, err := hex.DecodeString(f[1])
		if err != nil {
			return "bad-op"
		}
		vm.Set("s", string(b))
		v, e := run("Date.parse(s)")
		if e != "" {
			return e
		}
		return numTok(v)
	case "tojson":
		prims := map[string]string{"num": "5", "nan": "NaN", "inf": "-Infinity", "str": "'x'", "strnum": "'12'", "undef": "undefined", "true": "true"}
		iso := "function () { return 'called'; }"
		if f[2] != "1" {
			iso = "17"
		}
		v, e := run("Date.prototype.toJSON.call({valueOf: function () { return " + prims[f[1]] + "; }, toISOString: " + iso + "})")
		if e != "" {
			return e
		}
		if v.IsNull() {
			return "null"
		}
		s, _ := v.ToString()
		return s
	case "datefn":
		v, e := run("var a = Date(), b = new Date().toString(), c = Date(); a === b || b === c")
		if e != "" {
			return e
		}
		t, _ := v.ToBoolean()
		return h.BoolTok(t)
	case "lobs":
		vm.Set("v", h.HexF64(f[1]))
		v, e := run("var d = new Date(v); " + lobsJS)
		if e != "" {
			return e
		}
		return arrTok(v)
	case "lset":
		vm.Set("v", h.HexF64(f[1]))
		var b strings.Builder
		b.WriteString("var d = new Date(v); var r = [];")
		for i, st := range f[2:] {
			k := strings.IndexByte(st, ':')
			var toks []string
			if st[k+1:] != "" {
				toks = strings.Split(st[k+1:], ",")
			}
			b.WriteString("r.push(d.set" + st[:k] + "(" + setArgs(vm, "s"+strconv.Itoa(i)+"_", toks) + "));")
		}
		b.WriteString("[r, " + obsJS + ", " + lobsJS + "]")
		v, e := run(b.String())
		if e != "" {
			return e
		}
		o := v.Object()
		r, _ := o.Get("0")
		ob, _ := o.Get("1")
		lo, _ := o.Get("2")
		return arrTok(r) + "|" + arrTok(ob) + "|" + arrTok(lo)
	case "sset", "lsset":
		vm.Set("v", h.HexF64(f[1]))
		var b strings.Builder
		b.WriteString("var d = new Date(v); var R = [];")
		for i, st := range f[2:] {
			k := strings.IndexByte(st, ':')
			name := st[:k]
			var toks []string
			if st[k+1:] != "" {
				toks = strings.Split(st[k+1:], ",")
			}
			args := scriptedArgs(vm, "s"+strconv.Itoa(i)+"_", toks)
			call := "d.setUTC" + name + "(" + args + ")"
			if name == "time" {
				call = "d.setTime(" + args + ")"
			} else if f[0] == "lsset" {
				call = "d.set" + name + "(" + args + ")"
			}
			b.WriteString("L = []; try { var r = " + call + "; R.push([L, r]); } catch (e) { R.push([L, e === BOOM ? 'throw' : 'other:' + e]); }")
		}
		b.WriteString("[R, " + obsJS + "]")
		v, e := run(scriptedPrelude + b.String())
		if e != "" {
			return e
		}
		o := v.Object()
		r, _ := o.Get("0")
		ob, _ := o.Get("1")
		ro := r.Object()
		lv, _ := ro.Get("length")
		n, _ := lv.ToInteger()
		parts := make([]string, 0, n)
		for i := 0; i < int(n); i++ {
			e, _ := ro.Get(strconv.Itoa(i))
			parts = append(parts, stepTok(e))
		}
		return strings.Join(parts, ",") + "|" + arrTok(ob)
	case "sutc":
		args := scriptedArgs(vm, "a", f[1:])
		v, e := run(scriptedPrelude + "var d = new Date(0); var R; L = []; try { R = [L, Date.UTC(" + args + ")]; } catch (e) { R = [L, e === BOOM ? 'throw' : 'other:' + e]; } R")
		if e != "" {
			return e
		}
		return stepTok(v)
	}
	return "bad-op"
}

const scriptedPrelude = `var L = []; var BOOM = {}; function O(i, x) { return {valueOf: function () { L.push(i); return x; }}; } function T(i) { return {valueOf: function () { L.push(i); throw BOOM; }}; } function M(i, x, m) { return {valueOf: function () { L.push(i); d.setTime(m); return x; }}; } `

// scriptedArgs binds the numbers and returns the argument list source: `n<hex>` number, `o<hex>` logging object, `t` thrower.
func scriptedArgs(vm *otto.Otto, prefix string, toks []string) string {
	parts := make([]string, len(toks))
	for i, t := range toks {
		name := prefix + strconv.Itoa(i)
		switch t[0] {
		case 'n':
			vm.Set(name, h.HexF64(t[1:]))
			parts[i] = name
		case 'o':
			vm.Set(name, h.HexF64(t[1:]))
			parts[i] = "O(" + strconv.Itoa(i) + "," + name + ")"
		case 'm':
			xm := strings.SplitN(t[1:], "_", 2)
			vm.Set(name, h.HexF64(xm[0]))
			vm.Set(name+"m", h.HexF64(xm[1]))
			parts[i] = "M(" + strconv.Itoa(i) + "," + name + "," + name + "m)"
		default:
			parts[i] = "T(" + strconv.Itoa(i) + ")"
		}
	}
	return strings.Join(parts, ",")
}

// stepTok renders [log, result] as `<log>:<value | throw>`.
func stepTok(v otto.Value) string {
	o := v.Object()
	if o == nil {
		return "notarray"
	}
	lg, _ := o.Get("0")
	res, _ := o.Get("1")
	ls := "-"
	if lo := lg.Object(); lo != nil {
		lv, _ := lo.Get("length")
		n, _ := lv.ToInteger()
		if n > 0 {
			parts := make([]string, 0, n)
			for i := 0; i < int(n); i++ {
				e, _ := lo.Get(strconv.Itoa(i))
				k, _ := e.ToInteger()
				parts = append(parts, strconv.FormatInt(k, 10))
			}
			ls = strings.Join(parts, ".")
		}
	}
	if res.IsString() {
		s, _ := res.ToString()
		return ls + ":" + strings.ReplaceAll(s, " ", "_")
	}
	return ls + ":" + numTok(res)
}

// ---------------------------------------------------------------- generators

func hx(f float64) string { return h.F64Hex(f) }

var c12Years = []int{-271821, -271820, -100000, -10000, -9999, -401, -400, -101, -100, -5, -4, -1, 0, 1, 4, 99, 100, 400, 1000, 1582, 1600, 1700, 1800, 1899, 1900, 1901,
	1904, 1968, 1969, 1970, 1971, 1972, 1999, 2000, 2001, 2004, 2023, 2024, 2038, 2096, 2100, 2101, 2400, 9999, 10000, 10001, 99999, 100000, 275759, 275760}

func msOf(y, m, d int) float64 {
	return float64(time.Date(y, time.Month(m+1), d, 0, 0, 0, 0, time.UTC).UnixMilli())
}

// boundaryTimes: starts of years / months / leap days for the year list, ±1 ms, ±1 s, ±1 day around each.
func boundaryTimes() []float64 {
	var out []float64
	add := func(t float64) {
		for _, d := range []float64{0, -1, 1, -1000, 999, -86400000, 86400000 - 1, 43200000} {
			out = append(out, t+d)
		}
	}
	for _, y := range c12Years {
		for m := 0; m < 12; m++ {
			add(msOf(y, m, 1))
		}
		add(msOf(y, 1, 28))
		add(msOf(y, 1, 29))
		add(msOf(y, 11, 31))
	}
	for _, t := range []float64{0, 8.64e15, -8.64e15, 8.64e15 + 2, -8.64e15 - 2, 1 << 53, -(1 << 53), (1 << 53) + 2, 253402300800000, -62167219200000, -62198755200000,
		4294967296000, -4294967296000, 2147483648000, -2147483648000} {
		add(t)
	}
	return out
}

func specialTimes() []float64 {
	return []float64{math.NaN(), math.Inf(1), math.Inf(-1), 0, math.Copysign(0, -1), 0.5, -0.5, 0.9, -0.9, 1.5, -1.5, 999.999, -999.999, 1e-300, -1e-300,
		8.64e15, -8.64e15, 8.64e15 + 2, -8.64e15 - 2, 8.64e15 - 0.5, 1e16, -1e16, 1.7600000000000998e16, 4e18, -4e18, 86399999.5, -86400000.5}
}

func randTime(r *h.Rng, bt []float64) float64 {
	switch r.Intn(12) {
	case 0, 1, 2:
		return bt[r.Intn(len(bt))]
	case 3, 4, 5:
		// uniform over the ES5 range
		return float64(int64(r.U64()%17280000000000001) - 8640000000000000)
	case 6:
		// 1900..2100
		return float64(int64(r.U64()%6311433600000) - 2208988800000)
	case 7:
		return float64(int64(r.U64()%200000001) - 100000000)
	case 8:
		// beyond the range, below 2^62
		x := float64(int64(r.U64() >> 2))
		if r.Bool() {
			x = -x
		}
		return x
	case 9:
		// fractional
		return float64(int64(r.U64()%20000001)-10000000) + float64(r.Intn(8))/8
	case 10:
		sp := specialTimes()
		return sp[r.Intn(len(sp))]
	default:
		// around a random day boundary
		d := int64(r.U64()%200000001) - 100000000
		return float64(d*86400000 + int64(r.Intn(5)) - 2)
	}
}

// randField draws one date component; idx is the position in (year, month, date, h, m, s, ms).
var hugeFields = []float64{1e300, -1e300, math.MaxFloat64, 9223372036854775808, -9223372036854775808, 9007199254740992, 1e19, -1e19, 1e17, -1e17,
	1e13, -1e13, 9.3e12, -9.3e12, 8.64e15, -8.64e15, 8.64e12, 2500000, 2500001, -2500001, 25000000, 25000001, 1e9, 1e9 + 1, -1e9 - 1,
	24e9, 24e9 + 1, 144e10, 144e10 + 1, 864e11, 864e11 + 1, 864e14, 864e14 + 16, 864e14 + 32, -864e14 - 16, 4e9, 1e10, 3e11, -3e11, 1e8 + 1, 1e6 + 0.5}

func randField(r *h.Rng, idx int) float64 {
	if r.Intn(25) == 0 {
		return hugeFields[r.Intn(len(hugeFields))]
	}
	switch r.Intn(20) {
	case 0, 1, 2, 3, 4, 5:
		// typical
		switch idx {
		case 0:
			return float64(1890 + r.Intn(230))
		case 1:
			return float64(r.Intn(12))
		case 2:
			return float64(1 + r.Intn(31))
		case 3:
			return float64(r.Intn(24))
		case 4, 5:
			return float64(r.Intn(60))
		default:
			return float64(r.Intn(1000))
		}
	case 6, 7, 8:
		return float64(r.Intn(2000001) - 1000000)
	case 9, 10, 11:
		return float64(r.Intn(401) - 200)
	case 12:
		if idx == 0 {
			return float64(r.Intn(104) - 2) // two-digit years and neighbours
		}
		return float64(r.Intn(27) - 13)
	case 13:
		if idx == 0 {
			return []float64{-0.5, 99.5, -0.0, 0.5, 99, 99.999, 100, -1, -0.999, 100.5, 1899.5}[r.Intn(11)]
		}
		return float64(r.Intn(201)-100) + []float64{0.5, 0.25, 0.999, -0.5}[r.Intn(4)]
	case 14:
		return []float64{0, math.Copysign(0, -1), 1, -1, 12, -12, 24, 60, 1000, 366, -366, 1e6, -1e6, 1e8, -1e8, 146097, -146097}[r.Intn(17)]
	case 15:
		if r.Intn(3) == 0 {
			return []float64{math.NaN(), math.Inf(1), math.Inf(-1)}[r.Intn(3)]
		}
		return float64(r.Intn(13))
	case 16:
		if idx == 0 {
			return float64(c12Years[r.Intn(len(c12Years))])
		}
		return float64(r.Intn(100))
	default:
		return float64(r.Intn(61) - 30)
	}
}

// genC12 runs the whole request stream once per host zone (UTC in full, the others thinned out), zone-major so that
// time.Local is switched only a few times.
func genC12(c *h.Ctx) {
	for zi, z := range zoneNames {
		if zones[z] == nil {
			c.Dist["zone-unavailable:"+z]++
			continue
		}
		scale := 1
		if zi > 0 {
			scale = 6
			if c.Thorough() {
				scale = 24
			}
		}
		sub := &h.Ctx{Tier: c.Tier, Seed: c.Seed, Rng: c.Rng.Fork(), Dist: map[string]int{}}
		h.InitCtx(sub)
		genStream(sub, z, scale)
		for _, l := range sub.Lines {
			if z == "UTC" {
				c.Add(l)
			} else {
				c.Add("z:" + z + " " + l)
			}
		}
		for k, v := range sub.Dist {
			c.Dist[k] += v
			c.Dist["zone:"+z] += 0
		}
		c.Dist["zone:"+z] += len(sub.Lines)
	}
}

func genStream(c *h.Ctx, zone string, scale int) {
	r := c.Rng
	n := func(quick, thorough int) int { return (c.N(quick, thorough) + scale - 1) / scale }
	bt := boundaryTimes()
	all := append(append([]float64{}, bt...), specialTimes()...)
	if scale > 1 {
		thin := all[:0:0]
		for i, t := range all {
			if i%scale == 0 {
				thin = append(thin, t)
			}
		}
		all = thin
	}
	for _, t := range all {
		c.Add("obs "+hx(t), "obs:boundary")
	}
	for i, t := range all {
		if c.Thorough() || i%4 == 0 {
			c.Add("iso "+hx(t), "iso:boundary")
			c.Add("rt "+hx(t), "rt:boundary")
		}
		if i%8 == 0 {
			c.Add("json "+hx(t), "json:boundary")
		}
	}
	for i := 0; i < n(15000, 1500000); i++ {
		c.Add("obs "+hx(randTime(r, bt)), "obs:random")
	}
	for i := 0; i < n(4000, 300000); i++ {
		c.Add("iso "+hx(randTime(r, bt)), "iso:random")
		c.Add("rt "+hx(randTime(r, bt)), "rt:random")
	}
	for i := 0; i < n(1000, 50000); i++ {
		c.Add("json "+hx(randTime(r, bt)), "json:random")
	}
	// Date.UTC / constructor
	for i := 0; i < n(20000, 1500000); i++ {
		n := 2 + r.Intn(7)
		if r.Chance(30) {
			n = 7
		}
		parts := make([]string, n)
		for j := range parts {
			parts[j] = hx(randField(r, j))
		}
		op := "utc"
		if r.Chance(25) && zone != "NY" && zone != "LON" {
			op = "ctor" // (under the rule-based zones the constructor gets its own stream, inside the years the rules cover)
		}
		c.Add(op+" "+strings.Join(parts, " "), fmt.Sprintf("%s:n=%d", op, n))
	}
	// fields beyond the too-large guard that cancel each other (region huge_field_cancel) and near misses
	for i := 0; i < n(300, 20000); i++ {
		y := float64(2499990 + r.Intn(20))
		d := -float64(913000000 + r.Intn(2000000))
		c.Add("utc "+hx(y)+" "+hx(0)+" "+hx(d), "utc:cancel")
		hh := float64(23999999990 + int64(r.Intn(20)))
		mm := -hh*60 + float64(r.Intn(100000))
		c.Add("utc "+hx(1970)+" "+hx(0)+" "+hx(1)+" "+hx(hh)+" "+hx(mm), "utc:cancel")
		c.Add("set "+hx(float64(r.Intn(1000000)))+" Hours:"+hx(hh)+","+hx(mm), "set:cancel")
		ms := float64(int64(r.U64()%17280000000000001) - 8640000000000000)
		c.Add("set "+hx(0)+" Milliseconds:"+hx(ms)+" Seconds:"+hx(float64(r.Intn(100)))+","+hx(-ms), "set:bigms")
	}
	// scripted arguments: which ToNumber conversions happen, in which order, and what a throwing one leaves behind
	scripted := func(x float64) string {
		switch r.Intn(12) {
		case 10, 11:
			// valueOf re-enters setTime on the same Date (sometimes with NaN or beyond the range)
			m := float64(int64(r.U64()%6311433600000) - 2208988800000)
			switch r.Intn(8) {
			case 0:
				m = math.NaN()
			case 1:
				m = 8.64e15 + 1
			}
			return "m" + hx(x) + "_" + hx(m)
		case 0:
			return "t"
		case 1, 2, 3, 4:
			return "o" + hx(x)
		default:
			return "n" + hx(x)
		}
	}
	sfield := func(idx int) float64 {
		if r.Chance(18) {
			return []float64{math.NaN(), math.Inf(1), math.Inf(-1)}[r.Intn(3)]
		}
		return randField(r, idx)
	}
	for i := 0; i < n(6000, 300000); i++ {
		n := 2 + r.Intn(7)
		parts := make([]string, n)
		for j := range parts {
			parts[j] = scripted(sfield(j))
		}
		c.Add("sutc "+strings.Join(parts, " "), fmt.Sprintf("sutc:n=%d", n))
	}
	slimits := []int{1, 2, 3, 4, 1, 2, 3, 1}
	sfieldIdx := [][]int{{6}, {5, 6}, {4, 5, 6}, {3, 4, 5, 6}, {2}, {1, 2}, {0, 1, 2}, {}}
	for i := 0; i < n(12000, 600000); i++ {
		var b strings.Builder
		t0 := float64(int64(r.U64()%6311433600000) - 2208988800000)
		if r.Chance(30) {
			t0 = math.NaN()
		}
		b.WriteString("sset " + hx(t0))
		steps := 1 + r.Intn(3)
		for s := 0; s < steps; s++ {
			k := r.Intn(8)
			na := 1 + r.Intn(slimits[k])
			if r.Chance(10) {
				na = slimits[k] + 1
			}
			if r.Chance(4) {
				na = 0
			}
			var as []string
			for j := 0; j < na; j++ {
				switch {
				case k == 7:
					x := float64(int64(r.U64()%6311433600000) - 2208988800000)
					if r.Chance(15) {
						x = math.NaN()
					}
					as = append(as, scripted(x))
				case j < len(sfieldIdx[k]):
					as = append(as, scripted(sfield(sfieldIdx[k][j])))
				default:
					as = append(as, scripted(float64(r.Intn(100))))
				}
			}
			b.WriteString(" " + setterNames[k] + ":" + strings.Join(as, ","))
		}
		c.Add(b.String(), fmt.Sprintf("sset:steps=%d", steps))
	}
	// the local setters and setYear with scripted arguments (fixed-offset zones: no transition-hour region in the way)
	if zone != "NY" && zone != "LON" {
		lsnames := []string{"Milliseconds", "Seconds", "Minutes", "Hours", "Date", "Month", "FullYear", "Year"}
		lslimits := []int{1, 2, 3, 4, 1, 2, 3, 1}
		lsfieldIdx := [][]int{{6}, {5, 6}, {4, 5, 6}, {3, 4, 5, 6}, {2}, {1, 2}, {0, 1, 2}, {0}}
		for i := 0; i < n(10000, 300000); i++ {
			var b strings.Builder
			t0 := float64(int64(r.U64()%6311433600000) - 2208988800000)
			if r.Chance(30) {
				t0 = math.NaN()
			}
			b.WriteString("lsset " + hx(t0))
			steps := 1 + r.Intn(3)
			for s := 0; s < steps; s++ {
				k := r.Intn(8)
				na := 1 + r.Intn(lslimits[k])
				if r.Chance(8) {
					na = lslimits[k] + 1
				}
				var as []string
				for j := 0; j < na; j++ {
					if j < len(lsfieldIdx[k]) {
						as = append(as, scripted(sfield(lsfieldIdx[k][j])))
					} else {
						as = append(as, scripted(float64(r.Intn(100))))
					}
				}
				b.WriteString(" " + lsnames[k] + ":" + strings.Join(as, ","))
			}
			c.Add(b.String(), fmt.Sprintf("lsset:steps=%d", steps))
		}
	}
	// setter histories
	limits := []int{1, 2, 3, 4, 1, 2, 3, 1}
	fieldIdx := [][]int{{6}, {5, 6}, {4, 5, 6}, {3, 4, 5, 6}, {2}, {1, 2}, {0, 1, 2}, {}}
	for i := 0; i < n(20000, 1500000); i++ {
		var b strings.Builder
		t0 := randTime(r, bt)
		if r.Chance(70) {
			t0 = float64(int64(r.U64()%6311433600000) - 2208988800000)
		}
		b.WriteString("set " + hx(t0))
		steps := 1 + r.Intn(5)
		for s := 0; s < steps; s++ {
			k := r.Intn(8)
			na := 1 + r.Intn(limits[k])
			switch r.Intn(25) {
			case 0:
				na = 0
			case 1:
				na = limits[k] + 1
			}
			var as []string
			for j := 0; j < na; j++ {
				if k == 7 {
					if r.Chance(75) {
						as = append(as, hx(float64(int64(r.U64()%17280000000000001)-8640000000000000)))
					} else {
						as = append(as, hx(randTime(r, bt)))
					}
				} else if j < len(fieldIdx[k]) {
					as = append(as, hx(randField(r, fieldIdx[k][j])))
				} else {
					as = append(as, hx(float64(r.Intn(100))))
				}
			}
			b.WriteString(" " + setterNames[k] + ":" + strings.Join(as, ","))
			c.Dist["setstep:"+setterNames[k]]++
		}
		c.Add(b.String(), fmt.Sprintf("set:steps=%d", steps))
	}

	// ---- Date.parse: round trips through toUTCString / toString, and the ES5 date-time family with legal and illegal elements
	for i := 0; i < n(4000, 200000); i++ {
		t := math.Trunc(randTime(r, bt)/1000) * 1000
		if zone == "NY" || zone == "LON" {
			t = float64(1262304000 + int64(r.U64()%2524608000)) * 1000
		}
		c.Add("rtu "+hx(t), "rtu")
		c.Add("rts "+hx(t), "rts")
	}
	c.Add("datefn", "datefn")
	for _, p := range []string{"num", "nan", "inf", "str", "strnum", "undef", "true"} {
		c.Add("tojson "+p+" 1", "tojson")
		c.Add("tojson "+p+" 0", "tojson")
	}
	pick := func(legalHi int, extra ...int) int {
		if r.Chance(85) {
			return r.Intn(legalHi + 1)
		}
		return extra[r.Intn(len(extra))]
	}
	for i := 0; i < n(8000, 400000); i++ {
		y := []int{0, 1, 1970, 2000, 1999, 2024, 9999, 1582, 100}[r.Intn(9)]
		if r.Chance(50) {
			y = r.Intn(10000)
		}
		mo := 1 + pick(11, 0, 13, 12, 99)
		if mo == 100 {
			mo = 99
		}
		dd := 1 + pick(27, -1, 31, 98)
		hh := pick(23, 24, 24, 25, 99)
		mi := pick(59, 60, 99)
		ss := pick(59, 60, 99)
		if hh == 24 && r.Chance(70) {
			mi, ss = 0, 0
		}
		str := fmt.Sprintf("%04d-%02d-%02dT%02d:%02d", y, mo, dd, hh, mi)
		switch r.Intn(3) {
		case 1:
			str += fmt.Sprintf(":%02d", ss)
		case 2:
			ms := r.Intn(1000)
			if hh == 24 && r.Chance(80) {
				ms = 0
			}
			str += fmt.Sprintf(":%02d.%03d", ss, ms)
		}
		if r.Chance(40) {
			str += "Z"
		} else {
			oh := pick(23, 25, 99, 14, 12)
			om := pick(59, 60, 61, 99)
			str += fmt.Sprintf("%c%02d:%02d", "+-"[r.Intn(2)], oh, om)
		}
		c.Add("parse "+hex.EncodeToString([]byte(str)), "parse")
	}

	// ---- local-time methods under the host zone
	dst := zone == "NY" || zone == "LON"
	localTime := func() float64 {
		if dst || r.Chance(60) {
			// 2010-01-01 .. 2090-01-01: inside the daylight rules the model claims
			return float64(1262304000000 + int64(r.U64()%2524608000000))
		}
		return randTime(r, bt)
	}
	// around the daylight transitions of a random year (New York: 2nd Sunday of March / 1st of November; London: last of March / October)
	transitionTime := func() float64 {
		y := 2010 + r.Intn(80)
		loc := zones[zone]
		t := time.Date(y, time.March, 1, 0, 0, 0, 0, time.UTC)
		if r.Bool() {
			t = time.Date(y, time.October, 20, 0, 0, 0, 0, time.UTC)
		}
		_, end := t.In(loc).ZoneBounds()
		if end.IsZero() {
			return float64(t.UnixMilli())
		}
		return float64(end.UnixMilli() + int64(r.Intn(4*7200001)) - 4*3600000)
	}
	lfield := func(idx int) float64 {
		if !dst {
			return randField(r, idx)
		}
		switch idx {
		case 0:
			return float64(2010 + r.Intn(80))
		case 1:
			return float64(r.Intn(37) - 12)
		case 2:
			return float64(r.Intn(120) - 40)
		case 3:
			return float64(r.Intn(200) - 80)
		case 4, 5:
			return float64(r.Intn(400) - 150)
		default:
			return float64(r.Intn(4000) - 1500)
		}
	}
	for i := 0; i < n(12000, 600000); i++ {
		t := localTime()
		if dst && r.Chance(40) {
			t = transitionTime()
		}
		c.Add("lobs "+hx(t), "lobs")
	}
	lnames := []string{"Milliseconds", "Seconds", "Minutes", "Hours", "Date", "Month", "FullYear", "Year"}
	llimits := []int{1, 2, 3, 4, 1, 2, 3, 1}
	lfieldIdx := [][]int{{6}, {5, 6}, {4, 5, 6}, {3, 4, 5, 6}, {2}, {1, 2}, {0, 1, 2}, {0}}
	for i := 0; i < n(20000, 1200000); i++ {
		var b strings.Builder
		t0 := localTime()
		if dst && r.Chance(40) {
			t0 = transitionTime()
		}
		if r.Chance(6) && zone != "LON" {
			t0 = math.NaN()
		}
		b.WriteString("lset " + hx(t0))
		steps := 1 + r.Intn(4)
		for s := 0; s < steps; s++ {
			k := r.Intn(8)
			na := 1 + r.Intn(llimits[k])
			if r.Intn(30) == 0 {
				na = 0
			}
			var as []string
			for j := 0; j < na; j++ {
				x := lfield(lfieldIdx[k][j])
				if k == 7 && r.Chance(40) && !dst {
					x = float64(r.Intn(104) - 2)
				}
				as = append(as, hx(x))
			}
			b.WriteString(" " + lnames[k] + ":" + strings.Join(as, ","))
		}
		c.Add(b.String(), fmt.Sprintf("lset:steps=%d", steps))
	}
	if dst {
		for i := 0; i < n(8000, 400000); i++ {
			na := 2 + r.Intn(6)
			parts := make([]string, na)
			for j := range parts {
				parts[j] = hx(lfield(j))
			}
			c.Add("ctor "+strings.Join(parts, " "), "ctor:dstzone")
		}
		// the constructor around transitions: wall-clock fields of the transition day
		for i := 0; i < n(6000, 300000); i++ {
			w := time.UnixMilli(int64(transitionTime())).In(zones[zone])
			c.Add(fmt.Sprintf("ctor %s %s %s %s %s %s", hx(float64(w.Year())), hx(float64(int(w.Month())-1)), hx(float64(w.Day())), hx(float64(w.Hour())), hx(float64(w.Minute())), hx(float64(w.Second()))), "ctor:transition")
		}
	}
}
