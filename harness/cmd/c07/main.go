// Command c07 is the correspondence harness binary for property C07.
package main

import "ottoverif/h"

func main() { h.Main("C07") }
