package main

import (
	"fmt"
	"strconv"
	"strings"
	"sync"

	"github.com/robertkrimen/otto"
	"ottoverif/h"
)

// Property C07: histories of object-model operations are rendered to JavaScript text and run by
// otto.Run through the public API; after every step the script logs the full observation vector.
// Request syntax: see lean/OttoVerif/C07/Driver.lean.

func init() {
	h.Register(&h.Prop{ID: "C07", Gen: genC07, Impl: implC07})
}

// ---------------------------------------------------------------- implementation side

const c07Prelude = `
var O=[], L=[], R=[], SP=[];
var NAMES=['a','b','c','constructor','prototype','length','name','caller','message','stack','lastIndex','source','global','ignoreCase','multiline','0','1','callee'];
var GLOBAL=this;
function OG(n){ var r=(hop.call(GLOBAL,n)?V(GLOBAL[n]):'0')+'/'+B(n in GLOBAL)+B(hop.call(GLOBAL,n))+B(pie.call(GLOBAL,n))+'/'+G(GLOBAL,n); var l=L.length?L.join(','):'-'; L=[]; return l+'|'+r; }
var hop=Object.prototype.hasOwnProperty, pie=Object.prototype.propertyIsEnumerable;
function IX(t){ var i=O.indexOf(t); return i<0?O.length:i; }
function mk(k){ return function(v){ if(arguments.length>0){ L.push(k+'.'+IX(this)+'.'+V(v)); } return 100+10*IX(this)+k; }; }
var F=[mk(0),mk(1),mk(2)];
function V(x){ if(x===undefined) return '0'; if(typeof x==='number') return x!==x?'3': x===0?(1/x>0?'1':'2'): String(x+3);
  if(x===true) return '996'; if(x===false) return '995'; if(typeof x==='string') return '997';
  for(var i=0;i<SP.length;i++){ if(SP[i][1]===x) return String(SP[i][0]); } return '997'; }
function B(x){ return x===true?'1':x===false?'0':'?'; }
function DI(own,inh){ var o=Object.create(inh); for(var k in own){ if(hop.call(own,k)) o[k]=own[k]; } return o; }
function ND(inh,own){ function Desc(){ for(var k in own){ if(hop.call(own,k)) this[k]=own[k]; } } Desc.prototype=inh; return new Desc(); }
function Fs(f){ if(f===undefined) return 'u'; var i=F.indexOf(f); return String(i<0?900:i); }
function Dsc(o,n){ var d=Object.getOwnPropertyDescriptor(o,n); if(d===undefined) return '-';
  var hv=hop.call(d,'value'), hw=hop.call(d,'writable'), hg=hop.call(d,'get'), hs=hop.call(d,'set');
  var ec=B(d.enumerable)+B(d.configurable);
  if(hv&&hw&&!hg&&!hs) return 'd'+V(d.value)+'_'+B(d.writable)+ec;
  if(hg&&hs&&!hv&&!hw) return 'a'+Fs(d.get)+'_'+Fs(d.set)+'_'+ec;
  if(!hv&&!hw&&!hg&&!hs) return 'x'+ec;
  return '?'+B(hv)+B(hw)+B(hg)+B(hs); }
function NL(l){ if(l.length==0) return '-'; var r=[]; for(var i=0;i<l.length;i++) r.push(NAMES.indexOf(l[i])); return r.join('.'); }
function Obs(i){ var o=O[i]; var ks=Object.keys(o), ns=Object.getOwnPropertyNames(o), fi=[]; for(var k in o) fi.push(k);
  var on=[NAMES[0],NAMES[1],NAMES[2]]; for(var j=0;j<ns.length;j++){ if(NAMES.indexOf(ns[j])!==0&&NAMES.indexOf(ns[j])!==1&&NAMES.indexOf(ns[j])!==2) on.push(ns[j]); }
  var per=[]; for(var j=0;j<on.length;j++){ var n=on[j]; per.push(V(o[n])+'/'+B(n in o)+B(hop.call(o,n))+B(pie.call(o,n))+'/'+G(o,n)+((n==='0'&&(V(o[-0])!==V(o[n])||(-0 in o)!==(n in o)||hop.call(o,-0)!==hop.call(o,n)))?'!negzero':'')); }
  return B(Object.isExtensible(o))+B(Object.isSealed(o))+B(Object.isFrozen(o))+':'+NL(ks)+':'+NL(ns)+':'+NL(fi)+':'+per.join(','); }
function Step(f){ var out; L=[]; try{ out=f(); }catch(e){ out=(e instanceof TypeError)?'T':'E:'+e.name; }
  var r=[out, L.length?L.join(','):'-']; for(var i=0;i<O.length;i++) r.push(Obs(i)); R.push(r.join('|')); }
`

type c07VM struct {
	vm *otto.Otto
}

var c07Pool = sync.Pool{New: func() interface{} {
	vm := otto.New()
	if _, err := vm.Run(c07Prelude); err != nil {
		panic(err)
	}
	dsc, err := vm.Get("Dsc")
	if err != nil {
		panic(err)
	}
	// G guards the descriptor observation: a Go runtime panic inside otto is not catchable by a
	// JavaScript try/catch and would abort the whole script. Since fix f48e83f (fromPropertyDescriptor)
	// the model never predicts token P any more, so a panic here (token P / E:…) is a VIOLATION.
	vm.Set("G", func(call otto.FunctionCall) (res otto.Value) {
		defer func() {
			if r := recover(); r != nil {
				s := fmt.Sprint(r)
				if strings.Contains(s, "TypeAssertionError") || strings.Contains(s, "interface conversion") {
					res, _ = otto.ToValue("P")
				} else {
					res, _ = otto.ToValue("E:" + c07san(s))
				}
			}
		}()
		v, err := dsc.Call(otto.UndefinedValue(), call.Argument(0), call.Argument(1))
		if err != nil {
			s := err.Error()
			if strings.Contains(s, "TypeAssertionError") || strings.Contains(s, "interface conversion") {
				r, _ := otto.ToValue("P")
				return r
			}
			r, _ := otto.ToValue("E:" + c07san(s))
			return r
		}
		return v
	})
	return &c07VM{vm: vm}
}}

func c07san(s string) string {
	s = strings.Map(func(r rune) rune {
		if r == ' ' || r == '\n' || r == '\t' || r == '\r' || r == '|' || r == ';' {
			return '_'
		}
		return r
	}, s)
	if len(s) > 60 {
		s = s[:60]
	}
	return s
}

var c07Names = []string{"a", "b", "c", "constructor", "prototype", "length", "name", "caller", "message", "stack", "lastIndex", "source", "global", "ignoreCase", "multiline", "0", "1", "callee"}

func c07ValLit(code string) string {
	n, err := strconv.Atoi(code)
	if err != nil {
		panic("bad value code " + code)
	}
	switch n {
	case 0:
		return "undefined"
	case 1:
		return "0"
	case 2:
		return "-0"
	case 3:
		return "NaN"
	}
	return strconv.Itoa(n - 3)
}

func c07Name(s string) string {
	n, err := strconv.Atoi(s)
	if err != nil || n < 0 || n >= len(c07Names) {
		panic("bad name " + s)
	}
	return c07Names[n]
}

// c07Key spells the property key of a bracket access / defineProperty call.  The name "0" (code 15) is also
// written as the number -0 in three ways: ToString(-0) is "0" (9.8.1), so they all name the same property.
func c07Key(code string, i int) string {
	if code == "15" {
		switch i % 4 {
		case 1:
			return "-0"
		case 2:
			return "(function(){var z=0;return -z;})()"
		case 3:
			return "Math.round(-0.4)"
		}
	}
	return "'" + c07Name(code) + "'"
}

// c07Numeric: the name is "0" or "1" (codes 15, 16), which cannot follow a dot
func c07Numeric(code string) bool { return code == "15" || code == "16" }

// c07Literal renders the members of an object literal; a data key is spelled as identifier / string / number
// in turn, a literal getter returns a string (opaque 997), a literal setter logs its call as function 900.
func c07Literal(ms []string) string {
	var parts []string
	for j, m := range ms {
		f := strings.Split(m, ".")
		name := c07Name(f[1])
		key := name
		switch {
		case c07Numeric(f[1]) && j%2 == 0:
			key = name // numeric literal: 0, 1
		case c07Numeric(f[1]) || j%3 == 1:
			key = "'" + name + "'"
		}
		switch f[0] {
		case "v":
			parts = append(parts, key+":"+c07ValLit(f[2]))
		case "g":
			parts = append(parts, "get "+key+"(){return 'g';}")
		case "s":
			parts = append(parts, "set "+key+"(v){L.push('900.'+IX(this)+'.'+V(v));}")
		default:
			panic("bad literal member " + m)
		}
	}
	return "{" + strings.Join(parts, ",") + "}"
}

func c07Bool(s string, alt bool) string {
	if alt {
		if s == "1" {
			return "1"
		}
		return "0"
	}
	if s == "1" {
		return "true"
	}
	return "false"
}

func c07GS(s string) string {
	switch s {
	case "u":
		return "undefined"
	case "b":
		return "5"
	}
	return "F[" + s + "]"
}

// c07Desc renders a descriptor (fields e.c.w.v.g.s or N) as a JavaScript expression.
// c07DescParts lists the fields of a descriptor as JavaScript `key:value` strings.
func c07DescParts(f []string, alt bool) []string {
	if len(f) != 6 {
		panic("bad descriptor " + strings.Join(f, "."))
	}
	var parts []string
	if f[0] != "-" {
		parts = append(parts, "enumerable:"+c07Bool(f[0], alt))
	}
	if f[1] != "-" {
		parts = append(parts, "configurable:"+c07Bool(f[1], alt))
	}
	if f[2] != "-" {
		parts = append(parts, "writable:"+c07Bool(f[2], alt))
	}
	if f[3] != "-" {
		parts = append(parts, "value:"+c07ValLit(f[3]))
	}
	if f[4] != "-" {
		parts = append(parts, "get:"+c07GS(f[4]))
	}
	if f[5] != "-" {
		parts = append(parts, "set:"+c07GS(f[5]))
	}
	if alt {
		// same fields, written in the opposite order
		for i, j := 0, len(parts)-1; i < j; i, j = i+1, j-1 {
			parts[i], parts[j] = parts[j], parts[i]
		}
	}
	return parts
}

// c07Desc renders a descriptor (fields e.c.w.v.g.s or N) as a JavaScript expression.  The request fixes WHICH
// fields the descriptor has; `mode` (derived from the step index) only varies how they are spelled: 8.10.5
// ToPropertyDescriptor tests every field with [[HasProperty]], so inherited fields must count like own ones.
//   0 literal   1 every field inherited (Object.create(template))   2 fields alternately own / inherited
//   3 literal, reversed order, 1/0 for booleans   4 `new Desc()` with own and prototype fields   5 two-level chain
func c07Desc(f []string, mode int) string {
	if len(f) == 1 && f[0] == "N" {
		return "7"
	}
	parts := c07DescParts(f, mode == 3)
	lit := func(ps []string) string { return "{" + strings.Join(ps, ",") + "}" }
	var own, inh []string
	for i, p := range parts {
		if i%2 == 0 {
			own = append(own, p)
		} else {
			inh = append(inh, p)
		}
	}
	switch mode {
	case 1:
		return "Object.create(" + lit(parts) + ")"
	case 2:
		return "DI(" + lit(own) + "," + lit(inh) + ")"
	case 4:
		return "ND(" + lit(inh) + "," + lit(own) + ")"
	case 5:
		return "Object.create(DI(" + lit(inh) + "," + lit(own) + "))"
	}
	return lit(parts)
}

func c07DescPartsOrNil(f []string) []string {
	if len(f) != 6 {
		return nil
	}
	return c07DescParts(f, false)
}

func c07Entries(ents []string, mode int) string {
	var parts []string
	for _, e := range ents {
		f := strings.Split(e, ".")
		parts = append(parts, c07Name(f[0])+":"+c07Desc(f[1:], mode))
	}
	return "{" + strings.Join(parts, ",") + "}"
}

// c07Script renders one history as a JavaScript program.
func c07Script(toks []string) string {
	var b strings.Builder
	b.WriteString("O=[];L=[];R=[];SP=[];\n")
	for i, tok := range toks {
		segs := strings.Split(tok, "/")
		f := strings.Split(segs[0], ".")
		ents := segs[1:]
		alt := i%4 == 3
		body := ""
		strict := ""
		switch f[0] {
		case "L":
			body = "var x=" + c07Literal(ents) + ";O.push(x);return 'ok';"
		case "N":
			switch f[1] {
			case "fproto":
				switch i % 3 {
				case 0:
					body = "var f=function(p,q){};"
				case 1:
					body = "function f(p,q){}"
				default:
					body = "var f=new Function('p','q','');"
				}
				body += "SP.push([1000+10*O.length,f]);O.push(f.prototype);return 'ok';"
			case "func":
				switch i % 3 {
				case 0:
					body = "var f=function(p,q){};"
				case 1:
					body = "function f(p,q){}"
				default:
					body = "var f=new Function('p','q','');"
				}
				body += "SP.push([1000+10*O.length+2,f.prototype]);O.push(f);return 'ok';"
			case "terr":
				body = "O.push(new TypeError('m'));return 'ok';"
			case "err":
				body = "O.push(new Error('m'));return 'ok';"
			case "regexp":
				body = "O.push(/x/g);return 'ok';"
			case "date":
				body = "O.push(new Date(0));return 'ok';"
			default:
				panic("bad kind " + tok)
			}
		case "P":
			if f[1] == "1" {
				strict = "'use strict';"
			}
			if alt || c07Numeric(f[3]) {
				body = fmt.Sprintf("O[%s][%s]=%s;return 'ok';", f[2], c07Key(f[3], i), c07ValLit(f[4]))
			} else {
				body = fmt.Sprintf("O[%s].%s=%s;return 'ok';", f[2], c07Name(f[3]), c07ValLit(f[4]))
			}
		case "X":
			if f[1] == "1" {
				strict = "'use strict';"
			}
			if c07Numeric(f[3]) {
				body = fmt.Sprintf("return (delete O[%s][%s])?'t':'f';", f[2], c07Key(f[3], i))
			} else {
				body = fmt.Sprintf("return (delete O[%s].%s)?'t':'f';", f[2], c07Name(f[3]))
			}
		case "D":
			body = fmt.Sprintf("Object.defineProperty(O[%s],%s,%s);return 'ok';", f[1], c07Key(f[2], i), c07Desc(f[3:], i%6))
			if ps := c07DescPartsOrNil(f[3:]); i%12 == 11 && len(ps) > 0 {
				// the first field lives on Object.prototype while the call runs
				kv := strings.SplitN(ps[0], ":", 2)
				body = fmt.Sprintf("Object.prototype.%s=%s;try{Object.defineProperty(O[%s],'%s',{%s});}finally{delete Object.prototype.%s;}return 'ok';",
					kv[0], kv[1], f[1], c07Name(f[2]), strings.Join(ps[1:], ","), kv[0])
			}
		case "M":
			body = fmt.Sprintf("Object.defineProperties(O[%s],%s);return 'ok';", f[1], c07Entries(ents, i%6))
		case "C":
			proto := ""
			if f[1] == "-" {
				if i%2 == 0 {
					proto = "null"
				} else {
					proto = "Object.prototype"
				}
			} else {
				proto = "O[" + f[1] + "]"
			}
			switch {
			case len(ents) == 0 && f[1] == "-" && i%3 == 2:
				body = "var x={};O.push(x);return 'ok';"
			case len(ents) == 0 && i%2 == 1:
				body = fmt.Sprintf("var x=Object.create(%s);O.push(x);return 'ok';", proto)
			default:
				body = fmt.Sprintf("var x=Object.create(%s,%s);O.push(x);return 'ok';", proto, c07Entries(ents, i%6))
			}
		case "F":
			body = fmt.Sprintf("Object.freeze(O[%s]);return 'ok';", f[1])
		case "S":
			body = fmt.Sprintf("Object.seal(O[%s]);return 'ok';", f[1])
		case "E":
			body = fmt.Sprintf("Object.preventExtensions(O[%s]);return 'ok';", f[1])
		default:
			panic("bad op " + tok)
		}
		guard := ""
		if f[0] == "N" || f[0] == "L" {
		} else if f[0] == "C" {
			if f[1] != "-" {
				guard = "if(O[" + f[1] + "]===undefined)return 'bad';"
			}
		} else if f[0] == "P" || f[0] == "X" {
			guard = "if(O[" + f[2] + "]===undefined)return 'bad';"
		} else {
			guard = "if(O[" + f[1] + "]===undefined)return 'bad';"
		}
		b.WriteString("Step(function(){" + strict + guard + body + "});\n")
	}
	b.WriteString("R.length?R.join(';'):'-';\n")
	return b.String()
}

// c07ArgScript renders one arguments-object history: f(x,y) called as f(1,2), every step and every
// observation runs inside the call so that x, y and `arguments` are the live ones.
func c07ArgScript(toks []string) string {
	var b strings.Builder
	b.WriteString("R=[];L=[];SP=[];\n(function(x,y){ var A=arguments; O=[A];\n")
	b.WriteString(`function AStep(f){ var out; L=[]; try{ out=f(); }catch(e){ out=(e instanceof TypeError)?'T':'E:'+e.name; }
  var ns=Object.getOwnPropertyNames(A), on=['0','1','length','callee','a'], per=[];
  for(var j=0;j<on.length;j++){ var n=on[j]; per.push(V(A[n])+'/'+B(n in A)+B(hop.call(A,n))+B(pie.call(A,n))+'/'+G(A,n)); }
  R.push([out, L.length?L.join(','):'-', V(x)+'.'+V(y), B(Object.isExtensible(A))+B(Object.isSealed(A))+B(Object.isFrozen(A))+':'+NL(ns)+':'+per.join(',')].join('|')); }
`)
	for i, tok := range toks {
		f := strings.Split(tok, ".")
		body := ""
		switch f[0] {
		case "A":
			v := "x"
			if f[1] == "1" {
				v = "y"
			}
			body = v + "=" + c07ValLit(f[2]) + ";return 'ok';"
		case "P":
			body = fmt.Sprintf("A['%s']=%s;return 'ok';", c07Name(f[1]), c07ValLit(f[2]))
		case "X":
			body = fmt.Sprintf("return (delete A['%s'])?'t':'f';", c07Name(f[1]))
		case "D":
			body = fmt.Sprintf("Object.defineProperty(A,'%s',%s);return 'ok';", c07Name(f[1]), c07Desc(f[2:], i%6))
		case "F":
			body = "Object.freeze(A);return 'ok';"
		case "S":
			body = "Object.seal(A);return 'ok';"
		case "E":
			body = "Object.preventExtensions(A);return 'ok';"
		default:
			panic("bad op " + tok)
		}
		b.WriteString("AStep(function(){" + body + "});\n")
	}
	b.WriteString("})(1,2);\nR.length?R.join(';'):'-';\n")
	return b.String()
}

var c07GCounter uint64
var c07GMu sync.Mutex

// implC07Global runs one global-binding history: every op is a program of its own on the same VM, the global
// name is fresh for every history.
func implC07Global(toks []string) string {
	c07GMu.Lock()
	c07GCounter++
	name := fmt.Sprintf("gq%d", c07GCounter)
	c07GMu.Unlock()
	w := c07Pool.Get().(*c07VM)
	if _, err := w.vm.Run("O=[GLOBAL];L=[];SP=[];"); err != nil {
		return "abort:" + c07san(err.Error())
	}
	var out []string
	dirty := false // the global object was made non-extensible: the VM is not reused
	for i, tok := range toks {
		f := strings.Split(tok, ".")
		prog := ""
		switch f[0] {
		case "I":
			prog = name + " = " + c07ValLit(f[1]) + "; 'ok'"
		case "V":
			prog = "var " + name + "; 'ok'"
		case "Ev":
			prog = "eval('var " + name + "'); 'ok'"
		case "W":
			prog = "var " + name + " = " + c07ValLit(f[1]) + "; 'ok'"
		case "F":
			prog = "function " + name + "(){}; 'ok'"
		case "Ef":
			prog = "eval('function " + name + "(){}'); 'ok'"
		case "X":
			prog = "(delete " + name + ")?'t':'f'"
		case "PE":
			prog = "Object.preventExtensions(this); 'ok'"
			dirty = true
		case "SL":
			prog = "Object.seal(this); 'ok'"
			dirty = true
		case "D":
			prog = "Object.defineProperty(this,'" + name + "'," + c07Desc(f[1:], i%6) + "); 'ok'"
		default:
			panic("bad op " + tok)
		}
		res := ""
		v, err := w.vm.Run(prog)
		if err != nil {
			if strings.HasPrefix(err.Error(), "TypeError") {
				res = "T"
			} else {
				res = "E:" + c07san(err.Error())
			}
		} else {
			res = v.String()
		}
		o, err := w.vm.Run("OG('" + name + "')")
		if err != nil {
			return "abort:" + c07san(err.Error())
		}
		out = append(out, res+"|"+o.String())
	}
	if !dirty {
		c07Pool.Put(w)
	}
	if len(out) == 0 {
		return "-"
	}
	return strings.Join(out, ";")
}

var c07ObjFns = []string{"getPrototypeOf", "getOwnPropertyDescriptor", "getOwnPropertyNames", "create", "defineProperty", "defineProperties",
	"seal", "freeze", "preventExtensions", "isSealed", "isFrozen", "isExtensible", "keys"}
var c07PrimArgs = map[string]string{"number": "1", "string": "'s'", "boolean": "true", "undefined": "undefined", "null": "null", "missing": ""}

// implC07Prim calls one Object.* function with a non-object first argument.
func implC07Prim(fn, arg string) string {
	a, ok := c07PrimArgs[arg]
	if !ok {
		return "bad-op"
	}
	call := "Object." + fn + "(" + a
	if a != "" {
		switch fn {
		case "getOwnPropertyDescriptor":
			call += ",'x'"
		case "defineProperty":
			call += ",'x',{value:1}"
		case "defineProperties":
			call += ",{}"
		}
	}
	call += ")"
	src := "(function(){ try{ var r=" + call + "; return (r instanceof Array)?'arr'+r.length:(typeof r==='object'&&r!==null?'obj':'val:'+String(r)); }catch(e){ return (e instanceof TypeError)?'T':'E:'+e.name; } })()"
	w := c07Pool.Get().(*c07VM)
	v, err := w.vm.Run(src)
	if err != nil {
		return "abort:" + c07san(err.Error())
	}
	c07Pool.Put(w)
	return v.String()
}

// c07RunDirty runs a script that pollutes built-in prototypes; the VM is reused only when the script reports a clean exit.
func c07RunDirty(src string) string {
	w := c07Pool.Get().(*c07VM)
	v, err := w.vm.Run(src)
	if err != nil {
		return "abort:" + c07san(err.Error())
	}
	out := v.String()
	if strings.HasPrefix(out, "clean:") {
		c07Pool.Put(w)
		return out[len("clean:"):]
	}
	return strings.TrimPrefix(out, "dirty:")
}

var c07Prims = map[string][2]string{"s": {"String.prototype", "\"abc\""}, "n": {"Number.prototype", "(5)"}, "b": {"Boolean.prototype", "true"}}

// implC07Wrapper: `tag` defined on a built-in prototype, then assigned and read through a primitive.
func implC07Wrapper(f []string) string {
	kp, ok := c07Prims[f[1]]
	if !ok {
		return "bad-op"
	}
	holder := "Object.prototype"
	if f[2] == "1" {
		holder = kp[0]
	}
	d := strings.Split(f[3], ".")
	assign := kp[1] + ".tag=" + c07ValLit(f[5]) + ";"
	if f[4] == "idx" {
		assign = kp[1] + "['tag']=" + c07ValLit(f[5]) + ";"
	}
	src := "(function(){ O=[Object.prototype," + kp[0] + "];L=[];SP=[]; var H=" + holder + ", defOut, clean=true;\n" +
		"try{ Object.defineProperty(H,'tag'," + c07Desc(d, len(f[3])%6) + "); defOut='ok'; }catch(e){ defOut=(e instanceof TypeError)?'T':'E:'+e.name; }\n" +
		"L=[]; try{ " + assign + " }catch(e){ L.push('threw:'+e.name); }\n" +
		"var calls=L.length?L.join(','):'-'; L=[]; var got=V(" + kp[1] + ".tag);\n" +
		"var hold=V(H.tag)+'/'+B('tag' in H)+B(hop.call(H,'tag'))+B(pie.call(H,'tag'))+'/'+G(H,'tag');\n" +
		"try{ if(!(delete H.tag) || hop.call(H,'tag')) clean=false; }catch(e){ clean=false; }\n" +
		"return (clean?'clean:':'dirty:')+[defOut,calls,got,hold].join('|'); })()"
	return c07RunDirty(src)
}

// implC07ReadOrder: every present field of the descriptor object is a getter that logs its own code.
func implC07ReadOrder(desc string) string {
	d := strings.Split(desc, ".")
	if len(d) != 6 {
		return "bad-op"
	}
	var b strings.Builder
	b.WriteString("(function(){ var lg=[], d={}; function ad(k,c,v){ Object.defineProperty(d,k,{get:function(){lg.push(c);return v;},enumerable:true,configurable:true}); }\n")
	if d[0] != "-" {
		b.WriteString("ad('enumerable',0," + c07Bool(d[0], false) + ");")
	}
	if d[1] != "-" {
		b.WriteString("ad('configurable',1," + c07Bool(d[1], false) + ");")
	}
	if d[2] != "-" {
		b.WriteString("ad('writable',2," + c07Bool(d[2], false) + ");")
	}
	if d[3] != "-" {
		b.WriteString("ad('value',3," + c07ValLit(d[3]) + ");")
	}
	if d[4] != "-" {
		b.WriteString("ad('get',4," + c07GS(d[4]) + ");")
	}
	if d[5] != "-" {
		b.WriteString("ad('set',5," + c07GS(d[5]) + ");")
	}
	b.WriteString("\nvar out; try{ Object.defineProperty({},'x',d); out='ok'; }catch(e){ out=(e instanceof TypeError)?'T':'E:'+e.name; }\n")
	b.WriteString("return 'clean:'+(lg.length?lg.join('.'):'-')+'|'+out; })()")
	return c07RunDirty(b.String())
}

// built-in -> (prototype to pollute, property name, expression creating the object)
var c07Builtins = map[string][3]string{
	"json":     {"Object.prototype", "tag", "JSON.parse('{\"tag\":1}')"},
	"literal":  {"Object.prototype", "tag", "({tag:1})"},
	"arrlit":   {"Array.prototype", "0", "[1]"},
	"defprops": {"Object.prototype", "tag", "Object.defineProperties({}, {tag:{value:1,writable:true,enumerable:true,configurable:true}})"},
	"create":   {"Object.prototype", "tag", "Object.create({}, {tag:{value:1,writable:true,enumerable:true,configurable:true}})"},
	"args":     {"Object.prototype", "0", "(function(){return arguments})(1)"},
	"smatch":   {"Array.prototype", "0", "'abc'.match(/b/)"},
	"gopd":     {"Object.prototype", "value", "Object.getOwnPropertyDescriptor({x:1},'x')"},
	"keys":     {"Array.prototype", "0", "Object.keys({k:1})"},
	"map":      {"Array.prototype", "0", "[1].map(function(x){return x})"},
	"split":    {"Array.prototype", "0", "'a,b'.split(',')"},
	"slice":    {"Array.prototype", "0", "[1,2].slice(0,1)"},
	"concat":   {"Array.prototype", "0", "[1].concat([2])"},
	"error":    {"Error.prototype", "message", "new Error('m')"},
}

// implC07Builtin: a built-in creates an object while the prototype it will inherit from carries an
// accessor (setter) or a read-only property of the name the built-in is about to create.
func implC07Builtin(b, pol string) string {
	e, ok := c07Builtins[b]
	if !ok {
		return "bad-op"
	}
	desc := "{get:F[0],set:F[1],configurable:true}"
	if pol == "readonly" {
		desc = "{value:9,writable:false,configurable:true}"
	}
	src := "(function(){ O=[];L=[];SP=[]; var TP=" + e[0] + ", NM='" + e[1] + "', clean=true, saved=Object.getOwnPropertyDescriptor(TP,NM), r, res;\n" +
		"Object.defineProperty(TP,NM," + desc + ");\n" +
		"try{ L=[]; r=" + e[2] + "; var calls=L.length?L.join(','):'-'; L=[]; res=calls+'|'+G(r,NM); }catch(e){ res='threw:'+e.name; }\n" +
		"try{ delete TP[NM]; if(saved) Object.defineProperty(TP,NM,saved); if(!saved && hop.call(TP,NM)) clean=false; }catch(e){ clean=false; }\n" +
		"return (clean?'clean:':'dirty:')+res; })()"
	return c07RunDirty(src)
}

// implC07Map: Object.defineProperties / Object.create with a descriptor map whose members have side effects.
func implC07Map(fn, ents string) string {
	var b strings.Builder
	b.WriteString("(function(){ var M={}, o={}, VD={value:1,writable:true,enumerable:true,configurable:true}, out, r;\n")
	es := strings.Split(ents, ",")
	nameOf := func(i string) string {
		k, err := strconv.Atoi(i)
		if err != nil || k < 0 || k >= len(es) {
			return "zz"
		}
		return c07Name(strings.Split(es[k], ":")[0])
	}
	for _, e := range es {
		p := strings.Split(e, ":")
		n := c07Name(p[0])
		switch {
		case p[1] == "p":
			b.WriteString("M." + n + "=VD;\n")
		case p[1] == "b":
			b.WriteString("M." + n + "=5;\n")
		case p[1] == "t":
			b.WriteString("Object.defineProperty(M,'" + n + "',{get:function(){throw new TypeError('x');},enumerable:true,configurable:true});\n")
		case p[1][0] == 'd':
			b.WriteString("Object.defineProperty(M,'" + n + "',{get:function(){delete M." + nameOf(p[1][1:]) + ";return VD;},enumerable:true,configurable:true});\n")
		case p[1][0] == 'h':
			b.WriteString("Object.defineProperty(M,'" + n + "',{get:function(){Object.defineProperty(M,'" + nameOf(p[1][1:]) + "',{enumerable:false});return VD;},enumerable:true,configurable:true});\n")
		default:
			return "bad-op"
		}
	}
	if fn == "dp" {
		b.WriteString("try{ Object.defineProperties(o,M); r=o; out='ok'; }catch(e){ out=(e instanceof TypeError)?'T':'E:'+e.name; r=o; }\n")
	} else {
		b.WriteString("try{ r=Object.create({},M); out='ok'; }catch(e){ out=(e instanceof TypeError)?'T':'E:'+e.name; r=null; }\n")
	}
	b.WriteString("return 'clean:'+out+'|'+(r?NL(Object.getOwnPropertyNames(r)):'-'); })()")
	return c07RunDirty(b.String())
}

var c07Recv = map[string][2]string{ // receiver expression, constructor for instanceof
	"objectP": {"Object.prototype", "Object"}, "numberP": {"Number.prototype", "Number"}, "stringP": {"String.prototype", "String"},
	"booleanP": {"Boolean.prototype", "Boolean"}, "functionP": {"Function.prototype", "Function"}, "null": {"null", ""}, "undefined": {"undefined", ""},
}
var c07PArg = map[string]string{"number": "5", "string": "'abc'", "boolean": "true", "undefined": "undefined", "null": "null", "missing": "",
	"numObj": "new Number(1)", "strObj": "new String('s')", "boolObj": "new Boolean(true)", "plain": "({})", "func": "(function(){})", "nullProto": "Object.create(null)"}

// implC07Proto: isPrototypeOf / getPrototypeOf / instanceof side by side.
func implC07Proto(recv, arg string) string {
	r, ok1 := c07Recv[recv]
	a, ok2 := c07PArg[arg]
	if !ok1 || !ok2 {
		return "bad-op"
	}
	callArgs := r[0]
	inst := "'-'"
	v := a
	if arg == "missing" {
		v = "undefined"
	} else {
		callArgs += "," + a
	}
	if r[1] != "" {
		inst = "(function(){try{return ((" + v + ") instanceof " + r[1] + ")?'t':'f';}catch(e){return (e instanceof TypeError)?'T':'E:'+e.name;}})()"
	}
	gpoCall := "Object.getPrototypeOf(" + a + ")"
	src := "(function(){ var ipo, gpo;\n" +
		"try{ ipo=Object.prototype.isPrototypeOf.call(" + callArgs + ")?'t':'f'; }catch(e){ ipo=(e instanceof TypeError)?'T':'E:'+e.name; }\n" +
		"try{ var p=" + gpoCall + "; gpo=(p===null)?'N':(p===Object.prototype)?'po':(p===Number.prototype)?'pn':(p===String.prototype)?'ps':(p===Boolean.prototype)?'pb':(p===Function.prototype)?'pf':'?'; }catch(e){ gpo=(e instanceof TypeError)?'T':'E:'+e.name; }\n" +
		"return 'clean:'+ipo+'|'+gpo+'|'+" + inst + "; })()"
	return c07RunDirty(src)
}

func implC07(line string) string {
	f := strings.Fields(line)
	if len(f) == 3 && f[0] == "q" {
		return implC07Proto(f[1], f[2])
	}
	if len(f) == 3 && f[0] == "m" {
		return implC07Map(f[1], f[2])
	}
	if len(f) == 6 && f[0] == "w" {
		return implC07Wrapper(f)
	}
	if len(f) == 2 && f[0] == "r" {
		return implC07ReadOrder(f[1])
	}
	if len(f) == 3 && f[0] == "b" {
		return implC07Builtin(f[1], f[2])
	}
	if len(f) == 3 && f[0] == "p" {
		return implC07Prim(f[1], f[2])
	}
	if len(f) == 0 || (f[0] != "h" && f[0] != "a" && f[0] != "g") {
		return "bad-op"
	}
	if f[0] == "g" {
		return implC07Global(f[1:])
	}
	src := ""
	if f[0] == "a" {
		src = c07ArgScript(f[1:])
	} else {
		src = c07Script(f[1:])
	}
	w := c07Pool.Get().(*c07VM)
	v, err := w.vm.Run(src)
	if err != nil {
		// the VM may be in an odd state after an escaped Go panic: do not reuse it
		return "abort:" + c07san(err.Error())
	}
	c07Pool.Put(w)
	return v.String()
}

// ---------------------------------------------------------------- generator

var c07Kinds = []string{"fproto", "func", "terr", "err", "regexp", "date"}

// own property names (codes) of each runtime-created kind, plus "a"
var c07KindNames = map[string][]string{
	"fproto": {"3", "0"}, "func": {"6", "5", "7", "4", "0"}, "terr": {"8", "9", "0"}, "err": {"8", "9", "6", "0"},
	"regexp": {"12", "13", "14", "10", "11", "0"}, "date": {"0"},
}

var c07Vals = []string{"0", "1", "2", "3", "4", "5", "6"}

func c07pick(r *h.Rng, xs ...string) string { return xs[r.Intn(len(xs))] }

func c07tri(r *h.Rng, pAbsent int) string {
	if r.Chance(pAbsent) {
		return "-"
	}
	return c07pick(r, "0", "1")
}

func c07gs(r *h.Rng) string {
	switch x := r.Intn(20); {
	case x < 5:
		return "u"
	case x < 6:
		return "b"
	default:
		return strconv.Itoa(r.Intn(3))
	}
}

var c07LitNames = []string{"0", "1", "16"}

func c07RandMember(r *h.Rng) string {
	n := c07LitNames[r.Intn(len(c07LitNames))]
	switch r.Intn(4) {
	case 0:
		return "g." + n
	case 1:
		return "s." + n
	}
	return "v." + n + "." + c07pick(r, "4", "5")
}

// c07RandDesc returns "e.c.w.v.g.s" or "N" and the distribution key of its shape.
func c07RandDesc(r *h.Rng) (string, string) {
	e, c := c07tri(r, 45), c07tri(r, 45)
	w, v, g, s := "-", "-", "-", "-"
	kind := ""
	switch x := r.Intn(100); {
	case x < 2:
		return "N", "desc:nonobject"
	case x < 20:
		kind = "desc:generic"
	case x < 58:
		kind = "desc:data"
		switch r.Intn(4) {
		case 0:
			w = c07pick(r, "0", "1")
		case 1:
			v = c07pick(r, c07Vals...)
		default:
			w, v = c07pick(r, "0", "1"), c07pick(r, c07Vals...)
		}
	case x < 90:
		kind = "desc:accessor"
		switch r.Intn(4) {
		case 0:
			g = c07gs(r)
		case 1:
			s = c07gs(r)
		default:
			g, s = c07gs(r), c07gs(r)
		}
	default:
		kind = "desc:mixed"
		w, v = c07tri(r, 50), "-"
		if r.Bool() {
			v = c07pick(r, c07Vals...)
		}
		if r.Bool() {
			g = c07gs(r)
		}
		if r.Bool() {
			s = c07gs(r)
		}
	}
	return strings.Join([]string{e, c, w, v, g, s}, "."), kind
}

func c07RandEntries(c *h.Ctx, r *h.Rng, max int) string {
	n := r.Intn(max + 1)
	perm := []int{0, 1, 2}
	for i := 2; i > 0; i-- {
		j := r.Intn(i + 1)
		perm[i], perm[j] = perm[j], perm[i]
	}
	s := ""
	for i := 0; i < n && i < 3; i++ {
		d, k := c07RandDesc(r)
		c.Dist[k]++
		s += "/" + strconv.Itoa(perm[i]) + "." + d
	}
	return s
}

func c07RandHistory(c *h.Ctx, r *h.Rng) string {
	var toks []string
	nobj := 0
	create := func() {
		if r.Chance(15) {
			tok := "L"
			for k := r.Intn(4); k > 0; k-- {
				tok += "/" + c07RandMember(r)
			}
			toks = append(toks, tok)
			nobj++
			return
		}
		if r.Chance(30) {
			toks = append(toks, "N."+c07pick(r, c07Kinds...))
			nobj++
			return
		}
		p := "-"
		if nobj > 0 && r.Chance(70) {
			p = strconv.Itoa(r.Intn(nobj))
		}
		toks = append(toks, "C."+p+c07RandEntries(c, r, 2))
		nobj++ // a failed create leaves nobj too high by one: later ops on a missing object answer `bad` on all three sides
	}
	n0 := 1 + r.Intn(3)
	for i := 0; i < n0; i++ {
		create()
	}
	steps := 1 + r.Intn(10)
	for i := 0; i < steps; i++ {
		a := strconv.Itoa(r.Intn(nobj))
		n := strconv.Itoa(r.Intn(3))
		if r.Chance(35) {
			n = strconv.Itoa(3 + r.Intn(14)) // names 3..16 ("callee" belongs to the arguments histories)
		}
		switch x := r.Intn(100); {
		case x < 24:
			toks = append(toks, "P."+c07pick(r, "0", "1")+"."+a+"."+n+"."+c07pick(r, c07Vals...))
		case x < 34:
			toks = append(toks, "X."+c07pick(r, "0", "1")+"."+a+"."+n)
		case x < 72:
			d, k := c07RandDesc(r)
			c.Dist[k]++
			toks = append(toks, "D."+a+"."+n+"."+d)
		case x < 80:
			toks = append(toks, "M."+a+c07RandEntries(c, r, 3))
		case x < 86:
			if nobj < 4 {
				create()
			} else {
				toks = append(toks, "E."+a)
			}
		case x < 91:
			toks = append(toks, "F."+a)
		case x < 96:
			toks = append(toks, "S."+a)
		default:
			toks = append(toks, "E."+a)
		}
	}
	return "h " + strings.Join(toks, " ")
}

// the states of one property reachable by a single definition on a fresh object
func c07PropStates() []string {
	st := []string{""} // absent
	for _, v := range []string{"4", "5"} {
		for _, w := range []string{"0", "1"} {
			for _, e := range []string{"0", "1"} {
				for _, cc := range []string{"0", "1"} {
					st = append(st, e+"."+cc+"."+w+"."+v+".-.-")
				}
			}
		}
	}
	for _, g := range []string{"u", "0"} {
		for _, s := range []string{"u", "1"} {
			for _, e := range []string{"0", "1"} {
				for _, cc := range []string{"0", "1"} {
					st = append(st, e+"."+cc+".-.-."+g+"."+s)
				}
			}
		}
	}
	return st
}

func genC07(c *h.Ctx) {
	r := c.Rng
	states := c07PropStates()
	tri := []string{"-", "0", "1"}
	// (1) exhaustive single-step product: property state x extensible x every descriptor shape
	gss := []string{"-", "u", "0", "1", "b"}
	for si, st := range states {
		for _, ext := range []bool{true, false} {
			prefix := "h C.-"
			if st != "" {
				prefix += " D.0.0." + st
			}
			if !ext {
				prefix += " E.0"
			}
			for _, e := range tri {
				for _, cc := range tri {
					for _, w := range tri {
						for _, v := range []string{"-", "4", "5"} {
							for _, g := range gss {
								for _, s := range gss {
									if !c.Thorough() && r.Intn(16) != 0 {
										continue
									}
									c.Add(prefix+" D.0.0."+strings.Join([]string{e, cc, w, v, g, s}, "."), "product:define")
								}
							}
						}
					}
				}
			}
			// (2) put / delete on the same states, own and through a child object
			_ = si
			for _, strict := range []string{"0", "1"} {
				for _, v := range []string{"4", "5", "0"} {
					c.Add(prefix+" P."+strict+".0.0."+v, "product:put-own")
					for _, cext := range []bool{true, false} {
						l := prefix + " C.0"
						if !cext {
							l += " E.1"
						}
						c.Add(l+" P."+strict+".1.0."+v+" X."+strict+".1.0", "product:put-inherited")
					}
				}
				c.Add(prefix+" X."+strict+".0.0", "product:delete")
				c.Add(prefix+" F.0 P."+strict+".0.0.6 X."+strict+".0.0", "product:freeze")
				c.Add(prefix+" S.0 P."+strict+".0.0.6 X."+strict+".0.0", "product:seal")
			}
		}
	}
	// (2b) runtime-created start objects: every own name x a grid of descriptors, and delete / put / freeze / seal / preventExtensions
	for _, k := range c07Kinds {
		prefix := "h N." + k
		c.Add(prefix, "native:create")
		c.Add(prefix+" F.0", "native:freeze")
		c.Add(prefix+" S.0", "native:seal")
		c.Add(prefix+" E.0", "native:preventExt")
		c.Add(prefix+" N."+k+" C.0", "native:chain")
		for _, n := range c07KindNames[k] {
			for _, strict := range []string{"0", "1"} {
				c.Add(prefix+" X."+strict+".0."+n, "native:delete")
				c.Add(prefix+" P."+strict+".0."+n+".4", "native:put")
				c.Add(prefix+" C.0 P."+strict+".1."+n+".4 X."+strict+".1."+n, "native:put-inherited")
				c.Add(prefix+" E.0 X."+strict+".0."+n+" P."+strict+".0."+n+".4", "native:delete-put-nonext")
			}
			for _, e := range tri {
				for _, cc := range tri {
					for _, w := range tri {
						for _, v := range []string{"-", "4", "5", "1"} {
							for _, g := range []string{"-", "u", "0"} {
								for _, s := range []string{"-", "1"} {
									if !c.Thorough() && r.Intn(6) != 0 {
										continue
									}
									c.Add(prefix+" D.0."+n+"."+strings.Join([]string{e, cc, w, v, g, s}, "."), "native:define")
								}
							}
						}
					}
				}
			}
		}
	}
	// (2b') object literals as start objects: every member sequence of length <= 3 over three names (a, b, '1'/1)
	// and data / getter / setter members - repeated data keys, string vs numeric spelling, data after accessor,
	// accessor after data, getter+setter pairs in both orders - then delete / redefine / freeze
	var lmem []string
	for _, n := range c07LitNames {
		lmem = append(lmem, "v."+n+".4", "v."+n+".5", "g."+n, "s."+n)
	}
	for _, m1 := range lmem {
		c.Add("h L/"+m1, "literal:1")
		for _, m2 := range lmem {
			l2 := "h L/" + m1 + "/" + m2
			c.Add(l2, "literal:2")
			n2 := strings.Split(m2, ".")[1]
			c.Add(l2+" X.0.0."+n2+" P.0.0."+n2+".6 D.0."+n2+".-.0.-.-.-.- F.0", "literal:2-steps")
			for _, m3 := range lmem {
				if !c.Thorough() && r.Intn(4) != 0 {
					continue
				}
				l3 := l2 + "/" + m3
				c.Add(l3, "literal:3")
				c.Add(l3+" C.0 X.0.0."+strings.Split(m1, ".")[1]+" S.0", "literal:3-steps")
			}
		}
	}
	// (2c) the arguments object: every descriptor shape on a mapped index, followed by parameter and element writes
	for _, e := range tri {
		for _, cc := range tri {
			for _, w := range tri {
				for _, v := range []string{"-", "4", "6"} {
					for _, g := range []string{"-", "u", "0"} {
						for _, s := range []string{"-", "1"} {
							d := strings.Join([]string{e, cc, w, v, g, s}, ".")
							c.Add("a D.15."+d+" A.0.7 P.15.8 X.15 A.0.4", "arguments:define")
							c.Add("a A.0.7 D.15."+d+" A.0.6", "arguments:define")
						}
					}
				}
			}
		}
	}
	for _, pre := range []string{"", "A.0.7 ", "P.15.7 ", "X.15 ", "D.16.-.0.-.-.-.- "} {
		for _, op := range []string{"F", "S", "E"} {
			c.Add("a "+pre+op+" A.0.6 A.1.6 P.15.8 P.16.8 X.15", "arguments:freeze-seal")
		}
	}
	anames := []string{"15", "16", "5", "0", "17"}
	for i := 0; i < c.N(3000, 30000); i++ {
		var toks []string
		for k := 1 + r.Intn(7); k > 0; k-- {
			n := anames[r.Intn(len(anames))]
			switch x := r.Intn(100); {
			case x < 25:
				toks = append(toks, "A."+c07pick(r, "0", "1")+"."+c07pick(r, c07Vals...))
			case x < 45:
				toks = append(toks, "P."+n+"."+c07pick(r, c07Vals...))
			case x < 55:
				toks = append(toks, "X."+n)
			case x < 88:
				d, k2 := c07RandDesc(r)
				c.Dist[k2]++
				toks = append(toks, "D."+n+"."+d)
			case x < 92:
				toks = append(toks, "F")
			case x < 96:
				toks = append(toks, "S")
			default:
				toks = append(toks, "E")
			}
		}
		c.Add("a "+strings.Join(toks, " "), "arguments:history")
	}
	// (2d) global bindings: every pair / triple of the binding operations, then delete; and random ones
	gops := []string{"I.4", "I.5", "V", "Ev", "W.4", "F", "Ef", "X", "PE", "SL", "D.0.0.0.6.-.-", "D.1.1.1.6.-.-", "D.1.0.1.6.-.-", "D.0.1.0.6.-.-", "D.1.1.-.-.0.1", "D.1.0.-.-.0.1", "D.1.0.-.-.0.-", "D.-.-.0.-.-.-"}
	for _, a := range gops {
		c.Add("g "+a+" X", "global:1")
		for _, b2 := range gops {
			c.Add("g "+a+" "+b2+" X I.5", "global:2")
			if c.Thorough() {
				for _, c3 := range gops {
					c.Add("g "+a+" "+b2+" "+c3+" X", "global:3")
				}
			}
		}
	}
	for i := 0; i < c.N(1500, 15000); i++ {
		var toks []string
		for k := 1 + r.Intn(6); k > 0; k-- {
			if r.Chance(25) {
				d, k2 := c07RandDesc(r)
				c.Dist[k2]++
				toks = append(toks, "D."+d)
			} else {
				toks = append(toks, gops[r.Intn(10)])
			}
		}
		c.Add("g "+strings.Join(toks, " "), "global:history")
	}
	// (2e) the Object.* family with a non-object first argument (exhaustive: 13 functions x 6 arguments)
	for _, fn := range c07ObjFns {
		for _, a := range []string{"number", "string", "boolean", "undefined", "null", "missing"} {
			c.Add("p "+fn+" "+a, "primitive-argument")
		}
	}
	// (2f) assignment / read through a primitive base; read order of ToPropertyDescriptor; built-ins under a polluted prototype
	for _, kind := range []string{"s", "n", "b"} {
		for _, lvl := range []string{"0", "1"} {
			for _, form := range []string{"dot", "idx"} {
				for _, e := range []string{"-", "1"} {
					for _, cc := range []string{"1", "0"} {
						for _, w := range tri {
							for _, v := range []string{"-", "4"} {
								for _, g := range []string{"-", "u", "0"} {
									for _, s := range []string{"-", "u", "1"} {
										if cc == "0" && !c.Thorough() {
											continue // a non-configurable pollution costs a VM
										}
										c.Add("w "+kind+" "+lvl+" "+strings.Join([]string{e, cc, w, v, g, s}, ".")+" "+form+" 6", "primitive-base")
									}
								}
							}
						}
					}
				}
			}
		}
	}
	for _, e := range tri {
		for _, cc := range tri {
			for _, w := range tri {
				for _, v := range []string{"-", "4"} {
					for _, g := range []string{"-", "u", "0", "b"} {
						for _, s := range []string{"-", "u", "1", "b"} {
							c.Add("r "+strings.Join([]string{e, cc, w, v, g, s}, "."), "read-order")
						}
					}
				}
			}
		}
	}
	for b := range c07Builtins {
		for _, pol := range []string{"setter", "readonly"} {
			c.Add("b "+b+" "+pol, "builtin-creates")
		}
	}
	// (2g) defineProperties / create with a side-effecting descriptor map: all maps of 2 and 3 members
	macts := []string{"p", "b", "t", "d0", "d1", "d2", "h0", "h1", "h2"}
	for _, fn := range []string{"dp", "cr"} {
		for _, a1 := range macts {
			for _, a2 := range macts {
				c.Add("m "+fn+" 0:"+a1+",1:"+a2, "descriptor-map:2")
				for _, a3 := range macts {
					c.Add("m "+fn+" 0:"+a1+",1:"+a2+",2:"+a3, "descriptor-map:3")
				}
			}
		}
	}
	// (2h) prototype-link observers: 7 receivers x 12 arguments, exhaustive
	for recv := range c07Recv {
		for arg := range c07PArg {
			c.Add("q "+recv+" "+arg, "prototype-link")
		}
	}
	// (2i) the key "0" also spelled as the number -0 (literal, negated variable, Math.round(-0.4)) in put / delete / defineProperty
	for _, pre := range []string{"h C.-", "h C.- C.0", "h L/v.16.4", "h N.date"} {
		c.Add(pre+" P.0.0.15.4 P.0.0.15.5 X.0.0.15 P.0.0.15.6 D.0.15.0.-.0.-.-.- P.0.0.15.4 X.0.0.15", "negzero-key")
		c.Add(pre+" D.0.15.1.1.1.4.-.- D.0.15.-.-.-.5.-.- D.0.15.-.0.-.-.-.- X.0.0.15 P.0.0.15.6 X.0.0.15 X.0.0.15", "negzero-key")
		c.Add(pre+" E.0 P.0.0.15.4 D.0.15.-.-.-.5.-.- D.0.15.-.-.-.5.-.- X.0.0.15", "negzero-key")
	}
	// (3) random histories
	for i := 0; i < c.N(6000, 150000); i++ {
		line := c07RandHistory(c, r)
		c.Add(line, "history", fmt.Sprintf("history:len%02d", len(strings.Fields(line))-1))
	}
}
