// Command c05 is the correspondence harness binary for property C05.
package main

import "ottoverif/h"

func main() { h.Main("C05") }
