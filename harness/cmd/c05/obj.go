package main

import (
	"fmt"
	"strings"

	"github.com/robertkrimen/otto"
	"ottoverif/h"
)

// Operators on OBJECT operands with scripted valueOf/toString, through otto.Run.

var oopOps = map[string]string{
	"add": "+", "sub": "-", "mul": "*", "div": "/", "rem": "%",
	"lt": "<", "gt": ">", "le": "<=", "ge": ">=", "eq": "==", "ne": "!=", "seq": "===", "sne": "!==",
}

const oopPrelude = `
var __log = [];
function mk(id, isDate, vk, vv, sk, sv) {
  var o = isDate ? new Date(0) : {};
  function beh(k, val, tag) {
    if (k === "n") return 5;
    return function () { __log.push(id + tag); if (k === "p") return val; if (k === "o") return {}; throw val; };
  }
  o.valueOf = beh(vk, vv, "v"); o.toString = beh(sk, sv, "s");
  return o;
}`

func oopPrims() []string {
	ints := []float64{-1, 0, 1, 2, 9, 10}
	out := []string{"u", "n", "b:0", "b:1", "f:" + h.NaNHex, "f:7ff0000000000000"}
	for _, i := range ints {
		out = append(out, "f:"+h.F64Hex(i))
	}
	for _, s := range []string{"", "a", "10", "9", "1", "abc", " 2 ", "true", "NaN", "\u00852", "2\ufeff", "\u180e", "\u0085"} {
		out = append(out, h.BytesTok(s))
	}
	return out
}

func genOop(c *h.Ctx) {
	prims := oopPrims()
	r := c.Rng
	beh := func() string {
		switch r.Intn(8) {
		case 0:
			return "o"
		case 1:
			return "n"
		case 2:
			return "t" + prims[r.Intn(len(prims))]
		default:
			return "p" + prims[r.Intn(len(prims))]
		}
	}
	operand := func(id int) string {
		if r.Chance(30) {
			return prims[r.Intn(len(prims))]
		}
		d := 0
		if r.Chance(20) {
			d = 1
		}
		return fmt.Sprintf("o(%d;%d;%s;%s)", id, d, beh(), beh())
	}
	ops := []string{"add", "sub", "mul", "div", "rem", "lt", "gt", "le", "ge", "eq", "ne", "seq", "sne"}
	n := c.N(12000, 400000)
	for i := 0; i < n; i++ {
		op := ops[r.Intn(len(ops))]
		c.Add("oop "+op+" "+operand(1)+" "+operand(2), "oop:"+op)
	}
}

func setOperand(vm *otto.Otto, name, tok string) {
	if !strings.HasPrefix(tok, "o(") {
		vm.Set(name, h.ParseVal(tok))
		return
	}
	f := strings.Split(tok[2:len(tok)-1], ";")
	arg := func(b string, slot string) (string, string) {
		k := b[:1]
		if k == "p" || k == "t" {
			vm.Set(slot, h.ParseVal(b[1:]))
			return k, slot
		}
		return k, "undefined"
	}
	vk, vv := arg(f[2], name+"_v")
	sk, sv := arg(f[3], name+"_s")
	vm.Run(fmt.Sprintf(`var %s = mk(%s, %v, %q, %s, %q, %s);`, name, f[0], f[1] == "1", vk, vv, sk, sv))
}

func implOop(f []string) string {
	vm := otto.New()
	if _, err := vm.Run(oopPrelude); err != nil {
		return "prelude-error"
	}
	setOperand(vm, "x", f[2])
	setOperand(vm, "y", f[3])
	vm.Run(`__log = []; var __r, __t, __threw = false; try { __r = x ` + oopOps[f[1]] + ` y } catch (e) { __threw = true; __t = e }`)
	lg, _ := vm.Run(`__log.join(",")`)
	l := lg.String()
	if l == "" {
		l = "-"
	}
	threw, _ := vm.Get("__threw")
	if b, _ := threw.ToBoolean(); b {
		t, _ := vm.Get("__t")
		if t.IsObject() {
			n, _ := t.Object().Get("name")
			return "throw:" + n.String() + "|" + l
		}
		return "throw:" + h.ValTok(t) + "|" + l
	}
	rv, _ := vm.Get("__r")
	return h.ValTok(rv) + "|" + l
}
