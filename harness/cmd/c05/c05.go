package main

import (
	"fmt"
	"math"
	"strings"

	"github.com/robertkrimen/otto"
	"ottoverif/h"
)

func init() {
	h.Register(&h.Prop{ID: "C05", Gen: genC05, Impl: implC05, Trivial: func(l string) bool { return false }})
}

var c05vm = otto.New()

func c05Strings() []string {
	return []string{"", " ", "0", "-0", "1", "+1", " 12 ", "\t\n42\r", "1e3", "1E-2", ".5", "5.", "-.5e1", "0x10", "0X1f", "-0x10", "0x", "0x1g",
		"Infinity", "-Infinity", "+Infinity", "infinity", "inf", "NaN", "nan", "abc", "1 2", "1_000", "0x1_0", "0b11", "0o17", "010", "1e999", "-1e999", "1e-999",
		"0x1.8p1", "0x8000000000000000", "0xffffffffffffffff", "\u00a0 7\ufeff", "\u180e1", "\u200b1", "1.", "..1", "1e", "1e+", "--1", "4294967296", "2147483648", "-2147483649",
		"9223372036854775808", "18446744073709551616", "a", "b", "A", "aa", "\u00e9", "\uffff", "\U00010000", "\U0001d4b3", "true", "null", "undefined", "[object Object]"}
}

// c05WhiteSpace: numerals wrapped in the code points on which Go's unicode.IsSpace / strings.TrimSpace and
// ES5's StrWhiteSpaceChar (9.3.1) differ - U+0085 (Go only), U+FEFF and U+180E (ES5 only) - plus ordinary
// white space and line terminators, and U+200B (neither): leading, trailing, both, alone.
func c05WhiteSpace() []string {
	ws := []string{"\u0085", "\ufeff", "\u180e", "\u00a0", "\u2028", "\u3000", "\u200b", "\v"}
	nums := []string{"12", "0x1f", "Infinity", "-1.5e1", ""}
	var out []string
	for _, w := range ws {
		for _, n := range nums {
			out = append(out, w+n, n+w, w+n+w)
		}
		out = append(out, w+" ", " "+w+"\t7\n"+w)
	}
	return out
}

func c05Values(r *h.Rng) []string {
	var vs []string
	vs = append(vs, "u", "n", "b:0", "b:1")
	for _, f := range h.BoundaryDoubles() {
		vs = append(vs, "f:"+h.F64Hex(f))
	}
	ints := []struct {
		k      string
		lo, hi int64
	}{{"i8", math.MinInt8, math.MaxInt8}, {"i16", math.MinInt16, math.MaxInt16}, {"i32", math.MinInt32, math.MaxInt32}, {"i64", math.MinInt64, math.MaxInt64}, {"int", math.MinInt64, math.MaxInt64}}
	for _, it := range ints {
		for _, n := range []int64{it.lo, it.lo + 1, -1, 0, 1, it.hi - 1, it.hi} {
			vs = append(vs, fmt.Sprintf("%s:%d", it.k, n))
		}
	}
	vs = append(vs, "i64:9007199254740993", "i64:-9007199254740993", "int:4294967296", "i64:2147483648")
	uints := []struct {
		k  string
		hi uint64
	}{{"u8", math.MaxUint8}, {"u16", math.MaxUint16}, {"u32", math.MaxUint32}, {"u64", math.MaxUint64}, {"uint", math.MaxUint64}}
	for _, it := range uints {
		for _, n := range []uint64{0, 1, it.hi / 2, it.hi/2 + 1, it.hi - 1, it.hi} {
			vs = append(vs, fmt.Sprintf("%s:%d", it.k, n))
		}
	}
	for _, s := range c05Strings() {
		vs = append(vs, h.BytesTok(s))
	}
	for _, s := range c05WhiteSpace() {
		vs = append(vs, h.BytesTok(s))
	}
	return vs
}

var c05Unary = []string{"toInt32", "toUint32", "toUint16", "toInteger", "toNumber", "toBoolean"}
var c05Cmp = []string{"lt", "gt", "le", "ge", "eq", "ne", "seq", "sne"}
var c05Bin = []string{"add", "sub", "mul", "div", "rem", "band", "bor", "bxor", "shl", "shr", "ushr"}

func isStrTok(t string) bool { return strings.HasPrefix(t, "s:") }

func genC05(c *h.Ctx) {
	genOop(c)
	genOps2(c)
	genKnd(c)
	genSk(c)
	genUnres(c)
	vs := c05Values(c.Rng)
	bd := h.BoundaryDoubles()
	for _, op := range c05Unary {
		for _, v := range vs {
			c.Add(op+" "+v, "unary:"+op)
		}
	}
	randVal := func() string {
		if c.Rng.Chance(55) {
			return vs[c.Rng.Intn(len(vs))]
		}
		return "f:" + h.F64Hex(h.RandomDouble(c.Rng, bd))
	}
	for i := 0; i < c.N(3000, 200000); i++ {
		c.Add(c05Unary[c.Rng.Intn(len(c05Unary))]+" "+randVal(), "unary:random")
	}
	if c.Thorough() {
		for _, a := range vs {
			for _, b := range vs {
				for _, op := range c05Cmp {
					c.Add("cmp "+op+" "+a+" "+b, "cmp:"+op)
				}
				c.Add("same "+a+" "+b, "same")
				for _, op := range c05Bin {
					if op == "add" && (isStrTok(a) || isStrTok(b)) {
						continue // string concatenation: not binNum's arm
					}
					c.Add("bin "+op+" "+a+" "+b, "bin:"+op)
				}
			}
		}
	}
	for i := 0; i < c.N(40000, 600000); i++ {
		a, b := randVal(), randVal()
		switch c.Rng.Intn(10) {
		case 0, 1, 2, 3:
			op := c05Cmp[c.Rng.Intn(len(c05Cmp))]
			c.Add("cmp "+op+" "+a+" "+b, "cmp:"+op)
		case 4:
			c.Add("same "+a+" "+b, "same")
		default:
			op := c05Bin[c.Rng.Intn(len(c05Bin))]
			if op == "add" && (isStrTok(a) || isStrTok(b)) {
				op = "sub" // string concatenation is not binNum's arm
			}
			c.Add("bin "+op+" "+a+" "+b, "bin:"+op)
		}
	}
}

func implC05(line string) string {
	f := strings.Fields(line)
	switch f[0] {
	case "oop":
		return implOop(f)
	case "ex":
		return implEx(f)
	case "instr":
		return implInstr(f)
	case "knd", "knda":
		return implKnd(f)
	case "sk", "sku":
		return implSk(f)
	case "ur":
		return implUr(f)
	case "toInt32":
		return fmt.Sprint(otto.VerifToInt32(h.ParseVal(f[1])))
	case "toUint32":
		return fmt.Sprint(otto.VerifToUint32(h.ParseVal(f[1])))
	case "toUint16":
		return fmt.Sprint(otto.VerifToUint16(h.ParseVal(f[1])))
	case "toInteger":
		return h.F64Hex(otto.VerifToIntegerFloat(h.ParseVal(f[1])))
	case "toNumber":
		return h.F64Hex(otto.VerifFloat64(h.ParseVal(f[1])))
	case "toBoolean":
		return h.BoolTok(otto.VerifBool(h.ParseVal(f[1])))
	case "cmp":
		return h.BoolTok(otto.VerifCompare(c05vm, f[1], h.ParseVal(f[2]), h.ParseVal(f[3])))
	case "same":
		return h.BoolTok(otto.VerifSameValue(h.ParseVal(f[1]), h.ParseVal(f[2])))
	case "bin":
		return h.ValTok(otto.VerifBinary(c05vm, f[1], h.ParseVal(f[2]), h.ParseVal(f[3])))
	}
	return "bad-op"
}
