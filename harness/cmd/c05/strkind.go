package main

import (
	"fmt"
	"strconv"
	"strings"
	"unicode/utf16"

	"github.com/robertkrimen/otto"
	"ottoverif/h"
)

// sk / sku: operators on STRING operands in both internal representations.  A string Value holds a Go
// string or the UTF-16 code units themselves ([]uint16: every String.fromCharCode result, and any string
// with an unpaired surrogate).  Each operand is written as an expression that makes the evaluator itself
// produce the representation.  Producer tokens (shared with Driver.lean `svProd?`): [O]<kind>:<units hex>,
// kind = lit | fcc | cat | sl | cuth | cutl | chr, prefix O = new String(…).

func unitsTok16(us []uint16) string {
	if len(us) == 0 {
		return "e"
	}
	var b strings.Builder
	for _, u := range us {
		fmt.Fprintf(&b, "%04x", u)
	}
	return b.String()
}

func parseUnits(hx string) []uint16 {
	if hx == "e" {
		return nil
	}
	var us []uint16
	for i := 0; i+4 <= len(hx); i += 4 {
		n, _ := strconv.ParseUint(hx[i:i+4], 16, 16)
		us = append(us, uint16(n))
	}
	return us
}

func wellPaired(us []uint16) bool {
	for i := 0; i < len(us); i++ {
		switch {
		case us[i] < 0xD800 || us[i] > 0xDFFF:
		case us[i] < 0xDC00 && i+1 < len(us) && us[i+1] >= 0xDC00 && us[i+1] <= 0xDFFF:
			i++
		default:
			return false
		}
	}
	return true
}

// jsLit writes the text as a string literal with the characters themselves (the pool has no quote,
// backslash or line terminator; escapes of surrogate pairs are C03's subject)
func jsLit(us []uint16) string { return `"` + string(utf16.Decode(us)) + `"` }

func fccCall(us []uint16) string {
	p := make([]string, len(us))
	for i, u := range us {
		p[i] = fmt.Sprintf("0x%04x", u)
	}
	return "String.fromCharCode(" + strings.Join(p, ",") + ")"
}

func strProducerJS(tok string) string {
	obj := strings.HasPrefix(tok, "O")
	if obj {
		tok = tok[1:]
	}
	i := strings.IndexByte(tok, ':')
	k, us := tok[:i], parseUnits(tok[i+1:])
	var src string
	switch k {
	case "lit":
		src = jsLit(us)
	case "fcc":
		src = fccCall(us)
	case "cat":
		if len(us) == 0 {
			src = `""`
		} else {
			p := make([]string, len(us))
			for i, u := range us {
				p[i] = fccCall([]uint16{u})
			}
			src = "(" + strings.Join(p, " + ") + ")"
		}
	case "sl":
		src = fmt.Sprintf(`("x" + %s + "y").slice(1, %d)`, jsLit(us), 1+len(us))
	case "cuth":
		src = jsLit(us) + ".slice(0, 1)"
	case "cutl":
		src = jsLit(us) + ".slice(1, 2)"
	case "chr":
		src = `("x" + ` + jsLit(us) + `).charAt(1)`
	default:
		panic("bad string producer " + tok)
	}
	if obj {
		return "new String(" + src + ")"
	}
	return src
}

const skPrelude = `function __cu(s) { var a = []; for (var i = 0; i < s.length; i++) { var h = s.charCodeAt(i).toString(16); a.push("0000".slice(h.length) + h); } return a.length ? a.join("") : "e"; }`

func implSk(f []string) string {
	vm := otto.New()
	vm.Run(skPrelude)
	a := strProducerJS(f[2])
	var src string
	if f[0] == "sku" {
		switch f[1] {
		case "typeof":
			src = `"t:" + typeof ` + a
		case "not":
			src = `(!` + a + `) ? "b:1" : "b:0"`
		case "pos":
			src = `+` + a
		case "neg":
			src = `-` + a
		case "and":
			src = `(` + a + ` && "T") === "T" ? "T" : "F"`
		case "or":
			src = `(` + a + ` || "F") === "F" ? "F" : "T"`
		case "cond":
			src = a + ` ? "T" : "F"`
		default:
			return "bad-op"
		}
	} else {
		b := strProducerJS(f[3])
		switch f[1] {
		case "add":
			src = `"u:" + __cu(` + a + ` + ` + b + `)`
		case "key":
			src = `(function () { var o = {}, a = ` + a + `, b = ` + b + `; o[b] = 1; var i = (a in o), g = (o[a] === 1); return i === g ? (i ? "b:1" : "b:0") : "inconsistent"; })()`
		case "sw":
			src = `(function () { switch (` + a + `) { case ` + b + `: return "b:1"; default: return "b:0"; } })()`
		default:
			op, ok := bopJS[f[1]]
			if !ok {
				return "bad-op"
			}
			src = `(` + a + ` ` + op + ` ` + b + `) ? "b:1" : "b:0"`
		}
	}
	v, err := vm.Run(src)
	if err != nil {
		return "throw:" + h.Sanitize(err.Error())
	}
	if v.IsNumber() {
		return h.ValTok(v)
	}
	return v.String()
}

// ---------------------------------------------------------------- generation

type skText struct {
	us    []uint16
	prods []string
}

func skTexts() []skText {
	pool := [][]uint16{{}, {0x61}, {0x62}, {0x61, 0x62}, {0x31}, {0x31, 0x30}, {0x20, 0x31}, {0xe9}, {0xffff}, {0xe000}, {0xfffd},
		{0xd800, 0xdc00}, {0xd835, 0xdcb3}, {0x61, 0xd800, 0xdc00}, {0xdbff, 0xdfff},
		{0xd800}, {0xdc00}, {0xd801}, {0xd800, 0x61}, {0xdc00, 0xd800}}
	var out []skText
	for _, us := range pool {
		t := skText{us: us}
		hx := unitsTok16(us)
		t.prods = append(t.prods, "fcc:"+hx, "cat:"+hx)
		if wellPaired(us) {
			t.prods = append(t.prods, "lit:"+hx, "sl:"+hx, "Olit:"+hx)
			if len(us) == 1 {
				t.prods = append(t.prods, "chr:"+hx)
			}
		}
		t.prods = append(t.prods, "Ofcc:"+hx)
		out = append(out, t)
	}
	// the two halves of a literal pair: unpaired surrogates made by slicing
	out = append(out, skText{us: []uint16{0xd800}, prods: []string{"cuth:d800dc00"}}, skText{us: []uint16{0xdc00}, prods: []string{"cutl:d800dc00"}})
	return out
}

var skOps = []string{"lt", "gt", "le", "ge", "eq", "ne", "seq", "sne", "add", "key", "sw"}
var skuOps = []string{"typeof", "not", "pos", "neg", "and", "or", "cond"}

func genSk(c *h.Ctx) {
	ts := skTexts()
	r := c.Rng
	var all []string
	for _, t := range ts {
		all = append(all, t.prods...)
		for _, p := range t.prods {
			for _, op := range skuOps {
				c.Add("sku "+op+" "+p, "sku:"+op)
			}
		}
		// the same text in every pair of representations
		for _, p := range t.prods {
			for _, q := range t.prods {
				for _, op := range skOps {
					c.Add("sk "+op+" "+p+" "+q, "sk:"+op)
				}
			}
		}
	}
	if c.Thorough() {
		for _, p := range all {
			for _, q := range all {
				for _, op := range skOps {
					c.Add("sk "+op+" "+p+" "+q, "sk:"+op)
				}
			}
		}
		return
	}
	for i := 0; i < 6000; i++ {
		op := skOps[r.Intn(len(skOps))]
		c.Add("sk "+op+" "+all[r.Intn(len(all))]+" "+all[r.Intn(len(all))], "sk:"+op)
	}
}
