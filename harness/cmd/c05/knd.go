package main

import (
	"encoding/hex"
	"fmt"
	"strconv"
	"strings"

	"github.com/robertkrimen/otto"
	"ottoverif/h"
)

// knd / knda: binary operators and compound assignment on operands of every INTERNAL number kind.
// A number Value keeps the Go type it was made with (int32 out of | & ^ << >> ~, uint32 out of >>>, int for
// String lengths and indexOf, uint16 for charCodeAt, int64 for integer literals, float64 otherwise, and
// whatever Go type the embedder set), and that type is observable: Value.string() formats integers with
// FormatInt and floats with the float formatter, an integer zero has no sign, Export() hands the Go value
// out.  Each operand is written as an expression that makes the evaluator itself produce the kind.
//
// Producer tokens (shared with lean/OttoVerif/C05/Driver.lean `prod?`):
//   or:n not:n ushr:n len:n idx:n cc:n lit:n neg:n g<value token>

type producer struct {
	tok  string
	kind string // the Go type Export() must report for the operand
}

func kindProducers() map[string][]producer {
	mk := func(kind string, toks ...string) []producer {
		out := make([]producer, len(toks))
		for i, t := range toks {
			out[i] = producer{t, kind}
		}
		return out
	}
	return map[string][]producer{
		"or":    mk("int32", "or:0", "or:1", "or:-1", "or:-5", "or:2147483647", "or:-2147483648", "or:94906267", "or:65536", "or:46341"),
		"not":   mk("int32", "not:-1", "not:4", "not:0", "not:2147483647"),
		"ushr":  mk("uint32", "ushr:0", "ushr:1", "ushr:4294967295", "ushr:2147483648", "ushr:94906267"),
		"len":   mk("int", "len:0", "len:1", "len:3", "len:30"),
		"idx":   mk("int", "idx:-1", "idx:0", "idx:2"),
		"cc":    mk("uint16", "cc:0", "cc:97", "cc:65535"),
		"lit":   mk("int64", "lit:0", "lit:1", "lit:5", "lit:94906267", "lit:4294967296", "lit:9007199254740991"),
		"neg":   mk("float64", "neg:0", "neg:1", "neg:5", "neg:2147483648"),
		"gi8":   mk("int8", "gi8:-3", "gi8:0", "gi8:127"),
		"gu8":   mk("uint8", "gu8:0", "gu8:200"),
		"gi16":  mk("int16", "gi16:-32768", "gi16:0"),
		"gu16":  mk("uint16", "gu16:65535"),
		"gi32":  mk("int32", "gi32:0", "gi32:-5", "gi32:2147483647", "gi32:-2147483648"),
		"gu32":  mk("uint32", "gu32:0", "gu32:4294967295"),
		"gi64":  mk("int64", "gi64:0", "gi64:-1", "gi64:9007199254740993", "gi64:-9223372036854775808"),
		"gint":  mk("int", "gint:0", "gint:-7", "gint:4294967296"),
		"guint": mk("uint", "guint:0", "guint:18446744073709551615"),
		"gu64":  mk("uint64", "gu64:3", "gu64:18446744073709551615"),
		"gf": mk("float64", "gf:8000000000000000", "gf:0000000000000000", "gf:3fe0000000000000", "gf:"+h.NaNHex, "gf:7ff0000000000000",
			"gf:fff0000000000000", "gf:4330000000000001", "gf:444b1ae4d6e2ef50", "gf:c000000000000000", "gf:3ff8000000000000"),
	}
}

var kindOrder = []string{"or", "not", "ushr", "len", "idx", "cc", "lit", "neg", "gi8", "gu8", "gi16", "gu16", "gi32", "gu32", "gi64", "gint", "guint", "gu64", "gf"}

func genKnd(c *h.Ctx) {
	ps := kindProducers()
	r := c.Rng
	ops := append(append([]string{}, c05Bin...), c05Cmp...)
	pick := func(k string) string { l := ps[k]; return l[r.Intn(len(l))].tok }
	// the sign of a zero product/quotient/remainder/sum and products beyond 2^53, for every pair of integer kinds
	zeros := map[string]string{"or": "or:0", "not": "not:-1", "ushr": "ushr:0", "len": "len:0", "idx": "idx:0", "cc": "cc:0", "lit": "lit:0",
		"gi8": "gi8:0", "gu8": "gu8:0", "gi16": "gi16:0", "gi32": "gi32:0", "gu32": "gu32:0", "gi64": "gi64:0", "gint": "gint:0", "guint": "guint:0"}
	negs := []string{"or:-5", "not:4", "neg:5", "gi8:-3", "gi32:-5", "gi64:-1", "gint:-7", "idx:-1", "gi16:-32768", "gf:c000000000000000", "neg:0", "gf:8000000000000000"}
	for _, k := range kindOrder {
		z, ok := zeros[k]
		if !ok {
			continue
		}
		for _, n := range negs {
			for _, op := range []string{"mul", "div", "rem", "add", "sub"} {
				c.Add("knd "+op+" "+z+" "+n, "knd:"+op)
				c.Add("knd "+op+" "+n+" "+z, "knd:"+op)
				c.Add("knda "+op+" "+z+" "+n, "knda:"+op)
				c.Add("knda "+op+" "+n+" "+z, "knda:"+op)
			}
		}
	}
	big := []string{"or:2147483647", "or:-2147483648", "or:94906267", "or:46341", "not:2147483647", "ushr:4294967295", "ushr:94906267", "lit:94906267",
		"lit:4294967296", "lit:9007199254740991", "gi32:2147483647", "gi32:-2147483648", "gu32:4294967295", "gi64:9007199254740993", "gint:4294967296",
		"gu64:18446744073709551615", "gi64:-9223372036854775808"}
	for _, a := range big {
		for _, b := range big {
			for _, op := range []string{"mul", "add", "sub"} {
				c.Add("knd "+op+" "+a+" "+b, "knd:"+op)
			}
			c.Add("knda mul "+a+" "+b, "knda:mul")
		}
	}
	// every operator x every ordered pair of kinds
	reps := c.N(1, 12)
	for _, op := range ops {
		for _, ka := range kindOrder {
			for _, kb := range kindOrder {
				for i := 0; i < reps; i++ {
					c.Add("knd "+op+" "+pick(ka)+" "+pick(kb), "knd:"+op)
				}
			}
		}
	}
	for _, op := range c05Bin {
		for _, ka := range kindOrder {
			for _, kb := range kindOrder {
				for i := 0; i < reps; i++ {
					c.Add("knda "+op+" "+pick(ka)+" "+pick(kb), "knda:"+op)
				}
			}
		}
	}
	if c.Thorough() {
		for _, op := range ops {
			for _, ka := range kindOrder {
				for _, a := range ps[ka] {
					for _, kb := range kindOrder {
						for _, b := range ps[kb] {
							c.Add("knd "+op+" "+a.tok+" "+b.tok, "knd:"+op)
						}
					}
				}
			}
		}
	}
}

// producerJS renders the operand expression; Go values are set into the runtime under `name`.
func producerJS(vm *otto.Otto, tok, name string) (src string, kind string) {
	i := strings.IndexByte(tok, ':')
	k, arg := tok[:i], tok[i+1:]
	lit := func(n string) string {
		if strings.HasPrefix(n, "-") {
			return "(" + n + ")"
		}
		return n
	}
	switch k {
	case "or":
		return "(" + lit(arg) + "|0)", "int32"
	case "not":
		return "(~" + lit(arg) + ")", "int32"
	case "ushr":
		return "(" + arg + ">>>0)", "uint32"
	case "len":
		n, _ := strconv.Atoi(arg)
		return strconv.Quote(strings.Repeat("a", n)) + ".length", "int"
	case "idx":
		n, _ := strconv.Atoi(arg)
		ch := "z"
		if n >= 0 {
			ch = "abcdefghij"[n : n+1]
		}
		return `"abcdefghij".indexOf("` + ch + `")`, "int"
	case "cc":
		return "String.fromCharCode(" + arg + ").charCodeAt(0)", "uint16"
	case "lit":
		return arg, "int64"
	case "neg":
		return "-" + arg, "float64"
	}
	if strings.HasPrefix(tok, "g") {
		vtok := tok[1:]
		vm.Set(name, h.ParseVal(vtok))
		kinds := map[string]string{"i8": "int8", "i16": "int16", "i32": "int32", "i64": "int64", "int": "int", "u8": "uint8", "u16": "uint16",
			"u32": "uint32", "u64": "uint64", "uint": "uint", "f": "float64"}
		return name, kinds[vtok[:strings.IndexByte(vtok, ':')]]
	}
	panic("bad producer " + tok)
}

func implKnd(f []string) string {
	vm := otto.New()
	op := bopJS[f[1]]
	a, ka := producerJS(vm, f[2], "__ga")
	b, kb := producerJS(vm, f[3], "__gb")
	// the operands really are of the kinds the model is told
	for _, chk := range [][2]string{{a, ka}, {b, kb}} {
		v, err := vm.Run(chk[0])
		if err != nil {
			return "operand-error:" + h.Sanitize(err.Error())
		}
		e, _ := v.Export()
		if t := fmt.Sprintf("%T", e); t != chk[1] {
			return "operand-kind:" + chk[0] + "=" + t + "(expected_" + chk[1] + ")"
		}
	}
	var src string
	if f[0] == "knda" {
		src = "var __t = " + a + "; var __r = (__t " + op + "= " + b + "); var __stored = (__t === __r ? (__r !== 0 || 1 / __t === 1 / __r) : (__t !== __t && __r !== __r));"
	} else {
		src = "var __r = (" + a + " " + op + " " + b + "); var __stored = true;"
	}
	src += ` var __ty = typeof __r, __s = String(__r), __z = (__r === 0 ? (1 / __r > 0 ? "z+" : "z-") : "nz");`
	if _, err := vm.Run(src); err != nil {
		return "throw:" + h.Sanitize(err.Error())
	}
	get := func(n string) otto.Value { v, _ := vm.Get(n); return v }
	if ok, _ := get("__stored").ToBoolean(); !ok {
		return "stored-mismatch"
	}
	rv := get("__r")
	e, _ := rv.Export()
	return h.ValTok(rv) + ";" + get("__ty").String() + ";" + hex.EncodeToString([]byte(get("__s").String())) + ";" + get("__z").String() + ";" + fmt.Sprintf("%T", e)
}
