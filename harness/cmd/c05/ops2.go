package main

import (
	"encoding/hex"
	"fmt"
	"strconv"
	"strings"

	"github.com/robertkrimen/otto"
	"ottoverif/h"
)

// Ops2: unary + - ~ ! typeof void, instanceof, in, && || ?:, bitwise/shift on objects, and the order of
// operand evaluation, all through otto.Run on generated source.  Request grammar: see
// lean/OttoVerif/C05/Driver.lean ("Ops2").  An object operand is described by
//   O(id;kind;valueOf;toString;fk;chain;layers)
// and BUILT here from that description (kind says how): the description is what ES5 says the built
// object is (its function-ness, its prototype chain, its own property names).

// well-known objects
const (
	idObjectProto   = 100
	idFunctionProto = 101
	idDateProto     = 102
	idArrayProto    = 103
	idStringProto   = 104
	idRegExpProto   = 105
	idErrorProto    = 106
)

const ops2Prelude = `
var __log = [];
function log(t) { __log.push(t); }
var __R = {100: Object.prototype, 101: Function.prototype, 102: Date.prototype, 103: Array.prototype,
           104: String.prototype, 105: RegExp.prototype, 106: Error.prototype};
function __beh(id, k, val, tag) {
  if (k === "n") return 5;
  return function () { __log.push(id + tag); if (k === "p") return val; if (k === "o") return {}; throw val; };
}
function __id(o) { for (var k in __R) { if (__R[k] === o) return "o" + k; } return "o?"; }
var __setv;
function __same(a, b) { return a === b ? (a !== 0 || 1 / a === 1 / b) : (a !== a && b !== b); }
`

// ES5 own property names of the built-in prototype objects that can sit on the chain of an `in` operand
var es5Layer = map[int][]string{
	idObjectProto:   {"constructor", "toString", "toLocaleString", "valueOf", "hasOwnProperty", "isPrototypeOf", "propertyIsEnumerable"},
	idFunctionProto: {"length", "constructor", "toString", "apply", "call", "bind"},
	idArrayProto: {"length", "constructor", "toString", "toLocaleString", "concat", "join", "pop", "push", "reverse", "shift", "slice", "sort",
		"splice", "unshift", "indexOf", "lastIndexOf", "every", "some", "forEach", "map", "filter", "reduce", "reduceRight"},
	idStringProto: {"length", "constructor", "toString", "valueOf", "charAt", "charCodeAt", "concat", "indexOf", "lastIndexOf", "localeCompare",
		"match", "replace", "search", "slice", "split", "substring", "toLowerCase", "toLocaleLowerCase", "toUpperCase", "toLocaleUpperCase",
		"trim", "substr"},
}

// built-in functions that are not constructors: no `prototype` property (ES5 15, introduction)
var natives = []string{"Math.sin", "Math.cos", "parseInt", "parseFloat", "isNaN", "isFinite", "Math.abs", "Math.floor", "Math.ceil", "Math.sqrt",
	"Math.atan", "Math.exp", "Math.log", "Math.tan", "Math.round", "Math.asin", "Math.acos", "escape", "unescape", "encodeURI", "decodeURI",
	"Math.max", "Math.min", "Math.pow"}

type ob struct {
	id     int
	kind   string // p plain, d Date, f function, b bound function, n built-in non-constructor function, a array, s String object,
	// O builtin Object, U builtin Function, r RegExp, e Error, g arguments object
	v, s   string // behaviour tokens: p<val> | o | n | t<val>
	fk     string // - | F<id> | Fp | B<fk>
	chain  []int
	layers [][]string // nil: not given ("-")
}

func keyTok(k string) string {
	if k == "" {
		return "_"
	}
	return hex.EncodeToString([]byte(k))
}

func (o *ob) tok() string {
	ch := "-"
	if len(o.chain) > 0 {
		p := make([]string, len(o.chain))
		for i, c := range o.chain {
			p[i] = strconv.Itoa(c)
		}
		ch = strings.Join(p, ".")
	}
	ly := "-"
	if o.layers != nil {
		ls := make([]string, len(o.layers))
		for i, l := range o.layers {
			if len(l) == 0 {
				ls[i] = "e"
				continue
			}
			ks := make([]string, len(l))
			for j, k := range l {
				ks[j] = keyTok(k)
			}
			ls[i] = strings.Join(ks, ".")
		}
		ly = strings.Join(ls, "/")
	}
	return fmt.Sprintf("O(%d;%s;%s;%s;%s;%s;%s)", o.id, o.kind, o.v, o.s, o.fk, ch, ly)
}

func parseOb(t string) *ob {
	f := strings.Split(t[2:len(t)-1], ";")
	o := &ob{kind: f[1], v: f[2], s: f[3], fk: f[4]}
	o.id, _ = strconv.Atoi(f[0])
	if f[5] != "-" {
		for _, c := range strings.Split(f[5], ".") {
			n, _ := strconv.Atoi(c)
			o.chain = append(o.chain, n)
		}
	}
	if f[6] != "-" {
		o.layers = [][]string{}
		for _, l := range strings.Split(f[6], "/") {
			ks := []string{}
			if l != "e" {
				for _, k := range strings.Split(l, ".") {
					if k == "_" {
						ks = append(ks, "")
					} else {
						b, _ := hex.DecodeString(k)
						ks = append(ks, string(b))
					}
				}
			}
			o.layers = append(o.layers, ks)
		}
	}
	return o
}

// ---------------------------------------------------------------- building the objects and the source

type exBuild struct {
	w     []string
	pos   int
	depth int
	seen  []int  // ids of the object leaves in parse order (with repetitions)
	check string // JS expression for the value a compound assignment at the root must have stored ("" = none)
	vm    *otto.Otto
	objs  map[int]*ob
	order []*ob
	leaf  int
	late  strings.Builder // leaf variables and getter holders, after the objects exist
}

func (p *exBuild) next() string {
	s := p.w[p.pos]
	p.pos++
	return s
}

func (p *exBuild) leafVar(tok string) string {
	p.leaf++
	name := fmt.Sprintf("x%d", p.leaf)
	if strings.HasPrefix(tok, "O(") {
		o := parseOb(tok)
		p.seen = append(p.seen, o.id)
		if _, ok := p.objs[o.id]; !ok {
			p.objs[o.id] = o
			p.order = append(p.order, o)
		}
		fmt.Fprintf(&p.late, "var %s = __R[%d];\n", name, o.id)
	} else {
		p.vm.Set(name, h.ParseVal(tok))
	}
	return name
}

var uopJS = map[string]string{"pos": "+", "neg": "-", "bnot": "~", "not": "!", "typeof": "typeof ", "void": "void "}
var bopJS = map[string]string{
	"add": "+", "sub": "-", "mul": "*", "div": "/", "rem": "%", "band": "&", "bor": "|", "bxor": "^", "shl": "<<", "shr": ">>", "ushr": ">>>",
	"lt": "<", "gt": ">", "le": "<=", "ge": ">=", "eq": "==", "ne": "!=", "seq": "===", "sne": "!==", "inst": " instanceof ", "in": " in ",
}

func (p *exBuild) expr() string {
	p.depth++
	defer func() { p.depth-- }()
	switch k := p.next(); k {
	case "A": // leaf op= expr
		op := bopJS[p.next()]
		kind := p.w[p.pos]
		l := p.expr()
		if p.depth == 1 && kind == "v" {
			p.check = l
		}
		return "(" + l + " " + op + "= " + p.expr() + ")"
	case "M": // b[k] op= expr; every object leaf of b gets the described property "p"
		op := bopJS[p.next()]
		n0 := len(p.seen)
		b := p.expr()
		holders := append([]int{}, p.seen[n0:]...)
		k := p.expr()
		switch p.next() {
		case "d":
			x := p.leafVar(p.next())
			for _, id := range holders {
				fmt.Fprintf(&p.late, "__R[%d].p = %s;\n", id, x)
			}
			if p.depth == 1 && len(holders) > 0 {
				p.check = fmt.Sprintf("__R[%d].p", holders[len(holders)-1])
			}
		case "a":
			gt, st := p.next(), p.next()
			x := p.leafVar(p.next())
			for _, id := range holders {
				fmt.Fprintf(&p.late, "Object.defineProperty(__R[%d], \"p\", {get: function () { __log.push(%q); return %s; }, set: function (v) { __log.push(%q); __setv = v; }, configurable: true});\n", id, gt, x, st)
			}
			if p.depth == 1 {
				p.check = "__setv"
			}
		default:
			panic("bad property description")
		}
		return "(" + b + "[" + k + "] " + op + "= " + p.expr() + ")"

	case "v":
		return p.leafVar(p.next())
	case "U":
		return "undeclared_zz"
	case "Up":
		return "(undeclared_zz)"
	case "g":
		tag := p.next()
		x := p.leafVar(p.next())
		g := "g" + x[1:]
		fmt.Fprintf(&p.late, "var %s = {get p() { __log.push(%q); return %s; }};\n", g, tag, x)
		return g + ".p"
	case "q":
		tag := p.next()
		return fmt.Sprintf("(log(%q), %s)", tag, p.expr())
	case "u":
		op := uopJS[p.next()]
		return "(" + op + p.expr() + ")"
	case "b":
		op := bopJS[p.next()]
		a := p.expr()
		b := p.expr()
		return "(" + a + " " + op + " " + b + ")"
	case "a", "o":
		a := p.expr()
		b := p.expr()
		if k == "a" {
			return "(" + a + " && " + b + ")"
		}
		return "(" + a + " || " + b + ")"
	case "c":
		c := p.expr()
		a := p.expr()
		b := p.expr()
		return "(" + c + " ? " + a + " : " + b + ")"
	default:
		panic("bad expression word " + k)
	}
}

func wellKnown(id int) bool { return id >= 100 && id <= 106 }

func isIndexKey(k string) bool {
	if k == "" || (len(k) > 1 && k[0] == '0') {
		return false
	}
	for _, c := range k {
		if c < '0' || c > '9' {
			return false
		}
	}
	return true
}

// setupJS emits the statements that build every described object.
func (p *exBuild) setupJS() string {
	var sb strings.Builder
	behArg := func(o *ob, b, slot string) (string, string) {
		k := b[:1]
		if k == "p" || k == "t" {
			name := fmt.Sprintf("__bv%d%s", o.id, slot)
			p.vm.Set(name, h.ParseVal(b[1:]))
			return k, name
		}
		return k, "undefined"
	}
	defineKeys := func(target string, keys []string, skipConv bool) {
		for _, k := range keys {
			if skipConv && (k == "valueOf" || k == "toString") {
				continue
			}
			fmt.Fprintf(&sb, "%s[%q] = 1;\n", target, k)
		}
	}
	for _, o := range p.order {
		// anonymous ancestors, farthest first
		for i := len(o.chain) - 1; i >= 0; i-- {
			id := o.chain[i]
			if wellKnown(id) {
				continue
			}
			parent := "null"
			if i+1 < len(o.chain) {
				parent = fmt.Sprintf("__R[%d]", o.chain[i+1])
			}
			fmt.Fprintf(&sb, "if (!__R[%d]) { __R[%d] = Object.create(%s);\n", id, id, parent)
			if o.layers != nil && i+1 < len(o.layers) {
				defineKeys(fmt.Sprintf("__R[%d]", id), o.layers[i+1], false)
			}
			sb.WriteString("}\n")
		}
		x := fmt.Sprintf("__o%d", o.id)
		var own []string
		if o.layers != nil && len(o.layers) > 0 {
			own = o.layers[0]
		}
		switch o.kind {
		case "p":
			parent := "null"
			if len(o.chain) > 0 {
				parent = fmt.Sprintf("__R[%d]", o.chain[0])
			}
			// an object that is its own F.prototype target or ancestor may exist already
			fmt.Fprintf(&sb, "var %s = Object.create(%s);\n", x, parent)
			defineKeys(x, own, true)
		case "d":
			fmt.Fprintf(&sb, "var %s = new Date(0);\n", x)
		case "f":
			fmt.Fprintf(&sb, "var %s = function () {};\n", x)
		case "b":
			fmt.Fprintf(&sb, "var __t%d = function () {};\nvar %s = __t%d", o.id, x, o.id)
			for fk := o.fk; strings.HasPrefix(fk, "B"); fk = fk[1:] {
				sb.WriteString(".bind(null)")
			}
			sb.WriteString(";\n")
		case "n":
			fmt.Fprintf(&sb, "var %s = %s;\n", x, natives[o.id%len(natives)])
		case "a":
			fmt.Fprintf(&sb, "var %s = [];\n", x)
			if o.layers == nil {
				fmt.Fprintf(&sb, "%s[0] = 1; %s[1] = 2;\n", x, x)
			}
			for _, k := range own {
				if isIndexKey(k) {
					fmt.Fprintf(&sb, "%s[%s] = 1;\n", x, k)
				}
			}
		case "s":
			n := 2
			if o.layers != nil {
				n = 0
				for _, k := range own {
					if isIndexKey(k) {
						n++
					}
				}
			}
			fmt.Fprintf(&sb, "var %s = new String(%q);\n", x, "abcdefghij"[:n])
		case "O":
			fmt.Fprintf(&sb, "var %s = Object;\n", x)
		case "U":
			fmt.Fprintf(&sb, "var %s = Function;\n", x)
		case "r":
			fmt.Fprintf(&sb, "var %s = /x/;\n", x)
		case "e":
			fmt.Fprintf(&sb, "var %s = new Error(\"m\");\n", x)
		case "g":
			fmt.Fprintf(&sb, "var %s = (function () { return arguments; })(1, 2);\n", x)
		default:
			panic("bad object kind " + o.kind)
		}
		vk, vv := behArg(o, o.v, "v")
		sk, sv := behArg(o, o.s, "s")
		fmt.Fprintf(&sb, "%s.valueOf = __beh(%d, %q, %s, \"v\"); %s.toString = __beh(%d, %q, %s, \"s\");\n", x, o.id, vk, vv, x, o.id, sk, sv)
		fmt.Fprintf(&sb, "__R[%d] = %s;\n", o.id, x)
	}
	// second pass: the `prototype` of functions (may refer to any described object, to an ancestor, or to a new one)
	for _, o := range p.order {
		fk := strings.TrimLeft(o.fk, "B")
		target := fmt.Sprintf("__o%d", o.id)
		if o.kind == "b" {
			target = fmt.Sprintf("__t%d", o.id)
		}
		if o.kind != "f" && o.kind != "b" {
			continue
		}
		switch {
		case fk == "Fp":
			fmt.Fprintf(&sb, "%s.prototype = 5;\n", target)
		case strings.HasPrefix(fk, "F"):
			id := fk[1:]
			fmt.Fprintf(&sb, "if (!__R[%s]) { __R[%s] = {}; }\n%s.prototype = __R[%s];\n", id, id, target, id)
		}
	}
	sb.WriteString(p.late.String())
	return sb.String()
}

func implEx(f []string) string {
	vm := otto.New()
	if _, err := vm.Run(ops2Prelude); err != nil {
		return "prelude-error"
	}
	p := &exBuild{w: f[1:], vm: vm, objs: map[int]*ob{}}
	src := p.expr()
	if p.pos != len(p.w) {
		return "bad-op"
	}
	if _, err := vm.Run(p.setupJS()); err != nil {
		return "setup-error:" + h.Sanitize(err.Error())
	}
	if _, err := vm.Run(`__log = []; var __r, __t, __threw = false; try { __r = ` + src + ` } catch (e) { __threw = true; __t = e }`); err != nil {
		return "run-error:" + h.Sanitize(err.Error())
	}
	res := ops2Result(vm)
	if p.check != "" && !strings.HasPrefix(res, "throw:") {
		// PutValue: the variable / data property / setter received the value of the expression
		ok, err := vm.Run("__same(" + p.check + ", __r)")
		if b, _ := ok.ToBoolean(); err != nil || !b {
			return "stored-mismatch:" + res
		}
	}
	return res
}

func ops2Result(vm *otto.Otto) string {
	lg, _ := vm.Run(`__log.join(",")`)
	l := lg.String()
	if l == "" {
		l = "-"
	}
	threw, _ := vm.Get("__threw")
	if b, _ := threw.ToBoolean(); b {
		t, _ := vm.Get("__t")
		if t.IsObject() {
			n, _ := t.Object().Get("name")
			return "throw:" + n.String() + "|" + l
		}
		return "throw:" + h.ValTok(t) + "|" + l
	}
	rv, _ := vm.Get("__r")
	if rv.IsObject() {
		id, _ := vm.Run(`__id(__r)`)
		return id.String() + "|" + l
	}
	return h.ValTok(rv) + "|" + l
}

// instr <name> <len> <stored keys>: `name in new String(<len chars>)` with extra stored own properties
func implInstr(f []string) string {
	vm := otto.New()
	vm.Set("k", h.ParseVal(f[1]))
	n, _ := strconv.Atoi(f[2])
	var sb strings.Builder
	fmt.Fprintf(&sb, "var s = new String(%q);\n", strings.Repeat("abcdefghij", n/10+1)[:n])
	if f[3] != "e" {
		for _, k := range strings.Split(f[3], ".") {
			name := ""
			if k != "_" {
				b, _ := hex.DecodeString(k)
				name = string(b)
			}
			if name != "length" {
				fmt.Fprintf(&sb, "s[%q] = 1;\n", name)
			}
		}
	}
	sb.WriteString("k in s")
	v, err := vm.Run(sb.String())
	if err != nil {
		return "error:" + h.Sanitize(err.Error())
	}
	b, _ := v.ToBoolean()
	return h.BoolTok(b)
}

// ---------------------------------------------------------------- generation

type gen2 struct {
	c     *h.Ctx
	r     *h.Rng
	prims []string
	nid   int
	made  []string // object tokens of the current request (for "the same object twice")
}

func (g *gen2) reset() { g.nid = 0; g.made = g.made[:0] }

func (g *gen2) beh() string {
	switch g.r.Intn(8) {
	case 0:
		return "o"
	case 1:
		return "n"
	case 2:
		return "t" + g.prims[g.r.Intn(len(g.prims))]
	default:
		return "p" + g.prims[g.r.Intn(len(g.prims))]
	}
}

func (g *gen2) freshID() int {
	g.nid++
	return g.nid
}

// any kind of object with scripted conversions (no layers)
func (g *gen2) anyObject() *ob {
	o := &ob{id: g.freshID(), v: g.beh(), s: g.beh(), fk: "-"}
	switch g.r.Intn(14) {
	case 0, 1, 2, 3, 4:
		o.kind, o.chain = "p", []int{idObjectProto}
		if g.r.Chance(15) {
			o.chain = nil
		}
	case 5, 6:
		o.kind, o.chain = "d", []int{idDateProto, idObjectProto}
	case 7:
		o.kind, o.chain, o.fk = "f", []int{idFunctionProto, idObjectProto}, fmt.Sprintf("F%d", 50+g.r.Intn(5))
	case 8:
		o.kind, o.chain, o.fk = "b", []int{idFunctionProto, idObjectProto}, strings.Repeat("B", 1+g.r.Intn(2))+"Fp"
	case 9:
		o.kind, o.chain, o.fk = "n", []int{idFunctionProto, idObjectProto}, "Fp"
	case 10:
		o.kind, o.chain = "a", []int{idArrayProto, idObjectProto}
	case 11:
		o.kind, o.chain = "r", []int{idRegExpProto, idObjectProto}
	case 12:
		o.kind, o.chain = "e", []int{idErrorProto, idObjectProto}
	default:
		o.kind, o.chain = "g", []int{idObjectProto}
	}
	return o
}

func (g *gen2) prim() string { return g.prims[g.r.Intn(len(g.prims))] }

func (g *gen2) anyVal() string {
	if g.r.Chance(35) {
		return g.prim()
	}
	if len(g.made) > 0 && g.r.Chance(12) {
		return g.made[g.r.Intn(len(g.made))]
	}
	t := g.anyObject().tok()
	g.made = append(g.made, t)
	return t
}

// a leaf: plain variable, getter property, or (rarely) an undeclared identifier
func (g *gen2) leaf(v string, refs bool) string {
	if refs {
		switch g.r.Intn(10) {
		case 0:
			return "U"
		case 1, 2:
			return fmt.Sprintf("g G%d %s", g.r.Intn(3), v)
		}
	}
	return "v " + v
}

var numOps2 = []string{"add", "sub", "mul", "div", "rem", "band", "bor", "bxor", "shl", "shr", "ushr"}
var cmpOps2 = []string{"lt", "gt", "le", "ge", "eq", "ne", "seq", "sne"}
var unOps2 = []string{"pos", "neg", "bnot", "not", "typeof", "void"}

// ---- instanceof scenarios

// leftOperands: V candidates with their chains; ancestors 11..14 are anonymous objects
func (g *gen2) instV() []*ob {
	var out []*ob
	anc := []int{11, 12, 13, 14}
	for n := 0; n <= 4; n++ {
		for _, root := range []bool{true, false} {
			ch := append([]int{}, anc[:n]...)
			if root {
				ch = append(ch, idObjectProto)
			}
			out = append(out, &ob{id: 1, kind: "p", fk: "-", chain: ch})
		}
	}
	out = append(out,
		&ob{id: 1, kind: "f", fk: "F50", chain: []int{idFunctionProto, idObjectProto}},
		&ob{id: 1, kind: "f", fk: "F1", chain: []int{idFunctionProto, idObjectProto}}, // f.prototype = f
		&ob{id: 1, kind: "b", fk: "BF50", chain: []int{idFunctionProto, idObjectProto}},
		&ob{id: 1, kind: "n", fk: "Fp", chain: []int{idFunctionProto, idObjectProto}},
		&ob{id: 1, kind: "d", fk: "-", chain: []int{idDateProto, idObjectProto}},
		&ob{id: 1, kind: "a", fk: "-", chain: []int{idArrayProto, idObjectProto}},
		&ob{id: 1, kind: "s", fk: "-", chain: []int{idStringProto, idObjectProto}},
		&ob{id: 1, kind: "e", fk: "-", chain: []int{idErrorProto, idObjectProto}},
	)
	return out
}

func (g *gen2) instF() []*ob {
	var out []*ob
	fch := []int{idFunctionProto, idObjectProto}
	protos := []string{"F1", "F11", "F12", "F13", "F14", "F60", "Fp", "F100", "F101", "F102", "F103", "F104", "F106"}
	for _, p := range protos {
		out = append(out, &ob{id: 2, kind: "f", fk: p, chain: fch})
		out = append(out, &ob{id: 2, kind: "b", fk: "B" + p, chain: fch})
		out = append(out, &ob{id: 2, kind: "b", fk: "BB" + p, chain: fch})
	}
	out = append(out,
		&ob{id: 2, kind: "b", fk: "BBBF1", chain: fch},
		&ob{id: 2, kind: "f", fk: "F2", chain: fch}, // F.prototype = F
		&ob{id: 2, kind: "n", fk: "Fp", chain: fch},
		&ob{id: 2, kind: "O", fk: "F100", chain: fch},
		&ob{id: 2, kind: "U", fk: "F101", chain: fch},
		&ob{id: 2, kind: "p", fk: "-", chain: []int{idObjectProto}},
		&ob{id: 2, kind: "p", fk: "-", chain: nil},
		&ob{id: 2, kind: "d", fk: "-", chain: []int{idDateProto, idObjectProto}},
		&ob{id: 2, kind: "a", fk: "-", chain: []int{idArrayProto, idObjectProto}},
		&ob{id: 2, kind: "r", fk: "-", chain: []int{idRegExpProto, idObjectProto}},
		&ob{id: 2, kind: "g", fk: "-", chain: []int{idObjectProto}},
	)
	return out
}

func (g *gen2) genInst() {
	vs, fs := g.instV(), g.instF()
	wrap := func(tag, v string) string {
		if g.r.Chance(40) {
			return "q " + tag + " v " + v
		}
		return "v " + v
	}
	for _, v := range vs {
		for _, f := range fs {
			v.v, v.s, f.v, f.s = g.beh(), g.beh(), g.beh(), g.beh()
			g.c.Add("ex b inst "+wrap("L", v.tok())+" "+wrap("R", f.tok()), "ex:inst")
		}
		// right operand not an object
		for _, p := range []string{"u", "n", "b:1", "f:" + h.F64Hex(1), h.BytesTok("Object"), h.BytesTok("")} {
			v.v, v.s = g.beh(), g.beh()
			g.c.Add("ex b inst "+wrap("L", v.tok())+" "+wrap("R", p), "ex:inst")
		}
		// V instanceof V (same object on both sides)
		g.c.Add("ex b inst v "+v.tok()+" v "+v.tok(), "ex:inst")
	}
	// left operand a primitive: false without looking at `prototype`, TypeError only for a non-callable right side
	for _, f := range fs {
		for _, p := range []string{"u", "n", "b:0", "f:" + h.F64Hex(0), "i8:5", h.BytesTok("a")} {
			f.v, f.s = g.beh(), g.beh()
			g.c.Add("ex b inst "+wrap("L", p)+" "+wrap("R", f.tok()), "ex:inst")
		}
	}
}

// ---- `in` scenarios

var inPool = []string{"a", "b", "x", "0", "1", "2", "3", "10", "length", "prototype", "valueOf", "toString", "hasOwnProperty", "constructor", "call", "join",
	"charAt", "undefined", "null", "NaN", "true", "false", "Infinity", "-Infinity", "-1", ""}

func (g *gen2) inKeyPrims() []string {
	out := []string{"u", "n", "b:0", "b:1", "f:" + h.NaNHex, "f:7ff0000000000000", "f:fff0000000000000", "f:8000000000000000", "i8:1", "u32:2", "i64:3", "int:0", "u8:10"}
	for _, i := range []float64{-1, 0, 1, 2, 3, 10} {
		out = append(out, "f:"+h.F64Hex(i))
	}
	for _, s := range inPool {
		out = append(out, h.BytesTok(s))
	}
	return out
}

func (g *gen2) subset(pool []string, pct int) []string {
	var out []string
	for _, k := range pool {
		if g.r.Chance(pct) {
			out = append(out, k)
		}
	}
	return out
}

func withLayers(o *ob, own []string, anc map[int][]string) *ob {
	o.layers = [][]string{own}
	for _, id := range o.chain {
		if l, ok := es5Layer[id]; ok {
			o.layers = append(o.layers, l)
		} else {
			o.layers = append(o.layers, anc[id])
		}
	}
	return o
}

// a right operand for `in` with its full property view
func (g *gen2) inRight() *ob {
	userKeys := []string{"a", "b", "x", "0", "1", "2", "3", "10", "undefined", "null", "NaN", "true", "false", "Infinity", "-Infinity", "-1", "", "length", "call"}
	conv := []string{"valueOf", "toString"}
	id := g.freshID()
	switch g.r.Intn(10) {
	case 0, 1, 2, 3, 4:
		n := g.r.Intn(4)
		anc := map[int][]string{}
		ch := []int{}
		for i := 0; i < n; i++ {
			aid := 200 + g.freshID() // unique per request: two operands never share an anonymous ancestor
			ch = append(ch, aid)
			anc[aid] = g.subset(userKeys, 12)
		}
		if g.r.Chance(75) {
			ch = append(ch, idObjectProto)
		}
		o := &ob{id: id, kind: "p", fk: "-", chain: ch}
		return withLayers(o, append(g.subset(userKeys, 15), conv...), anc)
	case 5, 6:
		var idx []string
		for i := 0; i < 4; i++ {
			if g.r.Chance(50) {
				idx = append(idx, strconv.Itoa(i))
			}
		}
		if g.r.Chance(15) {
			idx = append(idx, "10")
		}
		o := &ob{id: id, kind: "a", fk: "-", chain: []int{idArrayProto, idObjectProto}}
		return withLayers(o, append(append(idx, "length"), conv...), nil)
	case 7, 8:
		n := g.r.Intn(4)
		var idx []string
		for i := 0; i < n; i++ {
			idx = append(idx, strconv.Itoa(i))
		}
		o := &ob{id: id, kind: "s", fk: "-", chain: []int{idStringProto, idObjectProto}}
		return withLayers(o, append(append(idx, "length"), conv...), nil)
	default:
		o := &ob{id: id, kind: "f", fk: "F50", chain: []int{idFunctionProto, idObjectProto}}
		return withLayers(o, append([]string{"length", "prototype"}, conv...), nil)
	}
}

func (g *gen2) genIn() {
	keys := g.inKeyPrims()
	n := g.c.N(6000, 120000)
	for i := 0; i < n; i++ {
		g.reset()
		var left string
		k := keys[g.r.Intn(len(keys))]
		switch g.r.Intn(4) {
		case 0, 1:
			left = k
		default:
			// an object whose conversions return such keys
			o := g.anyObject()
			o.layers = nil
			if g.r.Chance(70) {
				o.s = "p" + k
			}
			if g.r.Chance(40) {
				o.v = "p" + keys[g.r.Intn(len(keys))]
			}
			left = o.tok()
		}
		var right string
		if g.r.Chance(8) {
			right = g.prim()
		} else {
			r := g.inRight()
			r.v, r.s = g.beh(), g.beh()
			right = r.tok()
		}
		l, rr := "v "+left, "v "+right
		if g.r.Chance(30) {
			l, rr = "q L "+l, "q R "+rr
		}
		g.c.Add("ex b in "+l+" "+rr, "ex:in")
	}
	// String objects: the index lookup itself, including non-canonical numerals
	names := []string{"0", "1", "2", "3", "9", "10", "11", "00", "01", "+0", "+1", "-0", "-1", "1.0", "1e0", " 1", "1 ", "0x1", "", "length", "a", "4294967294", "4294967295",
		"4294967296", "9223372036854775807", "9223372036854775808", "Infinity", "NaN", "007", "١"}
	for _, nm := range names {
		for _, ln := range []int{0, 1, 2, 3, 10, 12} {
			for _, st := range []string{"6c656e677468", "6c656e677468.61", "6c656e677468.3031.39"} {
				g.c.Add(fmt.Sprintf("instr %s %d %s", h.BytesTok(nm), ln, st), "instr")
			}
		}
	}
	for _, k := range keys {
		if !strings.HasPrefix(k, "s:") {
			g.c.Add(fmt.Sprintf("instr %s 2 6c656e677468", k), "instr")
		}
	}
}

// ---- unary

func (g *gen2) genUnary(vals []string) {
	for _, op := range unOps2 {
		for _, v := range vals {
			g.c.Add("ex u "+op+" v "+v, "ex:un:"+op)
		}
		g.c.Add("ex u "+op+" U", "ex:un:"+op)
		g.c.Add("ex u "+op+" q T U", "ex:un:"+op)
	}
	n := g.c.N(5000, 100000)
	for i := 0; i < n; i++ {
		g.reset()
		op := unOps2[g.r.Intn(len(unOps2))]
		var v string
		if g.r.Chance(20) {
			v = vals[g.r.Intn(len(vals))]
		} else {
			v = g.anyObject().tok()
		}
		e := g.leaf(v, true)
		if g.r.Chance(25) {
			e = "q T " + e
		}
		g.c.Add("ex u "+op+" "+e, "ex:un:"+op)
	}
}

// ---- && || ?:

func (g *gen2) genLogical(vals []string) {
	mk := func(v string) string {
		if g.r.Chance(50) {
			return g.leaf(v, true)
		}
		return "v " + v
	}
	val := func() string {
		if g.r.Chance(50) {
			return vals[g.r.Intn(len(vals))]
		}
		return g.anyVal()
	}
	// every primitive as the deciding operand
	for _, v := range vals {
		g.c.Add("ex a q L v "+v+" q R v "+g.prim(), "ex:and")
		g.c.Add("ex o q L v "+v+" q R v "+g.prim(), "ex:or")
		g.c.Add("ex c q C v "+v+" q T v "+g.prim()+" q F v "+g.prim(), "ex:cond")
	}
	n := g.c.N(4000, 80000)
	for i := 0; i < n; i++ {
		g.reset()
		switch g.r.Intn(3) {
		case 0:
			g.c.Add("ex a q L "+mk(val())+" q R "+mk(val()), "ex:and")
		case 1:
			g.c.Add("ex o q L "+mk(val())+" q R "+mk(val()), "ex:or")
		default:
			t, f := "q T "+mk(val()), "q F "+mk(val())
			if g.r.Chance(30) {
				t, f = mk(val()), mk(val()) // the branch itself may be a reference
			}
			e := "c q C " + mk(val()) + " " + t + " " + f
			if g.r.Chance(30) {
				e = "u " + unOps2[g.r.Intn(len(unOps2))] + " " + e
			}
			g.c.Add("ex "+e, "ex:cond")
		}
	}
}

// ---- order of evaluation: every binary operator on two tagged operand expressions

func (g *gen2) genOrder() {
	ops := append(append(append([]string{}, numOps2...), cmpOps2...), "inst", "in")
	n := g.c.N(12000, 300000)
	for i := 0; i < n; i++ {
		g.reset()
		op := ops[g.r.Intn(len(ops))]
		l := g.anyVal()
		var r string
		switch {
		case op == "in" && g.r.Chance(85):
			o := g.inRight()
			o.v, o.s = g.beh(), g.beh()
			r = o.tok()
		case op == "inst" && g.r.Chance(85):
			fs := g.instF()
			o := fs[g.r.Intn(len(fs))]
			o.id = g.freshID()
			o.v, o.s = g.beh(), g.beh()
			r = o.tok()
		case op == "in":
			r = g.prim() // an object without its property view is of no use on the right of `in`
		default:
			r = g.anyVal()
		}
		refs := g.r.Chance(35)
		le, re := g.leaf(l, refs), g.leaf(r, refs)
		// operands as the evaluator itself produces them: int32 out of | and ~, uint32 out of >>>
		wrap := func(e string) string {
			switch g.r.Intn(12) {
			case 0:
				return "b bor " + e + " v f:0000000000000000"
			case 1:
				return "b ushr " + e + " v f:0000000000000000"
			case 2:
				return "u bnot " + e
			}
			return e
		}
		if op != "in" && op != "inst" {
			le, re = wrap(le), wrap(re)
		}
		if g.r.Chance(85) {
			le = "q L " + le
		}
		if g.r.Chance(70) {
			re = "q R " + re
		}
		g.c.Add("ex b "+op+" "+le+" "+re, "ex:ord:"+op)
	}
}

// ---- random nested trees

func (g *gen2) tree(depth int, root bool) string {
	if depth == 0 || g.r.Chance(20) {
		e := g.leaf(g.anyVal(), g.r.Chance(25))
		if g.r.Chance(40) {
			e = fmt.Sprintf("q T%d %s", g.r.Intn(4), e)
		}
		return e
	}
	switch g.r.Intn(11) {
	case 10:
		op := numOps2[g.r.Intn(len(numOps2))]
		if op == "div" {
			op = "mul"
		}
		return g.assignExpr(op, depth-1)
	case 0, 1:
		return "u " + unOps2[g.r.Intn(len(unOps2))] + " " + g.tree(depth-1, false)
	case 2, 3, 4:
		op := numOps2[g.r.Intn(len(numOps2))]
		if op == "div" && !root {
			op = "sub" // ToString of a non-integer is C06's subject: `/` only where nothing consumes its result
		}
		return "b " + op + " " + g.tree(depth-1, false) + " " + g.tree(depth-1, false)
	case 5:
		return "b " + cmpOps2[g.r.Intn(len(cmpOps2))] + " " + g.tree(depth-1, false) + " " + g.tree(depth-1, false)
	case 6:
		return "a " + g.tree(depth-1, false) + " " + g.tree(depth-1, false)
	case 7:
		return "o " + g.tree(depth-1, false) + " " + g.tree(depth-1, false)
	case 8:
		return "c " + g.tree(depth-1, false) + " " + g.tree(depth-1, false) + " " + g.tree(depth-1, false)
	default:
		if g.r.Bool() {
			fs := g.instF()
			o := fs[g.r.Intn(len(fs))]
			o.id = g.freshID()
			o.v, o.s = g.beh(), g.beh()
			return "b inst " + g.tree(depth-1, false) + " v " + o.tok()
		}
		o := g.inRight()
		o.v, o.s = g.beh(), g.beh()
		return "b in " + g.tree(depth-1, false) + " v " + o.tok()
	}
}

// ---- compound assignment

func (g *gen2) holder() *ob {
	return &ob{id: g.freshID(), kind: "p", v: g.beh(), s: g.beh(), fk: "-", chain: []int{idObjectProto}}
}

// an expression that evaluates to the holder object (or, rarely, to undefined/null)
func (g *gen2) baseExpr() string {
	h := "v " + g.holder().tok()
	switch g.r.Intn(12) {
	case 0:
		return "v n"
	case 1:
		return "q B v u"
	case 2:
		return "c " + g.leaf(g.anyVal(), false) + " " + h + " v n"
	case 3, 4, 5, 6:
		return "q B " + h
	}
	return h
}

// an expression whose ToString is "p" (or which throws on the way)
func (g *gen2) keyExpr() string {
	pk := "p" + h.BytesTok("p")
	var k string
	switch g.r.Intn(8) {
	case 0, 1:
		k = h.BytesTok("p")
	case 2:
		k = (&ob{id: g.freshID(), kind: "p", v: pk, s: []string{"n", "o"}[g.r.Intn(2)], fk: "-", chain: []int{idObjectProto}}).tok()
	case 3:
		k = (&ob{id: g.freshID(), kind: "p", v: g.beh(), s: "t" + g.prim(), fk: "-", chain: []int{idObjectProto}}).tok()
	default:
		k = (&ob{id: g.freshID(), kind: []string{"p", "d", "a"}[g.r.Intn(3)], v: g.beh(), s: pk, fk: "-", chain: []int{idObjectProto}}).tok()
	}
	o := "v " + k
	if g.r.Chance(15) {
		o = fmt.Sprintf("g GK %s", k)
	}
	if g.r.Chance(50) {
		o = "q K " + o
	}
	return o
}

func (g *gen2) assignExpr(op string, depth int) string {
	r := g.tree(depth, false)
	if g.r.Chance(60) {
		r = "q R " + r
	}
	if g.r.Bool() {
		return "A " + op + " " + g.leaf(g.anyVal(), true) + " " + r
	}
	prop := "d " + g.anyVal()
	if g.r.Chance(60) {
		prop = "a G S " + g.anyVal()
	}
	return "M " + op + " " + g.baseExpr() + " " + g.keyExpr() + " " + prop + " " + r
}

func (g *gen2) genAssign() {
	n := g.c.N(9000, 200000)
	for i := 0; i < n; i++ {
		g.reset()
		op := numOps2[g.r.Intn(len(numOps2))]
		g.c.Add("ex "+g.assignExpr(op, g.r.Intn(2)), "ex:asg:"+op)
	}
}

func (g *gen2) genTrees() {
	n := g.c.N(8000, 250000)
	for i := 0; i < n; i++ {
		g.reset()
		g.c.Add("ex "+g.tree(1+g.r.Intn(3), true), "ex:tree")
	}
}

func genOps2(c *h.Ctx) {
	g := &gen2{c: c, r: c.Rng, prims: append(oopPrims(), "f:8000000000000000", "i8:-3", "i32:7", "u16:65535", "i64:4294967301")}
	vals := c05Values(c.Rng)
	// scripted objects of every kind for the exhaustive unary pass
	var uvals []string
	uvals = append(uvals, vals...)
	for i := 0; i < 60; i++ {
		g.reset()
		uvals = append(uvals, g.anyObject().tok())
	}
	g.genUnary(uvals)
	g.genInst()
	g.genIn()
	g.genLogical(vals)
	g.genOrder()
	g.genAssign()
	g.genTrees()
}
