package main

import (
	"strings"

	"github.com/robertkrimen/otto"
	"ottoverif/h"
)

// ur: operators outside the Ops2 expression language applied to an identifier that resolves nowhere
// (lean/OttoVerif/C05/Unres.lean); ex:unres: every Ops2 operator with such an operand in every position.
// The expression runs inside try/catch, log("after") follows it, and the harness checks that the global
// appears only where ES5 creates it, that `x` keeps its value and that `f` was not called.

var urForms = map[string]string{
	"typeofN":    `typeof N`,
	"deleteN":    `delete N`,
	"preInc":     `++N`,
	"preDec":     `--N`,
	"postInc":    `N++`,
	"postDec":    `N--`,
	"assignN":    `N = (log("Z"), 2)`,
	"assignFrom": `x = N`,
	"dotN":       `N.p`,
	"idxN":       `N[(log("Z"), 2)]`,
	"idxKey":     `o[N]`,
	"callN0":     `N()`,
	"callN1":     `N((log("Z"), 2))`,
	"callArg":    `f((log("A"), 1), N, (log("Z"), 2))`,
	"newN0":      `new N`,
	"newN1":      `new N((log("Z"), 2))`,
	"newArg":     `new f((log("A"), 1), N, (log("Z"), 2))`,
	"methN":      `N.m((log("Z"), 2))`,
	"methArg":    `o.m((log("A"), 1), N)`,
}

var urOrder = []string{"typeofN", "deleteN", "preInc", "preDec", "postInc", "postDec", "assignN", "assignFrom", "dotN", "idxN", "idxKey",
	"callN0", "callN1", "callArg", "newN0", "newN1", "newArg", "methN", "methArg"}

func implUr(f []string) string {
	tpl, ok := urForms[f[1]]
	if !ok {
		return "bad-op"
	}
	n := "nosuch_zz"
	if f[2] == "1" {
		n = "(nosuch_zz)"
	}
	src := strings.ReplaceAll(tpl, "N", n)
	vm := otto.New()
	vm.Run(`var __log = []; function log(t) { __log.push(t); return t; } var x = 5, o = {m: function () { log("m"); return 1; }}; function f() { log("f"); return 7; }`)
	if _, err := vm.Run(`var __r, __t, __threw = false; try { __r = ` + src + ` } catch (e) { __threw = true; __t = e } log("after");`); err != nil {
		return "run-error:" + h.Sanitize(err.Error())
	}
	lg, _ := vm.Run(`__log.join(",")`)
	l := lg.String()
	if l != "after" && !strings.HasSuffix(l, ",after") {
		return "no-after:" + l
	}
	l = strings.TrimSuffix(strings.TrimSuffix(l, "after"), ",")
	if l == "" {
		l = "-"
	}
	side, _ := vm.Run(`(x === 5 ? "" : "x-changed") + (typeof nosuch_zz === "undefined" ? "g-" : "g+")`)
	var res string
	threw, _ := vm.Get("__threw")
	if b, _ := threw.ToBoolean(); b {
		t, _ := vm.Get("__t")
		if t.IsObject() {
			nm, _ := t.Object().Get("name")
			res = "throw:" + nm.String()
		} else {
			res = "throw:" + h.ValTok(t)
		}
	} else {
		rv, _ := vm.Get("__r")
		res = h.ValTok(rv)
	}
	return res + "|" + l + "|" + side.String()
}

func genUnres(c *h.Ctx) {
	for _, f := range urOrder {
		c.Add("ur "+f+" 0", "ur")
		c.Add("ur "+f+" 1", "ur")
	}
	one, two, tru, fls := "v f:3ff0000000000000", "q Z v f:4000000000000000", "q A v b:1", "q A v b:0"
	obj := "v O(1;p;pf:3ff0000000000000;ps:70;-;100;-)"
	ops := append(append(append([]string{}, numOps2...), cmpOps2...), "inst", "in")
	for _, n := range []string{"U", "Up"} {
		for _, op := range unOps2 {
			c.Add("ex u "+op+" "+n, "ex:unres")
			c.Add("ex u "+op+" q T "+n, "ex:unres") // (log("T"), N): the comma operator calls GetValue
		}
		for _, op := range ops {
			c.Add("ex b "+op+" "+n+" "+two, "ex:unres")
			c.Add("ex b "+op+" q A "+one+" "+n, "ex:unres")
			c.Add("ex b "+op+" q A "+obj+" "+n, "ex:unres") // an object on the left: no conversion before the error
		}
		for _, k := range []string{"a", "o"} {
			c.Add("ex "+k+" "+n+" "+two, "ex:unres")
			c.Add("ex "+k+" "+tru+" "+n, "ex:unres")
			c.Add("ex "+k+" "+fls+" "+n, "ex:unres")
		}
		c.Add("ex c "+n+" q T "+one+" q F "+one, "ex:unres")
		c.Add("ex c "+tru+" "+n+" q F "+one, "ex:unres")
		c.Add("ex c "+tru+" q T "+one+" "+n, "ex:unres")
		c.Add("ex c "+fls+" "+n+" q F "+one, "ex:unres")
		c.Add("ex c "+fls+" q T "+one+" "+n, "ex:unres")
		c.Add("ex q A "+n, "ex:unres")
		for _, op := range numOps2 {
			c.Add("ex A "+op+" "+n+" "+two, "ex:unres")
			c.Add("ex A "+op+" "+one+" "+n, "ex:unres")
			c.Add("ex M "+op+" "+n+" q K v s:70 d f:3ff0000000000000 "+two, "ex:unres")
			c.Add("ex M "+op+" q B "+obj+" "+n+" a G S f:3ff0000000000000 "+two, "ex:unres")
			c.Add("ex M "+op+" q B "+obj+" q K v s:70 a G S f:3ff0000000000000 "+n, "ex:unres")
		}
	}
}
