// Command c15 is the correspondence harness binary for property C15.
package main

import "ottoverif/h"

func main() { h.Main("C15") }
