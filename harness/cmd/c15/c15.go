package main

import (
	"encoding/hex"
	"encoding/json"
	"fmt"
	"math"
	"strconv"
	"strings"
	"sync"

	"github.com/robertkrimen/otto"
	"ottoverif/h"
)

func init() {
	h.Register(&h.Prop{ID: "C15", Gen: genC15, Impl: implC15, Trivial: func(l string) bool { return false }})
}

var vmPool = sync.Pool{New: func() interface{} { return otto.New() }}

// withVM runs f with a runtime from the pool; a runtime that saw a Go panic is dropped.
func withVM(f func(vm *otto.Otto) string) (res string) {
	vm := vmPool.Get().(*otto.Otto)
	ok := false
	defer func() {
		if r := recover(); r != nil {
			if s, isStr := r.(string); isStr && strings.HasPrefix(s, "token syntax") {
				panic(r)
			}
			res = "panic"
			return
		}
		if ok {
			vmPool.Put(vm)
		}
	}()
	res = f(vm)
	ok = true
	return res
}

func errTok(err error) string {
	if err == nil {
		return ""
	}
	if oe, ok := err.(*otto.Error); ok {
		msg := oe.Error()
		if i := strings.IndexByte(msg, ':'); i > 0 {
			return "throw:" + msg[:i]
		}
		return "throw:" + msg
	}
	return "err"
}

// ---------------------------------------------------------------- JS value construction

func (l *lexer) buildJS(vm *otto.Otto) otto.Value {
	t := l.next()
	mk := func(x interface{}) otto.Value {
		v, err := vm.ToValue(x)
		if err != nil {
			panic("token syntax: ToValue failed: " + err.Error())
		}
		return v
	}
	switch t {
	case "u":
		return otto.UndefinedValue()
	case "n":
		return otto.NullValue()
	case "G":
		l.expect("(")
		g := l.parseG()
		l.expect(")")
		return mk(g)
	case "A":
		l.expect("(")
		type el struct {
			hole bool
			v    otto.Value
		}
		var els []el
		for l.peek() != ")" {
			if l.peek() == "H" {
				l.next()
				els = append(els, el{hole: true})
			} else {
				els = append(els, el{v: l.buildJS(vm)})
			}
			l.expect(",")
		}
		l.expect(")")
		av, err := vm.Run(fmt.Sprintf("new Array(%d)", len(els)))
		if err != nil {
			panic(err)
		}
		if len(els) == 1 { // new Array(1) is fine (length 1); keep explicit for clarity
		}
		ao := av.Object()
		for i, e := range els {
			if !e.hole {
				if err := ao.Set(strconv.Itoa(i), e.v); err != nil {
					panic(err)
				}
			}
		}
		return av
	case "O":
		l.expect("(")
		ov, err := vm.Run("({})")
		if err != nil {
			panic(err)
		}
		oo := ov.Object()
		for l.peek() != ")" {
			kb, err := keyBytes(l.next())
			if err != nil {
				panic("token syntax: key")
			}
			l.expect(",")
			v := l.buildJS(vm)
			l.expect(",")
			if err := oo.Set(string(kb), v); err != nil {
				panic(err)
			}
		}
		l.expect(")")
		return ov
	}
	return mk(parseScalar(t))
}

func buildJS(vm *otto.Otto, tok string) otto.Value {
	l := lex(tok)
	v := l.buildJS(vm)
	if l.pos != len(l.toks) {
		panic("token syntax: trailing tokens in " + tok)
	}
	return v
}

// ---------------------------------------------------------------- observations

func strOfJS(vm *otto.Otto) string {
	lv, err := vm.Run(`x.length`)
	if err != nil {
		return errTok(err)
	}
	n, _ := lv.ToInteger()
	sv, err := vm.Run(`'' + x`)
	if err != nil {
		return errTok(err)
	}
	s, _ := sv.ToString()
	return fmt.Sprintf("%d:%s", n, hex.EncodeToString([]byte(s)))
}

func viewOf(vm *otto.Otto) string {
	tv, err := vm.Run(`typeof x`)
	if err != nil {
		return errTok(err)
	}
	t, _ := tv.ToString()
	switch t {
	case "undefined":
		return t + "/undefined"
	case "boolean":
		bv, _ := vm.Run(`x === true`)
		b, _ := bv.ToBoolean()
		if b {
			return t + "/b:1"
		}
		return t + "/b:0"
	case "number":
		nv, err := vm.Run(`x - 0`)
		if err != nil {
			return errTok(err)
		}
		f, _ := nv.ToFloat()
		return t + "/n:" + h.F64Hex(f)
	case "string":
		return t + "/s:" + strOfJS(vm)
	case "object":
		nv, _ := vm.Run(`x === null`)
		if b, _ := nv.ToBoolean(); b {
			return t + "/null"
		}
		return t + "/object"
	}
	return t + "/?"
}

// marshalTok canonicalises a JSON text of a primitive.
func marshalTok(text []byte, isF32, isFloat bool) string {
	s := string(text)
	switch {
	case s == "null" || s == "true" || s == "false":
		return s
	case strings.HasPrefix(s, `"`):
		var str string
		if err := json.Unmarshal(text, &str); err != nil {
			return "badjson"
		}
		return "s:" + h.UnitsHex(str)
	case isFloat:
		bits := 64
		if isF32 {
			bits = 32
		}
		f, err := strconv.ParseFloat(s, bits)
		if err != nil {
			return "badjson"
		}
		return "n:" + h.F64Hex(f)
	}
	return "i:" + s
}

// targetScalarKind finds the scalar kind a GoVal token leads to through P(...)/N(...).
func targetScalarKind(tok string) string {
	for strings.HasPrefix(tok, "P(") || strings.HasPrefix(tok, "N(") {
		tok = tok[2 : len(tok)-1]
	}
	if strings.ContainsAny(tok, "(,") {
		return ""
	}
	if i := strings.IndexByte(tok, ':'); i > 0 {
		return tok[:i]
	}
	return ""
}

func predsTok(v otto.Value) string {
	b := func(x bool) string {
		if x {
			return "1"
		}
		return "0"
	}
	return b(v.IsUndefined()) + b(v.IsDefined()) + b(v.IsNull()) + b(v.IsBoolean()) + b(v.IsNumber()) + b(v.IsString()) +
		b(v.IsObject()) + b(v.IsPrimitive()) + b(v.IsNaN())
}

func implC15(line string) string {
	f := strings.Fields(line)
	switch f[0] {
	case "go":
		return withVM(func(vm *otto.Otto) string { return implGo(vm, f[1], f[2]) })
	case "js":
		return withVM(func(vm *otto.Otto) string { return implJS(vm, f[1], f[2]) })
	case "call":
		return withVM(func(vm *otto.Otto) string { return implCall(vm, f) })
	case "reent":
		return withVM(func(vm *otto.Otto) string { return implReent(vm, f) })
	case "arith":
		return withVM(func(vm *otto.Otto) string { return implArith(vm, f) })
	case "reentcopy":
		return implReentCopy(f[1])
	case "api":
		return withVM(func(vm *otto.Otto) string { return implAPI(vm, f[1]) })
	case "callx":
		return withVM(func(vm *otto.Otto) string { return implCallX(vm, f) })
	case "jsh":
		return withVM(func(vm *otto.Otto) string { return implJSH(vm, f[1], f[2], f[3]) })
	}
	return "bad-op"
}

func implGo(vm *otto.Otto, op, tok string) string {
	g := parseGo(tok)
	if err := vm.Set("x", g); err != nil {
		return errTok(err)
	}
	v, err := vm.Get("x")
	if err != nil {
		return errTok(err)
	}
	switch op {
	case "export":
		e, err := v.Export()
		if err != nil {
			return errTok(err)
		}
		return goTok(e)
	case "toInteger":
		i, err := v.ToInteger()
		if err != nil {
			return errTok(err)
		}
		return strconv.FormatInt(i, 10)
	case "toFloat":
		x, err := v.ToFloat()
		if err != nil {
			return errTok(err)
		}
		return h.F64Hex(x)
	case "toBoolean":
		b, err := v.ToBoolean()
		if err != nil {
			return errTok(err)
		}
		return h.BoolTok(b)
	case "toString":
		s, err := v.ToString()
		if err != nil {
			return errTok(err)
		}
		return h.BytesTok(s)
	case "marshal":
		text, err := v.MarshalJSON()
		if err != nil {
			return "err"
		}
		k := targetScalarKind(tok)
		return marshalTok(text, k == "f32", k == "f32" || k == "f64")
	case "view":
		return viewOf(vm)
	}
	return "bad-op"
}

func implJS(vm *otto.Otto, op, tok string) string {
	v := buildJS(vm, tok)
	switch op {
	case "export":
		e, err := v.Export()
		if err != nil {
			return errTok(err)
		}
		return treeTok(e)
	case "exportT":
		e, err := v.Export()
		if err != nil {
			return errTok(err)
		}
		return goTok(e)
	case "preds":
		return predsTok(v)
	case "typeof":
		if err := vm.Set("x", v); err != nil {
			return errTok(err)
		}
		tv, err := vm.Run(`typeof x`)
		if err != nil {
			return errTok(err)
		}
		s, _ := tv.ToString()
		return s
	}
	return "bad-op"
}

// ---------------------------------------------------------------- JavaScript-side generators

var jsKeys = []string{"a", "b", "c", "k1", "0", "1", "length", "é", ""}

// jsLeaf draws a primitive JS value token (never a float32-typed token: those exist only via G(..)).
func jsLeaf(r *h.Rng, base []string, bd []float64) string {
	switch r.Intn(12) {
	case 0:
		return "u"
	case 1:
		return "n"
	case 2, 3, 4:
		return fmt.Sprintf("i64:%d", r.Intn(7)-3)
	case 5:
		return "f64:" + h.F64Hex([]float64{1.5, -0.0, 0, 2, 1e21, math.NaN(), math.Inf(1)}[r.Intn(7)])
	case 6:
		return []string{"b:0", "b:1"}[r.Intn(2)]
	case 7:
		return h.BytesTok([]string{"", "a", "b", "é", "x y"}[r.Intn(5)])
	case 8:
		return []string{"i32:1", "u32:2", "i32:-1", "u32:0", "int:3", "i8:4", "u64:5"}[r.Intn(7)]
	}
	for {
		t := randScalar(r, base, bd)
		if !strings.HasPrefix(t, "f32:") {
			return t
		}
	}
}

func goLeafTyped(r *h.Rng, t string) string {
	switch t {
	case "int":
		return fmt.Sprintf("int:%d", r.Intn(9)-4)
	case "i64":
		return fmt.Sprintf("i64:%d", r.Intn(9)-4)
	case "u8":
		return fmt.Sprintf("u8:%d", r.Intn(256))
	case "f64":
		return "f64:" + h.F64Hex([]float64{1.5, 0, -2.25, 1e300, math.Inf(-1)}[r.Intn(5)])
	case "f32":
		return "f32:" + h.F64Hex(float64([]float32{1.5, 0.1, -3, 1e-40}[r.Intn(4)]))
	case "s":
		return h.BytesTok([]string{"", "a", "zz", "é", "a\xffb"}[r.Intn(5)])
	case "b":
		return []string{"b:0", "b:1"}[r.Intn(2)]
	}
	return "nil"
}

var elemTypes = []string{"I", "int", "i64", "u8", "f64", "f32", "s", "b", "L(I)", "L(int)", "M(I)", "M(s)", "N(int)", "N(f32)"}

// goOfType draws a Go value token assignable to the type token t.
func goOfType(r *h.Rng, t string, depth int) string {
	switch {
	case t == "I":
		if depth <= 0 || r.Chance(50) {
			switch r.Intn(6) {
			case 0:
				return "nil"
			default:
				return goLeafTyped(r, []string{"int", "i64", "f64", "s", "b", "u8", "f32"}[r.Intn(7)])
			}
		}
		return goContainer(r, depth-1)
	case strings.HasPrefix(t, "N("):
		return "N(" + goLeafTyped(r, t[2:len(t)-1]) + ")"
	case strings.HasPrefix(t, "L("):
		et := t[2 : len(t)-1]
		n := r.Intn(4)
		if depth <= 0 {
			n = 0
		}
		b := "L(" + et + "," + []string{"0", "0", "0", "1"}[r.Intn(4)]
		if strings.HasSuffix(b, "1") {
			n = 0
		}
		for i := 0; i < n; i++ {
			b += "," + goOfType(r, et, depth-1)
		}
		return b + ")"
	case strings.HasPrefix(t, "M("):
		et := t[2 : len(t)-1]
		n := r.Intn(4)
		if depth <= 0 {
			n = 0
		}
		b := "M(" + et + "," + []string{"0", "0", "0", "1"}[r.Intn(4)]
		if strings.HasSuffix(b, "1") {
			n = 0
		}
		used := map[string]bool{}
		for i := 0; i < n; i++ {
			k := jsKeys[r.Intn(len(jsKeys))]
			if used[k] {
				continue
			}
			used[k] = true
			b += "," + keyTok(k) + "," + goOfType(r, et, depth-1)
		}
		return b + ")"
	}
	return goLeafTyped(r, t)
}

func goContainer(r *h.Rng, depth int) string {
	switch r.Intn(8) {
	case 0:
		return fmt.Sprintf("S(0,41,int:%d)", 1+r.Intn(5))
	case 1:
		return "P(S(0,41,int:2,42," + h.BytesTok("q") + "))"
	case 2, 3, 4:
		return goOfType(r, "L("+elemTypes[r.Intn(len(elemTypes))]+")", depth)
	}
	return goOfType(r, "M("+elemTypes[r.Intn(len(elemTypes))]+")", depth)
}

// jsTree draws a JS value token: arrays (with holes), objects, bridged Go containers, leaves.
func jsTree(r *h.Rng, depth int, base []string, bd []float64, leaf func() string) string {
	if depth <= 0 || r.Chance(30) {
		return leaf()
	}
	switch r.Intn(10) {
	case 0:
		return "G(" + goContainer(r, 2) + ")"
	case 1, 2, 3:
		n := r.Intn(4)
		b := "O("
		used := map[string]bool{}
		for i := 0; i < n; i++ {
			k := jsKeys[r.Intn(len(jsKeys))]
			if used[k] {
				continue
			}
			used[k] = true
			b += keyTok(k) + "," + jsTree(r, depth-1, base, bd, leaf) + ","
		}
		return b + ")"
	}
	n := r.Intn(4)
	b := "A("
	for i := 0; i < n; i++ {
		if r.Chance(6) {
			b += "H,"
		} else {
			b += jsTree(r, depth-1, base, bd, leaf) + ","
		}
	}
	return b + ")"
}

// nestedHomogeneous draws arrays nested `depth` deep whose leaves come from a two-type palette:
// the shape that decides between []T, []interface{} and the reflect.Set panic.
func nestedHomogeneous(r *h.Rng, depth int, palette []string) string {
	if depth == 0 {
		switch palette[r.Intn(len(palette))] {
		case "i":
			return fmt.Sprintf("i64:%d", r.Intn(3))
		case "f":
			return "f64:" + h.F64Hex(float64(r.Intn(3))+0.5)
		case "s":
			return h.BytesTok([]string{"a", "b"}[r.Intn(2)])
		case "b":
			return "b:1"
		case "n":
			return "n"
		case "o":
			return "O(61,i64:1,)"
		case "g":
			return "G(L(int,0,int:1))"
		case "m":
			return "G(M(int,0,61,int:1))"
		}
	}
	n := 1 + r.Intn(3)
	b := "A("
	for i := 0; i < n; i++ {
		b += nestedHomogeneous(r, depth-1, palette) + ","
	}
	return b + ")"
}

func genJS(c *h.Ctx, base []string, bd []float64) {
	r := c.Rng
	// predicates / typeof over every primitive
	prims := []string{"u", "n"}
	for _, t := range base {
		if strings.HasPrefix(t, "f32:") {
			prims = append(prims, "G("+t+")", "G(N("+t+"))", "G(P("+t+"))")
		} else {
			prims = append(prims, t, "G(N("+t+"))")
		}
	}
	for _, p := range prims {
		c.Add("js preds "+p, "js:preds")
		c.Add("js typeof "+p, "js:typeof")
	}
	for _, o := range []string{"A()", "O()", "A(i64:1,)", "G(L(I,0))", "G(M(I,0))", "G(S(0,41,int:1))", "G(P(S(0,41,int:1)))"} {
		c.Add("js typeof "+o, "js:typeof")
	}
	for i := 0; i < c.N(2000, 100000); i++ {
		p := jsLeaf(r, base, bd)
		c.Add("js preds "+p, "js:preds")
		c.Add("js typeof "+p, "js:typeof")
	}
	// export: fixed shapes
	for _, j := range []string{"A()", "O()", "A(i64:1,i64:2,i64:3,)", "A(i64:1,f64:4004000000000000,)", "A(i64:1,H,i64:3,)", "A(i64:1,u,i64:3,)", "A(n,n,)",
		"A(s:61,s:62,)", "A(A(i64:1,),A(i64:2,),)", "A(A(i64:1,),A(s:61,),)", "A(A(A(i64:1,),),A(A(s:61,),),)", "A(O(61,i64:1,),O(62,s:78,),)",
		"O(61,i64:1,62,u,63,n,64,A(i64:1,s:78,),)", "A(i32:1,i32:2,)", "A(u32:1,u32:2,)", "A(i64:1,i32:2,)", "A(b:1,b:0,)", "A(A(),A(),)", "A(A(),A(i64:1,),)",
		"A(A(i64:1,),A(),)", "A(A(n,),A(i64:1,),)", "A(H,)", "A(H,H,)", "A(u,)", "A(G(L(int,0,int:1)),G(L(int,0,int:2)),)", "A(G(L(int,0,int:1)),A(i64:2,),)",
		"A(G(L(int,0,int:1)),G(L(i64,0,i64:2)),)", "A(G(L(L(int),0)),G(L(L(s),0)),)", "A(G(M(int,0)),G(M(s,0)),)", "A(G(M(L(int),0)),G(M(L(s),0)),)",
		"A(G(S(0,41,int:1)),G(S(1,58,f64:3ff8000000000000)),)", "A(G(P(S(0,41,int:1))),G(P(S(0,41,int:2))),)", "A(G(S(0,41,int:1)),G(S(0,41,int:2)),)",
		"A(G(N(int:1)),G(N(int:2)),)", "A(G(N(int:1)),int:2,)", "A(G(N(f32:3ff8000000000000)),)", "A(A(A(A(i64:1,),),),A(A(A(f64:3ff8000000000000,),),),)",
		"O(61,A(A(A(i64:1,),),A(A(s:61,),),),)", "A(O(),A(),)", "A(A(H,),A(i64:1,),)"} {
		c.Add("js export "+j, "js:export", "js:fixed")
		c.Add("js exportT "+j, "js:exportT", "js:fixed")
	}
	palettes := [][]string{{"i"}, {"i", "f"}, {"i", "s"}, {"s"}, {"i", "n"}, {"o"}, {"o", "i"}, {"g", "i"}, {"g"}, {"g", "m"}, {"b", "s"}, {"f"}}
	for i := 0; i < c.N(6000, 400000); i++ {
		j := nestedHomogeneous(r, 1+r.Intn(4), palettes[r.Intn(len(palettes))])
		op := []string{"export", "exportT"}[r.Intn(2)]
		c.Add("js "+op+" "+j, "js:"+op, "js:nested")
	}
	leaf := func() string { return jsLeaf(r, base, bd) }
	for i := 0; i < c.N(12000, 800000); i++ {
		j := jsTree(r, 1+r.Intn(4), base, bd, leaf)
		op := []string{"export", "exportT"}[r.Intn(2)]
		c.Add("js "+op+" "+j, "js:"+op, "js:tree")
	}
	// Go containers through Set/Get
	for i := 0; i < c.N(6000, 300000); i++ {
		g := goContainer(r, 1+r.Intn(3))
		op := []string{"export", "export", "toBoolean", "view"}[r.Intn(4)]
		c.Add("go "+op+" "+g, "go:"+op, "shape:container")
	}
}

// ---------------------------------------------------------------- heap graphs (sharing and cycles)

func refTok(t string) (int, bool) {
	if len(t) > 1 && t[0] == 'R' {
		if n, err := strconv.Atoi(t[1:]); err == nil {
			return n, true
		}
	}
	return 0, false
}

// buildHeap creates one JavaScript object per node (first all objects, then their members, so that
// references may point anywhere: shared and cyclic graphs) and returns their Values.
func buildHeap(vm *otto.Otto, heap string) []otto.Value {
	if heap == "-" {
		return nil
	}
	nodes := strings.Split(heap, ";")
	vals := make([]otto.Value, len(nodes))
	for i, n := range nodes {
		src := "({})"
		if strings.HasPrefix(n, "A(") {
			src = "new Array(0)"
		}
		v, err := vm.Run(src)
		if err != nil {
			panic(err)
		}
		vals[i] = v
	}
	member := func(l *lexer) (otto.Value, bool) {
		if l.peek() == "H" {
			l.next()
			return otto.Value{}, false
		}
		if a, ok := refTok(l.peek()); ok {
			l.next()
			if a >= len(vals) {
				panic("token syntax: dangling reference")
			}
			return vals[a], true
		}
		return l.buildJS(vm), true
	}
	for i, n := range nodes {
		l := lex(n)
		kind := l.next()
		l.expect("(")
		o := vals[i].Object()
		idx := 0
		for l.peek() != ")" {
			if kind == "A" {
				v, present := member(l)
				if present {
					if err := o.Set(strconv.Itoa(idx), v); err != nil {
						panic(err)
					}
				}
				idx++
			} else {
				kb, err := keyBytes(l.next())
				if err != nil {
					panic("token syntax: key")
				}
				l.expect(",")
				v, _ := member(l)
				if err := o.Set(string(kb), v); err != nil {
					panic(err)
				}
			}
			l.expect(",")
		}
		if kind == "A" {
			if err := o.Set("length", idx); err != nil {
				panic(err)
			}
		}
	}
	return vals
}

func implJSH(vm *otto.Otto, op, root, heap string) string {
	vals := buildHeap(vm, heap)
	var v otto.Value
	if a, ok := refTok(root); ok {
		v = vals[a]
	} else {
		v = buildJS(vm, root)
	}
	res := func(x otto.Value) int {
		for i, hv := range vals {
			if hv == x {
				return i
			}
		}
		return -1
	}
	switch op {
	case "export":
		e, err := v.Export()
		if err != nil {
			return errTok(err)
		}
		return treeTokR(e, res)
	}
	return "bad-op"
}

// genHeaps: object graphs with sharing (DAGs: every reference points to a lower address) and cycles.
func genHeaps(c *h.Ctx, base []string, bd []float64) {
	r := c.Rng
	for _, l := range []string{
		"R1 A(i64:1,i64:2,i64:3,);O(6669727374,R0,7365636f6e64,R0,)", // {first:r, second:r}
		"R1 A(s:61,s:62,);A(R0,R0,)",                                 // [r, r]
		"R2 A(i64:1,);O(63,R0,);O(61,R0,62,R1,)",                     // {a:r, b:{c:r}}
		"R2 A(i64:1,);A(R0,);A(R1,R0,)",                              // [[r], r]
		"R1 O(61,i64:1,);O(70,R0,71,R0,)",                            // {p:o, q:o}
		"R1 O(61,i64:1,);A(R0,R0,R0,)",                               // [o,o,o]
		"R3 A();A(R0,R0,);O(78,R1,79,R0,);A(R2,R1,R0,)",              // shared empty array at three depths
		"R0 A(R0,)", "R0 O(73656c66,R0,)", "R1 A(R1,);O(61,R0,)", "R1 O(62,R1,);A(R0,i64:1,)",
		"R2 A(i64:1,);O(61,R0,62,R2,);A(R1,R0,)", // a cycle next to a shared array
		"R1 A(H,i64:1,);A(R0,R0,)", "R1 A(u,);O(61,R0,62,u,63,R0,)",
		"R2 A(A(i64:1,),);A(A(s:61,),);A(R0,R1,)", // type clash across shared nodes
		"i64:1 -", "A(i64:1,) -",
	} {
		c.Add("jsh export "+l, "jsh:export", "jsh:fixed")
	}
	leaf := func() string {
		switch r.Intn(8) {
		case 0:
			return "u"
		case 1:
			return "n"
		case 2:
			return h.BytesTok([]string{"a", "b", ""}[r.Intn(3)])
		case 3:
			return "f64:" + h.F64Hex([]float64{1.5, 0, -2}[r.Intn(3)])
		case 4:
			return []string{"b:0", "b:1"}[r.Intn(2)]
		case 5:
			return []string{"A()", "O()", "A(i64:1,)", "O(61,s:78,)", "G(L(int,0,int:1))"}[r.Intn(5)]
		}
		return fmt.Sprintf("i64:%d", r.Intn(4))
	}
	for i := 0; i < c.N(8000, 500000); i++ {
		n := 1 + r.Intn(6)
		cyclic := r.Chance(25)
		var nodes []string
		for a := 0; a < n; a++ {
			m := r.Intn(4)
			isArr := r.Chance(55)
			b := "O("
			if isArr {
				b = "A("
			}
			used := map[string]bool{}
			for j := 0; j < m; j++ {
				var e string
				switch {
				case isArr && r.Chance(4):
					b += "H,"
					continue
				case cyclic && r.Chance(45):
					e = fmt.Sprintf("R%d", r.Intn(n)) // anywhere: forward, backward, self
				case a > 0 && r.Chance(60):
					// prefer few targets so that the same object is met several times
					e = fmt.Sprintf("R%d", r.Intn(a)%(1+r.Intn(3)))
					if t, _ := refTok(e); t >= a {
						e = "R0"
					}
				default:
					e = leaf()
				}
				if isArr {
					b += e + ","
				} else {
					k := jsKeys[r.Intn(len(jsKeys))]
					if used[k] {
						continue
					}
					used[k] = true
					b += keyTok(k) + "," + e + ","
				}
			}
			nodes = append(nodes, b+")")
		}
		key := "jsh:dag"
		if cyclic {
			key = "jsh:cyclic"
		}
		c.Add(fmt.Sprintf("jsh export R%d %s", n-1, strings.Join(nodes, ";")), "jsh:export", key)
	}
}

// ---------------------------------------------------------------- calls

const probeSrc = `
function hex(s){var r="";for(var i=0;i<s.length;i++){var h=s.charCodeAt(i).toString(16);r+=(h.length<2?"0":"")+h}return r}
function obs(x){var t=typeof x; if(t==="string")return t+":"+hex(x); if(x===null)return "object:null"; if(t==="object"||t==="function")return "object:object"; return t+":"+String(x)}
function probeFn(){var t; if(this===glob)t="global"; else if(this===obj)t="self"; else t="boxed:"+obs(this.valueOf()); var a=[]; for(var i=0;i<arguments.length;i++)a.push(obs(arguments[i])); return t+"|"+a.join(";")}
var glob=this; var obj={probe:probeFn}; var probe=probeFn;
`

func resTok(v otto.Value, err error) string {
	if err != nil {
		return errTok(err)
	}
	s, _ := v.ToString()
	return s
}

// implCall: call <kind> <m|p> <this> <args…>  ->  "<observation through the API>#<observation of the in-language call>"
func implCall(vm *otto.Otto, f []string) string {
	if _, err := vm.Run(probeSrc); err != nil {
		return errTok(err)
	}
	kind, member, thisTok := f[1], f[2] == "m", f[3]
	var args []interface{}
	var names []string
	for i, a := range f[4:] {
		g := parseGo(a)
		args = append(args, g)
		n := fmt.Sprintf("a%d", i)
		if err := vm.Set(n, g); err != nil {
			return errTok(err)
		}
		names = append(names, n)
	}
	src := "probe"
	if member {
		src = "obj.probe"
	}
	argList := strings.Join(names, ",")
	callList := argList
	if callList != "" {
		callList = "," + callList
	}
	var api, lang string
	switch kind {
	case "vcall":
		fn, _ := vm.Get("probe")
		var this otto.Value
		if thisTok == "self" {
			this, _ = vm.Get("obj")
			lang = resTok(vm.Run("probe.call(obj" + callList + ")"))
		} else {
			g := parseGo(thisTok)
			var err error
			if this, err = vm.ToValue(g); err != nil {
				return errTok(err)
			}
			vm.Set("T", g)
			lang = resTok(vm.Run("probe.call(T" + callList + ")"))
		}
		api = resTok(fn.Call(this, args...))
	case "ocall":
		ov, _ := vm.Get("obj")
		api = resTok(ov.Object().Call("probe", args...))
		lang = resTok(vm.Run("obj.probe(" + argList + ")"))
	case "gcall":
		api = resTok(vm.Call(src, nil, args...))
		lang = resTok(vm.Run(src + "(" + argList + ")"))
	case "gcallT":
		g := parseGo(thisTok)
		api = resTok(vm.Call(src, g, args...))
		vm.Set("T", g)
		lang = resTok(vm.Run("(" + src + ").call(T" + callList + ")"))
	default:
		return "bad-op"
	}
	return api + "#" + lang
}

var callVals = []string{"nil", "b:1", "b:0", "int:5", "i8:-3", "i64:0", "u64:7", "u16:65535", "i64:9007199254740991", "uint:4294967296", "f64:4000000000000000", "f64:8000000000000000",
	"f64:7ff8000000000001", "f64:fff0000000000000", "f32:4008000000000000", "s:6162", "s:", "s:7a", "N(int:4)", "N(s:71)", "P(int:6)", "Z(int)", "N(b:1)", "P(P(s:6b))"}

func genCalls(c *h.Ctx) {
	r := c.Rng
	pick := func() string { return callVals[r.Intn(len(callVals))] }
	argsOf := func() string {
		n := r.Intn(4)
		s := ""
		for i := 0; i < n; i++ {
			s += " " + pick()
		}
		return s
	}
	for _, t := range append([]string{"self"}, callVals...) {
		c.Add("call vcall p "+t, "call:vcall")
		if t != "self" && t != "nil" {
			c.Add("call gcallT p "+t, "call:gcallT")
			c.Add("call gcallT m "+t, "call:gcallT")
		}
	}
	c.Add("call ocall m -", "call:ocall")
	c.Add("call gcall m -", "call:gcall")
	c.Add("call gcall p -", "call:gcall")
	for i := 0; i < c.N(3000, 100000); i++ {
		switch r.Intn(4) {
		case 0:
			t := pick()
			if r.Chance(15) {
				t = "self"
			}
			c.Add("call vcall p "+t+argsOf(), "call:vcall")
		case 1:
			c.Add("call ocall m -"+argsOf(), "call:ocall")
		case 2:
			c.Add("call gcall "+[]string{"m", "p"}[r.Intn(2)]+" -"+argsOf(), "call:gcall")
		default:
			t := pick()
			if t == "nil" {
				continue
			}
			c.Add("call gcallT "+[]string{"m", "p"}[r.Intn(2)]+" "+t+argsOf(), "call:gcallT")
		}
	}
}

// ---------------------------------------------------------------- calls of callees with side effects

const probeXSrc = `
var count=0, log=[];
function tagOf(t){ if(t===glob)return "global"; if(t===obj)return "self"; if(t instanceof probe)return "instance"; return "boxed:"+obs(t.valueOf()) }
var thrownVals = { refProto: ReferenceError.prototype, errProto: Error.prototype, rangeErr: new RangeError('m'), emptyErr: new Error(), plainObj: ({a:1}),
  num: 5, "null": null, undef: undefined, bool: true, str: 's', fn: function f(){}, arr: [1,2], created: Object.create(TypeError.prototype),
  custom: new (function(){ function E(){this.message='mm'}; E.prototype=new Error(); E.prototype.name='MyErr'; return E }())() };
var curExit = "";
function mk(b){ curExit = b; return function(){ count++; var t=tagOf(this); log.push(t);
  if(b.indexOf("throw:")===0) throw thrownVals[b.slice(6)];
  if(b==="throwTypeError") throw new TypeError("t:"+t+":"+count);
  if(b==="throwOnce" && count===1) throw new Error("t:"+t+":"+count);
  if(b==="throwValue") throw "s:"+t;
  var a=[]; for(var i=0;i<arguments.length;i++)a.push(obs(arguments[i])); return t+"|"+a.join(";") } }
function langRun(f){ try { var r=f(); return (typeof r==="object"||typeof r==="function") ? "ret:object" : "ret:"+r }
  catch(e){ if(curExit.indexOf("throw:")===0) return (e===thrownVals[curExit.slice(6)]) ? "threw:"+String(e).split(" ").join("_") : "threw-other";
    return (e instanceof Error) ? "throw:"+e.name+":"+e.message : "throw:value:"+String(e) } }
`

func outcomeTok(v otto.Value, err error) string { return outcomeTokX(v, err, false) }

// outcomeTokX: with anyValue the callee throws an arbitrary value; what can be compared through the API is
// whether an error came back and its text (= ToString of the thrown value).
func outcomeTokX(v otto.Value, err error, anyValue bool) string {
	if err != nil && anyValue {
		return "threw:" + strings.ReplaceAll(err.Error(), " ", "_")
	}
	if err != nil {
		if oe, ok := err.(*otto.Error); ok {
			msg := oe.Error()
			if i := strings.Index(msg, ": "); i > 0 {
				return "throw:" + msg[:i] + ":" + msg[i+2:]
			}
			return "throw:" + msg
		}
		return "throw:value:" + err.Error()
	}
	if v.IsObject() {
		return "ret:object"
	}
	s, _ := v.ToString()
	return "ret:" + s
}

// implCallX: callx <kind> <m|p> <this> <exit> <args…>  ->  "<outcome>/<invocations>/<this log>" for the API call,
// "#", and the same for the equivalent in-language call, each starting from a fresh counter.
func implCallX(vm *otto.Otto, f []string) string {
	if _, err := vm.Run(probeSrc + probeXSrc + "var probe=mk('" + f[4] + "'); obj={probe:probe};"); err != nil {
		return errTok(err)
	}
	kind, member, thisTok := f[1], f[2] == "m", f[3]
	anyV := strings.HasPrefix(f[4], "throw:")
	var args []interface{}
	var names []string
	for i, a := range f[5:] {
		g := parseGo(a)
		args = append(args, g)
		n := fmt.Sprintf("a%d", i)
		if err := vm.Set(n, g); err != nil {
			return errTok(err)
		}
		names = append(names, n)
	}
	src := "probe"
	if member {
		src = "obj.probe"
	}
	argList := strings.Join(names, ",")
	callList := argList
	if callList != "" {
		callList = "," + callList
	}
	outcomeTokV := func(v otto.Value, err error) string { return outcomeTokX(v, err, anyV) }
	state := func() string {
		v, err := vm.Run(`count + "/" + log.join(",")`)
		if err != nil {
			return errTok(err)
		}
		s, _ := v.ToString()
		vm.Run(`count=0; log=[];`)
		return s
	}
	lang := func(expr string) string {
		v, err := vm.Run("langRun(function(){ return " + expr + " })")
		if err != nil {
			return errTok(err)
		}
		s, _ := v.ToString()
		return s + "/" + state()
	}
	var api, lg string
	switch kind {
	case "vcall":
		fn, _ := vm.Get("probe")
		var this otto.Value
		expr := "probe.call(obj" + callList + ")"
		if thisTok == "self" {
			this, _ = vm.Get("obj")
		} else {
			g := parseGo(thisTok)
			var err error
			if this, err = vm.ToValue(g); err != nil {
				return errTok(err)
			}
			vm.Set("T", g)
			expr = "probe.call(T" + callList + ")"
		}
		api = outcomeTokV(fn.Call(this, args...)) + "/" + state()
		lg = lang(expr)
	case "ocall":
		ov, _ := vm.Get("obj")
		api = outcomeTokV(ov.Object().Call("probe", args...)) + "/" + state()
		lg = lang("obj.probe(" + argList + ")")
	case "gcall":
		api = outcomeTokV(vm.Call(src, nil, args...)) + "/" + state()
		lg = lang(src + "(" + argList + ")")
	case "gcallT":
		g := parseGo(thisTok)
		api = outcomeTokV(vm.Call(src, g, args...)) + "/" + state()
		vm.Set("T", g)
		lg = lang("(" + src + ").call(T" + callList + ")")
	case "gnew":
		var this interface{}
		if thisTok != "-" {
			this = parseGo(thisTok)
		}
		api = outcomeTokV(vm.Call("new "+src, this, args...)) + "/" + state()
		lg = lang("new " + src + "(" + argList + ")")
	default:
		return "bad-op"
	}
	return api + "#" + lg
}

var exits = []string{"ret", "throwTypeError", "throwOnce", "throwValue", "throw:refProto", "throw:errProto", "throw:rangeErr", "throw:emptyErr", "throw:plainObj",
	"throw:num", "throw:null", "throw:undef", "throw:bool", "throw:str", "throw:fn", "throw:arr", "throw:created", "throw:custom"}

func genCallsX(c *h.Ctx) {
	r := c.Rng
	pick := func() string { return callVals[r.Intn(len(callVals))] }
	argsOf := func() string {
		n := r.Intn(3)
		s := ""
		for i := 0; i < n; i++ {
			s += " " + pick()
		}
		return s
	}
	for _, ex := range exits {
		for _, m := range []string{"m", "p"} {
			c.Add("callx gcall "+m+" - "+ex, "callx:gcall", "exit:"+ex)
			c.Add("callx gcall "+m+" - "+ex+" int:5 s:6162", "callx:gcall", "exit:"+ex)
			c.Add("callx gnew "+m+" - "+ex, "callx:gnew", "exit:"+ex)
			c.Add("callx gnew "+m+" int:5 "+ex+" b:1", "callx:gnew", "exit:"+ex)
			for _, t := range []string{"int:5", "s:6162", "b:1", "N(s:71)", "P(int:6)", "Z(int)"} {
				c.Add("callx gcallT "+m+" "+t+" "+ex, "callx:gcallT", "exit:"+ex)
			}
		}
		c.Add("callx ocall m - "+ex, "callx:ocall", "exit:"+ex)
		c.Add("callx ocall m - "+ex+" nil f64:4000000000000000", "callx:ocall", "exit:"+ex)
		for _, t := range []string{"self", "nil", "int:5", "s:6162", "b:0", "u64:7"} {
			c.Add("callx vcall p "+t+" "+ex, "callx:vcall", "exit:"+ex)
		}
	}
	for i := 0; i < c.N(4000, 150000); i++ {
		ex := exits[r.Intn(len(exits))]
		m := []string{"m", "p"}[r.Intn(2)]
		switch r.Intn(5) {
		case 0:
			t := pick()
			if r.Chance(15) {
				t = "self"
			}
			c.Add("callx vcall p "+t+" "+ex+argsOf(), "callx:vcall", "exit:"+ex)
		case 1:
			c.Add("callx ocall m - "+ex+argsOf(), "callx:ocall", "exit:"+ex)
		case 2:
			c.Add("callx gcall "+m+" - "+ex+argsOf(), "callx:gcall", "exit:"+ex)
		case 3:
			t := pick()
			if t == "nil" {
				t = "-"
			}
			c.Add("callx gnew "+m+" "+t+" "+ex+argsOf(), "callx:gnew", "exit:"+ex)
		default:
			t := pick()
			if t == "nil" {
				continue
			}
			c.Add("callx gcallT "+m+" "+t+" "+ex+argsOf(), "callx:gcallT", "exit:"+ex)
		}
	}
}

// ---------------------------------------------------------------- re-entrant API use from a host function

// implReent: reent <form> <shadow> <m|p> <depth>: a JavaScript function that shadows the callee's name calls a Go
// host function, which uses the API on the running runtime.  Token: "<binding reached through the API>#<binding
// reached by the equivalent in-language code>" (global code call; direct eval for Otto.Eval).
func implReent(vm *otto.Otto, f []string) string {
	form, shadow, member, depth := f[1], f[2], f[3] == "m", f[4]
	name, src, local := "helper", "helper", "localFn"
	if member {
		name, src, local = "ns", "ns.helper", "({helper: localFn})"
	}
	vm.Set("host", func(call otto.FunctionCall) otto.Value {
		o := call.Otto
		var v otto.Value
		var err error
		switch form {
		case "ottoCall":
			v, err = o.Call(src, nil, 1)
		case "ottoCallThis":
			v, err = o.Call(src, 5, 1)
		case "ottoRun":
			v, err = o.Run(src + "(1)")
		case "ottoEval":
			v, err = o.Eval(src + "(1)")
		case "valueCall":
			var fn otto.Value
			if member {
				nsv, _ := o.Get("ns")
				fn, _ = nsv.Object().Get("helper")
			} else {
				fn, _ = o.Get("helper")
			}
			v, err = fn.Call(otto.UndefinedValue(), 1)
		case "objectCall":
			var ob *otto.Object
			if member {
				ob, err = o.Object("ns")
			} else {
				ob, err = o.Object("this")
			}
			if err == nil {
				v, err = ob.Call("helper", 1)
			}
		}
		if err != nil {
			r, _ := otto.ToValue("error:" + strings.ReplaceAll(err.Error(), " ", "_"))
			return r
		}
		return v
	})
	body := func(inner string) string {
		switch shadow {
		case "none":
			return "function(){ return " + inner + " }"
		case "var":
			return "function(){ var " + name + " = " + local + "; return " + inner + " }"
		case "param":
			return "function(" + name + "){ return " + inner + " }"
		case "catch":
			return "function(){ try { throw " + local + " } catch (" + name + ") { return " + inner + " } }"
		case "with":
			return "function(){ with ({" + name + ": " + local + "}) { return " + inner + " } }"
		}
		panic("token syntax: shadow")
	}
	langInner := "globalCall()"
	if form == "ottoEval" {
		langInner = "eval('" + src + "(1)')"
	}
	setup := `
function helper(x){ return "global" }
function localFn(x){ return "local" }
var ns = { helper: helper };
function globalCall(){ return ` + src + `(1) }
var callerApi = ` + body("host()") + `;
var callerLang = ` + body(langInner) + `;
function run(c){ return ` + map[string]string{"1": "c(" + local + ")", "2": "(function(){ var " + name + " = " + local + "; return c(" + local + ") })()"}[depth] + ` }
`
	if _, err := vm.Run(setup); err != nil {
		return errTok(err)
	}
	api, err := vm.Run("run(callerApi)")
	if err != nil {
		return errTok(err)
	}
	lang, err := vm.Run("run(callerLang)")
	if err != nil {
		return errTok(err)
	}
	a, _ := api.ToString()
	l, _ := lang.ToString()
	return a + "#" + l
}

// ---------------------------------------------------------------- Go-API edge cases

func apiTok(s string) string { return "t:" + hex.EncodeToString([]byte(s)) }

func apiErrTok(err error) string {
	if oe, ok := err.(*otto.Error); ok {
		msg := oe.Error()
		if i := strings.IndexByte(msg, ':'); i > 0 {
			return "throw:" + msg[:i]
		}
		return "throw:" + msg
	}
	return "err"
}

func implAPI(vm *otto.Otto, c string) string {
	bad := func() otto.Value {
		v, err := vm.Run("({valueOf:function(){throw new RangeError('vo')},toString:function(){throw new RangeError('ts')}})")
		if err != nil {
			panic(err)
		}
		return v
	}
	typeofArg := func(arg interface{}) string {
		fn, _ := vm.Run("(function(a){return typeof a})")
		v, err := fn.Call(otto.UndefinedValue(), arg)
		if err != nil {
			return apiErrTok(err)
		}
		return apiTok(v.String())
	}
	callLog := func(src string, this interface{}) string {
		vm.Run("var log=[]; function f(x){log.push('f'+x); return 'F'} function g(x){log.push('g'+x); return 'G'}")
		v, err := vm.Call(src, this, 7)
		if err != nil {
			return apiErrTok(err)
		}
		l, _ := vm.Run("log.join(',')")
		return apiTok(v.String() + "/" + l.String())
	}
	switch c {
	case "runThrowToStringThrows":
		_, err := vm.Run("throw {toString:function(){throw 1}}")
		if err == nil {
			return apiTok("no-error")
		}
		return apiErrTok(err)
	case "runThrowUnconvertible":
		_, err := vm.Run("throw {toString:function(){return {}},valueOf:function(){return {}}}")
		if err == nil {
			return apiTok("no-error")
		}
		return apiErrTok(err)
	case "badIsNaN":
		return apiTok(fmt.Sprint(bad().IsNaN()))
	case "badToString":
		s, err := bad().ToString()
		if err != nil {
			return apiErrTok(err)
		}
		return apiTok(s)
	case "badToInteger":
		n, err := bad().ToInteger()
		if err != nil {
			return apiErrTok(err)
		}
		return apiTok(fmt.Sprint(n))
	case "badToFloat":
		n, err := bad().ToFloat()
		if err != nil {
			return apiErrTok(err)
		}
		return apiTok(fmt.Sprint(n))
	case "badToBoolean":
		b, err := bad().ToBoolean()
		if err != nil {
			return apiErrTok(err)
		}
		return apiTok(fmt.Sprint(b))
	case "badString":
		return apiTok(bad().String())
	case "badClass":
		return apiTok(bad().Class())
	case "callerLocationNoScript", "callerLocationScript":
		vm.Set("host", func(call otto.FunctionCall) otto.Value { v, _ := otto.ToValue(call.CallerLocation()); return v })
		var v otto.Value
		var err error
		if c == "callerLocationNoScript" {
			hv, _ := vm.Get("host")
			v, err = hv.Call(otto.UndefinedValue())
		} else {
			v, err = vm.Run("host()")
		}
		if err != nil {
			return apiErrTok(err)
		}
		return apiTok(v.String())
	case "setNilObject":
		prim, _ := vm.Run("5")
		if err := vm.Set("x", prim.Object()); err != nil {
			return apiErrTok(err)
		}
		v, _ := vm.Run("typeof x")
		return apiTok(v.String())
	case "toValueNilObject":
		v, err := vm.ToValue((*otto.Object)(nil))
		if err != nil {
			return apiErrTok(err)
		}
		return typeofArg(v)
	case "argNilObject":
		return typeofArg((*otto.Object)(nil))
	case "toValueNilValue":
		v, err := vm.ToValue((*otto.Value)(nil))
		if err != nil {
			return apiErrTok(err)
		}
		return typeofArg(v)
	case "marshalFunction", "marshalObjectWithFunction", "marshalUndefined":
		src := map[string]string{"marshalFunction": "(function(){})", "marshalObjectWithFunction": "({a:function(){},b:1})", "marshalUndefined": "undefined"}[c]
		v, _ := vm.Run(src)
		b, err := v.MarshalJSON()
		if err != nil {
			return apiErrTok(err)
		}
		return apiTok(string(b))
	case "runThrowToStringHostThrows":
		vm.Set("hostFn", func(call otto.FunctionCall) otto.Value { panic(vm.MakeTypeError("x")) })
		_, err := vm.Run("throw {toString: hostFn}")
		if err == nil {
			return apiTok("no-error")
		}
		return apiErrTok(err)
	case "setZeroObject", "setPtrZeroObject":
		var zo interface{} = otto.Object{}
		if c == "setPtrZeroObject" {
			zo = &otto.Object{}
		}
		if err := vm.Set("zo", zo); err != nil {
			return apiErrTok(err)
		}
		v, err := vm.Run("typeof zo")
		if err != nil {
			return apiErrTok(err)
		}
		return apiTok(v.String())
	case "exportStringObject", "exportNumberObject", "exportFunction", "exportDate":
		src := map[string]string{"exportStringObject": `new String("ab")`, "exportNumberObject": "new Number(5)", "exportFunction": "(function(){})", "exportDate": "new Date(0)"}[c]
		v, _ := vm.Run(src)
		e, err := v.Export()
		if err != nil {
			return apiErrTok(err)
		}
		return apiTok(treeTok(e))
	case "callTwoStatements":
		return callLog("f(); g", nil)
	case "callTwoStatementsThis":
		return callLog("f(); g", 1)
	case "callExprStatement":
		return callLog("g //", nil)
	}
	return "bad-op"
}

var apiCases = []string{"runThrowToStringThrows", "runThrowUnconvertible", "badIsNaN", "badToString", "badToInteger", "badToFloat", "badToBoolean", "badString",
	"badClass", "callerLocationNoScript", "callerLocationScript", "setNilObject", "toValueNilObject", "argNilObject", "toValueNilValue", "marshalFunction",
	"marshalObjectWithFunction", "marshalUndefined", "callTwoStatements", "callTwoStatementsThis", "callExprStatement",
	"runThrowToStringHostThrows", "setZeroObject", "setPtrZeroObject", "exportStringObject", "exportNumberObject", "exportFunction", "exportDate"}

func genReentAPI(c *h.Ctx) {
	for _, form := range []string{"ottoCall", "ottoCallThis", "ottoRun", "ottoEval", "valueCall", "objectCall"} {
		for _, sh := range []string{"none", "var", "param", "catch", "with"} {
			for _, m := range []string{"m", "p"} {
				for _, d := range []string{"1", "2"} {
					c.Add("reent "+form+" "+sh+" "+m+" "+d, "reent:"+form, "shadow:"+sh)
				}
			}
		}
	}
	for _, a := range apiCases {
		c.Add("api "+a, "api")
	}
}

// ---------------------------------------------------------------- arithmetic on Go values, Copy()

var arithJS = map[string]string{"add": "+", "sub": "-", "mul": "*", "div": "/", "rem": "%"}

// implArith: arith <op> <g1> <g2>: vm.Set both, Run("a op b"), read back with Export / ToFloat / ToString.
func implArith(vm *otto.Otto, f []string) string {
	if err := vm.Set("a", parseGo(f[2])); err != nil {
		return errTok(err)
	}
	if err := vm.Set("b", parseGo(f[3])); err != nil {
		return errTok(err)
	}
	v, err := vm.Run("a " + arithJS[f[1]] + " b")
	if err != nil {
		return errTok(err)
	}
	e, _ := v.Export()
	x, _ := v.ToFloat()
	str := "unmodelled"
	if math.IsNaN(x) || math.IsInf(x, 0) || x == 0 || (x == math.Trunc(x) && math.Abs(x) < 1<<53) {
		sv, _ := v.ToString()
		str = h.BytesTok(sv)
	}
	return goTok(e) + "/" + h.F64Hex(x) + "/" + str
}

// implReentCopy: a host function set on a template runs on a Copy(); FunctionCall.Otto must be the copy.
func implReentCopy(form string) string {
	tmpl := otto.New()
	tmpl.Set("host", func(call otto.FunctionCall) otto.Value {
		o := call.Otto
		var v otto.Value
		var err error
		switch form {
		case "ottoCall":
			v, err = o.Call("helper", nil, 1)
		case "ottoCallThis":
			v, err = o.Call("helper", 5, 1)
		case "ottoRun":
			v, err = o.Run("helper(1)")
		case "ottoEval":
			v, err = o.Eval("helper(1)")
		case "valueCall":
			var fn otto.Value
			fn, _ = o.Get("helper")
			v, err = fn.Call(otto.UndefinedValue(), 1)
		case "objectCall":
			var ob *otto.Object
			if ob, err = o.Object("this"); err == nil {
				v, err = ob.Call("helper", 1)
			}
		}
		if err != nil {
			r, _ := otto.ToValue("error:" + strings.ReplaceAll(err.Error(), " ", "_"))
			return r
		}
		return v
	})
	if _, err := tmpl.Run(`var helper = function(){ return "template" }; function caller(){ return host() }`); err != nil {
		return errTok(err)
	}
	cp := tmpl.Copy()
	if _, err := cp.Run(`helper = function(){ return "copy" }`); err != nil {
		return errTok(err)
	}
	v, err := cp.Run("caller()")
	if err != nil {
		return errTok(err)
	}
	return v.String()
}

func genArithCopy(c *h.Ctx, base []string, bd []float64) {
	r := c.Rng
	ops := []string{"add", "sub", "mul", "div", "rem"}
	// boundary operands of every numeric kind (no strings: concatenation and ToNumber of strings are C05/C09's)
	small := []string{"nil", "b:0", "b:1", "i32:0", "i32:-5", "i32:5", "i32:-1", "i32:2147483647", "i32:-2147483648", "i32:46341", "i32:65536",
		"i8:-128", "i8:0", "i16:-1", "i64:0", "i64:-1", "i64:9007199254740993", "i64:-9223372036854775808", "int:0", "int:3", "u8:255", "u16:0", "u32:4294967295",
		"u64:18446744073709551615", "u64:0", "uint:7", "f64:8000000000000000", "f64:0000000000000000", "f64:7ff8000000000001", "f64:7ff0000000000000",
		"f64:fff0000000000000", "f64:3ff8000000000000", "f64:c004000000000000", "f32:3fb99999a0000000", "f32:8000000000000000", "N(i32:0)", "N(i32:-7)", "P(i32:0)", "N(f32:bff0000000000000)", "Z(int)"}
	for _, op := range ops {
		for _, a := range small {
			for _, b := range small {
				c.Add("arith "+op+" "+a+" "+b, "arith:"+op)
			}
		}
	}
	var nums []string
	for _, t := range base {
		if !strings.HasPrefix(t, "s:") {
			nums = append(nums, t)
		}
	}
	for i := 0; i < c.N(6000, 400000); i++ {
		pick := func() string {
			for {
				t := randScalar(r, nums, bd)
				if !strings.HasPrefix(t, "s:") {
					return wrapScalar(r, t)
				}
			}
		}
		op := ops[r.Intn(len(ops))]
		c.Add("arith "+op+" "+pick()+" "+pick(), "arith:"+op, "arith:random")
	}
	for _, form := range []string{"ottoCall", "ottoCallThis", "ottoRun", "ottoEval", "valueCall", "objectCall"} {
		c.Add("reentcopy "+form, "reentcopy")
	}
}

// ---------------------------------------------------------------- generators

type intKind struct {
	k      string
	lo, hi int64
}

var sKinds = []intKind{{"i8", math.MinInt8, math.MaxInt8}, {"i16", math.MinInt16, math.MaxInt16}, {"i32", math.MinInt32, math.MaxInt32}, {"i64", math.MinInt64, math.MaxInt64}, {"int", math.MinInt64, math.MaxInt64}}

type uintKind struct {
	k  string
	hi uint64
}

var uKinds = []uintKind{{"u8", math.MaxUint8}, {"u16", math.MaxUint16}, {"u32", math.MaxUint32}, {"u64", math.MaxUint64}, {"uint", math.MaxUint64}}

func boundaryInts() []string {
	var vs []string
	for _, it := range sKinds {
		for _, n := range []int64{it.lo, it.lo + 1, -1, 0, 1, 2, it.hi - 1, it.hi} {
			vs = append(vs, fmt.Sprintf("%s:%d", it.k, n))
		}
	}
	for _, k := range []string{"i64", "int"} {
		for _, n := range []int64{1 << 53, 1<<53 + 1, -(1<<53 + 1), 1<<53 - 1, 1<<62 + 1, -(1<<62 + 3), 4294967296, 2147483648, math.MaxInt64 - 511, math.MaxInt64 - 512, math.MaxInt64 - 513} {
			vs = append(vs, fmt.Sprintf("%s:%d", k, n))
		}
	}
	for _, it := range uKinds {
		for _, n := range []uint64{0, 1, 2, it.hi / 2, it.hi/2 + 1, it.hi - 1, it.hi} {
			vs = append(vs, fmt.Sprintf("%s:%d", it.k, n))
		}
	}
	for _, k := range []string{"u64", "uint"} {
		for _, n := range []uint64{1 << 53, 1<<53 + 1, 1<<53 + 2, 1<<53 - 1, 1<<63 - 1, 1 << 63, 1<<63 + 1, 1<<63 - 512, 1<<63 - 513, 1<<63 + 1025, 1<<64 - 1025, 1<<62 + 1} {
			vs = append(vs, fmt.Sprintf("%s:%d", k, n))
		}
	}
	return vs
}

func f32Boundary() []float64 {
	var out []float64
	for _, f := range []float32{0, 1, 1.5, 0.1, 0.5, math.SmallestNonzeroFloat32, math.MaxFloat32, 16777216, 16777215, 3.4e38, 1e-40, 123456.789, 2147483648, 9.223372e18, 1.8446744e19, 1e21, 1e-7} {
		out = append(out, float64(f), -float64(f))
	}
	out = append(out, math.Inf(1), math.Inf(-1), math.NaN())
	return out
}

var c15Strings = []string{"", " ", "0", "-0", "1", " 12 ", "1e3", "0x10", "Infinity", "-Infinity", "NaN", "abc", "true", "null", "undefined",
	"héllo", "<>&", "  ", "\"q\"\\", "\x00\x01\x1f\x7f", "a\xffb", "\xc0\x80", "\xed\xa0\x80", "\xf4\x90\x80\x80", "\U00010000", "\U0001d4b3x", "\ufffd", "\u00a0 7\ufeff",
	"9007199254740993", "1e999", "[object Object]", "\t\n", "é"}

func scalarTokens(r *h.Rng) []string {
	vs := []string{"b:0", "b:1"}
	vs = append(vs, boundaryInts()...)
	for _, f := range h.BoundaryDoubles() {
		vs = append(vs, "f64:"+h.F64Hex(f))
	}
	for _, f := range f32Boundary() {
		vs = append(vs, "f32:"+h.F64Hex(f))
	}
	for _, s := range c15Strings {
		vs = append(vs, h.BytesTok(s))
	}
	return vs
}

func randString(r *h.Rng) string {
	n := r.Intn(6)
	var b []byte
	for i := 0; i < n; i++ {
		switch r.Intn(8) {
		case 0:
			b = append(b, byte(r.Intn(256)))
		case 1:
			b = append(b, []byte(string(rune(0x80+r.Intn(0x2000))))...)
		case 2:
			b = append(b, []byte(string(rune(0x10000+r.Intn(0x10000))))...)
		case 3:
			b = append(b, "<>&\"\\/\n"[r.Intn(7)])
		default:
			b = append(b, byte(0x20+r.Intn(0x5f)))
		}
	}
	return string(b)
}

func randScalar(r *h.Rng, base []string, bd []float64) string {
	switch r.Intn(10) {
	case 0, 1, 2:
		return base[r.Intn(len(base))]
	case 3:
		return "f64:" + h.F64Hex(h.RandomDouble(r, bd))
	case 4:
		return "f32:" + h.F64Hex(float64(float32(h.RandomDouble(r, bd))))
	case 5:
		it := sKinds[r.Intn(len(sKinds))]
		n := int64(r.U64()) >> uint(r.Intn(64))
		if n < it.lo || n > it.hi {
			n = it.lo + int64(r.U64()%uint64(it.hi-it.lo)) // in range (64-bit kinds never reach here)
		}
		return fmt.Sprintf("%s:%d", it.k, n)
	case 6:
		it := uKinds[r.Intn(len(uKinds))]
		n := r.U64() >> uint(r.Intn(64))
		if n > it.hi {
			n %= it.hi + 1
		}
		return fmt.Sprintf("%s:%d", it.k, n)
	case 7:
		// integers around 2^53..2^64 where float64 stops being exact
		k := []string{"u64", "uint"}[r.Intn(2)]
		n := (uint64(1) << uint(53+r.Intn(11))) + r.U64()%4096
		return fmt.Sprintf("%s:%d", k, n)
	}
	return h.BytesTok(randString(r))
}

// toStringOK reports whether ToString/MarshalJSON-text of the scalar is inside this property's model
// (finite non-whole or huge doubles are C06's subject).
func toStringOK(tok string) bool {
	k := targetScalarKind(tok)
	if k == "" {
		return false // objects: DefaultValue is not this property's subject
	}
	if k != "f64" && k != "f32" {
		return true
	}
	inner := tok
	for strings.HasPrefix(inner, "P(") || strings.HasPrefix(inner, "N(") {
		inner = inner[2 : len(inner)-1]
	}
	f := h.HexF64(inner[strings.IndexByte(inner, ':')+1:])
	if math.IsNaN(f) || math.IsInf(f, 0) || f == 0 {
		return true
	}
	return f == math.Trunc(f) && math.Abs(f) < 1<<53
}

// isObjectGo reports whether the Go value token is stored as an object (or rejected).
func isObjectGo(tok string) bool {
	return targetScalarKind(tok) == "" && tok != "nil" && !strings.HasPrefix(tok, "Z(") && !strings.HasPrefix(tok, "P(Z(")
}

var goOps = []string{"export", "toInteger", "toFloat", "toBoolean", "toString", "marshal", "view"}

func wrapScalar(r *h.Rng, s string) string {
	switch r.Intn(12) {
	case 0, 1:
		return "N(" + s + ")"
	case 2:
		return "P(" + s + ")"
	case 3:
		return "P(N(" + s + "))"
	case 4:
		return "P(P(" + s + "))"
	}
	return s
}

func addGo(c *h.Ctx, op, g, key string) {
	if op == "toString" && !toStringOK(g) && !(g == "nil" || strings.HasPrefix(g, "Z(")) {
		return
	}
	if isObjectGo(g) && (op == "toInteger" || op == "toFloat" || op == "toString" || op == "marshal") {
		return
	}
	c.Add("go "+op+" "+g, "go:"+op, key)
}

func genC15(c *h.Ctx) {
	r := c.Rng
	base := scalarTokens(r)
	bd := h.BoundaryDoubles()
	// (1) every boundary scalar x every op, plain / named / pointer
	for _, s := range base {
		for _, op := range goOps {
			addGo(c, op, s, "shape:plain")
			addGo(c, op, "N("+s+")", "shape:named")
			addGo(c, op, "P("+s+")", "shape:ptr")
		}
	}
	for _, op := range goOps {
		for _, g := range []string{"nil", "Z(int)", "Z(f32)", "Z(S(0))", "Z(L(I))", "P(P(N(f32:3ff8000000000000)))", "P(nil)",
			"P(L(I,0,int:1))", "P(M(I,0,61,int:1))", "P(P(S(0,41,int:1)))", "P(S(0,41,int:1,42,s:62))", "S(0,41,int:1)", "S(1,58,f64:3ff8000000000000)"} {
			addGo(c, op, g, "shape:special")
		}
	}
	// (2) random scalars
	for i := 0; i < c.N(20000, 1500000); i++ {
		s := wrapScalar(r, randScalar(r, base, bd))
		addGo(c, goOps[r.Intn(len(goOps))], s, "shape:random")
	}
	genJS(c, base, bd)
	genCalls(c)
	genCallsX(c)
	genReentAPI(c)
	genArithCopy(c, base, bd)
	genHeaps(c, base, bd)
}
