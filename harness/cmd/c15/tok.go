package main

// Token syntax shared with lean/OttoVerif/C15/Driver.lean: parsing request tokens into real Go
// values (with exact dynamic types, built through reflect) and printing Go values back.

import (
	"encoding/hex"
	"fmt"
	"math"
	"reflect"
	"sort"
	"strconv"
	"strings"

	"github.com/robertkrimen/otto"
	"ottoverif/h"
)

// defined ("named") types, one per basic type
type (
	MyBool bool
	MyI8   int8
	MyI16  int16
	MyI32  int32
	MyI64  int64
	MyInt  int
	MyU8   uint8
	MyU16  uint16
	MyU32  uint32
	MyU64  uint64
	MyUint uint
	MyF32  float32
	MyF64  float64
	MyStr  string
)

// struct types by id
type S0 struct {
	A int
	B string
}
type S1 struct {
	X float64
	Y []interface{}
}

var structTypes = []reflect.Type{reflect.TypeOf(S0{}), reflect.TypeOf(S1{})}

var basicTypes = map[string]reflect.Type{
	"b": reflect.TypeOf(false), "i8": reflect.TypeOf(int8(0)), "i16": reflect.TypeOf(int16(0)), "i32": reflect.TypeOf(int32(0)),
	"i64": reflect.TypeOf(int64(0)), "int": reflect.TypeOf(int(0)), "u8": reflect.TypeOf(uint8(0)), "u16": reflect.TypeOf(uint16(0)),
	"u32": reflect.TypeOf(uint32(0)), "u64": reflect.TypeOf(uint64(0)), "uint": reflect.TypeOf(uint(0)),
	"f32": reflect.TypeOf(float32(0)), "f64": reflect.TypeOf(float64(0)), "s": reflect.TypeOf(""),
}
var namedTypes = map[string]reflect.Type{
	"b": reflect.TypeOf(MyBool(false)), "i8": reflect.TypeOf(MyI8(0)), "i16": reflect.TypeOf(MyI16(0)), "i32": reflect.TypeOf(MyI32(0)),
	"i64": reflect.TypeOf(MyI64(0)), "int": reflect.TypeOf(MyInt(0)), "u8": reflect.TypeOf(MyU8(0)), "u16": reflect.TypeOf(MyU16(0)),
	"u32": reflect.TypeOf(MyU32(0)), "u64": reflect.TypeOf(MyU64(0)), "uint": reflect.TypeOf(MyUint(0)),
	"f32": reflect.TypeOf(MyF32(0)), "f64": reflect.TypeOf(MyF64(0)), "s": reflect.TypeOf(MyStr("")),
}
var ifaceType = reflect.TypeOf((*interface{})(nil)).Elem()

// ---------------------------------------------------------------- lexer

type lexer struct {
	toks []string
	pos  int
}

func lex(s string) *lexer {
	var toks []string
	cur := strings.Builder{}
	flush := func() {
		if cur.Len() > 0 {
			toks = append(toks, cur.String())
			cur.Reset()
		}
	}
	for _, c := range s {
		if c == '(' || c == ')' || c == ',' {
			flush()
			toks = append(toks, string(c))
		} else {
			cur.WriteRune(c)
		}
	}
	flush()
	return &lexer{toks: toks}
}

func (l *lexer) peek() string {
	if l.pos < len(l.toks) {
		return l.toks[l.pos]
	}
	return ""
}
func (l *lexer) next() string { t := l.peek(); l.pos++; return t }
func (l *lexer) expect(t string) {
	if g := l.next(); g != t {
		panic(fmt.Sprintf("token syntax: expected %q got %q", t, g))
	}
}

// ---------------------------------------------------------------- types

func (l *lexer) parseT() reflect.Type {
	t := l.next()
	switch t {
	case "I":
		return ifaceType
	case "N":
		l.expect("(")
		b := l.next()
		l.expect(")")
		return namedTypes[b]
	case "L":
		l.expect("(")
		e := l.parseT()
		l.expect(")")
		return reflect.SliceOf(e)
	case "M":
		l.expect("(")
		e := l.parseT()
		l.expect(")")
		return reflect.MapOf(basicTypes["s"], e)
	case "P":
		l.expect("(")
		e := l.parseT()
		l.expect(")")
		return reflect.PtrTo(e)
	case "S":
		l.expect("(")
		id, _ := strconv.Atoi(l.next())
		l.expect(")")
		return structTypes[id]
	}
	if bt, ok := basicTypes[t]; ok {
		return bt
	}
	panic("token syntax: bad type " + t)
}

func typeTok(t reflect.Type) string {
	if t == ifaceType {
		return "I"
	}
	for k, bt := range basicTypes {
		if bt == t {
			return k
		}
	}
	for k, nt := range namedTypes {
		if nt == t {
			return "N(" + k + ")"
		}
	}
	for i, st := range structTypes {
		if st == t {
			return fmt.Sprintf("S(%d)", i)
		}
	}
	switch t.Kind() {
	case reflect.Slice:
		return "L(" + typeTok(t.Elem()) + ")"
	case reflect.Map:
		if t.Key() == basicTypes["s"] {
			return "M(" + typeTok(t.Elem()) + ")"
		}
	case reflect.Ptr:
		return "P(" + typeTok(t.Elem()) + ")"
	}
	return "T?" + strings.ReplaceAll(t.String(), " ", "_")
}

// ---------------------------------------------------------------- values

func scalarKind(tok string) string { return tok[:strings.IndexByte(tok, ':')] }

// parseScalar builds the basic-typed Go value of a scalar token.
func parseScalar(tok string) interface{} {
	i := strings.IndexByte(tok, ':')
	if i < 0 {
		panic("token syntax: bad scalar " + tok)
	}
	k, p := tok[:i], tok[i+1:]
	switch k {
	case "b":
		return p == "1"
	case "f64":
		return h.HexF64(p)
	case "f32":
		return float32(h.HexF64(p))
	case "s":
		b, err := hex.DecodeString(p)
		if err != nil {
			panic(err)
		}
		return string(b)
	case "u64", "uint", "u8", "u16", "u32":
		n, err := strconv.ParseUint(p, 10, 64)
		if err != nil {
			panic(err)
		}
		switch k {
		case "u64":
			return n
		case "uint":
			return uint(n)
		case "u8":
			return uint8(n)
		case "u16":
			return uint16(n)
		}
		return uint32(n)
	case "i64", "int", "i8", "i16", "i32":
		n, err := strconv.ParseInt(p, 10, 64)
		if err != nil {
			panic(err)
		}
		switch k {
		case "i64":
			return n
		case "int":
			return int(n)
		case "i8":
			return int8(n)
		case "i16":
			return int16(n)
		}
		return int32(n)
	}
	panic("token syntax: bad scalar " + tok)
}

// parseG returns the Go value (as interface{}; nil for the nil interface).
func (l *lexer) parseG() interface{} {
	t := l.next()
	switch t {
	case "nil":
		return nil
	case "N":
		l.expect("(")
		a := l.next()
		l.expect(")")
		v := reflect.ValueOf(parseScalar(a))
		return v.Convert(namedTypes[scalarKind(a)]).Interface()
	case "P":
		l.expect("(")
		g := l.parseG()
		l.expect(")")
		if g == nil {
			p := reflect.New(ifaceType)
			return p.Interface()
		}
		p := reflect.New(reflect.TypeOf(g))
		p.Elem().Set(reflect.ValueOf(g))
		return p.Interface()
	case "Z":
		l.expect("(")
		ty := l.parseT()
		l.expect(")")
		return reflect.Zero(reflect.PtrTo(ty)).Interface()
	case "L":
		l.expect("(")
		et := l.parseT()
		l.expect(",")
		isNil := l.next() == "1"
		var elems []interface{}
		for l.peek() == "," {
			l.next()
			elems = append(elems, l.parseG())
		}
		l.expect(")")
		st := reflect.SliceOf(et)
		if isNil {
			return reflect.Zero(st).Interface()
		}
		sv := reflect.MakeSlice(st, len(elems), len(elems))
		for i, e := range elems {
			if e != nil {
				sv.Index(i).Set(reflect.ValueOf(e))
			}
		}
		return sv.Interface()
	case "M":
		l.expect("(")
		et := l.parseT()
		l.expect(",")
		isNil := l.next() == "1"
		mt := reflect.MapOf(basicTypes["s"], et)
		mv := reflect.MakeMap(mt)
		for l.peek() == "," {
			l.next()
			kb, err := keyBytes(l.next())
			if err != nil {
				panic(err)
			}
			l.expect(",")
			e := l.parseG()
			ev := reflect.Zero(et)
			if e != nil {
				ev = reflect.ValueOf(e)
			}
			mv.SetMapIndex(reflect.ValueOf(string(kb)), ev)
		}
		l.expect(")")
		if isNil {
			return reflect.Zero(mt).Interface()
		}
		return mv.Interface()
	case "S":
		l.expect("(")
		id, _ := strconv.Atoi(l.next())
		sv := reflect.New(structTypes[id]).Elem()
		for l.peek() == "," {
			l.next()
			kb, _ := keyBytes(l.next())
			l.expect(",")
			e := l.parseG()
			if e != nil {
				sv.FieldByName(string(kb)).Set(reflect.ValueOf(e))
			}
		}
		l.expect(")")
		return sv.Interface()
	}
	return parseScalar(t)
}

func parseGo(tok string) interface{} {
	l := lex(tok)
	g := l.parseG()
	if l.pos != len(l.toks) {
		panic("token syntax: trailing tokens in " + tok)
	}
	return g
}

func scalarTok(v reflect.Value) (string, bool) {
	switch v.Kind() {
	case reflect.Bool:
		if v.Bool() {
			return "b:1", true
		}
		return "b:0", true
	case reflect.Int:
		return fmt.Sprintf("int:%d", v.Int()), true
	case reflect.Int8:
		return fmt.Sprintf("i8:%d", v.Int()), true
	case reflect.Int16:
		return fmt.Sprintf("i16:%d", v.Int()), true
	case reflect.Int32:
		return fmt.Sprintf("i32:%d", v.Int()), true
	case reflect.Int64:
		return fmt.Sprintf("i64:%d", v.Int()), true
	case reflect.Uint:
		return fmt.Sprintf("uint:%d", v.Uint()), true
	case reflect.Uint8:
		return fmt.Sprintf("u8:%d", v.Uint()), true
	case reflect.Uint16:
		return fmt.Sprintf("u16:%d", v.Uint()), true
	case reflect.Uint32:
		return fmt.Sprintf("u32:%d", v.Uint()), true
	case reflect.Uint64:
		return fmt.Sprintf("u64:%d", v.Uint()), true
	case reflect.Float32:
		return "f32:" + h.F64Hex(v.Float()), true
	case reflect.Float64:
		return "f64:" + h.F64Hex(v.Float()), true
	case reflect.String:
		return "s:" + hex.EncodeToString([]byte(v.String())), true
	}
	return "", false
}

type kv struct{ k, v string }

// keyTok / keyBytes: map and property keys are hex of their bytes, "_" for the empty key.
func keyTok(k string) string {
	if k == "" {
		return "_"
	}
	return hex.EncodeToString([]byte(k))
}

func keyBytes(t string) ([]byte, error) {
	if t == "_" {
		return nil, nil
	}
	return hex.DecodeString(t)
}

func joinKVs(kvs []kv) string {
	sort.Slice(kvs, func(i, j int) bool { return kvs[i].k < kvs[j].k })
	var b strings.Builder
	for _, e := range kvs {
		b.WriteString("," + keyTok(e.k) + "," + e.v)
	}
	return b.String()
}

// goTok prints a Go value with its types.
func goTok(g interface{}) string {
	if g == nil {
		return "nil"
	}
	return goTokV(reflect.ValueOf(g))
}

func goTokV(v reflect.Value) string {
	t := v.Type()
	if t.Kind() == reflect.Interface {
		if v.IsNil() {
			return "nil"
		}
		return goTokV(v.Elem())
	}
	if s, ok := scalarTok(v); ok {
		if _, basic := basicTypes[scalarKind(s)]; basic && basicTypes[scalarKind(s)] == t {
			return s
		}
		if namedTypes[scalarKind(s)] == t {
			return "N(" + s + ")"
		}
		return "T?" + strings.ReplaceAll(t.String(), " ", "_") + "(" + s + ")"
	}
	switch t.Kind() {
	case reflect.Ptr:
		if v.IsNil() {
			return "Z(" + typeTok(t.Elem()) + ")"
		}
		return "P(" + goTokV(v.Elem()) + ")"
	case reflect.Slice:
		var b strings.Builder
		b.WriteString("L(" + typeTok(t.Elem()) + ",")
		if v.IsNil() {
			b.WriteString("1")
		} else {
			b.WriteString("0")
		}
		for i := 0; i < v.Len(); i++ {
			b.WriteString("," + goTokV(v.Index(i)))
		}
		b.WriteString(")")
		return b.String()
	case reflect.Map:
		if t.Key() != basicTypes["s"] {
			break
		}
		var kvs []kv
		for _, k := range v.MapKeys() {
			kvs = append(kvs, kv{k.String(), goTokV(v.MapIndex(k))})
		}
		n := "0"
		if v.IsNil() {
			n = "1"
		}
		return "M(" + typeTok(t.Elem()) + "," + n + joinKVs(kvs) + ")"
	case reflect.Struct:
		for id, st := range structTypes {
			if st == t {
				var kvs []kv
				for i := 0; i < t.NumField(); i++ {
					fv := v.Field(i)
					// zero-valued fields are not part of the token (the request lists only set fields)
					if fv.IsZero() {
						continue
					}
					kvs = append(kvs, kv{t.Field(i).Name, goTokV(fv)})
				}
				return fmt.Sprintf("S(%d%s)", id, joinKVs(kvs))
			}
		}
	}
	return "T?" + strings.ReplaceAll(t.String(), " ", "_")
}

// treeTok prints the structure of a Go value with the static types forgotten.
func treeTok(g interface{}) string { return treeTokR(g, nil) }

// treeTokR: res maps a raw otto.Value found inside the exported value (the cut of a cyclic graph) to the
// address of the heap object it is; such a value prints as the struct {"": address}.
func treeTokR(g interface{}, res func(otto.Value) int) string {
	if g == nil {
		return "z"
	}
	return treeTokV(reflect.ValueOf(g), res)
}

var ottoValueType = reflect.TypeOf(otto.Value{})

func treeTokV(v reflect.Value, res func(otto.Value) int) string {
	if v.Type() == ottoValueType {
		a := -1
		if res != nil {
			a = res(v.Interface().(otto.Value))
		}
		return "O(,_,n:" + h.F64Hex(float64(a)) + ")"
	}
	switch v.Kind() {
	case reflect.Interface, reflect.Ptr:
		if v.IsNil() {
			return "z"
		}
		return treeTokV(v.Elem(), res)
	case reflect.Bool:
		if v.Bool() {
			return "t"
		}
		return "f"
	case reflect.Int, reflect.Int8, reflect.Int16, reflect.Int32, reflect.Int64:
		return "n:" + h.F64Hex(float64(v.Int()))
	case reflect.Uint, reflect.Uint8, reflect.Uint16, reflect.Uint32, reflect.Uint64:
		return "n:" + h.F64Hex(float64(v.Uint()))
	case reflect.Float32, reflect.Float64:
		return "n:" + h.F64Hex(v.Float())
	case reflect.String:
		return "s:" + hex.EncodeToString([]byte(v.String()))
	case reflect.Slice:
		var b strings.Builder
		b.WriteString("A(")
		for i := 0; i < v.Len(); i++ {
			b.WriteString(treeTokV(v.Index(i), res) + ",")
		}
		b.WriteString(")")
		return b.String()
	case reflect.Map:
		var kvs []kv
		for _, k := range v.MapKeys() {
			kvs = append(kvs, kv{k.String(), treeTokV(v.MapIndex(k), res)})
		}
		return "O(" + joinKVs(kvs) + ")"
	case reflect.Struct:
		var kvs []kv
		for i := 0; i < v.NumField(); i++ {
			if v.Field(i).IsZero() {
				continue
			}
			kvs = append(kvs, kv{v.Type().Field(i).Name, treeTokV(v.Field(i), res)})
		}
		return "O(" + joinKVs(kvs) + ")"
	}
	return "T?" + v.Kind().String()
}

var _ = math.NaN
