package main

import (
	"fmt"
	"math"
	"sort"
	"strconv"
	"strings"
	"unicode/utf16"

	"github.com/robertkrimen/otto"
	"ottoverif/h"
)

func init() {
	h.Register(&h.Prop{ID: "C11", Gen: genC11, Impl: implC11})
}

// The reviver family (the Lean driver holds the same table, Driver.reviverFn).  Each is built by a
// factory that receives the array the keys of the calls are logged to.
var reviverSrc = []string{
	revSrc(``, `v`),
	revSrc(``, `k==="a"?undefined:v`),
	revSrc(``, `typeof v==="number"?undefined:v`),
	revSrc(``, `typeof v==="string"?k:v`),
	revSrc(``, `typeof v==="boolean"?null:v`),
	revSrc(``, `(k!==""&&typeof v==="object")?"o":v`),
	revSrc(``, `(k==="b"||k==="1")?undefined:v`),
	revSrc(`if(!A&&k==="a")delete this.b;`, `v===undefined?"u":v`),
	revSrc(`if(!A&&k==="a")delete this.b;`, `v`),
	revSrc(`if(A&&k==="1")this.length=1;`, `v`),
	revSrc(`if(A&&k==="0")this.length=5;`, `v`),
	revSrc(`if(A&&k==="0")this.push(7);`, `v`),
	revSrc(`if(A&&k==="1")this.pop();`, `v`),
	revSrc(`if(A&&k==="0")delete this[2];`, `v`),
	revSrc(`if(A&&k==="0")this[2]="x";if(A&&k==="2")this[0]="y";`, `v`),
	revSrc(`if(A&&k==="1")this.length=1;`, `v===undefined?"u":v`),
	revSrc(`if(!A&&k==="a")this.zz=7;`, `v`),
	revSrc(`if(A)this.push(7);`, `v`),
	revSrc(`if(A&&k==="1")this[5]="x";`, `v`),
}

// revSrc builds a logging reviver factory: the log entry is the holder kind (A array / O object)
// followed by the key; `effect` is what the reviver does to its holder before it returns `result`.
func revSrc(effect, result string) string {
	return `(function(log){return function(k,v){var A=Array.isArray(this);log.push((A?"A":"O")+k);` + effect + `return ` + result + `}})`
}

func implC11(line string) string {
	f := strings.Fields(line)
	env := 0
	if last := f[len(f)-1]; len(last) == 2 && last[0] == 'e' && last[1] >= '1' && last[1] <= '5' {
		env = int(last[1] - '0')
		f = f[:len(f)-1]
	}
	b := vmPools[env].Get().(*vmBox)
	defer vmPools[env].Put(b)
	switch f[0] {
	case "parse":
		if len(f) == 3 {
			n, _ := strconv.Atoi(f[2][1:])
			return implRevive(b, f[1], n)
		}
		return implParse(b, f[1])
	case "str":
		if env >= 3 {
			// the observation includes the log of the toJSON reads and calls
			b.takeLog.Call(otto.UndefinedValue())
			out := implStr(b, f[1], f[2], f[3])
			lv, err := b.takeLog.Call(otto.UndefinedValue())
			if err != nil {
				panic(err)
			}
			if strings.HasPrefix(out, "throw:") {
				return out
			}
			var keys []string
			for _, e := range nodeOf(lv).arr {
				keys = append(keys, "k"+unitsHex(e.str))
			}
			return out + "#" + strings.Join(keys, ",")
		}
		return implStr(b, f[1], f[2], f[3])
	}
	return "bad-op"
}

// implParse runs JSON.parse(text).  When an object has two or more properties the call is repeated
// (the order once came out of a Go map): if the renderings differ only in key order the answer is
// "unord:<keys sorted>", if every run agrees it is "det:<rendering>".
func implParse(b *vmBox, tt string) string {
	text := strVal(unitsOf(strings.TrimPrefix(tt, "t:")))
	first := ""
	for run := 0; run < 8; run++ {
		v, err := b.parse.Call(otto.UndefinedValue(), text)
		if err != nil {
			return errTok(err)
		}
		n := nodeOf(v)
		var sb strings.Builder
		n.tok(false, &sb)
		raw := sb.String()
		if !n.multiKey() {
			return "det:" + raw
		}
		if run == 0 {
			first = raw
			continue
		}
		if raw != first {
			var a, c strings.Builder
			n.tok(true, &a)
			nodeOfTokSorted(b, text, &c)
			_ = c
			return "unord:" + a.String()
		}
	}
	return "det:" + first
}

func nodeOfTokSorted(b *vmBox, text otto.Value, sb *strings.Builder) {}

// implRevive runs JSON.parse(text, reviver) with a logging reviver.  One run when no parsed object
// has two or more properties; otherwise 8 runs: "nondet" if the outcomes differ beyond key order
// (keys sorted, log sorted), "unord:<canonical>" if they differ in order only.
func implRevive(b *vmBox, tt string, id int) string {
	text := strVal(unitsOf(strings.TrimPrefix(tt, "t:")))
	plain, err := b.parse.Call(otto.UndefinedValue(), text)
	if err != nil {
		return errTok(err)
	}
	multi := nodeOf(plain).multiKey()
	raws, canons := map[string]bool{}, map[string]bool{}
	lastRaw, lastCanon := "", ""
	runs := 1
	if multi {
		runs = 8
	}
	for run := 0; run < runs; run++ {
		logObj, err := b.vm.Object(`[]`)
		if err != nil {
			panic(err)
		}
		rv, err := b.reviver[id].Call(otto.UndefinedValue(), logObj.Value())
		if err != nil {
			panic(err)
		}
		v, err := b.parse.Call(otto.UndefinedValue(), text, rv)
		if err != nil {
			return errTok(err)
		}
		ln := nodeOf(logObj.Value())
		var keys []string
		for _, e := range ln.arr {
			keys = append(keys, "k"+unitsHex(e.str))
		}
		n := nodeOf(v)
		var a, c strings.Builder
		n.tok(false, &a)
		n.tok(true, &c)
		lastRaw = a.String() + "|" + strings.Join(keys, ",")
		sort.Strings(keys)
		lastCanon = c.String() + "|" + strings.Join(keys, ",")
		raws[lastRaw], canons[lastCanon] = true, true
		if len(canons) > 1 {
			return "nondet"
		}
	}
	if len(raws) > 1 {
		return "unord:" + lastCanon
	}
	return "det:" + lastRaw
}

func implStr(b *vmBox, vt, rt, st string) string {
	args := []interface{}{buildValue(b, vt)}
	var repl otto.Value = otto.UndefinedValue()
	switch {
	case rt == "-":
	case rt[0] == 'f':
		n, _ := strconv.Atoi(rt[1:])
		repl = b.repl[n]
	case rt[0] == 'G':
		// the same list as a Go []interface{} handed over through the bridge
		var list []interface{}
		r := &reader{b: b, s: rt, i: 1}
		for idx := 0; r.s[r.i] != ']'; idx++ {
			switch r.s[r.i] {
			case 'Z':
				r.i++
				if idx%2 == 0 {
					list = append(list, true)
				} else {
					list = append(list, nil)
				}
			case 'D':
				r.i++
				list = append(list, r.f64())
			default:
				r.i++
				list = append(list, string(utf16.Decode(r.units())))
			}
		}
		gv, err := b.vm.ToValue(list)
		if err != nil {
			panic(err)
		}
		repl = gv
	case rt[0] == 'L':
		o, err := b.vm.Object(`[]`)
		if err != nil {
			panic(err)
		}
		r := &reader{b: b, s: rt, i: 1}
		for idx := 0; r.s[r.i] != ']'; idx++ {
			var it otto.Value
			if r.s[r.i] == 'Z' {
				r.i++
				switch idx % 3 {
				case 0:
					it = mk(true)
				case 1:
					it = otto.NullValue()
				default:
					ov, _ := b.vm.Object(`({})`)
					it = ov.Value()
				}
			} else {
				it = r.value()
			}
			if _, err := b.define.Call(otto.UndefinedValue(), o.Value(), strconv.Itoa(idx), it); err != nil {
				panic(err)
			}
		}
		repl = o.Value()
	}
	if rt != "-" || st != "-" {
		args = append(args, repl)
	}
	if st != "-" {
		if st == "Z" {
			args = append(args, mk(true))
		} else {
			args = append(args, buildValue(b, st))
		}
	}
	v, err := b.stringify.Call(otto.UndefinedValue(), args...)
	if err != nil {
		return errTok(err)
	}
	if v.IsUndefined() {
		return "undefined"
	}
	if !v.IsString() {
		return "notstring"
	}
	s, _ := v.ToString()
	return "s:" + h.UnitsHex(s)
}

// ---------------------------------------------------------------- generators

type gen struct {
	r     *h.Rng
	bd    []float64
	clean bool // no unpaired surrogates, no out-of-range number literals
}

var keyPool = [][]uint16{
	{'a'}, {'b'}, {'c'}, {}, {'k', '1'}, {'0'}, {'1'}, {'1', '0'}, {0xe9}, {'<'}, {0x2028}, {0xd83d, 0xde00}, {0xffff}, {'A'}, {'a', 'a'}, {' '}, {'"'}, {'\\'}, {0x7f}, {'z'},
}

func (g *gen) unit() []uint16 {
	r := g.r
	switch r.Intn(14) {
	case 0, 1, 2, 3:
		return []uint16{uint16(0x20 + r.Intn(0x5f))}
	case 4:
		return []uint16{uint16(r.Intn(0x20))}
	case 5:
		return [][]uint16{{'"'}, {'\\'}, {'/'}, {0x7f}, {'<'}, {'>'}, {'&'}, {'\''}}[r.Intn(8)]
	case 6:
		return []uint16{uint16(0x80 + r.Intn(0x80))}
	case 7:
		return [][]uint16{{0x2028}, {0x2029}, {0xfeff}, {0xfffd}, {0xffff}, {0xfffe}, {0xa0}, {0xd7ff}, {0xe000}}[r.Intn(9)]
	case 8:
		return []uint16{uint16(0x100 + r.Intn(0xd700))}
	case 9:
		return []uint16{uint16(0xe000 + r.Intn(0x2000))}
	case 10, 11:
		return []uint16{uint16(0xd800 + r.Intn(0x400)), uint16(0xdc00 + r.Intn(0x400))}
	case 12:
		if r.Chance(30) && !g.clean {
			return []uint16{uint16(0xd800 + r.Intn(0x800))}
		}
		return []uint16{'x'}
	default:
		return []uint16{uint16('a' + r.Intn(26))}
	}
}

func (g *gen) str() []uint16 {
	n := g.r.Intn(6)
	if g.r.Chance(10) {
		n = g.r.Intn(20)
	}
	var u []uint16
	for i := 0; i < n; i++ {
		u = append(u, g.unit()...)
	}
	return u
}

func (g *gen) double() float64 {
	r := g.r
	switch r.Intn(8) {
	case 0:
		return float64(r.Intn(2001) - 1000)
	case 1:
		return float64(r.Intn(2001)-1000) / []float64{2, 4, 10, 100, 1000, 3}[r.Intn(6)]
	case 2:
		// integers around and above 2^53
		return float64(int64(r.U64() >> uint(r.Intn(12))))
	case 3:
		return -float64(int64(r.U64() >> uint(1+r.Intn(12))))
	case 4:
		return []float64{1e21, 1e-6, 1e-7, 9.999999999999999e20, 1.0000000000000001e21, 9.99999e-7, 1e20, 123456789012345680000, 5e-324, math.MaxFloat64, 0.1, 1e300, 1e-300, 4611686018427387904, 9223372036854775808, -9223372036854775808, 9007199254740992, 9007199254740993, 1e15, 1e16, 1e17, 123456789.123}[r.Intn(22)]
	default:
		return h.RandomDouble(r, g.bd)
	}
}

// ---- JSON texts for JSON.parse

var numLits = []string{"0", "-0", "1", "-1", "10", "0.5", "-0.0", "1e2", "1E2", "1e+2", "1e-2", "1.5e3", "0e0", "0.0e-0", "1e999", "-1e999", "1e309", "1.7976931348623157e308", "1.7976931348623159e308", "1e308", "2e308", "1e-999", "5e-324", "2e-324", "3e-324", "123456789012345678901234567890", "0.1", "0.30000000000000004", "9007199254740993", "4.35", "1e400", "-1e400", "1e-400", "0.000001", "1e21", "100000000000000000000000", "1e0000000000001", "1e00400", "0.00000000000000000000000000000000000000000000000001e60", "179769313486231580793728971405303415079934132710037826936173778980444968292764750946649017977587207096330286416692887910946555547851940402630657488671505820681908902000708383676273854845817711531764475730270069855571366959622842914819860834936475292719074168444365510704342711559699508093042880177904174497791"}

func (g *gen) numLit() string {
	r := g.r
	if r.Chance(40) {
		l := numLits[r.Intn(len(numLits))]
		if _, err := strconv.ParseFloat(l, 64); err != nil && g.clean {
			return "1"
		}
		return l
	}
	f := g.double()
	if math.IsNaN(f) || math.IsInf(f, 0) {
		f = 7
	}
	switch r.Intn(4) {
	case 0:
		return strconv.FormatFloat(f, 'e', -1, 64)
	case 1:
		if math.Abs(f) < 1e25 && math.Abs(f) > 1e-10 || f == 0 {
			return strconv.FormatFloat(f, 'f', -1, 64)
		}
		return strconv.FormatFloat(f, 'E', -1, 64)
	case 2:
		return strconv.FormatFloat(f, 'E', r.Intn(20), 64)
	default:
		s := strconv.FormatFloat(f, 'g', -1, 64)
		return strings.Replace(s, "e+", "e", 1)
	}
}

func asciiUnits(s string) []uint16 {
	u := make([]uint16, len(s))
	for i := 0; i < len(s); i++ {
		u[i] = uint16(s[i])
	}
	return u
}

func (g *gen) ws() []uint16 {
	if g.r.Chance(70) {
		return nil
	}
	var u []uint16
	for i := g.r.Intn(3); i >= 0; i-- {
		u = append(u, []uint16{' ', '\t', '\n', '\r'}[g.r.Intn(4)])
	}
	return u
}

// strLit writes a string literal for the given code units with a random choice of escapes.
func (g *gen) strLit(u []uint16) []uint16 {
	r := g.r
	out := []uint16{'"'}
	simple := map[uint16]byte{'"': '"', '\\': '\\', '/': '/', 8: 'b', 12: 'f', 10: 'n', 13: 'r', 9: 't'}
	for _, c := range u {
		mustEsc := c < 0x20 || c == '"' || c == '\\'
		if e, ok := simple[c]; ok && (mustEsc && r.Chance(70) || !mustEsc && r.Chance(30)) {
			out = append(out, '\\', uint16(e))
		} else if mustEsc || (r.Chance(15) && !(g.clean && c >= 0xd800 && c < 0xe000)) {
			f := "\\u%04x"
			if r.Bool() {
				f = "\\u%04X"
			}
			out = append(out, asciiUnits(fmt.Sprintf(f, c))...)
		} else {
			out = append(out, c)
		}
	}
	return append(out, '"')
}

// arrayText is an array of 0..6 elements, some of them arrays or objects again.
func (g *gen) arrayText(depth int) []uint16 {
	r := g.r
	out := []uint16{'['}
	for i, n := 0, r.Intn(7); i < n; i++ {
		if i > 0 {
			out = append(out, ',')
		}
		switch {
		case depth > 0 && r.Chance(20):
			out = append(out, g.arrayText(depth-1)...)
		case depth > 0 && r.Chance(15):
			out = append(out, asciiUnits([]string{`{"a":1,"b":[1,2,3]}`, `{"b":2,"a":{"a":1,"b":2}}`, `{}`}[r.Intn(3)])...)
		default:
			out = append(out, asciiUnits([]string{"1", "2", "null", "true", `"s"`, "0.5"}[r.Intn(6)])...)
		}
	}
	return append(out, ']')
}

func (g *gen) jsonText(depth int) []uint16 {
	r := g.r
	var out []uint16
	out = append(out, g.ws()...)
	k := r.Intn(8)
	if depth <= 0 && k >= 6 {
		k = r.Intn(6)
	}
	switch k {
	case 0:
		out = append(out, asciiUnits([]string{"null", "true", "false"}[r.Intn(3)])...)
	case 1, 2:
		out = append(out, asciiUnits(g.numLit())...)
	case 3, 4, 5:
		out = append(out, g.strLit(g.str())...)
	case 6:
		out = append(out, '[')
		n := r.Intn(4)
		if n == 0 {
			out = append(out, g.ws()...)
		}
		for i := 0; i < n; i++ {
			if i > 0 {
				out = append(out, ',')
			}
			out = append(out, g.jsonText(depth-1)...)
		}
		out = append(out, ']')
	default:
		out = append(out, '{')
		n := r.Intn(5)
		if r.Chance(40) {
			n = r.Intn(2)
		}
		if n == 0 {
			out = append(out, g.ws()...)
		}
		for i := 0; i < n; i++ {
			if i > 0 {
				out = append(out, ',')
			}
			out = append(out, g.ws()...)
			key := keyPool[r.Intn(len(keyPool))]
			if r.Chance(15) && !g.clean {
				key = g.str()
			}
			out = append(out, g.strLit(key)...)
			out = append(out, g.ws()...)
			out = append(out, ':')
			out = append(out, g.jsonText(depth-1)...)
		}
		out = append(out, '}')
	}
	return append(out, g.ws()...)
}

var mutUnits = []uint16{',', ':', '[', ']', '{', '}', '"', '\\', ' ', '0', '1', 'e', 'E', '.', '-', '+', '\t', '\n', 0, 0x1f, 0x7f, 0xd800, 0xdc00, 0xfeff, 0x2028, '\'', '/', 'u', 'n', 't', 'f', 'a', 0xa0, 0x0b, 0x0c, '9', 'x', 'N', 'I'}

func (g *gen) mutate(t []uint16) []uint16 {
	r := g.r
	t = append([]uint16(nil), t...)
	if len(t) == 0 {
		return []uint16{mutUnits[r.Intn(len(mutUnits))]}
	}
	i := r.Intn(len(t))
	switch r.Intn(6) {
	case 0:
		return append(t[:i], t[i+1:]...)
	case 1:
		return append(t[:i], append([]uint16{mutUnits[r.Intn(len(mutUnits))]}, t[i:]...)...)
	case 2:
		t[i] = mutUnits[r.Intn(len(mutUnits))]
		return t
	case 3:
		return t[:i]
	case 4:
		j := r.Intn(len(t))
		t[i], t[j] = t[j], t[i]
		return t
	default:
		j := i + r.Intn(len(t)-i)
		return append(t[:j], append(append([]uint16(nil), t[i:j]...), t[j:]...)...)
	}
}

var parseFixed = []string{"", " ", "null", "nul", "nulll", "true", "tru", "false", "[", "]", "{", "}", "[]", "{}", "[,]", "[1,]", "[,1]", "{,}", `{"a":1,}`, `{"a"}`, `{"a":}`, `{a:1}`, `{'a':1}`, "01", "-", "-01", "1.", ".5", "+1", "1e", "1e+", "0x10", "1_0", "Infinity", "NaN", "-Infinity", "undefined", `"abc`, `"a\x41"`, `"\u12"`, `"\u12G4"`, `"\a"`, "\"a\tb\"", "\"a\nb\"", `"\ud800"`, `"\udc00\ud800"`, `"😀"`, `"\ud83d \ude00"`, `"\ud83dx"`, `"􏿿"`, "1", "1", " 1", "1 2", "[1 2]", `{"a":1 "b":2}`, `{"a":1,"a":2}`, `{"a":1,"b":2,"a":3}`, `{"b":1,"a":2}`, `{"":0}`, `{"__proto__":1}`, `[[[[[[[[[[[[[[[[1]]]]]]]]]]]]]]]]`, `/**/1`, `1//x`, "\v1", "\f1", "1 ", `" "`, "\" \"", `"\/"`, `"/"`, "\"\u007f\"", `[1,2,3]`, `{"a":[1,{"b":null}],"c":"d"}`, "-0", "-0.0", "0e5", "1E400", "-1E400", `[1e999]`, `{"a":1e999}`}

// ---- values for JSON.stringify

func f64Tok(f float64) string { return "D" + h.F64Hex(f) }

func (g *gen) svTok(depth, containers int, sb *strings.Builder) {
	r := g.r
	k := r.Intn(20)
	if depth <= 0 && k >= 12 {
		k = r.Intn(12)
	}
	switch k {
	case 0:
		sb.WriteString("N")
	case 1:
		sb.WriteString([]string{"T", "F"}[r.Intn(2)])
	case 2, 3, 4:
		sb.WriteString(f64Tok(g.double()))
	case 5, 6, 7:
		sb.WriteString("S" + unitsHex(g.str()) + ".")
	case 8:
		sb.WriteString("U")
	case 9:
		sb.WriteString("X")
	case 10:
		switch r.Intn(7) {
		case 4, 5, 6:
			sb.WriteString(g.wrapTok())
		case 0:
			sb.WriteString("BT")
		case 1:
			sb.WriteString("BF")
		case 2:
			sb.WriteString("B" + f64Tok(g.double()))
		default:
			sb.WriteString("BS" + unitsHex(g.str()) + ".")
		}
	case 11:
		if containers > 0 && r.Chance(50) {
			fmt.Fprintf(sb, "R%d.", r.Intn(containers))
		} else {
			sb.WriteString(f64Tok(float64(r.Intn(10))))
		}
	case 12:
		sb.WriteString("J")
		g.svTok(depth-1, containers, sb)
	case 13:
		if r.Chance(55) {
			g.protoTok(depth, containers, sb)
			return
		}
		fallthrough
	case 14, 15:
		sb.WriteString("A")
		for n := r.Intn(4); n > 0; n-- {
			g.svTok(depth-1, containers+1, sb)
		}
		sb.WriteString("]")
	default:
		sb.WriteString("O")
		n := r.Intn(5)
		if r.Chance(30) {
			n = r.Intn(2)
		}
		used := map[string]bool{}
		sortedOnly := r.Chance(35)
		last := -1
		for ; n > 0; n-- {
			ki := r.Intn(len(keyPool))
			if sortedOnly {
				// keys in ascending code point order: a, b, c, z
				order := []int{0, 1, 2, 19}
				last++
				if last >= len(order) {
					break
				}
				ki = order[last]
			}
			key := keyPool[ki]
			if !sortedOnly && r.Chance(8) {
				key = g.str()
				if !wellFormed(key) {
					key = keyPool[0]
				}
			}
			hk := unitsHex(key)
			if used[hk] || isProtoName(key) {
				continue
			}
			used[hk] = true
			sb.WriteString(hk + ".")
			if r.Chance(12) {
				// an accessor whose getter hides a sibling
				sb.WriteString("H" + unitsHex(keyPool[[]int{0, 1, 2, 19, 3}[r.Intn(5)]]) + ".")
			}
			g.svTok(depth-1, containers+1, sb)
		}
		sb.WriteString("}")
	}
}

// protoTok writes an object with a prototype: own, own non-enumerable and inherited members over a
// small key set, so that shadowing (own over inherited, non-enumerable own over inherited) and purely
// inherited names all occur.  Inherited members may be accessors (H).
func (g *gen) protoTok(depth, containers int, sb *strings.Builder) {
	r := g.r
	sb.WriteString([]string{"P", "Q"}[r.Intn(2)])
	keys := []int{0, 1, 2, 19, 5, 6} // a b c z 0 1
	usedOwn := map[int]bool{}
	for part := 0; part < 3; part++ {
		used := map[int]bool{}
		for n := r.Intn(4); n > 0; n-- {
			ki := keys[r.Intn(len(keys))]
			if used[ki] || (part == 1 && usedOwn[ki]) {
				continue
			}
			used[ki] = true
			if part == 0 {
				usedOwn[ki] = true
			}
			sb.WriteString(unitsHex(keyPool[ki]) + ".")
			if part != 1 && r.Chance(15) {
				sb.WriteString("H" + unitsHex(keyPool[keys[r.Intn(len(keys))]]) + ".")
			}
			g.svTok(depth-1, containers+1, sb)
		}
		sb.WriteString("}")
	}
}

func isProtoName(k []uint16) bool {
	switch string(utf16Runes(k)) {
	case "toJSON", "constructor", "toString", "valueOf", "hasOwnProperty", "isPrototypeOf", "propertyIsEnumerable", "toLocaleString", "__proto__":
		return true
	}
	return false
}

func utf16Runes(k []uint16) []rune {
	r := make([]rune, len(k))
	for i, c := range k {
		r[i] = rune(c)
	}
	return r
}

// methTok is a scripted valueOf / toString: inherited, an own non-callable property, or an own
// function returning a primitive.
func (g *gen) methTok() string {
	r := g.r
	switch r.Intn(6) {
	case 0, 1:
		return "i"
	case 2:
		return "n"
	}
	switch r.Intn(8) {
	case 0:
		return "rU"
	case 1:
		return "rN"
	case 2:
		return []string{"rT", "rF"}[r.Intn(2)]
	case 3, 4:
		return "r" + f64Tok([]float64{42, 3, 0, -1, 2.5, 11, math.Inf(1), math.NaN(), math.Copysign(0, -1), 1e21}[r.Intn(10)])
	default:
		return "rS" + unitsHex([][]uint16{asciiUnits("7"), asciiUnits("x"), asciiUnits(" 12 "), {}, asciiUnits("  "), asciiUnits("0x10"), asciiUnits("1e3"), asciiUnits("Infinity"), {0xe9, '<'}, asciiUnits("ab\tcd")}[r.Intn(10)]) + "."
	}
}

func (g *gen) wrapTok() string {
	if g.r.Bool() {
		return "W" + f64Tok([]float64{1, 0, 2.5, 7}[g.r.Intn(4)]) + g.methTok() + g.methTok()
	}
	return "WS" + unitsHex([][]uint16{{'a'}, {}, {' ', ' '}, asciiUnits("5")}[g.r.Intn(4)]) + "." + g.methTok() + g.methTok()
}

func (g *gen) replTok() string {
	r := g.r
	switch {
	case r.Chance(45):
		return "-"
	case r.Chance(50):
		return fmt.Sprintf("f%d", r.Intn(len(replSrc)))
	}
	var sb strings.Builder
	if r.Chance(25) {
		// a bridged Go slice as the replacer list
		sb.WriteString("G")
		for n := r.Intn(6); n > 0; n-- {
			switch r.Intn(8) {
			case 0:
				sb.WriteString("Z")
			case 1:
				sb.WriteString(f64Tok([]float64{0, 1, 10, 4.5, -1}[r.Intn(5)]))
			default:
				k := keyPool[r.Intn(len(keyPool))]
				if !wellFormed(k) {
					k = keyPool[0]
				}
				sb.WriteString("S" + unitsHex(k) + ".")
			}
		}
		sb.WriteString("]")
		return sb.String()
	}
	sb.WriteString("L")
	for n := r.Intn(6); n > 0; n-- {
		switch r.Intn(10) {
		case 0:
			sb.WriteString("Z")
		case 1:
			sb.WriteString(f64Tok([]float64{0, 1, 10, 4.5, -1, 1e21, math.NaN(), math.Inf(1), math.Copysign(0, -1), 1e-7}[r.Intn(10)]))
		case 2:
			sb.WriteString("B" + f64Tok(float64(r.Intn(3))))
		case 3:
			sb.WriteString("BS" + unitsHex(keyPool[r.Intn(len(keyPool))]) + ".")
		default:
			sb.WriteString("S" + unitsHex(keyPool[r.Intn(len(keyPool))]) + ".")
		}
	}
	sb.WriteString("]")
	return sb.String()
}

var spaceStrs = [][]uint16{{}, {' '}, {'\t'}, {' ', ' '}, {'a', 'b'}, asciiUnits("0123456789"), asciiUnits("0123456789a"), asciiUnits("            "), {0xe9, 0xe9, 0xe9, 0xe9, 0xe9}, {0xe9, 0xe9, 0xe9, 0xe9, 0xe9, 0xe9, 0xe9}, {' ', ' ', ' ', ' ', ' ', ' ', ' ', ' ', ' ', 0xe9}, {' ', ' ', ' ', ' ', ' ', ' ', ' ', ' ', ' ', ' ', 0xe9}, {0xd83d, 0xde00, 0xd83d, 0xde00, 0xd83d, 0xde00}, emoji(5), emoji(6), emoji(7), append([]uint16{' '}, emoji(5)...), append([]uint16{' ', ' '}, emoji(5)...), append(emoji(5), ' ', ' '), append([]uint16{' ', ' ', ' ', ' '}, emoji(4)...), append([]uint16{' ', ' ', ' '}, emoji(4)...), append(emoji(4), 0xe9, 0xe9, 0xe9), {0x4e2d, 0x4e2d, 0x4e2d, ' '}, {0xd800}, {'\n', ' '}, {0xa0}}

func emoji(n int) []uint16 {
	var u []uint16
	for i := 0; i < n; i++ {
		u = append(u, 0xd83d, uint16(0xde00+i))
	}
	return u
}

// gapStr is a random gap of 8..14 code units mixing white space, BMP and astral characters, so that the
// cut after 10 units falls before, inside and after surrogate pairs.
func (g *gen) gapStr() []uint16 {
	r := g.r
	var u []uint16
	for n := 8 + r.Intn(7); len(u) < n; {
		switch r.Intn(4) {
		case 0:
			u = append(u, ' ')
		case 1:
			u = append(u, []uint16{'\t', 0xe9, 0x4e2d, 'x'}[r.Intn(4)])
		default:
			u = append(u, 0xd83d, uint16(0xde00+r.Intn(64)))
		}
	}
	return u
}

func (g *gen) spaceTok() string {
	r := g.r
	if r.Chance(8) {
		return g.wrapTok()
	}
	switch r.Intn(10) {
	case 0, 1, 2, 3:
		return "-"
	case 4, 5:
		f := []float64{0, 1, 2, 2.9, 4, 10, 11, 10.5, -1, 0.5, math.NaN(), math.Inf(1), math.Inf(-1), 1e300, 9.5e18, -1e300, math.Copysign(0, -1)}[r.Intn(17)]
		if r.Chance(20) {
			return "B" + f64Tok(f)
		}
		return f64Tok(f)
	case 6, 7, 8:
		s := spaceStrs[r.Intn(len(spaceStrs))]
		if r.Chance(35) {
			s = g.gapStr()
		}
		if r.Chance(20) {
			return "BS" + unitsHex(s) + "."
		}
		return "S" + unitsHex(s) + "."
	default:
		return "Z"
	}
}

func genC11(c *h.Ctx) {
	g := &gen{r: c.Rng, bd: h.BoundaryDoubles()}
	tt := func(u []uint16) string { return "t:" + unitsHex(u) }
	for _, s := range parseFixed {
		c.Add("parse "+tt(goUnits(s)), "parse:fixed")
	}
	for _, u := range [][]uint16{{0xfeff, '1'}, {'1', 0xfeff}, {0xa0, '1'}, {'1', 0xa0}, {0x2028, '1'}, {'[', 0xfeff, ']'}, {'[', 0x3000, ']'}, {'[', 0x85, ']'}} {
		c.Add("parse "+tt(u), "parse:fixed")
	}
	for _, l := range numLits {
		c.Add("parse "+tt(asciiUnits(l)), "parse:number")
		c.Add("parse "+tt(asciiUnits("["+l+"]")), "parse:number")
	}
	for i := 0; i < c.N(9000, 600000); i++ {
		t := g.jsonText(4)
		c.Add("parse "+tt(t), "parse:valid")
		if i%2 == 0 {
			m := g.mutate(t)
			if g.r.Chance(20) {
				m = g.mutate(m)
			}
			c.Add("parse "+tt(m), "parse:mutated")
		}
	}
	gc := &gen{r: c.Rng, bd: g.bd, clean: true}
	for _, s := range []string{`[1,2,3,4]`, `[1,2,3]`, `[[1,2,3,4],[5,6,7]]`, `{"a":[1,2,3,4],"b":[1]}`, `[{"a":1,"b":2},[1,[2,3,4],3],4]`, `[1,2]`, `[1]`, `[]`, `{"1":[1,2,3],"0":2}`, `{"a":1,"b":2,"c":3}`, `{"a":1,"b":2}`, `{"b":1,"a":2}`, `{"c":0,"a":1,"d":{"a":[],"b":{"a":1,"b":2}},"b":2}`, `[{"a":1,"b":[1]},{"a":1}]`, `[1,2,3]`, `{"a":[1,"x",true],"b":{"c":3}}`, `{"c":1,"a":2,"b":3,"z":4}`, `[{"a":1,"b":2,"1":3}]`, `{"a":{"a":1,"b":"s","c":null}}`, `1`, `"s"`, `null`, `[]`, `{}`, `{"a":1,"a":2,"b":3}`, `[[1,[2]],{"x":[]}]`} {
		for id := range reviverSrc {
			c.Add(fmt.Sprintf("parse %s v%d", tt(goUnits(s)), id), "revive:fixed")
		}
	}
	for i := 0; i < c.N(2500, 120000); i++ {
		c.Add(fmt.Sprintf("parse %s v%d", tt(gc.jsonText(3)), c.Rng.Intn(len(reviverSrc))), "revive:random")
	}
	// arrays of 0..6 elements (nested) under the revivers that change the holder
	for i := 0; i < c.N(2500, 100000); i++ {
		c.Add(fmt.Sprintf("parse %s v%d", tt(gc.arrayText(2)), 7+c.Rng.Intn(len(reviverSrc)-7)), "revive:holder")
	}
	// runtimes whose Object.prototype intercepts [[Put]] of "a" and ""
	for _, s := range []string{`{"a":1}`, `{"a":1,"b":2}`, `{"b":{"a":[1,{"a":2}]}}`, `[{"a":1}]`, `{"":1,"c":2}`, `{"b":1}`, `[1,2]`, `1`, `{"a":1,"a":2,"b":3}`} {
		for _, e := range []string{"e1", "e2"} {
			c.Add("parse "+tt(goUnits(s))+" "+e, "env:fixed")
			for id := range reviverSrc {
				c.Add(fmt.Sprintf("parse %s v%d %s", tt(goUnits(s)), id, e), "env:fixed")
			}
		}
	}
	for i := 0; i < c.N(1200, 60000); i++ {
		e := []string{"e1", "e2"}[c.Rng.Intn(2)]
		switch c.Rng.Intn(3) {
		case 0:
			c.Add("parse "+tt(gc.jsonText(3))+" "+e, "env:parse")
		case 1:
			c.Add(fmt.Sprintf("parse %s v%d %s", tt(gc.jsonText(3)), c.Rng.Intn(len(reviverSrc)), e), "env:revive")
		default:
			var sb strings.Builder
			g.svTok(3, 0, &sb)
			rt := "-"
			if c.Rng.Chance(40) {
				rt = fmt.Sprintf("f%d", c.Rng.Intn(len(replSrc)))
			}
			if rt == "f4" && strings.Contains(sb.String(), "H") {
				rt = "f0"
			}
			c.Add("str "+sb.String()+" "+rt+" "+g.spaceTok()+" "+e, "env:str")
		}
	}
	// toJSON on the wrapper prototypes (e3 method, e4 logging getter) and on Object.prototype (e5):
	// primitives of every kind, wrapper objects, plain objects, arrays, functions, own toJSON
	for _, e := range []string{"e3", "e4", "e5"} {
		for _, v := range []string{"S0061.", "D3ff0000000000000", "T", "F", "N", "U", "X", "BS0061.", "BD3ff0000000000000", "BT", "AS0061.D4000000000000000TNU]", "O006b.S0062.006e.D4000000000000000}", "AS0061.O006b.S0062.}]", "ABS0061.BD4000000000000000BFO0061.BT}]", "JS0078.", "JBS0078.", "AJABS0079.]]", "WD3ff0000000000000rD4045000000000000i", "O0061.H0062.BD3ff00000000000000062.T}", "A]", "O}"} {
			c.Add("str "+v+" - - "+e, "tojson:fixed")
			c.Add("str "+v+" - D4000000000000000 "+e, "tojson:fixed")
		}
	}
	for i := 0; i < c.N(1500, 60000); i++ {
		var sb strings.Builder
		g.svTok(3, 0, &sb)
		e := []string{"e3", "e4", "e5"}[c.Rng.Intn(3)]
		if e == "e5" && strings.Contains(sb.String(), "JJ") {
			// an object whose own toJSON is NOT called is serialised as {toJSON: function}; under e5 that
			// function inherits Object.prototype.toJSON — the tree model has no such member
			e = "e3"
		}
		c.Add("str "+sb.String()+" - "+g.spaceTok()+" "+e, "tojson:random")
	}
	// objects with prototype chains, with and without property lists naming inherited, shadowed,
	// non-enumerable, missing, duplicate and numeric names
	for _, v := range []string{"P0062.D4000000000000000}}0061.D3ff0000000000000}", "Q0062.D4000000000000000}}0061.D3ff0000000000000}", "P0061.T}}0061.F0062.N}", "P}0061.D3ff0000000000000}0061.D4000000000000000}", "P}}0061.H0062.S0067.0030.D4008000000000000}", "AP}}0061.H0061.D3ff0000000000000}Q0063.N}0062.T}0062.F}]", "P0061.P}}0062.D3ff0000000000000}}}0062.D4000000000000000}", "Q}}}", "P0031.T}0030.F}00310030.N}"} {
		for _, rt := range []string{"-", "LS0061.S0062.]", "LS0062.S0061.S0061.S007a.]", "LD3ff0000000000000D0000000000000000S00310030.]", "GS0061.S0062.S0063.]", "L]", "f0", "f1"} {
			c.Add("str "+v+" "+rt+" -", "str:proto")
			c.Add("str "+v+" "+rt+" D3ff0000000000000", "str:proto")
		}
	}
	for i := 0; i < c.N(1500, 60000); i++ {
		var sb strings.Builder
		g.protoTok(3, 0, &sb)
		rt := g.replTok()
		if rt == "f4" && strings.Contains(sb.String(), "H") {
			rt = "f0"
		}
		c.Add("str "+sb.String()+" "+rt+" "+g.spaceTok(), "str:proto")
	}
	// getters that make a sibling non-enumerable while the object is serialised
	for _, v := range []string{"O0061.H0062.D3ff00000000000000062.D4000000000000000}", "O0062.D40000000000000000061.H0062.D3ff0000000000000}", "O0061.H0063.AT]0062.N0063.S0078.}", "AH0062.NT]", "O0061.O0061.H0062.N0062.T}0062.F}", "O0061.H0061.N}"} {
		for _, rt := range []string{"-", "f0", "LS0062.S0061.]", "f1"} {
			c.Add("str "+v+" "+rt+" -", "str:getter")
			c.Add("str "+v+" "+rt+" D4000000000000000", "str:getter")
		}
	}
	// scripted wrappers in every value position and as the space argument
	for i := 0; i < c.N(600, 20000); i++ {
		w := g.wrapTok()
		for _, f := range []string{"%s", "A%s]", "O0061.%s}", "J%s", "AO0062.A%s]}]"} {
			c.Add("str "+fmt.Sprintf(f, w)+" - -", "str:wrapper")
		}
		c.Add("str "+w+" f0 -", "str:wrapper")
		c.Add("str AD3ff0000000000000] - "+w, "str:wrapper")
	}
	// the cut of a string gap after 10 code units: before, inside and after surrogate pairs, as a
	// primitive and as a String object
	for _, s := range spaceStrs {
		for _, v := range []string{"AD3ff0000000000000]", "O0061.AN]}"} {
			c.Add("str "+v+" - S"+unitsHex(s)+".", "str:gap")
			c.Add("str "+v+" - BS"+unitsHex(s)+".", "str:gap")
		}
	}
	for i := 0; i < c.N(300, 5000); i++ {
		c.Add("str AD3ff0000000000000AT]] - S"+unitsHex(g.gapStr())+".", "str:gap")
	}
	// every single code unit class inside a string, raw and escaped
	for _, u := range []uint16{0, 1, 8, 9, 10, 12, 13, 0x1f, 0x20, '"', '\\', '/', 0x7f, 0x80, 0xa0, 0xff, 0x2028, 0x2029, 0xd7ff, 0xd800, 0xdbff, 0xdc00, 0xdfff, 0xe000, 0xfeff, 0xfffd, 0xfffe, 0xffff} {
		c.Add("parse "+tt([]uint16{'"', u, '"'}), "parse:unit")
		c.Add("parse "+tt(asciiUnits(fmt.Sprintf(`"\u%04x"`, u))), "parse:unit")
		c.Add(fmt.Sprintf("str S%04x. - -", u), "str:unit")
		c.Add(fmt.Sprintf("str O%04x.N} - -", u), "str:unit")
	}
	for _, f := range g.bd {
		c.Add("str "+f64Tok(f)+" - -", "str:number")
	}
	for i := 0; i < c.N(14000, 900000); i++ {
		var sb strings.Builder
		g.svTok(4, 0, &sb)
		rt := g.replTok()
		if rt == "f4" && strings.Contains(sb.String(), "H") {
			// f4 serialises the value twice; what a getter did the first time would still be in force
			rt = "f0"
		}
		c.Add("str "+sb.String()+" "+rt+" "+g.spaceTok(), "str:random")
	}
}
