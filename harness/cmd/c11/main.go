package main

import "ottoverif/h"

func main() { h.Main("C11") }
