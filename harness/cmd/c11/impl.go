package main

import (
	"fmt"
	"sort"
	"strconv"
	"strings"
	"sync"
	"unicode/utf16"

	"github.com/robertkrimen/otto"
	"ottoverif/h"
)

// ---------------------------------------------------------------- a VM per worker

type vmBox struct {
	vm        *otto.Otto
	stringify otto.Value
	parse     otto.Value
	mkToJSON  otto.Value
	define    otto.Value
	constFn   otto.Value
	takeLog   otto.Value
	create    otto.Value
	createNew otto.Value
	defineNE  otto.Value
	defGetter otto.Value
	objectFn  otto.Value
	fn        otto.Value
	repl      map[int]otto.Value
	reviver   map[int]otto.Value
}

// The replacer function family (the Lean driver holds the same table, Driver.replFn).
var replSrc = []string{
	`(function(k,v){return v})`,
	`(function(k,v){return k==="a"?undefined:v})`,
	`(function(k,v){return typeof v==="number"?undefined:v})`,
	`(function(k,v){return typeof v==="string"?null:v})`,
	`(function(k,v){return k===""?[v,v]:v})`,
	`(function(k,v){return (k!==""&&typeof v==="object")?null:v})`,
	`(function(k,v){return typeof v==="boolean"?function(){}:v})`,
	`(function(k,v){return typeof v==="number"?k:v})`,
}

// Three kinds of runtime: 0 = pristine; 1 = Object.prototype has a setter (no getter) named "a" and "";
// 2 = Object.prototype has a read-only data property 7 named "a" and "".
var envSrc = []string{
	``,
	`Object.defineProperty(Object.prototype,"a",{set:function(v){},configurable:true});Object.defineProperty(Object.prototype,"",{set:function(v){},configurable:true});`,
	`Object.defineProperty(Object.prototype,"a",{value:7,writable:false,configurable:true});Object.defineProperty(Object.prototype,"",{value:7,writable:false,configurable:true});`,
	// 3: a toJSON method on String.prototype, Number.prototype and Boolean.prototype
	`var __log=[];(function(){function mk(t){return function(k){__log.push(t+":"+k);return "h"+t+":"+k}}` +
		`String.prototype.toJSON=mk("S");Number.prototype.toJSON=mk("N");Boolean.prototype.toJSON=mk("B")})();`,
	// 4: the same functions behind logging getters
	`var __log=[];(function(){function mk(t){return function(k){__log.push(t+":"+k);return "h"+t+":"+k}}` +
		`function g(p,t){var f=mk(t);Object.defineProperty(p,"toJSON",{get:function(){__log.push("g"+t);return f},configurable:true})}` +
		`g(String.prototype,"S");g(Number.prototype,"N");g(Boolean.prototype,"B")})();`,
	// 5: a toJSON method on Object.prototype
	`var __log=[];Object.defineProperty(Object.prototype,"toJSON",{value:function(k){__log.push("O:"+k);return "hO:"+k},writable:true,configurable:true,enumerable:false});`,
}

var vmPools = [6]sync.Pool{{New: func() interface{} { return newBox(0) }}, {New: func() interface{} { return newBox(1) }}, {New: func() interface{} { return newBox(2) }}, {New: func() interface{} { return newBox(3) }}, {New: func() interface{} { return newBox(4) }}, {New: func() interface{} { return newBox(5) }}}

func newBox(env int) *vmBox {
	vm := otto.New()
	b := &vmBox{vm: vm, repl: map[int]otto.Value{}, reviver: map[int]otto.Value{}}
	must := func(src string) otto.Value {
		v, err := vm.Run(src)
		if err != nil {
			panic(err)
		}
		return v
	}
	b.stringify = must(`JSON.stringify`)
	b.parse = must(`JSON.parse`)
	b.mkToJSON = must(`(function(r){return {toJSON:function(){return r}}})`)
	b.objectFn = must(`Object`)
	b.fn = must(`(function(){})`)
	for i, s := range replSrc {
		b.repl[i] = must(s)
	}
	for i, s := range reviverSrc {
		b.reviver[i] = must(s)
	}
	b.defGetter = must(`(function(o,k,h,v){Object.defineProperty(o,k,{get:function(){if(Object.prototype.hasOwnProperty.call(this,h)){Object.defineProperty(this,h,{enumerable:false})};return v},enumerable:true,configurable:true})})`)
	b.create = must(`(function(p){return Object.create(p)})`)
	b.createNew = must(`(function(p){function C(){};C.prototype=p;return new C()})`)
	b.defineNE = must(`(function(o,k,v){Object.defineProperty(o,k,{value:v,writable:true,enumerable:false,configurable:true})})`)
	b.constFn = must(`(function(p){return function(){return p}})`)
	b.define = must(`(function(o,k,v){Object.defineProperty(o,k,{value:v,writable:true,enumerable:true,configurable:true})})`)
	if envSrc[env] != "" {
		must(envSrc[env])
	}
	if env >= 3 {
		b.takeLog = must(`(function(){var l=__log.slice();__log.length=0;return l})`)
	}
	return b
}

// ---------------------------------------------------------------- strings

func wellFormed(u []uint16) bool {
	for i := 0; i < len(u); i++ {
		c := u[i]
		if c >= 0xD800 && c < 0xDC00 {
			if i+1 < len(u) && u[i+1] >= 0xDC00 && u[i+1] < 0xE000 {
				i++
				continue
			}
			return false
		}
		if c >= 0xDC00 && c < 0xE000 {
			return false
		}
	}
	return true
}

// strVal makes a JavaScript string with exactly these code units.
func strVal(u []uint16) otto.Value {
	var v otto.Value
	var err error
	if wellFormed(u) {
		v, err = otto.ToValue(string(utf16.Decode(u)))
	} else {
		v, err = otto.ToValue(append([]uint16(nil), u...))
	}
	if err != nil {
		panic(err)
	}
	return v
}

func unitsOf(hexs string) []uint16 {
	if len(hexs)%4 != 0 {
		panic("bad units " + hexs)
	}
	u := make([]uint16, len(hexs)/4)
	for i := range u {
		n, err := strconv.ParseUint(hexs[4*i:4*i+4], 16, 16)
		if err != nil {
			panic(err)
		}
		u[i] = uint16(n)
	}
	return u
}

func unitsHex(u []uint16) string {
	var b strings.Builder
	for _, c := range u {
		fmt.Fprintf(&b, "%04x", c)
	}
	return b.String()
}

func isHex(c byte) bool { return (c >= '0' && c <= '9') || (c >= 'a' && c <= 'f') }

// ---------------------------------------------------------------- value tokens -> otto values

type reader struct {
	b     *vmBox
	s     string
	i     int
	stack []otto.Value
	hide  *string // set by an H token: the next def creates an accessor that hides this sibling
}

func (r *reader) units() []uint16 {
	j := r.i
	for j < len(r.s) && isHex(r.s[j]) {
		j++
	}
	if j >= len(r.s) || r.s[j] != '.' {
		panic("bad units in " + r.s)
	}
	u := unitsOf(r.s[r.i:j])
	r.i = j + 1
	return u
}

func (r *reader) f64() float64 {
	f := h.HexF64(r.s[r.i : r.i+16])
	r.i += 16
	return f
}

func mk(x interface{}) otto.Value {
	v, err := otto.ToValue(x)
	if err != nil {
		panic(err)
	}
	return v
}

func (r *reader) box(p otto.Value) otto.Value {
	v, err := r.b.objectFn.Call(otto.UndefinedValue(), p)
	if err != nil {
		panic(err)
	}
	return v
}

// def creates an own data property with [[DefineOwnProperty]] (o.Set would be [[Put]], which an
// inherited accessor or read-only property intercepts).
func (r *reader) def(o *otto.Object, k string, v otto.Value) {
	if r.hide != nil {
		h := *r.hide
		r.hide = nil
		if _, err := r.b.defGetter.Call(otto.UndefinedValue(), o.Value(), k, h, v); err != nil {
			panic(err)
		}
		return
	}
	if _, err := r.b.define.Call(otto.UndefinedValue(), o.Value(), k, v); err != nil {
		panic(err)
	}
}

func (r *reader) value() otto.Value {
	c := r.s[r.i]
	r.i++
	switch c {
	case 'U':
		return otto.UndefinedValue()
	case 'N':
		return otto.NullValue()
	case 'T':
		return mk(true)
	case 'F':
		return mk(false)
	case 'X':
		return r.b.fn
	case 'D':
		return mk(r.f64())
	case 'S':
		return strVal(r.units())
	case 'B':
		k := r.s[r.i]
		r.i++
		switch k {
		case 'T':
			return r.box(mk(true))
		case 'F':
			return r.box(mk(false))
		case 'D':
			return r.box(mk(r.f64()))
		case 'S':
			return r.box(strVal(r.units()))
		}
	case 'W':
		// a Number / String object with scripted valueOf and toString
		k := r.s[r.i]
		r.i++
		var w otto.Value
		if k == 'D' {
			w = r.box(mk(r.f64()))
		} else {
			w = r.box(strVal(r.units()))
		}
		for _, name := range []string{"valueOf", "toString"} {
			m := r.s[r.i]
			r.i++
			switch m {
			case 'i':
			case 'n':
				r.def(w.Object(), name, otto.NullValue())
			case 'r':
				fn, err := r.b.constFn.Call(otto.UndefinedValue(), r.value())
				if err != nil {
					panic(err)
				}
				r.def(w.Object(), name, fn)
			}
		}
		return w
	case 'H':
		h := string(utf16.Decode(r.units()))
		inner := r.value()
		r.hide = &h
		return inner
	case 'J':
		inner := r.value()
		v, err := r.b.mkToJSON.Call(otto.UndefinedValue(), inner)
		if err != nil {
			panic(err)
		}
		return v
	case 'R':
		j := strings.IndexByte(r.s[r.i:], '.')
		n, err := strconv.Atoi(r.s[r.i : r.i+j])
		if err != nil {
			panic(err)
		}
		r.i += j + 1
		return r.stack[len(r.stack)-1-n]
	case 'A':
		o, err := r.b.vm.Object(`[]`)
		if err != nil {
			panic(err)
		}
		r.stack = append(r.stack, o.Value())
		for idx := 0; r.s[r.i] != ']'; idx++ {
			r.def(o, strconv.Itoa(idx), r.value())
		}
		r.i++
		r.stack = r.stack[:len(r.stack)-1]
		return o.Value()
	case 'P', 'Q':
		// an object with a prototype: own members, own non-enumerable members, inherited members
		proto, err := r.b.vm.Object(`({})`)
		if err != nil {
			panic(err)
		}
		mkFn := r.b.create
		if c == 'Q' {
			mkFn = r.b.createNew
		}
		ov, err := mkFn.Call(otto.UndefinedValue(), proto.Value())
		if err != nil {
			panic(err)
		}
		o := ov.Object()
		r.stack = append(r.stack, ov)
		for part := 0; part < 3; part++ {
			for r.s[r.i] != '}' {
				k := string(utf16.Decode(r.units()))
				v := r.value()
				switch {
				case part == 2:
					r.def(proto, k, v)
				case part == 1 && r.hide == nil:
					if _, err := r.b.defineNE.Call(otto.UndefinedValue(), ov, k, v); err != nil {
						panic(err)
					}
				default:
					r.def(o, k, v)
				}
			}
			r.i++
		}
		r.stack = r.stack[:len(r.stack)-1]
		return ov
	case 'O':
		o, err := r.b.vm.Object(`({})`)
		if err != nil {
			panic(err)
		}
		r.stack = append(r.stack, o.Value())
		for r.s[r.i] != '}' {
			k := string(utf16.Decode(r.units()))
			r.def(o, k, r.value())
		}
		r.i++
		r.stack = r.stack[:len(r.stack)-1]
		return o.Value()
	}
	panic("bad value token " + r.s)
}

func buildValue(b *vmBox, tok string) otto.Value {
	r := &reader{b: b, s: tok}
	v := r.value()
	if r.i != len(tok) {
		panic("trailing input in value token " + tok)
	}
	return v
}

// ---------------------------------------------------------------- otto values -> tokens

type jnode struct {
	kind byte // N T F D S A O
	num  float64
	str  []uint16
	arr  []*jnode
	keys [][]uint16
	vals []*jnode
}

func goUnits(s string) []uint16 { return utf16.Encode([]rune(s)) }

func nodeOf(v otto.Value) *jnode {
	switch {
	case v.IsNull():
		return &jnode{kind: 'N'}
	case v.IsUndefined():
		return &jnode{kind: 'U'}
	case v.IsBoolean():
		b, _ := v.ToBoolean()
		if b {
			return &jnode{kind: 'T'}
		}
		return &jnode{kind: 'F'}
	case v.IsNumber():
		f, _ := v.ToFloat()
		return &jnode{kind: 'D', num: f}
	case v.IsString():
		s, _ := v.ToString()
		return &jnode{kind: 'S', str: goUnits(s)}
	case v.IsFunction():
		return &jnode{kind: 'X'}
	case v.IsObject():
		o := v.Object()
		if o.Class() == "Array" {
			lv, _ := o.Get("length")
			n, _ := lv.ToInteger()
			nd := &jnode{kind: 'A'}
			for i := int64(0); i < n; i++ {
				ev, err := o.Get(strconv.FormatInt(i, 10))
				if err != nil {
					panic(err)
				}
				nd.arr = append(nd.arr, nodeOf(ev))
			}
			return nd
		}
		nd := &jnode{kind: 'O'}
		for _, k := range o.Keys() {
			ev, err := o.Get(k)
			if err != nil {
				panic(err)
			}
			nd.keys = append(nd.keys, goUnits(k))
			nd.vals = append(nd.vals, nodeOf(ev))
		}
		return nd
	}
	panic("unrenderable value")
}

func lessUnits(a, b []uint16) bool {
	for i := 0; i < len(a) && i < len(b); i++ {
		if a[i] != b[i] {
			return a[i] < b[i]
		}
	}
	return len(a) < len(b)
}

func (n *jnode) tok(sorted bool, sb *strings.Builder) {
	switch n.kind {
	case 'D':
		sb.WriteString("D" + h.F64Hex(n.num))
	case 'S':
		sb.WriteString("S" + unitsHex(n.str) + ".")
	case 'A':
		sb.WriteByte('A')
		for _, e := range n.arr {
			e.tok(sorted, sb)
		}
		sb.WriteByte(']')
	case 'O':
		idx := make([]int, len(n.keys))
		for i := range idx {
			idx[i] = i
		}
		if sorted {
			sort.SliceStable(idx, func(a, b int) bool { return lessUnits(n.keys[idx[a]], n.keys[idx[b]]) })
		}
		sb.WriteByte('O')
		for _, i := range idx {
			sb.WriteString(unitsHex(n.keys[i]) + ".")
			n.vals[i].tok(sorted, sb)
		}
		sb.WriteByte('}')
	default:
		sb.WriteByte(n.kind)
	}
}

func (n *jnode) multiKey() bool {
	switch n.kind {
	case 'A':
		for _, e := range n.arr {
			if e.multiKey() {
				return true
			}
		}
	case 'O':
		if len(n.keys) >= 2 {
			return true
		}
		for _, e := range n.vals {
			if e.multiKey() {
				return true
			}
		}
	}
	return false
}

func errTok(err error) string {
	if oe, ok := err.(*otto.Error); ok {
		m := oe.Error()
		if i := strings.IndexByte(m, ':'); i > 0 {
			return "throw:" + m[:i]
		}
		return "throw:" + h.Sanitize(m)
	}
	return "goerror:" + h.Sanitize(err.Error())
}
