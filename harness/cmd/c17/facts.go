package main

import (
	"fmt"
	"go/ast"
	"go/parser"
	goprinter "go/printer"
	"go/token"
	"os"
	"path/filepath"
	"sort"
	"strings"
)

// writeFacts extracts, from /repo's current sources (go/ast), which fields of every struct on the
// clone path are set from a cloner call / fresh container, and which payload types objectClone
// handles, and writes them as a Lean data file (theorems over it are closed by `decide`).

type structInfo struct {
	fields []fieldInfo
}
type fieldInfo struct {
	name, typ string
	kind      string // ptr | container | iface | struct:<name> | plain
}

var mutablePointees = map[string]bool{"object": true, "runtime": true, "dclStash": true, "fnStash": true, "objectStash": true, "scope": true, "Otto": true}

func exprString(fset *token.FileSet, e ast.Node) string {
	var b strings.Builder
	goprinter.Fprint(&b, fset, e)
	return strings.Join(strings.Fields(b.String()), " ")
}

func typeKind(t ast.Expr) string {
	switch x := t.(type) {
	case *ast.StarExpr:
		if id, ok := x.X.(*ast.Ident); ok && mutablePointees[id.Name] {
			return "ptr"
		}
		return "plain" // *objectClass, *nodeFunctionLiteral, *regexp.Regexp, *file.File: never written through after creation
	case *ast.Ident:
		if x.Name == "stasher" {
			return "ptr"
		}
		return "named:" + x.Name
	case *ast.MapType, *ast.ArrayType, *ast.ChanType:
		return "container"
	case *ast.InterfaceType:
		return "iface"
	}
	return "plain"
}

func writeFacts(repo, out string) error {
	fset := token.NewFileSet()
	files, _ := filepath.Glob(filepath.Join(repo, "*.go"))
	sort.Strings(files)
	structs := map[string]*structInfo{}
	var parsed []*ast.File
	for _, fn := range files {
		if strings.HasSuffix(fn, "_test.go") || strings.HasPrefix(filepath.Base(fn), "verif_") {
			continue
		}
		f, err := parser.ParseFile(fset, fn, nil, 0)
		if err != nil {
			return err
		}
		parsed = append(parsed, f)
		ast.Inspect(f, func(n ast.Node) bool {
			ts, ok := n.(*ast.TypeSpec)
			if !ok {
				return true
			}
			st, ok := ts.Type.(*ast.StructType)
			if !ok {
				return true
			}
			si := &structInfo{}
			for _, fl := range st.Fields.List {
				names := fl.Names
				if len(names) == 0 { // embedded
					names = []*ast.Ident{{Name: exprString(fset, fl.Type)}}
				}
				for _, nm := range names {
					si.fields = append(si.fields, fieldInfo{name: nm.Name, typ: exprString(fset, fl.Type), kind: typeKind(fl.Type)})
				}
			}
			structs[ts.Name.Name] = si
			return true
		})
	}
	// does a struct bear a mutable reference (transitively through by-value struct fields)?
	var bears func(name string, seen map[string]bool) bool
	bears = func(name string, seen map[string]bool) bool {
		si, ok := structs[name]
		if !ok || seen[name] {
			return false
		}
		seen[name] = true
		for _, f := range si.fields {
			switch {
			case f.kind == "ptr" || f.kind == "container" || f.kind == "iface":
				return true
			case strings.HasPrefix(f.kind, "named:"):
				if bears(strings.TrimPrefix(f.kind, "named:"), seen) {
					return true
				}
			}
		}
		return false
	}
	mutableField := func(f fieldInfo) bool {
		if f.kind == "ptr" || f.kind == "container" || f.kind == "iface" {
			return true
		}
		if strings.HasPrefix(f.kind, "named:") {
			return bears(strings.TrimPrefix(f.kind, "named:"), map[string]bool{})
		}
		return false
	}

	// ---- clone sites
	funcs := map[string]*ast.FuncDecl{}
	for _, f := range parsed {
		for _, d := range f.Decls {
			fd, ok := d.(*ast.FuncDecl)
			if !ok {
				continue
			}
			name := fd.Name.Name
			if fd.Recv != nil && len(fd.Recv.List) == 1 {
				name = strings.TrimPrefix(exprString(fset, fd.Recv.List[0].Type), "*") + "." + name
			}
			funcs[name] = fd
		}
	}
	clonerVars := map[string]bool{"c": true, "clone": true, "cloner": true}
	// locals that hold fresh things: assigned from make(...), a composite literal, a cloner call or x.clone(c)
	var isFresh func(e ast.Expr, fresh map[string]bool) bool
	isFresh = func(e ast.Expr, fresh map[string]bool) bool {
		found := false
		ast.Inspect(e, func(n ast.Node) bool {
			switch x := n.(type) {
			case *ast.CallExpr:
				if id, ok := x.Fun.(*ast.Ident); ok && id.Name == "make" {
					found = true
				}
				if sel, ok := x.Fun.(*ast.SelectorExpr); ok {
					if id, ok := sel.X.(*ast.Ident); ok && clonerVars[id.Name] {
						found = true
					}
					if sel.Sel.Name == "clone" || sel.Sel.Name == "newObjectStash" {
						found = true
					}
				}
			case *ast.SelectorExpr:
				if id, ok := x.X.(*ast.Ident); ok && clonerVars[id.Name] && x.Sel.Name == "runtime" {
					found = true
				}
			case *ast.Ident:
				if fresh[x.Name] {
					found = true
				}
			case *ast.CompositeLit:
				if len(x.Elts) == 0 {
					found = true
				}
			}
			return !found
		})
		return found
	}
	type fieldFact struct {
		site, strct, field, typ string
		mutable                 bool
		how                     string
	}
	var facts []fieldFact
	type payloadCase struct {
		typ     string
		mutable bool
		fresh   bool
	}
	var cases []payloadCase

	site := func(fname, strct, outVar string) {
		fd, ok := funcs[fname]
		if !ok {
			facts = append(facts, fieldFact{fname, strct, "<function missing>", "", true, "unset"})
			return
		}
		si := structs[strct]
		how := map[string]string{}
		fresh := map[string]bool{}
		dflt := "unset"
		ast.Inspect(fd.Body, func(n ast.Node) bool {
			switch x := n.(type) {
			case *ast.AssignStmt:
				for i, lhs := range x.Lhs {
					if i >= len(x.Rhs) {
						break
					}
					rhs := x.Rhs[i]
					if id, ok := lhs.(*ast.Ident); ok && isFresh(rhs, fresh) {
						fresh[id.Name] = true
					}
					// a copy of the whole struct – `out := *o`, `out := in`, `*out = *in`: every field not set
					// afterwards is carried over by value (shared)
					if outVar != "" {
						lhsIsOut := false
						if id, ok := lhs.(*ast.Ident); ok && id.Name == outVar {
							lhsIsOut = true
						}
						if st, ok := lhs.(*ast.StarExpr); ok {
							if id, ok := st.X.(*ast.Ident); ok && id.Name == outVar {
								lhsIsOut = true
							}
						}
						if lhsIsOut {
							switch r := rhs.(type) {
							case *ast.Ident:
								if r.Name != "nil" {
									dflt = "shared"
								}
							case *ast.StarExpr:
								if _, ok := r.X.(*ast.Ident); ok {
									dflt = "shared"
								}
							}
						}
					}
					if sel, ok := lhs.(*ast.SelectorExpr); ok {
						if id, ok := sel.X.(*ast.Ident); ok && id.Name == outVar && outVar != "" {
							if strct == "object" && sel.Sel.Name == "value" {
								how["value"] = "payload" // decided per payload type: see payloadCases
								continue
							}
							if isFresh(rhs, fresh) {
								how[sel.Sel.Name] = "fresh"
							} else if how[sel.Sel.Name] == "" {
								how[sel.Sel.Name] = "shared"
							}
						}
					}
				}
			case *ast.CompositeLit:
				if id, ok := x.Type.(*ast.Ident); ok && id.Name == strct && len(x.Elts) > 0 {
					for i, el := range x.Elts {
						var fname string
						var val ast.Expr
						if kv, ok := el.(*ast.KeyValueExpr); ok {
							fname = exprString(fset, kv.Key)
							val = kv.Value
						} else if i < len(si.fields) {
							fname = si.fields[i].name
							val = el
						}
						if isFresh(val, fresh) {
							how[fname] = "fresh"
						} else {
							how[fname] = "shared"
						}
					}
				}
			}
			return true
		})
		for _, f := range si.fields {
			h := how[f.name]
			if h == "" {
				h = dflt
			}
			facts = append(facts, fieldFact{fname, strct, f.name, f.typ, mutableField(f), h})
		}
	}
	site("objectClone", "object", "out")
	site("objectClone", "bindFunctionObject", "")
	site("objectClone", "nodeFunctionObject", "")
	site("argumentsObject.clone", "argumentsObject", "")
	site("objectStash.clone", "objectStash", "")
	site("dclStash.clone", "dclStash", "")
	site("fnStash.clone", "fnStash", "")
	site("cloner.property", "property", "out")
	site("cloner.dclProperty", "dclProperty", "out")
	site("cloner.value", "Value", "out")
	site("runtime.clone", "runtime", "out")
	site("Otto.Copy", "Otto", "out")

	// payload cases of objectClone: switch value := in.value.(type)
	if fd, ok := funcs["objectClone"]; ok {
		ast.Inspect(fd.Body, func(n ast.Node) bool {
			ts, ok := n.(*ast.TypeSwitchStmt)
			if !ok {
				return true
			}
			for _, cc := range ts.Body.List {
				c := cc.(*ast.CaseClause)
				for _, t := range c.List {
					tn := exprString(fset, t)
					fr := false
					for _, st := range c.Body {
						if as, ok := st.(*ast.AssignStmt); ok && len(as.Rhs) == 1 && isFresh(as.Rhs[0], map[string]bool{}) {
							fr = true
						}
					}
					cases = append(cases, payloadCase{tn, bears(tn, map[string]bool{}), fr})
				}
			}
			return false
		})
	}
	// struct types asserted on some `.value` anywhere in the package (candidate object payloads)
	payloadTypes := map[string]bool{}
	for _, f := range parsed {
		ast.Inspect(f, func(n ast.Node) bool {
			var target ast.Expr
			var of ast.Expr
			switch x := n.(type) {
			case *ast.TypeAssertExpr:
				target, of = x.Type, x.X
			case *ast.TypeSwitchStmt:
				// switch v := X.(type) { case T: }
				var ta *ast.TypeAssertExpr
				switch a := x.Assign.(type) {
				case *ast.AssignStmt:
					ta, _ = a.Rhs[0].(*ast.TypeAssertExpr)
				case *ast.ExprStmt:
					ta, _ = a.X.(*ast.TypeAssertExpr)
				}
				if ta != nil {
					if sel, ok := ta.X.(*ast.SelectorExpr); ok && sel.Sel.Name == "value" {
						for _, cc := range x.Body.List {
							for _, t := range cc.(*ast.CaseClause).List {
								if id, ok := t.(*ast.Ident); ok {
									if _, isStruct := structs[id.Name]; isStruct {
										payloadTypes[id.Name] = true
									}
								}
							}
						}
					}
				}
				return true
			}
			if target == nil {
				return true
			}
			if sel, ok := of.(*ast.SelectorExpr); ok && sel.Sel.Name == "value" {
				if id, ok := target.(*ast.Ident); ok {
					if _, isStruct := structs[id.Name]; isStruct {
						payloadTypes[id.Name] = true
					}
				}
			}
			return true
		})
	}

	var b strings.Builder
	b.WriteString("/- REGENERATED by `ottoh-C17 --facts` from /repo's current sources on every run. Do not edit, do not commit. -/\n")
	b.WriteString("namespace OttoVerif.C17.Gen\n\n")
	b.WriteString("/-- (clone site, struct, field, Go type, field can hold a mutable reference, how the site sets it:\n    fresh = from a cloner call / c.runtime / a new container, shared = carried over by value, payload = object.value,\n    unset = left at the zero value) -/\n")
	b.WriteString("def cloneFields : List (String × String × String × String × Bool × String) := [\n")
	for i, f := range facts {
		sep := ","
		if i == len(facts)-1 {
			sep = ""
		}
		fmt.Fprintf(&b, "  (%q, %q, %q, %q, %t, %q)%s\n", f.site, f.strct, f.field, f.typ, f.mutable, f.how, sep)
	}
	b.WriteString("]\n\n/-- objectClone's payload switch: (case type, type holds a mutable reference, the case builds a fresh payload) -/\n")
	b.WriteString("def payloadCases : List (String × Bool × Bool) := [\n")
	for i, c := range cases {
		sep := ","
		if i == len(cases)-1 {
			sep = ""
		}
		fmt.Fprintf(&b, "  (%q, %t, %t)%s\n", c.typ, c.mutable, c.fresh, sep)
	}
	b.WriteString("]\n\n/-- struct types asserted on a `.value` somewhere in the package: (type, holds a mutable reference) -/\n")
	b.WriteString("def payloadTypes : List (String × Bool) := [\n")
	var pts []string
	for k := range payloadTypes {
		pts = append(pts, k)
	}
	sort.Strings(pts)
	for i, k := range pts {
		sep := ","
		if i == len(pts)-1 {
			sep = ""
		}
		fmt.Fprintf(&b, "  (%q, %t)%s\n", k, bears(k, map[string]bool{}), sep)
	}
	b.WriteString("]\n\nend OttoVerif.C17.Gen\n")
	return os.WriteFile(out, []byte(b.String()), 0o644)
}
