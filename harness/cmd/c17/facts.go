package main

import "fmt"

func writeFacts(repo, out string) error { return fmt.Errorf("not yet") }
