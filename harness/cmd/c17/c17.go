package main

import (
	"encoding/hex"
	"fmt"
	"os"
	"runtime"
	"sort"
	"strconv"
	"strings"
	"sync"

	"github.com/robertkrimen/otto"
	"ottoverif/h"
)

func init() {
	h.Register(&h.Prop{ID: "C17", Gen: genC17, Impl: implC17, Trivial: func(l string) bool { return false }})
}

var debug = os.Getenv("C17_DEBUG") != ""

// build runs the setup history (programs separated by "\n;;\n") on a fresh runtime.
func build(src string) (*otto.Otto, string) {
	vm := otto.New()
	vm.SetStackDepthLimit(120) // self-containing arrays etc. must end in a RangeError, not a Go stack overflow
	for _, prog := range strings.Split(src, "\n;;\n") {
		vm.Run(prog) // a throwing program is a legitimate history step: what it did before stays
	}
	if !otto.VerifC17AtRest(vm) {
		return vm, "not-at-rest"
	}
	return vm, ""
}

func safeCopy(vm *otto.Otto) (cp *otto.Otto, ok bool) {
	defer func() {
		if r := recover(); r != nil {
			cp, ok = nil, false
		}
	}()
	return vm.Copy(), true
}

func unhex(s string) string {
	b, err := hex.DecodeString(s)
	if err != nil {
		return ""
	}
	return string(b)
}

// ---------------------------------------------------------------- S: structure of the copy

// heapKinds reports what the dumped heap really contains (for the evidence distribution).
func heapKinds(d *heap) []string {
	m := map[string]bool{}
	ost := 0
	for i := range d.Nodes {
		n := &d.Nodes[i]
		switch n.Kind {
		case "D":
			m["dclStash"] = true
		case "F":
			m["fnStash"] = true
		case "E":
			ost++
		case "O":
			switch n.PKind {
			case 'B':
				m["bound-function"] = true
			case 'A':
				m["arguments-object"] = true
				for _, nm := range n.Names {
					if nm == "" {
						m["arguments-unlinked-index"] = true
					}
				}
			case 'C':
				m["node-function"] = true
			}
			if !n.Ext {
				m["non-extensible"] = true
			}
			for _, p := range n.Props {
				if p.Kind == 'a' && n.PKind != 'C' && n.PKind != 'G' && p.Name != "stack" {
					m["user-accessor"] = true
				}
			}
		}
	}
	if ost > 1 {
		m["with-objectStash"] = true
	}
	var ks []string
	for k := range m {
		ks = append(ks, "S:heap:"+k)
	}
	sort.Strings(ks)
	ks = append(ks, fmt.Sprintf("S:heap:nodes<%d", (len(d.Nodes)/200+1)*200))
	return ks
}

var heapStats sync.Map // line -> []string

func lineS(depth int, src string) (string, bool) {
	vm, bad := build(src)
	if bad != "" {
		return "", false
	}
	d := otto.VerifC17Dump(vm)
	toks := rawTokens(d)
	line := fmt.Sprintf("S %d src:%s cfg:%s %s", depth, hex.EncodeToString([]byte(src)), otto.VerifC17Settings(vm), strings.Join(toks, " "))
	heapStats.Store(line, heapKinds(d))
	return line, true
}

func implS(f []string) string {
	depth, _ := strconv.Atoi(f[1])
	src := unhex(strings.TrimPrefix(f[2], "src:"))
	vm, bad := build(src)
	if bad != "" {
		return bad
	}
	d0 := otto.VerifC17Dump(vm)
	if strings.Join(rawTokens(d0), " ") != strings.Join(f[4:], " ") {
		return "nondeterministic-setup"
	}
	id0 := identityText(d0)
	chain := []*otto.Otto{vm}
	dumps := []*heap{d0}
	for i := 0; i < depth; i++ {
		cp, ok := safeCopy(chain[len(chain)-1])
		if !ok {
			return "panic"
		}
		chain = append(chain, cp)
		if i < depth-1 {
			dumps = append(dumps, otto.VerifC17Dump(cp))
		}
	}
	last := chain[len(chain)-1]
	dl := otto.VerifC17Dump(last)
	if debug {
		fmt.Fprintln(os.Stderr, "ORIG", canonText(d0))
		fmt.Fprintln(os.Stderr, "COPY", canonText(dl))
	}
	un := "u1"
	if identityText(otto.VerifC17Dump(vm)) != id0 {
		un = "u0"
	}
	res := fmt.Sprintf("ok:%s:ov%d:%s:%s", observe(dl), overlapCount(dl, ptrSet(dumps...)), un, otto.VerifC17Settings(last))
	runtime.KeepAlive(chain)
	return res
}

// ---------------------------------------------------------------- I: isolation and continuation

// outcome of running a program: completion value / error class, then the whole heap
func runTok(vm *otto.Otto, src string) string {
	v, err := vm.Run(src)
	if err != nil {
		if oe, ok := err.(*otto.Error); ok {
			s := oe.Error()
			if i := strings.Index(s, ":"); i > 0 {
				s = s[:i]
			}
			return "throw." + s
		}
		return "err"
	}
	if v.IsObject() {
		// no Go-level ToString of objects: with no active scope the stack-depth limit does not apply
		// and a self-containing array overflows the Go stack (a C02 matter, not C17's)
		return "v.object." + v.Class()
	}
	s, _ := v.ToString()
	return "v." + strconv.FormatUint(fnv1a(s), 36)
}

// expI computes the oracle on a freshly replayed runtime: H then M.
func expI(hsrc, msrc string) string {
	vm, bad := build(hsrc)
	if bad != "" {
		return bad
	}
	r := runTok(vm, msrc)
	return "same:" + r + ":" + observe(otto.VerifC17Dump(vm)) + ":cp1"
}

func implI(f []string) string {
	// f[1] = parents: copy i+1 is made from runtime parents[i] (0 = the original)
	side, _ := strconv.Atoi(f[2])
	hsrc, msrc := unhex(f[3]), unhex(f[4])
	vm, bad := build(hsrc)
	if bad != "" {
		return bad
	}
	chain := []*otto.Otto{vm}
	for _, ps := range strings.Split(f[1], ".") {
		pi, _ := strconv.Atoi(ps)
		if pi >= len(chain) {
			return "bad-request"
		}
		cp, ok := safeCopy(chain[pi])
		if !ok {
			return "panic"
		}
		chain = append(chain, cp)
	}
	before := make([]string, len(chain))
	for i, r := range chain {
		before[i] = identityText(otto.VerifC17Dump(r))
	}
	res := runTok(chain[side], msrc)
	iso := "same"
	for i, r := range chain {
		if i != side && identityText(otto.VerifC17Dump(r)) != before[i] {
			iso = fmt.Sprintf("changed%d", i)
			break
		}
	}
	dm := otto.VerifC17Dump(chain[side])
	if debug {
		fmt.Fprintln(os.Stderr, "SIDE", canonText(dm))
		rvm, _ := build(hsrc)
		runTok(rvm, msrc)
		fmt.Fprintln(os.Stderr, "REPL", canonText(otto.VerifC17Dump(rvm)))
	}
	out := iso + ":" + res + ":" + observe(dm)
	// a copy taken AFTER the mutation is again equivalent to the mutated runtime, and taking it changes nothing
	mid := identityText(dm)
	cp, ok := safeCopy(chain[side])
	switch {
	case !ok:
		out += ":cppanic"
	case observe(otto.VerifC17Dump(cp)) != observe(dm):
		out += ":cpdiffers"
	case identityText(otto.VerifC17Dump(chain[side])) != mid:
		out += ":cpchanged"
	default:
		out += ":cp1"
	}
	runtime.KeepAlive(chain)
	return out
}

// ---------------------------------------------------------------- P: probes of heap-independent behaviour

func implP(f []string) string {
	switch f[1] {
	case "caller":
		depth, _ := strconv.Atoi(f[2])
		vm, _ := build(`function g(){return f()} function f(){return f.caller===g}`)
		for i := 0; i < depth; i++ {
			cp, ok := safeCopy(vm)
			if !ok {
				return "panic"
			}
			vm = cp
		}
		v, err := vm.Run(`g()`)
		if err != nil {
			return "throw"
		}
		s, _ := v.ToString()
		return s
	case "evalid":
		// eval rebound to another FUNCTION before Copy(): no panic, but the copy's direct-eval identity is the other function
		depth, _ := strconv.Atoi(f[2])
		vm, _ := build(`var keep=eval; eval=function(){return 0}`)
		for i := 0; i < depth; i++ {
			cp, ok := safeCopy(vm)
			if !ok {
				return "panic"
			}
			vm = cp
		}
		v, err := vm.Run(`eval=keep; (function(){var a=5; return eval("a")})()`)
		if err != nil {
			return "throw"
		}
		s, _ := v.ToString()
		return s
	}
	return "bad-probe"
}

func implC17(line string) string {
	f := strings.Fields(line)
	switch f[0] {
	case "S":
		return implS(f)
	case "I":
		return implI(f)
	case "P":
		return implP(f)
	case "H":
		return implH(f)
	case "B":
		return implB(f)
	}
	return "bad-request"
}

// ---------------------------------------------------------------- generation

func genC17(c *h.Ctx) {
	for d := 0; d <= 3; d++ {
		c.Add(fmt.Sprintf("P caller %d", d), "probe:caller")
		c.Add(fmt.Sprintf("P evalid %d", d), "probe:evalid")
		for _, k := range []string{"stackLimit", "traceLimit", "random", "debugger", "interrupt"} {
			c.Add(fmt.Sprintf("H %s %d", k, d), "handle:"+k)
		}
		for _, k := range []string{"slice", "sliceproto", "map", "multi", "leak"} {
			c.Add(fmt.Sprintf("B %s %d", k, d), "bridge:"+k)
		}
	}
	// fixed seeds: one per feature, then the listed deviations
	for i, src := range fixedHistories() {
		for depth := 1; depth <= 2; depth++ {
			if l, ok := lineS(depth, src); ok {
				c.Add(l, "S:fixed", fmt.Sprintf("S:fixed:%d", i))
			}
		}
	}
	// fixed isolation pairs at every copy shape and side
	for i, hm := range fixedIsolation() {
		exp := expI(hm[0], hm[1])
		for _, parents := range []string{"0", "0.1", "0.0", "0.1.2", "0.0.1"} {
			n := len(strings.Split(parents, "."))
			for side := 0; side <= n; side++ {
				c.Add(fmt.Sprintf("I %s %d %s %s exp:%s", parents, side, hex.EncodeToString([]byte(hm[0])), hex.EncodeToString([]byte(hm[1])), exp),
					"I:fixed", fmt.Sprintf("I:fixed:%d", i))
			}
		}
	}
	// random part: lines are computed in parallel (each from its own forked PRNG) and added in order
	type job struct {
		r        *h.Rng
		kind     byte
		depth    int
		side     int
		parents  string
		allowDev bool
		line     string
		keys     []string
		feats    []string
	}
	var jobs []*job
	nS := c.N(1000, 8000)
	for i := 0; i < nS; i++ {
		jobs = append(jobs, &job{r: c.Rng.Fork(), kind: 'S', depth: 1 + c.Rng.Intn(3), allowDev: c.Rng.Chance(15)})
	}
	nI := c.N(4000, 32000)
	for i := 0; i < nI; i++ {
		depth := 1 + c.Rng.Intn(3)
		var ps []string
		for k := 0; k < depth; k++ {
			if c.Rng.Chance(60) {
				ps = append(ps, strconv.Itoa(k)) // copy of the newest (chain)
			} else {
				ps = append(ps, strconv.Itoa(c.Rng.Intn(k+1))) // copy of any earlier runtime (siblings)
			}
		}
		jobs = append(jobs, &job{r: c.Rng.Fork(), kind: 'I', depth: depth, parents: strings.Join(ps, "."), side: c.Rng.Intn(depth + 1), allowDev: c.Rng.Chance(15)})
	}
	ch := make(chan *job, 256)
	var wg sync.WaitGroup
	for w := 0; w < runtime.NumCPU(); w++ {
		wg.Add(1)
		go func() {
			defer wg.Done()
			for j := range ch {
				g := newJSGen(j.r)
				if j.kind == 'S' {
					g.allowDev = j.allowDev
					src := g.history()
					if l, ok := lineS(j.depth, src); ok {
						j.line = l
						j.keys = []string{"S:random", fmt.Sprintf("S:depth%d", j.depth)}
						j.feats = g.features()
					}
				} else {
					g.allowDev = j.allowDev
					hsrc := g.history()
					msrc := g.mutation()
					exp := expI(hsrc, msrc)
					if strings.HasPrefix(exp, "same:") {
						j.line = fmt.Sprintf("I %s %d %s %s exp:%s", j.parents, j.side, hex.EncodeToString([]byte(hsrc)), hex.EncodeToString([]byte(msrc)), exp)
						j.keys = []string{"I:random", fmt.Sprintf("I:depth%d:side%d", j.depth, j.side)}
						j.feats = g.features()
					}
				}
			}
		}()
	}
	for _, j := range jobs {
		ch <- j
	}
	close(ch)
	wg.Wait()
	for _, j := range jobs {
		if j.line == "" {
			c.Dist[string(j.kind)+":skipped"]++
			continue
		}
		if hk, ok := heapStats.Load(j.line); ok {
			j.keys = append(j.keys, hk.([]string)...)
		}
		c.Add(j.line, j.keys...)
		for _, k := range j.feats {
			c.Dist[string(j.kind)+":feature:"+k]++
		}
	}
}
