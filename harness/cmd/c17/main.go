// Command c17 is the correspondence harness binary for property C17.
//
//	ottoh-C17 --facts <out.lean>     regenerate the clone-coverage facts from /repo
package main

import (
	"fmt"
	"os"

	"ottoverif/h"
)

func main() {
	if len(os.Args) >= 3 && os.Args[1] == "--facts" {
		if err := writeFacts("/repo", os.Args[2]); err != nil {
			fmt.Fprintln(os.Stderr, err)
			os.Exit(1)
		}
		return
	}
	h.Main("C17")
}
