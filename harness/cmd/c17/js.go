package main

import (
	"fmt"
	"sort"
	"strings"

	"ottoverif/h"
)

// A JavaScript program family for Copy(): histories that build object graphs with closures
// (function / catch / with scopes), accessors, bound functions, arguments objects (aliased,
// partially unlinked), prototype chains, attribute changes, freezing, primitive wrappers,
// dates, regexps, errors and modified built-ins; and mutation programs over the same names.

type jsGen struct {
	r        *h.Rng
	feat     map[string]bool
	allowDev bool
	nfun     int
}

func newJSGen(r *h.Rng) *jsGen { return &jsGen{r: r, feat: map[string]bool{}} }

func (g *jsGen) features() []string {
	var ks []string
	for k := range g.feat {
		ks = append(ks, k)
	}
	sort.Strings(ks)
	return ks
}

func (g *jsGen) pick(xs ...string) string { return xs[g.r.Intn(len(xs))] }
func (g *jsGen) v() string                { return fmt.Sprintf("v%d", g.r.Intn(6)) }
func (g *jsGen) name() string {
	return g.pick("a", "b", "c", "x", "y", "k", "0", "1", "2", "length", "name", "constructor", "toString", "valueOf", "inc", "get", "args", "é", "prototype")
}
func (g *jsGen) key() string {
	n := g.name()
	return fmt.Sprintf("%q", n)
}

func (g *jsGen) prim() string {
	return g.pick("0", "1", "-1", "2", "7", "0.5", "-0", "NaN", "Infinity", "1e21", "65535", `""`, `"a"`, `"ab"`, `"é"`, `"1"`, "true", "false", "null", "undefined")
}

func (g *jsGen) boolean() string { return g.pick("true", "false") }

func (g *jsGen) expr(d int) string {
	if d <= 0 {
		if g.r.Chance(50) {
			return g.prim()
		}
		return g.v()
	}
	sub := func() string { return g.expr(d - 1) }
	switch g.r.Intn(36) {
	case 0, 1:
		return g.prim()
	case 2, 3:
		return g.v()
	case 4:
		g.feat["objlit"] = true
		var ps []string
		for i, n := 0, g.r.Intn(4); i < n; i++ {
			ps = append(ps, g.key()+":"+sub())
		}
		return "({" + strings.Join(ps, ",") + "})"
	case 5:
		g.feat["accessor-literal"] = true
		n := g.pick("a", "b", "x")
		return fmt.Sprintf("({_s:%s, get %s(){return this._s}, set %s(w){this._s=w}, %s:%s})", sub(), n, n, g.pick("k", "y"), sub())
	case 6:
		g.feat["array"] = true
		var es []string
		for i, n := 0, g.r.Intn(4); i < n; i++ {
			es = append(es, sub())
		}
		return "[" + strings.Join(es, ",") + "]"
	case 7:
		g.feat["closure-counter"] = true
		return fmt.Sprintf("(function(){var n=%s; return {inc:function(){return ++n}, get:function(){return n}, set:function(w){n=w}}})()", sub())
	case 8:
		g.feat["closure-param"] = true
		return fmt.Sprintf("(function(p,q){return function(){return p}})(%s,%s)", sub(), sub())
	case 9:
		g.feat["arguments"] = true
		return fmt.Sprintf("(function(a,b){return arguments})(%s)", g.args(sub))
	case 10:
		g.feat["arguments-alias"] = true
		del := ""
		if g.r.Chance(40) {
			g.feat["arguments-unlinked"] = true
			del = fmt.Sprintf("delete arguments[%d];", g.r.Intn(2))
		}
		return fmt.Sprintf("(function(a,b){%sreturn {args:arguments, get:function(){return a}, set:function(w){a=w}, inc:function(){return ++b}}})(%s)", del, g.args(sub))
	case 11:
		g.feat["closure-nested"] = true
		return fmt.Sprintf("(function(p){var m=%s; return function(q){return function(){m=[p,q,m]; return m}}})(%s)(%s)", sub(), sub(), sub())
	case 12:
		g.feat["named-fn-expr"] = true
		return "(function fact(n){return n>0&&n<6?n*fact(n-1):1})"
	case 13:
		g.feat["catch-scope"] = true
		return fmt.Sprintf("(function(){try{throw %s}catch(ex){return {get:function(){return ex}, set:function(w){ex=w}}}})()", sub())
	case 14:
		g.feat["with-scope"] = true
		return fmt.Sprintf("(function(){with({a:%s,b:%s}){return {get:function(){return a}, set:function(w){a=w}, inc:function(){return ++b}}}})()", sub(), sub())
	case 15:
		g.feat["eval-function"] = true
		return g.pick(`eval("(function(){return 1})")`, `new Function("a","return a")`, `(function(){var loc=3; return eval("(function(){return loc++})")})()`)
	case 16:
		g.feat["bound"] = true
		return fmt.Sprintf("(function(a,b){return [this,a,b]}).bind(%s)", g.args(sub))
	case 17:
		g.feat["bound-of-var"] = true
		return fmt.Sprintf("%s.bind(%s)", g.v(), g.args(sub))
	case 18:
		g.feat["object-create"] = true
		return fmt.Sprintf("Object.create(%s)", g.pick(g.v(), "null", "Array.prototype", "{a:1}", g.v()))
	case 19:
		g.feat["constructor"] = true
		return fmt.Sprintf("(function(){function K(a){this.a=a} K.prototype.m=function(){return this.a}; K.prototype.k=%s; return new K(%s)})()", sub(), sub())
	case 20:
		g.feat["wrapper"] = true
		return g.pick(`new String("ab")`, `new Number(1.5)`, `new Boolean(false)`, `Object("s")`, `Object(3)`)
	case 21:
		g.feat["date-regexp-error"] = true
		return g.pick(`new Date(12345)`, `new Date(NaN)`, `/a+/g`, `/b/i`, `new Error("m")`, `new TypeError("t")`, `(function(){try{null.x}catch(e){return e}})()`)
	case 22:
		g.feat["builtin-ref"] = true
		return g.pick("Array.prototype", "Object.prototype", "Math", "JSON", "String.prototype.slice", "Function.prototype", "this", "Array", "parseInt", "Object.getOwnPropertyNames")
	case 23:
		g.feat["member-read"] = true
		return fmt.Sprintf("%s[%s]", g.v(), g.key())
	case 24:
		g.feat["call"] = true
		return fmt.Sprintf("%s(%s)", g.v(), g.args(sub))
	case 25:
		g.feat["method-call"] = true
		return fmt.Sprintf("%s.%s(%s)", g.v(), g.pick("inc", "get", "set", "m", "push", "pop", "exec", "setTime", "toString", "valueOf", "slice", "call", "apply"), g.args(sub))
	case 26:
		g.feat["new-var"] = true
		return fmt.Sprintf("new %s(%s)", g.v(), g.args(sub))
	case 27:
		g.feat["arith"] = true
		return fmt.Sprintf("(%s %s %s)", sub(), g.pick("+", "-", "*", "===", "==", "<", "&&", "||", ",", "in", "instanceof"), sub())
	case 28:
		g.feat["cycle"] = true
		return fmt.Sprintf("(function(){var o={a:%s}; o.self=o; o.f=function(){return o}; return o})()", sub())
	case 29:
		g.feat["caller"] = true
		return g.pick("(function g(){return (function f(){return f.caller===g})()})()", fmt.Sprintf("(function(){return %s.caller})()", g.v()),
			"(function g(){return [1].map(function f(){return String(f.caller).slice(0,12)})[0]})()")
	case 30:
		// a function whose every call evaluates a literal: each call must build a NEW object of the
		// runtime it is called on (also after Copy(), also when it was already called before the copy)
		g.feat["literal-factory"] = true
		return g.pick("(function(){return /a+/i})", "(function(){return /x/})", "(function(){return /b/g})", "(function(){return /c/m})",
			"(function(){return {a:1}})", "(function(){return [1,2]})", "(function(){return function(){return 1}})", "(function(){return [/y/, {}, []]})")
	case 31:
		g.feat["realm-check"] = true
		v := g.v()
		return g.pick(
			fmt.Sprintf("(function(x){return [x instanceof RegExp, Object.getPrototypeOf(x)===RegExp.prototype, x instanceof Array, Object.getPrototypeOf(x)===Array.prototype, x instanceof Function, x instanceof Object, Object.getPrototypeOf(x)===Object.prototype, x.constructor===RegExp, x.mark, x.lastIndex].join()})(%s())", v),
			fmt.Sprintf("%s()===%s()", v, v),
			fmt.Sprintf("(function(x){return [x instanceof RegExp, x instanceof Array, x instanceof Object, x.mark].join()})(%s)", v),
			fmt.Sprintf("(function(x){return x[0] instanceof RegExp && x[1] instanceof Object && x[2] instanceof Array})(%s())", v))
	case 34:
		// a closure made inside a with body that calls a BARE identifier found in the with object: the
		// callee's this is the with object (10.2.1.2.6 ImplicitThisValue) – also on a copy
		g.feat["with-this"] = true
		return g.pick(
			fmt.Sprintf("(function(){ var env={tag:%s, who:function(){return this===env ? \"env\" : (this===undefined ? \"undef\" : typeof this)}}; with(env){ return function(){ return who() } } })()", sub()),
			"(function(){ var env={tag:1}; with(env){ return function(){ return hasOwnProperty(\"tag\") } } })()",
			fmt.Sprintf("(function(){ var a={n:\"a\", me:function(){return this.n}}, b={k:%s}; with(a){ with(b){ return function(){ return me()+\":\"+typeof k } } } })()", sub()),
			"(function(){ with({v:7, get:function(){return this.v}, set:function(w){this.v=w}, inc:function(){return ++this.v}}){ return {get:function(){return get()}, set:function(w){return set(w)}, inc:function(){return inc()}} } })()",
			fmt.Sprintf("(function(o){ with(o){ return function(){ try { return String(valueOf()===o) } catch(e) { return \"threw\" } } } })(%s)", g.v()))
	default:
		g.feat["descriptor-read"] = true
		return fmt.Sprintf("JSON.stringify(Object.getOwnPropertyDescriptor(%s,%s))", g.v(), g.key())
	}
}

func (g *jsGen) args(sub func() string) string {
	var as []string
	for i, n := 0, g.r.Intn(4); i < n; i++ {
		as = append(as, sub())
	}
	return strings.Join(as, ",")
}

func (g *jsGen) stmt() string {
	e := func() string { return g.expr(2) }
	switch g.r.Intn(27) {
	case 0, 1, 2, 3, 4:
		return fmt.Sprintf("%s = %s", g.v(), e())
	case 5, 6, 7:
		g.feat["put"] = true
		return fmt.Sprintf("%s[%s] = %s", g.v(), g.key(), e())
	case 8:
		g.feat["delete"] = true
		return fmt.Sprintf("delete %s[%s]", g.v(), g.key())
	case 9, 10:
		g.feat["defineProperty-data"] = true
		return fmt.Sprintf("Object.defineProperty(%s,%s,{value:%s,writable:%s,enumerable:%s,configurable:%s})", g.v(), g.key(), e(), g.boolean(), g.boolean(), g.boolean())
	case 11:
		g.feat["defineProperty-accessor"] = true
		gs := g.pick("get:function(){return s}, set:function(w){s=w}", "get:function(){return s}", "set:function(w){s=w}", "get:undefined")
		return fmt.Sprintf("(function(){var s=%s; Object.defineProperty(%s,%s,{%s,enumerable:%s,configurable:%s})})()", e(), g.v(), g.key(), gs, g.boolean(), g.boolean())
	case 12:
		g.feat["freeze"] = true
		return fmt.Sprintf("Object.%s(%s)", g.pick("freeze", "seal", "preventExtensions"), g.v())
	case 13:
		g.feat["closure-state"] = true
		return fmt.Sprintf("%s.%s(%s)", g.v(), g.pick("inc", "set", "get"), e())
	case 14:
		g.feat["array-ops"] = true
		return g.pick(fmt.Sprintf("%s.push(%s)", g.v(), e()), fmt.Sprintf("%s.length = %d", g.v(), g.r.Intn(4)), fmt.Sprintf("%s.reverse()", g.v()), fmt.Sprintf("%s.splice(0,1)", g.v()))
	case 15:
		g.feat["arguments-write"] = true
		return g.pick(fmt.Sprintf("%s.args[%d] = %s", g.v(), g.r.Intn(3), e()), fmt.Sprintf("%s[%d] = %s", g.v(), g.r.Intn(3), e()),
			fmt.Sprintf("delete %s.args[%d]", g.v(), g.r.Intn(3)), fmt.Sprintf("Object.defineProperty(%s.args,\"0\",{value:%s})", g.v(), e()))
	case 16, 17:
		g.feat["builtin-modify"] = true
		return g.pick(
			fmt.Sprintf("Array.prototype.%s = %s", g.pick("foo", "push", "join", "k"), e()),
			"delete Array.prototype."+g.pick("push", "pop", "concat", "foo"),
			fmt.Sprintf("JSON.stringify = %s", e()),
			fmt.Sprintf("Object.prototype.%s = %s", g.pick("zz", "k", "inc"), e()),
			"delete Object.prototype."+g.pick("zz", "k", "hasOwnProperty"),
			fmt.Sprintf("String.prototype.trim = %s", e()),
			fmt.Sprintf("Function.prototype.%s = %s", g.pick("q", "call"), e()),
			"delete this."+g.pick("parseInt", "JSON", "escape", "NaN", "v0"),
			fmt.Sprintf("Math.%s = %s", g.pick("PI", "abs", "zz"), e()),
			fmt.Sprintf("Object.defineProperty(Array.prototype,\"foo\",{get:function(){return %s},configurable:true})", g.v()),
			"Object.freeze("+g.pick("Array.prototype", "Math", "JSON", "Object.prototype")+")",
			fmt.Sprintf("this[%s] = %s", g.key(), e()),
			fmt.Sprintf("Error.prototype.message = %s", e()),
			fmt.Sprintf("Array = %s", e()),
			fmt.Sprintf("Object.defineProperty(this,%s,{value:%s,writable:%s,enumerable:%s,configurable:true})", g.key(), e(), g.boolean(), g.boolean()),
		)
	case 18:
		g.feat["regexp-date-state"] = true
		return g.pick(fmt.Sprintf("%s.exec(\"aab aa\")", g.v()), fmt.Sprintf("%s.lastIndex = %d", g.v(), g.r.Intn(5)), fmt.Sprintf("%s.setTime(%d)", g.v(), g.r.Intn(100000)), fmt.Sprintf("%s.setFullYear(2001)", g.v()))
	case 19:
		g.feat["proto-edit"] = true
		return fmt.Sprintf("Object.getPrototypeOf(%s)[%s] = %s", g.v(), g.key(), e())
	case 20:
		g.feat["var-decl"] = true
		return fmt.Sprintf("var w%d = %s", g.r.Intn(3), e())
	case 21:
		g.feat["for-in"] = true
		return fmt.Sprintf("(function(){var ks=[]; for(var k in %s) ks.push(k); return ks.join()})()", g.v())
	case 23:
		g.feat["literal-call"] = true
		return g.pick(fmt.Sprintf("%s = %s()", g.v(), g.v()), fmt.Sprintf("%s().mark = %s", g.v(), e()), fmt.Sprintf("%s().lastIndex = %d", g.v(), g.r.Intn(5)),
			fmt.Sprintf("%s()[0].mark = %s", g.v(), e()), fmt.Sprintf("Object.getPrototypeOf(%s()).mark = %s", g.v(), e()))
	case 22:
		g.feat["own-names"] = true
		return fmt.Sprintf("Object.getOwnPropertyNames(%s).join()", g.v())
	default:
		return e()
	}
}

// histories after which Copy() used to go wrong (rebound eval, a parameter named `arguments`)
func (g *jsGen) devStmt() string {
	g.feat["dev-seed"] = true
	return g.pick(
		"eval = "+g.expr(1),
		"delete eval",
		"var keepEval = eval; eval = function(s){return keepEval(s)}",
		"Object.defineProperty(this,\"eval\",{get:function(){return 1},configurable:true})",
		fmt.Sprintf("%s = (function(arguments){return function(){return arguments}})(%s)", g.v(), g.expr(1)),
		fmt.Sprintf("%s = (function(a,arguments){return {get:function(){return a}}})(%s)", g.v(), g.expr(1)),
	)
}

func (g *jsGen) program(n int) string {
	var b strings.Builder
	if g.r.Chance(40) {
		g.feat["function-declaration"] = true
		g.nfun++
		fmt.Fprintf(&b, "function f%d(a,b){ %s = [a,b,arguments.length]; return %s }\n", g.nfun, g.v(), g.v())
	}
	for i := 0; i < n; i++ {
		s := g.stmt()
		if g.allowDev && g.r.Chance(4) {
			s = g.devStmt()
		}
		if strings.HasPrefix(s, "var ") {
			fmt.Fprintf(&b, "%s;\n", s)
		} else {
			fmt.Fprintf(&b, "try{ %s }catch(e){}\n", s)
		}
	}
	return b.String()
}

func (g *jsGen) history() string {
	var ps []string
	ps = append(ps, "var v0={a:1}, v1=[1,2], v2=function(a){return a}, v3, v4=null, v5=\"s\";\n")
	for i, n := 0, 1+g.r.Intn(3); i < n; i++ {
		ps = append(ps, g.program(2+g.r.Intn(10)))
	}
	return strings.Join(ps, "\n;;\n")
}

func (g *jsGen) mutation() string {
	return g.program(1 + g.r.Intn(8))
}

func fixedHistories() []string {
	return []string{
		``,
		`var o={a:1,b:{c:2}}; o.self=o;`,
		`var c=(function(){var n=0; return {inc:function(){return ++n}, get:function(){return n}}})(); c.inc(); c.inc()`,
		`var a=(function(x,y){return arguments})(1,2,3); a[0]=9`,
		`var o=(function(x,y){delete arguments[0]; return {a:arguments, get:function(){return x}, set:function(v){x=v}}})(1,2)`,
		`function f(a,b){return this.k+a+b} var b=f.bind({k:1},2); var bb=b.bind(null,3)`,
		`var w={q:1}; var f; with(w){ f=function(){return q} }`,
		`var f; try{throw 3}catch(e){ f=function(){return e++} }`,
		`var d=new Date(0); var r=/a/g; r.test("aa"); var e=new Error("x"); var s=new String("ab"); s.x=1; var n=new Number(5)`,
		`function A(){}; A.prototype.m=function(){return 1}; var a=new A(); var p=Object.create(a,{z:{value:1,enumerable:true}})`,
		`Array.prototype.foo=function(){return 42}; delete Array.prototype.push; JSON.stringify=function(){return "hi"}; Object.prototype.zz=1; delete this.parseInt`,
		`var o=Object.freeze({a:1}); var s=Object.seal({b:2}); var p=Object.preventExtensions({c:3}); Object.defineProperty(o,"h",{value:1})`,
		`var v=0; var o={get x(){return v}, set x(n){v=n}}; Object.defineProperty(o,"g",{get:function(){return 1},enumerable:false,configurable:true}); Object.defineProperty(o,"s",{set:function(w){}})`,
		`var f=new Function("a","return a+1"); var g=eval("(function(){return 2})"); var ge=eval; var h=ge("(function(){return 3})")`,
		`var fs=[]; [1,2].map(function(x){ fs.push(function(){return x}) })`,
		"var x=1;\n;;\nvar y=function(){return x};\n;;\nthrow 1;\n;;\nvar z=y",
		// histories that used to break Copy()
		`var e=eval; delete eval`,
		`eval=1`,
		`var e=eval; eval=function(){return 7}`,
		`var e=eval; eval=parseInt`,
		`Object.defineProperty(this,"eval",{get:function(){return 1}})`,
		`var f=(function(arguments){return function(){return 1}})(1)`,
	}
}

// fixedIsolation: (history, mutation) pairs run at every copy shape and side.  Functions that
// evaluate a literal per call are called in the template BEFORE the copy and on the chosen side
// afterwards: the objects must be new, belong to the runtime they were made on, and a write through
// them must stay there.
func fixedIsolation() [][2]string {
	h1 := "function fr(){return /x/i} function fg(){return /x/g} function fo(){return {a:1}} function fa(){return [1,2]} function ff(){return function(){return 1}}\n" +
		"var r0=fr(), g0=fg(), o0=fo(), a0=fa(), f0=ff();"
	m1 := "var r=fr(); r.mark=1; r.lastIndex=3; var o=fo(); o.mark=1; var a=fa(); a.mark=1; var f=ff(); f.mark=1;\n" +
		"[r instanceof RegExp, Object.getPrototypeOf(r)===RegExp.prototype, r.constructor===RegExp, r===r0, fr()===fr(), fr().mark, fr().lastIndex, r0.mark, r0.lastIndex," +
		" fg()===g0, fg() instanceof RegExp, o instanceof Object, Object.getPrototypeOf(o)===Object.prototype, o===o0, o0.mark, a instanceof Array, Object.getPrototypeOf(a)===Array.prototype, a0.mark," +
		" f instanceof Function, Object.getPrototypeOf(f)===Function.prototype, f0.mark, /q/ instanceof RegExp].join()"
	h2 := "var mk=function(){ return [/k/, /k/m] }; var first=mk(); first[0].tag=\"template\";"
	m2 := "var again=mk(); again[0].tag=\"side\"; Object.getPrototypeOf(again[1]).sideMark=1; [again[0]===first[0], first[0].tag, again[0] instanceof RegExp, /z/.sideMark, again[1].sideMark].join()"
	h3 := "var loop=function(){ var out=[]; for (var i=0;i<3;i++) out.push(/l/); return out }; var l0=loop();"
	m3 := "var l=loop(); l[0].n=1; [l[0]===l[1], l[0]===l0[0], l[1].n, l0[0].n, l[2] instanceof RegExp].join()"
	// closures made inside with bodies, calling bare identifiers that resolve in the with object:
	// nested with, with inside a function, a method using this, a host (native) callee, a setter-like
	// method writing through this; the global environment must NOT provide this
	h4 := "var env={tag:\"E\", who:function(){return this===env ? \"env\" : (this===undefined ? \"undef\" : (this===gthis ? \"global\" : typeof this))}, bump:function(){ this.n=(this.n||0)+1; return this.n }};\n" +
		"var gthis=this; var c1; with(env){ c1=function(){ return who() } }\n" +
		"var c2=(function(){ var inner={name:\"inner\", me:function(){return this && this.name}}; with(env){ with(inner){ return function(){ return [me(), who(), bump()].join() } } } })();\n" +
		"var c3=(function(o){ with(o){ return function(){ return hasOwnProperty(\"tag\")+\":\"+(valueOf()===o) } } })(env);\n" +
		"function gwho(){ return this===undefined ? \"undef\" : (this===gthis ? \"global\" : typeof this) } var c4=function(){ return gwho() };\n" +
		"c1(); c2();"
	m4 := "[c1(), c2(), c3(), c4(), env.n].join(\"|\")"
	m5 := "var r1=[c1(), c2(), c3(), c4()].join(\"|\"); env.who=function(){ return \"replaced:\"+(this===env) }; r1+\"|\"+c1()+\"|\"+env.n"
	return [][2]string{{h1, m1}, {h2, m2}, {h3, m3}, {h1, "r0.mark=5; fr().mark"}, {h1, "1"}, {h4, m4}, {h4, m5}}
}
