package main

import (
	"fmt"
	"strconv"

	"github.com/robertkrimen/otto"
)

// H <setting> <depth>: which runtime/handle-level setting of the template is in force on a copy,
// observed through behaviour only (public API).  Answers: carried | notcarried | odd:<detail>.
//
// B <probe> <depth>: a Go function bridged through reflection (vm.Set("mk", func() []string …))
// registered BEFORE Copy(): in which runtime does a call made on the copy build its results?

func copyChainOf(vm *otto.Otto, depth int) (*otto.Otto, bool) {
	for i := 0; i < depth; i++ {
		cp, ok := safeCopy(vm)
		if !ok {
			return nil, false
		}
		vm = cp
	}
	return vm, true
}

func runStr(vm *otto.Otto, src string) string {
	v, err := vm.Run(src)
	if err != nil {
		return "throw"
	}
	if v.IsObject() {
		return "object"
	}
	s, _ := v.ToString()
	return s
}

func implH(f []string) string {
	depth, _ := strconv.Atoi(f[2])
	tmpl := otto.New()
	fresh := otto.New()
	var probe string
	hits := 0
	var ch chan func()
	switch f[1] {
	case "stackLimit":
		tmpl.SetStackDepthLimit(30)
		// bounded recursion: without a limit it ends by itself (no Go stack overflow)
		probe = `(function(){ function r(n){ if (n < 200) r(n+1) } try { r(0); return "deep" } catch (e) { return "limited:" + (e instanceof RangeError) } })()`
	case "traceLimit":
		tmpl.SetStackTraceLimit(2)
		probe = `(function(){ function a(n){ if (n) return a(n-1); return new Error("x").stack.split("\n").length } return a(6) })()`
	case "random":
		tmpl.SetRandomSource(func() float64 { return 0.25 })
		probe = `Math.random() === 0.25 && Math.random() === 0.25`
	case "debugger":
		tmpl.SetDebuggerHandler(func(*otto.Otto) { hits++ })
		probe = `debugger; 1`
	case "interrupt":
		ch = make(chan func(), 1)
		tmpl.Interrupt = ch
		probe = `1+1`
	default:
		return "bad-request"
	}
	cp, ok := copyChainOf(tmpl, depth)
	if !ok {
		return "panic"
	}
	switch f[1] {
	case "debugger":
		runStr(cp, probe)
		if hits == 1 {
			return "carried"
		}
		if hits == 0 {
			return "notcarried"
		}
		return fmt.Sprintf("odd:hits%d", hits)
	case "interrupt":
		// a function sent to the TEMPLATE must not be consumed (or run) by a script on the copy
		ran := false
		ch <- func() { ran = true }
		runStr(cp, probe)
		shared := depth > 0 && cp.Interrupt != nil
		if depth == 0 {
			shared = false
		}
		drained := len(ch) == 0
		if depth == 0 {
			// the template itself does consume it
			if drained && ran {
				return "carried"
			}
			return "odd:template-did-not-poll"
		}
		switch {
		case !shared && !drained && !ran:
			return "notcarried"
		case shared && drained && ran:
			return "carried"
		}
		return fmt.Sprintf("odd:shared%t.drained%t.ran%t", shared, drained, ran)
	}
	want, dflt, got := runStr(tmpl, probe), runStr(fresh, probe), runStr(cp, probe)
	switch {
	case want == dflt:
		return "odd:probe-does-not-discriminate"
	case got == want:
		return "carried"
	case got == dflt:
		return "notcarried"
	}
	return "odd:" + got
}

func implB(f []string) string {
	depth, _ := strconv.Atoi(f[2])
	tmpl := otto.New()
	tmpl.Set("mk", func() []string { return []string{"a"} })
	tmpl.Set("mm", func() map[string]interface{} { return map[string]interface{}{"a": 1} })
	tmpl.Set("two", func() (int, string) { return 1, "x" })
	cp, ok := copyChainOf(tmpl, depth)
	if !ok {
		return "panic"
	}
	switch f[1] {
	case "slice":
		return runStr(cp, `mk() instanceof Array`)
	case "sliceproto":
		return runStr(cp, `Object.getPrototypeOf(mk()) === Array.prototype`)
	case "map":
		return runStr(cp, `Object.getPrototypeOf(mm()) === Object.prototype`)
	case "multi":
		return runStr(cp, `two() instanceof Array && Object.getPrototypeOf(two()) === Array.prototype`)
	case "leak":
		// a write through the result's prototype on the copy must not show in the template
		runStr(cp, `Object.getPrototypeOf(mk()).c17leak = 1`)
		if depth == 0 {
			return runStr(otto.New(), `String([].c17leak)`) // the template IS the runtime written to: ask an unrelated one
		}
		return runStr(tmpl, `String([].c17leak)`)
	}
	return "bad-request"
}
