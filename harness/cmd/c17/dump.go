package main

import (
	"encoding/hex"
	"fmt"
	"strconv"
	"strings"

	"github.com/robertkrimen/otto"
)

// Serialisation of a heap dump.  One printer, parameterised by how a reference is written:
//   raw:       node index (the hook's depth-first numbering), objectStash nodes are tokens too
//   canonical: discovery number among the non-objectStash nodes; an objectStash is written
//              inline (E<rt>(outer~object)); must agree byte for byte with C17/Spec.lean canonText.

type heap = otto.VerifC17Heap
type node = otto.VerifC17Node

type printer struct {
	h   *heap
	ref func(i int) string
	np  map[uintptr]int // nodeFunctionLiteral pointer -> first-occurrence number
}

func hx(s string) string { return hex.EncodeToString([]byte(s)) }

func (p *printer) oref(i int) string {
	if i < 0 {
		return "-"
	}
	return p.ref(i)
}

func (p *printer) val(v otto.VerifC17Val) string {
	if v.Obj >= 0 {
		return "@" + p.ref(v.Obj)
	}
	return "=" + v.Prim
}

func (p *printer) rt(n *node) string {
	if n.Rt == p.h.Runtime {
		return "0"
	}
	return "1"
}

func (p *printer) nodeLit(ptr uintptr) string {
	if i, ok := p.np[ptr]; ok {
		return "n" + strconv.Itoa(i)
	}
	i := len(p.np)
	p.np[ptr] = i
	return "n" + strconv.Itoa(i)
}

func (p *printer) node(n *node) string {
	var f []string
	switch n.Kind {
	case "O":
		var props []string
		for _, pr := range n.Props {
			var pv string
			switch pr.Kind {
			case 'd':
				pv = "d" + p.val(pr.Val)
			case 'a':
				pv = "a" + p.oref(pr.Get) + "/" + p.oref(pr.Set)
			default:
				pv = "x"
			}
			props = append(props, hx(pr.Name)+":"+strconv.Itoa(pr.Mode)+":"+pv)
		}
		var pl string
		switch n.PKind {
		case 'N':
			pl = "N" + n.PData
		case 'G':
			pl = "G" + n.PData
		case 'B':
			parts := []string{p.ref(n.Target), p.val(n.This)}
			for _, a := range n.Args {
				parts = append(parts, p.val(a))
			}
			pl = "B" + strings.Join(parts, ";")
		case 'C':
			pl = "C" + p.nodeLit(n.NodePtr) + ";" + p.oref(n.Stash)
		case 'A':
			parts := []string{p.oref(n.Stash)}
			for _, nm := range n.Names {
				parts = append(parts, hx(nm))
			}
			pl = "A" + strings.Join(parts, ";")
		}
		ext := "0"
		if n.Ext {
			ext = "1"
		}
		oc := n.OClass
		if !n.OrderOK {
			oc += "!order"
		}
		f = []string{"O", p.rt(n), hx(n.Class), oc, ext, p.oref(n.Proto), strings.Join(props, ","), pl}
	case "D", "F":
		var bs []string
		for _, b := range n.Bindings {
			bs = append(bs, hx(b.Name)+":"+strconv.Itoa(b.Flags)+":"+p.val(b.Val))
		}
		f = []string{n.Kind, p.rt(n), p.oref(n.Outer), strings.Join(bs, ",")}
		if n.Kind == "F" {
			var ix []string
			for _, kv := range n.Index {
				ix = append(ix, hx(kv[0])+":"+hx(kv[1]))
			}
			f = append(f, p.oref(n.Arguments), strings.Join(ix, ","))
		}
	case "E":
		f = []string{"E", p.rt(n), p.oref(n.Outer), p.ref(n.Object)}
	}
	return strings.Join(f, "|")
}

// refs lists a node's outgoing references in the order of Lean's Node.refs.
func refs(n *node) []int {
	var r []int
	add := func(i int) {
		if i >= 0 {
			r = append(r, i)
		}
	}
	addv := func(v otto.VerifC17Val) { add(v.Obj) }
	switch n.Kind {
	case "O":
		add(n.Proto)
		for _, p := range n.Props {
			switch p.Kind {
			case 'd':
				addv(p.Val)
			case 'a':
				add(p.Get)
				add(p.Set)
			}
		}
		switch n.PKind {
		case 'B':
			add(n.Target)
			addv(n.This)
			for _, a := range n.Args {
				addv(a)
			}
		case 'C', 'A':
			add(n.Stash)
		}
	case "D":
		for _, b := range n.Bindings {
			addv(b.Val)
		}
		add(n.Outer)
	case "F":
		for _, b := range n.Bindings {
			addv(b.Val)
		}
		add(n.Outer)
		add(n.Arguments)
	case "E":
		add(n.Outer)
		add(n.Object)
	}
	return r
}

// rawTokens: "R:<roots>" followed by one token per node.
func rawTokens(h *heap) []string {
	p := &printer{h: h, ref: strconv.Itoa, np: map[uintptr]int{}}
	var rs []string
	for _, r := range h.Roots {
		rs = append(rs, p.oref(r))
	}
	out := []string{"R:" + strings.Join(rs, ",")}
	for i := range h.Nodes {
		out = append(out, p.node(&h.Nodes[i]))
	}
	return out
}

// canonText mirrors Spec.canonText.
func canonText(h *heap) string {
	var order []int
	seen := make([]bool, len(h.Nodes))
	var visit func(i int)
	visit = func(i int) {
		if i < 0 || seen[i] {
			return
		}
		seen[i] = true
		order = append(order, i)
		for _, j := range refs(&h.Nodes[i]) {
			visit(j)
		}
	}
	for _, r := range h.Roots {
		visit(r)
	}
	num := make([]int, len(h.Nodes))
	k := 0
	var numbered []int
	for _, i := range order {
		if h.Nodes[i].Kind == "E" {
			num[i] = -1
			continue
		}
		num[i] = k
		k++
		numbered = append(numbered, i)
	}
	p := &printer{h: h, np: map[uintptr]int{}}
	var cref func(i int, fuel int) string
	cref = func(i int, fuel int) string {
		if fuel == 0 {
			return "!"
		}
		n := &h.Nodes[i]
		if n.Kind == "E" {
			o := "-"
			if n.Outer >= 0 {
				o = cref(n.Outer, fuel-1)
			}
			return "E" + p.rt(n) + "(" + o + "~" + cref(n.Object, fuel-1) + ")"
		}
		return strconv.Itoa(num[i])
	}
	p.ref = func(i int) string { return cref(i, 64) }
	var rs []string
	for _, r := range h.Roots {
		rs = append(rs, p.oref(r))
	}
	// node-literal numbers must follow first occurrence in canonical order: the root line has none
	parts := []string{"R:" + strings.Join(rs, ",")}
	for _, i := range numbered {
		parts = append(parts, p.node(&h.Nodes[i]))
	}
	return strings.Join(parts, " ")
}

func fnv1a(s string) uint64 {
	h := uint64(14695981039346656037)
	for i := 0; i < len(s); i++ {
		h ^= uint64(s[i])
		h *= 1099511628211
	}
	return h
}

func observe(h *heap) string { return strconv.FormatUint(fnv1a(canonText(h)), 10) }

// identity dump: raw tokens plus every node's Go pointer – equal iff nothing reachable changed
// and nothing was re-allocated.
func identityText(h *heap) string {
	var b strings.Builder
	for _, t := range rawTokens(h) {
		b.WriteString(t)
		b.WriteByte(' ')
	}
	for i := range h.Nodes {
		fmt.Fprintf(&b, "%x,", h.Nodes[i].Ptr)
	}
	return b.String()
}

type ptrKey struct {
	kind string
	ptr  uintptr
}

func ptrSet(hs ...*heap) map[ptrKey]bool {
	m := map[ptrKey]bool{}
	for _, h := range hs {
		for i := range h.Nodes {
			m[ptrKey{h.Nodes[i].Kind, h.Nodes[i].Ptr}] = true
		}
	}
	return m
}

func overlapCount(h *heap, older map[ptrKey]bool) int {
	n := 0
	for i := range h.Nodes {
		if older[ptrKey{h.Nodes[i].Kind, h.Nodes[i].Ptr}] {
			n++
		}
	}
	return n
}
