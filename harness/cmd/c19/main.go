// Command c19 is the correspondence harness binary for property C19.
package main

import "ottoverif/h"

func main() { h.Main("C19") }
